// Package c10 checks (*sfnt.Font).Subset and (*cff.Outlines).Subset against
// the Coq model C10/Model.v.
//
// Every case is an *abstract font* (the type the Coq model works on) plus a
// glyph list.  The harness builds a real *sfnt.Font from the abstract font,
// runs the real Subset, projects the result back to an abstract font and
// prints it in a canonical form in which every glyph reference is pulled back
// to the glyph id of the original font (so that the order in which the Go
// code happens to append extra glyphs - it iterates over maps - does not
// show).  The oracle (oracle.go) states the property clauses directly on the
// real fonts and does not use the abstract projection of the model.
package c10

import (
	"fmt"
	"sort"

	"seehuhn.de/go/sfnt/verifharness/vlib"
)

// Glyph is one glyph record of the abstract font.
type Glyph struct {
	O     int   // outline id (opaque; stored inside the real outline)
	W     int   // advance width
	N     int   // name id (0 = ".notdef", k = "n<k>")
	C     int   // CID (CID-keyed fonts)
	FD    int   // index into Privs (CFF)
	Comps []int // component glyph ids (TrueType composites)
}

type CMap struct {
	PID, EID, Fmt int
	M             [][2]int // (code, gid), sorted by code
}

type Lig struct {
	In  []int
	Out int
}

type LigSet struct {
	First int
	Ligs  []Lig
}

// MultiEnt is one entry of a multiple (2.1) or alternate (3.1) substitution.
type MultiEnt struct {
	G    int
	Outs []int
}

// GsubSub is one GSUB subtable: kind "s1" (format 1.1: coverage set + delta),
// "s2" (format 1.2: coverage-ordered pairs; produced by Subset, refused as
// input), "lig" (format 4.1), "mult" (format 2.1) or "alt" (format 3.1); the
// last two are refused by Subset.
type GsubSub struct {
	Kind  string
	Delta int
	Cov   []int
	S2    [][2]int
	Sets  []LigSet
	Multi []MultiEnt
}

type Kern struct{ L, R, V int }

type Desc struct {
	Kind   string // "glyf", "cff" (simple CFF) or "cid" (CID-keyed CFF)
	Glyphs []Glyph
	Privs  []int
	Mats   []int
	CMaps  []CMap
	Enc    []int // nil: no built-in encoding
	Gsub   [][]GsubSub
	Gpos   [][][]Kern
	// not part of the abstract font (the model does not see them):
	NoGsub, NoGpos, NoNames bool
	// Reread: the font is written and read back before Subset is called, so
	// that every glyph (in particular every blank one) is exactly what the
	// library's reader produces
	Reread bool
}

func ints(xs []int) vlib.Sx { return vlib.Ints(xs) }

func (d *Desc) glyphsSx() vlib.Sx {
	l := vlib.List{}
	for _, g := range d.Glyphs {
		l = append(l, vlib.L(vlib.Int(g.O), vlib.Int(g.W), vlib.Int(g.N), vlib.Int(g.C), vlib.Int(g.FD), ints(g.Comps)))
	}
	return l
}

func cmapEntriesSx(m [][2]int) vlib.Sx {
	l := vlib.List{}
	for _, e := range m {
		l = append(l, vlib.L(vlib.Int(e[0]), vlib.Int(e[1])))
	}
	return l
}

func (d *Desc) cmapsSx(withKeys bool) vlib.Sx {
	l := vlib.List{}
	for _, c := range d.CMaps {
		if withKeys {
			l = append(l, vlib.L(vlib.Int(c.PID), vlib.Int(c.EID), vlib.Int(c.Fmt), cmapEntriesSx(c.M)))
		} else {
			l = append(l, cmapEntriesSx(c.M))
		}
	}
	return l
}

func (d *Desc) encSx() vlib.Sx {
	if d.Enc == nil {
		return vlib.Atom("none")
	}
	return ints(d.Enc)
}

func subSx(s GsubSub) vlib.Sx {
	switch s.Kind {
	case "s1":
		return vlib.L(vlib.Atom("s1"), vlib.Int(s.Delta), ints(s.Cov))
	case "s2":
		l := vlib.List{}
		for _, e := range s.S2 {
			l = append(l, vlib.L(vlib.Int(e[0]), vlib.Int(e[1])))
		}
		return vlib.L(vlib.Atom("s2"), l)
	case "lig":
		l := vlib.List{}
		for _, set := range s.Sets {
			ll := vlib.List{}
			for _, lg := range set.Ligs {
				ll = append(ll, vlib.L(ints(lg.In), vlib.Int(lg.Out)))
			}
			l = append(l, vlib.L(vlib.Int(set.First), ll))
		}
		return vlib.L(vlib.Atom("lig"), l)
	case "mult", "alt":
		l := vlib.List{}
		for _, e := range s.Multi {
			l = append(l, vlib.L(vlib.Int(e.G), ints(e.Outs)))
		}
		return vlib.L(vlib.Atom(s.Kind), l)
	}
	return vlib.L(vlib.Atom("other"))
}

func (d *Desc) gsubSx() vlib.Sx {
	l := vlib.List{}
	for _, lk := range d.Gsub {
		ll := vlib.List{}
		for _, s := range lk {
			ll = append(ll, subSx(s))
		}
		l = append(l, ll)
	}
	return l
}

func (d *Desc) gposSx() vlib.Sx {
	l := vlib.List{}
	for _, lk := range d.Gpos {
		ll := vlib.List{}
		for _, st := range lk {
			lll := vlib.List{}
			for _, k := range st {
				lll = append(lll, vlib.L(vlib.Int(k.L), vlib.Int(k.R), vlib.Int(k.V)))
			}
			ll = append(ll, lll)
		}
		l = append(l, ll)
	}
	return l
}

func (d *Desc) flagsSx() vlib.Sx {
	if d.Reread {
		return vlib.L(vlib.Bool(d.NoGsub), vlib.Bool(d.NoGpos), vlib.Bool(d.NoNames), vlib.Bool(true))
	}
	return vlib.L(vlib.Bool(d.NoGsub), vlib.Bool(d.NoGpos), vlib.Bool(d.NoNames))
}

// CaseLine renders one case: selector ("font" = (*sfnt.Font).Subset, "cffsub"
// = (*cff.Outlines).Subset), the abstract font, the glyph list and the
// iteration-order oracle handed to the model.
func CaseLine(sel string, d *Desc, glyphs []int, orc []int) string {
	return vlib.Line(vlib.Atom(sel), vlib.Atom(d.Kind), d.glyphsSx(), ints(d.Privs), ints(d.Mats),
		d.cmapsSx(true), d.encSx(), d.gsubSx(), d.gposSx(), ints(glyphs), ints(orc), d.flagsSx())
}

// ---- parsing ----

func pairList(x vlib.Sx) ([][2]int, error) {
	l, err := vlib.AsList(x)
	if err != nil {
		return nil, err
	}
	out := make([][2]int, 0, len(l))
	for _, e := range l {
		p, err := vlib.AsInts(e)
		if err != nil || len(p) != 2 {
			return nil, fmt.Errorf("pair expected")
		}
		out = append(out, [2]int{p[0], p[1]})
	}
	return out, nil
}

func parseSub(x vlib.Sx) (GsubSub, error) {
	l, err := vlib.AsList(x)
	if err != nil || len(l) == 0 {
		return GsubSub{}, fmt.Errorf("bad subtable")
	}
	k, _ := vlib.AsAtom(l[0])
	switch k {
	case "s1":
		if len(l) != 3 {
			return GsubSub{}, fmt.Errorf("bad s1")
		}
		d, err := vlib.AsInt(l[1])
		if err != nil {
			return GsubSub{}, err
		}
		cov, err := vlib.AsInts(l[2])
		if err != nil {
			return GsubSub{}, err
		}
		return GsubSub{Kind: "s1", Delta: d, Cov: cov}, nil
	case "s2":
		if len(l) != 2 {
			return GsubSub{}, fmt.Errorf("bad s2")
		}
		pp, err := pairList(l[1])
		if err != nil {
			return GsubSub{}, err
		}
		return GsubSub{Kind: "s2", S2: pp}, nil
	case "lig":
		if len(l) != 2 {
			return GsubSub{}, fmt.Errorf("bad lig")
		}
		sets, err := vlib.AsList(l[1])
		if err != nil {
			return GsubSub{}, err
		}
		res := GsubSub{Kind: "lig"}
		for _, s := range sets {
			sl, err := vlib.AsList(s)
			if err != nil || len(sl) != 2 {
				return GsubSub{}, fmt.Errorf("bad ligature set")
			}
			first, err := vlib.AsInt(sl[0])
			if err != nil {
				return GsubSub{}, err
			}
			ligs, err := vlib.AsList(sl[1])
			if err != nil {
				return GsubSub{}, err
			}
			set := LigSet{First: first}
			for _, lg := range ligs {
				ll, err := vlib.AsList(lg)
				if err != nil || len(ll) != 2 {
					return GsubSub{}, fmt.Errorf("bad ligature")
				}
				in, err := vlib.AsInts(ll[0])
				if err != nil {
					return GsubSub{}, err
				}
				out, err := vlib.AsInt(ll[1])
				if err != nil {
					return GsubSub{}, err
				}
				set.Ligs = append(set.Ligs, Lig{In: in, Out: out})
			}
			res.Sets = append(res.Sets, set)
		}
		return res, nil
	case "mult", "alt":
		if len(l) != 2 {
			return GsubSub{}, fmt.Errorf("bad %s", k)
		}
		ents, err := vlib.AsList(l[1])
		if err != nil {
			return GsubSub{}, err
		}
		res := GsubSub{Kind: k}
		for _, e := range ents {
			el, err := vlib.AsList(e)
			if err != nil || len(el) != 2 {
				return GsubSub{}, fmt.Errorf("bad %s entry", k)
			}
			g, err := vlib.AsInt(el[0])
			if err != nil {
				return GsubSub{}, err
			}
			outs, err := vlib.AsInts(el[1])
			if err != nil {
				return GsubSub{}, err
			}
			res.Multi = append(res.Multi, MultiEnt{G: g, Outs: outs})
		}
		return res, nil
	}
	return GsubSub{}, fmt.Errorf("unknown subtable kind %q", k)
}

// ParseCase is the inverse of CaseLine.
func ParseCase(line string) (sel string, d *Desc, glyphs []int, orc []int, err error) {
	items, err := vlib.Parse(line)
	if err != nil {
		return "", nil, nil, nil, err
	}
	if len(items) != 12 {
		return "", nil, nil, nil, fmt.Errorf("C10 case: want 12 items, got %d", len(items))
	}
	sel, err = vlib.AsAtom(items[0])
	if err != nil {
		return
	}
	d = &Desc{}
	d.Kind, err = vlib.AsAtom(items[1])
	if err != nil {
		return
	}
	gl, err := vlib.AsList(items[2])
	if err != nil {
		return
	}
	for _, g := range gl {
		f, e := vlib.AsList(g)
		if e != nil || len(f) != 6 {
			err = fmt.Errorf("bad glyph record")
			return
		}
		var v [5]int
		for i := 0; i < 5; i++ {
			v[i], err = vlib.AsInt(f[i])
			if err != nil {
				return
			}
		}
		var cc []int
		cc, err = vlib.AsInts(f[5])
		if err != nil {
			return
		}
		d.Glyphs = append(d.Glyphs, Glyph{O: v[0], W: v[1], N: v[2], C: v[3], FD: v[4], Comps: cc})
	}
	if d.Privs, err = vlib.AsInts(items[3]); err != nil {
		return
	}
	if d.Mats, err = vlib.AsInts(items[4]); err != nil {
		return
	}
	cl, err := vlib.AsList(items[5])
	if err != nil {
		return
	}
	for _, c := range cl {
		f, e := vlib.AsList(c)
		if e != nil || len(f) != 4 {
			err = fmt.Errorf("bad cmap")
			return
		}
		var cm CMap
		if cm.PID, err = vlib.AsInt(f[0]); err != nil {
			return
		}
		if cm.EID, err = vlib.AsInt(f[1]); err != nil {
			return
		}
		if cm.Fmt, err = vlib.AsInt(f[2]); err != nil {
			return
		}
		if cm.M, err = pairList(f[3]); err != nil {
			return
		}
		d.CMaps = append(d.CMaps, cm)
	}
	if a, ok := items[6].(vlib.Atom); ok {
		if a != "none" {
			err = fmt.Errorf("bad encoding")
			return
		}
	} else {
		if d.Enc, err = vlib.AsInts(items[6]); err != nil {
			return
		}
		if d.Enc == nil {
			d.Enc = []int{}
		}
	}
	gs, err := vlib.AsList(items[7])
	if err != nil {
		return
	}
	for _, lk := range gs {
		subs, e := vlib.AsList(lk)
		if e != nil {
			err = e
			return
		}
		lookup := []GsubSub{}
		for _, s := range subs {
			var st GsubSub
			st, err = parseSub(s)
			if err != nil {
				return
			}
			lookup = append(lookup, st)
		}
		d.Gsub = append(d.Gsub, lookup)
	}
	gp, err := vlib.AsList(items[8])
	if err != nil {
		return
	}
	for _, lk := range gp {
		subs, e := vlib.AsList(lk)
		if e != nil {
			err = e
			return
		}
		lookup := [][]Kern{}
		for _, s := range subs {
			ents, e := vlib.AsList(s)
			if e != nil {
				err = e
				return
			}
			st := []Kern{}
			for _, en := range ents {
				t, e := vlib.AsInts(en)
				if e != nil || len(t) != 3 {
					err = fmt.Errorf("bad kerning entry")
					return
				}
				st = append(st, Kern{t[0], t[1], t[2]})
			}
			lookup = append(lookup, st)
		}
		d.Gpos = append(d.Gpos, lookup)
	}
	if glyphs, err = vlib.AsInts(items[9]); err != nil {
		return
	}
	if orc, err = vlib.AsInts(items[10]); err != nil {
		return
	}
	fl, err := vlib.AsList(items[11])
	if err != nil || (len(fl) != 3 && len(fl) != 4) {
		err = fmt.Errorf("bad flags")
		return
	}
	d.NoGsub, _ = vlib.AsBool(fl[0])
	d.NoGpos, _ = vlib.AsBool(fl[1])
	d.NoNames, _ = vlib.AsBool(fl[2])
	if len(fl) == 4 {
		d.Reread, _ = vlib.AsBool(fl[3])
	}
	return
}

// ---- canonical observation ----

// Observe prints the subset `sub` (projected to an abstract font) relative to
// the original `orig`: every reference to a glyph of the subset is replaced by
// the id of the original glyph carrying the same outline id; the appended
// extras and all finite maps are listed in increasing order of that id.
// n0 is the length of the glyph list given to Subset.
func Observe(orig, sub *Desc, n0 int) string {
	// A glyph with an outline is identified by its outline id.  Blank glyphs
	// (outline id 0: nil *glyf.Glyph, empty charstring) all carry the same id;
	// they are identified by the rest of the record (width, name, CID), which
	// the generator keeps distinct among the blank glyphs of one font.
	byOutline := map[int]int{}
	byBlank := map[[3]int]int{}
	for i, g := range orig.Glyphs {
		if g.O == 0 {
			k := [3]int{g.W, g.N, g.C}
			if _, dup := byBlank[k]; !dup {
				byBlank[k] = i
			}
			continue
		}
		if _, dup := byOutline[g.O]; !dup {
			byOutline[g.O] = i
		}
	}
	n := len(sub.Glyphs)
	old := func(j int) int {
		if j < 0 || j >= n {
			return 100000 + j
		}
		g := sub.Glyphs[j]
		if g.O == 0 {
			if i, ok := byBlank[[3]int{g.W, g.N, g.C}]; ok {
				return i
			}
			return 200000 + j
		}
		if i, ok := byOutline[g.O]; ok {
			return i
		}
		return 200000 + j
	}
	olds := func(js []int) []int {
		out := make([]int, len(js))
		for i, j := range js {
			out[i] = old(j)
		}
		return out
	}
	if n0 > n {
		n0 = n
	}
	order := make([]int, n)
	for i := range order {
		order[i] = i
	}
	ext := order[n0:]
	sort.SliceStable(ext, func(a, b int) bool { return old(ext[a]) < old(ext[b]) })

	sel := vlib.List{}
	for j := 0; j < n0; j++ {
		sel = append(sel, vlib.Int(old(j)))
	}
	extras := vlib.List{}
	for _, j := range ext {
		extras = append(extras, vlib.Int(old(j)))
	}
	glyphs := vlib.List{}
	for _, j := range order {
		g := sub.Glyphs[j]
		p, m := -1, -1
		if sub.Kind == "glyf" {
			p, m = 0, 0
		} else {
			if g.FD >= 0 && g.FD < len(sub.Privs) {
				p = sub.Privs[g.FD]
			}
			if sub.Kind == "cid" {
				if g.FD >= 0 && g.FD < len(sub.Mats) {
					m = sub.Mats[g.FD]
				}
			} else {
				m = 0
			}
		}
		glyphs = append(glyphs, vlib.L(vlib.Int(old(j)), vlib.Int(g.O), vlib.Int(g.W), vlib.Int(g.N), vlib.Int(g.C),
			vlib.Int(p), vlib.Int(m), ints(olds(g.Comps))))
	}
	// FDs as a sorted multiset of (private dict id, matrix id)
	type fd struct{ p, m int }
	var fds []fd
	for i, p := range sub.Privs {
		m := 0
		if sub.Kind == "cid" {
			m = -1
			if i < len(sub.Mats) {
				m = sub.Mats[i]
			}
		}
		fds = append(fds, fd{p, m})
	}
	sort.Slice(fds, func(a, b int) bool {
		if fds[a].p != fds[b].p {
			return fds[a].p < fds[b].p
		}
		return fds[a].m < fds[b].m
	})
	fdl := vlib.List{}
	for _, x := range fds {
		fdl = append(fdl, vlib.L(vlib.Int(x.p), vlib.Int(x.m)))
	}
	nmats := len(sub.Mats)

	cm := vlib.List{}
	for _, c := range sub.CMaps {
		l := vlib.List{}
		for _, e := range c.M {
			if e[1] == 0 {
				continue // "mapped to glyph 0" and "not mapped" are the same thing in a cmap
			}
			l = append(l, vlib.L(vlib.Int(e[0]), vlib.Int(old(e[1]))))
		}
		cm = append(cm, l)
	}
	var enc vlib.Sx = vlib.Atom("none")
	if sub.Enc != nil {
		enc = ints(olds(sub.Enc))
	}
	gs := vlib.List{}
	for _, lk := range sub.Gsub {
		ll := vlib.List{}
		for _, s := range lk {
			switch s.Kind {
			case "s1":
				cov := olds(s.Cov)
				sort.Ints(cov)
				ll = append(ll, vlib.L(vlib.Atom("s1"), vlib.Int(s.Delta), ints(cov)))
			case "s2":
				pp := make([][2]int, len(s.S2))
				for i, e := range s.S2 {
					pp[i] = [2]int{old(e[0]), old(e[1])}
				}
				sort.SliceStable(pp, func(a, b int) bool { return pp[a][0] < pp[b][0] })
				l := vlib.List{}
				for _, e := range pp {
					l = append(l, vlib.L(vlib.Int(e[0]), vlib.Int(e[1])))
				}
				ll = append(ll, vlib.L(vlib.Atom("s2"), l))
			case "lig":
				sets := make([]LigSet, len(s.Sets))
				for i, set := range s.Sets {
					sets[i] = LigSet{First: old(set.First)}
					for _, lg := range set.Ligs {
						sets[i].Ligs = append(sets[i].Ligs, Lig{In: olds(lg.In), Out: old(lg.Out)})
					}
				}
				sort.SliceStable(sets, func(a, b int) bool { return sets[a].First < sets[b].First })
				ll = append(ll, subSx(GsubSub{Kind: "lig", Sets: sets}))
			case "mult", "alt":
				ee := make([]MultiEnt, len(s.Multi))
				for i, e := range s.Multi {
					ee[i] = MultiEnt{G: old(e.G), Outs: olds(e.Outs)}
				}
				sort.SliceStable(ee, func(a, b int) bool { return ee[a].G < ee[b].G })
				ll = append(ll, subSx(GsubSub{Kind: s.Kind, Multi: ee}))
			default:
				ll = append(ll, vlib.L(vlib.Atom("other")))
			}
		}
		gs = append(gs, ll)
	}
	gp := vlib.List{}
	for _, lk := range sub.Gpos {
		ll := vlib.List{}
		for _, st := range lk {
			kk := make([]Kern, len(st))
			for i, k := range st {
				kk[i] = Kern{old(k.L), old(k.R), k.V}
			}
			sort.SliceStable(kk, func(a, b int) bool {
				if kk[a].L != kk[b].L {
					return kk[a].L < kk[b].L
				}
				return kk[a].R < kk[b].R
			})
			l := vlib.List{}
			for _, k := range kk {
				l = append(l, vlib.L(vlib.Int(k.L), vlib.Int(k.R), vlib.Int(k.V)))
			}
			ll = append(ll, l)
		}
		gp = append(gp, ll)
	}
	return vlib.Str(vlib.L(vlib.Atom("ok"), sel, extras, glyphs, fdl, vlib.Int(nmats), cm, enc, gs, gp))
}
