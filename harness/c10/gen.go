package c10

import (
	"fmt"
	"sort"

	"seehuhn.de/go/sfnt/verifharness/vlib"
)

type genOpts struct {
	kind      string
	n         int  // number of glyphs
	dangling  bool // allow references to glyphs that do not exist (malformed)
	cycles    bool // allow cyclic composite references (malformed)
	dense     bool // many rules / pairs / components
	wrapDelta bool // GSUB 1.1 deltas that wrap around 65536
	// blanks: 0 = at most one blank glyph (TrueType only, chance 1/3); 2 = many
	// blank glyphs (nil *glyf.Glyph / empty charstring) in every role: any
	// glyph is blank with chance 1/3 (glyph 0: 1/8), glyph 1 and the last glyph
	// more often, and composites prefer blank components
	blanks int
}

func perm(r *vlib.Rand, n int) []int {
	p := make([]int, n)
	for i := range p {
		p[i] = i
	}
	for i := n - 1; i > 0; i-- {
		j := r.Intn(i + 1)
		p[i], p[j] = p[j], p[i]
	}
	return p
}

// distinct returns n distinct values in [lo, hi] (n <= hi-lo+1).
func distinct(r *vlib.Rand, n, lo, hi int) []int {
	if 2*n > hi-lo+1 {
		p := perm(r, hi-lo+1)[:n]
		for i := range p {
			p[i] += lo
		}
		return p
	}
	seen := map[int]bool{}
	out := make([]int, 0, n)
	for len(out) < n {
		v := r.Range(lo, hi)
		if !seen[v] {
			seen[v] = true
			out = append(out, v)
		}
	}
	return out
}

func minInt(a, b int) int {
	if a < b {
		return a
	}
	return b
}

func maxInt(a, b int) int {
	if a > b {
		return a
	}
	return b
}

func someGlyph(r *vlib.Rand, o *genOpts) int {
	if o.dangling && r.Chance(1, 12) {
		return o.n + r.Intn(3)
	}
	return r.Intn(o.n)
}

func genFont(r *vlib.Rand, o *genOpts) *Desc {
	n := o.n
	d := &Desc{Kind: o.kind}
	outl := distinct(r, n, 1, maxInt(30000, n)) // at most 65535 (16 bits inside the outline)
	names := distinct(r, n, 1, maxInt(9999, 2*n))
	cids := distinct(r, n, 1, maxInt(60000, n))
	rank := perm(r, n) // composites only refer to glyphs of lower rank (unless cycles are allowed)
	nfd := 1
	if o.kind == "cid" {
		nfd = r.Range(1, 5)
	}
	if o.kind != "glyf" {
		d.Privs = distinct(r, nfd, 1, 500)
		if o.kind == "cid" {
			d.Mats = distinct(r, nfd, 0, 200)
		}
	}
	blank := make([]bool, n)
	if o.blanks == 0 {
		if o.kind == "glyf" && n > 2 && r.Chance(1, 3) {
			blank[r.Range(1, n-1)] = true
		}
	} else {
		for i := range blank {
			blank[i] = r.Chance(1, 3)
		}
		blank[0] = r.Chance(1, 8)
		if n > 1 && r.Bool() {
			blank[1] = true // the neighbour of .notdef
		}
		if n > 1 && r.Bool() {
			blank[n-1] = true // the end of the glyph list
		}
	}
	var blanks []int
	for i, b := range blank {
		if b {
			blanks = append(blanks, i)
		}
	}
	compChance := 3
	if o.dense {
		compChance = 2
	}
	for i := 0; i < n; i++ {
		g := Glyph{O: outl[i], W: r.Intn(2001), N: names[i], C: cids[i]}
		if i == 0 {
			g.N, g.C = 0, 0
		}
		if blank[i] {
			g.O = 0
			if r.Chance(1, 4) {
				g.W = 0 // zero-width blank
			}
		}
		switch o.kind {
		case "glyf":
			g.C = 0
			if !blank[i] && r.Chance(1, compChance) {
				k := r.Range(1, 4)
				for j := 0; j < k; j++ {
					c := someGlyph(r, o)
					if len(blanks) > 0 && o.blanks != 0 && r.Chance(2, 5) {
						c = blanks[r.Intn(len(blanks))] // a blank glyph has no components: no cycle
					} else if c < n && !o.cycles && rank[c] >= rank[i] {
						continue
					}
					g.Comps = append(g.Comps, c)
				}
			}
		case "cff":
			g.C = 0
		case "cid":
			g.N = names[i] // CID-keyed glyphs carry no usable names after a round trip, but Subset keeps the field
			g.FD = r.Intn(nfd)
		}
		d.Glyphs = append(d.Glyphs, g)
	}
	if o.kind == "glyf" && r.Chance(1, 4) {
		d.NoNames = true
	}
	if d.NoNames {
		for i := range d.Glyphs {
			d.Glyphs[i].N = 0
		}
	}
	distinctBlanks(r, d)

	// character maps
	type ck struct{ pid, eid, f int }
	choices := []ck{{0, 3, 4}, {3, 1, 4}, {0, 4, 12}, {3, 10, 12}}
	ncm := r.Intn(3)
	if r.Chance(1, 8) {
		ncm = 4
	}
	for _, i := range perm(r, 4)[:ncm] {
		c := choices[i]
		cm := CMap{PID: c.pid, EID: c.eid, Fmt: c.f}
		k := r.Intn(2*n + 2)
		if k > 600 {
			k = 600 // cmap format 4 has a segment limit (C09)
		}
		hi := 0xFFFE
		if c.f == 12 && r.Bool() {
			hi = 0x10FFFF
		}
		seen := map[int]bool{}
		for j := 0; j < k; j++ {
			code := r.Range(1, hi)
			if r.Bool() {
				top := 32 + 3*n // dense block: runs and shared glyphs
				if top > hi {
					top = hi
				}
				code = r.Range(32, top)
			}
			if seen[code] || n < 2 {
				continue
			}
			seen[code] = true
			cm.M = append(cm.M, [2]int{code, r.Range(1, n-1)})
		}
		sort.Slice(cm.M, func(a, b int) bool { return cm.M[a][0] < cm.M[b][0] })
		if cm.M == nil {
			cm.M = [][2]int{}
		}
		d.CMaps = append(d.CMaps, cm)
	}
	sort.Slice(d.CMaps, func(a, b int) bool {
		if d.CMaps[a].PID != d.CMaps[b].PID {
			return d.CMaps[a].PID < d.CMaps[b].PID
		}
		return d.CMaps[a].EID < d.CMaps[b].EID
	})

	// built-in encoding (simple CFF): glyphs 1..m carry distinct codes
	if o.kind == "cff" && r.Chance(2, 3) {
		d.Enc = make([]int, 256)
		m := r.Intn(n)
		if m > 200 {
			m = 200
		}
		codes := distinct(r, m, 0, 255)
		for g := 1; g <= m; g++ {
			d.Enc[codes[g-1]] = g
		}
	}

	// GSUB
	if r.Chance(1, 5) {
		d.NoGsub = true
	} else {
		nl := r.Range(1, 3)
		if o.dangling || o.cycles {
			nl = r.Intn(3) // also the degenerate table without lookups
		}
		for i := 0; i < nl; i++ {
			var lk []GsubSub
			lig := r.Bool()
			ns := r.Range(1, 2)
			for j := 0; j < ns; j++ {
				if lig {
					st := GsubSub{Kind: "lig"}
					k := r.Range(1, 3)
					if o.dense {
						k = r.Range(2, 6)
					}
					if k > n {
						k = n
					}
					firsts := distinct(r, k, 0, n-1)
					sort.Ints(firsts)
					for _, f := range firsts {
						set := LigSet{First: f}
						nlg := r.Range(1, 3)
						for q := 0; q < nlg; q++ {
							lg := Lig{Out: someGlyph(r, o)}
							m := r.Range(0, 3)
							for t := 0; t < m; t++ {
								lg.In = append(lg.In, someGlyph(r, o))
							}
							set.Ligs = append(set.Ligs, lg)
						}
						st.Sets = append(st.Sets, set)
					}
					lk = append(lk, st)
				} else {
					st := GsubSub{Kind: "s1", Delta: r.Range(1, n)}
					if o.wrapDelta && r.Bool() {
						st.Delta = 65536 - r.Range(1, n)
					}
					for g := 0; g < n; g++ {
						to := (g + st.Delta) % 65536
						if (to < n || o.dangling) && r.Chance(1, 3) {
							st.Cov = append(st.Cov, g)
						}
					}
					lk = append(lk, st)
				}
			}
			d.Gsub = append(d.Gsub, lk)
		}
	}

	// GPOS
	if r.Chance(1, 5) {
		d.NoGpos = true
	} else {
		nl := r.Range(1, 2)
		if o.dangling || o.cycles {
			nl = r.Intn(3)
		}
		for i := 0; i < nl; i++ {
			var lk [][]Kern
			ns := r.Range(1, 2)
			for j := 0; j < ns; j++ {
				st := []Kern{}
				k := r.Intn(n + 2)
				if o.dense {
					k = r.Intn(3*n + 2)
				}
				seen := map[[2]int]bool{}
				for q := 0; q < k; q++ {
					l, rr := someGlyph(r, o), someGlyph(r, o)
					if seen[[2]int{l, rr}] {
						continue
					}
					seen[[2]int{l, rr}] = true
					st = append(st, Kern{l, rr, r.Range(-500, 500)})
				}
				sort.Slice(st, func(a, b int) bool {
					if st[a].L != st[b].L {
						return st[a].L < st[b].L
					}
					return st[a].R < st[b].R
				})
				lk = append(lk, st)
			}
			d.Gpos = append(d.Gpos, lk)
		}
	}
	return d
}

// distinctBlanks makes the blank glyphs of the font pairwise different in
// (width, name, CID): all of them have the same (empty) outline, so this is
// what tells them apart - for the harness and for anybody else.  Equal widths
// (space / nbspace) stay possible wherever names or CIDs differ.
func distinctBlanks(r *vlib.Rand, d *Desc) {
	seen := map[[3]int]bool{}
	for i := range d.Glyphs {
		g := &d.Glyphs[i]
		if g.O != 0 {
			continue
		}
		for seen[[3]int{g.W, g.N, g.C}] {
			g.W = r.Intn(2001)
		}
		seen[[3]int{g.W, g.N, g.C}] = true
	}
}

// genList returns a duplicate-free glyph list starting with 0.
func genList(r *vlib.Rand, n int) []int {
	p := perm(r, n)
	k := r.Range(0, n-1)
	switch r.Intn(6) {
	case 0:
		k = n - 1 // every glyph, in some order
	case 1:
		if k > 3 {
			k = r.Range(0, 3)
		}
	}
	out := []int{0}
	for _, g := range p {
		if g != 0 && len(out) <= k {
			out = append(out, g)
		}
	}
	if r.Chance(1, 6) {
		sort.Ints(out)
	}
	return out
}

func genOrc(r *vlib.Rand) []int {
	if r.Chance(1, 4) {
		return nil
	}
	k := r.Intn(12)
	out := make([]int, k)
	for i := range out {
		out[i] = r.Intn(1000)
	}
	return out
}

// Gen writes the run for the given tier.
func Gen(run *vlib.Run, seed uint64, tier string) {
	run.Rule = "abstract font + glyph list; non-trivial = the subset drops at least one glyph and at least one of: an extra glyph is appended (composite component or rule output), a cmap entry is dropped and one re-indexed, a kerning pair or ligature among retained glyphs is re-keyed, several FDs are re-indexed; distinct by case line"
	r := vlib.NewRand(seed)
	kinds := []string{"glyf", "cff", "cid"}

	// (i) structured valid fonts
	nv := vlib.Count(tier, 700, 12000)
	for i := 0; i < nv; i++ {
		rr := r.Fork(fmt.Sprint("v", i))
		o := &genOpts{kind: kinds[i%3], n: rr.Range(1, 14), dense: rr.Chance(1, 3), wrapDelta: rr.Chance(1, 4)}
		if rr.Chance(1, 10) {
			o.n = rr.Range(15, 60)
		}
		if rr.Chance(1, 3) {
			o.blanks = 2
		}
		d := genFont(rr, o)
		gl := genList(rr, o.n)
		if rr.Chance(1, 4) {
			// the same font as the library's reader returns it
			if e, ok := ViaReader(d); ok {
				d = e
			}
		}
		one(run, "font", d, gl, genOrc(rr), "valid", "kind:"+o.kind)
		if o.kind != "glyf" && rr.Chance(1, 3) {
			one(run, "cffsub", d, gl, nil, "valid", "cffsub", "kind:"+o.kind)
		}
	}

	// (vi) blank glyphs in every role.  TrueType: blank glyphs (nil
	// *glyf.Glyph) as listed glyphs, as first / middle / last / only component,
	// shared between composites, reachable only through nested composites,
	// with USE_MY_METRICS, next to glyph 0 and at the end of the glyph list;
	// every font both as built in memory and as the reader returns it after
	// Write.  CFF: glyphs with empty charstrings, listed and not listed.
	nbl := vlib.Count(tier, 45, 900)
	for i := 0; i < nbl; i++ {
		rr := r.Fork(fmt.Sprint("k", i))
		d, lists, ll := blankFont(rr)
		e, okE := ViaReader(d)
		for j, gl := range lists {
			if j >= 3 && !rr.Chance(1, 2) {
				continue
			}
			one(run, "font", d, gl, genOrc(rr), "blank-glyphs", "kind:glyf", ll[j])
			if okE {
				one(run, "font", e, gl, genOrc(rr), "blank-glyphs", "kind:glyf", ll[j])
			}
		}
	}
	nbc := vlib.Count(tier, 60, 1200)
	for i := 0; i < nbc; i++ {
		rr := r.Fork(fmt.Sprint("kc", i))
		o := &genOpts{kind: kinds[1+i%2], n: rr.Range(2, 12), blanks: 2, dense: rr.Bool()}
		d := genFont(rr, o)
		gl := genList(rr, o.n)
		one(run, "font", d, gl, genOrc(rr), "blank-glyphs", "kind:"+o.kind)
		if e, ok := ViaReader(d); ok {
			one(run, "font", e, gl, genOrc(rr), "blank-glyphs", "kind:"+o.kind)
			if rr.Bool() {
				one(run, "cffsub", e, gl, nil, "blank-glyphs", "cffsub", "kind:"+o.kind)
			}
		}
	}

	// (vii) layout data the subsetter does not declare supported: GSUB 1.2,
	// 2.1 and 3.1 subtables (SubsetGsub collects their rules and then panics
	// "not implemented" when it rebuilds the table), among them the GSUB table
	// of a subset (1.1 subtables come out as 1.2).  The oracle accepts a panic
	// or a subset that satisfies every clause; the model must agree.
	nu := vlib.Count(tier, 48, 720)
	for i := 0; i < nu; i++ {
		rr := r.Fork(fmt.Sprint("u", i))
		o := &genOpts{kind: kinds[i%3], n: rr.Range(3, 10), blanks: 2 * rr.Intn(2)}
		d := genFont(rr, o)
		gl := genList(rr, o.n)
		what := []string{"s2", "mult", "alt", "subset-of-subset"}[i%4]
		if what == "subset-of-subset" {
			d.NoGsub = false
			d.Gsub = [][]GsubSub{{{Kind: "s1", Delta: 1, Cov: []int{0, 1}}}}
			if rr.Bool() {
				d.Gsub = append(d.Gsub, []GsubSub{{Kind: "lig", Sets: []LigSet{{First: 1, Ligs: []Lig{{In: []int{0}, Out: 2}}}}}})
			}
			res, err := runImpl("font", d, gl)
			if err != nil || res.sub == nil {
				continue
			}
			e := Project(res.sub)
			if CaseLine("font", e, nil, nil) != func() string {
				f, err := Build(e)
				if err != nil {
					return ""
				}
				return CaseLine("font", Project(f), nil, nil)
			}() {
				continue
			}
			gl2 := genList(rr, len(e.Glyphs))
			one(run, "font", e, gl2, genOrc(rr), "unsupported", "gsub:1.2-from-a-subset", "kind:"+o.kind)
			continue
		}
		st := GsubSub{Kind: what}
		k := rr.Range(1, 3)
		if k > o.n {
			k = o.n
		}
		firsts := distinct(rr, k, 0, o.n-1)
		sort.Ints(firsts)
		for _, g := range firsts {
			switch what {
			case "s2":
				st.S2 = append(st.S2, [2]int{g, rr.Intn(o.n)})
			case "mult":
				e := MultiEnt{G: g, Outs: []int{}}
				for q := rr.Range(1, 3); q > 0; q-- {
					e.Outs = append(e.Outs, rr.Intn(o.n))
				}
				st.Multi = append(st.Multi, e)
			default:
				e := MultiEnt{G: g, Outs: distinct(rr, rr.Range(1, minInt(3, o.n)), 0, o.n-1)}
				st.Multi = append(st.Multi, e)
			}
		}
		d.NoGsub = false
		pos := rr.Intn(len(d.Gsub) + 1)
		d.Gsub = append(d.Gsub[:pos:pos], append([][]GsubSub{{st}}, d.Gsub[pos:]...)...)
		label := map[string]string{"s2": "gsub:1.2", "mult": "gsub:2.1", "alt": "gsub:3.1"}[what]
		one(run, "font", d, gl, genOrc(rr), "unsupported", label, "kind:"+o.kind)
	}

	// (viii) character maps beyond formats 4 and 12 under Unicode keys:
	// format 6 (decoded into a cmap.Format4, re-encoded as format 4) and the
	// Macintosh key (1,0) with one-byte codes on both sides of 0x80 are
	// handled like any other subtable and compared with the model; format 0
	// is refused (panic), subtables the library cannot decode (formats 2, 8,
	// 10, 13, 14) are left out of the subset (oracle only).
	nc := vlib.Count(tier, 48, 600)
	for i := 0; i < nc; i++ {
		rr := r.Fork(fmt.Sprint("c", i))
		o := &genOpts{kind: kinds[i%3], n: rr.Range(2, 12)}
		d := genFont(rr, o)
		gl := genList(rr, o.n)
		// one-byte codes, on both sides of 0x80 (where Mac Roman and Unicode part)
		ascii := func(fmtNo, pid, eid int) CMap {
			cm := CMap{PID: pid, EID: eid, Fmt: fmtNo, M: [][2]int{}}
			lo := rr.Range(1, 230)
			for c := lo; c < lo+rr.Range(1, 40) && c < 256; c++ {
				if rr.Chance(2, 3) {
					cm.M = append(cm.M, [2]int{c, rr.Range(1, o.n-1)})
				}
			}
			return cm
		}
		var extra CMap
		label := ""
		oracleOnly := false
		switch i % 8 {
		case 0:
			extra, label = ascii(6, 0, 3), "cmap:format6"
		case 1:
			extra, label = ascii(6, 1, 0), "cmap:format6-mac"
		case 2:
			extra, label = ascii(4, 1, 0), "cmap:format4-mac"
		case 3:
			extra, label, oracleOnly = ascii(0, 1, 0), "cmap:format0-mac", true
		case 4:
			extra, label, oracleOnly = ascii(0, 0, 3), "cmap:format0", true
		case 5:
			extra, label, oracleOnly = CMap{PID: 0, EID: 5, Fmt: []int{2, 8, 10, 13, 14}[rr.Intn(5)], M: [][2]int{}}, "cmap:undecodable-format", true
		case 6:
			extra, label = ascii(12, 1, 0), "cmap:format12-mac"
		case 7:
			// format 6 with the largest code and a gap
			extra, label = CMap{PID: 3, EID: 1, Fmt: 6, M: [][2]int{{0xFFF0, 1}, {0xFFF3, o.n - 1}, {0xFFFF, 1}}}, "cmap:format6-top"
		}
		var cms []CMap
		for _, c := range d.CMaps {
			if c.PID != extra.PID || c.EID != extra.EID {
				cms = append(cms, c)
			}
		}
		cms = append(cms, extra)
		sort.Slice(cms, func(a, b int) bool {
			if cms[a].PID != cms[b].PID {
				return cms[a].PID < cms[b].PID
			}
			return cms[a].EID < cms[b].EID
		})
		d.CMaps = cms
		if oracleOnly {
			oneOracleOnly(run, "font", d, gl, "cmap-kinds", label, "kind:"+o.kind)
		} else {
			one(run, "font", d, gl, genOrc(rr), "cmap-kinds", label, "kind:"+o.kind)
		}
	}

	// (ii) malformed stream: lists with duplicates / not starting with 0 / ids
	// out of range, dangling references, cyclic composites
	nm := vlib.Count(tier, 200, 3000)
	for i := 0; i < nm; i++ {
		rr := r.Fork(fmt.Sprint("m", i))
		o := &genOpts{kind: kinds[i%3], n: rr.Range(1, 10), dense: rr.Bool()}
		what := rr.Intn(5)
		switch what {
		case 0:
			o.dangling = true
		case 1:
			o.cycles = true
		}
		d := genFont(rr, o)
		gl := genList(rr, o.n)
		label := "malformed:font"
		switch what {
		case 2:
			if len(gl) > 0 {
				gl = append(gl, gl[rr.Intn(len(gl))])
			}
			label = "malformed:dup-list"
		case 3:
			gl = append(gl, o.n+rr.Intn(3))
			label = "malformed:list-out-of-range"
		case 4:
			if len(gl) > 1 {
				gl[0], gl[len(gl)-1] = gl[len(gl)-1], gl[0]
			} else {
				gl = nil
			}
			label = "malformed:not-notdef-first"
		}
		one(run, "font", d, gl, genOrc(rr), label, "kind:"+o.kind)
	}

	// (iii) boundary stream: one-glyph fonts, the list [0], every glyph in
	// font order and reversed, deltas that wrap around 65536, cmap codes at the
	// format limits, every code of the built-in encoding in use
	nb := vlib.Count(tier, 60, 900)
	for i := 0; i < nb; i++ {
		rr := r.Fork(fmt.Sprint("b", i))
		o := &genOpts{kind: kinds[i%3], n: rr.Range(2, 12), dense: true, wrapDelta: true}
		var gl []int
		label := ""
		switch i % 6 {
		case 0:
			o.n = 1
			label = "boundary:one-glyph-font"
		case 1:
			label = "boundary:list-only-notdef"
		case 2:
			label = "boundary:all-glyphs-in-order"
		case 3:
			label = "boundary:all-glyphs-reversed"
		case 4:
			label = "boundary:cmap-code-limits"
		case 5:
			o.kind = "cff"
			o.n = rr.Range(257, 300)
			label = "boundary:encoding-full"
		}
		d := genFont(rr, o)
		switch i % 6 {
		case 0, 1:
			gl = []int{0}
		case 2:
			for g := 0; g < o.n; g++ {
				gl = append(gl, g)
			}
		case 3:
			gl = []int{0}
			for g := o.n - 1; g > 0; g-- {
				gl = append(gl, g)
			}
		case 4:
			d.CMaps = []CMap{
				{PID: 0, EID: 4, Fmt: 12, M: [][2]int{{1, 1}, {0xFFFF, o.n - 1}, {0x10000, 1}, {0x10FFFF, o.n - 1}}},
				{PID: 3, EID: 1, Fmt: 4, M: [][2]int{{1, o.n - 1}, {0xFFFE, 1}, {0xFFFF, o.n - 1}}},
			}
			gl = genList(rr, o.n)
		case 5:
			d.Enc = make([]int, 256)
			for c := 0; c < 256; c++ {
				d.Enc[c] = 1 + (c*7)%255 // glyphs 1..255, each with one code, plus code sharing
			}
			d.Enc[255] = 255
			gl = genList(rr, o.n)
		}
		one(run, "font", d, gl, genOrc(rr), label, "kind:"+o.kind)
	}

	// (v) deep closures: chains of substitution rules feeding each other
	// (several rounds of the nMissing loop) and deeply nested composites
	nd := vlib.Count(tier, 90, 1800)
	for i := 0; i < nd; i++ {
		rr := r.Fork(fmt.Sprint("d", i))
		kind := kinds[i%3]
		n := rr.Range(6, 24)
		o := &genOpts{kind: kind, n: n}
		d := genFont(rr, o)
		d.NoGsub = false
		d.Gsub = nil
		for g := range d.Glyphs {
			d.Glyphs[g].Comps = nil
		}
		order := perm(rr, n-1) // a random chain through the glyphs 1..n-1
		for j := range order {
			order[j]++
		}
		// single substitutions along the chain where the step happens to be constant
		var ligs GsubSub
		ligs.Kind = "lig"
		sets := map[int][]Lig{}
		singles := map[int][]int{}
		for j := 0; j+2 < len(order); j++ {
			a, b, c := order[j], order[j+1], order[j+2]
			switch rr.Intn(3) {
			case 0: // a b -> c
				sets[a] = append(sets[a], Lig{In: []int{b}, Out: c})
			case 1: // b -> c  (delta c-b mod 65536)
				dl := ((c-b)%65536 + 65536) % 65536
				singles[dl] = append(singles[dl], b)
			default: // b a b -> c
				sets[b] = append(sets[b], Lig{In: []int{a, b}, Out: c})
			}
			if kind == "glyf" && d.Glyphs[a].O != 0 && rr.Chance(2, 3) {
				d.Glyphs[a].Comps = append(d.Glyphs[a].Comps, b) // nested along the chain: no cycle
			}
		}
		var firsts []int
		for f := range sets {
			firsts = append(firsts, f)
		}
		sort.Ints(firsts)
		for _, f := range firsts {
			ligs.Sets = append(ligs.Sets, LigSet{First: f, Ligs: sets[f]})
		}
		var deltas []int
		for dl := range singles {
			deltas = append(deltas, dl)
		}
		sort.Ints(deltas)
		var lk1 []GsubSub
		for _, dl := range deltas {
			cov := singles[dl]
			sort.Ints(cov)
			cov = dedupInts(cov)
			ok := true
			for _, g := range cov {
				if (g+dl)%65536 >= n {
					ok = false
				}
			}
			if ok && dl != 0 {
				lk1 = append(lk1, GsubSub{Kind: "s1", Delta: dl, Cov: cov})
			}
		}
		if len(lk1) > 0 {
			d.Gsub = append(d.Gsub, lk1)
		}
		if len(ligs.Sets) > 0 {
			d.Gsub = append(d.Gsub, []GsubSub{ligs})
		}
		if kind == "glyf" && i%2 == 1 {
			d.Gsub = nil // composites only: the nesting decides what is appended
		}
		if len(d.Gsub) == 0 {
			d.NoGsub = true
		}
		gl := []int{0, order[0], order[1]}
		if rr.Bool() {
			gl = append(gl, order[len(order)/2])
		}
		gl = dedupKeepOrder(gl)
		one(run, "font", d, gl, genOrc(rr), "deep", "kind:"+kind)
	}

	// (iv) large fonts (compared with the model) ...
	nlg := vlib.Count(tier, 6, 60)
	for i := 0; i < nlg; i++ {
		rr := r.Fork(fmt.Sprint("l", i))
		o := &genOpts{kind: kinds[i%3], n: rr.Range(200, 700), dense: rr.Bool(), wrapDelta: rr.Bool()}
		d := genFont(rr, o)
		one(run, "font", d, genList(rr, o.n), genOrc(rr), "large", "kind:"+o.kind)
	}
	// ... and very large ones, up to the uint16 limit of glyph ids (oracle only:
	// the association-list model is quadratic)
	if tier == "thorough" {
		for i, n := range []int{5000, 20000, 65535, 65535} {
			rr := r.Fork(fmt.Sprint("h", i))
			o := &genOpts{kind: kinds[i%3], n: n, wrapDelta: true}
			d := genFont(rr, o)
			var gl []int
			if i == 2 {
				gl = []int{0}
				for g := n - 1; g > 0; g-- { // every glyph: new ids run up to 65534
					gl = append(gl, g)
				}
			} else {
				gl = genList(rr, n)
			}
			oneOracleOnly(run, "font", d, gl, "huge", fmt.Sprintf("glyphs:%d", n), "kind:"+o.kind)
		}
	}
}

func dedupInts(xs []int) []int {
	var out []int
	for i, x := range xs {
		if i == 0 || x != xs[i-1] {
			out = append(out, x)
		}
	}
	return out
}

func dedupKeepOrder(xs []int) []int {
	seen := map[int]bool{}
	var out []int
	for _, x := range xs {
		if !seen[x] {
			seen[x] = true
			out = append(out, x)
		}
	}
	return out
}

// ---- blank glyphs in every role ----

// blankFont builds a TrueType font whose composites use blank glyphs (nil
// *glyf.Glyph) as first / middle / last / only component, shared between
// composites and reachable only through nested composites, with blank glyphs
// next to glyph 0 and at the end of the glyph list.  It returns the font and
// glyph lists that select the composites with and without their blank
// components.
func blankFont(r *vlib.Rand) (d *Desc, lists [][]int, listLabels []string) {
	n := r.Range(8, 16)
	d = genFont(r, &genOpts{kind: "glyf", n: n, dense: r.Bool()})
	for i := range d.Glyphs {
		d.Glyphs[i].Comps = nil
		if d.Glyphs[i].O == 0 {
			d.Glyphs[i].O = 40000 + i
		}
	}
	if r.Bool() {
		d.NoGsub, d.Gsub = true, nil // the composites alone decide what is appended
	}
	ids := perm(r, n-1)
	for i := range ids {
		ids[i]++
	}
	isBlank := map[int]bool{}
	if r.Bool() {
		isBlank[1] = true
	}
	if r.Bool() {
		isBlank[n-1] = true
	}
	if r.Chance(1, 8) {
		isBlank[0] = true
	}
	for _, g := range ids[:r.Range(1, 3)] {
		isBlank[g] = true
	}
	var blanks, rest []int
	for g := 0; g < n; g++ {
		if isBlank[g] {
			blanks = append(blanks, g)
		} else if g != 0 {
			rest = append(rest, g)
		}
	}
	for i := len(rest) - 1; i > 0; i-- {
		j := r.Intn(i + 1)
		rest[i], rest[j] = rest[j], rest[i]
	}
	for _, b := range blanks {
		d.Glyphs[b].O = 0
		switch r.Intn(4) {
		case 0:
			d.Glyphs[b].W = 0
		case 1:
			d.Glyphs[b].W = d.Glyphs[0].W // the same metrics as .notdef
		}
	}
	take := func() int {
		if len(rest) == 0 {
			return -1
		}
		g := rest[0]
		rest = rest[1:]
		return g
	}
	nInner := r.Range(1, 3)
	var inner, outer []int
	for i := 0; i < nInner; i++ {
		if g := take(); g >= 0 {
			inner = append(inner, g)
		}
	}
	for i := r.Intn(3); i > 0; i-- {
		if len(rest) > 2 {
			outer = append(outer, take())
		}
	}
	simple := append([]int{0}, rest...) // what is left has an outline of its own (glyph 0 may be blank)
	pickSimple := func() int { return simple[r.Intn(len(simple))] }
	shared := blanks[r.Intn(len(blanks))]
	pickBlank := func() int {
		if r.Chance(2, 3) {
			return shared
		}
		return blanks[r.Intn(len(blanks))]
	}
	for _, c := range inner {
		b := pickBlank()
		switch r.Intn(6) {
		case 0:
			d.Glyphs[c].Comps = []int{b}
		case 1:
			d.Glyphs[c].Comps = []int{b, pickSimple(), pickSimple()}
		case 2:
			d.Glyphs[c].Comps = []int{pickSimple(), b, pickSimple()}
		case 3:
			d.Glyphs[c].Comps = []int{pickSimple(), pickSimple(), b}
		case 4:
			d.Glyphs[c].Comps = []int{b, pickSimple(), blanks[r.Intn(len(blanks))]}
		default:
			d.Glyphs[c].Comps = []int{pickSimple(), b, b}
		}
	}
	for i, c := range outer {
		in := inner[r.Intn(len(inner))]
		switch r.Intn(4) {
		case 0:
			d.Glyphs[c].Comps = []int{in}
		case 1:
			d.Glyphs[c].Comps = []int{pickSimple(), in}
		case 2:
			d.Glyphs[c].Comps = []int{in, inner[r.Intn(len(inner))]}
		default:
			if i > 0 {
				d.Glyphs[c].Comps = []int{outer[i-1]} // three levels
			} else {
				d.Glyphs[c].Comps = []int{in, pickSimple()}
			}
		}
	}
	distinctBlanks(r, d)

	shuffled := func(xs []int) []int {
		out := append([]int{}, xs...)
		for i := len(out) - 1; i > 0; i-- {
			j := r.Intn(i + 1)
			out[i], out[j] = out[j], out[i]
		}
		return out
	}
	noZero := func(xs []int) []int {
		var out []int
		for _, x := range xs {
			if x != 0 {
				out = append(out, x)
			}
		}
		return out
	}
	add := func(l []int, label string) {
		lists = append(lists, dedupKeepOrder(append([]int{0}, l...)))
		listLabels = append(listLabels, label)
	}
	add(shuffled(inner), "list:composites-without-their-blank-components")
	if len(outer) > 0 {
		add(shuffled(outer), "list:outer-composites-only")
		add([]int{outer[len(outer)-1]}, "list:one-outer-composite")
	}
	add(append(shuffled(noZero(blanks)), shuffled(append(append([]int{}, inner...), outer...))...), "list:blanks-then-composites")
	add(append(shuffled(append(append([]int{}, inner...), outer...)), shuffled(noZero(blanks))...), "list:composites-then-blanks")
	add(noZero(blanks), "list:blanks-only")
	all := make([]int, 0, n)
	for g := n - 1; g > 0; g-- {
		all = append(all, g)
	}
	add(all, "list:all-reversed")
	add(genList(r, n)[1:], "list:random")
	return d, lists, listLabels
}

// roleLabels describes which roles blank glyphs (and which kinds of component
// records) play in the case, for the distribution shown in the evidence.
func roleLabels(d *Desc, glyphs []int) []string {
	n := len(d.Glyphs)
	var out []string
	add := func(s string) {
		for _, x := range out {
			if x == s {
				return
			}
		}
		out = append(out, s)
	}
	if d.Reread {
		add("font:written-and-reread")
	} else {
		add("font:in-memory")
	}
	anyBlank := false
	for i, g := range d.Glyphs {
		if g.O == 0 && len(g.Comps) == 0 {
			anyBlank = true
			if i == 0 {
				add("blank:glyph0")
			}
			if i == 1 {
				add("blank:after-glyph0")
			}
			if i == n-1 && i > 0 {
				add("blank:last-glyph")
			}
		}
	}
	if !anyBlank {
		return out
	}
	isBlank := func(g int) bool { return g >= 0 && g < n && d.Glyphs[g].O == 0 && len(d.Glyphs[g].Comps) == 0 }
	listed := map[int]bool{}
	for _, g := range glyphs {
		listed[g] = true
		if isBlank(g) {
			add("blank:listed")
			if d.Kind != "glyf" {
				add("blank:empty-charstring-listed")
			}
		}
	}
	if d.Kind != "glyf" {
		add("blank:empty-charstring")
		return out
	}
	// composite closure of the list (rule outputs aside)
	depth := map[int]int{}
	var order []int
	for _, g := range glyphs {
		if g >= 0 && g < n {
			if _, ok := depth[g]; !ok {
				depth[g] = 0
				order = append(order, g)
			}
		}
	}
	users := map[int]int{}
	for i := 0; i < len(order); i++ {
		g := order[i]
		cc := d.Glyphs[g].Comps
		for k, c := range cc {
			if c < 0 || c >= n {
				continue
			}
			if isBlank(c) {
				users[c]++
				switch {
				case len(cc) == 1:
					add("blank:only-component")
				case k == 0:
					add("blank:first-component")
				case k == len(cc)-1:
					add("blank:last-component")
				default:
					add("blank:middle-component")
				}
				if compUseMyMetrics(d.Glyphs[g].O, k) {
					add("blank:component-with-USE_MY_METRICS")
				}
				if !listed[c] {
					add("blank:component-not-listed")
					if depth[g] >= 1 {
						add("blank:component-of-unlisted-nested-composite")
					}
				}
			}
			if _, ok := depth[c]; !ok {
				depth[c] = depth[g] + 1
				order = append(order, c)
			}
		}
		if len(cc) > 0 {
			o := d.Glyphs[g].O
			if compInstructions(o) != nil {
				add("composite:instructions")
			}
			for k := range cc {
				fl, _ := compEncoding(o, k, len(cc))
				switch {
				case fl&0x0008 != 0:
					add("composite:scale")
				case fl&0x0040 != 0:
					add("composite:xy-scale")
				case fl&0x0080 != 0:
					add("composite:2x2")
				}
				if fl&0x0002 == 0 {
					add("composite:point-arguments")
				}
			}
		}
	}
	for _, k := range users {
		if k >= 2 {
			add("blank:shared-between-composites")
		}
	}
	return out
}
