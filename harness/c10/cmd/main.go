package main

import (
	"seehuhn.de/go/sfnt/verifharness/c10"
	"seehuhn.de/go/sfnt/verifharness/vlib"
)

func main() { vlib.Main(c10.Gen, c10.RunCase) }
