package c10

import (
	"errors"
	"fmt"
	"time"

	"seehuhn.de/go/sfnt"
	"seehuhn.de/go/sfnt/cff"
	"seehuhn.de/go/sfnt/glyph"
	"seehuhn.de/go/sfnt/verifharness/vlib"
)

// result of running the implementation on one case
type implResult struct {
	obs      string     // canonical observation (model syntax)
	orig     *sfnt.Font // the font Subset was called on
	sub      *sfnt.Font // nil after a panic
	subCFF   *cff.Outlines
	paniced  bool
	panicMsg string
}

func toGIDs(xs []int) []glyph.ID {
	out := make([]glyph.ID, len(xs))
	for i, x := range xs {
		out[i] = glyph.ID(x)
	}
	return out
}

// withTimeout runs fn in a goroutine so that a hang of the code under test is
// an observation, not a stuck check.
func withTimeout(d time.Duration, fn func()) (timedOut bool) {
	done := make(chan struct{})
	go func() {
		defer close(done)
		fn()
	}()
	select {
	case <-done:
		return false
	case <-time.After(d):
		return true
	}
}

// runImpl builds the real font, calls the real Subset and projects the result.
func runImpl(sel string, d *Desc, glyphs []int) (res implResult, err error) {
	f, err := Build(d)
	if err != nil {
		return res, err
	}
	res.orig = f
	// the case line must describe the font exactly: re-project and compare
	if a, b := CaseLine(sel, Project(f), nil, nil), CaseLine(sel, normalise(d), nil, nil); a != b {
		i := 0
		for i < len(a) && i < len(b) && a[i] == b[i] {
			i++
		}
		lo := i - 120
		if lo < 0 {
			lo = 0
		}
		cut := func(x string) string {
			hi := i + 120
			if hi > len(x) {
				hi = len(x)
			}
			return x[lo:hi]
		}
		return res, fmt.Errorf("case is not a fixed point of build/project (first difference at %d):\n projected: ...%s...\n case:      ...%s...", i, cut(a), cut(b))
	}
	gids := toGIDs(glyphs)
	var sub *sfnt.Font
	hung := withTimeout(20*time.Second, func() {
		defer func() {
			if e := recover(); e != nil {
				res.paniced = true
				res.panicMsg = fmt.Sprint(e)
			}
		}()
		switch sel {
		case "font":
			sub = f.Subset(gids)
		case "cffsub":
			o, ok := f.Outlines.(*cff.Outlines)
			if !ok {
				panic("cffsub on a non-CFF font")
			}
			so := o.Subset(gids)
			sub = f.Clone()
			sub.Outlines = so
			sub.CMapTable = nil
			sub.Gsub = nil
			sub.Gpos = nil
			res.subCFF = so
		default:
			panic("unknown selector")
		}
	})
	if hung {
		res.obs = "hang"
		return res, nil
	}
	if res.paniced {
		res.obs = "panic"
		return res, nil
	}
	res.sub = sub
	func() {
		defer func() {
			if e := recover(); e != nil {
				res.obs = "unprojectable"
			}
		}()
		res.obs = Observe(normalise(d), Project(sub), len(glyphs))
	}()
	return res, nil
}

// normalise gives the descriptor the shape Project produces (nil vs empty
// slices do not matter for the case line; flags implied by the kind).
func normalise(d *Desc) *Desc {
	c := *d
	if c.Kind != "glyf" {
		c.NoNames = false
	}
	return &c
}

// RunCase re-executes one case line.
func RunCase(line string) (impl string, fail string, sig string, err error) {
	sel, d, glyphs, _, err := ParseCase(line)
	if err != nil {
		return "", "", "", err
	}
	if sel != "font" && sel != "cffsub" {
		return "", "", "", errors.New("C10 case: unknown selector " + sel)
	}
	res, err := runImpl(sel, d, glyphs)
	if err != nil {
		return "", "", "", err
	}
	fail, sig = oracle(sel, d, glyphs, &res)
	return res.obs, fail, sig, nil
}

func one(run *vlib.Run, sel string, d *Desc, glyphs []int, orc []int, labels ...string) {
	cl := CaseLine(sel, d, glyphs, orc)
	res, err := runImpl(sel, d, glyphs)
	if err != nil {
		// a generator bug, not an observation of the code under test
		panic(err)
	}
	nt, more := nontrivial(sel, d, glyphs, &res)
	labels = append(labels, more...)
	idx := run.Add(cl, res.obs, nt, labels...)
	if fail, sig := oracle(sel, d, glyphs, &res); fail != "" {
		run.Fail(idx, cl, fail, sig)
	}
}

// oneOracleOnly runs implementation and oracle on an input the model does not
// cover (size); the case line starts with "!" and is not given to the model.
func oneOracleOnly(run *vlib.Run, sel string, d *Desc, glyphs []int, labels ...string) {
	cl := "!" + CaseLine(sel, d, glyphs, nil)
	res, err := runImpl(sel, d, glyphs)
	if err != nil {
		panic(err)
	}
	nt, more := nontrivial(sel, d, glyphs, &res)
	labels = append(labels, more...)
	obs := res.obs
	if len(obs) > 200 {
		obs = "(ok ...)"
	}
	idx := run.Add(cl, obs, nt, labels...)
	if fail, sig := oracle(sel, d, glyphs, &res); fail != "" {
		run.Fail(idx, cl, fail, sig)
	}
}
