package c10

import (
	"bytes"
	"errors"
	"fmt"
	"strings"
	"time"

	"seehuhn.de/go/sfnt"
	"seehuhn.de/go/sfnt/cff"
	"seehuhn.de/go/sfnt/glyph"
	"seehuhn.de/go/sfnt/verifharness/vlib"
)

// result of running the implementation on one case
type implResult struct {
	obs      string     // canonical observation (model syntax)
	orig     *sfnt.Font // the font Subset was called on
	sub      *sfnt.Font // nil after a panic
	subCFF   *cff.Outlines
	paniced  bool
	panicMsg string
}

func toGIDs(xs []int) []glyph.ID {
	out := make([]glyph.ID, len(xs))
	for i, x := range xs {
		out[i] = glyph.ID(x)
	}
	return out
}

// withTimeout runs fn in a goroutine so that a hang of the code under test is
// an observation, not a stuck check.
func withTimeout(d time.Duration, fn func()) (timedOut bool) {
	done := make(chan struct{})
	go func() {
		defer close(done)
		fn()
	}()
	select {
	case <-done:
		return false
	case <-time.After(d):
		return true
	}
}

// runImpl builds the real font, calls the real Subset and projects the result.
func runImpl(sel string, d *Desc, glyphs []int) (res implResult, err error) {
	f, err := Build(d)
	if err != nil {
		return res, err
	}
	if d.Reread {
		// subset what the library's reader makes of the font
		f, err = writeAndRead(f)
		if err != nil {
			return res, fmt.Errorf("reread case: %v", err)
		}
	}
	res.orig = f
	// the case line must describe the font exactly: re-project and compare
	if a, b := CaseLine(sel, Project(f), nil, nil), CaseLine(sel, normalise(d), nil, nil); a != b {
		i := 0
		for i < len(a) && i < len(b) && a[i] == b[i] {
			i++
		}
		lo := i - 120
		if lo < 0 {
			lo = 0
		}
		cut := func(x string) string {
			hi := i + 120
			if hi > len(x) {
				hi = len(x)
			}
			return x[lo:hi]
		}
		return res, fmt.Errorf("case is not a fixed point of build/project (first difference at %d):\n projected: ...%s...\n case:      ...%s...", i, cut(a), cut(b))
	}
	gids := toGIDs(glyphs)
	var sub *sfnt.Font
	hung := withTimeout(20*time.Second, func() {
		defer func() {
			if e := recover(); e != nil {
				res.paniced = true
				res.panicMsg = fmt.Sprint(e)
			}
		}()
		switch sel {
		case "font":
			sub = f.Subset(gids)
		case "cffsub":
			o, ok := f.Outlines.(*cff.Outlines)
			if !ok {
				panic("cffsub on a non-CFF font")
			}
			so := o.Subset(gids)
			sub = f.Clone()
			sub.Outlines = so
			sub.CMapTable = nil
			sub.Gsub = nil
			sub.Gpos = nil
			res.subCFF = so
		default:
			panic("unknown selector")
		}
	})
	if hung {
		res.obs = "hang"
		return res, nil
	}
	if res.paniced {
		res.obs = "panic"
		return res, nil
	}
	res.sub = sub
	func() {
		defer func() {
			if e := recover(); e != nil {
				res.obs = "unprojectable"
			}
		}()
		res.obs = Observe(normalise(d), Project(sub), len(glyphs))
	}()
	return res, nil
}

// writeAndRead returns the font as sfnt.Read returns it after sfnt.Write.
func writeAndRead(f *sfnt.Font) (back *sfnt.Font, err error) {
	defer func() {
		if e := recover(); e != nil {
			back, err = nil, fmt.Errorf("panic: %v", e)
		}
	}()
	var buf bytes.Buffer
	if _, err := f.Write(&buf); err != nil {
		return nil, err
	}
	return sfnt.Read(bytes.NewReader(buf.Bytes()))
}

// ViaReader returns the descriptor of the font the reader produces from the
// written font described by d (ok = false when the font cannot be written or
// read back, or when the result is not stable under another round trip).
func ViaReader(d *Desc) (*Desc, bool) {
	f, err := Build(d)
	if err != nil {
		return nil, false
	}
	back, err := writeAndRead(f)
	if err != nil {
		return nil, false
	}
	var e *Desc
	func() {
		defer func() { recover() }()
		e = Project(back)
	}()
	if e == nil || len(e.Glyphs) != len(d.Glyphs) {
		return nil, false
	}
	e.Reread = true
	// stable: building e and reading it back gives e again
	f2, err := Build(e)
	if err != nil {
		return nil, false
	}
	back2, err := writeAndRead(f2)
	if err != nil {
		return nil, false
	}
	if CaseLine("font", Project(back2), nil, nil) != CaseLine("font", normalise(e), nil, nil) {
		return nil, false
	}
	return e, true
}

// normalise gives the descriptor the shape Project produces (nil vs empty
// slices do not matter for the case line; flags implied by the kind).
func normalise(d *Desc) *Desc {
	c := *d
	if c.Kind != "glyf" {
		c.NoNames = false
	}
	c.Reread = false // Project does not know where the font came from
	return &c
}

// RunCase re-executes one case line.
func RunCase(line string) (impl string, fail string, sig string, err error) {
	// "!" marks oracle-only cases (not given to the model)
	line = strings.TrimPrefix(strings.TrimSpace(line), "!")
	sel, d, glyphs, _, err := ParseCase(line)
	if err != nil {
		return "", "", "", err
	}
	if sel != "font" && sel != "cffsub" {
		return "", "", "", errors.New("C10 case: unknown selector " + sel)
	}
	res, err := runImpl(sel, d, glyphs)
	if err != nil {
		if strings.Contains(err.Error(), "not a fixed point of build/project") {
			return "build-not-faithful", "the font built from the description does not project back to it: " + err.Error(), "c10-build-not-faithful", nil
		}
		return "", "", "", err
	}
	fail, sig = oracle(sel, d, glyphs, &res)
	return res.obs, fail, sig, nil
}

// The run keeps at most 200 oracle failures: at most 24 per signature are
// reported, so that one class of failures (the open finding, say) cannot
// crowd out another.
var failCount = map[string]int{}

func report(run *vlib.Run, idx int, cl, fail, sig string) {
	failCount[sig]++
	run.Extra["oracle_failures_by_signature"] = failCount // all of them, reported or not
	if failCount[sig] <= 24 {
		run.Fail(idx, cl, fail, sig)
	}
}

func one(run *vlib.Run, sel string, d *Desc, glyphs []int, orc []int, labels ...string) {
	cl := CaseLine(sel, d, glyphs, orc)
	res, err := runImpl(sel, d, glyphs)
	if err != nil {
		if strings.Contains(err.Error(), "not a fixed point of build/project") {
			// The font built from the description (through the library's own
			// cmap / outline / layout structures) does not show the content
			// it was built from: on the unchanged tree this never happens, so
			// it is an observation of the code under test, not of the
			// generator - the original font already maps characters or holds
			// glyphs other than those described, and no statement about the
			// subset can be evaluated.
			idx := run.Add("!"+cl, "build-not-faithful", true, append(labels, "build-not-faithful")...)
			report(run, idx, "!"+cl, "the font built from the description does not project back to it: "+err.Error(), "c10-build-not-faithful")
			return
		}
		// a generator bug, not an observation of the code under test
		panic(err)
	}
	nt, more := nontrivial(sel, d, glyphs, &res)
	labels = append(labels, more...)
	idx := run.Add(cl, res.obs, nt, labels...)
	if fail, sig := oracle(sel, d, glyphs, &res); fail != "" {
		report(run, idx, cl, fail, sig)
	}
}

// oneOracleOnly runs implementation and oracle on an input the model does not
// cover (size); the case line starts with "!" and is not given to the model.
func oneOracleOnly(run *vlib.Run, sel string, d *Desc, glyphs []int, labels ...string) {
	cl := "!" + CaseLine(sel, d, glyphs, nil)
	res, err := runImpl(sel, d, glyphs)
	if err != nil {
		panic(err)
	}
	nt, more := nontrivial(sel, d, glyphs, &res)
	labels = append(labels, more...)
	obs := res.obs
	if len(obs) > 200 {
		obs = "(ok ...)"
	}
	idx := run.Add(cl, obs, nt, labels...)
	if fail, sig := oracle(sel, d, glyphs, &res); fail != "" {
		report(run, idx, cl, fail, sig)
	}
}
