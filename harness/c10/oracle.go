package c10

import (
	"bytes"
	"fmt"
	"reflect"
	"sort"
	"strings"

	"seehuhn.de/go/sfnt"
	"seehuhn.de/go/sfnt/cff"
	"seehuhn.de/go/sfnt/cmap"
	"seehuhn.de/go/sfnt/glyf"
	"seehuhn.de/go/sfnt/glyph"
	"seehuhn.de/go/sfnt/opentype/gtab"
	"seehuhn.de/go/sfnt/verifharness/vlib"
)

// The oracle states the clauses of C10 directly on the real objects
// (original font, glyph list, subset).  It does not use the abstract
// projection that is compared with the model, and it uses the real shaping
// engine (gtab.Context) for "kerning pairs and ligature rules keep their
// meaning under the new numbering".

// Signatures of the failures (stable; the first failing clause decides).
const (
	sigPanic     = "c10-subset-panics"
	sigGlyph     = "c10-glyph-not-original"
	sigExtras    = "c10-extras-not-closure"
	sigComposite = "c10-composite-reference"
	sigCMap      = "c10-cmap-not-exact"
	sigEncoding  = "c10-encoding-not-transferred"
	sigKerning   = "c10-kerning-does-not-commute"
	sigGsub      = "c10-substitution-does-not-commute"
	sigLayout    = "c10-layout-structure-changed"
	sigWrite     = "c10-subset-not-writable"
	sigReread    = "c10-subset-changes-on-reread"
	// fixed finding (fixes/C01-blank-glyf-table.diff): Read rejected a font
	// whose glyf table has length 0
	sigAllBlank = "c10-all-blank-subset-unreadable"
	// fixed finding (fixes/C10-mac-cmap-codes.diff): the codes of a Macintosh
	// cmap subtable were replaced by their Unicode translations
	sigMacCMap = "c10-mac-cmap-codes-translated"
	// an undecodable cmap subtable (format 2, 8, 10, 13, 14) is neither
	// dropped nor refused
	sigCMapKept = "c10-undecodable-cmap-kept"
	// open finding: CFF cannot encode "glyph k has a code, glyph j<k has none"
	sigEncContig = "cff-subset-builtin-encoding-not-contiguous"
)

// inDomain reports whether the case lies inside the quantifier of C10:
// duplicate-free list starting with 0, ids in range, every reference of the
// font in range, only supported layout data.
func inDomain(d *Desc, glyphs []int) bool {
	in, mayRefuse := domain(d, glyphs)
	return in && !mayRefuse
}

// domain: in = the clauses of C10 can be asked of this case; mayRefuse = the
// font carries data the subsetter does not declare supported (GSUB 1.2 / 2.1 /
// 3.1 subtables, a cmap subtable of format 0): Subset may refuse it loudly (a
// panic), but if it returns a subset every clause must hold of it - silently
// losing the rules or the characters is not acceptable.
func domain(d *Desc, glyphs []int) (in, mayRefuse bool) {
	n := len(d.Glyphs)
	if len(glyphs) == 0 || glyphs[0] != 0 {
		return false, false
	}
	seen := map[int]bool{}
	for _, g := range glyphs {
		if g < 0 || g >= n || seen[g] {
			return false, false
		}
		seen[g] = true
	}
	// a GSUB/GPOS table without any lookup (hence without features) carries no
	// layout data; how such degenerate tables are written is C08's subject
	if (!d.NoGsub && len(d.Gsub) == 0) || (!d.NoGpos && len(d.Gpos) == 0) {
		return false, false
	}
	ok := func(g int) bool { return g >= 0 && g < n }
	for _, g := range d.Glyphs {
		for _, c := range g.Comps {
			if !ok(c) {
				return false, false
			}
		}
		if d.Kind != "glyf" && (g.FD < 0 || g.FD >= len(d.Privs)) {
			return false, false
		}
	}
	for _, lk := range d.Gsub {
		for _, s := range lk {
			switch s.Kind {
			case "s1":
				for _, g := range s.Cov {
					if !ok(g) || !ok((g+s.Delta)%65536) {
						return false, false
					}
				}
			case "lig":
				for _, set := range s.Sets {
					if !ok(set.First) {
						return false, false
					}
					for _, lg := range set.Ligs {
						if !ok(lg.Out) {
							return false, false
						}
						for _, x := range lg.In {
							if !ok(x) {
								return false, false
							}
						}
					}
				}
			case "s2":
				mayRefuse = true
				for _, e := range s.S2 {
					if !ok(e[0]) || !ok(e[1]) {
						return false, false
					}
				}
			case "mult", "alt":
				mayRefuse = true
				for _, e := range s.Multi {
					if !ok(e.G) {
						return false, false
					}
					for _, x := range e.Outs {
						if !ok(x) {
							return false, false
						}
					}
				}
			default:
				return false, false
			}
		}
	}
	for _, lk := range d.Gpos {
		for _, st := range lk {
			for _, k := range st {
				if !ok(k.L) || !ok(k.R) {
					return false, false
				}
			}
		}
	}
	for _, c := range d.CMaps {
		switch c.Fmt {
		case 4, 6, 12:
		case 0:
			mayRefuse = true
		case 2, 8, 10, 13, 14:
			// not decodable: the cmap clause asks that the subtable is dropped
		default:
			return false, false
		}
	}
	return true, mayRefuse
}

type rule struct {
	in  []glyph.ID
	out []glyph.ID
}

// gsubRules lists the substitution rules of the real GSUB table.
func gsubRules(info *gtab.Info) []rule {
	var rr []rule
	if info == nil {
		return nil
	}
	for _, t := range info.LookupList {
		for _, s := range t.Subtables {
			switch s := s.(type) {
			case *gtab.Gsub1_1:
				for g := range s.Cov {
					rr = append(rr, rule{[]glyph.ID{g}, []glyph.ID{g + s.Delta}})
				}
			case *gtab.Gsub1_2:
				for g, idx := range s.Cov {
					rr = append(rr, rule{[]glyph.ID{g}, []glyph.ID{s.SubstituteGlyphIDs[idx]}})
				}
			case *gtab.Gsub2_1:
				for g, idx := range s.Cov {
					rr = append(rr, rule{[]glyph.ID{g}, s.Repl[idx]})
				}
			case *gtab.Gsub3_1:
				for g, idx := range s.Cov {
					rr = append(rr, rule{[]glyph.ID{g}, s.Alternates[idx]})
				}
			case *gtab.Gsub4_1:
				for g, idx := range s.Cov {
					for _, lg := range s.Repl[idx] {
						in := append([]glyph.ID{g}, lg.In...)
						rr = append(rr, rule{in, []glyph.ID{lg.Out}})
					}
				}
			}
		}
	}
	return rr
}

// closure computes, from the property text: the listed glyphs, plus the
// outputs of rules all of whose inputs are present (to a fixed point), plus -
// for TrueType - all components of those, recursively.
func closure(f *sfnt.Font, list []glyph.ID) (r1, r2 map[glyph.ID]bool) {
	r1 = map[glyph.ID]bool{}
	for _, g := range list {
		r1[g] = true
	}
	rules := gsubRules(f.Gsub)
	for changed := true; changed; {
		changed = false
		for _, r := range rules {
			all := true
			for _, g := range r.in {
				if !r1[g] {
					all = false
				}
			}
			if all {
				for _, o := range r.out {
					if !r1[o] {
						r1[o] = true
						changed = true
					}
				}
			}
		}
	}
	r2 = map[glyph.ID]bool{}
	for g := range r1 {
		r2[g] = true
	}
	if o, ok := f.Outlines.(*glyf.Outlines); ok {
		for changed := true; changed; {
			changed = false
			for g := range r2 {
				for _, c := range o.Glyphs[g].Components() {
					if !r2[c] {
						r2[c] = true
						changed = true
					}
				}
			}
		}
	}
	return r1, r2
}

// sameGlyf: equal outline data, ignoring the component glyph indices.
func sameGlyf(a, b *glyf.Glyph) bool {
	if a == nil || b == nil {
		return a == nil && b == nil
	}
	if a.Rect16 != b.Rect16 {
		return false
	}
	switch da := a.Data.(type) {
	case glyf.SimpleGlyph:
		db, ok := b.Data.(glyf.SimpleGlyph)
		return ok && da.NumContours == db.NumContours && bytes.Equal(da.Encoded, db.Encoded)
	case glyf.CompositeGlyph:
		db, ok := b.Data.(glyf.CompositeGlyph)
		if !ok || len(da.Components) != len(db.Components) || !bytes.Equal(da.Instructions, db.Instructions) {
			return false
		}
		for i := range da.Components {
			if da.Components[i].Flags != db.Components[i].Flags || !bytes.Equal(da.Components[i].Data, db.Components[i].Data) {
				return false
			}
		}
		return true
	}
	return false
}

// cmapEntries reads a cmap subtable as it stands: code -> glyph.  (Table.Get
// translates the codes of Macintosh subtables to Unicode; what a code means
// is not the subsetter's business, it has to keep the codes.)
func cmapEntries(t cmap.Table, key cmap.Key) (map[uint32]glyph.ID, error) {
	raw, ok := t[key]
	if !ok {
		return nil, fmt.Errorf("no such subtable")
	}
	st, err := rawCMap(raw)
	if err != nil {
		return nil, err
	}
	res := map[uint32]glyph.ID{}
	switch m := st.(type) {
	case cmap.Format4:
		for c, g := range m {
			res[uint32(c)] = g
		}
	case cmap.Format12:
		for c, g := range m {
			res[c] = g
		}
	case *cmap.Format0:
		for c, g := range m.Data {
			if g != 0 {
				res[uint32(c)] = glyph.ID(g)
			}
		}
	default:
		return nil, fmt.Errorf("unexpected cmap subtable type %T", st)
	}
	return res, nil
}

func infoSeq(gg []glyph.ID) []glyph.Info {
	seq := make([]glyph.Info, len(gg))
	for i, g := range gg {
		seq[i] = glyph.Info{GID: g}
	}
	return seq
}

type shaped struct {
	g       glyph.ID
	adv, xo int
}

func shape(info *gtab.Info, lookups []gtab.LookupIndex, gg []glyph.ID) (out []shaped, paniced bool) {
	defer func() {
		if recover() != nil {
			paniced = true
		}
	}()
	res := gtab.NewContext(info.LookupList, nil, lookups).Apply(infoSeq(gg))
	for _, x := range res {
		out = append(out, shaped{x.GID, int(x.Advance), int(x.XOffset)})
	}
	return out, false
}

// commutes checks, with the real shaping engine, that applying the lookups of
// the original table to sequences of glyphs from `dom` and renumbering gives
// the same as renumbering and applying the lookups of the subset table.
func commutes(oldInfo, newInfo *gtab.Info, newGid map[glyph.ID]glyph.ID, dom []glyph.ID, extraSeqs [][]glyph.ID, r *vlib.Rand) string {
	if oldInfo == nil || newInfo == nil {
		if (oldInfo == nil) != (newInfo == nil) {
			return "table present in only one of the two fonts"
		}
		return ""
	}
	if len(oldInfo.LookupList) != len(newInfo.LookupList) {
		return fmt.Sprintf("%d lookups became %d (feature records refer to lookups by index)", len(oldInfo.LookupList), len(newInfo.LookupList))
	}
	seqs := append([][]glyph.ID{}, extraSeqs...)
	if len(dom) > 0 {
		for i := 0; i < 24; i++ {
			k := r.Intn(7)
			s := make([]glyph.ID, k)
			for j := range s {
				s[j] = dom[r.Intn(len(dom))]
			}
			seqs = append(seqs, s)
		}
	}
	var sets [][]gtab.LookupIndex
	var all []gtab.LookupIndex
	for i := range oldInfo.LookupList {
		sets = append(sets, []gtab.LookupIndex{gtab.LookupIndex(i)})
		all = append(all, gtab.LookupIndex(i))
	}
	if len(all) > 1 {
		sets = append(sets, all)
	}
	for _, lookups := range sets {
		for _, s := range seqs {
			a, pa := shape(oldInfo, lookups, s)
			ren := make([]glyph.ID, len(s))
			for i, g := range s {
				ren[i] = newGid[g]
			}
			b, pb := shape(newInfo, lookups, ren)
			if pa {
				continue // the original table cannot shape this sequence: nothing to preserve
			}
			if pb {
				return fmt.Sprintf("lookups %v panic on the renumbered sequence %v (original sequence %v)", lookups, ren, s)
			}
			ok := len(a) == len(b)
			for i := 0; ok && i < len(a); i++ {
				ng, has := newGid[a[i].g]
				if !has || ng != b[i].g || a[i].adv != b[i].adv || a[i].xo != b[i].xo {
					ok = false
				}
			}
			if !ok {
				return fmt.Sprintf("lookups %v on %v: original gives %v, subset gives %v on %v", lookups, s, a, b, ren)
			}
		}
	}
	return ""
}

func sameLayoutFrame(a, b *gtab.Info) bool {
	if a == nil || b == nil {
		return a == nil && b == nil
	}
	if !reflect.DeepEqual(a.ScriptList, b.ScriptList) || !reflect.DeepEqual(a.FeatureList, b.FeatureList) {
		return false
	}
	if len(a.LookupList) != len(b.LookupList) {
		return false
	}
	for i := range a.LookupList {
		if !reflect.DeepEqual(a.LookupList[i].Meta, b.LookupList[i].Meta) {
			return false
		}
	}
	return true
}

func sorted(m map[glyph.ID]bool) []glyph.ID {
	var out []glyph.ID
	for g := range m {
		out = append(out, g)
	}
	sort.Slice(out, func(i, j int) bool { return out[i] < out[j] })
	return out
}

// oracle returns ("", "") when the property holds on this case (or the case
// is outside the property's domain).
func oracle(sel string, d *Desc, glyphs []int, res *implResult) (fail, sig string) {
	in, mayRefuse := domain(d, glyphs)
	if !in {
		return "", ""
	}
	if res.obs == "hang" {
		return "Subset did not return within 20s", sigPanic
	}
	if res.paniced {
		if mayRefuse {
			return "", "" // a loud refusal of data the subsetter does not support
		}
		return "Subset panics: " + res.panicMsg, sigPanic
	}
	defer func() {
		if e := recover(); e != nil && fail == "" {
			fail, sig = fmt.Sprint("the subset font cannot be inspected: ", e), sigGlyph
		}
	}()
	f, s := res.orig, res.sub
	list := toGIDs(glyphs)
	r1, r2 := closure(f, list)
	if sel == "cffsub" {
		r1 = map[glyph.ID]bool{}
		for _, g := range list {
			r1[g] = true
		}
		r2 = r1
	}
	n := s.NumGlyphs()
	if n < len(list) {
		return fmt.Sprintf("subset has %d glyphs, list has %d", n, len(list)), sigGlyph
	}

	// --- which original glyph is new glyph i?  listed: by position; extras:
	// the unique original glyph with the same outline data
	oldOf := make([]glyph.ID, n)
	copy(oldOf, list)
	switch so := s.Outlines.(type) {
	case *glyf.Outlines:
		fo := f.Outlines.(*glyf.Outlines)
		// Several original glyphs can carry the same outline data (all blank
		// glyphs do): among those, prefer the one with the same width and
		// name, not yet in the subset, and needed.
		taken := map[glyph.ID]bool{}
		for _, g := range list {
			taken[g] = true
		}
		for i := len(list); i < n; i++ {
			best, bestScore := -1, 99
			for j := range fo.Glyphs {
				if !sameGlyf(so.Glyphs[i], fo.Glyphs[j]) {
					continue
				}
				score := 0
				if i < len(so.Widths) && j < len(fo.Widths) && so.Widths[i] != fo.Widths[j] {
					score += 4
				}
				if so.Names != nil && fo.Names != nil && i < len(so.Names) && j < len(fo.Names) && so.Names[i] != fo.Names[j] {
					score += 4
				}
				if taken[glyph.ID(j)] {
					score += 2
				}
				if !r2[glyph.ID(j)] {
					score++
				}
				if score < bestScore {
					best, bestScore = j, score
				}
			}
			if best < 0 {
				return fmt.Sprintf("appended glyph %d matches no original outline", i), sigExtras
			}
			oldOf[i] = glyph.ID(best)
			taken[glyph.ID(best)] = true
		}
	case *cff.Outlines:
		fo := f.Outlines.(*cff.Outlines)
		for i := len(list); i < n; i++ {
			found := -1
			for j := range fo.Glyphs {
				if so.Glyphs[i] == fo.Glyphs[j] {
					found = j
					break
				}
			}
			if found < 0 {
				return fmt.Sprintf("appended glyph %d is not a glyph of the original", i), sigExtras
			}
			oldOf[i] = glyph.ID(found)
		}
	default:
		return "subset has no outlines", sigGlyph
	}
	newGid := map[glyph.ID]glyph.ID{}
	for i, g := range oldOf {
		if _, dup := newGid[g]; dup {
			return fmt.Sprintf("original glyph %d occurs twice in the subset", g), sigExtras
		}
		newGid[g] = glyph.ID(i)
	}

	// --- clause: every composite reference leads to the same component as
	// before.  Stated on what the reference *leads to* (outline data or
	// blankness, advance width, name of the referenced glyph), not on glyph
	// numbers: a reference re-pointed to another glyph (say glyph 0, which is
	// always there) is noticed whether or not that glyph is retained.
	if so, ok := s.Outlines.(*glyf.Outlines); ok {
		if msg := componentsIdentical(f.Outlines.(*glyf.Outlines), so, oldOf, "in memory"); msg != "" {
			return msg, sigComposite
		}
	}

	// --- clause: extras are exactly what is needed
	for g := range r2 {
		if _, ok := newGid[g]; !ok {
			return fmt.Sprintf("glyph %d is needed (component / rule output) but missing from the subset", g), sigExtras
		}
	}
	for i := len(list); i < n; i++ {
		if !r2[oldOf[i]] {
			return fmt.Sprintf("appended glyph %d (original %d) is not needed by any composite or rule", i, oldOf[i]), sigExtras
		}
	}

	// --- clause: glyph i is the original glyph (outline, width, name, CID, private dict, matrix)
	switch so := s.Outlines.(type) {
	case *glyf.Outlines:
		fo := f.Outlines.(*glyf.Outlines)
		if len(so.Widths) != n || (fo.Names == nil) != (so.Names == nil) || (so.Names != nil && len(so.Names) != n) {
			return "widths / names of the subset have the wrong length", sigGlyph
		}
		for i, g := range oldOf {
			if !sameGlyf(so.Glyphs[i], fo.Glyphs[g]) {
				return fmt.Sprintf("outline of glyph %d differs from original glyph %d", i, g), sigGlyph
			}
			if so.Widths[i] != fo.Widths[g] {
				return fmt.Sprintf("width of glyph %d is %d, original glyph %d has %d", i, so.Widths[i], g, fo.Widths[g]), sigGlyph
			}
			if so.Names != nil && so.Names[i] != fo.Names[g] {
				return fmt.Sprintf("name of glyph %d is %q, original glyph %d is %q", i, so.Names[i], g, fo.Names[g]), sigGlyph
			}
			oc, nc := fo.Glyphs[g].Components(), so.Glyphs[i].Components()
			for k := range oc {
				if int(nc[k]) >= n || oldOf[nc[k]] != oc[k] {
					return fmt.Sprintf("component %d of glyph %d points to new glyph %d, which is not original glyph %d", k, i, nc[k], oc[k]), sigComposite
				}
			}
		}
	case *cff.Outlines:
		fo := f.Outlines.(*cff.Outlines)
		if (fo.GIDToCID == nil) != (so.GIDToCID == nil) || (so.GIDToCID != nil && len(so.GIDToCID) != n) {
			return "GIDToCID of the subset has the wrong length", sigGlyph
		}
		if (fo.ROS == nil) != (so.ROS == nil) || (fo.ROS != nil && *fo.ROS != *so.ROS) {
			return "ROS changed", sigGlyph
		}
		if len(so.Private) == 0 || (fo.ROS != nil && len(so.FontMatrices) != len(so.Private)) || (fo.ROS == nil && so.FontMatrices != nil) {
			return "private dictionaries / font matrices of the subset have the wrong length", sigGlyph
		}
		used := map[int]bool{}
		for i, g := range oldOf {
			if so.Glyphs[i] != fo.Glyphs[g] && !reflect.DeepEqual(so.Glyphs[i], fo.Glyphs[g]) {
				return fmt.Sprintf("glyph %d differs from original glyph %d", i, g), sigGlyph
			}
			if so.GIDToCID != nil && so.GIDToCID[i] != fo.GIDToCID[g] {
				return fmt.Sprintf("CID of glyph %d is %d, original glyph %d has %d", i, so.GIDToCID[i], g, fo.GIDToCID[g]), sigGlyph
			}
			nfd, ofd := so.FDSelect(glyph.ID(i)), fo.FDSelect(g)
			if nfd < 0 || nfd >= len(so.Private) {
				return fmt.Sprintf("FDSelect(%d) = %d out of range", i, nfd), sigGlyph
			}
			used[nfd] = true
			if so.Private[nfd] != fo.Private[ofd] && !reflect.DeepEqual(so.Private[nfd], fo.Private[ofd]) {
				return fmt.Sprintf("private dictionary of glyph %d differs from that of original glyph %d", i, g), sigGlyph
			}
			if fo.ROS != nil && so.FontMatrices[nfd] != fo.FontMatrices[ofd] {
				return fmt.Sprintf("font matrix of glyph %d differs from that of original glyph %d", i, g), sigGlyph
			}
		}
		if len(used) != len(so.Private) {
			return "the subset carries a private dictionary no glyph uses", sigGlyph
		}
		// built-in encoding
		if (fo.Encoding == nil) != (so.Encoding == nil) || len(fo.Encoding) != len(so.Encoding) {
			return "built-in encoding appeared / disappeared / changed length", sigEncoding
		}
		for code, g := range fo.Encoding {
			want := glyph.ID(0)
			if ng, ok := newGid[g]; ok {
				want = ng
			}
			if so.Encoding[code] != want {
				return fmt.Sprintf("code %d: original glyph %d, subset glyph %d, expected %d", code, g, so.Encoding[code], want), sigEncoding
			}
		}
	}

	if sel == "font" {
		// --- clause: cmap exact
		// subtables the library cannot decode (format 2, 8, 10, 13, 14) cannot
		// be re-keyed: they must be gone
		decodable := 0
		for key := range f.CMapTable {
			if _, err := cmapEntries(f.CMapTable, key); err == nil {
				decodable++
			} else if _, kept := s.CMapTable[key]; kept {
				return fmt.Sprintf("cmap subtable %v cannot be decoded (%v) but the subset carries a subtable with this key", key, err), sigCMapKept
			}
		}
		for key := range f.CMapTable {
			if _, err := cmapEntries(f.CMapTable, key); err != nil {
				continue
			}
			if _, ok := s.CMapTable[key]; !ok {
				sig := sigCMap
				if key.PlatformID == 1 {
					sig = sigMacCMap
				}
				return fmt.Sprintf("cmap subtable %v missing from the subset", key), sig
			}
		}
		if (f.CMapTable == nil) != (s.CMapTable == nil) || decodable != len(s.CMapTable) {
			return fmt.Sprintf("original has %d decodable cmap subtables, subset has %d", decodable, len(s.CMapTable)), sigCMap
		}
		listed := map[glyph.ID]glyph.ID{}
		for i, g := range list {
			listed[g] = glyph.ID(i)
		}
		for key := range f.CMapTable {
			om, err := cmapEntries(f.CMapTable, key)
			if err != nil {
				continue
			}
			if _, ok := s.CMapTable[key]; !ok {
				return fmt.Sprintf("cmap subtable %v missing from the subset", key), sigCMap
			}
			nm, err := cmapEntries(s.CMapTable, key)
			if err != nil {
				return fmt.Sprintf("cmap subtable %v of the subset: %v", key, err), sigCMap
			}
			for c, g := range om {
				ng, kept := listed[g]
				got, has := nm[c]
				if kept && (!has || got != ng) {
					sig := sigCMap
					if key.PlatformID == 1 && c >= 0x80 {
						sig = sigMacCMap
					}
					return fmt.Sprintf("cmap %v: code 0x%04X mapped to glyph %d (retained as %d) but the subset maps it to %d (present: %v)", key, c, g, ng, got, has), sig
				}
				if !kept && has && g != 0 {
					return fmt.Sprintf("cmap %v: code 0x%04X mapped to glyph %d, which is not retained, but the subset maps it to %d", key, c, g, got), sigCMap
				}
			}
			for c, got := range nm {
				if _, has := om[c]; !has {
					sig := sigCMap
					if key.PlatformID == 1 {
						sig = sigMacCMap
					}
					return fmt.Sprintf("cmap %v: code 0x%04X is mapped (to %d) only in the subset", key, c, got), sig
				}
			}
		}

		// --- clause: layout tables keep their meaning
		if s.Gdef != nil || !sameLayoutFrame(f.Gsub, s.Gsub) || !sameLayoutFrame(f.Gpos, s.Gpos) {
			msg := "script list, feature list, lookup count or lookup flags changed"
			if f.Gsub != nil && s.Gsub != nil && len(f.Gsub.LookupList) != len(s.Gsub.LookupList) {
				msg = fmt.Sprintf("GSUB had %d lookups, the subset has %d, but the feature records still use the old indices", len(f.Gsub.LookupList), len(s.Gsub.LookupList))
			}
			return msg, sigLayout
		}
		dom := sorted(r1)
		rnd := vlib.NewRand(uint64(len(d.Glyphs))*7919 + uint64(len(glyphs)))
		var ruleSeqs [][]glyph.ID
		for _, r := range gsubRules(f.Gsub) {
			all := true
			for _, g := range r.in {
				if !r1[g] {
					all = false
				}
			}
			if all {
				ruleSeqs = append(ruleSeqs, r.in)
				if len(dom) > 0 {
					ruleSeqs = append(ruleSeqs, append(append([]glyph.ID{dom[rnd.Intn(len(dom))]}, r.in...), dom[rnd.Intn(len(dom))]))
				}
			}
		}
		if msg := commutes(f.Gsub, s.Gsub, newGid, dom, ruleSeqs, rnd); msg != "" {
			return "GSUB: " + msg, sigGsub
		}
		var pairSeqs [][]glyph.ID
		if f.Gpos != nil {
			for _, t := range f.Gpos.LookupList {
				for _, st := range t.Subtables {
					if p, ok := st.(gtab.Gpos2_1); ok {
						for pair := range p {
							if r1[pair.Left] && r1[pair.Right] {
								pairSeqs = append(pairSeqs, []glyph.ID{pair.Left, pair.Right})
							}
						}
					}
				}
			}
		}
		sort.Slice(pairSeqs, func(i, j int) bool {
			if pairSeqs[i][0] != pairSeqs[j][0] {
				return pairSeqs[i][0] < pairSeqs[j][0]
			}
			return pairSeqs[i][1] < pairSeqs[j][1]
		})
		if msg := commutes(f.Gpos, s.Gpos, newGid, dom, pairSeqs, rnd); msg != "" {
			return "GPOS: " + msg, sigKerning
		}
		// no kerning for pairs that had none: every pair of the subset comes from the original
		if s.Gpos != nil {
			for li, t := range s.Gpos.LookupList {
				for si, st := range t.Subtables {
					p, ok := st.(gtab.Gpos2_1)
					if !ok {
						return fmt.Sprintf("GPOS lookup %d subtable %d has type %T", li, si, st), sigKerning
					}
					op := f.Gpos.LookupList[li].Subtables[si].(gtab.Gpos2_1)
					for pair, adj := range p {
						if int(pair.Left) >= n || int(pair.Right) >= n {
							return fmt.Sprintf("GPOS pair %v refers to glyphs the subset does not have", pair), sigKerning
						}
						oadj, ok := op[glyph.Pair{Left: oldOf[pair.Left], Right: oldOf[pair.Right]}]
						if !ok || !reflect.DeepEqual(oadj, adj) {
							return fmt.Sprintf("GPOS pair %v of the subset (original glyphs %d,%d) has no counterpart in the original", pair, oldOf[pair.Left], oldOf[pair.Right]), sigKerning
						}
					}
				}
			}
		}
	}

	// --- clause: the subset can be written and read back (asked only of
	// fonts in the domain of C01: the original itself survives Write/Read)
	if _, fail, _ := writeRead(d, f); fail != "" {
		return "", ""
	}
	back, fail, sig := writeRead(d, s)
	if fail != "" {
		return fail, sig
	}
	// ... and in the re-read subset every composite reference still leads to
	// the component the original referred to
	if bo, ok := back.Outlines.(*glyf.Outlines); ok {
		fo := f.Outlines.(*glyf.Outlines)
		if len(bo.Glyphs) != n {
			return fmt.Sprintf("the re-read subset has %d glyphs instead of %d", len(bo.Glyphs), n), sigReread
		}
		if msg := componentsIdentical(fo, bo, oldOf, "after Write/Read of the subset"); msg != "" {
			return msg, sigComposite
		}
	}
	return "", ""
}

// glyphIdentity compares what a component reference leads to: blankness,
// outline data (component glyph numbers aside), advance width, name.
func glyphIdentity(fo *glyf.Outlines, oc glyph.ID, so *glyf.Outlines, nc glyph.ID) string {
	if int(nc) >= len(so.Glyphs) {
		return fmt.Sprintf("a glyph the subset does not have (%d)", nc)
	}
	a, b := fo.Glyphs[oc], so.Glyphs[nc]
	switch {
	case a == nil && b != nil:
		return fmt.Sprintf("new glyph %d, which has an outline, while original glyph %d is blank", nc, oc)
	case a != nil && b == nil:
		return fmt.Sprintf("new glyph %d, which is blank, while original glyph %d has an outline", nc, oc)
	case !sameGlyf(a, b):
		return fmt.Sprintf("new glyph %d, whose outline is not that of original glyph %d", nc, oc)
	}
	if int(nc) >= len(so.Widths) || so.Widths[nc] != fo.Widths[oc] {
		return fmt.Sprintf("new glyph %d, whose advance width differs from that of original glyph %d (%d)", nc, oc, fo.Widths[oc])
	}
	if fo.Names != nil && so.Names != nil && (int(nc) >= len(so.Names) || so.Names[nc] != fo.Names[oc]) {
		return fmt.Sprintf("new glyph %d, whose name is not %q (original glyph %d)", nc, fo.Names[oc], oc)
	}
	return ""
}

func componentsIdentical(fo, so *glyf.Outlines, oldOf []glyph.ID, when string) string {
	for i, g := range oldOf {
		if i >= len(so.Glyphs) || int(g) >= len(fo.Glyphs) {
			continue
		}
		oc, nc := fo.Glyphs[g].Components(), so.Glyphs[i].Components()
		if len(oc) != len(nc) {
			return fmt.Sprintf("%s: new glyph %d has %d components, original glyph %d has %d", when, i, len(nc), g, len(oc))
		}
		for k := range oc {
			if int(oc[k]) >= len(fo.Glyphs) {
				continue
			}
			if msg := glyphIdentity(fo, oc[k], so, nc[k]); msg != "" {
				return fmt.Sprintf("%s: component %d of new glyph %d (original glyph %d) referred to original glyph %d and now leads to %s", when, k, i, g, oc[k], msg)
			}
		}
	}
	return ""
}

func writeRead(d *Desc, s *sfnt.Font) (back *sfnt.Font, fail, sig string) {
	var buf bytes.Buffer
	var werr error
	var wpanic any
	func() {
		defer func() { wpanic = recover() }()
		_, werr = s.Write(&buf)
	}()
	if wpanic != nil {
		return nil, fmt.Sprint("Write of the subset panics: ", wpanic), sigWrite
	}
	if werr != nil {
		if strings.Contains(werr.Error(), "encoded glyphs not contiguous") && encodingHasGap(s) {
			return nil, "Write of the subset fails: " + werr.Error(), sigEncContig
		}
		return nil, "Write of the subset fails: " + werr.Error(), sigWrite
	}
	var rerr error
	func() {
		defer func() {
			if e := recover(); e != nil {
				rerr = fmt.Errorf("panic: %v", e)
			}
		}()
		back, rerr = sfnt.Read(bytes.NewReader(buf.Bytes()))
	}()
	if rerr != nil {
		if o, ok := s.Outlines.(*glyf.Outlines); ok && strings.Contains(rerr.Error(), "no TrueType/OpenType glyph data found") {
			allBlank := true
			for _, g := range o.Glyphs {
				if g != nil {
					allBlank = false
				}
			}
			if allBlank {
				// every retained glyph is blank: the glyf table has length 0
				return nil, "the written subset (all of whose glyphs are blank) cannot be read back: " + rerr.Error(), sigAllBlank
			}
		}
		return nil, "the written subset cannot be read back: " + rerr.Error(), sigReread
	}
	a, b := Project(s), Project(back)
	// what a round trip does not keep for any font (not a matter of subsetting)
	if a.Kind == "cid" {
		for i := range a.Glyphs {
			a.Glyphs[i].N = 0
		}
		for i := range b.Glyphs {
			b.Glyphs[i].N = 0
		}
	}
	dropEmpty := func(x *Desc) {
		// FD numbering is not observable, only the dictionary each glyph uses
		for i := range x.Glyphs {
			g := &x.Glyphs[i]
			if g.FD >= 0 && g.FD < len(x.Privs) {
				p := x.Privs[g.FD]
				m := 0
				if g.FD < len(x.Mats) {
					m = x.Mats[g.FD]
				}
				g.FD = p*1000 + m
			}
		}
		x.Privs, x.Mats = nil, nil
	}
	dropEmpty(a)
	dropEmpty(b)
	if a.Enc == nil {
		b.Enc = nil // a simple CFF font without encoding is read back with the standard encoding
	}
	la, lb := CaseLine("font", a, nil, nil), CaseLine("font", b, nil, nil)
	if la != lb {
		return nil, "subset changes when written and read back:\n  before: " + la + "\n  after:  " + lb, sigReread
	}
	return back, "", ""
}

// encodingHasGap: some glyph k>=1 has a code while a glyph 1<=j<k has none.
func encodingHasGap(s *sfnt.Font) bool {
	o, ok := s.Outlines.(*cff.Outlines)
	if !ok || o.Encoding == nil {
		return false
	}
	enc := map[glyph.ID]bool{}
	var max glyph.ID
	for _, g := range o.Encoding {
		if g != 0 {
			enc[g] = true
			if g > max {
				max = g
			}
		}
	}
	for g := glyph.ID(1); g < max; g++ {
		if !enc[g] {
			return true
		}
	}
	return false
}

// nontrivial: see the rule in Gen.
func nontrivial(sel string, d *Desc, glyphs []int, res *implResult) (bool, []string) {
	labels := roleLabels(d, glyphs)
	if _, mayRefuse := domain(d, glyphs); mayRefuse {
		if res.paniced {
			labels = append(labels, "unsupported-data:refused-loudly")
		} else {
			labels = append(labels, "unsupported-data:handled")
		}
	}
	if res.paniced {
		return false, append(labels, "impl:panic")
	}
	if res.sub == nil {
		return false, labels
	}
	n := res.sub.NumGlyphs()
	drops := n < len(d.Glyphs)
	if drops {
		labels = append(labels, "drops-glyphs")
	}
	interesting := false
	if n > len(glyphs) {
		labels = append(labels, "extras")
		interesting = true
	}
	in := map[int]int{}
	for i, g := range glyphs {
		in[g] = i
	}
	kept, dropped, moved := 0, 0, 0
	for _, c := range d.CMaps {
		for _, e := range c.M {
			if i, ok := in[e[1]]; ok {
				kept++
				if i != e[1] {
					moved++
				}
			} else {
				dropped++
			}
		}
	}
	if dropped > 0 && moved > 0 {
		labels = append(labels, "cmap-drop+move")
		interesting = true
	}
	if res.sub.Gpos != nil {
		for _, t := range res.sub.Gpos.LookupList {
			for _, st := range t.Subtables {
				if p, ok := st.(gtab.Gpos2_1); ok && len(p) > 0 {
					labels = append(labels, "kerning-kept")
					interesting = true
					goto gposDone
				}
			}
		}
	}
gposDone:
	if res.sub.Gsub != nil {
		lig, single, empty := false, false, false
		for _, t := range res.sub.Gsub.LookupList {
			if len(t.Subtables) == 0 {
				empty = true
			}
			for _, st := range t.Subtables {
				switch st.(type) {
				case *gtab.Gsub4_1:
					lig = true
				case *gtab.Gsub1_2:
					single = true
				}
			}
		}
		if lig {
			labels = append(labels, "ligature-kept")
		}
		if single {
			labels = append(labels, "single-kept")
		}
		if empty {
			labels = append(labels, "lookup-emptied")
		}
		interesting = interesting || lig || single
	}
	if o, ok := res.sub.Outlines.(*cff.Outlines); ok && len(o.Private) > 1 {
		labels = append(labels, "several-FDs")
		interesting = true
	}
	for _, g := range d.Glyphs {
		if len(g.Comps) > 0 {
			labels = append(labels, "has-composites")
			break
		}
	}
	// depth of the two closures on this case (how many rounds a naive
	// fixed-point iteration needs): chains of rules, nested composites
	if rd, cd := closureDepths(d, glyphs); rd >= 2 || cd >= 2 {
		if rd >= 2 {
			labels = append(labels, "rule-chain>=2")
		}
		if rd >= 3 {
			labels = append(labels, "rule-chain>=3")
		}
		if cd >= 2 {
			labels = append(labels, "nested-composites>=2")
		}
		if cd >= 3 {
			labels = append(labels, "nested-composites>=3")
		}
	}
	return drops && interesting, labels
}

// closureDepths: level 0 = listed glyphs; a rule output has level 1 + the
// largest level of its inputs; a component has level 1 + that of the composite.
func closureDepths(d *Desc, glyphs []int) (ruleDepth, compDepth int) {
	n := len(d.Glyphs)
	level := map[int]int{}
	for _, g := range glyphs {
		level[g] = 0
	}
	type rl struct {
		in  []int
		out int
	}
	var rules []rl
	for _, lk := range d.Gsub {
		for _, s := range lk {
			switch s.Kind {
			case "s1":
				for _, g := range s.Cov {
					rules = append(rules, rl{[]int{g}, (g + s.Delta) % 65536})
				}
			case "lig":
				for _, set := range s.Sets {
					for _, lg := range set.Ligs {
						rules = append(rules, rl{append([]int{set.First}, lg.In...), lg.Out})
					}
				}
			}
		}
	}
	for changed := true; changed; {
		changed = false
		for _, r := range rules {
			lv, ok := 0, true
			for _, g := range r.in {
				l, has := level[g]
				if !has {
					ok = false
					break
				}
				if l > lv {
					lv = l
				}
			}
			if _, has := level[r.out]; ok && !has {
				level[r.out] = lv + 1
				changed = true
				if lv+1 > ruleDepth {
					ruleDepth = lv + 1
				}
			}
		}
	}
	clevel := map[int]int{}
	for g := range level {
		clevel[g] = 0
	}
	for changed := true; changed; {
		changed = false
		for g, l := range clevel {
			if g < 0 || g >= n {
				continue
			}
			for _, c := range d.Glyphs[g].Comps {
				if _, has := clevel[c]; !has {
					clevel[c] = l + 1
					changed = true
					if l+1 > compDepth {
						compDepth = l + 1
					}
				}
			}
		}
	}
	return ruleDepth, compDepth
}
