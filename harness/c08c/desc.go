// Package c08c is part C08C of the C08 harness: the binary codecs of the
// contextual lookup subtables of go-sfnt (opentype/gtab: SeqContext1-3,
// ChainedSeqContext1-3, Gsub8_1).  It drives encodeLen / encode and the
// subtable readers on generated structures and byte strings, records the
// observations in the syntax the Coq model prints (ocaml/c08c_driver.ml) and
// evaluates the property oracle on every case.
package c08c

import (
	"errors"
	"fmt"
	"sort"

	"seehuhn.de/go/sfnt/glyph"
	"seehuhn.de/go/sfnt/opentype/classdef"
	"seehuhn.de/go/sfnt/opentype/coverage"
	"seehuhn.de/go/sfnt/opentype/gtab"
	"seehuhn.de/go/sfnt/verifharness/vlib"
)

type pair struct{ g, i int } // (glyph, coverage index) or (glyph, class)

type action struct{ seq, idx int }

// rule: SeqRule / ClassSeqRule use in + acts; the chained rules all four.
type rule struct {
	back, in, look []int
	acts           []action
}

// ruleSet: isNil distinguishes a nil []*Rule from an empty one.
type ruleSet struct {
	isNil bool
	rules []rule
}

// desc is the canonical description of a contextual subtable.
type desc struct {
	kind string     // seq1 seq2 seq3 ch1 ch2 ch3 gsub81
	cov  []pair     // seq1 seq2 ch1 ch2 gsub81: coverage table, sorted by glyph
	cls  [3][]pair  // class tables sorted by glyph: seq2 uses [1]; ch2 [0] backtrack [1] input [2] lookahead
	sets []ruleSet  // seq1 seq2 ch1 ch2
	gs   [3][][]int // seq3: [1]; ch3: [0] backtrack [1] input [2] lookahead (sorted glyph lists)
	acts []action   // seq3 ch3
	covs [2][][]pair // gsub81: backtrack, lookahead coverage tables
	nums []int      // gsub81: substitutes
}

func (d desc) chained() bool { return d.kind == "ch1" || d.kind == "ch2" }

// ---- printing (the syntax of ocaml/c08c_driver.ml) ----------------------

// rle replaces every maximal run of at least 4 equal elements by (rep k X).
func rle(xs []vlib.Sx) vlib.Sx {
	strs := make([]string, len(xs))
	for i, x := range xs {
		strs[i] = vlib.Str(x)
	}
	out := vlib.List{}
	for i := 0; i < len(xs); {
		j := i + 1
		for j < len(xs) && strs[j] == strs[i] {
			j++
		}
		if j-i >= 4 {
			out = append(out, vlib.L(vlib.Atom("rep"), vlib.Int(j-i), xs[i]))
		} else {
			for k := i; k < j; k++ {
				out = append(out, xs[k])
			}
		}
		i = j
	}
	return out
}

func numsSx(v []int) vlib.Sx {
	xs := make([]vlib.Sx, len(v))
	for i, x := range v {
		xs[i] = vlib.Int(x)
	}
	return rle(xs)
}

func actsSx(v []action) vlib.Sx {
	xs := make([]vlib.Sx, len(v))
	for i, a := range v {
		xs[i] = vlib.L(vlib.Int(a.seq), vlib.Int(a.idx))
	}
	return rle(xs)
}

// covSx: runs (gid idx len) in which glyph and index advance by one.
func covSx(ps []pair) vlib.Sx {
	out := vlib.List{}
	for k := 0; k < len(ps); {
		j := k + 1
		for j < len(ps) && ps[j].g == ps[k].g+(j-k) && ps[j].i == ps[k].i+(j-k) {
			j++
		}
		out = append(out, vlib.L(vlib.Int(ps[k].g), vlib.Int(ps[k].i), vlib.Int(j-k)))
		k = j
	}
	return out
}

// clsSx: runs (gid class len) of consecutive glyphs with one class.
func clsSx(ps []pair) vlib.Sx {
	out := vlib.List{}
	for k := 0; k < len(ps); {
		j := k + 1
		for j < len(ps) && ps[j].g == ps[k].g+(j-k) && ps[j].i == ps[k].i {
			j++
		}
		out = append(out, vlib.L(vlib.Int(ps[k].g), vlib.Int(ps[k].i), vlib.Int(j-k)))
		k = j
	}
	return out
}

// setSx: runs (gid len) of consecutive glyphs.
func setSx(gl []int) vlib.Sx {
	out := vlib.List{}
	for k := 0; k < len(gl); {
		j := k + 1
		for j < len(gl) && gl[j] == gl[k]+(j-k) {
			j++
		}
		out = append(out, vlib.L(vlib.Int(gl[k]), vlib.Int(j-k)))
		k = j
	}
	return out
}

func setsSx(ss [][]int) vlib.Sx {
	out := vlib.List{}
	for _, s := range ss {
		out = append(out, setSx(s))
	}
	return out
}

func (d desc) ruleSx(r rule) vlib.Sx {
	if d.chained() {
		return vlib.L(numsSx(r.back), numsSx(r.in), numsSx(r.look), actsSx(r.acts))
	}
	return vlib.L(numsSx(r.in), actsSx(r.acts))
}

func (d desc) setsSx() vlib.Sx {
	xs := make([]vlib.Sx, len(d.sets))
	for i, s := range d.sets {
		if s.isNil {
			xs[i] = vlib.Atom("nil")
			continue
		}
		rs := make([]vlib.Sx, len(s.rules))
		for j, r := range s.rules {
			rs[j] = d.ruleSx(r)
		}
		xs[i] = rle(rs)
	}
	return rle(xs)
}

func (d desc) sx() vlib.Sx {
	k := vlib.Atom(d.kind)
	switch d.kind {
	case "seq1", "ch1":
		return vlib.L(k, covSx(d.cov), d.setsSx())
	case "seq2":
		return vlib.L(k, covSx(d.cov), clsSx(d.cls[1]), d.setsSx())
	case "ch2":
		return vlib.L(k, covSx(d.cov), clsSx(d.cls[0]), clsSx(d.cls[1]), clsSx(d.cls[2]), d.setsSx())
	case "seq3":
		return vlib.L(k, setsSx(d.gs[1]), actsSx(d.acts))
	case "ch3":
		return vlib.L(k, setsSx(d.gs[0]), setsSx(d.gs[1]), setsSx(d.gs[2]), actsSx(d.acts))
	case "gsub81":
		b, l := vlib.List{}, vlib.List{}
		for _, c := range d.covs[0] {
			b = append(b, covSx(c))
		}
		for _, c := range d.covs[1] {
			l = append(l, covSx(c))
		}
		return vlib.L(k, covSx(d.cov), b, l, numsSx(d.nums))
	}
	return vlib.Atom("?")
}

// ---- parsing ------------------------------------------------------------

// expand walks a list in which (rep k X) stands for k copies of X.
func expand(x vlib.Sx, f func(vlib.Sx) error) error {
	l, err := vlib.AsList(x)
	if err != nil {
		return err
	}
	for _, e := range l {
		if el, ok := e.(vlib.List); ok && len(el) == 3 {
			if a, ok := el[0].(vlib.Atom); ok && a == "rep" {
				k, err := vlib.AsInt(el[1])
				if err != nil || k < 0 || k > 1<<22 {
					return errors.New("bad repeat count")
				}
				for i := 0; i < k; i++ {
					if err := f(el[2]); err != nil {
						return err
					}
				}
				continue
			}
		}
		if err := f(e); err != nil {
			return err
		}
	}
	return nil
}

func numsOf(x vlib.Sx) ([]int, error) {
	out := []int{}
	err := expand(x, func(e vlib.Sx) error {
		v, err := vlib.AsInt(e)
		out = append(out, v)
		return err
	})
	return out, err
}

func actsOf(x vlib.Sx) ([]action, error) {
	out := []action{}
	err := expand(x, func(e vlib.Sx) error {
		v, err := vlib.AsInts(e)
		if err != nil || len(v) != 2 {
			return errors.New("bad action")
		}
		out = append(out, action{v[0], v[1]})
		return nil
	})
	return out, err
}

func runs3(x vlib.Sx, cls bool) ([]pair, error) {
	l, err := vlib.AsList(x)
	if err != nil {
		return nil, err
	}
	var ps []pair
	for _, y := range l {
		v, err := vlib.AsInts(y)
		if err != nil || len(v) != 3 || v[2] < 0 || v[2] > 65536 {
			return nil, errors.New("bad run")
		}
		for k := 0; k < v[2]; k++ {
			if cls {
				ps = append(ps, pair{v[0] + k, v[1]})
			} else {
				ps = append(ps, pair{v[0] + k, v[1] + k})
			}
		}
	}
	return ps, nil
}

func setOf(x vlib.Sx) ([]int, error) {
	l, err := vlib.AsList(x)
	if err != nil {
		return nil, err
	}
	gl := []int{}
	for _, y := range l {
		v, err := vlib.AsInts(y)
		if err != nil || len(v) != 2 || v[1] < 0 || v[1] > 65536 {
			return nil, errors.New("bad set run")
		}
		for k := 0; k < v[1]; k++ {
			gl = append(gl, v[0]+k)
		}
	}
	return gl, nil
}

func setsOf(x vlib.Sx) ([][]int, error) {
	l, err := vlib.AsList(x)
	if err != nil {
		return nil, err
	}
	out := make([][]int, len(l))
	for i, y := range l {
		if out[i], err = setOf(y); err != nil {
			return nil, err
		}
	}
	return out, nil
}

func ruleSetsOf(x vlib.Sx, chained bool) ([]ruleSet, error) {
	out := []ruleSet{}
	err := expand(x, func(e vlib.Sx) error {
		if a, ok := e.(vlib.Atom); ok {
			if a != "nil" {
				return errors.New("bad rule set")
			}
			out = append(out, ruleSet{isNil: true})
			return nil
		}
		rs := ruleSet{rules: []rule{}}
		err := expand(e, func(re vlib.Sx) error {
			parts, err := vlib.AsList(re)
			if err != nil {
				return err
			}
			var r rule
			if chained {
				if len(parts) != 4 {
					return errors.New("bad chained rule")
				}
				if r.back, err = numsOf(parts[0]); err != nil {
					return err
				}
				if r.in, err = numsOf(parts[1]); err != nil {
					return err
				}
				if r.look, err = numsOf(parts[2]); err != nil {
					return err
				}
				r.acts, err = actsOf(parts[3])
				rs.rules = append(rs.rules, r)
				return err
			}
			if len(parts) != 2 {
				return errors.New("bad rule")
			}
			if r.in, err = numsOf(parts[0]); err != nil {
				return err
			}
			r.acts, err = actsOf(parts[1])
			rs.rules = append(rs.rules, r)
			return err
		})
		out = append(out, rs)
		return err
	})
	return out, err
}

func descOf(x vlib.Sx) (desc, error) {
	var d desc
	l, err := vlib.AsList(x)
	if err != nil || len(l) < 1 {
		return d, errors.New("bad subtable")
	}
	if d.kind, err = vlib.AsAtom(l[0]); err != nil {
		return d, err
	}
	want := map[string]int{"seq1": 3, "seq2": 4, "seq3": 3, "ch1": 3, "ch2": 6, "ch3": 5, "gsub81": 5}
	if want[d.kind] != len(l) {
		return d, fmt.Errorf("bad subtable %q", d.kind)
	}
	switch d.kind {
	case "seq1", "ch1":
		if d.cov, err = runs3(l[1], false); err != nil {
			return d, err
		}
		d.sets, err = ruleSetsOf(l[2], d.chained())
	case "seq2":
		if d.cov, err = runs3(l[1], false); err != nil {
			return d, err
		}
		if d.cls[1], err = runs3(l[2], true); err != nil {
			return d, err
		}
		d.sets, err = ruleSetsOf(l[3], false)
	case "ch2":
		if d.cov, err = runs3(l[1], false); err != nil {
			return d, err
		}
		for k := 0; k < 3; k++ {
			if d.cls[k], err = runs3(l[2+k], true); err != nil {
				return d, err
			}
		}
		d.sets, err = ruleSetsOf(l[5], true)
	case "seq3":
		if d.gs[1], err = setsOf(l[1]); err != nil {
			return d, err
		}
		d.acts, err = actsOf(l[2])
	case "ch3":
		for k := 0; k < 3; k++ {
			if d.gs[k], err = setsOf(l[1+k]); err != nil {
				return d, err
			}
		}
		d.acts, err = actsOf(l[4])
	case "gsub81":
		if d.cov, err = runs3(l[1], false); err != nil {
			return d, err
		}
		for k := 0; k < 2; k++ {
			cl, err := vlib.AsList(l[2+k])
			if err != nil {
				return d, err
			}
			d.covs[k] = make([][]pair, len(cl))
			for i, c := range cl {
				if d.covs[k][i], err = runs3(c, false); err != nil {
					return d, err
				}
			}
		}
		d.nums, err = numsOf(l[4])
	}
	return d, err
}

// ---- Go values ----------------------------------------------------------

func tableOf(ps []pair) coverage.Table {
	t := make(coverage.Table, len(ps))
	for _, p := range ps {
		t[glyph.ID(p.g)] = p.i
	}
	return t
}

func classOf(ps []pair) classdef.Table {
	t := make(classdef.Table, len(ps))
	for _, p := range ps {
		t[glyph.ID(p.g)] = uint16(p.i)
	}
	return t
}

func gids(v []int) []glyph.ID {
	out := make([]glyph.ID, len(v))
	for i, x := range v {
		out[i] = glyph.ID(x)
	}
	return out
}

func u16s(v []int) []uint16 {
	out := make([]uint16, len(v))
	for i, x := range v {
		out[i] = uint16(x)
	}
	return out
}

func seqLookups(v []action) []gtab.SeqLookup {
	out := make([]gtab.SeqLookup, len(v))
	for i, a := range v {
		out[i] = gtab.SeqLookup{SequenceIndex: uint16(a.seq), LookupListIndex: gtab.LookupIndex(a.idx)}
	}
	return out
}

// setsOfGo builds the coverage sets; equal glyph lists share one Set value
// (the encoder must not care).
func setsOfGo(ss [][]int) []coverage.Set {
	out := make([]coverage.Set, len(ss))
	cache := map[string]coverage.Set{}
	for i, s := range ss {
		key := fmt.Sprint(s)
		if c, ok := cache[key]; ok {
			out[i] = c
			continue
		}
		set := coverage.Set{}
		for _, g := range s {
			set[glyph.ID(g)] = true
		}
		cache[key] = set
		out[i] = set
	}
	return out
}

func (d desc) build() gtab.Subtable {
	switch d.kind {
	case "seq1":
		rr := make([][]*gtab.SeqRule, len(d.sets))
		for i, s := range d.sets {
			if s.isNil {
				continue
			}
			rr[i] = make([]*gtab.SeqRule, len(s.rules))
			for j, r := range s.rules {
				rr[i][j] = &gtab.SeqRule{Input: gids(r.in), Actions: seqLookups(r.acts)}
			}
		}
		return &gtab.SeqContext1{Cov: tableOf(d.cov), Rules: rr}
	case "seq2":
		rr := make([][]*gtab.ClassSeqRule, len(d.sets))
		for i, s := range d.sets {
			if s.isNil {
				continue
			}
			rr[i] = make([]*gtab.ClassSeqRule, len(s.rules))
			for j, r := range s.rules {
				rr[i][j] = &gtab.ClassSeqRule{Input: u16s(r.in), Actions: seqLookups(r.acts)}
			}
		}
		return &gtab.SeqContext2{Cov: tableOf(d.cov), Input: classOf(d.cls[1]), Rules: rr}
	case "seq3":
		return &gtab.SeqContext3{Input: setsOfGo(d.gs[1]), Actions: seqLookups(d.acts)}
	case "ch1":
		rr := make([][]*gtab.ChainedSeqRule, len(d.sets))
		for i, s := range d.sets {
			if s.isNil {
				continue
			}
			rr[i] = make([]*gtab.ChainedSeqRule, len(s.rules))
			for j, r := range s.rules {
				rr[i][j] = &gtab.ChainedSeqRule{Backtrack: gids(r.back), Input: gids(r.in), Lookahead: gids(r.look), Actions: seqLookups(r.acts)}
			}
		}
		return &gtab.ChainedSeqContext1{Cov: tableOf(d.cov), Rules: rr}
	case "ch2":
		rr := make([][]*gtab.ChainedClassSeqRule, len(d.sets))
		for i, s := range d.sets {
			if s.isNil {
				continue
			}
			rr[i] = make([]*gtab.ChainedClassSeqRule, len(s.rules))
			for j, r := range s.rules {
				rr[i][j] = &gtab.ChainedClassSeqRule{Backtrack: u16s(r.back), Input: u16s(r.in), Lookahead: u16s(r.look), Actions: seqLookups(r.acts)}
			}
		}
		return &gtab.ChainedSeqContext2{Cov: tableOf(d.cov), Backtrack: classOf(d.cls[0]), Input: classOf(d.cls[1]), Lookahead: classOf(d.cls[2]), Rules: rr}
	case "ch3":
		all := setsOfGo(append(append(append([][]int{}, d.gs[0]...), d.gs[1]...), d.gs[2]...))
		nb, ni := len(d.gs[0]), len(d.gs[1])
		return &gtab.ChainedSeqContext3{Backtrack: all[:nb:nb], Input: all[nb : nb+ni : nb+ni], Lookahead: all[nb+ni:], Actions: seqLookups(d.acts)}
	case "gsub81":
		bk := make([]coverage.Table, len(d.covs[0]))
		for i, c := range d.covs[0] {
			bk[i] = tableOf(c)
		}
		la := make([]coverage.Table, len(d.covs[1]))
		for i, c := range d.covs[1] {
			la[i] = tableOf(c)
		}
		return &gtab.Gsub8_1{Input: tableOf(d.cov), Backtrack: bk, Lookahead: la, SubstituteGlyphIDs: gids(d.nums)}
	}
	return nil
}

func covPairs(t coverage.Table) []pair {
	ps := make([]pair, 0, len(t))
	for g, i := range t {
		ps = append(ps, pair{int(g), i})
	}
	sort.Slice(ps, func(a, b int) bool { return ps[a].g < ps[b].g })
	return ps
}

func clsPairs(t classdef.Table) []pair {
	ps := make([]pair, 0, len(t))
	for g, c := range t {
		ps = append(ps, pair{int(g), int(c)})
	}
	sort.Slice(ps, func(a, b int) bool { return ps[a].g < ps[b].g })
	return ps
}

func setList(s coverage.Set) []int {
	gl := make([]int, 0, len(s))
	for g, ok := range s {
		if ok {
			gl = append(gl, int(g))
		}
	}
	sort.Ints(gl)
	return gl
}

func setLists(ss []coverage.Set) [][]int {
	out := make([][]int, len(ss))
	for i, s := range ss {
		out[i] = setList(s)
	}
	return out
}

func intsOfG(v []glyph.ID) []int {
	out := make([]int, len(v))
	for i, x := range v {
		out[i] = int(x)
	}
	return out
}

func intsOfU(v []uint16) []int {
	out := make([]int, len(v))
	for i, x := range v {
		out[i] = int(x)
	}
	return out
}

func actionsOf(v []gtab.SeqLookup) []action {
	out := make([]action, len(v))
	for i, a := range v {
		out[i] = action{int(a.SequenceIndex), int(a.LookupListIndex)}
	}
	return out
}

// describe canonicalises a subtable value (decoded or built).
func describe(s gtab.Subtable) (desc, bool) {
	switch t := s.(type) {
	case *gtab.SeqContext1:
		d := desc{kind: "seq1", cov: covPairs(t.Cov), sets: make([]ruleSet, len(t.Rules))}
		for i, rr := range t.Rules {
			if rr == nil {
				d.sets[i].isNil = true
				continue
			}
			d.sets[i].rules = make([]rule, len(rr))
			for j, r := range rr {
				d.sets[i].rules[j] = rule{in: intsOfG(r.Input), acts: actionsOf(r.Actions)}
			}
		}
		return d, true
	case *gtab.SeqContext2:
		d := desc{kind: "seq2", cov: covPairs(t.Cov), sets: make([]ruleSet, len(t.Rules))}
		d.cls[1] = clsPairs(t.Input)
		for i, rr := range t.Rules {
			if rr == nil {
				d.sets[i].isNil = true
				continue
			}
			d.sets[i].rules = make([]rule, len(rr))
			for j, r := range rr {
				d.sets[i].rules[j] = rule{in: intsOfU(r.Input), acts: actionsOf(r.Actions)}
			}
		}
		return d, true
	case *gtab.SeqContext3:
		d := desc{kind: "seq3", acts: actionsOf(t.Actions)}
		d.gs[1] = setLists(t.Input)
		return d, true
	case *gtab.ChainedSeqContext1:
		d := desc{kind: "ch1", cov: covPairs(t.Cov), sets: make([]ruleSet, len(t.Rules))}
		for i, rr := range t.Rules {
			if rr == nil {
				d.sets[i].isNil = true
				continue
			}
			d.sets[i].rules = make([]rule, len(rr))
			for j, r := range rr {
				d.sets[i].rules[j] = rule{back: intsOfG(r.Backtrack), in: intsOfG(r.Input), look: intsOfG(r.Lookahead), acts: actionsOf(r.Actions)}
			}
		}
		return d, true
	case *gtab.ChainedSeqContext2:
		d := desc{kind: "ch2", cov: covPairs(t.Cov), sets: make([]ruleSet, len(t.Rules))}
		d.cls[0], d.cls[1], d.cls[2] = clsPairs(t.Backtrack), clsPairs(t.Input), clsPairs(t.Lookahead)
		for i, rr := range t.Rules {
			if rr == nil {
				d.sets[i].isNil = true
				continue
			}
			d.sets[i].rules = make([]rule, len(rr))
			for j, r := range rr {
				d.sets[i].rules[j] = rule{back: intsOfU(r.Backtrack), in: intsOfU(r.Input), look: intsOfU(r.Lookahead), acts: actionsOf(r.Actions)}
			}
		}
		return d, true
	case *gtab.ChainedSeqContext3:
		d := desc{kind: "ch3", acts: actionsOf(t.Actions)}
		d.gs[0], d.gs[1], d.gs[2] = setLists(t.Backtrack), setLists(t.Input), setLists(t.Lookahead)
		return d, true
	case *gtab.Gsub8_1:
		d := desc{kind: "gsub81", cov: covPairs(t.Input), nums: intsOfG(t.SubstituteGlyphIDs)}
		for _, c := range t.Backtrack {
			d.covs[0] = append(d.covs[0], covPairs(c))
		}
		for _, c := range t.Lookahead {
			d.covs[1] = append(d.covs[1], covPairs(c))
		}
		return d, true
	}
	return desc{}, false
}

// ---- well-formedness and the normal form of the round trip -------------

func validCov(ps []pair) bool {
	for k, p := range ps {
		if p.i != k || p.g < 0 || p.g > 65535 || (k > 0 && ps[k-1].g >= p.g) {
			return false
		}
	}
	return true
}

func validSet(gl []int) bool {
	for k, g := range gl {
		if g < 0 || g > 65535 || (k > 0 && gl[k-1] >= g) {
			return false
		}
	}
	return true
}

func numClasses(ps []pair) int {
	m := 0
	for _, p := range ps {
		if p.i > m {
			m = p.i
		}
	}
	return m + 1
}

// wellFormed states when the round trip is demanded: valid coverage tables,
// arrays indexed by coverage index have one entry per covered glyph, at least
// one input coverage set in the format 3 subtables.
func (d desc) wellFormed() bool {
	switch d.kind {
	case "seq1", "ch1":
		return validCov(d.cov) && len(d.sets) == len(d.cov)
	case "seq2", "ch2":
		return validCov(d.cov)
	case "seq3", "ch3":
		for k := 0; k < 3; k++ {
			for _, s := range d.gs[k] {
				if !validSet(s) {
					return false
				}
			}
		}
		return len(d.gs[1]) >= 1
	case "gsub81":
		for k := 0; k < 2; k++ {
			for _, c := range d.covs[k] {
				if !validCov(c) {
					return false
				}
			}
		}
		return validCov(d.cov) && len(d.nums) == len(d.cov)
	}
	return false
}

func nonzero(ps []pair) []pair {
	out := []pair{}
	for _, p := range ps {
		if p.i != 0 {
			out = append(out, p)
		}
	}
	return out
}

// normal is what a well-formed subtable must come back as: class-0 entries
// of class tables mean "not listed"; rule sets for classes that do not occur
// can never apply and are dropped by the readers.
func (d desc) normal() desc {
	n := d
	if d.kind == "seq2" || d.kind == "ch2" {
		for k := 0; k < 3; k++ {
			n.cls[k] = nonzero(d.cls[k])
		}
		if nc := numClasses(d.cls[1]); len(d.sets) > nc {
			n.sets = d.sets[:nc]
		}
	}
	return n
}

func sameInts(a, b []int) bool {
	if len(a) != len(b) {
		return false
	}
	for i := range a {
		if a[i] != b[i] {
			return false
		}
	}
	return true
}

func samePairs(a, b []pair) bool {
	if len(a) != len(b) {
		return false
	}
	for i := range a {
		if a[i] != b[i] {
			return false
		}
	}
	return true
}

func sameActs(a, b []action) bool {
	if len(a) != len(b) {
		return false
	}
	for i := range a {
		if a[i] != b[i] {
			return false
		}
	}
	return true
}

// same compares two descriptions; nil and empty glyph / record slices are
// the same sequence, a nil rule set and an empty rule set are not.
func same(a, b desc) bool {
	if a.kind != b.kind || !samePairs(a.cov, b.cov) || len(a.sets) != len(b.sets) ||
		!sameActs(a.acts, b.acts) || !sameInts(a.nums, b.nums) {
		return false
	}
	for k := 0; k < 3; k++ {
		if !samePairs(a.cls[k], b.cls[k]) || len(a.gs[k]) != len(b.gs[k]) {
			return false
		}
		for i := range a.gs[k] {
			if !sameInts(a.gs[k][i], b.gs[k][i]) {
				return false
			}
		}
	}
	for k := 0; k < 2; k++ {
		if len(a.covs[k]) != len(b.covs[k]) {
			return false
		}
		for i := range a.covs[k] {
			if !samePairs(a.covs[k][i], b.covs[k][i]) {
				return false
			}
		}
	}
	for i := range a.sets {
		x, y := a.sets[i], b.sets[i]
		if x.isNil != y.isNil || len(x.rules) != len(y.rules) {
			return false
		}
		for j := range x.rules {
			p, q := x.rules[j], y.rules[j]
			if !sameInts(p.back, q.back) || !sameInts(p.in, q.in) || !sameInts(p.look, q.look) || !sameActs(p.acts, q.acts) {
				return false
			}
		}
	}
	return true
}

// table says through which lookup table / lookup type the subtable is read.
func (d desc) table(gpos bool) (gtab.Type, int) {
	switch d.kind {
	case "seq1", "seq2", "seq3":
		if gpos {
			return gtab.TypeGpos, 7
		}
		return gtab.TypeGsub, 5
	case "ch1", "ch2", "ch3":
		if gpos {
			return gtab.TypeGpos, 8
		}
		return gtab.TypeGsub, 6
	}
	return gtab.TypeGsub, 8
}
