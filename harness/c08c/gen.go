package c08c

import (
	"fmt"
	"sort"

	"seehuhn.de/go/sfnt/verifharness/vlib"
)

// ---- small random structures ----------------------------------------------

// glyphList: strictly increasing glyph list over the 16-bit range, a mix of
// runs and singletons (both coverage formats get chosen), boundaries 0 and
// 65535 with probability 1/5 each.
func glyphList(r *vlib.Rand, maxGlyphs int) []int {
	seen := map[int]bool{}
	target := r.Intn(maxGlyphs + 1)
	if r.Chance(1, 5) {
		seen[0] = true
	}
	if r.Chance(1, 5) {
		seen[65535] = true
	}
	span := vlib.Pick(r, []int{16, 300, 65536})
	base := r.Intn(65536 - span + 1)
	for tries := 0; len(seen) < target && tries < 4*maxGlyphs+10; tries++ {
		s := base + r.Intn(span)
		l := 1
		if r.Chance(1, 2) {
			l = 2 + r.Intn(12)
		}
		for k := 0; k < l && s+k < 65536 && len(seen) < target; k++ {
			seen[s+k] = true
		}
	}
	out := make([]int, 0, len(seen))
	for g := range seen {
		out = append(out, g)
	}
	sort.Ints(out)
	return out
}

func validPairs(gl []int) []pair {
	ps := make([]pair, len(gl))
	for i, g := range gl {
		ps[i] = pair{g, i}
	}
	return ps
}

func genCov(r *vlib.Rand, maxGlyphs int) []pair { return validPairs(glyphList(r, maxGlyphs)) }

func u16val(r *vlib.Rand) int {
	return vlib.Pick(r, []int{0, 1, 2, 255, 256, 65535, r.Intn(65536), r.Intn(20)})
}

func genNums(r *vlib.Rand, maxLen int) []int {
	n := vlib.Pick(r, []int{0, 0, 1, 2, maxLen, r.Intn(maxLen + 1)})
	out := make([]int, n)
	for i := range out {
		out[i] = u16val(r)
	}
	return out
}

func genActs(r *vlib.Rand, maxLen int) []action {
	n := vlib.Pick(r, []int{0, 1, 1, 2, maxLen, r.Intn(maxLen + 1)})
	out := make([]action, n)
	for i := range out {
		out[i] = action{u16val(r), u16val(r)}
	}
	return out
}

// genClasses: class table; with zeroes = true some entries carry class 0
// explicitly (the same classification as leaving them out).
func genClasses(r *vlib.Rand, maxGlyphs, maxClass int, zeroes bool) []pair {
	gl := glyphList(r, maxGlyphs)
	ps := make([]pair, 0, len(gl))
	cur := 1 + r.Intn(maxClass)
	for _, g := range gl {
		if r.Chance(1, 3) {
			cur = 1 + r.Intn(maxClass)
		}
		c := cur
		if zeroes && r.Chance(1, 6) {
			c = 0
		}
		ps = append(ps, pair{g, c})
	}
	return ps
}

func genRuleSets(r *vlib.Rand, n int, chained bool) []ruleSet {
	sets := make([]ruleSet, n)
	mode := r.Intn(6) // 0: all nil, 1: all empty, others: mixed
	for i := range sets {
		switch {
		case mode == 0 || (mode >= 2 && r.Chance(1, 4)):
			sets[i].isNil = true
			continue
		case mode == 1 || (mode >= 2 && r.Chance(1, 6)):
			sets[i].rules = []rule{}
			continue
		}
		k := vlib.Pick(r, []int{1, 1, 2, 3, 5})
		sets[i].rules = make([]rule, k)
		for j := range sets[i].rules {
			ru := rule{in: genNums(r, 4), acts: genActs(r, 3)}
			if chained {
				ru.back, ru.look = genNums(r, 3), genNums(r, 3)
			}
			sets[i].rules[j] = ru
		}
	}
	return sets
}

func genSets(r *vlib.Rand, n int, pool [][]int) [][]int {
	out := make([][]int, n)
	for i := range out {
		if len(pool) > 0 && r.Chance(1, 3) {
			out[i] = vlib.Pick(r, pool) // the same set at several positions
		} else {
			out[i] = glyphList(r, vlib.Pick(r, []int{0, 1, 3, 12, 40}))
		}
	}
	return out
}

var kinds = []string{"seq1", "seq2", "seq3", "ch1", "ch2", "ch3", "gsub81"}

// genDesc: a small subtable, usually well-formed.
func genDesc(r *vlib.Rand, kind string) desc {
	d := desc{kind: kind}
	ill := r.Chance(1, 12)
	switch kind {
	case "seq1", "ch1":
		d.cov = genCov(r, vlib.Pick(r, []int{0, 1, 2, 4, 9}))
		n := len(d.cov)
		if ill {
			n += r.Intn(5) - 2
			if n < 0 {
				n = 0
			}
		}
		d.sets = genRuleSets(r, n, kind == "ch1")
	case "seq2", "ch2":
		d.cov = genCov(r, vlib.Pick(r, []int{0, 1, 4, 9}))
		maxClass := vlib.Pick(r, []int{1, 2, 3, 6})
		zeroes := r.Chance(1, 3)
		d.cls[1] = genClasses(r, vlib.Pick(r, []int{0, 2, 8, 30}), maxClass, zeroes)
		if kind == "ch2" {
			d.cls[0] = genClasses(r, vlib.Pick(r, []int{0, 2, 8}), maxClass, zeroes)
			d.cls[2] = genClasses(r, vlib.Pick(r, []int{0, 2, 8}), maxClass, zeroes)
		}
		nc := numClasses(d.cls[1])
		n := vlib.Pick(r, []int{nc, nc, nc, nc - 1, nc + 1, nc + 3, 0, 1})
		if n < 0 {
			n = 0
		}
		d.sets = genRuleSets(r, n, kind == "ch2")
	case "seq3":
		n := vlib.Pick(r, []int{1, 1, 2, 3, 6})
		if ill {
			n = 0
		}
		d.gs[1] = genSets(r, n, nil)
		d.acts = genActs(r, 4)
	case "ch3":
		pool := genSets(r, 2, nil)
		n := vlib.Pick(r, []int{1, 1, 2, 4})
		if ill {
			n = 0
		}
		d.gs[0] = genSets(r, vlib.Pick(r, []int{0, 0, 1, 3}), pool)
		d.gs[1] = genSets(r, n, pool)
		d.gs[2] = genSets(r, vlib.Pick(r, []int{0, 0, 1, 3}), pool)
		d.acts = genActs(r, 4)
	case "gsub81":
		d.cov = genCov(r, vlib.Pick(r, []int{0, 1, 4, 12}))
		n := len(d.cov)
		if ill {
			n += r.Intn(5) - 2
			if n < 0 {
				n = 0
			}
		}
		d.nums = make([]int, n)
		for i := range d.nums {
			d.nums[i] = u16val(r)
		}
		for k := 0; k < 2; k++ {
			m := vlib.Pick(r, []int{0, 0, 1, 2, 4})
			for i := 0; i < m; i++ {
				c := genCov(r, vlib.Pick(r, []int{0, 1, 5, 20}))
				if ill && r.Chance(1, 2) && len(c) >= 2 {
					c[0].i, c[1].i = c[1].i, c[0].i // breaks the Table invariant: loud refusal expected
				}
				d.covs[k] = append(d.covs[k], c)
			}
		}
	}
	if ill && len(d.cov) >= 2 && r.Chance(1, 3) {
		d.cov[len(d.cov)-1].i += 1 + r.Intn(3) // index out of range: encInfo panics
	}
	return d
}

func nontrivialDesc(d desc) bool {
	for _, s := range d.sets {
		if len(s.rules) > 0 {
			return true
		}
	}
	return len(d.gs[0])+len(d.gs[1])+len(d.gs[2]) >= 2 || len(d.covs[0])+len(d.covs[1]) >= 1
}

type encd struct {
	d   desc
	enc []byte
}

func addEnc(run *vlib.Run, d desc, keep *[]encd, lb ...string) {
	line := vlib.Line(vlib.Atom("ctx-enc"), d.sx())
	impl, fail, enc := ctxEnc(d)
	lb = append(lb, "ctx-enc", "ctx-enc:"+d.kind)
	if impl == "panic" {
		lb = append(lb, "ctx-enc:refused")
	}
	if !d.wellFormed() {
		lb = append(lb, "ctx-enc:ill-formed")
	}
	if len(enc) > 60000 {
		lb = append(lb, "ctx-enc:>60000-bytes")
	}
	for _, s := range d.sets {
		if s.isNil {
			lb = append(lb, "ctx-enc:has-nil-set")
			break
		}
	}
	for _, s := range d.sets {
		if !s.isNil && len(s.rules) == 0 {
			lb = append(lb, "ctx-enc:has-empty-set")
			break
		}
	}
	idx := run.Add(line, impl, nontrivialDesc(d), lb...)
	if fail != "" {
		run.Fail(idx, line, fail, "c08c-encode-"+d.kind)
	}
	if enc != nil && keep != nil {
		*keep = append(*keep, encd{d, enc})
	}
}

func genEncodes(run *vlib.Run, r *vlib.Rand, tier string) []encd {
	var encs []encd
	// the empty subtable of every format
	for _, k := range kinds {
		d := desc{kind: k}
		if k == "seq3" || k == "ch3" {
			d.gs[1] = [][]int{{}}
		}
		addEnc(run, d, &encs, "ctx-enc:empty")
	}
	for k := 0; k < vlib.Count(tier, 1400, 30000); k++ {
		addEnc(run, genDesc(r, vlib.Pick(r, kinds)), &encs)
	}
	return encs
}

// ---- 16-bit limits ----------------------------------------------------------

func rep(n, v int) []int {
	out := make([]int, n)
	for i := range out {
		out[i] = v
	}
	return out
}

func repActs(n int) []action {
	out := make([]action, n)
	for i := range out {
		out[i] = action{1, 2}
	}
	return out
}

func rangeCov(from, n int) []pair {
	ps := make([]pair, n)
	for i := range ps {
		ps[i] = pair{from + i, i}
	}
	return ps
}

// scattered: n glyphs 0, 2, 4, ...: coverage format 1 (4 + 2n bytes)
func scattered(n int) []int {
	out := make([]int, n)
	for i := range out {
		out[i] = 2 * i
	}
	return out
}

// altClasses: n glyphs with classes 1,2,1,2,...: class format 1 (6 + 2n bytes)
func altClasses(n int) []pair {
	ps := make([]pair, n)
	for i := range ps {
		ps[i] = pair{i, 1 + i%2}
	}
	return ps
}

// genBoundaries: for every format, families of subtables in which one
// critical offset or count sweeps across 65535 (all sizes are even, so 65534
// is the largest offset that fits and 65536 the smallest that does not).
func genBoundaries(run *vlib.Run, r *vlib.Rand, tier string) []encd {
	var encs []encd
	add := func(d desc, what string, v int) {
		addEnc(run, d, &encs, "boundary", fmt.Sprintf("boundary:%s=%d", what, v))
	}
	deltas := []int{-2, -1, 0, 1, 2} // in units of 2 bytes around the limit
	if tier == "thorough" {
		deltas = []int{-6, -5, -4, -3, -2, -1, 0, 1, 2, 3, 4, 5, 6}
	}
	for _, dl := range deltas {
		// SeqContext1: coverage offset = 6 + 2 + (2 + 2 + 4 + 2m) = 16 + 2m
		m := (65534-16)/2 + dl
		add(desc{kind: "seq1", cov: rangeCov(7, 1), sets: []ruleSet{{rules: []rule{{in: rep(m, 9)}}}}},
			"seq1-coverageOffset", 16+2*m)
		// many small rules: 8 + 2 + k*(2 + 8): each rule 4 + 2 + 4 = 10 bytes
		k := (65534-10)/12 + dl
		rs := make([]rule, k)
		for i := range rs {
			rs[i] = rule{in: []int{i & 0xffff}, acts: []action{{0, i & 0xffff}}}
		}
		add(desc{kind: "seq1", cov: rangeCov(0, 1), sets: []ruleSet{{rules: rs}}}, "seq1-coverageOffset-many-rules", 10+12*k)
		// rule sets nil in the middle and at the end, many sets: 6 + 2n with a 2-byte set each second
		n := (65534-6)/3 + dl
		sets := make([]ruleSet, n)
		total := 6 + 2*n
		for i := range sets {
			if i%2 == 0 && i+1 < n {
				sets[i].rules = []rule{}
				total += 2
			} else {
				sets[i].isNil = true
			}
		}
		add(desc{kind: "seq1", cov: rangeCov(0, n), sets: sets}, "seq1-coverageOffset-many-sets", total)

		// SeqContext2: class definition offset = coverage offset + 6 (one glyph)
		m = (65534-24)/2 + dl
		add(desc{kind: "seq2", cov: rangeCov(7, 1), cls: [3][]pair{nil, {{7, 1}}, nil},
			sets: []ruleSet{{isNil: true}, {rules: []rule{{in: rep(m, 1)}}}}}, "seq2-classDefOffset", 24+2*m)

		// SeqContext3: the only coverage offset = 6 + 2 + 4a
		a := (65534-8)/4 + dl
		add(desc{kind: "seq3", gs: [3][][]int{nil, {{1, 2, 3}}, nil}, acts: repActs(a)}, "seq3-coverageOffset", 8+4*a)
		// last of three coverage offsets: 6 + 6 + 4a + 2 * (4 + 2g)
		g := (65534-12-4-8)/4 + dl
		add(desc{kind: "seq3", gs: [3][][]int{nil, {scattered(g), scattered(g), {5}}, nil}, acts: repActs(1)},
			"seq3-lastCoverageOffset", 12+4+2*(4+2*g))

		// ChainedSeqContext1: offset of the second rule set = 6 + 4 + 10 + (2 + 2 + 8 + 2b)
		b := (65534-32)/2 + dl
		add(desc{kind: "ch1", cov: rangeCov(3, 2), sets: []ruleSet{{rules: []rule{{back: rep(b, 4)}}}, {rules: []rule{{in: []int{1}}}}}},
			"ch1-ruleSetOffset", 32+2*b)
		// offset of the second rule within its set = 2 + 4 + 8 + 2b
		b = (65534-14)/2 + dl
		add(desc{kind: "ch1", cov: rangeCov(3, 1), sets: []ruleSet{{rules: []rule{{look: rep(b, 4)}, {acts: repActs(1)}}}}},
			"ch1-ruleOffset", 14+2*b)
		// the counts of the last rule: backtrack 65535 / 65536, input 65534 / 65535 glyphs
		c := 65535 + dl
		add(desc{kind: "ch1", cov: rangeCov(3, 1), sets: []ruleSet{{rules: []rule{{back: rep(c, 4)}}}}}, "ch1-backtrackCount", c)
		add(desc{kind: "ch1", cov: rangeCov(3, 1), sets: []ruleSet{{rules: []rule{{in: rep(c-1, 4)}}}}}, "ch1-inputGlyphCount", c)
		add(desc{kind: "ch1", cov: rangeCov(3, 1), sets: []ruleSet{{rules: []rule{{look: rep(c, 4)}}}}}, "ch1-lookaheadCount", c)
		add(desc{kind: "ch1", cov: rangeCov(3, 1), sets: []ruleSet{{rules: []rule{{acts: repActs(c)}}}}}, "ch1-seqLookupCount", c)
		// many nil rule sets: coverage offset = 6 + 2n
		n = (65534-6)/2 + dl
		add(desc{kind: "ch1", cov: rangeCov(0, n), sets: make([]ruleSet, n)}, "ch1-coverageOffset-all-nil", 6+2*n)
		for i := range encs[len(encs)-1].d.sets {
			_ = i
		}

		// ChainedSeqContext2: lookahead class offset with large class tables, all rule sets nil
		// 12 + 6 + 10 + (6 + 2x) + (6 + 2x) = 40 + 4x
		x := (65534-40)/4 + dl
		nilSets := []ruleSet{{isNil: true}, {isNil: true}, {isNil: true}}
		add(desc{kind: "ch2", cov: rangeCov(3, 1), cls: [3][]pair{altClasses(x), altClasses(x), {{1, 1}}}, sets: nilSets},
			"ch2-lookaheadClassDefOffset", 40+4*x)
		// rule set offset: 12 + 4 + 10 + 4 + 10 + 4 = 44 for set 1, then 2 + 2 + 8 + 2b
		b = (65534-56)/2 + dl
		add(desc{kind: "ch2", cov: rangeCov(3, 1), cls: [3][]pair{nil, {{3, 1}}, nil},
			sets: []ruleSet{{rules: []rule{{back: rep(b, 1)}}}, {rules: []rule{{}}}}}, "ch2-ruleSetOffset", 56+2*b)
		add(desc{kind: "ch2", cov: rangeCov(3, 1), cls: [3][]pair{nil, {{3, 1}}, nil},
			sets: []ruleSet{{isNil: true}, {rules: []rule{{in: rep(c-1, 1)}}}}}, "ch2-inputGlyphCount", c)
		add(desc{kind: "ch2", cov: rangeCov(3, 1), cls: [3][]pair{nil, {{3, 1}}, nil},
			sets: []ruleSet{{isNil: true}, {rules: []rule{{}, {look: rep(c, 1)}}}}}, "ch2-lookaheadCount", c)

		// ChainedSeqContext3: first input coverage offset behind a large backtrack coverage
		// 10 + 2 + 2 + 2 + 4 = 20; backtrack coverage 4 + 2g
		g = (65534-24)/2 + dl
		add(desc{kind: "ch3", gs: [3][][]int{{scattered(g)}, {{5}}, {{6}}}, acts: repActs(1)}, "ch3-inputCoverageOffset", 24+2*g)
		// lookahead offset: input coverage large
		add(desc{kind: "ch3", gs: [3][][]int{nil, {scattered(g + 1)}, {{6}}}, acts: repActs(1)}, "ch3-lookaheadCoverageOffset", 10+2+2+4+4+2*(g+1))
		a = (65534-12)/4 + dl
		add(desc{kind: "ch3", gs: [3][][]int{nil, {{5}}, nil}, acts: repActs(a)}, "ch3-inputCoverageOffset-many-records", 12+4*a)

		// Gsub8_1: coverage offset = 10 + 2n with n substitutes
		n = (65534-10)/2 + dl
		add(desc{kind: "gsub81", cov: rangeCov(0, n), nums: rep(n, 77)}, "gsub81-coverageOffset", 10+2*n)
		// backtrack coverage offset: 10 + 2 + 2g (substitutes) + (4 + 2g) (input coverage, format 1)
		g = (65534-16)/4 + dl
		add(desc{kind: "gsub81", cov: validPairs(scattered(g)), covs: [2][][]pair{{rangeCov(4, 3)}, nil}, nums: rep(g, 77)},
			"gsub81-backtrackCoverageOffset", 16+4*g)
		add(desc{kind: "gsub81", cov: validPairs(scattered(g - 3)), covs: [2][][]pair{{rangeCov(4, 3)}, {rangeCov(9, 1)}}, nums: rep(g-3, 77)},
			"gsub81-lookaheadCoverageOffset", 10+4+2*(g-3)+4+2*(g-3)+10)
	}
	_ = r
	return encs
}

// ---- readers ----------------------------------------------------------------

// mutate returns a damaged copy of b: truncation, single-byte changes,
// 16-bit field changes to boundary values, off-by-one, extension, deletion,
// one 16-bit field copied over another (aliasing offsets).
func mutate(r *vlib.Rand, b []byte) ([]byte, string) {
	c := append([]byte(nil), b...)
	switch r.Intn(7) {
	case 0:
		if len(c) > 0 {
			c = c[:r.Intn(len(c))]
		}
		return c, "mut:truncate"
	case 1:
		for k := 0; k <= r.Intn(3) && len(c) > 0; k++ {
			c[r.Intn(len(c))] = byte(r.Uint64())
		}
		return c, "mut:byte"
	case 2:
		if len(c) >= 2 {
			p := 2 * r.Intn(len(c)/2)
			v := vlib.Pick(r, []int{0, 1, 2, 3, 255, 256, 0x7fff, 0x8000, 0xfffe, 0xffff})
			c[p], c[p+1] = byte(v>>8), byte(v)
		}
		return c, "mut:field"
	case 3:
		if len(c) >= 2 {
			p := 2 * r.Intn(len(c)/2)
			v := int(c[p])<<8 | int(c[p+1])
			v += vlib.Pick(r, []int{-2, -1, 1, 2})
			c[p], c[p+1] = byte(v>>8), byte(v)
		}
		return c, "mut:offbyone"
	case 4:
		c = append(c, r.Bytes(r.Intn(12))...)
		return c, "mut:extend"
	case 5:
		if len(c) >= 4 {
			p, q := 2*r.Intn(len(c)/2), 2*r.Intn(len(c)/2)
			c[p], c[p+1] = c[q], c[q+1]
		}
		return c, "mut:alias"
	}
	if len(c) > 6 {
		c = append(c[:4], c[6:]...)
	}
	return c, "mut:delete"
}

func addRead(run *vlib.Run, tbl string, lt int, data []byte, pos int, lb ...string) {
	impl, fail := ctxRead(tbl, lt, data, pos)
	line := vlib.Line(vlib.Atom("ctx-read"), vlib.Atom(tbl), vlib.Int(lt), vlib.Hex(data), vlib.Int(pos))
	if !modelled(tbl, lt) {
		line = "!" + line
	}
	cls := impl
	if len(cls) > 3 {
		cls = cls[:3]
	}
	lb = append(lb, "ctx-read", "ctx-read:"+cls)
	idx := run.Add(line, impl, len(data) >= 8, lb...)
	if fail != "" {
		run.Fail(idx, line, fail, "c08c-read")
	}
}

func genReads(run *vlib.Run, r *vlib.Rand, tier string, encs []encd) {
	var small, big []encd
	for _, e := range encs {
		switch {
		case len(e.enc) < 600:
			small = append(small, e)
		case len(e.enc) > 60000:
			// the model's reader walks the bytes once per offset: keep the
			// large read cases to subtables with few pieces
			pieces := len(e.d.gs[0]) + len(e.d.gs[1]) + len(e.d.gs[2]) + len(e.d.covs[0]) + len(e.d.covs[1])
			for _, s := range e.d.sets {
				pieces += 1 + len(s.rules)
			}
			if pieces <= 40 {
				big = append(big, e)
			}
		}
	}
	for k := 0; k < vlib.Count(tier, 2600, 50000) && len(small) > 0; k++ {
		e := vlib.Pick(r, small)
		gpos := r.Chance(1, 3) && e.d.kind != "gsub81"
		_, lt := e.d.table(gpos)
		tbl := "gsub"
		if gpos {
			tbl = "gpos"
		}
		pre := r.Intn(3)
		data := append(r.Bytes(pre), e.enc...)
		lb := "mut:none"
		if r.Chance(3, 4) {
			var m []byte
			m, lb = mutate(r, e.enc)
			data = append(r.Bytes(pre), m...)
		}
		if r.Chance(1, 25) { // another lookup type: the dispatch decides
			lt = vlib.Pick(r, []int{5, 6, 7, 8})
		}
		if r.Chance(1, 60) {
			lt = vlib.Pick(r, []int{0, 4, 9, 10, 6554, 65535})
		}
		addRead(run, tbl, lt, data, pre, lb, "ctx-read:"+e.d.kind)
	}
	// large subtables, as written and with one field changed
	for k := 0; k < vlib.Count(tier, 14, 120) && len(big) > 0; k++ {
		e := big[k%len(big)]
		_, lt := e.d.table(false)
		data := e.enc
		lb := "mut:none"
		if k >= len(big) {
			data, lb = mutate(r, e.enc)
		}
		addRead(run, "gsub", lt, data, 0, lb, "ctx-read:large", "ctx-read:"+e.d.kind)
	}
	// random bytes behind a plausible header
	for k := 0; k < vlib.Count(tier, 300, 6000); k++ {
		lt := vlib.Pick(r, []int{5, 6, 8})
		tbl := "gsub"
		if r.Chance(1, 3) {
			tbl, lt = "gpos", vlib.Pick(r, []int{7, 8})
		}
		data := r.Bytes(r.Intn(60))
		if len(data) >= 2 {
			data[0], data[1] = 0, byte(vlib.Pick(r, []int{1, 1, 2, 2, 3, 3, 0, 4}))
		}
		for p := 2; p+1 < len(data); p += 2 { // small numbers: offsets and counts that land inside
			if r.Chance(2, 3) {
				data[p], data[p+1] = 0, byte(r.Intn(40))
			}
		}
		addRead(run, tbl, lt, data, 0, "ctx-read:random")
	}
}

func be(v int) []byte { return []byte{byte(v >> 8), byte(v)} }

// genAliased: hand-built subtables in which many offsets point at one piece
// (rule sets sharing one rule set, rules sharing one rule, positions sharing
// one coverage table), and offsets that point at the header itself.  Counts
// stay small: the cubic blow-up of aliased offsets is property C02's open
// finding, not this part's subject.
func genAliased(run *vlib.Run, r *vlib.Rand, tier string) {
	for k := 0; k < vlib.Count(tier, 40, 800); k++ {
		n := 1 + r.Intn(12) // rule sets
		m := 1 + r.Intn(12) // rules per set
		chained := r.Chance(1, 2)
		var b []byte
		// format 1: coverage (format 2, one range of n glyphs) right behind the offset array
		covAt := 6 + 2*n
		setAt := covAt + 10
		ruleAt := 2 + 2*m // relative to the rule set
		b = append(b, 0, 1)
		b = append(b, be(covAt)...)
		b = append(b, be(n)...)
		for i := 0; i < n; i++ {
			o := setAt
			if r.Chance(1, 6) {
				o = vlib.Pick(r, []int{0, 2, covAt, setAt + 2})
			}
			b = append(b, be(o)...)
		}
		b = append(b, 0, 2, 0, 1)
		b = append(b, be(10)...)
		b = append(b, be(10+n-1)...)
		b = append(b, 0, 0)
		b = append(b, be(m)...)
		for j := 0; j < m; j++ {
			o := ruleAt
			if r.Chance(1, 8) {
				o = vlib.Pick(r, []int{0, 2, ruleAt + 2})
			}
			b = append(b, be(o)...)
		}
		if chained {
			b = append(b, 0, 1, 0, 5, 0, 2, 0, 6, 0, 1, 0, 7, 0, 1, 0, 0, 0, 3)
			addRead(run, "gsub", 6, b, 0, "ctx-read:aliased", "ctx-read:ch1")
		} else {
			b = append(b, 0, 2, 0, 1, 0, 6, 0, 0, 0, 3)
			addRead(run, "gsub", 5, b, 0, "ctx-read:aliased", "ctx-read:seq1")
		}
	}
	for k := 0; k < vlib.Count(tier, 30, 600); k++ {
		// format 3: all positions share one coverage table
		nb, ni, nl := r.Intn(5), 1+r.Intn(5), r.Intn(5)
		hdr := 10 + 2*(nb+ni+nl) + 4
		var b []byte
		b = append(b, 0, 3)
		for _, c := range []int{nb, ni, nl} {
			b = append(b, be(c)...)
			for i := 0; i < c; i++ {
				o := hdr
				if r.Chance(1, 8) {
					o = vlib.Pick(r, []int{0, 2, hdr + 2, hdr + 10})
				}
				b = append(b, be(o)...)
			}
		}
		b = append(b, 0, 1, 0, 0, 0, 9)
		b = append(b, 0, 1, 0, 3, 0, 4, 0, 5, 0, 9)
		addRead(run, vlib.Pick(r, []string{"gsub", "gpos"}), vlib.Pick(r, []int{6, 8}), b, 0, "ctx-read:aliased", "ctx-read:ch3")
	}
}

// genReaderLimits: hand-built subtables for the size tests of the readers
// ("SeqContext2 too large", "ChainedSeqContext1/2 too large"): the readers add
// up the sizes of what they have parsed, whatever the offsets in the file say,
// so rule sets that share one rule set in the file (aliased offsets) count
// once per offset.  In each family the computed position of the last rule set
// (or rule) sweeps across 65535: accepted on one side, rejected on the other.
func genReaderLimits(run *vlib.Run, r *vlib.Rand, tier string) {
	deltas := []int{-2, -1, 0, 1, 2}
	if tier == "thorough" {
		deltas = []int{-5, -4, -3, -2, -1, 0, 1, 2, 3, 4, 5}
	}
	glyphs := func(n, v int) []byte {
		out := make([]byte, 0, 2*n)
		for i := 0; i < n; i++ {
			out = append(out, byte(v>>8), byte(v))
		}
		return out
	}
	cat := func(parts ...[]byte) []byte {
		var out []byte
		for _, p := range parts {
			out = append(out, p...)
		}
		return out
	}
	cov := func(n int) []byte { return cat(be(2), be(1), be(10), be(10+n-1), be(0)) } // format 2, one range
	// a chained rule with b backtrack glyphs, nothing else: 8 + 2b bytes
	crule := func(b int) []byte { return cat(be(b), glyphs(b, 4), be(1), be(0), be(0)) }
	for _, dl := range deltas {
		// ChainedSeqContext1, n rule sets sharing one rule set with one rule:
		// position of set k as the reader counts = 6 + 2n + 10 + k * (4 + 8 + 2b)
		for _, n := range []int{2, 4} {
			covLen := 10 // what the coverage table takes when written again
			if 4+2*n < covLen {
				covLen = 4 + 2*n
			}
			b := ((65535-(6+2*n+covLen))/(n-1)-12)/2 + dl
			setAt := 6 + 2*n + 10
			offs := []byte{}
			for i := 0; i < n; i++ {
				offs = append(offs, be(setAt)...)
			}
			data := cat(be(1), be(6+2*n), be(n), offs, cov(n), be(1), be(4), crule(b))
			addRead(run, "gsub", 6, data, 0, "ctx-read:reader-limit",
				fmt.Sprintf("reader-limit:ch1-ruleSet-n=%d=%d", n, 6+2*n+covLen+(n-1)*(12+2*b)))
		}
		// one rule set, m rules sharing one rule: position of rule j = 2 + 2m + j * (8 + 2b)
		for _, m := range []int{2, 3} {
			b := ((65535-(2+2*m))/(m-1)-8)/2 + dl
			ro := []byte{}
			for j := 0; j < m; j++ {
				ro = append(ro, be(2+2*m)...)
			}
			data := cat(be(1), be(8), be(1), be(18), cov(1), be(m), ro, crule(b))
			addRead(run, "gpos", 8, data, 0, "ctx-read:reader-limit",
				fmt.Sprintf("reader-limit:ch1-rule-m=%d=%d", m, 2+2*m+(m-1)*(8+2*b)))
		}
		// ChainedSeqContext2: 12 + 2n, coverage (10), class tables 4 + 10 + 4 bytes; the input
		// classes go up to n-1 so that no rule set is dropped
		{
			n := 2
			base := 12 + 2*n + 6 + 4 + 8 + 4 // header, coverage, three class tables as written again
			b := ((65535-base)-12)/2 + dl
			setAt := 12 + 2*n + 28
			data := cat(be(2), be(12+2*n), be(12+2*n+10), be(12+2*n+14), be(12+2*n+24), be(n), be(setAt), be(setAt),
				cov(1), be(2), be(0), cat(be(2), be(1), be(10), be(10), be(n-1)), be(2), be(0),
				be(1), be(4), crule(b))
			addRead(run, "gsub", 6, data, 0, "ctx-read:reader-limit",
				fmt.Sprintf("reader-limit:ch2-ruleSet=%d", base+12+2*b))
		}
		// SeqContext2: 8 + 2n + n * (2 + 2 + 4 + 2g) + 10 (coverage) must not exceed 65535
		{
			n := 2
			g := ((65535-(8+2*n+6))/n-8)/2 + dl
			setAt := 8 + 2*n + 10 + 10
			data := cat(be(2), be(8+2*n), be(8+2*n+10), be(n), be(setAt), be(setAt),
				cov(1), cat(be(2), be(1), be(10), be(10), be(n-1)),
				be(1), be(4), be(g+1), be(0), glyphs(g, 1))
			addRead(run, "gsub", 5, data, 0, "ctx-read:reader-limit",
				fmt.Sprintf("reader-limit:seq2-total=%d", 8+2*n+6+n*(8+2*g)))
		}
	}
	// a chained rule whose inputGlyphCount is 0: the readers compute count-1 in
	// uint16 and take 65535 glyphs; the decoded rule cannot be written again
	// (the input count would be 65536) and must be refused loudly
	for _, cut := range []int{0, 2} {
		data := cat(be(1), be(8), be(1), be(14), cat(be(1), be(1), be(5)), be(1), be(4),
			be(0), be(0), glyphs(65535, 3), be(0), be(0))
		data = data[:len(data)-cut]
		addRead(run, "gsub", 6, data, 0, "ctx-read:reader-limit", "reader-limit:ch1-inputGlyphCount-0")
		data2 := cat(be(2), be(16), be(22), be(26), be(34), be(2), be(0), be(38),
			cat(be(1), be(1), be(5)), be(2), be(0), cat(be(1), be(5), be(1), be(1)), be(2), be(0),
			be(1), be(4), be(0), be(0), glyphs(65535, 1), be(0), be(0))
		data2 = data2[:len(data2)-cut]
		addRead(run, "gpos", 8, data2, 0, "ctx-read:reader-limit", "reader-limit:ch2-inputGlyphCount-0")
	}
	_ = r
}
