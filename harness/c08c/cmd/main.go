package main

import (
	"seehuhn.de/go/sfnt/verifharness/c08c"
	"seehuhn.de/go/sfnt/verifharness/vlib"
)

func main() { vlib.Main(c08c.Gen, c08c.RunCase) }
