package c08c

import (
	"fmt"
	"sort"
)

// An independent structural walk over emitted bytes, written from the
// OpenType specification (chapter 2: Sequence Context formats 1-3, Chained
// Sequence Context formats 1-3, Coverage and Class Definition tables; GSUB:
// Reverse Chaining Contextual Single Substitution format 1).  It does not use
// the library's readers.  The walk follows every offset, compares what it
// finds with the structure that was encoded and records the byte interval of
// every piece; at the end the pieces must tile the emitted bytes exactly.

type walker struct {
	b    []byte
	ivs  [][2]int
	fail string
}

func (w *walker) errf(format string, a ...any) {
	if w.fail == "" {
		w.fail = fmt.Sprintf(format, a...)
	}
}

func (w *walker) u16(at int) int {
	if at < 0 || at+2 > len(w.b) {
		w.errf("read of 2 bytes at %d beyond the %d bytes emitted", at, len(w.b))
		return 0
	}
	return int(w.b[at])<<8 | int(w.b[at+1])
}

func (w *walker) piece(from, to int) { w.ivs = append(w.ivs, [2]int{from, to}) }

// tiles checks that the recorded pieces cover [0, len) without gap or overlap.
func (w *walker) tiles() {
	if w.fail != "" {
		return
	}
	sort.Slice(w.ivs, func(a, b int) bool {
		if w.ivs[a][0] != w.ivs[b][0] {
			return w.ivs[a][0] < w.ivs[b][0]
		}
		return w.ivs[a][1] < w.ivs[b][1]
	})
	pos := 0
	for _, iv := range w.ivs {
		if iv[0] == iv[1] {
			continue
		}
		if iv[0] != pos {
			w.errf("pieces do not tile the subtable: gap or overlap at byte %d (next piece starts at %d)", pos, iv[0])
			return
		}
		pos = iv[1]
	}
	if pos != len(w.b) {
		w.errf("pieces end at byte %d but %d bytes were emitted", pos, len(w.b))
	}
}

// coverage parses a Coverage table at off: the covered glyphs in coverage
// index order (format 1: glyph array; format 2: ranges with consecutive
// startCoverageIndex).
func (w *walker) coverage(off int, what string) []int {
	format := w.u16(off)
	n := w.u16(off + 2)
	var gl []int
	switch format {
	case 1:
		for i := 0; i < n && w.fail == ""; i++ {
			gl = append(gl, w.u16(off+4+2*i))
		}
		w.piece(off, off+4+2*n)
	case 2:
		for i := 0; i < n && w.fail == ""; i++ {
			s, e, ci := w.u16(off+4+6*i), w.u16(off+6+6*i), w.u16(off+8+6*i)
			if ci != len(gl) || e < s {
				w.errf("%s: coverage range %d has start index %d, want %d", what, i, ci, len(gl))
			}
			for g := s; g <= e; g++ {
				gl = append(gl, g)
			}
		}
		w.piece(off, off+4+6*n)
	default:
		w.errf("%s: offset %d does not point at a coverage table (format word %d)", what, off, format)
	}
	for i := 1; i < len(gl); i++ {
		if gl[i-1] >= gl[i] {
			w.errf("%s: coverage glyphs not increasing", what)
		}
	}
	return gl
}

// classDef parses a Class Definition table at off into the non-zero classes.
func (w *walker) classDef(off int, what string) []pair {
	format := w.u16(off)
	m := map[int]int{}
	switch format {
	case 1:
		start, n := w.u16(off+2), w.u16(off+4)
		for i := 0; i < n && w.fail == ""; i++ {
			if c := w.u16(off + 6 + 2*i); c != 0 {
				m[start+i] = c
			}
		}
		w.piece(off, off+6+2*n)
	case 2:
		n := w.u16(off + 2)
		for i := 0; i < n && w.fail == ""; i++ {
			s, e, c := w.u16(off+4+6*i), w.u16(off+6+6*i), w.u16(off+8+6*i)
			for g := s; g <= e; g++ {
				if _, dup := m[g]; dup {
					w.errf("%s: class ranges overlap at glyph %d", what, g)
				}
				if c != 0 {
					m[g] = c
				}
			}
		}
		w.piece(off, off+4+6*n)
	default:
		w.errf("%s: offset %d does not point at a class definition table (format word %d)", what, off, format)
	}
	ps := make([]pair, 0, len(m))
	for g, c := range m {
		ps = append(ps, pair{g, c})
	}
	sort.Slice(ps, func(a, b int) bool { return ps[a].g < ps[b].g })
	return ps
}

func (w *walker) u16s(at, n int, want []int, what string) {
	if n != len(want) {
		w.errf("%s: count %d written, %d in the structure", what, n, len(want))
		return
	}
	for i := 0; i < n && w.fail == ""; i++ {
		if v := w.u16(at + 2*i); v != want[i]&0xffff {
			w.errf("%s[%d] = %d, want %d", what, i, v, want[i])
		}
	}
}

func (w *walker) records(at, n int, want []action, what string) {
	if n != len(want) {
		w.errf("%s: seqLookupCount %d written, %d in the structure", what, n, len(want))
		return
	}
	for i := 0; i < n && w.fail == ""; i++ {
		if s, l := w.u16(at+4*i), w.u16(at+4*i+2); s != want[i].seq&0xffff || l != want[i].idx&0xffff {
			w.errf("%s[%d] = (%d %d), want (%d %d)", what, i, s, l, want[i].seq, want[i].idx)
		}
	}
}

func glyphsOf(ps []pair) []int {
	out := make([]int, len(ps))
	for i, p := range ps {
		out[i] = p.g
	}
	return out
}

func (w *walker) wantCoverage(off int, want []int, what string) {
	got := w.coverage(off, what)
	if w.fail == "" && !sameInts(got, want) {
		w.errf("%s: the offset %d points at a coverage table for %d glyphs, the structure covers %d (or other glyphs)", what, off, len(got), len(want))
	}
}

// ruleSets walks the rule set offset array at arr (count entries, offsets
// from the start of the subtable) and every rule set and rule behind it.
func (w *walker) ruleSets(d desc, arr int) {
	for i, s := range d.sets {
		off := w.u16(arr + 2*i)
		if s.isNil {
			if off != 0 {
				w.errf("rule set %d is nil but has offset %d", i, off)
			}
			continue
		}
		if off == 0 {
			w.errf("rule set %d is not nil but has offset 0", i)
			continue
		}
		n := w.u16(off)
		if n != len(s.rules) {
			w.errf("rule set %d: rule count %d written, %d in the structure", i, n, len(s.rules))
			continue
		}
		w.piece(off, off+2+2*n)
		for j, r := range s.rules {
			if w.fail != "" {
				return
			}
			ro := off + w.u16(off+2+2*j)
			what := fmt.Sprintf("rule %d.%d", i, j)
			if d.chained() {
				p := ro
				nb := w.u16(p)
				w.u16s(p+2, nb, r.back, what+" backtrack")
				p += 2 + 2*nb
				ni := w.u16(p)
				if ni != len(r.in)+1 {
					w.errf("%s: inputGlyphCount %d written, want %d", what, ni, len(r.in)+1)
					return
				}
				w.u16s(p+2, ni-1, r.in, what+" input")
				p += 2 + 2*(ni-1)
				nl := w.u16(p)
				w.u16s(p+2, nl, r.look, what+" lookahead")
				p += 2 + 2*nl
				na := w.u16(p)
				w.records(p+2, na, r.acts, what+" records")
				p += 2 + 4*na
				w.piece(ro, p)
			} else {
				gc, na := w.u16(ro), w.u16(ro+2)
				if gc != len(r.in)+1 {
					w.errf("%s: glyphCount %d written, want %d", what, gc, len(r.in)+1)
					return
				}
				w.u16s(ro+4, gc-1, r.in, what+" input")
				w.records(ro+4+2*(gc-1), na, r.acts, what+" records")
				w.piece(ro, ro+4+2*(gc-1)+4*na)
			}
		}
	}
}

// coverageArray: count at `at`, then count offsets; each points at the
// coverage table of the corresponding set.  Returns the position after it.
func (w *walker) coverageArray(at int, want [][]int, what string) int {
	n := w.u16(at)
	if n != len(want) {
		w.errf("%s: glyph count %d written, %d in the structure", what, n, len(want))
		return at
	}
	for i := 0; i < n && w.fail == ""; i++ {
		w.wantCoverage(w.u16(at+2+2*i), want[i], fmt.Sprintf("%s[%d]", what, i))
	}
	return at + 2 + 2*n
}

// specWalk checks the bytes emitted for the well-formed subtable d (d in
// normal form except for the rule sets the reader would drop: those are
// still written and are walked too).
func specWalk(d desc, enc []byte) string {
	w := &walker{b: enc}
	format := w.u16(0)
	wantFormat := map[string]int{"seq1": 1, "seq2": 2, "seq3": 3, "ch1": 1, "ch2": 2, "ch3": 3, "gsub81": 1}[d.kind]
	if format != wantFormat {
		return fmt.Sprintf("format word %d, want %d", format, wantFormat)
	}
	switch d.kind {
	case "seq1", "ch1":
		n := w.u16(4)
		if n != len(d.sets) {
			return fmt.Sprintf("rule set count %d written, %d in the structure", n, len(d.sets))
		}
		w.piece(0, 6+2*n)
		w.wantCoverage(w.u16(2), glyphsOf(d.cov), "coverage")
		w.ruleSets(d, 6)
	case "seq2":
		n := w.u16(6)
		if n != len(d.sets) {
			return fmt.Sprintf("rule set count %d written, %d in the structure", n, len(d.sets))
		}
		w.piece(0, 8+2*n)
		w.wantCoverage(w.u16(2), glyphsOf(d.cov), "coverage")
		if got := w.classDef(w.u16(4), "classDef"); w.fail == "" && !samePairs(got, nonzero(d.cls[1])) {
			w.errf("the class definition offset points at a different class table")
		}
		w.ruleSets(d, 8)
	case "ch2":
		n := w.u16(10)
		if n != len(d.sets) {
			return fmt.Sprintf("rule set count %d written, %d in the structure", n, len(d.sets))
		}
		w.piece(0, 12+2*n)
		w.wantCoverage(w.u16(2), glyphsOf(d.cov), "coverage")
		for k, nm := range []string{"backtrackClassDef", "inputClassDef", "lookaheadClassDef"} {
			if got := w.classDef(w.u16(4+2*k), nm); w.fail == "" && !samePairs(got, nonzero(d.cls[k])) {
				w.errf("the %s offset points at a different class table", nm)
			}
		}
		w.ruleSets(d, 12)
	case "seq3":
		gc, na := w.u16(2), w.u16(4)
		if gc != len(d.gs[1]) {
			return fmt.Sprintf("glyphCount %d written, %d in the structure", gc, len(d.gs[1]))
		}
		for i := 0; i < gc && w.fail == ""; i++ {
			w.wantCoverage(w.u16(6+2*i), d.gs[1][i], fmt.Sprintf("coverage[%d]", i))
		}
		w.records(6+2*gc, na, d.acts, "records")
		w.piece(0, 6+2*gc+4*na)
	case "ch3":
		p := w.coverageArray(2, d.gs[0], "backtrack")
		p = w.coverageArray(p, d.gs[1], "input")
		p = w.coverageArray(p, d.gs[2], "lookahead")
		na := w.u16(p)
		w.records(p+2, na, d.acts, "records")
		w.piece(0, p+2+4*na)
	case "gsub81":
		w.wantCoverage(w.u16(2), glyphsOf(d.cov), "coverage")
		bk := make([][]int, len(d.covs[0]))
		for i, c := range d.covs[0] {
			bk[i] = glyphsOf(c)
		}
		la := make([][]int, len(d.covs[1]))
		for i, c := range d.covs[1] {
			la[i] = glyphsOf(c)
		}
		p := w.coverageArray(4, bk, "backtrack")
		p = w.coverageArray(p, la, "lookahead")
		ns := w.u16(p)
		w.u16s(p+2, ns, d.nums, "substitutes")
		w.piece(0, p+2+2*ns)
	}
	w.tiles()
	return w.fail
}

// ---- which subtables can be written at all --------------------------------

func covSize(gl []int) int {
	runs := 0
	for i, g := range gl {
		if i == 0 || g != gl[i-1]+1 {
			runs++
		}
	}
	if 4+2*len(gl) <= 4+6*runs {
		return 4 + 2*len(gl)
	}
	return 4 + 6*runs
}

// classSize: size of the smaller class definition format for the table
// (format 1: all glyphs from the first to the last key; format 2: runs of one
// non-zero class).
func classSize(ps []pair) int {
	if len(ps) == 0 {
		return 4
	}
	span := ps[len(ps)-1].g - ps[0].g + 1
	segs := 0
	for i, p := range ps {
		if p.i == 0 {
			continue
		}
		if i == 0 || ps[i-1].g+1 != p.g || ps[i-1].i != p.i {
			segs++
		}
	}
	f1, f2 := 6+2*span, 4+6*segs
	if span > 65535 || f2 < f1 {
		return f2
	}
	return f1
}

// maxField computes, from the structure alone, the largest value that has
// to go into a 16-bit offset or count field when the subtable is laid out in
// the order the library uses; the subtable is representable in this layout
// iff the result is at most 65535.
func maxField(d desc) int {
	mx := 0
	up := func(v int) {
		if v > mx {
			mx = v
		}
	}
	ruleSize := func(r rule) int {
		if d.chained() {
			up(len(r.back))
			up(len(r.in) + 1)
			up(len(r.look))
			up(len(r.acts))
			return 8 + 2*(len(r.back)+len(r.in)+len(r.look)) + 4*len(r.acts)
		}
		up(len(r.in) + 1)
		up(len(r.acts))
		return 4 + 2*len(r.in) + 4*len(r.acts)
	}
	setsFrom := func(total int) int {
		for _, s := range d.sets {
			if s.isNil {
				continue
			}
			up(total)
			up(len(s.rules))
			pos := 2 + 2*len(s.rules)
			for _, r := range s.rules {
				up(pos)
				pos += ruleSize(r)
			}
			total += pos
		}
		return total
	}
	covsFrom := func(total int, ss [][]int) int {
		for _, s := range ss {
			up(total)
			total += covSize(s)
		}
		return total
	}
	switch d.kind {
	case "seq1":
		up(len(d.sets))
		up(setsFrom(6 + 2*len(d.sets))) // coverage offset
	case "seq2":
		up(len(d.sets))
		t := setsFrom(8 + 2*len(d.sets))
		up(t)
		up(t + covSize(glyphsOf(d.cov))) // class definition offset
	case "ch1":
		up(len(d.sets))
		up(6 + 2*len(d.sets))
		setsFrom(6 + 2*len(d.sets) + covSize(glyphsOf(d.cov)))
	case "ch2":
		up(len(d.sets))
		t := 12 + 2*len(d.sets)
		up(t)
		t += covSize(glyphsOf(d.cov))
		up(t)
		t += classSize(d.cls[0])
		up(t)
		t += classSize(d.cls[1])
		up(t)
		t += classSize(d.cls[2])
		setsFrom(t)
	case "seq3":
		up(len(d.gs[1]))
		up(len(d.acts))
		covsFrom(6+2*len(d.gs[1])+4*len(d.acts), d.gs[1])
	case "ch3":
		up(len(d.gs[0]))
		up(len(d.gs[1]))
		up(len(d.gs[2]))
		up(len(d.acts))
		t := 10 + 2*(len(d.gs[0])+len(d.gs[1])+len(d.gs[2])) + 4*len(d.acts)
		t = covsFrom(t, d.gs[0])
		t = covsFrom(t, d.gs[1])
		covsFrom(t, d.gs[2])
	case "gsub81":
		up(len(d.covs[0]))
		up(len(d.covs[1]))
		up(len(d.nums))
		t := 10 + 2*(len(d.covs[0])+len(d.covs[1])+len(d.nums))
		up(t)
		t += covSize(glyphsOf(d.cov))
		for k := 0; k < 2; k++ {
			for _, c := range d.covs[k] {
				up(t)
				t += covSize(glyphsOf(c))
			}
		}
	}
	return mx
}
