package c08c

import (
	"crypto/md5"
	"encoding/hex"
	"fmt"
	"time"

	"seehuhn.de/go/sfnt/opentype/gtab"
	"seehuhn.de/go/sfnt/verifharness/vlib"
)

// guard runs f and turns a panic into panicked = true.
func guard(f func()) (panicked bool, msg string) {
	defer func() {
		if e := recover(); e != nil {
			panicked = true
			msg = fmt.Sprint(e)
		}
	}()
	f()
	return false, ""
}

const readTimeout = 20 * time.Second

// readGuarded runs the subtable reader under recover and a watchdog.
func readGuarded(data []byte, pos int, tp gtab.Type, lt int) (st gtab.Subtable, err error, panicked bool, msg string, hung bool) {
	type res struct {
		st  gtab.Subtable
		err error
		pp  bool
		msg string
	}
	ch := make(chan res, 1)
	go func() {
		var r res
		r.pp, r.msg = guard(func() { r.st, r.err = gtab.VerifC08CReadSubtable(data, int64(pos), tp, uint16(lt)) })
		ch <- r
	}()
	select {
	case r := <-ch:
		return r.st, r.err, r.pp, r.msg, false
	case <-time.After(readTimeout):
		return nil, nil, false, "", true
	}
}

func bytesObs(enc []byte, n int) string {
	if len(enc) <= 300 {
		return vlib.Str(vlib.L(vlib.Atom("ok"), vlib.Hex(enc), vlib.Int(n)))
	}
	sum := md5.Sum(enc)
	return vlib.Str(vlib.L(vlib.Atom("ok"), vlib.Int(len(enc)), vlib.Atom(hex.EncodeToString(sum[:])), vlib.Int(n)))
}

// ctxEnc: "ctx-enc SUBTABLE".  The oracle, on the real code only:
//   - encodeLen() == len(encode()) whenever encode returns;
//   - a well-formed subtable is refused (panic) only if some offset or count
//     of its layout does not fit 16 bits, and is never written in that case;
//   - what is written reads back (GSUB and GPOS reader) as the normal form of
//     the structure, and the independent structural walk finds every piece
//     where the offsets say, the pieces tiling the emitted bytes.
func ctxEnc(d desc) (impl, fail string, enc []byte) {
	st := d.build()
	var n int
	p1, msg := guard(func() { enc = gtab.VerifC08CEncode(st) })
	p2, _ := guard(func() { n = gtab.VerifC08CEncodeLen(st) })
	wf := d.wellFormed()
	mf := maxField(d)
	if p1 {
		if wf && mf <= 0xFFFF {
			return "panic", fmt.Sprintf("encode panics on a well-formed subtable whose fields all fit 16 bits (largest %d): %s", mf, msg), nil
		}
		return "panic", "", nil
	}
	if p2 {
		return "panic-len", "encodeLen panics but encode does not", nil
	}
	impl = bytesObs(enc, n)
	if n != len(enc) {
		return impl, fmt.Sprintf("encodeLen = %d but encode wrote %d bytes", n, len(enc)), enc
	}
	if !wf {
		return impl, "", enc
	}
	if mf > 0xFFFF {
		return impl, fmt.Sprintf("a subtable with a 16-bit field value of %d was written instead of refused", mf), enc
	}
	want := d.normal()
	for _, gpos := range []bool{false, true} {
		if gpos && d.kind == "gsub81" {
			continue
		}
		tp, lt := d.table(gpos)
		back, err, pp, pmsg, hung := readGuarded(enc, 0, tp, lt)
		switch {
		case hung:
			return impl, "the reader hangs on encode's output", enc
		case pp:
			return impl, "the reader panics on encode's output: " + pmsg, enc
		case err != nil:
			return impl, "the reader rejects encode's output: " + err.Error(), enc
		}
		bd, ok := describe(back)
		if !ok || !same(want, bd) {
			s := vlib.Str(bd.sx())
			if len(s) > 300 {
				s = s[:300] + "..."
			}
			return impl, "round trip changes the subtable: " + s, enc
		}
	}
	if f := specWalk(d, enc); f != "" {
		return impl, "structural walk: " + f, enc
	}
	return impl, "", enc
}

// kindOf: does this part's model cover the dispatch?
func modelled(tbl string, lt int) bool {
	return (tbl == "gsub" && (lt == 5 || lt == 6 || lt == 8)) || (tbl == "gpos" && (lt == 7 || lt == 8))
}

// ctxRead: "ctx-read gsub|gpos TYPE xBYTES pos".  Oracle: no panic, no hang;
// what the reader returns is well-formed, and either refused loudly by the
// encoder for a field that does not fit, or written and read back unchanged.
func ctxRead(tbl string, lt int, data []byte, pos int) (impl, fail string) {
	tp := gtab.Type(gtab.TypeGsub)
	if tbl == "gpos" {
		tp = gtab.TypeGpos
	}
	back, err, pp, msg, hung := readGuarded(data, pos, tp, lt)
	switch {
	case hung:
		return "hang", "the subtable reader does not return"
	case pp:
		return "panic", "the subtable reader panics: " + msg
	case err != nil:
		return "err", ""
	}
	d, ok := describe(back)
	if !ok {
		return "other", ""
	}
	impl = vlib.Str(vlib.L(vlib.Atom("ok"), d.sx()))
	if !d.wellFormed() {
		return impl, "decoded subtable is not well-formed (coverage and array lengths differ, or invalid coverage)"
	}
	if (d.kind == "seq2" || d.kind == "ch2") && len(d.sets) > numClasses(d.cls[1]) {
		return impl, "decoded subtable has rule sets for classes that do not occur"
	}
	var enc []byte
	if pp, msg := guard(func() { enc = gtab.VerifC08CEncode(back) }); pp {
		if mf := maxField(d); mf <= 0xFFFF {
			return impl, fmt.Sprintf("encode panics on a decoded subtable whose fields all fit 16 bits (largest %d): %s", mf, msg)
		}
		return impl, ""
	}
	again, err, pp2, _, hung2 := readGuarded(enc, 0, tp, lt)
	if hung2 || pp2 || err != nil {
		return impl, "decoded subtable does not survive encode -> read"
	}
	if d2, ok := describe(again); !ok || !same(d.normal(), d2) {
		return impl, "decoded subtable changes under encode -> read"
	}
	return impl, ""
}
