package c08c

import (
	"errors"

	"seehuhn.de/go/sfnt/verifharness/vlib"
)

// Gen writes the run for the given tier.
func Gen(run *vlib.Run, seed uint64, tier string) {
	run.Rule = "one case = one call of encode + encodeLen on a contextual subtable (SeqContext1-3, ChainedSeqContext1-3, Gsub8_1) or of the subtable reader on a byte string; non-trivial = encoder input with at least one rule / two coverage tables, reader input of >= 8 bytes; distinct by case line"
	r := vlib.NewRand(seed)
	encs := genEncodes(run, r.Fork("ctx-enc"), tier)
	encs = append(encs, genBoundaries(run, r.Fork("ctx-boundary"), tier)...)
	genReads(run, r.Fork("ctx-read"), tier, encs)
	genAliased(run, r.Fork("ctx-alias"), tier)
	genReaderLimits(run, r.Fork("ctx-reader-limits"), tier)
}

// RunCase re-executes one case line (corpus entries and replays).
func RunCase(line string) (impl, fail, sig string, err error) {
	if len(line) > 0 && line[0] == '!' {
		line = line[1:]
	}
	items, err := vlib.Parse(line)
	if err != nil {
		return "", "", "", err
	}
	if len(items) == 0 {
		return "", "", "", errors.New("empty case")
	}
	kind, err := vlib.AsAtom(items[0])
	if err != nil {
		return "", "", "", err
	}
	switch kind {
	case "ctx-enc":
		if len(items) != 2 {
			return "", "", "", errors.New("ctx-enc: want 1 argument")
		}
		d, err := descOf(items[1])
		if err != nil {
			return "", "", "", err
		}
		impl, fail, _ = ctxEnc(d)
		return impl, fail, "c08c-encode-" + d.kind, nil
	case "ctx-read":
		if len(items) != 5 {
			return "", "", "", errors.New("ctx-read: want 4 arguments")
		}
		tbl, err := vlib.AsAtom(items[1])
		if err != nil || (tbl != "gsub" && tbl != "gpos") {
			return "", "", "", errors.New("ctx-read: gsub or gpos expected")
		}
		lt, err := vlib.AsInt(items[2])
		if err != nil {
			return "", "", "", err
		}
		data, err := vlib.AsBytes(items[3])
		if err != nil {
			return "", "", "", err
		}
		pos, err := vlib.AsInt(items[4])
		if err != nil {
			return "", "", "", err
		}
		impl, fail = ctxRead(tbl, lt, data, pos)
		return impl, fail, "c08c-read", nil
	}
	return "", "", "", errors.New("unknown case kind " + kind)
}
