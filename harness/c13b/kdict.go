package c13b

import (
	"bytes"
	"fmt"
	"sort"
	"unicode/utf8"

	"seehuhn.de/go/geom/matrix"
	"seehuhn.de/go/postscript/funit"
	"seehuhn.de/go/postscript/type1"

	"seehuhn.de/go/sfnt/cff"
	"seehuhn.de/go/sfnt/verifharness/vlib"
)

const nStd = 391

func init() {
	kinds["strings"] = kStrings
	kinds["sget"] = kSget
	kinds["utf8"] = kUtf8
	kinds["dict-enc"] = kDictEnc
	kinds["topdict"] = kTopDict
	kinds["privdict"] = kPrivDict
	kinds["fmdict"] = kFmDict
	kinds["access"] = kAccess
	kinds["readpriv"] = kReadPriv
	kinds["angle"] = kAngle
}

// ---------------------------------------------------------------------------
// string table
// ---------------------------------------------------------------------------

// strings (xINIT ...) (xLOOKUP ...)
func kStrings(items []vlib.Sx) (result, error) {
	if len(items) != 2 {
		return result{}, fmt.Errorf("strings: 2 arguments")
	}
	initial, err := asStrList(items[0])
	if err != nil {
		return result{}, err
	}
	lookups, err := asStrList(items[1])
	if err != nil {
		return result{}, err
	}
	var sids []int32
	var data []string
	var idx []byte
	idxObs := atom("panic")
	bad, what := safely(func() { sids, data = cff.VerifC13bIntern(initial, lookups) })
	if bad {
		return result{impl: "panic", fail: "cffStrings.lookup: " + what, sig: "c13b-strings-panic"}, nil
	}
	bad2, _ := safely(func() { idx = cff.VerifC13bStringsEncode(data) })
	if !bad2 {
		idxObs = vlib.L(atom("ok"), bytesObs(idx))
	}
	res := result{impl: vlib.Str(vlib.L(vlib.Ints(sids), longObs(strList(data)), idxObs))}

	// oracle: every interned string is found again under its SID, in the table
	// and through the written String INDEX; SIDs are equal exactly for equal
	// strings; standard strings keep their fixed SID
	fail := func(msg string) (result, error) {
		res.fail, res.sig = msg, "c13b-strings-roundtrip"
		return res, nil
	}
	std := cff.VerifC13StdStrings()
	var back [][]byte
	if !bad2 {
		var err error
		back, _, err = cff.VerifC13ReadIndex(append(idx, 0, 0, 0, 0), 0)
		if err != nil {
			return fail("String INDEX does not read back: " + err.Error())
		}
		if len(back) != len(data) {
			return fail("String INDEX has a different number of entries")
		}
	}
	seen := map[string]int32{}
	for i, s := range lookups {
		sid := sids[i]
		got, err := cff.VerifC13bStringGet(data, sid)
		if err != nil || got != s {
			return fail(fmt.Sprintf("lookup %d: %q got SID %d which resolves to %q (%v)", i, s, sid, got, err))
		}
		if !bad2 && sid >= nStd && string(back[sid-nStd]) != s {
			return fail(fmt.Sprintf("lookup %d: SID %d reads back as %q from the String INDEX", i, sid, back[sid-nStd]))
		}
		if prev, ok := seen[s]; ok && prev != sid {
			return fail(fmt.Sprintf("%q got two SIDs %d and %d", s, prev, sid))
		}
		seen[s] = sid
		if len(initial) == 0 {
			if k, ok := stdSID[s]; ok && int(sid) != k {
				return fail(fmt.Sprintf("standard string %q got SID %d, not %d", s, sid, k))
			}
			if _, ok := stdSID[s]; !ok && sid < nStd {
				return fail(fmt.Sprintf("custom string %q got the standard SID %d (%q)", s, sid, std[sid]))
			}
		}
	}
	bySID := map[int32]string{}
	for s, sid := range seen {
		if t, ok := bySID[sid]; ok && t != s {
			return fail(fmt.Sprintf("%q and %q share SID %d", s, t, sid))
		}
		bySID[sid] = s
	}
	return res, nil
}

// sget (xDATA ...) sid
func kSget(items []vlib.Sx) (result, error) {
	if len(items) != 2 {
		return result{}, fmt.Errorf("sget: 2 arguments")
	}
	data, err := asStrList(items[0])
	if err != nil {
		return result{}, err
	}
	sid, err := vlib.AsI64(items[1])
	if err != nil {
		return result{}, err
	}
	var s string
	var gerr error
	bad, what := safely(func() { s, gerr = cff.VerifC13bStringGet(data, int32(sid)) })
	if bad {
		return result{impl: "panic", fail: "cffStrings.get: " + what, sig: "c13b-strings-panic"}, nil
	}
	if gerr != nil {
		return result{impl: "err"}, nil
	}
	return result{impl: vlib.Str(vlib.L(atom("ok"), hexStr(s)))}, nil
}

// utf8 xS: what getString makes of a string operand (string([]rune(x)))
func kUtf8(items []vlib.Sx) (result, error) {
	if len(items) != 1 {
		return result{}, fmt.Errorf("utf8: 1 argument")
	}
	s, err := asStr(items[0])
	if err != nil {
		return result{}, err
	}
	// a DICT holding "Notice <sid 391>" read with s as the only custom string
	r, aerr := cff.VerifC13bAccess([]byte{0xf8, 0x1b, 1}, []string{s}, 1, 0, 0, false)
	if aerr != nil {
		return result{impl: "err"}, nil
	}
	res := result{impl: vlib.Str(hexStr(r.String))}
	if !utf8.ValidString(r.String) || (utf8.ValidString(s) && r.String != s) {
		res.fail, res.sig = "getString does not return valid UTF-8 / changes a valid string", "c13b-getstring"
	}
	return res, nil
}

// ---------------------------------------------------------------------------
// DICT entries
// ---------------------------------------------------------------------------

func asOperand(x vlib.Sx) (interface{}, error) {
	l, err := vlib.AsList(x)
	if err != nil || len(l) < 2 {
		return nil, fmt.Errorf("operand expected")
	}
	k, _ := vlib.AsAtom(l[0])
	switch k {
	case "i":
		v, err := vlib.AsI64(l[1])
		if err != nil || v < -2147483648 || v > 2147483647 {
			return nil, fmt.Errorf("int32 expected")
		}
		return int32(v), nil
	case "r":
		r, err := asReal(vlib.List(l[1:]))
		if err != nil {
			return nil, err
		}
		return r.float(), nil
	case "s":
		s, err := asStr(l[1])
		return s, err
	}
	return nil, fmt.Errorf("bad operand kind %q", k)
}

// dict-enc (xINIT ...) ((op ARG ...) ...)
func kDictEnc(items []vlib.Sx) (result, error) {
	if len(items) != 2 {
		return result{}, fmt.Errorf("dict-enc: 2 arguments")
	}
	initial, err := asStrList(items[0])
	if err != nil {
		return result{}, err
	}
	el, err := vlib.AsList(items[1])
	if err != nil {
		return result{}, err
	}
	entries := map[uint16][]interface{}{}
	for _, e := range el {
		l, err := vlib.AsList(e)
		if err != nil || len(l) < 1 {
			return result{}, fmt.Errorf("entry expected")
		}
		op, err := vlib.AsInt(l[0])
		if err != nil {
			return result{}, err
		}
		if _, dup := entries[uint16(op)]; dup {
			return result{}, fmt.Errorf("duplicate operator in case line")
		}
		args := []interface{}{}
		for _, a := range l[1:] {
			v, err := asOperand(a)
			if err != nil {
				return result{}, err
			}
			args = append(args, v)
		}
		entries[uint16(op)] = args
	}
	var buf []byte
	var data []string
	bad, what := safely(func() { buf, data = cff.VerifC13bEncodeDict(entries, initial) })
	if bad {
		return result{impl: "panic", fail: "cffDict.encode: " + what, sig: "c13b-dict-panic"}, nil
	}
	res := result{impl: vlib.Str(vlib.L(vlib.Hex(buf), strList(data)))}
	// oracle: the independent DICT parser finds every operator once, with the
	// operands given (strings through the table after the call)
	sd, ok := specDict(buf)
	if !ok {
		res.fail, res.sig = "the written DICT does not parse", "c13b-dict-roundtrip"
		return res, nil
	}
	if msg := sd.checkAgainst(entries, data); msg != "" {
		res.fail, res.sig = msg, "c13b-dict-roundtrip"
	}
	return res, nil
}

// topdict isCID (xINIT ...) INFO
func kTopDict(items []vlib.Sx) (result, error) {
	if len(items) != 3 {
		return result{}, fmt.Errorf("topdict: 3 arguments")
	}
	isCID, err := vlib.AsBool(items[0])
	if err != nil {
		return result{}, err
	}
	initial, err := asStrList(items[1])
	if err != nil {
		return result{}, err
	}
	fi, err := asInfo(items[2])
	if err != nil {
		return result{}, err
	}
	var buf []byte
	var data []string
	bad, what := safely(func() { buf, data = cff.VerifC13bTopDict(fi, isCID, initial) })
	if bad {
		return result{impl: "panic", fail: "makeTopDict/encode: " + what, sig: "c13b-dict-panic"}, nil
	}
	res := result{impl: vlib.Str(vlib.L(vlib.Hex(buf), strList(data)))}
	sd, ok := specDict(buf)
	if !ok {
		res.fail, res.sig = "the written Top DICT does not parse", "c13b-topdict"
		return res, nil
	}
	if msg := sd.checkTop(fi, isCID, data); msg != "" {
		res.fail, res.sig = msg, "c13b-topdict"
	}
	return res, nil
}

// privdict PRIV defW nomW
func kPrivDict(items []vlib.Sx) (result, error) {
	if len(items) != 3 {
		return result{}, fmt.Errorf("privdict: 3 arguments")
	}
	p, err := asPriv(items[0])
	if err != nil {
		return result{}, err
	}
	defW, err := vlib.AsInt(items[1])
	if err != nil {
		return result{}, err
	}
	nomW, err := vlib.AsInt(items[2])
	if err != nil {
		return result{}, err
	}
	f := &cff.Font{Outlines: &cff.Outlines{}}
	f.Private = append(f.Private, p)
	var buf []byte
	bad, what := safely(func() { buf = cff.VerifC13bPrivateDict(f, 0, float64(defW), float64(nomW)) })
	if bad {
		return result{impl: "panic", fail: "makePrivateDict/encode: " + what, sig: "c13b-dict-panic"}, nil
	}
	res := result{impl: vlib.Str(vlib.Hex(buf))}
	sd, ok := specDict(buf)
	if !ok {
		res.fail, res.sig = "the written Private DICT does not parse", "c13b-privdict"
		return res, nil
	}
	if msg := sd.checkPrivate(p, defW, nomW); msg != "" {
		res.fail, res.sig = msg, "c13b-privdict"
	}
	return res, nil
}

// fmdict isCID (REAL x6)
func kFmDict(items []vlib.Sx) (result, error) {
	if len(items) != 2 {
		return result{}, fmt.Errorf("fmdict: 2 arguments")
	}
	isCID, err := vlib.AsBool(items[0])
	if err != nil {
		return result{}, err
	}
	fm, err := asMatrix(items[1])
	if err != nil {
		return result{}, err
	}
	var buf []byte
	bad, what := safely(func() { buf = cff.VerifC13bFontMatrixDict(fm, isCID) })
	if bad {
		return result{impl: "panic", fail: "setFontMatrix/encode: " + what, sig: "c13b-dict-panic"}, nil
	}
	return result{impl: vlib.Str(vlib.Hex(buf))}, nil
}

// access xBUF (xSTR ...) op intDef REAL isCID
func kAccess(items []vlib.Sx) (result, error) {
	if len(items) != 6 {
		return result{}, fmt.Errorf("access: 6 arguments")
	}
	buf, err := vlib.AsBytes(items[0])
	if err != nil {
		return result{}, err
	}
	ss, err := asStrList(items[1])
	if err != nil {
		return result{}, err
	}
	op, err := vlib.AsInt(items[2])
	if err != nil {
		return result{}, err
	}
	idef, err := vlib.AsInt(items[3])
	if err != nil {
		return result{}, err
	}
	fdef, err := asReal(items[4])
	if err != nil {
		return result{}, err
	}
	isCID, err := vlib.AsBool(items[5])
	if err != nil {
		return result{}, err
	}
	var r *cff.VerifC13bAccessResult
	var aerr error
	bad, what := safely(func() { r, aerr = cff.VerifC13bAccess(buf, ss, uint16(op), int32(idef), fdef.float(), isCID) })
	if bad {
		return result{impl: "panic", fail: "decodeDict/accessors: " + what, sig: "c13b-access-panic"}, nil
	}
	if aerr != nil {
		return result{impl: "err"}, nil
	}
	pair := vlib.L(atom("0"), atom("0"), atom("0"))
	if r.PairOK {
		pair = vlib.L(atom("1"), vlib.Int(int(r.PairX)), vlib.Int(int(r.PairY)))
	}
	return result{impl: vlib.Str(vlib.L(atom("ok"), vlib.Int(int(r.Int)), realSx(r.Float), hexStr(r.String),
		int16sSx(r.Delta), pair, matrixSx(r.FontMatrix)))}, nil
}

// readpriv xDICT (xSTR ...) xDATA
func kReadPriv(items []vlib.Sx) (result, error) {
	if len(items) != 3 {
		return result{}, fmt.Errorf("readpriv: 3 arguments")
	}
	dict, err := vlib.AsBytes(items[0])
	if err != nil {
		return result{}, err
	}
	ss, err := asStrList(items[1])
	if err != nil {
		return result{}, err
	}
	data, err := vlib.AsBytes(items[2])
	if err != nil {
		return result{}, err
	}
	var obs string
	bad, what := safely(func() {
		p, subrs, dw, nw, err := cff.VerifC13bReadPrivate(dict, ss, data)
		if err != nil {
			obs = "err"
			return
		}
		obs = vlib.Str(vlib.L(atom("ok"), privSx(p), hexList(subrs), realSx(dw), realSx(nw)))
	})
	if bad {
		return result{impl: "panic", fail: "readPrivate: " + what, sig: "c13b-readprivate-panic"}, nil
	}
	return result{impl: obs}, nil
}

// angle REAL
func kAngle(items []vlib.Sx) (result, error) {
	if len(items) != 1 {
		return result{}, fmt.Errorf("angle: 1 argument")
	}
	r, err := asReal(items[0])
	if err != nil {
		return result{}, err
	}
	x := r.float()
	y := cff.VerifC13bNormaliseAngle(x)
	res := result{impl: vlib.Str(realSx(y))}
	if x >= -180 && x < 180 && y != x {
		res.fail = fmt.Sprintf("normaliseAngle(%v) = %v: an angle inside [-180,180) is changed", x, y)
		res.sig = "c13b-font-roundtrip:fontinfo.ItalicAngle"
	}
	return res, nil
}

// ---------------------------------------------------------------------------
// independent DICT parser (Adobe TN5176, section 4 and tables 3-5)
// ---------------------------------------------------------------------------

type specOperand struct {
	isReal bool
	i      int64
	r      real // exact decimal value of a real operand (not clamped)
	rOK    bool // false: more than 18 digits / huge exponent
	size   int
	start  int // position of the operand in the DICT
}

type specEntry struct {
	op   int
	args []specOperand
}

type specDictT struct {
	entries []specEntry
	count   map[int]int
}

// specRealOperand parses the nibbles after the 0x1e prefix; n = bytes used.
func specRealOperand(buf []byte) (r real, rOK bool, n int, ok bool) {
	var txt []byte
	done := false
	for n < len(buf) && !done {
		b := buf[n]
		n++
		for _, nib := range []byte{b >> 4, b & 15} {
			switch {
			case nib <= 9:
				txt = append(txt, '0'+nib)
			case nib == 0xa:
				txt = append(txt, '.')
			case nib == 0xb:
				txt = append(txt, 'E')
			case nib == 0xc:
				txt = append(txt, 'E', '-')
			case nib == 0xd:
				return real{}, false, n, false
			case nib == 0xe:
				txt = append(txt, '-')
			default:
				done = true
			}
			if done {
				break
			}
		}
	}
	if !done {
		return real{}, false, n, false
	}
	// [-] digits [. digits] [E [-] digits]
	s := string(txt)
	neg := false
	if len(s) > 0 && s[0] == '-' {
		neg = true
		s = s[1:]
	}
	mantS, expS := s, ""
	if i := bytes.IndexByte([]byte(s), 'E'); i >= 0 {
		mantS, expS = s[:i], s[i+1:]
		if expS == "" || expS == "-" {
			return real{}, false, n, false
		}
	}
	frac := 0
	digits := ""
	seenDot := false
	for _, c := range mantS {
		switch {
		case c == '.' && !seenDot:
			seenDot = true
		case c >= '0' && c <= '9':
			digits += string(c)
			if seenDot {
				frac++
			}
		default:
			return real{}, false, n, false
		}
	}
	if digits == "" {
		return real{}, false, n, false
	}
	e := 0
	eneg := false
	for i, c := range expS {
		if c == '-' && i == 0 {
			eneg = true
			continue
		}
		if c < '0' || c > '9' {
			return real{}, false, n, false
		}
		if e < 100000 {
			e = e*10 + int(c-'0')
		}
	}
	if eneg {
		e = -e
	}
	for len(digits) > 1 && digits[0] == '0' {
		digits = digits[1:]
	}
	for len(digits) > 1 && digits[len(digits)-1] == '0' {
		digits = digits[:len(digits)-1]
		frac--
	}
	if len(digits) > 18 || e > 50000 || e < -50000 {
		return real{}, false, n, true
	}
	var m uint64
	for _, c := range digits {
		m = m*10 + uint64(c-'0')
	}
	return mkReal(neg, m, e-frac), true, n, true
}

func specDict(buf []byte) (*specDictT, bool) {
	d := &specDictT{count: map[int]int{}}
	var stack []specOperand
	pos := 0
	for pos < len(buf) {
		b0 := buf[pos]
		switch {
		case b0 == 12:
			if pos+1 >= len(buf) {
				return nil, false
			}
			op := 0x0C00 | int(buf[pos+1])
			d.entries = append(d.entries, specEntry{op, stack})
			d.count[op]++
			stack = nil
			pos += 2
		case b0 <= 21:
			d.entries = append(d.entries, specEntry{int(b0), stack})
			d.count[int(b0)]++
			stack = nil
			pos++
		case b0 == 28:
			if pos+2 >= len(buf) {
				return nil, false
			}
			stack = append(stack, specOperand{i: int64(int16(uint16(buf[pos+1])<<8 | uint16(buf[pos+2]))), size: 3, start: pos})
			pos += 3
		case b0 == 29:
			if pos+4 >= len(buf) {
				return nil, false
			}
			v := int32(uint32(buf[pos+1])<<24 | uint32(buf[pos+2])<<16 | uint32(buf[pos+3])<<8 | uint32(buf[pos+4]))
			stack = append(stack, specOperand{i: int64(v), size: 5, start: pos})
			pos += 5
		case b0 == 30:
			r, rOK, n, ok := specRealOperand(buf[pos+1:])
			if !ok {
				return nil, false
			}
			stack = append(stack, specOperand{isReal: true, r: r, rOK: rOK, size: 1 + n, start: pos})
			pos += 1 + n
		case b0 >= 32 && b0 <= 246:
			stack = append(stack, specOperand{i: int64(b0) - 139, size: 1, start: pos})
			pos++
		case b0 >= 247 && b0 <= 250:
			if pos+1 >= len(buf) {
				return nil, false
			}
			stack = append(stack, specOperand{i: (int64(b0)-247)*256 + int64(buf[pos+1]) + 108, size: 2, start: pos})
			pos += 2
		case b0 >= 251 && b0 <= 254:
			if pos+1 >= len(buf) {
				return nil, false
			}
			stack = append(stack, specOperand{i: -(int64(b0)-251)*256 - int64(buf[pos+1]) - 108, size: 2, start: pos})
			pos += 2
		default:
			return nil, false
		}
	}
	return d, len(stack) == 0
}

func (d *specDictT) get(op int) ([]specOperand, bool) {
	for i := len(d.entries) - 1; i >= 0; i-- {
		if d.entries[i].op == op {
			return d.entries[i].args, true
		}
	}
	return nil, false
}

// the operand counts of Tables 9, 10 and 23 of TN5176 for the operators this
// library writes; -1 = array / delta (any number up to the stack limit of 48)
var specArity = map[int]int{
	0: 1, 1: 1, 2: 1, 3: 1, 4: 1, 0x0C00: 1, 0x0C01: 1, 0x0C02: 1, 0x0C03: 1, 0x0C04: 1, 0x0C07: 6,
	15: 1, 16: 1, 17: 1, 18: 2, 0x0C1E: 3, 0x0C22: 1, 0x0C24: 1, 0x0C25: 1,
	6: -1, 7: -1, 8: -1, 9: -1, 10: 1, 11: 1, 19: 1, 20: 1, 21: 1, 0x0C09: 1, 0x0C0A: 1, 0x0C0B: 1, 0x0C0E: 1,
}

// wellFormed: every operator at most once, with a legal operand count.
func (d *specDictT) wellFormed() string {
	for _, e := range d.entries {
		if d.count[e.op] > 1 {
			return fmt.Sprintf("operator %#x is written %d times", e.op, d.count[e.op])
		}
		want, known := specArity[e.op]
		switch {
		case !known:
			return fmt.Sprintf("unknown operator %#x", e.op)
		case want >= 0 && len(e.args) != want:
			return fmt.Sprintf("operator %#x has %d operands, the format wants %d", e.op, len(e.args), want)
		case want < 0 && (len(e.args) == 0 || len(e.args) > 48):
			return fmt.Sprintf("operator %#x has %d operands (1..48 allowed)", e.op, len(e.args))
		}
	}
	return ""
}

func sameRealValue(r real, x float64) bool {
	want, ok := realOf(x)
	if !ok {
		return false
	}
	if want.digits() > 9 {
		return true // beyond the nine significant digits the format keeps: judged by the C13 real codec cases
	}
	if want.mant != 0 && (want.digits()+want.exp <= -300) {
		want = real{}
	}
	return r == want
}

// resolveSID: the string of a SID under the given custom strings.
func resolveSID(sid int64, data []string) (string, bool) {
	std := cff.VerifC13StdStrings()
	if sid < 0 {
		return "", false
	}
	if sid < nStd {
		return std[sid], true
	}
	if int(sid-nStd) < len(data) {
		return data[sid-nStd], true
	}
	return "", false
}

// checkAgainst compares the parsed DICT with the entries handed to encode.
func (d *specDictT) checkAgainst(entries map[uint16][]interface{}, data []string) string {
	if len(d.entries) != len(entries) {
		return fmt.Sprintf("%d operators written for %d entries", len(d.entries), len(entries))
	}
	// key order: ROS, then ascending operator numbers (SyntheticBase first of all)
	key := func(op int) int {
		switch op {
		case 0x0C1E:
			return -1
		case 0x0C14:
			return -2
		}
		return op
	}
	if !sort.SliceIsSorted(d.entries, func(i, j int) bool { return key(d.entries[i].op) < key(d.entries[j].op) }) {
		return "operators are not in key order"
	}
	for _, e := range d.entries {
		want, ok := entries[uint16(e.op)]
		if !ok || len(want) != len(e.args) {
			return fmt.Sprintf("operator %#x: wrong operand count", e.op)
		}
		for i, w := range want {
			a := e.args[i]
			switch v := w.(type) {
			case int32:
				if a.isReal || a.i != int64(v) {
					return fmt.Sprintf("operator %#x operand %d: %d not written as such", e.op, i, v)
				}
			case float64:
				if !a.isReal || !a.rOK || !sameRealValue(a.r, v) {
					return fmt.Sprintf("operator %#x operand %d: real %v written as %v", e.op, i, v, a.r)
				}
			case string:
				s, ok := resolveSID(a.i, data)
				if a.isReal || !ok || s != v {
					return fmt.Sprintf("operator %#x operand %d: string %q written as SID %d = %q", e.op, i, v, a.i, s)
				}
			}
		}
	}
	return ""
}

func (d *specDictT) oneNumber(op int) (specOperand, bool) {
	a, ok := d.get(op)
	if !ok || len(a) != 1 {
		return specOperand{}, false
	}
	return a[0], true
}

// numberIs: the operand denotes x (integer or real form).
func numberIs(a specOperand, x float64) bool {
	if a.isReal {
		return a.rOK && sameRealValue(a.r, x)
	}
	return float64(a.i) == x
}

// checkTop: the FontInfo part of a Top DICT, field by field: a field at its
// default is absent, any other field is present with its value.
func (d *specDictT) checkTop(fi *type1.FontInfo, isCID bool, data []string) string {
	if msg := d.wellFormed(); msg != "" {
		return msg
	}
	for _, t := range []struct {
		op   int
		name string
		v    string
	}{{0, "Version", fi.Version}, {1, "Notice", fi.Notice}, {0x0C00, "Copyright", fi.Copyright},
		{2, "FullName", fi.FullName}, {3, "FamilyName", fi.FamilyName}, {4, "Weight", fi.Weight}} {
		a, ok := d.oneNumber(t.op)
		if t.v == "" {
			if ok {
				return t.name + " is empty but written"
			}
			continue
		}
		if !ok || a.isReal {
			return t.name + " is missing"
		}
		if s, ok := resolveSID(a.i, data); !ok || s != t.v {
			return fmt.Sprintf("%s %q is written as SID %d = %q", t.name, t.v, a.i, s)
		}
	}
	num := func(op int, name string, v, def float64) string {
		a, ok := d.oneNumber(op)
		if v == def {
			if ok {
				return name + " has its default value but is written"
			}
			return ""
		}
		if !ok || !numberIs(a, v) {
			return fmt.Sprintf("%s %v is not written as such", name, v)
		}
		return ""
	}
	fixed := 0.0
	if fi.IsFixedPitch {
		fixed = 1
	}
	for _, msg := range []string{
		num(0x0C01, "IsFixedPitch", fixed, 0),
		num(0x0C02, "ItalicAngle", fi.ItalicAngle, 0),
		num(0x0C03, "UnderlinePosition", float64(fi.UnderlinePosition), -100),
		num(0x0C04, "UnderlineThickness", float64(fi.UnderlineThickness), 50),
	} {
		if msg != "" {
			return msg
		}
	}
	def := matrix.Matrix{0.001, 0, 0, 0.001, 0, 0}
	if isCID {
		def = matrix.Identity
	}
	a, ok := d.get(0x0C07)
	if fi.FontMatrix == def {
		if ok {
			return "FontMatrix has its default value but is written"
		}
	} else {
		if !ok || len(a) != 6 {
			return "FontMatrix is missing"
		}
		for i := range a {
			if !numberIs(a[i], fi.FontMatrix[i]) {
				return fmt.Sprintf("FontMatrix[%d] = %v is not written as such", i, fi.FontMatrix[i])
			}
		}
	}
	return ""
}

func (d *specDictT) checkPrivate(p *type1.PrivateDict, defW, nomW int) string {
	if msg := d.wellFormed(); msg != "" {
		return msg
	}
	for _, t := range []struct {
		op   int
		name string
		v    []funit.Int16
	}{{6, "BlueValues", p.BlueValues}, {7, "OtherBlues", p.OtherBlues}} {
		a, ok := d.get(t.op)
		if len(t.v) == 0 {
			if ok {
				return t.name + " is empty but written"
			}
			continue
		}
		got, dok := deltaDecode(a)
		if !ok || !dok || len(got) != len(t.v) {
			return fmt.Sprintf("%s %v: the delta array written does not denote 16-bit values", t.name, t.v)
		}
		for i := range got {
			if got[i] != t.v[i] {
				return fmt.Sprintf("%s %v is written as the delta array of %v", t.name, t.v, got)
			}
		}
	}
	num := func(op int, name string, v, def float64) string {
		a, ok := d.oneNumber(op)
		if v == def {
			if ok {
				return name + " has its default value but is written"
			}
			return ""
		}
		if !ok || !numberIs(a, v) {
			return fmt.Sprintf("%s %v is not written as such", name, v)
		}
		return ""
	}
	bold := 0.0
	if p.ForceBold {
		bold = 1
	}
	for _, msg := range []string{
		num(0x0C09, "BlueScale", p.BlueScale, 0.039625),
		num(0x0C0A, "BlueShift", float64(p.BlueShift), 7),
		num(0x0C0B, "BlueFuzz", float64(p.BlueFuzz), 1),
		num(10, "StdHW", p.StdHW, 0),
		num(11, "StdVW", p.StdVW, 0),
		num(0x0C0E, "ForceBold", bold, 0),
		num(20, "defaultWidthX", float64(defW), 0),
		num(21, "nominalWidthX", float64(nomW), 0),
	} {
		if msg != "" {
			return msg
		}
	}
	return ""
}

func deltaDecode(args []specOperand) ([]funit.Int16, bool) {
	out := make([]funit.Int16, len(args))
	var prev int64
	for i, a := range args {
		if a.isReal {
			return nil, false
		}
		prev += a.i
		if prev < -32768 || prev > 32767 {
			// the format stores plain differences; values beyond 16 bits are
			// outside what a PrivateDict can hold
			return nil, false
		}
		out[i] = funit.Int16(prev)
	}
	return out, true
}
