package c13b

import (
	"bytes"
	"fmt"
	"sort"
	"strconv"

	"seehuhn.de/go/geom/matrix"
	"seehuhn.de/go/postscript/cid"
	"seehuhn.de/go/postscript/funit"
	"seehuhn.de/go/postscript/psenc"
	"seehuhn.de/go/postscript/type1"

	"seehuhn.de/go/sfnt/cff"
	"seehuhn.de/go/sfnt/verifharness/vlib"
)

// ---------------------------------------------------------------------------
// An independent CFF assembler written from Adobe TN5176.  It lays a font out
// in ways Font.Write never does (any section order, gaps, non-minimal integer
// forms, real operands where integers would do, every charset / encoding /
// FDSelect format, predefined charsets, operators the library ignores,
// default values written explicitly) and knows what it put into the file, so
// that Read can be judged without the model; faults turn the same files into
// the structured part of the malformed stream.
// ---------------------------------------------------------------------------

type asmArg struct {
	kind byte // 'i' integer, 'r' real, 'o' offset of section ref, 'z' size of section ref, 'd' offset(ref) - offset(ref2)
	i    int
	form int // integers: 0 minimal, 3 = 28-form, 5 = 29-form
	r    real
	rsty int // reals: 0 plain decimal, 1 exponent form
	ref  string
	ref2 string
	add  int // added to an offset (faults)
}

type asmEntry struct {
	op   int
	args []asmArg
}

func aInt(v int) asmArg           { return asmArg{kind: 'i', i: v} }
func aIntF(v, form int) asmArg    { return asmArg{kind: 'i', i: v, form: form} }
func aReal(r real, sty int) asmArg { return asmArg{kind: 'r', r: r, rsty: sty} }
func aOffs(ref string) asmArg     { return asmArg{kind: 'o', ref: ref} }
func aSize(ref string) asmArg     { return asmArg{kind: 'z', ref: ref} }

type patch struct {
	pos  int // position of the four value bytes of a 29-form integer inside the blob
	arg  asmArg
	self string // section the DICT lives in (for 'd')
}

func encInt(v, form int) []byte {
	switch {
	case form == 0 && v >= -107 && v <= 107:
		return []byte{byte(v + 139)}
	case form == 0 && v >= 108 && v <= 1131:
		v -= 108
		return []byte{byte(v>>8) + 247, byte(v)}
	case form == 0 && v >= -1131 && v <= -108:
		v = -v - 108
		return []byte{byte(v>>8) + 251, byte(v)}
	case form != 5 && v >= -32768 && v <= 32767:
		return []byte{28, byte(uint16(v) >> 8), byte(uint16(v))}
	}
	u := uint32(int32(v))
	return []byte{29, byte(u >> 24), byte(u >> 16), byte(u >> 8), byte(u)}
}

// encReal writes the decimal text of r as nibbles.
func encReal(r real, sty int) []byte {
	var txt string
	digits := strconv.FormatUint(r.mant, 10)
	switch {
	case r.mant == 0:
		txt = "0"
	case sty == 0 && r.exp >= 0 && r.exp <= 6:
		txt = digits
		for i := 0; i < r.exp; i++ {
			txt += "0"
		}
	case sty == 0 && r.exp < 0 && r.exp >= -12:
		for len(digits) <= -r.exp {
			digits = "0" + digits
		}
		txt = digits[:len(digits)+r.exp] + "." + digits[len(digits)+r.exp:]
	default:
		txt = digits + "E" + strconv.Itoa(r.exp)
	}
	if r.neg {
		txt = "-" + txt
	}
	var nibs []byte
	for i := 0; i < len(txt); i++ {
		switch c := txt[i]; {
		case c >= '0' && c <= '9':
			nibs = append(nibs, c-'0')
		case c == '.':
			nibs = append(nibs, 0xa)
		case c == 'E':
			if i+1 < len(txt) && txt[i+1] == '-' {
				nibs = append(nibs, 0xc)
				i++
			} else {
				nibs = append(nibs, 0xb)
			}
		case c == '-':
			nibs = append(nibs, 0xe)
		}
	}
	nibs = append(nibs, 0xf)
	if len(nibs)%2 == 1 {
		nibs = append(nibs, 0xf)
	}
	out := []byte{30}
	for i := 0; i < len(nibs); i += 2 {
		out = append(out, nibs[i]<<4|nibs[i+1])
	}
	return out
}

func encDict(es []asmEntry, self string) ([]byte, []patch) {
	var out []byte
	var ps []patch
	for _, e := range es {
		for _, a := range e.args {
			switch a.kind {
			case 'i':
				out = append(out, encInt(a.i, a.form)...)
			case 'r':
				out = append(out, encReal(a.r, a.rsty)...)
			default:
				out = append(out, 29, 0, 0, 0, 0)
				ps = append(ps, patch{pos: len(out) - 4, arg: a, self: self})
			}
		}
		if e.op > 255 {
			out = append(out, 12)
		}
		out = append(out, byte(e.op))
	}
	return out, ps
}

func encIndex(items [][]byte, offSize int) ([]byte, []int) {
	n := len(items)
	if n == 0 {
		return []byte{0, 0}, nil
	}
	total := 1
	for _, it := range items {
		total += len(it)
	}
	min := 1
	for total >= 1<<(8*uint(min)) {
		min++
	}
	if offSize < min {
		offSize = min
	}
	out := []byte{byte(n >> 8), byte(n), byte(offSize)}
	pos := 1
	for i := 0; i <= n; i++ {
		for j := offSize - 1; j >= 0; j-- {
			out = append(out, byte(pos>>(8*uint(j))))
		}
		if i < n {
			pos += len(items[i])
		}
	}
	starts := make([]int, n)
	for i, it := range items {
		starts[i] = len(out)
		out = append(out, it...)
	}
	return out, starts
}

func encCharset(ids []int, format int) []byte {
	ids = ids[1:]
	out := []byte{byte(format)}
	switch format {
	case 0:
		for _, v := range ids {
			out = append(out, byte(v>>8), byte(v))
		}
	default:
		for i := 0; i < len(ids); {
			j := i + 1
			max := 256
			if format == 2 {
				max = 65536
			}
			for j < len(ids) && ids[j] == ids[j-1]+1 && j-i < max {
				j++
			}
			out = append(out, byte(ids[i]>>8), byte(ids[i]))
			if format == 2 {
				out = append(out, byte((j-i-1)>>8))
			}
			out = append(out, byte(j-i-1))
			i = j
		}
	}
	return out
}

// encEncoding: enc[code] = gid; the glyphs 1..k must be the encoded ones.
// Codes after the first one of a glyph become supplements.
func encEncoding(enc []int, sids []int, format int) ([]byte, bool) {
	firstCode := map[int]int{}
	type sup struct{ code, gid int }
	var sups []sup
	maxGid := 0
	for c, g := range enc {
		if g == 0 {
			continue
		}
		if _, ok := firstCode[g]; ok {
			sups = append(sups, sup{c, g})
			continue
		}
		firstCode[g] = c
		if g > maxGid {
			maxGid = g
		}
	}
	for g := 1; g <= maxGid; g++ {
		if _, ok := firstCode[g]; !ok {
			return nil, false
		}
	}
	var out []byte
	switch format {
	case 0:
		if maxGid > 255 {
			return nil, false
		}
		out = []byte{0, byte(maxGid)}
		for g := 1; g <= maxGid; g++ {
			out = append(out, byte(firstCode[g]))
		}
	default:
		out = []byte{1, 0}
		n := 0
		for g := 1; g <= maxGid; {
			h := g + 1
			for h <= maxGid && firstCode[h] == firstCode[h-1]+1 {
				h++
			}
			out = append(out, byte(firstCode[g]), byte(h-g-1))
			n++
			g = h
		}
		if n > 255 {
			return nil, false
		}
		out[1] = byte(n)
	}
	if len(sups) > 0 {
		out[0] |= 128
		out = append(out, byte(len(sups)))
		for _, s := range sups {
			out = append(out, byte(s.code), byte(sids[s.gid]>>8), byte(sids[s.gid]))
		}
	}
	return out, true
}

func encFDSelect(fds []int, format int) []byte {
	if format == 0 {
		out := []byte{0}
		for _, fd := range fds {
			out = append(out, byte(fd))
		}
		return out
	}
	out := []byte{3, 0, 0}
	n := 0
	for i, fd := range fds {
		if i == 0 || fd != fds[i-1] {
			out = append(out, byte(i>>8), byte(i), byte(fd))
			n++
		}
	}
	out[1], out[2] = byte(n>>8), byte(n)
	return append(out, byte(len(fds)>>8), byte(len(fds)))
}

// ---- the semantic description of an assembled font ----

type asmPriv struct {
	dict   *type1.PrivateDict
	dw, nw real
	subrs  [][]byte
	noSubr bool // no Subrs operator at all
	fm     matrix.Matrix
	hasFM  bool
}

type asmSem struct {
	info     *type1.FontInfo
	ros      *cid.SystemInfo
	names    []string
	cids     []int
	csKind   []int // 1000 = endchar only (default width), otherwise k: (k) endchar = nominal width + k
	privs    []asmPriv
	fds      []int
	encKind  int // 0 standard, 1 expert, 2 custom
	enc      []int
	gsubrs   [][]byte
	topHasFM bool
}

func (s *asmSem) nGlyphs() int { return len(s.csKind) }

// expected: the observation of a correct reader, in the syntax of rfontObs.
func (s *asmSem) expected() vlib.Sx {
	isCID := s.ros != nil
	fi := *s.info
	for _, p := range []*string{&fi.Version, &fi.Notice, &fi.Copyright, &fi.FullName, &fi.FamilyName, &fi.Weight} {
		*p = string([]rune(*p))
	}
	ros := vlib.Sx(atom("-"))
	if isCID {
		ros = vlib.L(hexStr(s.ros.Registry), hexStr(s.ros.Ordering), vlib.Int(int(s.ros.Supplement)))
	}
	gl := make(vlib.List, s.nGlyphs())
	for i := range gl {
		fd := 0
		if isCID {
			fd = s.fds[i]
		}
		name := ""
		if !isCID {
			name = s.names[i]
		}
		var w vlib.Sx
		if s.csKind[i] == 1000 {
			w = s.privs[fd].dw.sx()
		} else {
			w = vlib.L(atom("n"), vlib.Int(s.csKind[i]), s.privs[fd].nw.sx())
		}
		gl[i] = vlib.L(hexStr(name), vlib.Int(fd), w)
	}
	pl := make(vlib.List, len(s.privs))
	for i, p := range s.privs {
		pl[i] = vlib.L(privSx(p.dict), hexList(p.subrs), p.dw.sx(), p.nw.sx())
	}
	var enc []int
	if !isCID {
		switch s.encKind {
		case 0, 1:
			enc = make([]int, 256)
			for g, n := range s.names {
				var c byte
				var ok bool
				if s.encKind == 0 {
					c, ok = psenc.StandardEncodingRev[n]
				} else {
					c, ok = cff.VerifC13bExpertCode(n)
				}
				if ok {
					enc[c] = g
				}
			}
		default:
			enc = s.enc
		}
	}
	var cids []int
	var fl vlib.List
	if isCID {
		cids = s.cids
		for _, p := range s.privs {
			fl = append(fl, matrixSx(p.fm))
		}
	}
	if fl == nil {
		fl = vlib.List{}
	}
	return vlib.L(atom("ok"), vlib.L(infoSx(&fi), ros, longObs(gl), hexList(s.gsubrs), pl, vlib.Ints(enc), longObs(vlib.Ints(cids)), fl))
}

// ---- faults ----

type asmFault struct {
	kind string
	n    int
}

// ---- assembling ----

func numArg(r *vlib.Rand, x float64, allowInt bool) asmArg {
	v, _ := realOf(x)
	if allowInt && v.exp >= 0 && v.digits()+v.exp <= 9 && r.Chance(2, 3) {
		return aIntF(int(x), vlib.Pick(r, []int{0, 0, 3, 5}))
	}
	return aReal(v, r.Intn(2))
}

func strSID(s string, strs *[]string) int {
	if k, ok := stdSID[s]; ok {
		return k
	}
	for i, t := range *strs {
		if t == s {
			return nStd + i
		}
	}
	*strs = append(*strs, s)
	return nStd + len(*strs) - 1
}

// assemble builds the file.  fault (may be nil) damages it.
func (s *asmSem) assemble(r *vlib.Rand, fault *asmFault) []byte {
	isCID := s.ros != nil
	fk := ""
	if fault != nil {
		fk = fault.kind
	}
	var strs []string
	if r.Chance(1, 4) {
		strs = append(strs, "unused string")
	}
	// --- Top DICT entries (FontInfo) ---
	var top []asmEntry
	if isCID {
		reg, ord := strSID(s.ros.Registry, &strs), strSID(s.ros.Ordering, &strs)
		e := asmEntry{0x0C1E, []asmArg{aInt(reg), aInt(ord), aInt(int(s.ros.Supplement))}}
		switch fk {
		case "ros-two":
			e.args = e.args[:2]
		case "ros-real-supplement":
			e.args[2] = aReal(mkReal(false, 15, -1), 0)
		case "ros-bad-sid":
			e.args[0] = aInt(nStd + 5000)
		}
		top = append(top, e)
	}
	sfield := func(op int, v string) {
		if v != "" {
			top = append(top, asmEntry{op, []asmArg{aIntF(strSID(v, &strs), vlib.Pick(r, []int{0, 0, 5}))}})
		}
	}
	fi := s.info
	sfield(0, fi.Version)
	sfield(1, fi.Notice)
	sfield(0x0C00, fi.Copyright)
	sfield(2, fi.FullName)
	sfield(3, fi.FamilyName)
	sfield(4, fi.Weight)
	if fi.IsFixedPitch {
		top = append(top, asmEntry{0x0C01, []asmArg{aInt(vlib.Pick(r, []int{1, 1, 2, -1}))}})
	} else if r.Chance(1, 3) {
		top = append(top, asmEntry{0x0C01, []asmArg{aInt(0)}})
	}
	if fi.ItalicAngle != 0 || r.Chance(1, 4) {
		top = append(top, asmEntry{0x0C02, []asmArg{numArg(r, fi.ItalicAngle, true)}})
	}
	if fi.UnderlinePosition != -100 || r.Chance(1, 4) {
		top = append(top, asmEntry{0x0C03, []asmArg{numArg(r, float64(fi.UnderlinePosition), true)}})
	}
	if fi.UnderlineThickness != 50 || r.Chance(1, 4) {
		top = append(top, asmEntry{0x0C04, []asmArg{numArg(r, float64(fi.UnderlineThickness), true)}})
	}
	if s.topHasFM {
		var a []asmArg
		for _, x := range fi.FontMatrix {
			a = append(a, numArg(r, x, false))
		}
		top = append(top, asmEntry{0x0C07, a})
	}
	// operators this library does not use
	if r.Chance(1, 2) {
		top = append(top, asmEntry{5, []asmArg{aInt(-50), aInt(-200), aInt(1000), aInt(900)}}) // FontBBox
	}
	if r.Chance(1, 3) {
		top = append(top, asmEntry{0x0C06, []asmArg{aInt(2)}}) // CharstringType
	}
	if r.Chance(1, 3) {
		top = append(top, asmEntry{13, []asmArg{aInt(4000000 + r.Intn(1000))}}) // UniqueID
	}
	if r.Chance(1, 4) {
		top = append(top, asmEntry{0x0C05, []asmArg{aInt(0)}}, asmEntry{0x0C08, []asmArg{aInt(0)}}) // PaintType, StrokeWidth
	}
	if fk == "charstring-type-1" {
		top = append(top, asmEntry{0x0C06, []asmArg{aInt(1)}})
	}

	// --- sections ---
	type section struct {
		name    string
		blob    []byte
		patches []patch
		gap     int
	}
	secs := map[string]*section{}
	var order []string
	addSec := func(name string, blob []byte, ps []patch) {
		secs[name] = &section{name: name, blob: blob, patches: ps}
		order = append(order, name)
	}
	n := s.nGlyphs()
	css := make([][]byte, n)
	for i, k := range s.csKind {
		if k == 1000 {
			css[i] = []byte{14}
		} else {
			css[i] = []byte{byte(139 + k), 14}
		}
	}
	csIdx, _ := encIndex(css, vlib.Pick(r, []int{1, 1, 2, 4}))
	addSec("charstrings", csIdx, nil)
	top = append(top, asmEntry{17, []asmArg{aOffs("charstrings")}})

	// charset
	var sids []int
	predefCharset := -1
	if isCID {
		sids = s.cids
	} else {
		for _, nm := range s.names {
			sids = append(sids, strSID(nm, &strs))
		}
		// ISOAdobe: glyph i has SID i
		iso := n <= 229
		for i, v := range sids {
			if v != i {
				iso = false
			}
		}
		if iso && r.Chance(2, 3) {
			predefCharset = 0
		}
	}
	switch {
	case fk == "charset-id-1":
		top = append(top, asmEntry{15, []asmArg{aInt(1)}})
	case fk == "charset-id-2":
		top = append(top, asmEntry{15, []asmArg{aInt(2)}})
	case predefCharset == 0:
		if r.Bool() {
			top = append(top, asmEntry{15, []asmArg{aInt(0)}})
		}
	default:
		cs := encCharset(sids, vlib.Pick(r, []int{0, 1, 2}))
		if fk == "charset-short" && len(cs) > 2 {
			cs = cs[:len(cs)-1]
		}
		addSec("charset", cs, nil)
		top = append(top, asmEntry{15, []asmArg{aOffs("charset")}})
	}

	// private dictionaries
	privEntries := func(p asmPriv) []asmEntry {
		var es []asmEntry
		d := p.dict
		delta := func(op int, v []funit.Int16) {
			if len(v) == 0 {
				return
			}
			var a []asmArg
			prev := 0
			for _, x := range v {
				a = append(a, aIntF(int(x)-prev, vlib.Pick(r, []int{0, 0, 3})))
				prev = int(x)
			}
			es = append(es, asmEntry{op, a})
		}
		delta(6, d.BlueValues)
		delta(7, d.OtherBlues)
		if r.Chance(1, 3) {
			es = append(es, asmEntry{8, []asmArg{aInt(-15), aInt(15)}}) // FamilyBlues: ignored
		}
		if d.BlueScale != 0.039625 || r.Chance(1, 4) {
			es = append(es, asmEntry{0x0C09, []asmArg{numArg(r, d.BlueScale, true)}})
		}
		if d.BlueShift != 7 || r.Chance(1, 4) {
			es = append(es, asmEntry{0x0C0A, []asmArg{aIntF(int(d.BlueShift), vlib.Pick(r, []int{0, 3, 5}))}})
		}
		if d.BlueFuzz != 1 || r.Chance(1, 4) {
			es = append(es, asmEntry{0x0C0B, []asmArg{aInt(int(d.BlueFuzz))}})
		}
		if d.StdHW != 0 || r.Chance(1, 4) {
			es = append(es, asmEntry{10, []asmArg{numArg(r, d.StdHW, true)}})
		}
		if d.StdVW != 0 || r.Chance(1, 4) {
			es = append(es, asmEntry{11, []asmArg{numArg(r, d.StdVW, true)}})
		}
		if d.ForceBold {
			es = append(es, asmEntry{0x0C0E, []asmArg{aInt(1)}})
		} else if r.Chance(1, 4) {
			es = append(es, asmEntry{0x0C0E, []asmArg{aInt(0)}})
		}
		if r.Chance(1, 4) {
			es = append(es, asmEntry{0x0C0C, []asmArg{aInt(60), aInt(10)}}) // StemSnapH: ignored
		}
		if p.dw.mant != 0 || r.Chance(1, 4) {
			es = append(es, asmEntry{20, []asmArg{numArg(r, p.dw.float(), true)}})
		}
		if p.nw.mant != 0 || r.Chance(1, 4) {
			es = append(es, asmEntry{21, []asmArg{numArg(r, p.nw.float(), true)}})
		}
		r2 := r.Fork("shuffle")
		for i := len(es) - 1; i > 0; i-- {
			j := r2.Intn(i + 1)
			es[i], es[j] = es[j], es[i]
		}
		return es
	}
	for i, p := range s.privs {
		pn, sn := fmt.Sprintf("priv%d", i), fmt.Sprintf("subrs%d", i)
		es := privEntries(p)
		if !p.noSubr {
			es = append(es, asmEntry{19, []asmArg{{kind: 'd', ref: sn, ref2: pn}}})
			idx, _ := encIndex(p.subrs, r.Range(1, 3))
			addSec(sn, idx, nil)
		}
		if fk == "private-reserved-byte" && i == 0 {
			es = append(es, asmEntry{22, nil})
		}
		blob, ps := encDict(es, pn)
		addSec(pn, blob, ps)
	}
	privArgs := func(i int) []asmArg {
		pn := fmt.Sprintf("priv%d", i)
		a := []asmArg{aSize(pn), aOffs(pn)}
		if i == 0 {
			switch fk {
			case "private-size-plus":
				a[0].add = fault.n
			case "private-size-negative":
				a[0] = aInt(-1)
			case "private-one-operand":
				a = a[:1]
			case "private-real-offset":
				a[1] = aReal(mkReal(false, 45, 0), 0)
			case "private-offset-low":
				a[1] = aInt(fault.n % 4)
			case "private-offset-eof":
				a[1] = aIntF(1<<20+fault.n, 5)
			case "private-offset-negative":
				a[1] = aInt(-5)
			}
		}
		return a
	}
	if !isCID {
		if fk != "no-private" {
			top = append(top, asmEntry{18, privArgs(0)})
		}
		switch s.encKind {
		case 0:
			if r.Chance(1, 3) {
				top = append(top, asmEntry{16, []asmArg{aInt(0)}})
			}
		case 1:
			top = append(top, asmEntry{16, []asmArg{aInt(1)}})
		default:
			format := vlib.Pick(r, []int{0, 1})
			eb, ok := encEncoding(s.enc, sids, format)
			if !ok {
				eb, _ = encEncoding(s.enc, sids, 1)
			}
			if fk == "encoding-cut" && len(eb) > 2 {
				eb = eb[:len(eb)-1]
			}
			addSec("encoding", eb, nil)
			top = append(top, asmEntry{16, []asmArg{aOffs("encoding")}})
		}
	} else {
		var fdBlobs [][]byte
		var fdPatches [][]patch
		for i, p := range s.privs {
			var es []asmEntry
			if p.hasFM {
				var a []asmArg
				for _, x := range p.fm {
					a = append(a, numArg(r, x, false))
				}
				es = append(es, asmEntry{0x0C07, a})
			}
			if r.Chance(1, 3) {
				es = append(es, asmEntry{0x0C26, []asmArg{aInt(strSID(fmt.Sprintf("FD%d", i), &strs))}}) // FontName
			}
			if !(fk == "fd-no-private" && i == 0) {
				es = append(es, asmEntry{18, privArgs(i)})
			}
			b, ps := encDict(es, "fdarray")
			fdBlobs = append(fdBlobs, b)
			fdPatches = append(fdPatches, ps)
		}
		if fk == "fdarray-empty" {
			fdBlobs, fdPatches = nil, nil
		}
		idx, starts := encIndex(fdBlobs, r.Range(1, 2))
		var ps []patch
		for i := range fdBlobs {
			for _, p := range fdPatches[i] {
				p.pos += starts[i]
				ps = append(ps, p)
			}
		}
		addSec("fdarray", idx, ps)
		fds := append([]int(nil), s.fds...)
		if fk == "fdselect-out-of-range" {
			fds[r.Intn(len(fds))] = len(s.privs)
		}
		fsel := encFDSelect(fds, vlib.Pick(r, []int{0, 3}))
		if fk == "fdselect-cut" {
			fsel = fsel[:len(fsel)-1]
		}
		addSec("fdselect", fsel, nil)
		if fk != "no-fdarray" {
			top = append(top, asmEntry{0x0C24, []asmArg{aOffs("fdarray")}})
		}
		if fk != "no-fdselect" {
			top = append(top, asmEntry{0x0C25, []asmArg{aOffs("fdselect")}})
		}
		top = append(top, asmEntry{0x0C22, []asmArg{aInt(n)}})
	}

	// Top DICT operator order: ROS first, the rest shuffled
	{
		start := 0
		if isCID {
			start = 1
		}
		r2 := r.Fork("toporder")
		for i := len(top) - 1; i > start; i-- {
			j := start + r2.Intn(i-start+1)
			top[i], top[j] = top[j], top[i]
		}
	}
	// faults on Top DICT operands
	for i := range top {
		e := &top[i]
		switch {
		case fk == "charstrings-offset-low" && e.op == 17:
			e.args = []asmArg{aInt(fault.n % 4)}
		case fk == "charstrings-offset-eof" && e.op == 17:
			e.args[0].add = 1 << 20
		case fk == "charstrings-to-gsubrs" && e.op == 17:
			e.args = []asmArg{aOffs("gsubrs")}
		case fk == "no-charstrings" && e.op == 17:
			e.op = 0x0C17 // an operator nobody knows
		case fk == "charstrings-two-operands" && e.op == 17:
			e.args = append(e.args, aInt(3))
		case fk == "charstrings-real" && e.op == 17:
			e.args = []asmArg{aReal(mkReal(false, 1005, -1), 0)}
		case fk == "charset-offset-eof" && e.op == 15:
			e.args = []asmArg{aIntF(1<<20, 5)}
		case fk == "charset-offset-negative" && e.op == 15:
			e.args = []asmArg{aInt(-3)}
		case fk == "charset-into-header" && e.op == 15:
			e.args = []asmArg{aInt(3)}
		case fk == "encoding-offset-eof" && e.op == 16:
			e.args = []asmArg{aIntF(1<<20, 5)}
		case fk == "encoding-offset-negative" && e.op == 16:
			e.args = []asmArg{aInt(-7)}
		case fk == "fdselect-offset-low" && e.op == 0x0C25:
			e.args = []asmArg{aInt(fault.n % 4)}
		case fk == "fdarray-offset-low" && e.op == 0x0C24:
			e.args = []asmArg{aInt(fault.n % 4)}
		case fk == "string-sid-out-of-range" && (e.op == 1 || e.op == 2):
			e.args = []asmArg{aInt(nStd + 4000)}
		case fk == "string-sid-negative" && (e.op == 1 || e.op == 2):
			e.args = []asmArg{aInt(-1)}
		case fk == "string-sid-real" && (e.op == 1 || e.op == 2):
			e.args = []asmArg{aReal(mkReal(false, 3910, -1), 0)} // 391.0: an integer-valued real
		}
	}
	if fk == "duplicate-operator" {
		top = append(top, asmEntry{0x0C02, []asmArg{aInt(33)}}, asmEntry{0x0C02, []asmArg{aInt(-7)}})
		s.info.ItalicAngle = -7
	}
	if fk == "operand-left-over" {
		top = append(top, asmEntry{0x0C02, []asmArg{aInt(5)}})
	}

	// --- fixed head: header, Name INDEX, Top DICT INDEX, String INDEX, Global Subr INDEX ---
	hdr := []byte{1, 0, 4, 4}
	switch fk {
	case "major-2":
		hdr[0] = 2
	case "major-0":
		hdr[0] = 0
	case "hdrsize-3":
		hdr[2] = 3
	case "hdrsize-6":
		hdr = []byte{1, 0, 6, 4, 0xde, 0xad}
	case "offsize-5":
		hdr[3] = 5
	case "offsize-0":
		hdr[3] = 0
	case "minor-9":
		hdr[1] = 9
	}
	names := [][]byte{[]byte(fi.FontName)}
	switch fk {
	case "name-index-empty":
		names = nil
	case "name-index-two":
		names = append(names, []byte("Second"))
	}
	nameIdx, _ := encIndex(names, r.Range(1, 2))
	topBlob, topPatches := encDict(top, "top")
	if fk == "operand-left-over" {
		topBlob = topBlob[:len(topBlob)-2] // the operator of the last entry is gone
	}
	topItems := [][]byte{topBlob}
	switch fk {
	case "top-index-empty":
		topItems = nil
	case "top-index-two":
		topItems = append(topItems, []byte{139, 15})
	}
	topIdx, topStarts := encIndex(topItems, r.Range(1, 2))
	strItems := make([][]byte, len(strs))
	for i, t := range strs {
		strItems[i] = []byte(t)
	}
	strIdx, _ := encIndex(strItems, r.Range(1, 3))
	gsIdx, _ := encIndex(s.gsubrs, 1)

	// order of the movable sections, gaps
	r3 := r.Fork("order")
	for i := len(order) - 1; i > 0; i-- {
		j := r3.Intn(i + 1)
		order[i], order[j] = order[j], order[i]
	}
	// a Local Subr INDEX lies after its Private DICT (its offset is relative
	// to the DICT and positive)
	where := map[string]int{}
	for i, nm := range order {
		where[nm] = i
	}
	for i := range s.privs {
		pn, sn := fmt.Sprintf("priv%d", i), fmt.Sprintf("subrs%d", i)
		a, okA := where[pn]
		b, okB := where[sn]
		if okA && okB && b < a {
			order[a], order[b] = order[b], order[a]
			where[pn], where[sn] = b, a
		}
	}
	pos := map[string]int{}
	var out []byte
	out = append(out, hdr...)
	out = append(out, nameIdx...)
	topAt := len(out)
	out = append(out, topIdx...)
	out = append(out, strIdx...)
	pos["gsubrs"] = len(out)
	out = append(out, gsIdx...)
	for _, nm := range order {
		if r3.Chance(1, 5) {
			out = append(out, r3.Bytes(r3.Range(1, 5))...)
		}
		pos[nm] = len(out)
		out = append(out, secs[nm].blob...)
	}
	if r3.Chance(1, 4) {
		out = append(out, 0, 0, 0)
	}
	val := func(p patch) int {
		a := p.arg
		switch a.kind {
		case 'o':
			return pos[a.ref] + a.add
		case 'z':
			return len(secs[a.ref].blob) + a.add
		default:
			return pos[a.ref] - pos[a.ref2] + a.add
		}
	}
	put := func(at, v int) {
		u := uint32(int32(v))
		out[at], out[at+1], out[at+2], out[at+3] = byte(u>>24), byte(u>>16), byte(u>>8), byte(u)
	}
	if len(topItems) > 0 {
		for _, p := range topPatches {
			if p.pos+4 <= len(topBlob) {
				put(topAt+topStarts[0]+p.pos, val(p))
			}
		}
	}
	for _, nm := range order {
		for _, p := range secs[nm].patches {
			put(pos[nm]+p.pos, val(p))
		}
	}
	switch fk {
	case "truncate":
		out = out[:fault.n%(len(out)+1)]
	case "truncate-in-head":
		k := pos["gsubrs"] + 2
		out = out[:fault.n%k]
	}
	return out
}

var asmFaults = []string{
	"ros-two", "ros-real-supplement", "ros-bad-sid", "charstring-type-1", "charset-id-1", "charset-id-2", "charset-short",
	"private-reserved-byte", "private-size-plus", "private-size-negative", "private-one-operand", "private-real-offset",
	"private-offset-low", "private-offset-eof", "private-offset-negative", "no-private", "encoding-cut", "fd-no-private",
	"fdarray-empty", "fdselect-out-of-range", "fdselect-cut", "no-fdarray", "no-fdselect", "charstrings-offset-low",
	"charstrings-offset-eof", "charstrings-to-gsubrs", "no-charstrings", "charstrings-two-operands", "charstrings-real",
	"charset-offset-eof", "charset-offset-negative", "charset-into-header", "encoding-offset-eof", "encoding-offset-negative",
	"fdselect-offset-low", "fdarray-offset-low", "string-sid-out-of-range", "string-sid-negative", "string-sid-real",
	"duplicate-operator", "operand-left-over", "major-2", "major-0", "hdrsize-3", "hdrsize-6", "offsize-5", "offsize-0", "minor-9",
	"name-index-empty", "name-index-two", "top-index-empty", "top-index-two", "truncate", "truncate-in-head",
}

// faults that leave a font a correct reader accepts, with the same content
var harmlessFaults = map[string]bool{"hdrsize-6": true, "minor-9": true, "duplicate-operator": true, "offsize-0": true}

func randSem(r *vlib.Rand) *asmSem {
	isCID := r.Chance(2, 5)
	s := &asmSem{info: randInfo(r, isCID)}
	fi := s.info
	// the normal form Read produces
	if fi.ItalicAngle < -180 || fi.ItalicAngle >= 180 {
		fi.ItalicAngle = -12.5
	}
	if isCID {
		s.topHasFM = fi.FontMatrix != matrix.Identity || r.Chance(1, 3)
	} else {
		s.topHasFM = fi.FontMatrix != (matrix.Matrix{0.001, 0, 0, 0.001, 0, 0}) || r.Chance(1, 3)
	}
	n := vlib.Pick(r, []int{1, 2, 3, r.Range(4, 30), r.Range(31, 300)})
	np := 1
	if isCID {
		np = vlib.Pick(r, []int{1, 2, 3, r.Range(1, 9)})
		if np > n {
			np = n
		}
		s.ros = &cid.SystemInfo{Registry: vlib.Pick(r, []string{"Adobe", "Verif"}), Ordering: vlib.Pick(r, []string{"Identity", "Japan1", "Bold"}),
			Supplement: int32(vlib.Pick(r, []int{0, 6, 70000}))}
	}
	for i := 0; i < np; i++ {
		p := asmPriv{dict: randPriv(r), fm: matrix.Matrix{0.001, 0, 0, 0.001, 0, 0}}
		d := p.dict
		// values a reader keeps as they are
		d.BlueScale = clampF(d.BlueScale, 0, 1)
		d.StdHW = clampF(d.StdHW, 0, 10000)
		d.StdVW = clampF(d.StdVW, 0, 10000)
		for _, bl := range []*[]funit.Int16{&d.BlueValues, &d.OtherBlues} {
			for k := range *bl {
				if (*bl)[k] < -16000 || (*bl)[k] > 16000 {
					(*bl)[k] = funit.Int16(k)
				}
			}
		}
		p.dw = vlib.Pick(r, []real{{}, mkReal(false, 5, 2), mkReal(false, 5005, -1), mkReal(true, 3, 0)})
		p.nw = vlib.Pick(r, []real{{}, mkReal(false, 607, 0), mkReal(false, 6, 2), mkReal(true, 20, 0)})
		p.noSubr = r.Chance(1, 3)
		if !p.noSubr {
			for k := r.Intn(4); k > 0; k-- {
				p.subrs = append(p.subrs, []byte{byte(r.Range(32, 246)), 11}) // number return
			}
			if p.subrs == nil {
				p.subrs = [][]byte{}
			}
		} else {
			p.subrs = [][]byte{}
		}
		if isCID && r.Chance(1, 2) {
			p.fm = randMatrix(r, false)
			p.hasFM = true
		}
		s.privs = append(s.privs, p)
	}
	// the documented normal form of a DICT real: below 1e-300 it is 0
	nf := func(x float64) float64 {
		if x > -1e-300 && x < 1e-300 {
			return 0
		}
		return x
	}
	fi.ItalicAngle = nf(fi.ItalicAngle)
	fi.UnderlinePosition = funit.Float64(nf(float64(fi.UnderlinePosition)))
	fi.UnderlineThickness = funit.Float64(nf(float64(fi.UnderlineThickness)))
	for k := range fi.FontMatrix {
		fi.FontMatrix[k] = nf(fi.FontMatrix[k])
	}
	for i := range s.privs {
		d := s.privs[i].dict
		d.BlueScale, d.StdHW, d.StdVW = nf(d.BlueScale), nf(d.StdHW), nf(d.StdVW)
		for k := range s.privs[i].fm {
			s.privs[i].fm[k] = nf(s.privs[i].fm[k])
		}
	}
	for k := r.Intn(3); k > 0; k-- {
		s.gsubrs = append(s.gsubrs, []byte{byte(r.Range(32, 246)), 11})
	}
	if s.gsubrs == nil {
		s.gsubrs = [][]byte{}
	}
	for i := 0; i < n; i++ {
		if r.Bool() {
			s.csKind = append(s.csKind, 1000)
		} else {
			s.csKind = append(s.csKind, vlib.Pick(r, []int{0, 0, 1, -1, 107, -107, r.Range(-107, 107)}))
		}
	}
	if isCID {
		s.cids = make([]int, n)
		c := 0
		for i := 1; i < n; i++ {
			c += vlib.Pick(r, []int{1, 1, 1, 3})
			s.cids[i] = c
		}
		s.fds = make([]int, n)
		for i := range s.fds {
			if r.Chance(1, 2) && i > 0 {
				s.fds[i] = s.fds[i-1]
			} else {
				s.fds[i] = r.Intn(np)
			}
		}
	} else {
		std := cff.VerifC13StdStrings()
		style := r.Intn(3)
		used := map[string]bool{".notdef": true}
		for i := 0; i < n; i++ {
			name := ".notdef"
			if i > 0 {
				switch {
				case style == 0 && i < 229: // ISOAdobe order
					name = std[i]
				case style == 1 && r.Bool():
					name = std[1+r.Intn(len(std)-1)]
				default:
					name = fmt.Sprintf("g%d", i)
				}
				if used[name] {
					name = fmt.Sprintf("g%d", i)
				}
			}
			used[name] = true
			s.names = append(s.names, name)
		}
		s.encKind = r.Intn(3)
		if s.encKind == 2 {
			s.enc = make([]int, 256)
			k := n - 1
			if k > 120 {
				k = 120
			}
			codes := r.Fork("codes")
			perm := make([]int, 256)
			for i := range perm {
				perm[i] = i
			}
			if r.Bool() { // runs
				c := r.Range(0, 100)
				for g := 1; g <= k && c < 256; g++ {
					s.enc[c] = g
					c++
					if codes.Chance(1, 8) {
						c += 2
					}
				}
			} else {
				for i := 255; i > 0; i-- {
					j := codes.Intn(i + 1)
					perm[i], perm[j] = perm[j], perm[i]
				}
				for g := 1; g <= k; g++ {
					s.enc[perm[g]] = g
				}
			}
			// contiguity: glyphs 1..max must all be encoded
			max := 0
			seen := map[int]bool{}
			for _, g := range s.enc {
				seen[g] = true
				if g > max {
					max = g
				}
			}
			for g := 1; g <= max; g++ {
				if !seen[g] {
					for c := range s.enc {
						if s.enc[c] > g-1 {
							s.enc[c] = 0
						}
					}
					break
				}
			}
			// supplements: second codes for glyphs that have a first code
			free := []int{}
			for c, g := range s.enc {
				if g == 0 {
					free = append(free, c)
				}
			}
			sort.Ints(free)
			enc := 0
			for _, g := range s.enc {
				if g > enc {
					enc = g
				}
			}
			if enc > 0 && r.Chance(1, 2) {
				for k := r.Range(1, 3); k > 0 && len(free) > 0; k-- {
					c := free[len(free)-1] // a code after every first code
					free = free[:len(free)-1]
					first := -1
					g := r.Range(1, enc)
					for cc, gg := range s.enc {
						if gg == g {
							first = cc
							break
						}
					}
					if first >= 0 && first < c {
						s.enc[c] = g
					}
				}
			}
		}
	}
	return s
}

func genAssembled(run *vlib.Run, r *vlib.Rand, tier string, bases *[][]byte) {
	na := scale(tier, 160, 4000)
	for i := 0; i < na; i++ {
		s := randSem(r)
		seed := r.Uint64()
		data := s.assemble(vlib.NewRand(seed), nil)
		kind := "read:assembled-simple"
		if s.ros != nil {
			kind = "read:assembled-cid"
		}
		emit(run, readLine(data, s.expected()), true, kind)
		if len(data) < 3000 && len(*bases) < 400 {
			*bases = append(*bases, data)
		}
		// the same font with one fault
		for k := 0; k < 2; k++ {
			f := &asmFault{kind: vlib.Pick(r, asmFaults), n: r.Intn(1 << 16)}
			want := bytes.Clone(data)
			bad := s.assemble(vlib.NewRand(seed), f)
			if bytes.Equal(bad, want) {
				continue // the fault does not apply to this font
			}
			l := readLine(bad, nil)
			label := "read:fault:" + f.kind
			if !charstringsIntact(data, bad) || longRealScan(bad) {
				emit(run, "!"+l, true, label+"(oracle-only)")
				continue
			}
			emit(run, l, true, "read:fault", label)
		}
	}
}
