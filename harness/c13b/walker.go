package c13b

import (
	"fmt"
	"sort"
)

// ---------------------------------------------------------------------------
// An independent minimal CFF reader written from Adobe Technical Note #5176
// ("The Compact Font Format Specification", version 1.0): header (section
// 6), INDEX (5), DICT (4), Top DICT (9), String INDEX (10), charsets (13),
// encodings (12), CharStrings INDEX (14), Private DICT (15), Local / Global
// Subrs (16), FDSelect and Font DICT INDEX of CIDFonts (18, 19).
//
// walk follows every offset of the file and checks that it is the position of
// a structure that parses, that all structures lie inside the file, that no
// two of them overlap, and (strict mode, for files written by Font.Write)
// that together they cover the file without gaps.
// ---------------------------------------------------------------------------

type extent struct {
	name       string
	start, end int
}

type walkPriv struct {
	dict          *specDictT
	size, offs    int
	subrs         [][]byte
	hasSubrs      bool
	subrsOffs     int
	fontMatrix    []specOperand
	hasFontMatrix bool
}

type walkInfo struct {
	extents     []extent
	hdrOffSize  int
	fontName    string
	top         *specDictT
	strings     []string
	gsubrs      [][]byte
	charstrings [][]byte
	isCID       bool
	charset     []int // SIDs or CIDs, with the leading 0
	encOffs     int   // 0, 1 or the offset
	encCodes    map[int][]int // gid -> codes (custom encodings)
	fdselect    []int
	privs       []walkPriv
}

// specIndex parses an INDEX at pos; end = position after it.
func specIndex(data []byte, pos int) (items [][]byte, end int, ok bool) {
	if pos < 0 || pos+2 > len(data) {
		return nil, 0, false
	}
	count := int(data[pos])<<8 | int(data[pos+1])
	if count == 0 {
		return nil, pos + 2, true
	}
	if pos+3 > len(data) {
		return nil, 0, false
	}
	offSize := int(data[pos+2])
	if offSize < 1 || offSize > 4 {
		return nil, 0, false
	}
	base := pos + 3 + (count+1)*offSize - 1 // offsets are relative to the byte before the data
	if base+1 > len(data) {
		return nil, 0, false
	}
	offs := make([]int, count+1)
	for i := range offs {
		v := 0
		for j := 0; j < offSize; j++ {
			v = v<<8 | int(data[pos+3+i*offSize+j])
		}
		offs[i] = v
	}
	if offs[0] != 1 {
		return nil, 0, false
	}
	for i := 1; i <= count; i++ {
		if offs[i] < offs[i-1] {
			return nil, 0, false
		}
	}
	end = base + offs[count]
	if end > len(data) {
		return nil, 0, false
	}
	items = make([][]byte, count)
	for i := range items {
		items[i] = data[base+offs[i] : base+offs[i+1]]
	}
	return items, end, true
}

// specCharset parses a charset for nGlyphs glyphs at pos.
func specCharset(data []byte, pos, nGlyphs int) (ids []int, end int, ok bool) {
	if pos < 0 || pos >= len(data) || nGlyphs < 1 {
		return nil, 0, false
	}
	ids = []int{0}
	format := data[pos]
	p := pos + 1
	switch format {
	case 0:
		for len(ids) < nGlyphs {
			if p+2 > len(data) {
				return nil, 0, false
			}
			ids = append(ids, int(data[p])<<8|int(data[p+1]))
			p += 2
		}
	case 1, 2:
		for len(ids) < nGlyphs {
			w := 3
			if format == 2 {
				w = 4
			}
			if p+w > len(data) {
				return nil, 0, false
			}
			first := int(data[p])<<8 | int(data[p+1])
			nLeft := int(data[p+2])
			if format == 2 {
				nLeft = int(data[p+2])<<8 | int(data[p+3])
			}
			p += w
			for i := 0; i <= nLeft; i++ {
				if first+i > 0xFFFF {
					return nil, 0, false
				}
				ids = append(ids, first+i)
			}
		}
		if len(ids) != nGlyphs {
			return nil, 0, false
		}
	default:
		return nil, 0, false
	}
	return ids, p, true
}

// specEncoding parses an encoding at pos: codes[gid] = the codes of the glyph.
func specEncoding(data []byte, pos int, charset []int) (codes map[int][]int, end int, ok bool) {
	if pos < 0 || pos+2 > len(data) {
		return nil, 0, false
	}
	codes = map[int][]int{}
	format := data[pos]
	p := pos + 2
	gid := 1
	switch format & 127 {
	case 0:
		n := int(data[pos+1])
		if p+n > len(data) {
			return nil, 0, false
		}
		for i := 0; i < n; i++ {
			codes[gid] = append(codes[gid], int(data[p+i]))
			gid++
		}
		p += n
	case 1:
		n := int(data[pos+1])
		if p+2*n > len(data) {
			return nil, 0, false
		}
		for i := 0; i < n; i++ {
			first, nLeft := int(data[p+2*i]), int(data[p+2*i+1])
			for j := 0; j <= nLeft; j++ {
				if first+j > 255 {
					return nil, 0, false
				}
				codes[gid] = append(codes[gid], first+j)
				gid++
			}
		}
		p += 2 * n
	default:
		return nil, 0, false
	}
	if gid > len(charset) {
		return nil, 0, false
	}
	if format&128 != 0 {
		if p+1 > len(data) {
			return nil, 0, false
		}
		n := int(data[p])
		p++
		if p+3*n > len(data) {
			return nil, 0, false
		}
		for i := 0; i < n; i++ {
			code := int(data[p+3*i])
			sid := int(data[p+3*i+1])<<8 | int(data[p+3*i+2])
			found := -1
			for g, s := range charset {
				if s == sid {
					found = g
				}
			}
			if found < 0 {
				return nil, 0, false
			}
			codes[found] = append(codes[found], code)
		}
		p += 3 * n
	}
	return codes, p, true
}

// specFDSelect parses an FDSelect for nGlyphs glyphs at pos.
func specFDSelect(data []byte, pos, nGlyphs int) (fds []int, end int, ok bool) {
	if pos < 0 || pos >= len(data) {
		return nil, 0, false
	}
	switch data[pos] {
	case 0:
		if pos+1+nGlyphs > len(data) {
			return nil, 0, false
		}
		fds = make([]int, nGlyphs)
		for i := range fds {
			fds[i] = int(data[pos+1+i])
		}
		return fds, pos + 1 + nGlyphs, true
	case 3:
		if pos+3 > len(data) {
			return nil, 0, false
		}
		n := int(data[pos+1])<<8 | int(data[pos+2])
		if n == 0 || pos+3+3*n+2 > len(data) {
			return nil, 0, false
		}
		fds = make([]int, nGlyphs)
		sentinel := int(data[pos+3+3*n])<<8 | int(data[pos+3+3*n+1])
		if sentinel != nGlyphs {
			return nil, 0, false
		}
		for i := 0; i < n; i++ {
			first := int(data[pos+3+3*i])<<8 | int(data[pos+3+3*i+1])
			fd := int(data[pos+3+3*i+2])
			next := sentinel
			if i+1 < n {
				next = int(data[pos+3+3*(i+1)])<<8 | int(data[pos+3+3*(i+1)+1])
			}
			if (i == 0 && first != 0) || next <= first || next > nGlyphs {
				return nil, 0, false
			}
			for g := first; g < next; g++ {
				fds[g] = fd
			}
		}
		return fds, pos + 3 + 3*n + 2, true
	}
	return nil, 0, false
}

func (w *walkInfo) add(name string, start, end int) {
	for _, e := range w.extents {
		if e.start == start && e.end == end && e.name == name {
			return // the same structure reached twice (shared Subrs INDEX)
		}
	}
	w.extents = append(w.extents, extent{name, start, end})
}

func offsetOperand(d *specDictT, op int) (int, bool, string) {
	a, ok := d.get(op)
	if !ok {
		return 0, false, ""
	}
	if len(a) != 1 || a[0].isReal {
		return 0, true, fmt.Sprintf("operator %#x does not hold one integer", op)
	}
	return int(a[0].i), true, ""
}

// walkPrivate follows the Private operator of a Top DICT or Font DICT.
func (w *walkInfo) walkPrivate(data []byte, d *specDictT, who string) string {
	a, ok := d.get(18)
	if !ok || len(a) != 2 || a[0].isReal || a[1].isReal {
		return who + ": no Private (size, offset) pair"
	}
	size, offs := int(a[0].i), int(a[1].i)
	if size < 0 || offs < 0 || offs+size > len(data) {
		return fmt.Sprintf("%s: Private DICT [%d,%d) lies outside the file of %d bytes", who, offs, offs+size, len(data))
	}
	pd, ok := specDict(data[offs : offs+size])
	if !ok {
		return who + ": Private DICT does not parse with the size given"
	}
	if msg := pd.wellFormed(); msg != "" {
		return who + ": Private DICT: " + msg
	}
	pw := walkPriv{dict: pd, size: size, offs: offs}
	w.add("Private DICT", offs, offs+size)
	if so, has, msg := offsetOperand(pd, 19); msg != "" {
		return who + ": " + msg
	} else if has {
		subrs, end, ok := specIndex(data, offs+so)
		if !ok {
			return fmt.Sprintf("%s: Subrs offset %d (relative to the Private DICT at %d) is not the position of an INDEX", who, so, offs)
		}
		pw.subrs, pw.hasSubrs, pw.subrsOffs = subrs, true, offs+so
		w.add("Local Subr INDEX", offs+so, end)
	}
	w.privs = append(w.privs, pw)
	return ""
}

// walk parses data; strict = the structures must tile the file.
func walk(data []byte, strict bool) (*walkInfo, string) {
	w := &walkInfo{}
	if len(data) < 4 {
		return nil, "shorter than a header"
	}
	if data[0] != 1 {
		return nil, "major version is not 1"
	}
	hdrSize := int(data[2])
	w.hdrOffSize = int(data[3])
	if hdrSize < 4 || hdrSize > len(data) {
		return nil, "bad hdrSize"
	}
	if w.hdrOffSize < 1 || w.hdrOffSize > 4 {
		return nil, "header offSize outside 1..4"
	}
	if fits := len(data) < 1<<(8*uint(w.hdrOffSize)); !fits {
		return nil, fmt.Sprintf("header offSize %d cannot hold offsets into a file of %d bytes", w.hdrOffSize, len(data))
	}
	w.add("Header", 0, hdrSize)
	names, p2, ok := specIndex(data, hdrSize)
	if !ok || len(names) != 1 {
		return nil, "Name INDEX does not parse or does not hold one name"
	}
	w.fontName = string(names[0])
	w.add("Name INDEX", hdrSize, p2)
	tops, p3, ok := specIndex(data, p2)
	if !ok || len(tops) != 1 {
		return nil, "Top DICT INDEX does not parse or does not hold one DICT"
	}
	w.add("Top DICT INDEX", p2, p3)
	strs, p4, ok := specIndex(data, p3)
	if !ok {
		return nil, "String INDEX does not parse"
	}
	for _, s := range strs {
		w.strings = append(w.strings, string(s))
	}
	w.add("String INDEX", p3, p4)
	gs, p5, ok := specIndex(data, p4)
	if !ok {
		return nil, "Global Subr INDEX does not parse"
	}
	w.gsubrs = gs
	w.add("Global Subr INDEX", p4, p5)

	top, ok := specDict(tops[0])
	if !ok {
		return nil, "Top DICT does not parse"
	}
	w.top = top
	if msg := top.wellFormed(); msg != "" {
		return nil, "Top DICT: " + msg
	}
	// string operands must be valid SIDs
	for _, e := range top.entries {
		n := 0
		switch e.op {
		case 0, 1, 2, 3, 4, 0x0C00:
			n = 1
		case 0x0C1E:
			n = 2
		}
		for i := 0; i < n && i < len(e.args); i++ {
			if _, ok := resolveSID(e.args[i].i, w.strings); e.args[i].isReal || !ok {
				return nil, fmt.Sprintf("Top DICT operator %#x: operand %d is not the id of a string of the font", e.op, i)
			}
		}
	}
	_, w.isCID = top.get(0x0C1E)
	if len(top.entries) > 0 && w.isCID && top.entries[0].op != 0x0C1E {
		return nil, "ROS is not the first operator of the Top DICT of a CIDFont"
	}

	csOffs, has, msg := offsetOperand(top, 17)
	if msg != "" || !has {
		return nil, "Top DICT: no CharStrings offset " + msg
	}
	css, csEnd, ok := specIndex(data, csOffs)
	if !ok || len(css) == 0 {
		return nil, fmt.Sprintf("CharStrings offset %d is not the position of a non-empty INDEX", csOffs)
	}
	w.charstrings = css
	w.add("CharStrings INDEX", csOffs, csEnd)
	nGlyphs := len(css)

	csetOffs, has, msg := offsetOperand(top, 15)
	if msg != "" {
		return nil, "Top DICT: " + msg
	}
	if !has {
		csetOffs = 0
	}
	if csetOffs > 2 {
		ids, end, ok := specCharset(data, csetOffs, nGlyphs)
		if !ok {
			return nil, fmt.Sprintf("charset offset %d is not the position of a charset for %d glyphs", csetOffs, nGlyphs)
		}
		w.charset = ids
		w.add("charset", csetOffs, end)
	} else if w.isCID {
		return nil, "CIDFont with a predefined charset"
	}
	if !w.isCID {
		for g, sid := range w.charset {
			if _, ok := resolveSID(int64(sid), w.strings); !ok {
				return nil, fmt.Sprintf("glyph %d: charset entry %d is not the id of a string of the font", g, sid)
			}
		}
		encOffs, has, msg := offsetOperand(top, 16)
		if msg != "" {
			return nil, "Top DICT: " + msg
		}
		if has {
			w.encOffs = encOffs
		}
		if w.encOffs > 1 {
			if w.charset == nil {
				return nil, "custom encoding with a predefined charset is not followed by this walker"
			}
			codes, end, ok := specEncoding(data, w.encOffs, w.charset)
			if !ok {
				return nil, fmt.Sprintf("Encoding offset %d is not the position of an encoding", w.encOffs)
			}
			w.encCodes = codes
			w.add("Encoding", w.encOffs, end)
		}
		if msg := w.walkPrivate(data, top, "Top DICT"); msg != "" {
			return nil, msg
		}
	} else {
		fdaOffs, has, msg := offsetOperand(top, 0x0C24)
		if msg != "" || !has {
			return nil, "Top DICT: no FDArray offset " + msg
		}
		fds, fdEnd, ok := specIndex(data, fdaOffs)
		if !ok || len(fds) == 0 || len(fds) > 256 {
			return nil, fmt.Sprintf("FDArray offset %d is not the position of an INDEX of 1..256 Font DICTs", fdaOffs)
		}
		w.add("Font DICT INDEX", fdaOffs, fdEnd)
		for i, blob := range fds {
			fd, ok := specDict(blob)
			if !ok {
				return nil, fmt.Sprintf("Font DICT %d does not parse", i)
			}
			if msg := fd.wellFormed(); msg != "" {
				return nil, fmt.Sprintf("Font DICT %d: %s", i, msg)
			}
			if msg := w.walkPrivate(data, fd, fmt.Sprintf("Font DICT %d", i)); msg != "" {
				return nil, msg
			}
			fm, hasFM := fd.get(0x0C07)
			w.privs[len(w.privs)-1].fontMatrix, w.privs[len(w.privs)-1].hasFontMatrix = fm, hasFM
		}
		fdsOffs, has, msg := offsetOperand(top, 0x0C25)
		if msg != "" || !has {
			return nil, "Top DICT: no FDSelect offset " + msg
		}
		sel, end, ok := specFDSelect(data, fdsOffs, nGlyphs)
		if !ok {
			return nil, fmt.Sprintf("FDSelect offset %d is not the position of an FDSelect for %d glyphs", fdsOffs, nGlyphs)
		}
		for g, fd := range sel {
			if fd >= len(fds) {
				return nil, fmt.Sprintf("glyph %d is assigned to Font DICT %d of %d", g, fd, len(fds))
			}
		}
		w.fdselect = sel
		w.add("FDSelect", fdsOffs, end)
		if cc, ok := top.oneNumber(0x0C22); ok && int(cc.i) < nGlyphs && false {
			return nil, "CIDCount below the number of glyphs"
		}
	}

	sort.SliceStable(w.extents, func(i, j int) bool {
		if w.extents[i].start != w.extents[j].start {
			return w.extents[i].start < w.extents[j].start
		}
		return w.extents[i].end < w.extents[j].end
	})
	pos := 0
	for _, e := range w.extents {
		if e.start < pos {
			return nil, fmt.Sprintf("%s [%d,%d) overlaps the structure before it, which ends at %d", e.name, e.start, e.end, pos)
		}
		if strict && e.start != pos {
			return nil, fmt.Sprintf("gap [%d,%d) before %s", pos, e.start, e.name)
		}
		if e.end > len(data) {
			return nil, fmt.Sprintf("%s [%d,%d) ends beyond the file of %d bytes", e.name, e.start, e.end, len(data))
		}
		pos = e.end
	}
	if strict && pos != len(data) {
		return nil, fmt.Sprintf("%d bytes after the last structure", len(data)-pos)
	}
	return w, ""
}

// sectionOffsets: the start of every section in the order Font.Write lays
// them out, then the file size.  A simple font has an empty Font DICT INDEX
// section between the CharStrings INDEX and the Private DICT.
func (w *walkInfo) sectionOffsets(total int) []int {
	var offs []int
	for _, e := range w.extents {
		offs = append(offs, e.start)
		if !w.isCID && e.name == "CharStrings INDEX" {
			offs = append(offs, e.end)
		}
	}
	return append(offs, total)
}
