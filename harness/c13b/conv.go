package c13b

import (
	"crypto/md5"
	"encoding/hex"
	"fmt"
	"math"
	"sort"
	"strconv"
	"strings"

	"seehuhn.de/go/geom/matrix"
	"seehuhn.de/go/postscript/funit"
	"seehuhn.de/go/postscript/psenc"
	"seehuhn.de/go/postscript/type1"

	"seehuhn.de/go/sfnt/cff"
	"seehuhn.de/go/sfnt/verifharness/vlib"
)

// ---------------------------------------------------------------------------
// reals: value = +-mant * 10^exp, mant without trailing zeros (0 0 0 for zero)
// ---------------------------------------------------------------------------

type real struct {
	neg  bool
	mant uint64
	exp  int
}

func (r real) sx() vlib.Sx {
	return vlib.L(vlib.Bool(r.neg), vlib.U64(r.mant), vlib.Int(r.exp))
}

func (r real) float() float64 {
	if r.mant == 0 {
		return 0
	}
	s := strconv.FormatUint(r.mant, 10) + "e" + strconv.Itoa(r.exp)
	if r.neg {
		s = "-" + s
	}
	x, err := strconv.ParseFloat(s, 64)
	if err != nil {
		panic(err)
	}
	return x
}

func (r real) digits() int {
	if r.mant == 0 {
		return 0
	}
	return len(strconv.FormatUint(r.mant, 10))
}

func mkReal(neg bool, mant uint64, exp int) real {
	if mant == 0 {
		return real{}
	}
	for mant%10 == 0 {
		mant /= 10
		exp++
	}
	return real{neg, mant, exp}
}

// realOf converts a float64 into the shortest decimal that denotes it.
func realOf(x float64) (real, bool) {
	if math.IsNaN(x) || math.IsInf(x, 0) {
		return real{}, false
	}
	if x == 0 {
		return real{}, true
	}
	s := strconv.FormatFloat(math.Abs(x), 'e', -1, 64) // d.ddde±xx
	i := strings.IndexByte(s, 'e')
	e, err := strconv.Atoi(s[i+1:])
	if err != nil {
		panic(err)
	}
	ds := strings.Replace(s[:i], ".", "", 1)
	e -= len(ds) - 1
	m, err := strconv.ParseUint(ds, 10, 64)
	if err != nil {
		panic(err)
	}
	return mkReal(x < 0, m, e), true
}

// realSx prints a float64 observation; NaN / Inf cannot occur in the model.
func realSx(x float64) vlib.Sx {
	r, ok := realOf(x)
	if !ok {
		return atom("nan")
	}
	return r.sx()
}

func asReal(x vlib.Sx) (real, error) {
	l, err := vlib.AsList(x)
	if err != nil || len(l) != 3 {
		return real{}, fmt.Errorf("real expected")
	}
	neg, err := vlib.AsBool(l[0])
	if err != nil {
		return real{}, err
	}
	a, err := vlib.AsAtom(l[1])
	if err != nil {
		return real{}, err
	}
	m, err := strconv.ParseUint(a, 10, 64)
	if err != nil {
		return real{}, err
	}
	e, err := vlib.AsInt(l[2])
	if err != nil {
		return real{}, err
	}
	return mkReal(neg, m, e), nil
}

func asReals(x vlib.Sx) ([]real, error) {
	l, err := vlib.AsList(x)
	if err != nil {
		return nil, err
	}
	out := make([]real, len(l))
	for i, y := range l {
		out[i], err = asReal(y)
		if err != nil {
			return nil, err
		}
	}
	return out, nil
}

func realsSx(rs []real) vlib.Sx {
	l := make(vlib.List, len(rs))
	for i, r := range rs {
		l[i] = r.sx()
	}
	return l
}

func matrixSx(m matrix.Matrix) vlib.Sx {
	l := make(vlib.List, 6)
	for i := range m {
		l[i] = realSx(m[i])
	}
	return l
}

func asMatrix(x vlib.Sx) (matrix.Matrix, error) {
	rs, err := asReals(x)
	if err != nil {
		return matrix.Matrix{}, err
	}
	if len(rs) != 6 {
		return matrix.Matrix{}, fmt.Errorf("matrix needs 6 entries")
	}
	var m matrix.Matrix
	for i := range m {
		m[i] = rs[i].float()
	}
	return m, nil
}

// ---------------------------------------------------------------------------
// byte strings, lists
// ---------------------------------------------------------------------------

func hexStr(s string) vlib.Sx { return vlib.Hex([]byte(s)) }

func hexList(bs [][]byte) vlib.Sx {
	l := make(vlib.List, len(bs))
	for i, b := range bs {
		l[i] = vlib.Hex(b)
	}
	return l
}

func strList(ss []string) vlib.Sx {
	l := make(vlib.List, len(ss))
	for i, s := range ss {
		l[i] = hexStr(s)
	}
	return l
}

func asStrList(x vlib.Sx) ([]string, error) {
	l, err := vlib.AsList(x)
	if err != nil {
		return nil, err
	}
	out := make([]string, len(l))
	for i, y := range l {
		b, err := vlib.AsBytes(y)
		if err != nil {
			return nil, err
		}
		out[i] = string(b)
	}
	return out, nil
}

func asStr(x vlib.Sx) (string, error) {
	b, err := vlib.AsBytes(x)
	return string(b), err
}

// bytesObs: long byte strings are compared through their MD5.
func bytesObs(b []byte) vlib.Sx {
	if len(b) <= 2048 {
		return vlib.Hex(b)
	}
	h := md5.Sum(b)
	return vlib.L(atom("md5"), vlib.Int(len(b)), atom(hex.EncodeToString(h[:])))
}

func longObs(x vlib.Sx) vlib.Sx {
	s := vlib.Str(x)
	if len(s) <= 6000 {
		return x
	}
	h := md5.Sum([]byte(s))
	return vlib.L(atom("md5"), vlib.Int(len(s)), atom(hex.EncodeToString(h[:])))
}

// expandInts reads an integer list that may contain (r n v) and (s first n).
func expandInts(x vlib.Sx) ([]int, error) {
	l, err := vlib.AsList(x)
	if err != nil {
		return nil, err
	}
	var out []int
	for _, it := range l {
		if sub, ok := it.(vlib.List); ok {
			if len(sub) != 3 {
				return nil, fmt.Errorf("bad run item")
			}
			k, _ := vlib.AsAtom(sub[0])
			a, err1 := vlib.AsInt(sub[1])
			b, err2 := vlib.AsInt(sub[2])
			if err1 != nil || err2 != nil {
				return nil, fmt.Errorf("bad run item")
			}
			switch k {
			case "r":
				for i := 0; i < a; i++ {
					out = append(out, b)
				}
			case "s":
				for i := 0; i < b; i++ {
					out = append(out, a+i)
				}
			default:
				return nil, fmt.Errorf("bad run item")
			}
			continue
		}
		v, err := vlib.AsInt(it)
		if err != nil {
			return nil, err
		}
		out = append(out, v)
	}
	return out, nil
}

// compressInts writes runs of equal values and of consecutive values compactly.
func compressInts(xs []int) vlib.Sx {
	var l vlib.List
	for i := 0; i < len(xs); {
		j := i + 1
		for j < len(xs) && xs[j] == xs[i] {
			j++
		}
		if j-i >= 4 {
			l = append(l, vlib.L(atom("r"), vlib.Int(j-i), vlib.Int(xs[i])))
			i = j
			continue
		}
		j = i + 1
		for j < len(xs) && xs[j] == xs[j-1]+1 {
			j++
		}
		if j-i >= 4 {
			l = append(l, vlib.L(atom("s"), vlib.Int(xs[i]), vlib.Int(j-i)))
			i = j
			continue
		}
		l = append(l, vlib.Int(xs[i]))
		i++
	}
	if l == nil {
		l = vlib.List{}
	}
	return l
}

// ---------------------------------------------------------------------------
// FontInfo, PrivateDict
// ---------------------------------------------------------------------------

func infoSx(fi *type1.FontInfo) vlib.Sx {
	return vlib.L(hexStr(fi.FontName), hexStr(fi.Version), hexStr(fi.Notice), hexStr(fi.Copyright), hexStr(fi.FullName),
		hexStr(fi.FamilyName), hexStr(fi.Weight), realSx(fi.ItalicAngle), vlib.Bool(fi.IsFixedPitch),
		realSx(float64(fi.UnderlinePosition)), realSx(float64(fi.UnderlineThickness)), matrixSx(fi.FontMatrix))
}

func asInfo(x vlib.Sx) (*type1.FontInfo, error) {
	l, err := vlib.AsList(x)
	if err != nil || len(l) != 12 {
		return nil, fmt.Errorf("fontinfo needs 12 items")
	}
	fi := &type1.FontInfo{}
	for i, p := range []*string{&fi.FontName, &fi.Version, &fi.Notice, &fi.Copyright, &fi.FullName, &fi.FamilyName, &fi.Weight} {
		*p, err = asStr(l[i])
		if err != nil {
			return nil, err
		}
	}
	ang, err := asReal(l[7])
	if err != nil {
		return nil, err
	}
	fi.ItalicAngle = ang.float()
	fi.IsFixedPitch, err = vlib.AsBool(l[8])
	if err != nil {
		return nil, err
	}
	up, err := asReal(l[9])
	if err != nil {
		return nil, err
	}
	fi.UnderlinePosition = funit.Float64(up.float())
	ut, err := asReal(l[10])
	if err != nil {
		return nil, err
	}
	fi.UnderlineThickness = funit.Float64(ut.float())
	fi.FontMatrix, err = asMatrix(l[11])
	if err != nil {
		return nil, err
	}
	return fi, nil
}

func int16sSx(xs []funit.Int16) vlib.Sx {
	l := make(vlib.List, len(xs))
	for i, x := range xs {
		l[i] = vlib.Int(int(x))
	}
	return l
}

func privSx(p *type1.PrivateDict) vlib.Sx {
	return vlib.L(int16sSx(p.BlueValues), int16sSx(p.OtherBlues), realSx(p.BlueScale), vlib.Int(int(p.BlueShift)),
		vlib.Int(int(p.BlueFuzz)), realSx(p.StdHW), realSx(p.StdVW), vlib.Bool(p.ForceBold))
}

func asPriv(x vlib.Sx) (*type1.PrivateDict, error) {
	l, err := vlib.AsList(x)
	if err != nil || len(l) != 8 {
		return nil, fmt.Errorf("private dict needs 8 items")
	}
	p := &type1.PrivateDict{}
	for i, dst := range []*[]funit.Int16{&p.BlueValues, &p.OtherBlues} {
		xs, err := expandInts(l[i])
		if err != nil {
			return nil, err
		}
		for _, v := range xs {
			if v < -32768 || v > 32767 {
				return nil, fmt.Errorf("blue value outside int16")
			}
			*dst = append(*dst, funit.Int16(v))
		}
	}
	bs, err := asReal(l[2])
	if err != nil {
		return nil, err
	}
	p.BlueScale = bs.float()
	sh, err := vlib.AsInt(l[3])
	if err != nil {
		return nil, err
	}
	p.BlueShift = int32(sh)
	fz, err := vlib.AsInt(l[4])
	if err != nil {
		return nil, err
	}
	p.BlueFuzz = int32(fz)
	hw, err := asReal(l[5])
	if err != nil {
		return nil, err
	}
	p.StdHW = hw.float()
	vw, err := asReal(l[6])
	if err != nil {
		return nil, err
	}
	p.StdVW = vw.float()
	p.ForceBold, err = vlib.AsBool(l[7])
	return p, err
}

// ---------------------------------------------------------------------------
// the name -> code tables of the standard and the expert encoding, by
// standard-string id
// ---------------------------------------------------------------------------

var stdSID = func() map[string]int {
	m := map[string]int{}
	for i, s := range cff.VerifC13StdStrings() {
		m[s] = i
	}
	return m
}()

func tablesSx() (vlib.Sx, vlib.Sx) {
	type pair struct{ sid, code int }
	build := func(get func(name string) (byte, bool), names []string) vlib.Sx {
		var ps []pair
		for _, n := range names {
			c, ok := get(n)
			if !ok {
				continue
			}
			ps = append(ps, pair{stdSID[n], int(c)})
		}
		sort.Slice(ps, func(i, j int) bool { return ps[i].sid < ps[j].sid })
		l := make(vlib.List, len(ps))
		for i, p := range ps {
			l[i] = vlib.L(vlib.Int(p.sid), vlib.Int(p.code))
		}
		return l
	}
	for n := range psenc.StandardEncodingRev {
		if _, ok := stdSID[n]; !ok {
			panic("standard encoding name " + n + " is not a standard string")
		}
	}
	std := build(func(n string) (byte, bool) { c, ok := psenc.StandardEncodingRev[n]; return c, ok }, cff.VerifC13StdStrings())
	exp := build(cff.VerifC13bExpertCode, cff.VerifC13StdStrings())
	return std, exp
}

var stdTableSx, expTableSx = tablesSx()
