package c13b

import (
	"bytes"
	"fmt"
	"math"
	"strconv"

	"seehuhn.de/go/geom/matrix"
	"seehuhn.de/go/postscript/cid"
	"seehuhn.de/go/postscript/type1"

	"seehuhn.de/go/sfnt/cff"
	"seehuhn.de/go/sfnt/glyph"
	"seehuhn.de/go/sfnt/verifharness/vlib"
)

func init() {
	kinds["write"] = kWrite
	kinds["read"] = kRead
}

// ---------------------------------------------------------------------------
// fonts in case lines
//
// FONT  = (INFO ROS (GLYPH ...) defW nomW (PRIV ...) (fd ...) (enc ...) (cid ...) ((REAL x6) ...))
// GLYPH = (xName xCS W SHAPE) | (g xPrefix start count xCS W SHAPE)
// SHAPE = (0) blank | (1 x y w h) a box | (2 n seed) a polyline of n segments
// The model reads names and charstrings; the harness rebuilds the cff.Glyph
// from the name, the width W and SHAPE and checks that encodeCharStrings
// produces the charstrings and the default / nominal widths of the line.
// ---------------------------------------------------------------------------

type glyphSpec struct {
	name  string
	cs    []byte
	width real
	shape []int
}

type fontSpec struct {
	info   *type1.FontInfo
	ros    *cid.SystemInfo
	glyphs []glyphSpec
	defW   int
	nomW   int
	privs  []*type1.PrivateDict
	fds    []int
	enc    []int
	cids   []int
	fms    []matrix.Matrix
}

func buildGlyph(g glyphSpec) *cff.Glyph {
	out := &cff.Glyph{Name: g.name, Width: g.width.float()}
	if len(g.shape) == 0 {
		return out
	}
	switch g.shape[0] {
	case 1:
		if len(g.shape) == 5 {
			x, y, w, h := float64(g.shape[1]), float64(g.shape[2]), float64(g.shape[3]), float64(g.shape[4])
			out.MoveTo(x, y)
			out.LineTo(x+w, y)
			out.LineTo(x+w, y+h)
			out.LineTo(x, y+h)
		}
	case 2:
		if len(g.shape) == 3 {
			r := vlib.NewRand(uint64(g.shape[2]))
			x, y := 0.0, 0.0
			out.MoveTo(x, y)
			for i := 0; i < g.shape[1]; i++ {
				x += float64(r.Range(-900, 900))
				y += float64(r.Range(-900, 900))
				out.LineTo(x, y)
			}
		}
	}
	return out
}

func (fs *fontSpec) font() *cff.Font {
	o := &cff.Outlines{}
	for _, g := range fs.glyphs {
		o.Glyphs = append(o.Glyphs, buildGlyph(g))
	}
	o.Private = fs.privs
	if fs.ros != nil {
		o.ROS = fs.ros
		fds := fs.fds
		o.FDSelect = func(g glyph.ID) int {
			if int(g) < len(fds) {
				return fds[g]
			}
			return 0
		}
		o.GIDToCID = make([]cid.CID, len(fs.cids))
		for i, c := range fs.cids {
			o.GIDToCID[i] = cid.CID(c)
		}
		o.FontMatrices = fs.fms
	} else if len(fs.enc) > 0 {
		o.Encoding = make([]glyph.ID, len(fs.enc))
		for i, g := range fs.enc {
			o.Encoding[i] = glyph.ID(g)
		}
	}
	return &cff.Font{FontInfo: fs.info, Outlines: o}
}

func (fs *fontSpec) sx() vlib.Sx {
	ros := vlib.Sx(atom("-"))
	if fs.ros != nil {
		ros = vlib.L(hexStr(fs.ros.Registry), hexStr(fs.ros.Ordering), vlib.Int(int(fs.ros.Supplement)))
	}
	var gl vlib.List
	for i := 0; i < len(fs.glyphs); {
		g := fs.glyphs[i]
		// runs of generated names prefix+number with identical charstrings
		if p, n, ok := splitNumbered(g.name); ok {
			j := i + 1
			for j < len(fs.glyphs) {
				h := fs.glyphs[j]
				q, m, ok2 := splitNumbered(h.name)
				if !ok2 || q != p || m != n+(j-i) || !bytes.Equal(h.cs, g.cs) || h.width != g.width || !sameInts(h.shape, g.shape) {
					break
				}
				j++
			}
			if j-i >= 3 {
				gl = append(gl, vlib.L(atom("g"), hexStr(p), vlib.Int(n), vlib.Int(j-i), vlib.Hex(g.cs), g.width.sx(), vlib.Ints(g.shape)))
				i = j
				continue
			}
		}
		gl = append(gl, vlib.L(hexStr(g.name), vlib.Hex(g.cs), g.width.sx(), vlib.Ints(g.shape)))
		i++
	}
	if gl == nil {
		gl = vlib.List{}
	}
	pl := make(vlib.List, len(fs.privs))
	for i, p := range fs.privs {
		pl[i] = privSx(p)
	}
	fl := make(vlib.List, len(fs.fms))
	for i, m := range fs.fms {
		fl[i] = matrixSx(m)
	}
	return vlib.L(infoSx(fs.info), ros, gl, vlib.Int(fs.defW), vlib.Int(fs.nomW), pl,
		compressInts(fs.fds), compressInts(fs.enc), compressInts(fs.cids), fl)
}

func sameInts(a, b []int) bool {
	if len(a) != len(b) {
		return false
	}
	for i := range a {
		if a[i] != b[i] {
			return false
		}
	}
	return true
}

// splitNumbered: "g17" -> ("g", 17); no leading zeros, at least one letter.
func splitNumbered(s string) (string, int, bool) {
	i := len(s)
	for i > 0 && s[i-1] >= '0' && s[i-1] <= '9' {
		i--
	}
	if i == len(s) || i == 0 || (s[i] == '0' && i+1 < len(s)) || len(s)-i > 8 {
		return "", 0, false
	}
	n, _ := strconv.Atoi(s[i:])
	return s[:i], n, true
}

func asFontSpec(x vlib.Sx) (*fontSpec, error) {
	l, err := vlib.AsList(x)
	if err != nil || len(l) != 10 {
		return nil, fmt.Errorf("font needs 10 items")
	}
	fs := &fontSpec{}
	if fs.info, err = asInfo(l[0]); err != nil {
		return nil, err
	}
	if a, ok := l[1].(vlib.Atom); !ok || a != "-" {
		rl, err := vlib.AsList(l[1])
		if err != nil || len(rl) != 3 {
			return nil, fmt.Errorf("bad ROS")
		}
		reg, err1 := asStr(rl[0])
		ord, err2 := asStr(rl[1])
		sup, err3 := vlib.AsInt(rl[2])
		if err1 != nil || err2 != nil || err3 != nil {
			return nil, fmt.Errorf("bad ROS")
		}
		fs.ros = &cid.SystemInfo{Registry: reg, Ordering: ord, Supplement: int32(sup)}
	}
	gl, err := vlib.AsList(l[2])
	if err != nil {
		return nil, err
	}
	for _, gx := range gl {
		g, err := vlib.AsList(gx)
		if err != nil {
			return nil, err
		}
		if a, ok := g[0].(vlib.Atom); ok && a == "g" {
			if len(g) != 7 {
				return nil, fmt.Errorf("bad generated glyph run")
			}
			prefix, err1 := asStr(g[1])
			start, err2 := vlib.AsInt(g[2])
			count, err3 := vlib.AsInt(g[3])
			cs, err4 := vlib.AsBytes(g[4])
			w, err5 := asReal(g[5])
			shape, err6 := vlib.AsInts(g[6])
			for _, e := range []error{err1, err2, err3, err4, err5, err6} {
				if e != nil {
					return nil, e
				}
			}
			for k := 0; k < count; k++ {
				fs.glyphs = append(fs.glyphs, glyphSpec{prefix + strconv.Itoa(start+k), cs, w, shape})
			}
			continue
		}
		if len(g) != 4 {
			return nil, fmt.Errorf("bad glyph")
		}
		name, err1 := asStr(g[0])
		cs, err2 := vlib.AsBytes(g[1])
		w, err3 := asReal(g[2])
		shape, err4 := vlib.AsInts(g[3])
		for _, e := range []error{err1, err2, err3, err4} {
			if e != nil {
				return nil, e
			}
		}
		fs.glyphs = append(fs.glyphs, glyphSpec{name, cs, w, shape})
	}
	if fs.defW, err = vlib.AsInt(l[3]); err != nil {
		return nil, err
	}
	if fs.nomW, err = vlib.AsInt(l[4]); err != nil {
		return nil, err
	}
	pl, err := vlib.AsList(l[5])
	if err != nil {
		return nil, err
	}
	for _, px := range pl {
		p, err := asPriv(px)
		if err != nil {
			return nil, err
		}
		fs.privs = append(fs.privs, p)
	}
	if fs.fds, err = expandInts(l[6]); err != nil {
		return nil, err
	}
	if fs.enc, err = expandInts(l[7]); err != nil {
		return nil, err
	}
	if fs.cids, err = expandInts(l[8]); err != nil {
		return nil, err
	}
	fl, err := vlib.AsList(l[9])
	if err != nil {
		return nil, err
	}
	for _, fx := range fl {
		m, err := asMatrix(fx)
		if err != nil {
			return nil, err
		}
		fs.fms = append(fs.fms, m)
	}
	return fs, nil
}

// fillCharstrings asks encodeCharStrings for the charstrings and the widths
// of the font and stores them in the spec (generator side).
func (fs *fontSpec) fillCharstrings() {
	f := fs.font()
	cc, dw, nw, err := cff.VerifC13EncodeCharStrings(f)
	if err != nil {
		return
	}
	for i := range fs.glyphs {
		fs.glyphs[i].cs = cc[i]
	}
	fs.defW, fs.nomW = int(int32(dw)), int(int32(nw))
}

func writeLine(fs *fontSpec) string {
	return vlib.Line(atom("write"), fs.sx(), stdTableSx, expTableSx)
}

// ---------------------------------------------------------------------------
// write FONT TABLES
// ---------------------------------------------------------------------------

func kWrite(items []vlib.Sx) (result, error) {
	if len(items) != 3 {
		return result{}, fmt.Errorf("write: 3 arguments")
	}
	fs, err := asFontSpec(items[0])
	if err != nil {
		return result{}, err
	}
	f := fs.font()
	var res result
	// the case line must describe the font Write sees
	if cc, dw, nw, err := cff.VerifC13EncodeCharStrings(f); err == nil {
		stale := int(int32(dw)) != fs.defW || int(int32(nw)) != fs.nomW || len(cc) != len(fs.glyphs)
		for i := 0; !stale && i < len(cc); i++ {
			stale = !bytes.Equal(cc[i], fs.glyphs[i].cs)
		}
		if stale {
			return result{impl: "stale-case", fail: "the charstrings / widths of the case line are not what encodeCharStrings produces", sig: "c13b-stale-case"}, nil
		}
	}
	var data []byte
	var werr error
	bad, what := safely(func() {
		var buf bytes.Buffer
		werr = f.Write(&buf)
		data = buf.Bytes()
	})
	if bad {
		res.impl = "panic"
		if len(fs.glyphs) < 65536 && (fs.ros != nil || len(fs.enc) == 0 || len(fs.enc) == 256) && (fs.ros == nil || (len(fs.cids) > 0 && len(fs.fms) >= len(fs.privs))) {
			res.fail, res.sig = "Font.Write: "+what, "c13b-write-panic"
		}
		return res, nil
	}
	if werr != nil {
		res.impl = "err"
		return res, nil
	}
	w, msg := walk(data, true)
	if msg != "" {
		res.impl = vlib.Str(vlib.L(atom("ok"), bytesObs(data), atom("walk-failed")))
		res.fail, res.sig = "independent walk of the written file: "+msg, "c13b-walk"
		return res, nil
	}
	res.impl = vlib.Str(vlib.L(atom("ok"), bytesObs(data), vlib.Ints(w.sectionOffsets(len(data))), vlib.Int(int(data[3]))))
	if msg := checkWalkAgainstFont(w, fs); msg != "" {
		res.fail, res.sig = "the written file does not hold the font: "+msg, "c13b-walk-content"
		return res, nil
	}
	// field-by-field round trip through cff.Read
	var g *cff.Font
	var rerr error
	bad, what = safely(func() { g, rerr = cff.Read(bytes.NewReader(data)) })
	if bad {
		res.fail, res.sig = "cff.Read of the written file: "+what, "c13b-read-panic"
		return res, nil
	}
	if rerr != nil {
		res.fail, res.sig = "cff.Read rejects the written file: "+rerr.Error(), "c13b-font-roundtrip:rejected"
		return res, nil
	}
	if cat, detail := compareFonts(f, g); cat != "" {
		res.fail, res.sig = cat+": "+detail, "c13b-font-roundtrip:"+cat
	}
	return res, nil
}

// checkWalkAgainstFont: what the independent reader finds in the file is the
// font that was written (names, identifiers, encoding, FD assignment,
// dictionaries).
func checkWalkAgainstFont(w *walkInfo, fs *fontSpec) string {
	if w.fontName != fs.info.FontName {
		return "FontName"
	}
	if w.isCID != (fs.ros != nil) {
		return "simple / CID-keyed"
	}
	if len(w.charstrings) != len(fs.glyphs) {
		return "number of glyphs"
	}
	for i, g := range fs.glyphs {
		if !bytes.Equal(w.charstrings[i], g.cs) {
			return fmt.Sprintf("charstring of glyph %d", i)
		}
	}
	if msg := w.top.checkTop(fs.info, w.isCID, w.strings); msg != "" {
		// the Top DICT of a whole font has more operators than checkTop knows
		// about; wellFormed was checked by walk, here only the FontInfo fields count
		return "Top DICT: " + msg
	}
	if len(w.privs) != len(fs.privs) {
		return "number of Private DICTs"
	}
	for i, p := range fs.privs {
		if msg := w.privs[i].dict.checkPrivate(p, fs.defW, fs.nomW); msg != "" {
			return fmt.Sprintf("Private DICT %d: %s", i, msg)
		}
		if !w.privs[i].hasSubrs || len(w.privs[i].subrs) != 0 {
			return fmt.Sprintf("Private DICT %d: Subrs", i)
		}
	}
	if !w.isCID {
		for i, g := range fs.glyphs {
			if s, ok := resolveSID(int64(w.charset[i]), w.strings); !ok || s != g.name {
				return fmt.Sprintf("name of glyph %d: %q", i, s)
			}
		}
		switch {
		case w.encOffs > 1:
			want := map[int][]int{}
			for c, g := range fs.enc {
				if g != 0 {
					want[g] = append(want[g], c)
				}
			}
			if len(want) != len(w.encCodes) {
				return "encoding: number of encoded glyphs"
			}
			for g, cs := range want {
				got := append([]int(nil), w.encCodes[g]...)
				if !sameIntSet(cs, got) {
					return fmt.Sprintf("encoding: codes of glyph %d: %v written as %v", g, cs, got)
				}
			}
		default:
			// standard / expert encoding by name: compared after reading
		}
	} else {
		if len(w.charset) != len(fs.cids) {
			return "charset length"
		}
		for i, c := range fs.cids {
			if w.charset[i] != c {
				return fmt.Sprintf("CID of glyph %d", i)
			}
		}
		for i := range fs.glyphs {
			want := 0
			if i < len(fs.fds) {
				want = fs.fds[i]
			}
			if w.fdselect[i] != want {
				return fmt.Sprintf("Font DICT of glyph %d", i)
			}
		}
		ros, _ := w.top.get(0x0C1E)
		reg, ok1 := resolveSID(ros[0].i, w.strings)
		ord, ok2 := resolveSID(ros[1].i, w.strings)
		if !ok1 || !ok2 || reg != fs.ros.Registry || ord != fs.ros.Ordering || ros[2].isReal || ros[2].i != int64(fs.ros.Supplement) {
			return "ROS"
		}
		def := matrix.Matrix{0.001, 0, 0, 0.001, 0, 0}
		for i := range fs.privs {
			fm := fs.fms[i]
			if fm == def {
				if w.privs[i].hasFontMatrix {
					return fmt.Sprintf("Font DICT %d: default FontMatrix written", i)
				}
				continue
			}
			a := w.privs[i].fontMatrix
			if !w.privs[i].hasFontMatrix || len(a) != 6 {
				return fmt.Sprintf("Font DICT %d: FontMatrix missing", i)
			}
			for k := range a {
				if !numberIs(a[k], fm[k]) {
					return fmt.Sprintf("Font DICT %d: FontMatrix[%d]", i, k)
				}
			}
		}
	}
	return ""
}

func sameIntSet(a, b []int) bool {
	if len(a) != len(b) {
		return false
	}
	m := map[int]int{}
	for _, x := range a {
		m[x]++
	}
	for _, x := range b {
		m[x]--
	}
	for _, v := range m {
		if v != 0 {
			return false
		}
	}
	return true
}

// ---------------------------------------------------------------------------
// field-by-field comparison of cff.Font values
// ---------------------------------------------------------------------------

// sameReal: equal to nine significant digits.
func sameReal(a, b float64) bool {
	// the normal form of a DICT real: magnitudes below 1e-300 are written as
	// 0, magnitudes above 1e300 are read as 1e300
	switch {
	case math.Abs(a) < 1e-300:
		a = 0
	case a > 1e300:
		a = 1e300
	case a < -1e300:
		a = -1e300
	}
	if a == b {
		return true
	}
	return math.Abs(a-b) <= 5.01e-9*math.Max(math.Abs(a), math.Abs(b))
}

func normAngle(x float64) float64 {
	if x >= -180 && x < 180 {
		return x
	}
	y := math.Mod(x+180, 360)
	if y < 0 {
		y += 360
	}
	return y - 180
}

func clampF(x, lo, hi float64) float64 { return math.Min(math.Max(x, lo), hi) }

func compareFonts(f, g *cff.Font) (string, string) {
	a, b := f.FontInfo, g.FontInfo
	for _, t := range []struct{ n, x, y string }{
		{"FontName", a.FontName, b.FontName}, {"Version", a.Version, b.Version}, {"Notice", a.Notice, b.Notice},
		{"Copyright", a.Copyright, b.Copyright}, {"FullName", a.FullName, b.FullName},
		{"FamilyName", a.FamilyName, b.FamilyName}, {"Weight", a.Weight, b.Weight}} {
		want := t.x
		if t.n != "FontName" {
			want = string([]rune(want)) // the documented normal form: valid UTF-8
		}
		if want != t.y {
			return "fontinfo." + t.n, fmt.Sprintf("%q read back as %q", t.x, t.y)
		}
	}
	if a.IsFixedPitch != b.IsFixedPitch {
		return "fontinfo.IsFixedPitch", ""
	}
	if !sameReal(normAngle(a.ItalicAngle), b.ItalicAngle) {
		return "fontinfo.ItalicAngle", fmt.Sprintf("%v read back as %v", a.ItalicAngle, b.ItalicAngle)
	}
	if !sameReal(float64(a.UnderlinePosition), float64(b.UnderlinePosition)) {
		return "fontinfo.UnderlinePosition", fmt.Sprintf("%v read back as %v", a.UnderlinePosition, b.UnderlinePosition)
	}
	if !sameReal(float64(a.UnderlineThickness), float64(b.UnderlineThickness)) {
		return "fontinfo.UnderlineThickness", fmt.Sprintf("%v read back as %v", a.UnderlineThickness, b.UnderlineThickness)
	}
	for i := range a.FontMatrix {
		if !sameReal(a.FontMatrix[i], b.FontMatrix[i]) {
			return "fontinfo.FontMatrix", fmt.Sprintf("%v read back as %v", a.FontMatrix, b.FontMatrix)
		}
	}
	if len(f.Glyphs) != len(g.Glyphs) {
		return "glyphs.count", fmt.Sprintf("%d read back as %d", len(f.Glyphs), len(g.Glyphs))
	}
	for i := range f.Glyphs {
		x, y := f.Glyphs[i], g.Glyphs[i]
		if f.ROS == nil && x.Name != y.Name {
			return "glyph.name", fmt.Sprintf("glyph %d: %q read back as %q", i, x.Name, y.Name)
		}
		if x.Width != y.Width {
			return "glyph.width", fmt.Sprintf("glyph %d: width %v read back as %v", i, x.Width, y.Width)
		}
		if len(x.Cmds) != len(y.Cmds) {
			return "glyph.outline", fmt.Sprintf("glyph %d: %d commands read back as %d", i, len(x.Cmds), len(y.Cmds))
		}
	}
	if len(f.Private) != len(g.Private) {
		return "private.count", fmt.Sprintf("%d read back as %d", len(f.Private), len(g.Private))
	}
	for i := range f.Private {
		p, q := f.Private[i], g.Private[i]
		same16 := func(x, y []int16) bool { return len(x) == len(y) }
		_ = same16
		if len(p.BlueValues) != len(q.BlueValues) || len(p.OtherBlues) != len(q.OtherBlues) {
			return "private.Blues", fmt.Sprintf("dict %d: %v %v read back as %v %v", i, p.BlueValues, p.OtherBlues, q.BlueValues, q.OtherBlues)
		}
		for k := range p.BlueValues {
			if p.BlueValues[k] != q.BlueValues[k] {
				return "private.BlueValues", fmt.Sprintf("dict %d: %v read back as %v", i, p.BlueValues, q.BlueValues)
			}
		}
		for k := range p.OtherBlues {
			if p.OtherBlues[k] != q.OtherBlues[k] {
				return "private.OtherBlues", fmt.Sprintf("dict %d: %v read back as %v", i, p.OtherBlues, q.OtherBlues)
			}
		}
		switch {
		case !sameReal(clampF(p.BlueScale, 0, 1), q.BlueScale):
			return "private.BlueScale", fmt.Sprintf("dict %d: %v read back as %v", i, p.BlueScale, q.BlueScale)
		case p.BlueShift != q.BlueShift:
			return "private.BlueShift", fmt.Sprintf("dict %d: %v read back as %v", i, p.BlueShift, q.BlueShift)
		case p.BlueFuzz != q.BlueFuzz:
			return "private.BlueFuzz", fmt.Sprintf("dict %d: %v read back as %v", i, p.BlueFuzz, q.BlueFuzz)
		case !sameReal(clampF(p.StdHW, 0, 10000), q.StdHW):
			return "private.StdHW", fmt.Sprintf("dict %d: %v read back as %v", i, p.StdHW, q.StdHW)
		case !sameReal(clampF(p.StdVW, 0, 10000), q.StdVW):
			return "private.StdVW", fmt.Sprintf("dict %d: %v read back as %v", i, p.StdVW, q.StdVW)
		case p.ForceBold != q.ForceBold:
			return "private.ForceBold", fmt.Sprintf("dict %d", i)
		}
	}
	if (f.ROS == nil) != (g.ROS == nil) {
		return "ros", "simple / CID-keyed changed"
	}
	if f.ROS == nil {
		want := f.Encoding
		if len(want) == 0 {
			want = cff.StandardEncoding(f.Glyphs)
		}
		if len(g.Encoding) != 256 || len(want) != 256 {
			return "encoding", fmt.Sprintf("length %d read back as %d", len(want), len(g.Encoding))
		}
		for c := range want {
			if want[c] != g.Encoding[c] {
				return "encoding", fmt.Sprintf("code %d: glyph %d read back as %d", c, want[c], g.Encoding[c])
			}
		}
	} else {
		if *f.ROS != *g.ROS {
			return "ros", fmt.Sprintf("%v read back as %v", *f.ROS, *g.ROS)
		}
		if len(f.GIDToCID) != len(g.GIDToCID) {
			return "gid2cid", "length"
		}
		for i := range f.GIDToCID {
			if f.GIDToCID[i] != g.GIDToCID[i] {
				return "gid2cid", fmt.Sprintf("glyph %d: CID %d read back as %d", i, f.GIDToCID[i], g.GIDToCID[i])
			}
		}
		if len(f.Private) != len(g.FontMatrices) {
			return "fontmatrices", "count"
		}
		for i := range g.FontMatrices {
			for k := 0; k < 6; k++ {
				if !sameReal(f.FontMatrices[i][k], g.FontMatrices[i][k]) {
					return "fontmatrices", fmt.Sprintf("dict %d: %v read back as %v", i, f.FontMatrices[i], g.FontMatrices[i])
				}
			}
		}
		for i := range f.Glyphs {
			if x, y := f.FDSelect(glyph.ID(i)), g.FDSelect(glyph.ID(i)); x != y {
				return "fdselect", fmt.Sprintf("glyph %d: dictionary %d read back as %d", i, x, y)
			}
		}
	}
	return "", ""
}

// ---------------------------------------------------------------------------
// read xDATA TABLES [EXPECT]
// ---------------------------------------------------------------------------

// readParts retraces the path of Read with the package's own functions
// (readIndex, decodeDict, readPrivate through the hooks) to get at what
// cff.Font does not keep: the global and local subroutines, the default and
// nominal widths and the charstrings.
type readParts struct {
	ok          bool
	gsubrs      [][]byte
	charstrings [][]byte
	privs       []readPriv
}

type readPriv struct {
	subrs  [][]byte
	dw, nw float64
}

func retrace(data []byte, isCID bool) (rp readParts) {
	defer func() {
		if recover() != nil {
			rp.ok = false
		}
	}()
	if len(data) < 4 {
		return
	}
	_, p, err := cff.VerifC13ReadIndex(data, int64(data[2]))
	if err != nil {
		return
	}
	tops, p, err := cff.VerifC13ReadIndex(data, p)
	if err != nil || len(tops) != 1 {
		return
	}
	strs, p, err := cff.VerifC13ReadIndex(data, p)
	if err != nil {
		return
	}
	ss := make([]string, len(strs))
	for i, s := range strs {
		ss[i] = string(s)
	}
	rp.gsubrs, _, err = cff.VerifC13ReadIndex(data, p)
	if err != nil {
		return
	}
	top, err := cff.VerifC13DecodeDict(tops[0], ss)
	if err != nil {
		return
	}
	one := func(d map[uint16][]interface{}, op uint16) (int32, bool) {
		v := d[op]
		if len(v) != 1 {
			return 0, false
		}
		x, ok := v[0].(int32)
		return x, ok
	}
	cso, ok := one(top, 17)
	if !ok {
		return
	}
	rp.charstrings, _, err = cff.VerifC13ReadIndex(data, int64(cso))
	if err != nil {
		return
	}
	if !isCID {
		_, subrs, dw, nw, err := cff.VerifC13bReadPrivate(tops[0], ss, data)
		if err != nil {
			return
		}
		rp.privs = []readPriv{{subrs, dw, nw}}
	} else {
		fdo, ok := one(top, 0x0C24)
		if !ok {
			return
		}
		fds, _, err := cff.VerifC13ReadIndex(data, int64(fdo))
		if err != nil {
			return
		}
		for _, blob := range fds {
			_, subrs, dw, nw, err := cff.VerifC13bReadPrivate(blob, ss, data)
			if err != nil {
				return
			}
			rp.privs = append(rp.privs, readPriv{subrs, dw, nw})
		}
	}
	rp.ok = true
	return
}

func rfontObs(g *cff.Font, data []byte) vlib.Sx {
	isCID := g.ROS != nil
	rp := retrace(data, isCID)
	ros := vlib.Sx(atom("-"))
	if isCID {
		ros = vlib.L(hexStr(g.ROS.Registry), hexStr(g.ROS.Ordering), vlib.Int(int(g.ROS.Supplement)))
	}
	gl := make(vlib.List, len(g.Glyphs))
	for i, gg := range g.Glyphs {
		fd := g.FDSelect(glyph.ID(i))
		w := vlib.Sx(atom("?"))
		if rp.ok && i < len(rp.charstrings) && fd < len(rp.privs) {
			cs := rp.charstrings[i]
			switch {
			case len(cs) == 1 && cs[0] == 14:
				w = realSx(gg.Width)
			case len(cs) == 2 && cs[1] == 14 && cs[0] >= 32 && cs[0] <= 246:
				k := int(cs[0]) - 139
				w = vlib.L(atom("n"), vlib.Int(k), realSx(gg.Width-float64(k)))
			}
		}
		gl[i] = vlib.L(hexStr(gg.Name), vlib.Int(fd), w)
	}
	var gs vlib.Sx = atom("?")
	pl := make(vlib.List, len(g.Private))
	if rp.ok {
		gs = hexList(rp.gsubrs)
	}
	for i, p := range g.Private {
		if rp.ok && i < len(rp.privs) {
			pl[i] = vlib.L(privSx(p), hexList(rp.privs[i].subrs), realSx(rp.privs[i].dw), realSx(rp.privs[i].nw))
		} else {
			pl[i] = vlib.L(privSx(p), atom("?"), atom("?"), atom("?"))
		}
	}
	enc := make([]int, len(g.Encoding))
	for i, x := range g.Encoding {
		enc[i] = int(x)
	}
	cids := make([]int, len(g.GIDToCID))
	for i, x := range g.GIDToCID {
		cids[i] = int(x)
	}
	fl := make(vlib.List, len(g.FontMatrices))
	for i, m := range g.FontMatrices {
		fl[i] = matrixSx(m)
	}
	return vlib.L(infoSx(g.FontInfo), ros, longObs(gl), gs, pl, vlib.Ints(enc), longObs(vlib.Ints(cids)), fl)
}

func kRead(items []vlib.Sx) (result, error) {
	if len(items) != 3 && len(items) != 4 {
		return result{}, fmt.Errorf("read: 3 or 4 arguments")
	}
	data, err := vlib.AsBytes(items[0])
	if err != nil {
		return result{}, err
	}
	var g *cff.Font
	var rerr error
	var obs string
	bad, what := safely(func() {
		g, rerr = cff.Read(bytes.NewReader(data))
		if rerr == nil {
			obs = vlib.Str(vlib.L(atom("ok"), rfontObs(g, data)))
		}
	})
	var res result
	switch {
	case bad:
		res.impl = "panic"
		res.fail, res.sig = "cff.Read: "+what, "c13b-read-panic"
	case rerr != nil:
		res.impl = "err"
	default:
		res.impl = obs
	}
	if len(items) == 4 && !bad {
		// the values the harness's own assembler put into the file
		want := vlib.Str(items[3])
		if want != "-" && res.impl != want {
			res.fail = fmt.Sprintf("a file assembled from the specification is read as %.300s, the assembler wrote %.300s", res.impl, want)
			res.sig = "c13b-read-assembled"
		}
	}
	return res, nil
}
