package main

import (
	"seehuhn.de/go/sfnt/verifharness/c13b"
	"seehuhn.de/go/sfnt/verifharness/vlib"
)

func main() { vlib.Main(c13b.Gen, c13b.RunCase) }
