// Package c13b drives the assembly of CFF fonts in seehuhn.de/go/sfnt/cff
// (string table, Top / Private / Font DICT contents, section wiring of
// Font.Write, offset following of Read) through the verif hooks and the public
// API, and records the observations in the syntax the Coq model of part C13B
// prints.  The oracles state the property directly: field-by-field round trip
// through Font.Write / Read, an independent CFF walker written from Adobe
// TN5176 that checks every offset of the emitted bytes, an independent CFF
// assembler whose output Read must understand, and "no panic, no hang" on
// malformed input.
package c13b

import (
	"fmt"
	"strings"
	"time"

	"seehuhn.de/go/sfnt/verifharness/vlib"
)

// result of executing one case line on the implementation
type result struct {
	impl string // observation in the model's output syntax
	fail string // non-empty: the property oracle failed
	sig  string // stable signature of the failure
}

type kindFn func(items []vlib.Sx) (result, error)

var kinds = map[string]kindFn{}

// exec re-executes exactly one case line.
func exec(line string) (result, error) {
	line = strings.TrimPrefix(line, "!")
	items, err := vlib.Parse(line)
	if err != nil {
		return result{}, err
	}
	if len(items) == 0 {
		return result{}, fmt.Errorf("empty case")
	}
	k, err := vlib.AsAtom(items[0])
	if err != nil {
		return result{}, err
	}
	f, ok := kinds[k]
	if !ok {
		return result{}, fmt.Errorf("unknown case kind %q", k)
	}
	return f(items[1:])
}

// RunCase re-executes one case line (corpus entries and replays).
func RunCase(line string) (impl, fail, sig string, err error) {
	r, err := exec(line)
	return r.impl, r.fail, r.sig, err
}

// emit runs a case line and records it.
func emit(run *vlib.Run, line string, nontrivial bool, labels ...string) result {
	r, err := exec(line)
	if err != nil {
		panic(fmt.Sprintf("generator produced a bad case line (%v): %.300s", err, line))
	}
	idx := run.Add(line, r.impl, nontrivial, labels...)
	if r.fail != "" {
		run.Fail(idx, line, r.fail, r.sig)
	}
	return r
}

// safely runs f and reports whether it panicked or did not come back within
// 20 seconds (the goroutine of a hanging call is abandoned).
func safely(f func()) (bad bool, what string) {
	done := make(chan string, 1)
	go func() {
		defer func() {
			if e := recover(); e != nil {
				done <- "panic: " + fmt.Sprint(e)
			}
		}()
		f()
		done <- ""
	}()
	select {
	case w := <-done:
		return w != "", w
	case <-time.After(20 * time.Second):
		return true, "hang: no result after 20 s"
	}
}

func atom(s string) vlib.Sx { return vlib.Atom(s) }

// Gen writes the run for the given tier.
func Gen(run *vlib.Run, seed uint64, tier string) {
	run.Rule = "one case per call of the string table, of a DICT builder / accessor, of readPrivate, or per whole font " +
		"(written by Font.Write, walked by the independent walker, read back and compared field by field; or assembled by the " +
		"harness's own CFF assembler, possibly malformed, and read); non-trivial = at least one custom string interned, one DICT " +
		"entry present, or a font with at least one offset operand; distinct by case line"
	r := vlib.NewRand(seed)
	genStrings(run, r.Fork("strings"), tier)
	genDicts(run, r.Fork("dicts"), tier)
	genWrite(run, r.Fork("write"), tier)
	genRead(run, r.Fork("read"), tier)
}
