package c13b

import (
	"bytes"
	"fmt"
	"strings"

	"seehuhn.de/go/geom/matrix"
	"seehuhn.de/go/postscript/cid"
	"seehuhn.de/go/postscript/funit"
	"seehuhn.de/go/postscript/type1"

	"seehuhn.de/go/sfnt/cff"
	"seehuhn.de/go/sfnt/verifharness/vlib"
)

func scale(tier string, quick, thorough int) int {
	if tier == "thorough" {
		return thorough
	}
	return quick
}

// ---------------------------------------------------------------------------
// strings
// ---------------------------------------------------------------------------

var someStd = []string{".notdef", "space", "A", "a", "zero", "001.000", "Bold", "Regular", "Semibold", "Roman", "Light", "Black", "fi", "ffl", "Zcaronsmall"}

func randCustom(r *vlib.Rand) string {
	switch r.Intn(8) {
	case 0:
		return fmt.Sprintf("g%d", r.Intn(500))
	case 1:
		return fmt.Sprintf("uni%04X", r.Intn(0x3000))
	case 2:
		return "" // the empty string is not a standard string
	case 3: // near misses of standard strings
		return vlib.Pick(r, []string{"Space", "space ", ".notdef1", "notdef", "BOLD", "a.", "001.0000"})
	case 4: // bytes that are not UTF-8
		return string(r.Bytes(r.Range(1, 6)))
	case 5:
		return strings.Repeat("x", r.Range(100, 400))
	}
	n := r.Range(1, 24)
	b := make([]byte, n)
	for i := range b {
		b[i] = byte(r.Range(33, 126))
	}
	return string(b)
}

func genStrings(run *vlib.Run, r *vlib.Rand, tier string) {
	line := func(initial, lookups []string) string {
		return vlib.Line(atom("strings"), strList(initial), strList(lookups))
	}
	std := cff.VerifC13StdStrings()
	emit(run, line(nil, nil), false, "strings:empty")
	emit(run, line(nil, std), true, "strings:all-standard")
	emit(run, line(nil, []string{"", "", "a", ""}), true, "strings:empty-string")
	// k custom strings in first-use order, k = 0..400, mixed with standard ones and repeats
	for _, k := range []int{0, 1, 2, 3, 10, 50, 107, 108, 255, 256, 257, 400} {
		var ls []string
		for len(uniqueCustom(ls)) < k {
			switch r.Intn(5) {
			case 0:
				ls = append(ls, vlib.Pick(r, someStd))
			case 1:
				if len(ls) > 0 {
					ls = append(ls, ls[r.Intn(len(ls))]) // a repeat
					break
				}
				fallthrough
			default:
				ls = append(ls, fmt.Sprintf("c%d.%s", len(ls), randCustom(r)))
			}
		}
		emit(run, line(nil, ls), k > 0, "strings:custom", fmt.Sprintf("strings:custom-%d", k))
	}
	n := scale(tier, 60, 1500)
	for i := 0; i < n; i++ {
		var ls []string
		m := r.Range(1, 40)
		for j := 0; j < m; j++ {
			switch r.Intn(4) {
			case 0:
				ls = append(ls, vlib.Pick(r, std))
			case 1:
				if len(ls) > 0 {
					ls = append(ls, ls[r.Intn(len(ls))])
					break
				}
				fallthrough
			default:
				ls = append(ls, randCustom(r))
			}
		}
		emit(run, line(nil, ls), true, "strings:random")
	}
	// a table as Read builds it from a String INDEX: duplicates, copies of standard strings
	for i := 0; i < scale(tier, 30, 400); i++ {
		var initial []string
		for j := r.Range(1, 8); j > 0; j-- {
			switch r.Intn(4) {
			case 0:
				initial = append(initial, vlib.Pick(r, someStd))
			case 1:
				if len(initial) > 0 {
					initial = append(initial, initial[r.Intn(len(initial))])
					break
				}
				fallthrough
			default:
				initial = append(initial, randCustom(r))
			}
		}
		var ls []string
		for j := r.Range(1, 8); j > 0; j-- {
			switch r.Intn(3) {
			case 0:
				ls = append(ls, vlib.Pick(r, someStd))
			case 1:
				ls = append(ls, vlib.Pick(r, initial))
			default:
				ls = append(ls, randCustom(r))
			}
		}
		emit(run, line(initial, ls), true, "strings:read-side-table")
	}
	// get at the boundaries
	data := []string{"one", "two", "", "four"}
	for _, sid := range []int64{-2147483648, -1, 0, 1, 390, 391, 392, 393, 394, 395, 396, 65535, 65536, 2147483647} {
		emit(run, vlib.Line(atom("sget"), strList(data), vlib.I64(sid)), true, "strings:get")
	}
	emit(run, vlib.Line(atom("sget"), strList(nil), vlib.I64(391)), true, "strings:get")
	// getString's UTF-8 normal form
	for _, s := range []string{"", "plain", "\xc3\xa9t\xc3\xa9", "\xff", "a\x80b", "\xc3", "\xe2\x82\xac", "\xe2\x82", "\xed\xa0\x80", "\xed\x9f\xbf",
		"\xf0\x9f\x98\x80", "\xf4\x90\x80\x80", "\xf4\x8f\xbf\xbf", "\xc0\xaf", "\xc1\xbf", "\xe0\x80\x80", "\xe0\xa0\x80", "\xf0\x80\x80\x80", "\xf0\x90\x80\x80",
		"\xef\xbf\xbd", "x\xf5y", "\xc2\x80", "\xdf\xbf", "\xe1\x80", "ab\xf8\x88\x80\x80\x80"} {
		emit(run, vlib.Line(atom("utf8"), hexStr(s)), true, "strings:utf8")
	}
	for i := 0; i < scale(tier, 40, 2000); i++ {
		emit(run, vlib.Line(atom("utf8"), vlib.Hex(utf8ish(r))), true, "strings:utf8")
	}
}

func utf8ish(r *vlib.Rand) []byte {
	var b []byte
	for n := r.Range(1, 8); n > 0; n-- {
		switch r.Intn(6) {
		case 0:
			b = append(b, byte(r.Range(32, 126)))
		case 1:
			b = append(b, []byte(string(rune(r.Range(0x80, 0x10ffff))))...)
		case 2:
			b = append(b, vlib.Pick(r, []byte{0x80, 0xbf, 0xc0, 0xc1, 0xc2, 0xdf, 0xe0, 0xed, 0xef, 0xf0, 0xf4, 0xf5, 0xff}))
		case 3:
			b = append(b, vlib.Pick(r, []byte{0x7f, 0x80, 0x8f, 0x90, 0x9f, 0xa0, 0xbf}))
		default:
			b = append(b, byte(r.Intn(256)))
		}
	}
	return b
}

func uniqueCustom(ls []string) map[string]bool {
	m := map[string]bool{}
	for _, s := range ls {
		if _, ok := stdSID[s]; !ok {
			m[s] = true
		}
	}
	return m
}

// ---------------------------------------------------------------------------
// numbers in the representable domain
// ---------------------------------------------------------------------------

// a decimal with at most nine significant digits
func randReal(r *vlib.Rand) real {
	switch r.Intn(10) {
	case 0:
		return real{}
	case 1:
		return mkReal(r.Bool(), uint64(r.Range(1, 2000)), 0)
	case 2:
		return mkReal(r.Bool(), uint64(r.Range(1, 999999999)), r.Range(-12, 3))
	case 3: // the extremes of the exponent layouts of encodeFloat
		return mkReal(r.Bool(), uint64(r.Range(1, 999)), vlib.Pick(r, []int{-300, -299, -100, -20, -9, -8, 8, 9, 20, 100, 290, 297}))
	case 4: // boundaries of the range decodeFloat keeps
		return vlib.Pick(r, []real{mkReal(false, 1, 300), mkReal(true, 1, 300), mkReal(false, 1, -300), mkReal(true, 1, -300),
			mkReal(false, 999999999, 291), mkReal(false, 999999999, -309), mkReal(false, 1, -301), mkReal(false, 5, -324)})
	}
	return mkReal(r.Bool(), uint64(r.Range(1, 999999)), r.Range(-6, 0))
}

func randStringField(r *vlib.Rand) string {
	switch r.Intn(7) {
	case 0, 1:
		return ""
	case 2:
		return vlib.Pick(r, []string{"Bold", "Regular", "001.000", "Light", "Roman", "Medium", "Semibold", "Black"})
	case 3:
		return vlib.Pick(r, []string{"Copyright (c) 2024 the verification harness", "Test Family", "Version 1.5; \xc3\xa9t\xc3\xa9", "x", "A"})
	case 4: // not valid UTF-8
		return vlib.Pick(r, []string{"caf\xe9", "\xff\xfe", "ok\xc3"})
	}
	return randCustom(r)
}

func defaultInfo() *type1.FontInfo {
	return &type1.FontInfo{FontName: "T", UnderlinePosition: -100, UnderlineThickness: 50, FontMatrix: matrix.Matrix{0.001, 0, 0, 0.001, 0, 0}}
}

func randMatrix(r *vlib.Rand, isCID bool) matrix.Matrix {
	switch r.Intn(8) {
	case 0:
		return matrix.Matrix{0.001, 0, 0, 0.001, 0, 0}
	case 1:
		return matrix.Identity
	case 2:
		return matrix.Matrix{0.0010001, 0, 0, 0.0010001, 0, 0} // close to the default
	case 3:
		return matrix.Matrix{0.0005, 0, 0.000212, 0.0005, 10, -20}
	case 4:
		return matrix.Matrix{0.000488281, 0, 0, 0.000488281, 0, 0}
	case 5:
		return matrix.Matrix{1, 0, 0, 1, 0, 1e-9} // the identity but for one entry
	case 6:
		return matrix.Matrix{0.001, 0, 0, 0.001, 0, 0.5}
	}
	var m matrix.Matrix
	for i := range m {
		m[i] = randReal(r).float()
	}
	return m
}

func randInfo(r *vlib.Rand, isCID bool) *type1.FontInfo {
	fi := defaultInfo()
	if isCID {
		fi.FontMatrix = matrix.Identity
	}
	fi.FontName = vlib.Pick(r, []string{"Test", "A", "", "VerifFont-Regular", randCustom(r)})
	for _, p := range []*string{&fi.Version, &fi.Notice, &fi.Copyright, &fi.FullName, &fi.FamilyName, &fi.Weight} {
		*p = randStringField(r)
	}
	fi.IsFixedPitch = r.Chance(1, 3)
	if r.Chance(1, 2) {
		fi.ItalicAngle = vlib.Pick(r, []float64{-12, -9.5, 11.25, 1e-7, -179.999999, -180, 179.5, randReal(r).float()})
		if fi.ItalicAngle < -180 || fi.ItalicAngle >= 180 {
			// outside the normal range only values binary floating point holds exactly
			fi.ItalicAngle = vlib.Pick(r, []float64{180, 200.25, -540, 359.5, -180.5, 720, 1e6, -1e9})
		}
	}
	if r.Chance(1, 2) {
		fi.UnderlinePosition = funit.Float64(vlib.Pick(r, []float64{-75, -150, -120.5, 0, -100.5, 2147483647, -2147483648, 3e9, -3e9, 1e12, randReal(r).float()}))
	}
	if r.Chance(1, 2) {
		fi.UnderlineThickness = funit.Float64(vlib.Pick(r, []float64{20, 100, 45.25, 0, 50.000001, randReal(r).float()}))
	}
	if r.Chance(1, 2) {
		fi.FontMatrix = randMatrix(r, isCID)
	}
	return fi
}

func randBlues(r *vlib.Rand) []funit.Int16 {
	switch r.Intn(8) {
	case 0, 1:
		return nil
	case 2: // the extremes of 16 bits: differences beyond 16 bits
		return []funit.Int16{-32768, 32767, -32768, -1, 0, 32767}
	case 3: // long
		n := vlib.Pick(r, []int{14, 16, 40, 48})
		out := make([]funit.Int16, n)
		v := -200
		for i := range out {
			out[i] = funit.Int16(v)
			v += r.Range(0, 60)
		}
		return out
	case 4: // not sorted, odd length
		n := r.Range(1, 9)
		out := make([]funit.Int16, n)
		for i := range out {
			out[i] = funit.Int16(r.Range(-2000, 2000))
		}
		return out
	}
	n := 2 * r.Range(1, 5)
	out := make([]funit.Int16, n)
	v := r.Range(-300, 0)
	for i := range out {
		out[i] = funit.Int16(v)
		v += r.Range(1, 400)
	}
	return out
}

func defaultPriv() *type1.PrivateDict {
	return &type1.PrivateDict{BlueScale: 0.039625, BlueShift: 7, BlueFuzz: 1}
}

func randPriv(r *vlib.Rand) *type1.PrivateDict {
	p := defaultPriv()
	p.BlueValues = randBlues(r)
	if r.Chance(1, 2) {
		p.OtherBlues = randBlues(r)
	}
	if r.Chance(1, 2) {
		p.BlueScale = vlib.Pick(r, []float64{0.05, 0.0396255, 0.03962, 0, 1, 1.5, -0.25, 0.039625001, randReal(r).float()})
	}
	if r.Chance(1, 2) {
		p.BlueShift = int32(vlib.Pick(r, []int{0, 6, 8, 7, -1, 107, 108, 2147483647, -2147483648, r.Range(-50, 50)}))
	}
	if r.Chance(1, 2) {
		p.BlueFuzz = int32(vlib.Pick(r, []int{0, 1, 2, -1131, 32768, r.Range(-5, 5)}))
	}
	if r.Chance(1, 2) {
		p.StdHW = vlib.Pick(r, []float64{50, 80, 41.5, 10000, 10000.5, 20000, -3, randReal(r).float()})
	}
	if r.Chance(1, 2) {
		p.StdVW = vlib.Pick(r, []float64{60, 95, 88.25, 1e-9, randReal(r).float()})
	}
	p.ForceBold = r.Chance(1, 4)
	return p
}

// ---------------------------------------------------------------------------
// DICT level
// ---------------------------------------------------------------------------

func genDicts(run *vlib.Run, r *vlib.Rand, tier string) {
	topLine := func(fi *type1.FontInfo, isCID bool, initial []string) string {
		return vlib.Line(atom("topdict"), vlib.Bool(isCID), strList(initial), infoSx(fi))
	}
	// every field at its default, and one field at a time away from it
	for _, isCID := range []bool{false, true} {
		base := func() *type1.FontInfo {
			fi := defaultInfo()
			if isCID {
				fi.FontMatrix = matrix.Identity
			}
			return fi
		}
		emit(run, topLine(base(), isCID, nil), false, "topdict:all-default")
		mods := []func(fi *type1.FontInfo){
			func(fi *type1.FontInfo) { fi.Version = "001.000" },
			func(fi *type1.FontInfo) { fi.Version = "1.5" },
			func(fi *type1.FontInfo) { fi.Notice = "a notice" },
			func(fi *type1.FontInfo) { fi.Copyright = "(c)" },
			func(fi *type1.FontInfo) { fi.FullName = "Full Name" },
			func(fi *type1.FontInfo) { fi.FamilyName = "Family" },
			func(fi *type1.FontInfo) { fi.Weight = "Bold" },
			func(fi *type1.FontInfo) { fi.Weight = "Heavyish" },
			func(fi *type1.FontInfo) { fi.IsFixedPitch = true },
			func(fi *type1.FontInfo) { fi.ItalicAngle = -12 },
			func(fi *type1.FontInfo) { fi.ItalicAngle = 1e-7 },
			func(fi *type1.FontInfo) { fi.UnderlinePosition = -99 },
			func(fi *type1.FontInfo) { fi.UnderlinePosition = -100.5 },
			func(fi *type1.FontInfo) { fi.UnderlinePosition = 0 },
			func(fi *type1.FontInfo) { fi.UnderlineThickness = 51 },
			func(fi *type1.FontInfo) { fi.UnderlineThickness = 0 },
			func(fi *type1.FontInfo) { fi.UnderlineThickness = 49.999 },
			func(fi *type1.FontInfo) { fi.FontMatrix = matrix.Identity },
			func(fi *type1.FontInfo) { fi.FontMatrix = matrix.Matrix{0.001, 0, 0, 0.001, 0, 0} },
			func(fi *type1.FontInfo) { fi.FontMatrix = matrix.Matrix{0.001, 0, 0, 0.001, 0, 1e-9} },
			func(fi *type1.FontInfo) { fi.FontMatrix = matrix.Matrix{} },
		}
		for _, m := range mods {
			fi := base()
			m(fi)
			emit(run, topLine(fi, isCID, nil), true, "topdict:one-field")
		}
	}
	for i := 0; i < scale(tier, 150, 5000); i++ {
		isCID := r.Chance(1, 3)
		var initial []string
		if r.Chance(1, 3) {
			for j := r.Range(1, 5); j > 0; j-- {
				initial = append(initial, fmt.Sprintf("g%d", j))
			}
			if r.Bool() {
				initial = append(initial, "Test Family")
			}
		}
		emit(run, topLine(randInfo(r, isCID), isCID, initial), true, "topdict:random")
	}

	privLine := func(p *type1.PrivateDict, dw, nw int) string {
		return vlib.Line(atom("privdict"), privSx(p), vlib.Int(dw), vlib.Int(nw))
	}
	emit(run, privLine(defaultPriv(), 0, 0), false, "privdict:all-default")
	pmods := []func(p *type1.PrivateDict){
		func(p *type1.PrivateDict) { p.BlueValues = []funit.Int16{-10, 0, 700, 710} },
		func(p *type1.PrivateDict) { p.BlueValues = []funit.Int16{0} },
		func(p *type1.PrivateDict) { p.BlueValues = []funit.Int16{-32768, 32767} },
		func(p *type1.PrivateDict) { p.BlueValues = []funit.Int16{32767, -32768} },
		func(p *type1.PrivateDict) { p.OtherBlues = []funit.Int16{-250, -240} },
		func(p *type1.PrivateDict) { p.BlueScale = 0.05 },
		func(p *type1.PrivateDict) { p.BlueScale = 0 },
		func(p *type1.PrivateDict) { p.BlueScale = 0.0396255 },
		func(p *type1.PrivateDict) { p.BlueShift = 0 },
		func(p *type1.PrivateDict) { p.BlueShift = 8 },
		func(p *type1.PrivateDict) { p.BlueFuzz = 0 },
		func(p *type1.PrivateDict) { p.BlueFuzz = 2 },
		func(p *type1.PrivateDict) { p.StdHW = 80 },
		func(p *type1.PrivateDict) { p.StdHW = 41.5 },
		func(p *type1.PrivateDict) { p.StdVW = 95 },
		func(p *type1.PrivateDict) { p.ForceBold = true },
	}
	for _, m := range pmods {
		p := defaultPriv()
		m(p)
		emit(run, privLine(p, 0, 0), true, "privdict:one-field")
	}
	for _, w := range [][2]int{{500, 0}, {0, 607}, {-1, 1}, {107, 108}, {-107, -108}, {1131, 1132}, {-1131, -1132}, {32767, 32768}, {-32768, -32769}, {2147483647, -2147483648}} {
		emit(run, privLine(defaultPriv(), w[0], w[1]), true, "privdict:widths")
	}
	for i := 0; i < scale(tier, 150, 5000); i++ {
		emit(run, privLine(randPriv(r), vlib.Pick(r, []int{0, 500, r.Range(-2000, 2000)}), vlib.Pick(r, []int{0, 607, r.Range(-2000, 2000)})), true, "privdict:random")
	}

	for _, isCID := range []bool{false, true} {
		for i := 0; i < scale(tier, 12, 300); i++ {
			emit(run, vlib.Line(atom("fmdict"), vlib.Bool(isCID), matrixSx(randMatrix(r, isCID))), true, "fmdict")
		}
	}

	// generic entries: operand mixes, two-byte operators, ROS first, strings
	for i := 0; i < scale(tier, 120, 4000); i++ {
		ops := []int{0, 1, 2, 3, 4, 5, 6, 7, 8, 9, 10, 11, 13, 14, 15, 16, 17, 18, 19, 20, 21, 0x0C00, 0x0C01, 0x0C02, 0x0C03, 0x0C04, 0x0C06, 0x0C07,
			0x0C09, 0x0C0A, 0x0C0B, 0x0C0E, 0x0C14, 0x0C15, 0x0C16, 0x0C1E, 0x0C1F, 0x0C22, 0x0C24, 0x0C25, 0x0C26, 0x0CFF}
		n := r.Range(0, 6)
		used := map[int]bool{}
		var el vlib.List
		for j := 0; j < n; j++ {
			op := vlib.Pick(r, ops)
			if used[op] {
				continue
			}
			used[op] = true
			e := vlib.List{vlib.Int(op)}
			for k := r.Range(0, 4); k > 0; k-- {
				switch r.Intn(4) {
				case 0:
					e = append(e, vlib.L(atom("s"), hexStr(vlib.Pick(r, []string{"Bold", "custom", "other", "space", ""}))))
				case 1:
					x := randReal(r)
					e = append(e, vlib.L(atom("r"), vlib.Bool(x.neg), vlib.U64(x.mant), vlib.Int(x.exp)))
				default:
					e = append(e, vlib.L(atom("i"), vlib.Int(vlib.Pick(r, []int{0, 1, -1, 107, 108, -107, -108, 1131, 1132, -1131, -1132, 32767, 32768, -32768, -32769,
						391, 65535, 65536, 2147483647, -2147483648, r.Range(-70000, 70000)}))))
				}
			}
			el = append(el, e)
		}
		if el == nil {
			el = vlib.List{}
		}
		emit(run, vlib.Line(atom("dict-enc"), strList(nil), el), n > 0, "dict-enc")
	}

	genAccess(run, r, tier)
	genReadPriv(run, r, tier)

	for _, x := range []real{{}, mkReal(false, 12, 0), mkReal(true, 12, 0), mkReal(false, 1, -7), mkReal(true, 180, 0), mkReal(false, 180, 0),
		mkReal(false, 179999999, -6), mkReal(true, 1805, -1), mkReal(false, 20025, -2), mkReal(true, 540, 0), mkReal(false, 3595, -1), mkReal(false, 720, 0),
		mkReal(false, 1, 6), mkReal(true, 1, 9), mkReal(false, 36, 1), mkReal(true, 36, 1)} {
		emit(run, vlib.Line(atom("angle"), x.sx()), true, "angle")
	}
	for i := 0; i < scale(tier, 40, 1000); i++ {
		x := randReal(r)
		if f := x.float(); f < -180 || f >= 180 {
			x = mkReal(r.Bool(), uint64(r.Range(720, 40000)), -2) // quarter steps are exact in binary
			x = mkReal(x.neg, (x.mant/25)*25, -2)
		}
		emit(run, vlib.Line(atom("angle"), x.sx()), true, "angle")
	}
}

// a DICT as bytes from entries (minimal integer forms, reals via the library)
func encodeEntries(entries map[uint16][]interface{}) []byte {
	b, _ := cff.VerifC13bEncodeDict(entries, nil)
	return b
}

// hasLongReal: some real operand has more than 15 significant digits (beyond
// what float64 identifies uniquely; such inputs are not compared)
func hasLongReal(buf []byte) bool {
	d, ok := specDict(buf)
	if !ok {
		// scan for 0x1e and be careful
		return bytes.IndexByte(buf, 30) >= 0 && longRealScan(buf)
	}
	for _, e := range d.entries {
		for _, a := range e.args {
			if a.isReal && (!a.rOK || a.r.digits() > 15) {
				return true
			}
		}
	}
	return false
}

func longRealScan(buf []byte) bool {
	for i, b := range buf {
		if b != 30 {
			continue
		}
		r, rOK, _, ok := specRealOperand(buf[i+1:])
		if ok && (!rOK || r.digits() > 15) {
			return true
		}
	}
	return false
}

func genAccess(run *vlib.Run, r *vlib.Rand, tier string) {
	line := func(buf []byte, ss []string, op int, isCID bool) string {
		return vlib.Line(atom("access"), vlib.Hex(buf), strList(ss), vlib.Int(op), vlib.Int(12345), mkReal(false, 543215, -1).sx(), vlib.Bool(isCID))
	}
	ss := []string{"custom one", "caf\xe9", ""}
	mk := func() (map[uint16][]interface{}, int) {
		op := vlib.Pick(r, []int{0, 1, 6, 7, 10, 15, 17, 18, 19, 20, 0x0C02, 0x0C03, 0x0C07, 0x0C09, 0x0C0A, 0x0C1E})
		var args []interface{}
		switch r.Intn(8) {
		case 0:
		case 1:
			args = []interface{}{int32(r.Range(-40000, 40000))}
		case 2:
			args = []interface{}{randReal(r).float()}
		case 3:
			args = []interface{}{int32(r.Range(0, 400)), int32(r.Range(0, 70000))}
		case 4:
			for i := 0; i < 6; i++ {
				if r.Chance(1, 8) {
					args = append(args, int32(r.Range(0, 2)))
				} else {
					args = append(args, randReal(r).float())
				}
			}
		case 5:
			for i := r.Range(1, 10); i > 0; i-- {
				args = append(args, int32(vlib.Pick(r, []int{r.Range(-500, 500), 32767, -32768, 65536, 40000})))
			}
		case 6:
			args = []interface{}{int32(vlib.Pick(r, []int{0, 5, 390, 391, 392, 393, 394, -1, 70000}))}
		default:
			args = []interface{}{int32(391), int32(392), int32(r.Range(0, 9))}
		}
		return map[uint16][]interface{}{uint16(op): args, 0x0C0B: {int32(3)}}, op
	}
	for i := 0; i < scale(tier, 250, 8000); i++ {
		entries, op := mk()
		buf := encodeEntries(entries)
		if r.Chance(1, 2) {
			// a mutation: one byte changed, a byte dropped or the tail cut
			switch r.Intn(3) {
			case 0:
				if len(buf) > 0 {
					buf[r.Intn(len(buf))] = byte(r.Intn(256))
				}
			case 1:
				if len(buf) > 1 {
					k := r.Intn(len(buf))
					buf = append(buf[:k:k], buf[k+1:]...)
				}
			default:
				buf = buf[:r.Intn(len(buf)+1)]
			}
		}
		l := line(buf, ss, op, r.Bool())
		if hasLongReal(buf) {
			emit(run, "!"+l, true, "access:long-real(oracle-only)")
			continue
		}
		emit(run, l, true, "access")
	}
}

func genReadPriv(run *vlib.Run, r *vlib.Rand, tier string) {
	for i := 0; i < scale(tier, 150, 5000); i++ {
		p := randPriv(r)
		f := &cff.Font{Outlines: &cff.Outlines{Private: []*type1.PrivateDict{p}}}
		dw, nw := vlib.Pick(r, []int{0, 500, -3}), vlib.Pick(r, []int{0, 607})
		pd := cff.VerifC13bPrivateDict(f, 0, float64(dw), float64(nw))
		subrs := [][]byte{}
		for k := r.Intn(4); k > 0; k-- {
			subrs = append(subrs, r.Bytes(r.Range(0, 5)))
		}
		// file: 4 header bytes, padding, Private DICT (+ Subrs operand), Subrs INDEX
		pad := r.Range(0, 6)
		offs := 4 + pad
		var full []byte
		withSubrs := r.Chance(2, 3)
		subrsRel := 0
		for iter := 0; iter < 6; iter++ {
			e := map[uint16][]interface{}{}
			full = append([]byte(nil), pd...)
			if withSubrs {
				e[19] = []interface{}{int32(subrsRel)}
				full = append(full, encodeEntries(e)...)
			}
			if subrsRel == len(full)+r.Intn(1) {
				break
			}
			subrsRel = len(full)
		}
		data := append([]byte{1, 0, 4, 1}, make([]byte, pad)...)
		data = append(data, full...)
		data = append(data, cff.VerifC13EncodeIndex(subrs)...)
		size, at := len(full), offs
		switch r.Intn(10) { // wrong descriptions of the Private DICT
		case 0:
			size += r.Range(1, 400)
		case 1:
			at = vlib.Pick(r, []int{0, 3, len(data), len(data) + 5, -4})
		case 2:
			size = vlib.Pick(r, []int{-1, 0, 1, 2147483647})
		case 3:
			at = 2147483647
		}
		dict := encodeEntries(map[uint16][]interface{}{18: {int32(size), int32(at)}})
		switch r.Intn(12) {
		case 0:
			dict = encodeEntries(map[uint16][]interface{}{18: {int32(size)}})
		case 1:
			dict = encodeEntries(map[uint16][]interface{}{18: {float64(size), int32(at)}})
		case 2:
			dict = nil
		case 3:
			if len(data) > 4 {
				data[4+r.Intn(len(data)-4)] = byte(r.Intn(256))
			}
		}
		l := vlib.Line(atom("readpriv"), vlib.Hex(dict), strList(nil), vlib.Hex(data))
		if longRealScan(data) || hasLongReal(dict) {
			emit(run, "!"+l, true, "readpriv:long-real(oracle-only)")
			continue
		}
		emit(run, l, true, "readpriv")
	}
}

// ---------------------------------------------------------------------------
// whole fonts
// ---------------------------------------------------------------------------

type fontOpts struct {
	isCID     bool
	nGlyphs   int
	nPrivate  int
	names     string // std, custom, mixed, clash
	encoding  string // none, standard, expert, custom, supplement
	blank     bool   // only blank glyphs (one- or two-byte charstrings)
	bigGlyph  int    // segments of one big glyph, 0 = none
	notice    int    // length of the Notice string (shifts every later section)
	fontName  int    // length of the FontName, -1 = random
	widths    []int
}

func randFontSpec(r *vlib.Rand, o fontOpts) *fontSpec {
	fs := &fontSpec{info: randInfo(r, o.isCID)}
	if o.fontName >= 0 {
		fs.info.FontName = strings.Repeat("N", o.fontName)
	}
	if o.notice > 0 {
		fs.info.Notice = strings.Repeat("n", o.notice)
	}
	widths := o.widths
	if widths == nil {
		widths = vlib.Pick(r, [][]int{{500, 500, 500, 600}, {500}, {250, 333, 500, 500, 1000}, {600, 600, 493}})
	}
	std := cff.VerifC13StdStrings()
	used := map[string]bool{".notdef": true}
	for i := 0; i < o.nGlyphs; i++ {
		g := glyphSpec{width: mkReal(false, uint64(vlib.Pick(r, widths)), 0), shape: []int{0}}
		if !o.isCID {
			switch {
			case i == 0:
				g.name = ".notdef"
			case o.names == "std" || (o.names == "mixed" && r.Bool()):
				g.name = std[1+(i*7)%(len(std)-1)]
				if used[g.name] {
					g.name = fmt.Sprintf("g%d", i)
				}
			case o.names == "clash" && r.Chance(1, 3): // custom names that look like standard ones
				g.name = vlib.Pick(r, []string{"Space", "a.sc", "zero.alt"}) + fmt.Sprint(i)
			default:
				g.name = fmt.Sprintf("g%d", i)
			}
			used[g.name] = true
		}
		if !o.blank && r.Chance(1, 3) {
			g.shape = []int{1, r.Range(-50, 200), r.Range(-200, 100), r.Range(10, 700), r.Range(10, 900)}
		}
		fs.glyphs = append(fs.glyphs, g)
	}
	if o.bigGlyph > 0 && o.nGlyphs > 1 {
		fs.glyphs[1].shape = []int{2, o.bigGlyph, r.Intn(1000)}
	}
	for i := 0; i < o.nPrivate; i++ {
		fs.privs = append(fs.privs, randPriv(r))
	}
	if o.isCID {
		fs.ros = &cid.SystemInfo{
			Registry:   vlib.Pick(r, []string{"Adobe", "Verif", "Bold"}),
			Ordering:   vlib.Pick(r, []string{"Identity", "Japan1", "Custom-Ordering", "Adobe"}),
			Supplement: int32(vlib.Pick(r, []int{0, 1, 6, 107, 108, r.Range(0, 70000), -1})),
		}
		fs.fds = make([]int, o.nGlyphs)
		switch r.Intn(3) {
		case 0: // blocks
			for i := range fs.fds {
				fs.fds[i] = i * o.nPrivate / o.nGlyphs
			}
		case 1: // random
			for i := range fs.fds {
				fs.fds[i] = r.Intn(o.nPrivate)
			}
		default: // all in the last one
			for i := range fs.fds {
				fs.fds[i] = o.nPrivate - 1
			}
		}
		fs.cids = make([]int, o.nGlyphs)
		switch r.Intn(3) {
		case 0:
			for i := range fs.cids {
				fs.cids[i] = i
			}
		case 1:
			c := 0
			for i := 1; i < o.nGlyphs; i++ {
				c += vlib.Pick(r, []int{1, 1, 1, 2, 5})
				fs.cids[i] = c
			}
		default:
			for i := 1; i < o.nGlyphs; i++ {
				fs.cids[i] = 65536 - o.nGlyphs + i
			}
		}
		for i := 0; i < o.nPrivate; i++ {
			fs.fms = append(fs.fms, vlib.Pick(r, []matrix.Matrix{{0.001, 0, 0, 0.001, 0, 0}, matrix.Identity, {0.0005, 0, 0.0001, 0.0005, 0, 0}, randMatrix(r, false)}))
		}
	} else {
		switch o.encoding {
		case "standard":
			f := fs.font()
			for _, g := range cff.StandardEncoding(f.Glyphs) {
				fs.enc = append(fs.enc, int(g))
			}
		case "expert":
			// glyph names from the expert encoding, so that it is not all zero
			expNames := []string{"space", "exclamsmall", "Hungarumlautsmall", "dollaroldstyle", "dollarsuperior", "ampersandsmall", "Acutesmall",
				"parenleftsuperior", "parenrightsuperior", "twodotenleader", "onedotenleader", "comma", "hyphen", "period", "fraction", "zerooldstyle"}
			for i := 1; i < len(fs.glyphs) && i <= len(expNames); i++ {
				fs.glyphs[i].name = expNames[i-1]
			}
			fs.enc = make([]int, 256)
			for i, g := range fs.glyphs {
				if c, ok := cff.VerifC13bExpertCode(g.name); ok {
					fs.enc[c] = i
				}
			}
		case "custom", "supplement":
			fs.enc = make([]int, 256)
			k := o.nGlyphs - 1
			if k > 200 {
				k = 200
			}
			if k > 0 {
				k = r.Range(1, k)
			}
			code := r.Range(0, 40)
			for g := 1; g <= k; g++ {
				if r.Chance(1, 6) {
					code += r.Range(1, 3) // a new range
				}
				if code > 255 {
					break
				}
				fs.enc[code] = g
				code++
			}
			if o.encoding == "supplement" {
				for c := 255; c > 250; c-- {
					if fs.enc[c] == 0 && k > 0 {
						fs.enc[c] = r.Range(1, k)
						if fs.enc[fs.enc[c]] == 0 && false {
							fs.enc[c] = 0
						}
					}
				}
				// a supplement may only name a glyph that has a first code
				first := map[int]bool{}
				for c := 0; c < 250; c++ {
					first[fs.enc[c]] = true
				}
				for c := 250; c < 256; c++ {
					if !first[fs.enc[c]] {
						fs.enc[c] = 0
					}
				}
			}
		}
	}
	fs.fillCharstrings()
	return fs
}

func genWrite(run *vlib.Run, r *vlib.Rand, tier string) {
	add := func(fs *fontSpec, labels ...string) {
		l := writeLine(fs)
		if len(l) > 3000000 {
			l = "!" + l
			labels = append(labels, "write:oracle-only(size)")
		}
		emit(run, l, true, labels...)
	}
	// small simple fonts: every name / encoding regime
	for _, names := range []string{"std", "custom", "mixed", "clash"} {
		for _, enc := range []string{"none", "standard", "expert", "custom", "supplement"} {
			for i := 0; i < scale(tier, 3, 40); i++ {
				n := vlib.Pick(r, []int{1, 2, 3, r.Range(4, 40), r.Range(41, 300)})
				add(randFontSpec(r, fontOpts{nGlyphs: n, nPrivate: 1, names: names, encoding: enc, fontName: -1}),
					"write:simple", "write:names-"+names, "write:encoding-"+enc)
			}
		}
	}
	// 0..400 custom glyph names
	for _, n := range []int{1, 2, 108, 109, 257, 401} {
		add(randFontSpec(r, fontOpts{nGlyphs: n, nPrivate: 1, names: "custom", encoding: "none", blank: true, fontName: -1}), "write:simple", "write:custom-names-sweep")
	}
	// CID-keyed fonts with 1..256 private dictionaries
	for _, np := range []int{1, 2, 3, 4, 17, 107, 108, 255, 256} {
		for i := 0; i < scale(tier, 2, 10); i++ {
			n := np + r.Range(0, 60)
			add(randFontSpec(r, fontOpts{isCID: true, nGlyphs: n, nPrivate: np, fontName: -1, blank: np > 20}), "write:cid", fmt.Sprintf("write:cid-fds-%d", np))
		}
	}
	for i := 0; i < scale(tier, 10, 200); i++ {
		np := r.Range(1, 12)
		add(randFontSpec(r, fontOpts{isCID: true, nGlyphs: np + r.Range(0, 300), nPrivate: np, fontName: -1}), "write:cid", "write:cid-random")
	}
	// offsets crossing the operand size thresholds: the Notice string moves
	// every later section; the FontName sweep moves them byte by byte so that
	// the offsets of charset, CharStrings and Private DICT cross 107/108,
	// 1131/1132 and 32767/32768 and the fixed point iterates
	for _, base := range []int{0, 1000, 32600} {
		step := scale(tier, 3, 1)
		for k := 0; k < 140; k += step {
			o := fontOpts{nGlyphs: 3, nPrivate: 1, names: "custom", encoding: "custom", blank: true, notice: base, fontName: k, widths: []int{500}}
			fs := randFontSpec(vlib.NewRand(7), o)
			fs.info.Version, fs.info.Copyright, fs.info.FullName, fs.info.FamilyName, fs.info.Weight = "", "", "", "", ""
			add(fs, "write:threshold-sweep", fmt.Sprintf("write:threshold-base-%d", base))
		}
		for k := 0; k < 140; k += 2 * step {
			o := fontOpts{isCID: true, nGlyphs: 4, nPrivate: 2, blank: true, notice: base, fontName: k, widths: []int{500}}
			fs := randFontSpec(vlib.NewRand(9), o)
			fs.info.Version, fs.info.Copyright, fs.info.FullName, fs.info.FamilyName, fs.info.Weight = "", "", "", "", ""
			add(fs, "write:threshold-sweep", fmt.Sprintf("write:threshold-cid-base-%d", base))
		}
	}
	// file size around 256 and 65536 (header offSize), big CharStrings INDEX
	for _, seg := range []int{40, 400, 8000, 20000} {
		add(randFontSpec(r, fontOpts{nGlyphs: 5, nPrivate: 1, names: "mixed", encoding: "none", bigGlyph: seg, fontName: -1}), "write:big-glyph")
		add(randFontSpec(r, fontOpts{isCID: true, nGlyphs: 6, nPrivate: 2, bigGlyph: seg, fontName: -1}), "write:big-glyph")
	}
	for k := 0; k < scale(tier, 12, 60); k++ {
		o := fontOpts{nGlyphs: 2, nPrivate: 1, names: "custom", encoding: "none", blank: true, notice: 65536 - 230 + k*3, fontName: 1, widths: []int{500}}
		add(randFontSpec(vlib.NewRand(11), o), "write:threshold-sweep", "write:threshold-filesize-65536")
	}
	// larger fonts
	for i := 0; i < scale(tier, 3, 30); i++ {
		add(randFontSpec(r, fontOpts{nGlyphs: r.Range(400, 3000), nPrivate: 1, names: "mixed", encoding: "custom", blank: true, fontName: -1}), "write:simple", "write:large")
		np := r.Range(2, 40)
		add(randFontSpec(r, fontOpts{isCID: true, nGlyphs: r.Range(400, 3000), nPrivate: np, blank: true, fontName: -1}), "write:cid", "write:large")
	}
	// fonts Write must refuse or that leave the documented domain
	{
		fs := randFontSpec(r, fontOpts{nGlyphs: 3, nPrivate: 1, names: "custom", encoding: "none", blank: true, fontName: 3})
		fs.glyphs[0].name = "notdef"
		add(fs, "write:refused", "write:no-notdef")
		fs = randFontSpec(r, fontOpts{nGlyphs: 0, nPrivate: 1, names: "custom", encoding: "none", blank: true, fontName: 3})
		add(fs, "write:refused", "write:no-glyphs")
		fs = randFontSpec(r, fontOpts{isCID: true, nGlyphs: 3, nPrivate: 1, blank: true, fontName: 3})
		fs.cids[0] = 5
		add(fs, "write:refused", "write:cid0-not-0")
		fs = randFontSpec(r, fontOpts{nGlyphs: 6, nPrivate: 1, names: "custom", encoding: "none", blank: true, fontName: 3})
		fs.enc = make([]int, 256)
		fs.enc[65], fs.enc[66] = 1, 3 // not contiguous
		add(fs, "write:refused", "write:encoding-not-contiguous")
	}
	if tier == "thorough" {
		// string identifiers beyond 65535: refused; just below: written
		for _, n := range []int{65145, 65146, 65147, 65535} {
			o := fontOpts{nGlyphs: n, nPrivate: 1, names: "custom", encoding: "none", blank: true, fontName: 2, widths: []int{500}}
			fs := randFontSpec(r, o)
			emit(run, "!"+writeLine(fs), true, "write:sid-limit(oracle-only)")
		}
		fs := randFontSpec(r, fontOpts{isCID: true, nGlyphs: 65535, nPrivate: 3, blank: true, fontName: 2, widths: []int{500}})
		emit(run, "!"+writeLine(fs), true, "write:65535-glyphs(oracle-only)")
		// a file beyond 2^24 bytes: header offSize 4, INDEX offsets of 4 bytes
		fs = randFontSpec(r, fontOpts{nGlyphs: 2, nPrivate: 1, names: "custom", encoding: "none", blank: true, notice: 1<<24 + 100, fontName: 2, widths: []int{500}})
		emit(run, "!"+writeLine(fs), true, "write:16MiB(oracle-only)")
	}
}

// ---------------------------------------------------------------------------
// reading
// ---------------------------------------------------------------------------

func readLine(data []byte, expect vlib.Sx) string {
	if expect == nil {
		return vlib.Line(atom("read"), vlib.Hex(data), stdTableSx, expTableSx)
	}
	return vlib.Line(atom("read"), vlib.Hex(data), stdTableSx, expTableSx, expect)
}

func writeBytes(fs *fontSpec) []byte {
	var buf bytes.Buffer
	if err := fs.font().Write(&buf); err != nil {
		return nil
	}
	return buf.Bytes()
}

func genRead(run *vlib.Run, r *vlib.Rand, tier string) {
	// files written by Font.Write
	var bases [][]byte
	for i := 0; i < scale(tier, 40, 600); i++ {
		var o fontOpts
		if r.Chance(1, 2) {
			o = fontOpts{nGlyphs: vlib.Pick(r, []int{1, 2, 5, r.Range(3, 60)}), nPrivate: 1,
				names: vlib.Pick(r, []string{"std", "custom", "mixed", "clash"}),
				encoding: vlib.Pick(r, []string{"none", "standard", "expert", "custom", "supplement"}), blank: r.Chance(3, 4), fontName: -1}
		} else {
			np := vlib.Pick(r, []int{1, 2, 3, r.Range(1, 20)})
			o = fontOpts{isCID: true, nGlyphs: np + r.Range(0, 40), nPrivate: np, blank: r.Chance(3, 4), fontName: -1}
		}
		data := writeBytes(randFontSpec(r, o))
		if data == nil {
			continue
		}
		kind := "read:written-simple"
		if o.isCID {
			kind = "read:written-cid"
		}
		emit(run, readLine(data, nil), true, kind)
		if len(data) < 3000 {
			bases = append(bases, data)
		}
	}
	genAssembled(run, r, tier, &bases)
	// the malformed stream: single-byte changes, truncations, insertions
	nm := scale(tier, 900, 30000)
	for i := 0; i < nm && len(bases) > 0; i++ {
		base := bases[r.Intn(len(bases))]
		data := append([]byte(nil), base...)
		w, _ := walk(base, false)
		label := "read:mutated-byte"
		switch r.Intn(10) {
		case 0:
			data = data[:r.Intn(len(data)+1)]
			label = "read:truncated"
		case 1:
			k := r.Intn(len(data))
			data = append(data[:k:k], data[k+1:]...)
			label = "read:byte-dropped"
		default:
			for tries := 0; tries < 20; tries++ {
				k := r.Intn(len(data))
				if w != nil && insideCharstrings(w, k) {
					continue
				}
				data[k] = vlib.Pick(r, []byte{0, 1, 2, 3, 4, 12, 28, 29, 30, 31, 139, 255, byte(r.Intn(256)), data[k] + 1, data[k] - 1})
				if r.Chance(1, 4) {
					continue // a second change
				}
				break
			}
		}
		l := readLine(data, nil)
		if !charstringsIntact(base, data) || longRealScanFile(data) {
			emit(run, "!"+l, true, label+"(oracle-only)")
			continue
		}
		emit(run, l, true, label)
	}
}

func insideCharstrings(w *walkInfo, k int) bool {
	for _, e := range w.extents {
		if e.name == "CharStrings INDEX" && k >= e.start && k < e.end {
			return true
		}
	}
	return false
}

// charstringsOf: the charstrings Read will decode, found with the package's
// own readIndex / decodeDict.
func charstringsOf(data []byte) (cs [][]byte, ok bool) {
	defer func() {
		if recover() != nil {
			ok = false
		}
	}()
	if len(data) < 4 {
		return nil, false
	}
	_, p, err := cff.VerifC13ReadIndex(data, int64(data[2]))
	if err != nil {
		return nil, false
	}
	tops, p, err := cff.VerifC13ReadIndex(data, p)
	if err != nil || len(tops) != 1 {
		return nil, false
	}
	strs, _, err := cff.VerifC13ReadIndex(data, p)
	if err != nil {
		return nil, false
	}
	ss := make([]string, len(strs))
	for i, s := range strs {
		ss[i] = string(s)
	}
	top, err := cff.VerifC13DecodeDict(tops[0], ss)
	if err != nil {
		return nil, false
	}
	v := top[17]
	if len(v) != 1 {
		return nil, false
	}
	o, isInt := v[0].(int32)
	if !isInt || o < 4 {
		return nil, false
	}
	cs, _, err = cff.VerifC13ReadIndex(data, int64(o))
	return cs, err == nil
}

// charstringsIntact: either Read cannot reach any charstrings (it fails before
// decoding them) or it reaches exactly those of the unchanged file; only then
// does the model, for which charstrings are opaque, predict Read's verdict.
func charstringsIntact(base, data []byte) bool {
	got, ok := charstringsOf(data)
	if !ok {
		return true
	}
	want, ok := charstringsOf(base)
	if !ok || len(got) != len(want) {
		return false
	}
	for i := range got {
		if !bytes.Equal(got[i], want[i]) {
			return false
		}
	}
	return true
}

// longRealScanFile: some real operand anywhere in the file has more than 15
// significant digits (float64 does not identify such a decimal)
func longRealScanFile(data []byte) bool { return longRealScan(data) }
