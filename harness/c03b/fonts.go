package c03b

// Font recipes: how a font value is built, so that a case line can be
// re-executed.  Bases:
//
//	go     the Go Regular TrueType file, read by sfnt.Read, cut to a few glyphs
//	       by Font.Subset (raw tables cvt/fpgm/prep/gasp, synthesised GSUB)
//	ttf    C03's synthetic TrueType font of n triangles, built in memory
//	ttfL   the same with a glyf table of 131074 bytes: head.indexToLocFormat = 1
//	cff    debug.MakeSimpleFont (CFF, simple), time stamps pinned
//	cffs   C03's synthetic CFF font of n triangles
//	cid    the same, CID-keyed with two private dictionaries
//
// and switches applied to it (see parseRecipe).

import (
	"bytes"
	"errors"
	"fmt"
	"sync"
	"time"

	"golang.org/x/image/font/gofont/goregular"

	"seehuhn.de/go/geom/matrix"
	"seehuhn.de/go/postscript/cid"
	"seehuhn.de/go/postscript/type1"
	"seehuhn.de/go/sfnt"
	"seehuhn.de/go/sfnt/cff"
	"seehuhn.de/go/sfnt/glyf"
	"seehuhn.de/go/sfnt/glyph"
	"seehuhn.de/go/sfnt/internal/debug"
	"seehuhn.de/go/sfnt/opentype/classdef"
	"seehuhn.de/go/sfnt/opentype/gdef"
	"seehuhn.de/go/sfnt/opentype/gtab"
	"seehuhn.de/go/sfnt/verifharness/c03"
	"seehuhn.de/go/sfnt/verifharness/vlib"
)

type recipe struct {
	base     string
	n        int  // glyph count of the synthetic bases
	file     bool // written by Font.Write and read back by sfnt.Read before the switches are applied
	noCmap   bool
	gdef     int // 0 as built, 1 set, 2 nil
	gsub     int
	gpos     int
	noWidths bool   // TrueType outlines: Widths = nil
	tmode    string // keep | nil | empty | set
	tables   []tabEntry
	cffErr   bool // glyph 0 is not .notdef: the CFF encoder refuses
	noOutl   bool // f.Outlines = nil
}

func (rc *recipe) sx() vlib.Sx {
	return vlib.L(vlib.Atom("r"), vlib.Atom(rc.base), vlib.Int(rc.n), vlib.Bool(rc.file), vlib.Bool(rc.noCmap),
		vlib.Int(rc.gdef), vlib.Int(rc.gsub), vlib.Int(rc.gpos), vlib.Bool(rc.noWidths),
		vlib.Atom(rc.tmode), tabsSx(rc.tables), vlib.Bool(rc.cffErr), vlib.Bool(rc.noOutl))
}

func parseRecipe(x vlib.Sx) (*recipe, error) {
	l, err := vlib.AsList(x)
	if err != nil || len(l) != 13 {
		return nil, errors.New("bad recipe")
	}
	if a, _ := vlib.AsAtom(l[0]); a != "r" {
		return nil, errors.New("bad recipe")
	}
	rc := &recipe{}
	if rc.base, err = vlib.AsAtom(l[1]); err != nil {
		return nil, err
	}
	if rc.n, err = vlib.AsInt(l[2]); err != nil {
		return nil, err
	}
	bs := []*bool{&rc.file, &rc.noCmap, nil, nil, nil, &rc.noWidths, nil, nil, &rc.cffErr, &rc.noOutl}
	for i, p := range bs {
		if p == nil {
			continue
		}
		if *p, err = vlib.AsBool(l[3+i]); err != nil {
			return nil, err
		}
	}
	for i, p := range []*int{&rc.gdef, &rc.gsub, &rc.gpos} {
		if *p, err = vlib.AsInt(l[5+i]); err != nil {
			return nil, err
		}
	}
	if rc.tmode, err = vlib.AsAtom(l[9]); err != nil {
		return nil, err
	}
	tl, err := vlib.AsList(l[10])
	if err != nil {
		return nil, err
	}
	for _, t := range tl {
		p, err := vlib.AsList(t)
		if err != nil || len(p) != 2 {
			return nil, errors.New("bad table entry")
		}
		k, err := vlib.AsBytes(p[0])
		if err != nil {
			return nil, err
		}
		var data []byte
		if a, err := vlib.AsAtom(p[1]); err == nil && a == "nil" {
			data = nil
		} else {
			data, err = vlib.AsBytes(p[1])
			if err != nil {
				return nil, err
			}
			if data == nil {
				data = []byte{}
			}
		}
		rc.tables = append(rc.tables, tabEntry{string(k), data})
	}
	return rc, nil
}

// debug.MakeSimpleFont stamps the font with time.Now(), and a font without any
// time stamp gets today's date into its name table: every font is pinned.
var pinned = time.Date(2024, 5, 17, 12, 0, 0, 0, time.UTC)

var (
	goOnce sync.Once
	goFile []byte // the subset of Go Regular, as a file
	goErr  error
)

func goSubsetFile() ([]byte, error) {
	goOnce.Do(func() {
		f, err := sfnt.Read(bytes.NewReader(goregular.TTF))
		if err != nil {
			goErr = err
			return
		}
		sub := f.Subset([]glyph.ID{0, 1, 2, 3, 36, 37, 38, 39, 40, 68, 69, 70})
		sub.CreationTime, sub.ModificationTime = pinned, pinned
		// the hinting program of Go Regular is 3.6 KB: keep the case lines short
		if o, ok := sub.Outlines.(*glyf.Outlines); ok {
			if p, ok := o.Tables["fpgm"]; ok && len(p) > 64 {
				o.Tables["fpgm"] = p[:64]
			}
		}
		buf := &bytes.Buffer{}
		if _, err := sub.Write(buf); err != nil {
			goErr = err
			return
		}
		goFile = buf.Bytes()
	})
	return goFile, goErr
}

func minimalGtab() *gtab.Info {
	return &gtab.Info{
		ScriptList:  gtab.ScriptListInfo{},
		FeatureList: gtab.FeatureListInfo{},
		LookupList:  gtab.LookupList{},
	}
}

func (rc *recipe) build() (f *sfnt.Font, err error) {
	defer func() {
		if e := recover(); e != nil {
			err = fmt.Errorf("panic while building the font: %v", e)
		}
	}()
	n := rc.n
	if n <= 0 {
		n = 5
	}
	switch rc.base {
	case "go":
		b, err := goSubsetFile()
		if err != nil {
			return nil, err
		}
		if f, err = sfnt.Read(bytes.NewReader(b)); err != nil {
			return nil, err
		}
	case "ttf":
		if f, err = c03.SynthTTF(n); err != nil {
			return nil, err
		}
	case "ttfL":
		if f, err = c03.SynthTTFSized(n, 131074); err != nil {
			return nil, err
		}
	case "cff":
		f = debug.MakeSimpleFont()
	case "cffs", "cid":
		if f, err = c03.SynthCFF(n); err != nil {
			return nil, err
		}
		if rc.base == "cid" {
			o := f.Outlines.(*cff.Outlines)
			o.ROS = &cid.SystemInfo{Registry: "Adobe", Ordering: "Identity", Supplement: 0}
			o.GIDToCID = make([]cid.CID, len(o.Glyphs))
			for i := range o.GIDToCID {
				o.GIDToCID[i] = cid.CID(i)
			}
			o.Encoding = nil
			o.Private = append(o.Private, &type1.PrivateDict{BlueScale: 0.039625, BlueShift: 7, BlueFuzz: 1, StdHW: 40})
			o.FontMatrices = []matrix.Matrix{{1, 0, 0, 1, 0, 0}, {1, 0, 0, 1, 0, 0}}
			o.FDSelect = func(g glyph.ID) int { return int(g) % 2 }
		}
	default:
		return nil, errors.New("unknown base font " + rc.base)
	}
	f.CreationTime, f.ModificationTime = pinned, pinned
	if rc.file && rc.base != "go" {
		buf := &bytes.Buffer{}
		if _, err := f.Write(buf); err != nil {
			return nil, err
		}
		if f, err = sfnt.Read(bytes.NewReader(buf.Bytes())); err != nil {
			return nil, err
		}
	}
	if rc.noCmap {
		f.CMapTable = nil
	}
	switch rc.gdef {
	case 1:
		f.Gdef = &gdef.Table{GlyphClass: classdef.Table{1: gdef.GlyphClassBase}}
	case 2:
		f.Gdef = nil
	}
	switch rc.gsub {
	case 1:
		f.Gsub = minimalGtab()
	case 2:
		f.Gsub = nil
	}
	switch rc.gpos {
	case 1:
		f.Gpos = minimalGtab()
	case 2:
		f.Gpos = nil
	}
	if o, ok := f.Outlines.(*glyf.Outlines); ok {
		if rc.noWidths {
			o.Widths = nil
		}
		switch rc.tmode {
		case "nil":
			o.Tables = nil
		case "empty":
			o.Tables = map[string][]byte{}
		case "set":
			// the entries are adjacent sub-slices of one array, the way tables cut
			// out of a file are; spare capacity behind each
			total := 0
			for _, t := range rc.tables {
				total += len(t.data)
			}
			arena := make([]byte, total+4)
			pos := 0
			o.Tables = map[string][]byte{}
			for _, t := range rc.tables {
				if t.data == nil {
					o.Tables[t.key] = nil
					continue
				}
				copy(arena[pos:], t.data)
				o.Tables[t.key] = arena[pos : pos+len(t.data)]
				pos += len(t.data)
			}
		}
	}
	if o, ok := f.Outlines.(*cff.Outlines); ok && rc.cffErr && o.ROS == nil && len(o.Glyphs) > 0 {
		g := *o.Glyphs[0]
		g.Name = "notnotdef"
		o.Glyphs[0] = &g
	}
	if rc.noOutl {
		f.Outlines = nil
	}
	return f, nil
}
