// Package c03b is part C03B of property C03: the table-map ASSEMBLY of the
// three font writers of /repo/write.go - (*Font).Write, (*Font).WriteTrueTypePDF
// and (*Font).WriteOpenTypeCFFPDF - is compared with the extracted model of
// coq/C03B (which tables go into the file under which condition, what the raw
// tables of the outlines and the extraTables arguments override or remove, the
// scaler type, panics and errors), composed with C03's model of header.Write.
//
// A case is a font RECIPE (how to build the font value), a writer and an
// extraTables list.  The case line carries, for the model, the description
// the assembly can observe (outline kind, which optional parts are nil, the
// raw table map, the bytes every table maker returns - obtained through the
// VerifC03b hooks and the public encoders) and, for re-execution, the recipe.
//
// The oracle states the property on the real bytes: C03's independent
// structural walk accepts the file; header.Read returns exactly the tables a
// specification written on its own (spec.go: required tables per writer and
// outline kind, optional ones iff their source exists, overrides in the
// documented order, nil removes) says, byte for byte up to head's checksum
// adjustment; a minimal reader agrees on glyph count and units per em where
// the tables exist; a PDF writer's tables are the full writer's; the caller's
// byte slices are left alone.
package c03b

import (
	"bytes"
	"crypto/md5"
	"encoding/binary"
	"encoding/hex"
	"errors"
	"fmt"
	"sort"
	"strings"

	"seehuhn.de/go/sfnt"
	"seehuhn.de/go/sfnt/cff"
	"seehuhn.de/go/sfnt/glyf"
	"seehuhn.de/go/sfnt/header"
	"seehuhn.de/go/sfnt/maxp"
	"seehuhn.de/go/sfnt/verifharness/c03"
	"seehuhn.de/go/sfnt/verifharness/vlib"
)

const (
	sigOutcome  = "c03b-writer-outcome"
	sigWalk     = "c03b-container-not-well-formed"
	sigReadBack = "c03b-read-back"
	sigTableSet = "c03b-table-set"
	sigCount    = "c03b-byte-count"
	sigGlyphs   = "c03b-independent-reader"
	sigSubset   = "c03b-pdf-not-subset-of-full-writer"
	sigModifies = "c03b-writer-modifies-caller-data"
	sigErrOut   = "c03b-error-after-output"
	sigRepeat   = "c03b-second-call-differs"
)

// the 14 table sources, in the order of the model's [src] type
const (
	sHhea = iota
	sHmtx
	sCmap
	sOS2
	sName
	sPost
	sCff
	sGlyf
	sLoca
	sMaxp
	sHead
	sGdef
	sGsub
	sGpos
	nSrc
)

type tabEntry struct {
	key  string
	data []byte // nil = nil slice
}

// what the assembly can observe of a font
type desc struct {
	kind    string // glyf | cff | none
	widths  bool
	cmap    bool
	gdef    bool
	gsub    bool
	gpos    bool
	cffErr  bool
	tables  []tabEntry // sorted by key
	enc     [nSrc][]byte
	glyphs  int
	upem    uint16
	hmtxNil bool // what makeHmtx really returned (the model predicts it from kind/widths)
}

type extra struct {
	kind byte   // 's' string, 'b' []byte, 'o' other
	data []byte // nil for a nil []byte
}

func quiet(f func()) (panicked bool) {
	defer func() {
		if e := recover(); e != nil {
			panicked = true
		}
	}()
	f()
	return false
}

// describe derives the description from the font value, through the hooks
// (the unexported table makers) and the public encoders the writers call.
func describe(f *sfnt.Font) *desc {
	d := &desc{kind: "none"}
	d.cmap = f.CMapTable != nil
	d.gdef, d.gsub, d.gpos = f.Gdef != nil, f.Gsub != nil, f.Gpos != nil
	var locaFormat int16
	var ttf *maxp.TTFInfo
	switch o := f.Outlines.(type) {
	case *glyf.Outlines:
		d.kind = "glyf"
		d.widths = o.Widths != nil
		for k, v := range o.Tables {
			d.tables = append(d.tables, tabEntry{k, v})
		}
		sort.Slice(d.tables, func(i, j int) bool { return d.tables[i].key < d.tables[j].key })
		quiet(func() {
			enc := o.Glyphs.Encode()
			d.enc[sGlyf], d.enc[sLoca] = enc.GlyfData, enc.LocaData
			locaFormat = enc.LocaFormat
		})
		ttf = o.Maxp
	case *cff.Outlines:
		d.kind = "cff"
		quiet(func() {
			b, err := f.VerifC03bMakeCFF(o)
			d.cffErr = err != nil
			d.enc[sCff] = b
		})
	}
	if d.kind == "none" {
		return d
	}
	quiet(func() {
		d.enc[sHhea], d.enc[sHmtx] = f.VerifC03bMakeHmtx()
		d.hmtxNil = d.enc[sHmtx] == nil
	})
	if d.cmap {
		quiet(func() { d.enc[sCmap] = f.CMapTable.Encode() })
	}
	quiet(func() { d.enc[sOS2] = f.VerifC03bMakeOS2() })
	quiet(func() { d.enc[sName] = f.VerifC03bMakeName() })
	quiet(func() { d.enc[sPost] = f.VerifC03bMakePost() })
	quiet(func() {
		d.glyphs = f.NumGlyphs()
		d.enc[sMaxp] = (&maxp.Info{NumGlyphs: f.NumGlyphs(), TTF: ttf}).Encode()
	})
	quiet(func() { d.enc[sHead] = f.VerifC03bMakeHead(locaFormat) })
	if d.gdef {
		quiet(func() { d.enc[sGdef] = f.Gdef.Encode() })
	}
	if d.gsub {
		quiet(func() { d.enc[sGsub] = f.Gsub.Encode() })
	}
	if d.gpos {
		quiet(func() { d.enc[sGpos] = f.Gpos.Encode() })
	}
	d.upem = f.UnitsPerEm
	return d
}

func hexOrNil(b []byte) vlib.Sx {
	if b == nil {
		return vlib.Atom("nil")
	}
	return vlib.Hex(b)
}

func tabsSx(ts []tabEntry) vlib.Sx {
	l := vlib.List{}
	for _, t := range ts {
		l = append(l, vlib.L(vlib.Hex([]byte(t.key)), hexOrNil(t.data)))
	}
	return l
}

func extrasSx(ex []extra) vlib.Sx {
	l := vlib.List{}
	for _, e := range ex {
		switch e.kind {
		case 's':
			l = append(l, vlib.L(vlib.Atom("s"), vlib.Hex(e.data)))
		case 'b':
			l = append(l, vlib.L(vlib.Atom("b"), hexOrNil(e.data)))
		default:
			l = append(l, vlib.Atom("o"))
		}
	}
	return l
}

func parseExtras(x vlib.Sx) ([]extra, error) {
	l, err := vlib.AsList(x)
	if err != nil {
		return nil, err
	}
	var out []extra
	for _, e := range l {
		if a, err := vlib.AsAtom(e); err == nil {
			if a != "o" {
				return nil, errors.New("bad extra " + a)
			}
			out = append(out, extra{kind: 'o'})
			continue
		}
		p, err := vlib.AsList(e)
		if err != nil || len(p) != 2 {
			return nil, errors.New("bad extra")
		}
		k, err := vlib.AsAtom(p[0])
		if err != nil {
			return nil, err
		}
		var data []byte
		if a, err := vlib.AsAtom(p[1]); err == nil && a == "nil" {
			data = nil
		} else {
			data, err = vlib.AsBytes(p[1])
			if err != nil {
				return nil, err
			}
			if data == nil {
				data = []byte{}
			}
		}
		switch k {
		case "s":
			out = append(out, extra{kind: 's', data: data})
		case "b":
			out = append(out, extra{kind: 'b', data: data})
		default:
			return nil, errors.New("bad extra kind " + k)
		}
	}
	return out, nil
}

// caseLine: the description for the model, the recipe for re-execution.
func caseLine(w string, d *desc, ex []extra, rc *recipe) string {
	encs := vlib.List{}
	for _, b := range d.enc {
		encs = append(encs, vlib.Hex(b))
	}
	return vlib.Line(vlib.Atom("asm"), vlib.Atom(w), vlib.Atom(d.kind),
		vlib.Bool(d.widths), vlib.Bool(d.cmap), vlib.Bool(d.gdef), vlib.Bool(d.gsub), vlib.Bool(d.gpos),
		vlib.Bool(d.cffErr), tabsSx(d.tables), encs, extrasSx(ex), rc.sx())
}

// ---------------------------------------------------------------- running a writer

type result struct {
	out      []byte
	n        int64
	err      error
	panicked bool
	hasN     bool
}

// goExtras turns the extras into the []any a caller would pass: byte slices
// are adjacent sub-slices of one arena (spare capacity, sentinel bytes
// behind), values of another type rotate through an int, the untyped nil and
// a []string.
func goExtras(ex []extra) (args []any, arena []byte, spans [][2]int) {
	total := 0
	for _, e := range ex {
		if e.kind == 'b' && e.data != nil {
			total += len(e.data)
		}
	}
	arena = make([]byte, total+8)
	for i := total; i < len(arena); i++ {
		arena[i] = 0xA5
	}
	pos, others := 0, 0
	for _, e := range ex {
		switch e.kind {
		case 's':
			args = append(args, string(e.data))
			spans = append(spans, [2]int{-1, -1})
		case 'b':
			if e.data == nil {
				args = append(args, []byte(nil))
				spans = append(spans, [2]int{-1, -1})
			} else {
				copy(arena[pos:], e.data)
				args = append(args, arena[pos:pos+len(e.data)]) // cap runs to the end of the arena
				spans = append(spans, [2]int{pos, pos + len(e.data)})
				pos += len(e.data)
			}
		default:
			switch others % 3 {
			case 0:
				args = append(args, 7)
			case 1:
				args = append(args, nil)
			default:
				args = append(args, []string{"x"})
			}
			others++
			spans = append(spans, [2]int{-1, -1})
		}
	}
	return args, arena, spans
}

func runWriter(f *sfnt.Font, w string, args []any) (res result) {
	buf := &bytes.Buffer{}
	defer func() {
		if e := recover(); e != nil {
			res = result{out: buf.Bytes(), panicked: true}
		}
	}()
	switch w {
	case "full":
		n, err := f.Write(buf)
		res = result{out: buf.Bytes(), n: n, err: err, hasN: true}
	case "ttpdf":
		n, err := f.WriteTrueTypePDF(buf, args...)
		res = result{out: buf.Bytes(), n: n, err: err, hasN: true}
	case "cffpdf":
		err := f.WriteOpenTypeCFFPDF(buf)
		res = result{out: buf.Bytes(), err: err}
	default:
		panic("unknown writer " + w)
	}
	return res
}

func md5hex(b []byte) string {
	s := md5.Sum(b)
	return hex.EncodeToString(s[:])
}

// obs prints the observation in the syntax of the model driver: the file is
// parsed here directly (offset table and directory as the bytes have them).
func (r result) obs() string {
	if r.panicked {
		return "panic"
	}
	if r.err != nil {
		return "err"
	}
	b := r.out
	if len(b) < 12 {
		return "(bad short)"
	}
	n := int(binary.BigEndian.Uint16(b[4:]))
	if len(b) < 12+16*n {
		return "(bad directory)"
	}
	dir := vlib.List{}
	for i := 0; i < n; i++ {
		e := b[12+16*i:]
		off := uint64(binary.BigEndian.Uint32(e[8:]))
		l := uint64(binary.BigEndian.Uint32(e[12:]))
		var body []byte
		if off <= uint64(len(b)) {
			end := off + l
			if end > uint64(len(b)) {
				end = uint64(len(b))
			}
			body = b[off:end]
		}
		dir = append(dir, vlib.L(vlib.Hex(e[:4]), vlib.U64(off), vlib.U64(l),
			vlib.U64(uint64(binary.BigEndian.Uint32(e[4:]))), vlib.Atom(md5hex(body))))
	}
	return vlib.Str(vlib.L(vlib.Atom("ok"),
		vlib.U64(uint64(binary.BigEndian.Uint32(b))), vlib.Int(n),
		vlib.Int(int(binary.BigEndian.Uint16(b[6:]))), vlib.Int(int(binary.BigEndian.Uint16(b[8:]))),
		vlib.Int(int(binary.BigEndian.Uint16(b[10:]))), vlib.Int(len(b)), dir, vlib.Atom(md5hex(b))))
}

// ---------------------------------------------------------------- oracle

func eqExceptAdj(a, b []byte, name string) bool {
	if len(a) != len(b) {
		return false
	}
	if name == "head" && len(a) >= 12 {
		return bytes.Equal(a[:8], b[:8]) && bytes.Equal(a[12:], b[12:])
	}
	return bytes.Equal(a, b)
}

func readBack(out []byte) (scaler uint32, tabs map[string][]byte, err error) {
	defer func() {
		if e := recover(); e != nil {
			err = fmt.Errorf("panic in header.Read: %v", e)
		}
	}()
	r := bytes.NewReader(out)
	info, err := header.Read(r)
	if err != nil {
		return 0, nil, err
	}
	tabs = map[string][]byte{}
	for name := range info.Toc {
		b, err := info.ReadTableBytes(r, name)
		if err != nil {
			return 0, nil, fmt.Errorf("ReadTableBytes(%q): %v", name, err)
		}
		tabs[name] = b
	}
	return info.ScalerType, tabs, nil
}

func names(m map[string][]byte) string {
	var l []string
	for k := range m {
		l = append(l, fmt.Sprintf("%q", k))
	}
	sort.Strings(l)
	return strings.Join(l, " ")
}

// oracle: the property on the real bytes.  d was taken from the font BEFORE
// the call; f is the font the writer was called on.
func oracle(f *sfnt.Font, d *desc, w string, ex []extra, res result) (detail, sig string) {
	want, outcome := specTables(d, w, ex)
	got := "ok"
	if res.panicked {
		got = "panic"
	} else if res.err != nil {
		got = "err"
	}
	if got != outcome {
		return fmt.Sprintf("the writer ended with %s, the documentation says %s", got, outcome), sigOutcome
	}
	switch got {
	case "panic":
		return "", ""
	case "err":
		if len(res.out) != 0 || res.n != 0 {
			return fmt.Sprintf("error returned after %d bytes were written (count %d)", len(res.out), res.n), sigErrOut
		}
		return "", ""
	}
	out := res.out
	if res.hasN && res.n != int64(len(out)) {
		return fmt.Sprintf("count %d, %d bytes written", res.n, len(out)), sigCount
	}
	if err := c03.Walk(out); err != nil {
		return "structural walk: " + err.Error(), sigWalk
	}
	scaler, tabs, err := readBack(out)
	if err != nil {
		// header.Read wants printable names and at most 280 tables
		if allPrintable(want) && len(want) <= 280 {
			return "header.Read rejects the written file: " + err.Error(), sigReadBack
		}
		t2, err2 := c03.TablesOf(out)
		if err2 != nil {
			return "independent slicer: " + err2.Error(), sigReadBack
		}
		tabs, scaler = t2, binary.BigEndian.Uint32(out)
	}
	wantScaler := uint32(header.ScalerTypeTrueType)
	if d.kind == "cff" {
		wantScaler = header.ScalerTypeCFF
	}
	if scaler != wantScaler {
		return fmt.Sprintf("scaler type %#x, want %#x", scaler, wantScaler), sigTableSet
	}
	if len(tabs) != len(want) {
		return fmt.Sprintf("file holds %s, the writer's table set is %s", names(tabs), names(want)), sigTableSet
	}
	for name, body := range want {
		g, ok := tabs[name]
		if !ok {
			return fmt.Sprintf("table %q missing; file holds %s", name, names(tabs)), sigTableSet
		}
		if !eqExceptAdj(g, body, name) {
			return fmt.Sprintf("table %q read back with other bytes (%d, want %d)", name, len(g), len(body)), sigReadBack
		}
	}
	// independent minimal reader, where the library's own tables are in the file
	own := func(name string, s int) bool {
		b, ok := want[name]
		return ok && d.enc[s] != nil && bytes.Equal(b, d.enc[s])
	}
	if own("maxp", sMaxp) {
		mx := tabs["maxp"]
		if len(mx) < 6 || int(binary.BigEndian.Uint16(mx[4:])) != d.glyphs {
			return fmt.Sprintf("maxp.numGlyphs read from the file differs from NumGlyphs() = %d", d.glyphs), sigGlyphs
		}
	}
	if own("head", sHead) {
		hd := tabs["head"]
		if len(hd) < 54 || binary.BigEndian.Uint32(hd[12:]) != 0x5F0F3CF5 || binary.BigEndian.Uint16(hd[18:]) != d.upem {
			return fmt.Sprintf("head.unitsPerEm read from the file differs from UnitsPerEm = %d", d.upem), sigGlyphs
		}
	}
	if own("CFF ", sCff) {
		cnt, err := c03.CFFCharStringsCount(tabs["CFF "])
		if err != nil || cnt != d.glyphs {
			return fmt.Sprintf("CharStrings INDEX of the file: %d entries (%v), NumGlyphs() = %d", cnt, err, d.glyphs), sigGlyphs
		}
	}
	full := own("maxp", sMaxp) && own("head", sHead) && own("hhea", sHhea) && own("hmtx", sHmtx) &&
		((own("glyf", sGlyf) && own("loca", sLoca)) || own("CFF ", sCff))
	if full {
		cnt, err := c03.GlyphTablesWalk(out)
		if err != nil || cnt != d.glyphs {
			return fmt.Sprintf("glyph tables walk: %d glyphs (%v), NumGlyphs() = %d", cnt, err, d.glyphs), sigGlyphs
		}
	}
	return "", ""
}

func allPrintable(m map[string][]byte) bool {
	for k := range m {
		for i := 0; i < len(k); i++ {
			if k[i] < 0x20 || k[i] > 0x7e {
				return false
			}
		}
	}
	return true
}

// subsetOracle: the tables a PDF writer wrote (no extra tables) are the
// tables Font.Write writes for the same font, byte for byte, head up to the
// checksum adjustment - except a GDEF/GSUB/GPOS taken from the raw tables
// while the font has layout data of its own.
func subsetOracle(f *sfnt.Font, d *desc, pdf []byte) string {
	fw := runWriter(f, "full", nil)
	if fw.panicked || fw.err != nil {
		return "Font.Write fails on a font the PDF writer accepted"
	}
	a, err := c03.TablesOf(pdf)
	if err != nil {
		return err.Error()
	}
	b, err := c03.TablesOf(fw.out)
	if err != nil {
		return err.Error()
	}
	if binary.BigEndian.Uint32(pdf) != binary.BigEndian.Uint32(fw.out) {
		return "scaler types differ"
	}
	for name, body := range a {
		if (name == "GDEF" && d.gdef) || (name == "GSUB" && d.gsub) || (name == "GPOS" && d.gpos) {
			continue
		}
		g, ok := b[name]
		if !ok {
			return fmt.Sprintf("table %q of the PDF file is not in the file Font.Write writes", name)
		}
		if !eqExceptAdj(body, g, name) {
			return fmt.Sprintf("table %q differs between the PDF file and the file Font.Write writes", name)
		}
	}
	return ""
}

// ---------------------------------------------------------------- one case

type caseOut struct {
	line, impl, fail, sig string
	labels                []string
	nontrivial            bool
}

func runCase(rc *recipe, w string, ex []extra) (co caseOut, err error) {
	f, err := rc.build()
	if err != nil {
		return co, err
	}
	d := describe(f)
	co.line = caseLine(w, d, ex, rc)
	args, arena, spans := goExtras(ex)
	arenaBefore := append([]byte(nil), arena...)
	var tabsBefore map[string][]byte
	if o, ok := f.Outlines.(*glyf.Outlines); ok {
		tabsBefore = map[string][]byte{}
		for k, v := range o.Tables {
			if v != nil {
				tabsBefore[k] = append([]byte{}, v...)
			}
		}
	}
	var useArgs []any
	if w == "ttpdf" {
		useArgs = args
	}
	res := runWriter(f, w, useArgs)
	co.impl = res.obs()
	co.fail, co.sig = oracle(f, d, w, ex, res)
	ok := !res.panicked && res.err == nil

	// the caller's data: extras (head's adjustment field excepted) and raw tables
	if co.fail == "" && w == "ttpdf" {
		for i, sp := range spans {
			if sp[0] < 0 {
				continue
			}
			isHead := i > 0 && ex[i-1].kind == 's' && string(ex[i-1].data) == "head" && i%2 == 1
			for j := sp[0]; j < sp[1]; j++ {
				if arena[j] != arenaBefore[j] && !(isHead && j-sp[0] >= 8 && j-sp[0] < 12) {
					co.fail, co.sig = fmt.Sprintf("extraTables argument %d changed at byte %d", i, j-sp[0]), sigModifies
				}
			}
		}
		for j := len(arena) - 8; j < len(arena) && j >= 0; j++ {
			if arena[j] != 0xA5 {
				co.fail, co.sig = "bytes behind the extraTables slices were written", sigModifies
			}
		}
	}
	if co.fail == "" {
		if o, isGlyf := f.Outlines.(*glyf.Outlines); isGlyf {
			for k, v := range tabsBefore {
				if !bytes.Equal(o.Tables[k], v) {
					co.fail, co.sig = fmt.Sprintf("Outlines.Tables[%q] was modified", k), sigModifies
				}
			}
		}
	}
	// the same call again on the same font value with the same arguments (a
	// caller-supplied head now carries the adjustment of the first call)
	if co.fail == "" {
		first := append([]byte(nil), res.out...)
		again := runWriter(f, w, useArgs)
		if again.obs() != co.impl || !bytes.Equal(again.out, first) {
			co.fail, co.sig = "a second call with the same arguments gives another result", sigRepeat
		}
	}
	if co.fail == "" && ok && w != "full" && len(ex) == 0 {
		if s := subsetOracle(f, d, res.out); s != "" {
			co.fail, co.sig = s, sigSubset
		}
	}

	// labels
	lab := []string{"writer:" + w, "kind:" + d.kind, "outcome:" + strings.SplitN(strings.Trim(co.impl, "()"), " ", 2)[0]}
	if d.kind == "glyf" {
		lab = append(lab, fmt.Sprintf("widths:%v", d.widths), fmt.Sprintf("raw-tables:%s", bucket(len(d.tables))))
		for _, t := range d.tables {
			if t.data == nil {
				lab = append(lab, "raw-table-nil")
			}
			if len(t.key) != 4 {
				lab = append(lab, "raw-table-name-not-4")
			}
			if isLiteral(t.key) {
				lab = append(lab, "raw-table-overrides:"+t.key)
			}
		}
	}
	lab = append(lab, fmt.Sprintf("cmap:%v", d.cmap), fmt.Sprintf("layout:%v%v%v", b2i(d.gdef), b2i(d.gsub), b2i(d.gpos)))
	if d.cffErr {
		lab = append(lab, "cff-encode-error")
	}
	if w == "ttpdf" {
		lab = append(lab, "extras:"+bucket(len(ex)))
		if len(ex)%2 == 1 {
			lab = append(lab, "extras-odd")
		}
		for i, e := range ex {
			switch {
			case e.kind == 'o':
				lab = append(lab, "extras-other-type")
			case e.kind == 'b' && e.data == nil:
				lab = append(lab, "extras-nil-slice")
			case e.kind == 's' && i%2 == 0 && len(e.data) != 4:
				lab = append(lab, "extras-name-not-4")
			case e.kind == 's' && i%2 == 0 && isLiteral(string(e.data)):
				lab = append(lab, "extras-overrides:"+string(e.data))
			case e.kind == 's' && i%2 == 1, e.kind == 'b' && i%2 == 0:
				lab = append(lab, "extras-wrong-position")
			}
		}
	}
	lab = append(lab, "font:"+rc.base)
	if rc.file || rc.base == "go" {
		lab = append(lab, "font-read-from-file")
	} else {
		lab = append(lab, "font-built-in-memory")
	}
	co.labels = lab
	co.nontrivial = ok
	return co, nil
}

func b2i(b bool) int {
	if b {
		return 1
	}
	return 0
}

func bucket(n int) string {
	switch {
	case n == 0:
		return "0"
	case n <= 2:
		return "1-2"
	case n <= 6:
		return "3-6"
	default:
		return "7+"
	}
}

var literalNames = []string{"hhea", "hmtx", "cmap", "OS/2", "name", "post", "CFF ", "glyf", "loca", "maxp", "head", "GDEF", "GSUB", "GPOS"}

func isLiteral(s string) bool {
	for _, l := range literalNames {
		if s == l {
			return true
		}
	}
	return false
}

// RunCase re-executes one case line:
//
//	asm WRITER <description ...> EXTRAS RECIPE      (the description is rebuilt from the recipe)
//	!font RECIPE WRITER EXTRAS                      (oracle only)
func RunCase(line string) (impl, fail, sig string, err error) {
	oracleOnly := strings.HasPrefix(line, "!")
	xs, err := vlib.Parse(strings.TrimPrefix(line, "!"))
	if err != nil {
		return "", "", "", err
	}
	var rcx, wx, exx vlib.Sx
	switch {
	case oracleOnly && len(xs) == 4:
		rcx, wx, exx = xs[1], xs[2], xs[3]
	case !oracleOnly && len(xs) == 13:
		wx, exx, rcx = xs[1], xs[11], xs[12]
	default:
		return "", "", "", errors.New("unknown case line")
	}
	w, err := vlib.AsAtom(wx)
	if err != nil {
		return "", "", "", err
	}
	if w != "full" && w != "ttpdf" && w != "cffpdf" {
		return "", "", "", errors.New("unknown writer " + w)
	}
	ex, err := parseExtras(exx)
	if err != nil {
		return "", "", "", err
	}
	rc, err := parseRecipe(rcx)
	if err != nil {
		return "", "", "", err
	}
	co, err := runCase(rc, w, ex)
	if err != nil {
		return "", "", "", err
	}
	return co.impl, co.fail, co.sig, nil
}
