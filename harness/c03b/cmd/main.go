package main

import (
	"seehuhn.de/go/sfnt/verifharness/c03b"
	"seehuhn.de/go/sfnt/verifharness/vlib"
)

func main() { vlib.Main(c03b.Gen, c03b.RunCase) }
