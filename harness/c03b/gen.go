package c03b

import (
	"fmt"

	"seehuhn.de/go/sfnt/verifharness/vlib"
)

var writers = []string{"full", "ttpdf", "cffpdf"}

func add(run *vlib.Run, rc *recipe, w string, ex []extra, stream string) {
	co, err := runCase(rc, w, ex)
	if err != nil {
		// a recipe that cannot be built is a fault of the generator
		idx := run.Add("!font "+vlib.Str(rc.sx())+" "+w+" "+vlib.Str(extrasSx(ex)), "(unbuildable)", false, "stream:"+stream, "unbuildable")
		run.Fail(idx, vlib.Str(rc.sx()), "the generator's recipe cannot be built: "+err.Error(), "c03b-generator")
		return
	}
	idx := run.Add(co.line, co.impl, co.nontrivial, append(co.labels, "stream:"+stream)...)
	if co.fail != "" {
		run.Fail(idx, co.line, co.fail, co.sig)
	}
}

func str(s string) extra              { return extra{kind: 's', data: []byte(s)} }
func byt(b []byte) extra              { return extra{kind: 'b', data: b} }
func other() extra                    { return extra{kind: 'o'} }
func pair(k string, b []byte) []extra { return []extra{str(k), byt(b)} }

func cat(xs ...[]extra) []extra {
	var out []extra
	for _, x := range xs {
		out = append(out, x...)
	}
	return out
}

// a head table of 54 bytes with a non-zero adjustment field
func fakeHead() []byte {
	b := make([]byte, 54)
	for i := range b {
		b[i] = byte(i + 1)
	}
	b[12], b[13], b[14], b[15] = 0x5F, 0x0F, 0x3C, 0xF5
	return b
}

// the fixed extraTables lists: every kind of pair the documentation names
// and every way of getting it wrong
func boundaryExtras() [][]extra {
	nilb := []byte(nil)
	return [][]extra{
		nil,
		pair("OS/2", []byte{1, 2, 3, 4, 5}), // a new table
		pair("abcd", []byte{}),              // a new, empty table
		pair("glyf", []byte{9, 9, 9}),       // override of a default table
		pair("head", fakeHead()),            // override of head: patched in place
		pair("head", []byte{1, 2, 3}),       // a head too short to patch
		pair("head", fakeHead()[:12]),       // exactly 12 bytes
		pair("hmtx", nilb),                  // nil removes
		pair("cmap", nilb),                  // nil removes an optional table
		pair("zzzz", nilb),                  // nil for a table that is not there
		pair("abc", []byte{1}),              // name of 3 bytes: skipped
		pair("abcde", []byte{1}),            // name of 5 bytes
		pair("", []byte{1}),                 // empty name
		cat(pair("cvt ", []byte{1, 2}), pair("cvt ", []byte{3})), // the same name twice: the last wins
		cat(pair("glyf", nilb), pair("glyf", []byte{7})),         // removed, then set again
		cat(pair("glyf", []byte{7}), pair("glyf", nilb)),         // set, then removed
		cat(pair("post", []byte{1, 2, 3}), []extra{str("name")}), // odd count: the last argument is ignored
		{str("name")}, // a single argument
		{other()},     // a single argument of another type: never looked at
		cat(pair("post", []byte{1}), []extra{other()}),           // odd count, last of another type
		{other(), byt([]byte{1})},                                // name that is not a string: panic
		{str("post"), other()},                                   // data that is not a []byte: panic
		{str("post"), str("data")},                               // data given as a string: panic
		{byt([]byte("post")), byt([]byte{1})},                    // name given as a []byte: panic
		cat(pair("post", []byte{1}), []extra{other(), byt(nil)}), // second pair badly typed
		// every default table and every raw table of the Go font removed: nothing to write
		cat(pair("cmap", nilb), pair("hhea", nilb), pair("hmtx", nilb), pair("glyf", nilb), pair("loca", nilb),
			pair("maxp", nilb), pair("head", nilb), pair("cvt ", nilb), pair("fpgm", nilb), pair("prep", nilb), pair("gasp", nilb)),
		// all removed but one
		cat(pair("cmap", nilb), pair("hhea", nilb), pair("hmtx", nilb), pair("glyf", nilb), pair("loca", nilb),
			pair("maxp", nilb), pair("cvt ", nilb), pair("fpgm", nilb), pair("prep", nilb), pair("gasp", nilb)),
		pair("\x00\x01\x02\x03", []byte{1}), // a name header.Read will not accept
		pair("caf\xc3", []byte{1, 2, 3, 4}), // non-ASCII bytes
	}
}

func boundaryTables() [][]tabEntry {
	return [][]tabEntry{
		{{"cvt ", []byte{0, 1, 0, 2}}, {"prep", []byte{0xB0, 0}}},
		{{"cvt ", nil}},      // nil entry
		{{"gasp", []byte{}}}, // empty entry
		{{"abc", []byte{1}}, {"abcde", []byte{2}}, {"", []byte{3}}}, // names that are not 4 bytes
		{{"GDEF", []byte{1, 2, 3, 4}}},                              // a raw table with the name of a layout table
		{{"GSUB", []byte{1, 2}}, {"GPOS", nil}},
		{{"head", []byte{9, 9, 9}}, {"maxp", []byte{9}}},       // cannot replace head / maxp
		{{"hhea", nil}, {"hmtx", []byte{1, 2}}, {"glyf", nil}}, // replaces / removes tables made from the font
		{{"OS/2", []byte{4, 4}}, {"name", nil}, {"post", []byte{}}, {"cmap", []byte{0, 0, 0, 0}}, {"loca", []byte{0, 0}}},
		{{"CFF ", []byte{1, 0, 4, 1}}},
	}
}

// Gen: three streams.
//
//	boundary   fixed, independent of the seed: every base font x every switch
//	           on its own x the three writers; the fixed extraTables lists and
//	           raw-table maps
//	random     random recipes, raw-table maps and extraTables lists
//	malformed  badly typed / odd extraTables, writers called on the wrong kind
//	           of font, fonts without outlines, CFF fonts the encoder refuses
func Gen(run *vlib.Run, seed uint64, tier string) {
	run.Rule = "non-trivial = the writer produced a file (its directory, per-table MD5 and file MD5 are compared with the model and the oracle ran on it)"
	r := vlib.NewRand(seed)

	bases := []recipe{
		{base: "go", tmode: "keep"},
		{base: "ttf", n: 5, tmode: "keep"},
		{base: "ttf", n: 14, tmode: "keep", file: true},
		{base: "cff", tmode: "keep"},
		{base: "cffs", n: 4, tmode: "keep"},
		{base: "cid", n: 6, tmode: "keep"},
		{base: "cffs", n: 3, tmode: "keep", file: true},
		{base: "cid", n: 5, tmode: "keep", file: true},
	}

	// ---- boundary: one switch at a time, all writers
	for _, b := range bases {
		variants := []recipe{b}
		v := b
		v.noCmap = true
		variants = append(variants, v)
		for k := 0; k < 3; k++ {
			v = b
			*[]*int{&v.gdef, &v.gsub, &v.gpos}[k] = 1
			variants = append(variants, v)
		}
		v = b
		v.gdef, v.gsub, v.gpos = 2, 2, 2
		variants = append(variants, v)
		v = b
		v.gdef, v.gsub, v.gpos = 1, 1, 1
		variants = append(variants, v)
		if b.base == "go" || b.base == "ttf" {
			v = b
			v.noWidths = true
			variants = append(variants, v)
			v.noCmap = true
			variants = append(variants, v)
			for _, m := range []string{"nil", "empty"} {
				v = b
				v.tmode = m
				variants = append(variants, v)
			}
		} else if b.base != "cid" {
			v = b
			v.cffErr = true
			variants = append(variants, v)
		}
		v = b
		v.noOutl = true
		variants = append(variants, v)
		for i := range variants {
			for _, w := range writers {
				add(run, &variants[i], w, nil, "boundary")
			}
		}
	}
	// a glyf table that needs the long loca format: makeHead's argument matters
	{
		rc := recipe{base: "ttfL", n: 5, tmode: "keep"}
		add(run, &rc, "full", nil, "boundary")
		add(run, &rc, "ttpdf", nil, "boundary")
	}
	// raw-table maps, with and without layout tables of the font's own
	for _, ts := range boundaryTables() {
		for _, layout := range []int{2, 1} {
			for _, b := range []recipe{{base: "ttf", n: 4}, {base: "go"}} {
				rc := b
				rc.tmode, rc.tables = "set", ts
				rc.gdef, rc.gsub, rc.gpos = layout, layout, layout
				add(run, &rc, "full", nil, "boundary")
				add(run, &rc, "ttpdf", nil, "boundary")
			}
		}
	}
	// extraTables lists
	for _, ex := range boundaryExtras() {
		for _, b := range []recipe{{base: "go", tmode: "keep"}, {base: "ttf", n: 3, tmode: "keep", noWidths: true}} {
			rc := b
			add(run, &rc, "ttpdf", ex, "boundary")
		}
	}
	// extras against raw tables: the caller's table beats the raw one, also with nil
	{
		rc := recipe{base: "ttf", n: 3, tmode: "set", tables: []tabEntry{{"cvt ", []byte{1, 1}}, {"prep", nil}, {"glyf", []byte{5}}}}
		add(run, &rc, "ttpdf", cat(pair("cvt ", nil), pair("prep", []byte{2}), pair("glyf", []byte{6, 6})), "boundary")
		add(run, &rc, "ttpdf", cat(pair("cvt ", []byte{})), "boundary")
	}
	// the other writers ignore nothing, they have no such argument: called with the lists anyway in the model only
	// (the Go signatures do not take them)

	// ---- random
	nRandom := vlib.Count(tier, 140, 3000)
	for i := 0; i < nRandom; i++ {
		rr := r.Fork(fmt.Sprintf("random-%d", i))
		rc := randRecipe(rr)
		w := vlib.Pick(rr, writers)
		// mostly the writer that fits
		if rr.Chance(3, 4) {
			switch rc.base {
			case "go", "ttf":
				w = vlib.Pick(rr, []string{"full", "ttpdf", "ttpdf"})
			default:
				w = vlib.Pick(rr, []string{"full", "cffpdf"})
			}
		}
		var ex []extra
		if w == "ttpdf" {
			ex = randExtras(rr, rc, false)
		}
		add(run, rc, w, ex, "random")
	}

	// ---- malformed
	nMal := vlib.Count(tier, 40, 800)
	for i := 0; i < nMal; i++ {
		rr := r.Fork(fmt.Sprintf("malformed-%d", i))
		rc := randRecipe(rr)
		switch rr.Intn(4) {
		case 0:
			rc.noOutl = true
		case 1:
			rc.cffErr = true
		}
		w := vlib.Pick(rr, writers)
		var ex []extra
		if w == "ttpdf" {
			ex = randExtras(rr, rc, true)
		}
		add(run, rc, w, ex, "malformed")
	}
}

var rawNames = []string{"cvt ", "fpgm", "prep", "gasp", "cvt ", "prep", "GDEF", "GSUB", "GPOS", "head", "maxp", "hhea", "hmtx",
	"glyf", "loca", "cmap", "OS/2", "name", "post", "kern", "DSIG", "abc", "abcde", "", "ZZZZ", "CFF "}

func randData(r *vlib.Rand) []byte {
	switch r.Intn(8) {
	case 0:
		return nil
	case 1:
		return []byte{}
	case 2:
		return fakeHead()[:r.Range(11, 13)]
	case 3:
		return fakeHead()
	}
	n := vlib.Pick(r, []int{1, 2, 3, 4, 5, 7, 8, 12, 13, 31, 64})
	return r.Bytes(n)
}

func randRecipe(r *vlib.Rand) *recipe {
	rc := &recipe{tmode: "keep"}
	rc.base = vlib.Pick(r, []string{"go", "ttf", "ttf", "ttf", "cff", "cffs", "cffs", "cid"})
	rc.n = vlib.Pick(r, []int{1, 2, 3, 5, 8, 14, 23})
	if rc.base == "cid" && rc.n < 2 {
		rc.n = 2
	}
	rc.file = rc.base != "go" && r.Chance(1, 4)
	rc.noCmap = r.Chance(1, 4)
	rc.gdef, rc.gsub, rc.gpos = r.Intn(3), r.Intn(3), r.Intn(3)
	if rc.base == "go" || rc.base == "ttf" {
		rc.noWidths = r.Chance(1, 3)
		switch r.Intn(6) {
		case 0:
			rc.tmode = "nil"
		case 1:
			rc.tmode = "empty"
		case 2, 3, 4:
			rc.tmode = "set"
			seen := map[string]bool{}
			k := vlib.Pick(r, []int{1, 1, 2, 3, 5, 9})
			for i := 0; i < k; i++ {
				name := vlib.Pick(r, rawNames)
				if r.Chance(1, 8) {
					name = string(r.Bytes(4))
				}
				if seen[name] {
					continue
				}
				seen[name] = true
				rc.tables = append(rc.tables, tabEntry{name, randData(r)})
			}
		}
	}
	return rc
}

func randExtras(r *vlib.Rand, rc *recipe, malformed bool) []extra {
	if !malformed && r.Chance(1, 5) {
		return nil
	}
	var ex []extra
	k := vlib.Pick(r, []int{1, 1, 2, 2, 3, 4, 6, 10})
	for i := 0; i < k; i++ {
		name := vlib.Pick(r, rawNames)
		if r.Chance(1, 10) {
			name = string(r.Bytes(vlib.Pick(r, []int{4, 4, 3, 5})))
		}
		ex = append(ex, pair(name, randData(r))...)
	}
	if r.Chance(1, 4) {
		// odd count
		ex = append(ex, vlib.Pick(r, []extra{str("glyf"), byt([]byte{1}), other()}))
	}
	if malformed {
		// one argument of the wrong type somewhere
		i := r.Intn(len(ex))
		switch r.Intn(3) {
		case 0:
			ex[i] = other()
		case 1:
			ex[i] = str("head")
		default:
			ex[i] = byt([]byte("head"))
		}
	}
	return ex
}
