package c03b

// The table set of each writer, written from the documentation of the
// writers and of glyf.Outlines.Tables - independently of the Coq model and of
// the order of the statements in write.go: for every NAME the final value is
// found by asking the sources in order of precedence.
//
//	Font.Write            layout tables of the font (GDEF GSUB GPOS, if present), head, maxp
//	                      > raw tables of TrueType outlines
//	                      > hhea, hmtx (if there are widths), cmap (if present), OS/2, name, post,
//	                        glyf + loca | CFF
//	WriteTrueTypePDF      extraTables (the last pair with the name wins; a nil slice removes)
//	                      > head, maxp > raw tables > cmap (if present), hhea, hmtx (if widths), glyf, loca
//	WriteOpenTypeCFFPDF   cmap (if present), CFF
//
// Only names of four bytes with a non-nil value are written.

type value struct {
	set  bool
	data []byte // nil = removed
}

func some(b []byte) value { return value{true, b} }

func (d *desc) hasHmtx() bool { return d.kind != "glyf" || d.widths }

func (d *desc) fromFont(name string, cffToo bool) value {
	switch name {
	case "hhea":
		return some(d.enc[sHhea])
	case "hmtx":
		if d.hasHmtx() {
			return some(d.enc[sHmtx])
		}
	case "cmap":
		if d.cmap {
			return some(d.enc[sCmap])
		}
	case "glyf":
		if d.kind == "glyf" {
			return some(d.enc[sGlyf])
		}
	case "loca":
		if d.kind == "glyf" {
			return some(d.enc[sLoca])
		}
	case "CFF ":
		if d.kind == "cff" && cffToo {
			return some(d.enc[sCff])
		}
	}
	return value{}
}

func (d *desc) raw(name string) value {
	if d.kind != "glyf" {
		return value{}
	}
	for _, t := range d.tables {
		if t.key == name {
			return value{true, t.data}
		}
	}
	return value{}
}

func typedExtras(ex []extra) bool {
	for i := 0; i+1 < len(ex); i += 2 {
		if ex[i].kind != 's' || ex[i+1].kind != 'b' {
			return false
		}
	}
	return true
}

func lastExtra(ex []extra, name string) value {
	v := value{}
	for i := 0; i+1 < len(ex); i += 2 {
		if string(ex[i].data) == name {
			v = value{true, ex[i+1].data}
		}
	}
	return v
}

func (d *desc) final(w, name string, ex []extra) value {
	switch w {
	case "full":
		switch name {
		case "GDEF":
			if d.gdef {
				return some(d.enc[sGdef])
			}
		case "GSUB":
			if d.gsub {
				return some(d.enc[sGsub])
			}
		case "GPOS":
			if d.gpos {
				return some(d.enc[sGpos])
			}
		case "head":
			return some(d.enc[sHead])
		case "maxp":
			return some(d.enc[sMaxp])
		}
		if v := d.raw(name); v.set {
			return v
		}
		switch name {
		case "OS/2":
			return some(d.enc[sOS2])
		case "name":
			return some(d.enc[sName])
		case "post":
			return some(d.enc[sPost])
		}
		return d.fromFont(name, true)
	case "ttpdf":
		if v := lastExtra(ex, name); v.set {
			return v
		}
		switch name {
		case "head":
			return some(d.enc[sHead])
		case "maxp":
			return some(d.enc[sMaxp])
		}
		if v := d.raw(name); v.set {
			return v
		}
		return d.fromFont(name, false)
	case "cffpdf":
		if name == "cmap" || name == "CFF " {
			return d.fromFont(name, true)
		}
	}
	return value{}
}

// specTables returns the tables the file must hold and how the call must end.
func specTables(d *desc, w string, ex []extra) (map[string][]byte, string) {
	kindOK := (w == "full" && d.kind != "none") || (w == "ttpdf" && d.kind == "glyf") || (w == "cffpdf" && d.kind == "cff")
	if !kindOK {
		return nil, "panic"
	}
	if d.kind == "cff" && d.cffErr {
		return nil, "err"
	}
	if w != "ttpdf" {
		ex = nil
	}
	if !typedExtras(ex) {
		return nil, "panic"
	}
	cand := map[string]bool{}
	for _, n := range literalNames {
		cand[n] = true
	}
	for _, t := range d.tables {
		cand[t.key] = true
	}
	for i := 0; i+1 < len(ex); i += 2 {
		cand[string(ex[i].data)] = true
	}
	res := map[string][]byte{}
	for n := range cand {
		if len(n) != 4 {
			continue
		}
		if v := d.final(w, n, ex); v.set && v.data != nil {
			res[n] = v.data
		}
	}
	if len(res) == 0 {
		return nil, "panic" // header.Write has nothing to write
	}
	return res, "ok"
}
