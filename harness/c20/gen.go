package c20

import (
	"fmt"
	"sort"
	"strings"
	"unicode/utf8"

	"seehuhn.de/go/postscript/type1/names"

	"seehuhn.de/go/sfnt/verifharness/vlib"
)

var validPool = []string{"A", "B", "C", "D", "a", "b", "f", "i", "space", "uni0041", "f_i", "A.1", "A.2",
	"A.1.1", "B.1", "orn001", "orn002", "orn003", "orn010", "orn1000", "A_B", "A_B.1", "f_f_i", "A.alt1",
	"zero", "one", "Omega", "a.sc", "g17", "glyph.with.dots", "Aacute"}
var invalidPool = []string{"1abc", "a b", ".x", strings.Repeat("x", 32), "\xc3\xa4", "a-b", "A/B", "(", "\x00", " "}

// MakeGlyphNames walks the whole code range of the cmap, so wide ranges are
// kept to a fraction of the cases (the oracle calls it more than 50 times)
var runePool = []int{'A', 'B', 'C', 'D', 'E', 'a', 'b', 'f', 'i', '0', '1', ' ', 0, 0x0D, 0xA0, 0xC1, 0x2126, 0x3A9}
var runePoolHigh = []int{0xFB01, 0xE000, 0xF8FF, 0xD800, 0xDFFF, 0xFFFD, 0xFFFF}
var runePool12 = []int{0x10000, 0x1F600, 0xF0000, 0x10FFFF}

func pickName(r *vlib.Rand, invalidToo bool) string {
	if invalidToo && r.Chance(1, 4) {
		return vlib.Pick(r, invalidPool)
	}
	if r.Chance(1, 8) {
		return fmt.Sprintf("g%d", r.Intn(50))
	}
	return vlib.Pick(r, validPool)
}

// genNames: n names following one of the patterns of the quantifier
func genNames(r *vlib.Rand, n int, pattern string) []string {
	out := make([]string, n)
	switch pattern {
	case "all-missing":
	case "all-present":
		for i := range out {
			out[i] = fmt.Sprintf("n%d", i)
			if i < len(validPool) && r.Bool() {
				out[i] = validPool[i]
			}
		}
		if n > 0 {
			out[0] = ".notdef"
		}
	case "some-missing":
		for i := range out {
			if r.Chance(1, 2) {
				out[i] = fmt.Sprintf("n%d", i)
				if r.Chance(1, 2) {
					out[i] = vlib.Pick(r, validPool) + fmt.Sprint(i)
				}
			}
		}
	case "duplicates":
		pool := []string{vlib.Pick(r, validPool), vlib.Pick(r, validPool), vlib.Pick(r, validPool), ".notdef", ""}
		for i := range out {
			out[i] = vlib.Pick(r, pool)
		}
	case "invalid":
		for i := range out {
			if r.Chance(2, 3) {
				out[i] = pickName(r, true)
			}
		}
	case "collide":
		// names that generated names will run into
		for i := range out {
			if r.Chance(1, 2) {
				out[i] = vlib.Pick(r, validPool)
			}
		}
	}
	return out
}

var patterns = []string{"all-missing", "all-present", "some-missing", "duplicates", "invalid", "collide"}

func sortedSubset(r *vlib.Rand, cands []int, k int) []int {
	if k > len(cands) {
		k = len(cands)
	}
	c := append([]int{}, cands...)
	for i := 0; i < k; i++ {
		j := i + r.Intn(len(c)-i)
		c[i], c[j] = c[j], c[i]
	}
	c = c[:k]
	sort.Ints(c)
	return c
}

func allGids(n int) []int {
	out := make([]int, n)
	for i := range out {
		out[i] = i
	}
	return out
}

func covOf(r *vlib.Rand, gidsSorted []int, scramble bool) []covEntry {
	out := make([]covEntry, len(gidsSorted))
	for i, g := range gidsSorted {
		out[i] = covEntry{g, i}
		if scramble {
			out[i].idx = r.Intn(len(gidsSorted))
		}
	}
	return out
}

// genSub: one subtable whose references stay inside [0,n) unless bad is set
func genSub(r *vlib.Rand, n int, bad bool) subSpec {
	gidOrBad := func() int {
		if bad && r.Chance(1, 3) {
			return n + r.Intn(3)
		}
		return r.Intn(n)
	}
	k := r.Range(1, 5)
	scr := r.Chance(1, 6)
	switch r.Intn(9) {
	case 0, 1:
		d := r.Range(-3, 3)
		if r.Chance(1, 5) {
			d = r.Range(-n, n)
		}
		var cands []int
		for g := 0; g < n; g++ {
			if (g+d >= 0 && g+d < n) || bad {
				cands = append(cands, g)
			}
		}
		s := subSpec{kind: "g11", delta: d & 0xFFFF}
		for _, g := range sortedSubset(r, cands, k) {
			s.cov = append(s.cov, covEntry{g, 0})
		}
		return s
	case 2, 3:
		cov := covOf(r, sortedSubset(r, allGids(n), k), scr)
		s := subSpec{kind: "g12", cov: cov}
		for range cov {
			s.subst = append(s.subst, gidOrBad())
		}
		if bad && r.Chance(1, 3) && len(s.subst) > 0 {
			s.subst = s.subst[:len(s.subst)-1]
		}
		return s
	case 4, 5:
		cov := covOf(r, sortedSubset(r, allGids(n), k), scr)
		s := subSpec{kind: "g31", cov: cov}
		for range cov {
			var a []int
			for j := r.Intn(4); j > 0; j-- {
				a = append(a, gidOrBad())
			}
			s.alts = append(s.alts, a)
		}
		if bad && r.Chance(1, 3) && len(s.alts) > 0 {
			s.alts = s.alts[:len(s.alts)-1]
		}
		return s
	case 6, 7:
		cov := covOf(r, sortedSubset(r, allGids(n), k), scr)
		s := subSpec{kind: "g41", cov: cov}
		for range cov {
			var row []ligSpec
			for j := r.Intn(3); j > 0; j-- {
				lg := ligSpec{out: gidOrBad()}
				for m := r.Intn(3); m > 0; m-- {
					lg.in = append(lg.in, gidOrBad())
				}
				row = append(row, lg)
			}
			s.repl = append(s.repl, row)
		}
		if bad && r.Chance(1, 3) && len(s.repl) > 0 {
			s.repl = s.repl[:len(s.repl)-1]
		}
		return s
	}
	return subSpec{kind: "other"}
}

func genCmap(r *vlib.Rand, n int, oob bool) (string, []cmapEntry) {
	fmtc := vlib.Pick(r, []string{"none", "f4", "f4", "f4", "f12", "f12", "f0"})
	if fmtc == "none" {
		return fmtc, nil
	}
	var es []cmapEntry
	gid := func() int {
		if oob && r.Chance(1, 3) {
			return n + r.Intn(200)
		}
		if n > 255 && fmtc == "f0" {
			return r.Intn(256)
		}
		return r.Intn(n)
	}
	switch fmtc {
	case "f0":
		for c := 0; c < 256; c++ {
			if r.Chance(1, 8) {
				es = append(es, cmapEntry{c, gid() & 0xFF})
			}
		}
	default:
		k := r.Range(0, 12)
		seen := map[int]bool{}
		high := r.Chance(1, 10)
		astral := fmtc == "f12" && r.Chance(1, 25)
		for i := 0; i < k; i++ {
			c := vlib.Pick(r, runePool)
			if high && r.Chance(1, 3) {
				c = vlib.Pick(r, runePoolHigh)
			}
			if astral && r.Chance(1, 3) {
				c = vlib.Pick(r, runePool12)
			}
			if r.Chance(1, 6) {
				c = r.Intn(0x3000)
			}
			if seen[c] {
				continue
			}
			seen[c] = true
			es = append(es, cmapEntry{c, gid()})
		}
		sort.Slice(es, func(i, j int) bool { return es[i].r < es[j].r })
	}
	return fmtc, es
}

func genFont(r *vlib.Rand, n int, pattern string, bad bool) *fontSpec {
	fs := &fontSpec{n: n}
	fs.kind = vlib.Pick(r, []string{"cff", "cff", "cid", "glyf", "glyf"})
	switch fs.kind {
	case "cff":
		fs.existing = genNames(r, n, pattern)
	case "cid":
		fs.existing = make([]string, n) // CID-keyed fonts carry no glyph names
	case "glyf":
		switch r.Intn(5) {
		case 0:
			fs.existing = nil // no post names
		case 1:
			fs.existing = genNames(r, r.Intn(n+1), pattern) // short list
			if len(fs.existing) == 0 {
				fs.existing = nil
			}
		case 2:
			fs.existing = genNames(r, n+r.Range(1, 3), pattern) // long list
		default:
			fs.existing = genNames(r, n, pattern)
		}
	}
	if n == 0 && fs.kind != "glyf" {
		fs.existing = []string{}
	}
	if n > 0 {
		fs.cmapFmt, fs.cmap = genCmap(r, n, bad || r.Chance(1, 10))
	} else {
		fs.cmapFmt = "none"
	}
	if n > 0 && r.Chance(5, 6) {
		fs.hasGsub = true
		for k := r.Intn(5); k > 0; k-- {
			fs.gsub = append(fs.gsub, genSub(r, n, bad))
		}
	}
	return fs
}

// genLigFont: named base glyphs (by existing names or through the cmap), a few
// component glyphs that have no name when the GSUB pass runs, and ligature
// sets (Gsub4_1) with several ligatures per first glyph, longest first, whose
// outputs are unnamed glyphs (now and then a named one).
func genLigFont(r *vlib.Rand) *fontSpec {
	letters := []string{"f", "i", "l", "t", "s"}
	nb := r.Range(2, 5)    // named base glyphs 1..nb
	nu := r.Range(1, 2)    // unnamed components nb+1..nb+nu
	nsets := r.Range(1, 2) // first glyphs with a ligature set
	var rows [][]ligSpec
	var cov []covEntry
	firsts := sortedSubset(r, allGids(nb + 1)[1:], nsets)
	nextOut := 1 + nb + nu
	for si, fg := range firsts {
		k := r.Range(2, 4)
		row := make([]ligSpec, k)
		for j := range row {
			ln := r.Range(1, 3)
			in := make([]int, ln)
			for m := range in {
				in[m] = r.Range(1, nb)
			}
			// an unnamed component, mostly after at least one named one
			if r.Chance(1, 2) {
				pos := r.Intn(ln)
				if ln > 1 && r.Chance(3, 4) {
					pos = r.Range(1, ln-1)
				}
				in[pos] = nb + r.Range(1, nu)
			}
			row[j] = ligSpec{in: in}
		}
		sort.SliceStable(row, func(a, b int) bool { return len(row[a].in) > len(row[b].in) })
		for j := range row {
			row[j].out = nextOut
			nextOut++
			if r.Chance(1, 10) {
				row[j].out = r.Range(0, nb) // an output that already has a name
			}
		}
		rows = append(rows, row)
		cov = append(cov, covEntry{fg, si})
	}
	n := nextOut + r.Intn(2)
	fs := &fontSpec{n: n, cmapFmt: "none", hasGsub: true}
	fs.gsub = []subSpec{{kind: "g41", cov: cov, repl: rows}}
	if r.Chance(1, 4) {
		fs.gsub = append(fs.gsub, genSub(r, n, false))
	}
	if r.Chance(1, 4) {
		fs.gsub = append([]subSpec{genSub(r, n, false)}, fs.gsub...)
	}
	byCmap := r.Bool()
	existing := make([]string, n)
	for g := 1; g <= nb; g++ {
		if byCmap {
			fs.cmap = append(fs.cmap, cmapEntry{int(letters[g-1][0]), g})
		} else {
			existing[g] = letters[g-1]
		}
	}
	if byCmap {
		fs.cmapFmt = vlib.Pick(r, []string{"f4", "f12"})
		sort.Slice(fs.cmap, func(i, j int) bool { return fs.cmap[i].r < fs.cmap[j].r })
		fs.kind = vlib.Pick(r, []string{"cid", "cff", "glyf"})
		if fs.kind == "glyf" && r.Bool() {
			existing = nil
		}
	} else {
		fs.kind = vlib.Pick(r, []string{"cff", "glyf"})
	}
	fs.existing = existing
	return fs
}

func addNames(run *vlib.Run, fs *fontSpec, labels ...string) {
	line, impl, fail, sig := fs.exec()
	eff := fs.effective()
	filled := 0
	if strings.HasPrefix(impl, "(ok") {
		items, _ := vlib.Parse(impl)
		l, _ := vlib.AsList(items[0])
		for i := 1; i < len(l) && i-1 < len(eff); i++ {
			if s, _ := unhexName(l[i]); i-1 > 0 && s != eff[i-1] {
				filled++
			}
		}
	}
	labels = append(labels, "names", "kind:"+fs.kind, "cmap:"+fs.cmapFmt)
	if fs.kind == "glyf" {
		switch {
		case fs.existing == nil:
			labels = append(labels, "glyf:no-names")
		case len(fs.existing) < fs.n:
			labels = append(labels, "glyf:short-names")
		case len(fs.existing) > fs.n:
			labels = append(labels, "glyf:long-names")
		default:
			labels = append(labels, "glyf:full-names")
		}
	}
	for _, s := range fs.gsub {
		labels = append(labels, "gsub:"+s.kind)
	}
	if !fs.hasGsub {
		labels = append(labels, "gsub:nil")
	}
	if impl == "panic" {
		labels = append(labels, "obs:panic")
	} else if filled == 0 {
		labels = append(labels, "obs:nothing-to-fill")
	} else {
		labels = append(labels, "obs:filled")
	}
	switch {
	case fs.n == 0:
		labels = append(labels, "n:0")
	case fs.n == 1:
		labels = append(labels, "n:1")
	case fs.n <= 8:
		labels = append(labels, "n:2-8")
	case fs.n <= 64:
		labels = append(labels, "n:9-64")
	default:
		labels = append(labels, "n:65+")
	}
	idx := run.Add(line, impl, filled > 0, labels...)
	if fail != "" {
		run.Fail(idx, line, fail, sig)
	}
}

func addCff(run *vlib.Run, cs *cffSpec, labels ...string) {
	line, impl, fail, sig := cs.exec()
	labels = append(labels, "cff-makesimple")
	if cs.cidKeyed {
		labels = append(labels, "cff:cid-keyed")
	}
	if cs.hasText {
		labels = append(labels, "cff:glyphText")
	} else {
		labels = append(labels, "cff:nil-glyphText")
	}
	changed := false
	if strings.HasPrefix(impl, "(ok") {
		items, _ := vlib.Parse(impl)
		l, _ := vlib.AsList(items[0])
		for i := 2; i < len(l) && i-1 < len(cs.existing); i++ {
			if s, _ := unhexName(l[i]); s != cs.existing[i-1] {
				changed = true
			}
		}
	} else {
		labels = append(labels, "obs:"+impl)
	}
	idx := run.Add(line, impl, changed, labels...)
	if fail != "" {
		run.Fail(idx, line, fail, sig)
	}
}

func addPs(run *vlib.Run, ps *psSpec, labels ...string) {
	line, impl, fail, sig := ps.exec()
	f := ps.font()
	in := ps.family + "-" + f.Subfamily()
	nt := impl != vlib.Str(hexName(in))
	idx := run.Add(line, impl, nt, append(labels, "psname")...)
	if fail != "" {
		run.Fail(idx, line, fail, sig)
	}
}

var textPool = []string{"A", "B", "AB", "fi", "ffi", "ä", "1", " ", "A", "A", "x", "ﬁ", "\U0001F600",
	"abcdefghijklmnop", "abcdefghijklmnopqrstuvwxyzabcdefghij", "\xff", "Ω", "a b"}

func genCff(r *vlib.Rand, n int, pattern string) *cffSpec {
	cs := &cffSpec{cidKeyed: r.Chance(1, 2)}
	if cs.cidKeyed && r.Chance(2, 3) {
		cs.existing = make([]string, n)
	} else {
		cs.existing = genNames(r, n, pattern)
	}
	if r.Chance(3, 4) {
		cs.hasText = true
		cs.texts = make([]string, n)
		for i := range cs.texts {
			if r.Chance(2, 3) {
				cs.texts[i] = vlib.Pick(r, textPool)
			}
		}
	}
	return cs
}

var familyPool = []string{"Test", "Go Regular", "Helvetica Neue", "Font (Beta)", "A/B", "100% <Pure>", "[x]{y}",
	"", " ", "Ünïcödé", "日本語 Gothic", "a\x00b", "tab\there", "new\nline", "back\\slash", "~tilde|pipe^", "\xff\xfe", "DEL\x7f"}

// Gen writes the run for the given tier.
func Gen(run *vlib.Run, seed uint64, tier string) {
	run.Rule = "case = one in-memory font; non-trivial: names/cff cases where at least one glyph other than glyph 0 received a name it did not have (missing, duplicate or invalid name replaced); psname cases where at least one character was removed; distinct by case line"
	r := vlib.NewRand(seed)

	// (0) the character class of PostScriptName over all byte values
	{
		line, impl, fail, sig := psClass()
		idx := run.Add(line, impl, true, "psclass")
		if fail != "" {
			run.Fail(idx, line, fail, sig)
		}
	}

	// (i) boundary fonts
	rb := r.Fork("boundary")
	for _, n := range []int{0, 1, 2} {
		for _, p := range patterns {
			for k := 0; k < 3; k++ {
				addNames(run, genFont(rb, n, p, false), "stream:boundary", "pattern:"+p)
			}
		}
	}
	// placeholders beyond orn999, and a long variant chain
	big := &fontSpec{kind: "cid", n: 1100, existing: make([]string, 1100), cmapFmt: "none"}
	addNames(run, big, "stream:boundary", "pattern:all-missing")
	chain := &fontSpec{kind: "glyf", n: 130, existing: make([]string, 130), cmapFmt: "f4", cmap: []cmapEntry{{'A', 1}}, hasGsub: true}
	chain.existing[0] = ".notdef"
	chain.existing[1] = "A"
	chain.existing[129] = "A.1"
	{
		s := subSpec{kind: "g31", cov: []covEntry{{1, 0}}, alts: [][]int{nil}}
		for g := 2; g < 125; g++ {
			s.alts[0] = append(s.alts[0], g)
		}
		chain.gsub = append(chain.gsub, s, subSpec{kind: "g11", delta: 1, cov: []covEntry{{124, 0}, {125, 0}, {126, 0}, {127, 0}}})
	}
	addNames(run, chain, "stream:boundary", "pattern:collide")

	// (ii) exhaustive small fonts (thorough): 3 glyphs, every pattern of 5 names
	// on glyphs 1 and 2, a fixed family of cmaps and GSUB subtables
	if tier == "thorough" {
		pool := []string{"", "A", "A.1", "orn001", ".notdef", "1x"}
		cmaps := [][]cmapEntry{nil, {{'A', 1}}, {{'A', 2}, {'B', 2}}, {{'A', 1}, {'B', 1}, {'C', 2}}}
		subs := []*subSpec{nil,
			{kind: "g11", delta: 1, cov: []covEntry{{0, 0}, {1, 0}}},
			{kind: "g11", delta: 0xFFFF, cov: []covEntry{{1, 0}, {2, 0}}},
			{kind: "g12", cov: []covEntry{{1, 0}, {2, 1}}, subst: []int{2, 1}},
			{kind: "g31", cov: []covEntry{{1, 0}}, alts: [][]int{{2, 0, 1}}},
			{kind: "g41", cov: []covEntry{{1, 0}, {2, 1}}, repl: [][]ligSpec{{{[]int{1}, 2}, {nil, 0}}, {{[]int{2, 1}, 1}}}},
		}
		for _, kind := range []string{"cff", "glyf"} {
			for _, a := range pool {
				for _, b := range pool {
					for ci, cm := range cmaps {
						for _, sb := range subs {
							fs := &fontSpec{kind: kind, n: 3, existing: []string{"", a, b}, cmapFmt: "f4", cmap: cm}
							if ci == 0 {
								fs.cmapFmt = "none"
							}
							if sb != nil {
								fs.hasGsub = true
								fs.gsub = []subSpec{*sb}
							}
							addNames(run, fs, "stream:exhaustive3")
						}
					}
				}
			}
		}
	}

	// (iii) random fonts, references in range
	nr := vlib.Count(tier, 1500, 40000)
	rr := r.Fork("random")
	for i := 0; i < nr; i++ {
		n := rr.Range(1, 12)
		switch rr.Intn(10) {
		case 0:
			n = rr.Range(13, 64)
		case 1:
			n = rr.Range(1, 3)
		}
		if tier == "thorough" && i%2000 == 0 {
			n = rr.Range(256, 400)
		}
		p := vlib.Pick(rr, patterns)
		addNames(run, genFont(rr, n, p, false), "stream:random", "pattern:"+p)
	}

	// (iii-b) ligature sets: one first glyph with 2-4 ligatures, longest first,
	// some components without a name at that point, outputs without a name
	nl := vlib.Count(tier, 250, 5000)
	rl := r.Fork("ligsets")
	for i := 0; i < nl; i++ {
		addNames(run, genLigFont(rl), "stream:ligature-sets")
	}

	// (iv) malformed stream: references to glyphs the font does not have,
	// coverage indices beyond the arrays
	nm := vlib.Count(tier, 300, 6000)
	rm := r.Fork("malformed")
	for i := 0; i < nm; i++ {
		n := rm.Range(1, 10)
		p := vlib.Pick(rm, patterns)
		addNames(run, genFont(rm, n, p, true), "stream:malformed", "pattern:"+p)
	}

	// (v) CFF MakeSimple
	nc := vlib.Count(tier, 600, 15000)
	rc := r.Fork("cff")
	addCff(run, &cffSpec{existing: nil}, "stream:boundary")
	addCff(run, &cffSpec{existing: []string{""}, cidKeyed: true}, "stream:boundary")
	{
		// many glyphs with the same text: .alt1 ... .altN
		cs := &cffSpec{cidKeyed: true, existing: make([]string, 40), hasText: true, texts: make([]string, 40)}
		for i := 1; i < 40; i++ {
			cs.texts[i] = "A"
		}
		cs.existing[5] = "A.alt3"
		addCff(run, cs, "stream:boundary")
	}
	for i := 0; i < nc; i++ {
		n := rc.Range(1, 14)
		if rc.Chance(1, 12) {
			n = rc.Range(15, 80)
		}
		p := vlib.Pick(rc, patterns)
		addCff(run, genCff(rc, n, p), "stream:random", "pattern:"+p)
	}

	// (vi) PostScriptName
	rp := r.Fork("ps")
	widths := []int{0, 1, 2, 3, 4, 5, 6, 7, 8, 9, 10, 77}
	weights := []int{0, 1, 100, 200, 300, 400, 450, 500, 600, 700, 800, 900, 1000}
	for _, fam := range familyPool {
		addPs(run, &psSpec{family: fam, width: 5, weight: 400}, "ps:pool")
	}
	np := vlib.Count(tier, 400, 10000)
	for i := 0; i < np; i++ {
		fam := vlib.Pick(rp, familyPool)
		switch rp.Intn(4) {
		case 0:
			fam = string(rp.Bytes(rp.Intn(12)))
		case 1:
			var sb strings.Builder
			for k := rp.Intn(10); k > 0; k-- {
				sb.WriteRune(rune(rp.Intn(0x250)))
			}
			fam = sb.String()
		case 2:
			fam = fam + vlib.Pick(rp, []string{"Bold", "Light", " Condensed", "Black"})
		}
		addPs(run, &psSpec{fam, vlib.Pick(rp, widths), vlib.Pick(rp, weights), rp.Bool(), rp.Bool(), rp.Chance(1, 4)}, "ps:random")
	}
	// all code points (thorough) or a sample of blocks (quick), as family names
	const block = 2048
	nblocks := (int(utf8.MaxRune) + block) / block
	for b := 0; b < nblocks; b++ {
		if tier != "thorough" && !(b < 2 || b == 27 || b == 31 || b == nblocks-1 || rp.Chance(1, 60)) {
			continue
		}
		var sb strings.Builder
		for c := b * block; c < (b+1)*block && c <= utf8.MaxRune; c++ {
			sb.WriteRune(rune(c)) // surrogates become U+FFFD
		}
		addPs(run, &psSpec{family: sb.String(), width: 5, weight: 400}, "ps:codepoint-block")
	}
	run.Extra["codepoint_blocks_of"] = block
	run.Extra["repeat_calls"] = repeatCalls
	_ = names.IsValid
}
