package main

import (
	"seehuhn.de/go/sfnt/verifharness/c20"
	"seehuhn.de/go/sfnt/verifharness/vlib"
)

func main() { vlib.Main(c20.Gen, c20.RunCase) }
