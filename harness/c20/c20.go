// Package c20 exercises glyph-name generation: (*sfnt.Font).MakeGlyphNames /
// EnsureGlyphNames / GlyphName, (*cff.Outlines).MakeSimple and
// (*sfnt.Font).PostScriptName.  Every case is a font built in memory (CFF,
// CID-keyed CFF, or TrueType outlines with a full, short or absent names
// list; a cmap installed as an encoded format 0/4/12 subtable; GSUB lookups of
// type 1, 3 and 4 and others).  The case line carries the finite parts of
// names.FromUnicode / names.IsValid the Coq model needs; the observation is the
// list of names (hex) or "panic".  The oracle states the clauses of C20
// directly on the result and never looks at the model.
package c20

import (
	"errors"
	"fmt"
	"regexp"
	"sort"
	"strings"
	"time"

	"seehuhn.de/go/postscript/cid"
	"seehuhn.de/go/postscript/type1/names"

	"seehuhn.de/go/sfnt"
	"seehuhn.de/go/sfnt/cff"
	"seehuhn.de/go/sfnt/cmap"
	"seehuhn.de/go/sfnt/glyf"
	"seehuhn.de/go/sfnt/glyph"
	"seehuhn.de/go/sfnt/opentype/coverage"
	"seehuhn.de/go/sfnt/opentype/gtab"
	"seehuhn.de/go/sfnt/os2"
	"seehuhn.de/go/sfnt/verifharness/vlib"
)

// ---------------------------------------------------------------- specs

type covEntry struct{ gid, idx int }

type ligSpec struct {
	in  []int
	out int
}

type subSpec struct {
	kind  string // g11 g12 g31 g41 other
	cov   []covEntry
	delta int
	subst []int
	alts  [][]int
	repl  [][]ligSpec
}

type cmapEntry struct {
	r   int
	gid int
}

type fontSpec struct {
	kind     string // cff cid glyf
	n        int
	existing []string // cff/cid: one per glyph; glyf: the Names list (any length)
	cmapFmt  string   // none f0 f4 f12
	cmap     []cmapEntry
	gsub     []subSpec
	hasGsub  bool
}

func hexName(s string) vlib.Sx { return vlib.Hex([]byte(s)) }

func (s subSpec) sx() vlib.Sx {
	cov := vlib.List{}
	for _, e := range s.cov {
		if s.kind == "g11" {
			cov = append(cov, vlib.Int(e.gid))
		} else {
			cov = append(cov, vlib.L(vlib.Int(e.gid), vlib.Int(e.idx)))
		}
	}
	switch s.kind {
	case "g11":
		return vlib.L(vlib.Atom("g11"), cov, vlib.Int(s.delta))
	case "g12":
		return vlib.L(vlib.Atom("g12"), cov, vlib.Ints(s.subst))
	case "g31":
		al := vlib.List{}
		for _, a := range s.alts {
			al = append(al, vlib.Ints(a))
		}
		return vlib.L(vlib.Atom("g31"), cov, al)
	case "g41":
		rl := vlib.List{}
		for _, ls := range s.repl {
			l := vlib.List{}
			for _, lg := range ls {
				l = append(l, vlib.L(vlib.Ints(lg.in), vlib.Int(lg.out)))
			}
			rl = append(rl, l)
		}
		return vlib.L(vlib.Atom("g41"), cov, rl)
	}
	return vlib.Atom("other")
}

// build constructs the font.  The coverage maps are built from the (sorted)
// entry lists, so that the implementation sees real Go maps.
func (fs *fontSpec) build() *sfnt.Font {
	f := &sfnt.Font{FamilyName: "Test"}
	switch fs.kind {
	case "cff", "cid":
		o := &cff.Outlines{}
		for i := 0; i < fs.n; i++ {
			o.Glyphs = append(o.Glyphs, cff.NewGlyph(fs.existing[i], 500))
		}
		if fs.kind == "cid" {
			o.ROS = &cid.SystemInfo{Registry: "Adobe", Ordering: "Identity", Supplement: 0}
			o.GIDToCID = make([]cid.CID, fs.n)
			for i := range o.GIDToCID {
				o.GIDToCID[i] = cid.CID(i)
			}
		}
		f.Outlines = o
	case "glyf":
		o := &glyf.Outlines{Glyphs: make(glyf.Glyphs, fs.n)}
		if fs.existing != nil {
			o.Names = append([]string{}, fs.existing...)
		}
		f.Outlines = o
	}
	switch fs.cmapFmt {
	case "f0":
		c := &cmap.Format0{}
		for _, e := range fs.cmap {
			if e.r >= 0 && e.r < 256 {
				c.Data[e.r] = byte(e.gid)
			}
		}
		f.CMapTable = cmap.Table{{PlatformID: 1, EncodingID: 0}: c.Encode(0)}
	case "f4":
		c := cmap.Format4{}
		for _, e := range fs.cmap {
			c[uint16(e.r)] = glyph.ID(e.gid)
		}
		f.CMapTable = cmap.Table{{PlatformID: 3, EncodingID: 1}: c.Encode(0)}
	case "f12":
		c := cmap.Format12{}
		for _, e := range fs.cmap {
			c[uint32(e.r)] = glyph.ID(e.gid)
		}
		f.CMapTable = cmap.Table{{PlatformID: 3, EncodingID: 10}: c.Encode(0)}
	}
	if fs.hasGsub {
		info := &gtab.Info{}
		for _, s := range fs.gsub {
			var st gtab.Subtable
			var typ uint16
			switch s.kind {
			case "g11":
				cov := coverage.Set{}
				for _, e := range s.cov {
					cov[glyph.ID(e.gid)] = true
				}
				st, typ = &gtab.Gsub1_1{Cov: cov, Delta: glyph.ID(s.delta)}, 1
			case "g12":
				st, typ = &gtab.Gsub1_2{Cov: covTable(s.cov), SubstituteGlyphIDs: gids(s.subst)}, 1
			case "g31":
				al := make([][]glyph.ID, len(s.alts))
				for i, a := range s.alts {
					al[i] = gids(a)
				}
				st, typ = &gtab.Gsub3_1{Cov: covTable(s.cov), Alternates: al}, 3
			case "g41":
				rl := make([][]gtab.Ligature, len(s.repl))
				for i, ls := range s.repl {
					for _, lg := range ls {
						rl[i] = append(rl[i], gtab.Ligature{In: gids(lg.in), Out: glyph.ID(lg.out)})
					}
				}
				st, typ = &gtab.Gsub4_1{Cov: covTable(s.cov), Repl: rl}, 4
			default:
				st, typ = &gtab.Gsub2_1{Cov: coverage.Table{1: 0}, Repl: [][]glyph.ID{{1, 1}}}, 2
			}
			info.LookupList = append(info.LookupList, &gtab.LookupTable{
				Meta: &gtab.LookupMetaInfo{LookupType: typ}, Subtables: []gtab.Subtable{st}})
		}
		f.Gsub = info
	}
	return f
}

func gids(xs []int) []glyph.ID {
	out := make([]glyph.ID, len(xs))
	for i, x := range xs {
		out[i] = glyph.ID(x)
	}
	return out
}

func covTable(es []covEntry) coverage.Table {
	t := coverage.Table{}
	for _, e := range es {
		t[glyph.ID(e.gid)] = e.idx
	}
	return t
}

// probeRunes lists the code points at which the installed cmap is probed: the
// generated code points, and for the byte table (stored under the Macintosh
// key, so its codes are looked up at the Unicode code points of Mac Roman,
// some beyond 255) 0..255 plus every mapped code point of the subtable.
func (fs *fontSpec) probeRunes(sub cmap.Subtable) []int {
	var runes []int
	if fs.cmapFmt == "f0" {
		for r := 0; r < 256; r++ {
			runes = append(runes, r)
		}
		_, hi := sub.CodeRange()
		for r := rune(256); r <= hi && r < 0x10000; r++ {
			if sub.Lookup(r) != 0 {
				runes = append(runes, int(r))
			}
		}
		return runes
	}
	seen := map[int]bool{}
	for _, e := range fs.cmap {
		if !seen[e.r] {
			seen[e.r] = true
			runes = append(runes, e.r)
		}
	}
	sort.Ints(runes)
	return runes
}

// cmapSx reads the installed cmap back through the public API (GetBest,
// CodeRange, Lookup) at the generated code points: these entries are what the
// implementation sees.
func (fs *fontSpec) cmapSx(f *sfnt.Font) vlib.Sx {
	if fs.cmapFmt == "none" || f.CMapTable == nil {
		return vlib.Atom("none")
	}
	sub, _ := f.CMapTable.GetBest()
	if sub == nil {
		return vlib.Atom("none")
	}
	lo, hi := sub.CodeRange()
	runes := fs.probeRunes(sub)
	l := vlib.List{}
	for _, r := range runes {
		if rune(r) < lo || rune(r) > hi {
			continue
		}
		l = append(l, vlib.L(vlib.Int(r), vlib.Int(int(sub.Lookup(rune(r)))), hexName(names.FromUnicode(string(rune(r))))))
	}
	return vlib.L(vlib.Atom(fs.cmapFmt), l)
}

func (fs *fontSpec) line(f *sfnt.Font) string {
	ex := vlib.List{}
	for _, s := range fs.existing {
		ex = append(ex, hexName(s))
	}
	var gs vlib.Sx = vlib.Atom("none")
	if fs.hasGsub {
		l := vlib.List{}
		for _, s := range fs.gsub {
			l = append(l, s.sx())
		}
		gs = l
	}
	return vlib.Line(vlib.Atom("names"), vlib.Atom(fs.kind), vlib.Int(fs.n), ex, fs.cmapSx(f), gs)
}

// ---------------------------------------------------------------- running

func namesSx(res []string) string {
	l := vlib.List{vlib.Atom("ok")}
	for _, s := range res {
		l = append(l, hexName(s))
	}
	return vlib.Str(l)
}

// guarded runs fn; a panic is an observation, a hang a failure of the run.
func guarded(fn func() []string) (res []string, panicked bool, hung bool) {
	type out struct {
		res []string
		p   bool
	}
	ch := make(chan out, 1)
	go func() {
		defer func() {
			if e := recover(); e != nil {
				ch <- out{nil, true}
			}
		}()
		ch <- out{fn(), false}
	}()
	select {
	case o := <-ch:
		return o.res, o.p, false
	case <-time.After(20 * time.Second):
		return nil, false, true
	}
}

var ornRe = regexp.MustCompile(`^orn[0-9]{3,}$`)

// refsInRange: the part of the quantifier "GSUB lookups referring to existing
// glyphs" (and well-formed subtables: coverage indices inside the arrays).
func (fs *fontSpec) refsInRange() bool {
	ok := func(g int) bool { return g >= 0 && g < fs.n }
	for _, s := range fs.gsub {
		for _, e := range s.cov {
			if !ok(e.gid) || e.idx < 0 {
				return false
			}
			switch s.kind {
			case "g11":
				if !ok((e.gid + s.delta) & 0xFFFF) {
					return false
				}
			case "g12":
				if e.idx >= len(s.subst) {
					return false
				}
			case "g31":
				if e.idx >= len(s.alts) {
					return false
				}
			case "g41":
				if e.idx >= len(s.repl) {
					return false
				}
			}
		}
		for _, g := range s.subst {
			if !ok(g) {
				return false
			}
		}
		for _, a := range s.alts {
			for _, g := range a {
				if !ok(g) {
					return false
				}
			}
		}
		for _, ls := range s.repl {
			for _, lg := range ls {
				if !ok(lg.out) {
					return false
				}
				for _, g := range lg.in {
					if !ok(g) {
						return false
					}
				}
			}
		}
	}
	return true
}

// effective existing names: what the font holds per glyph before the call
func (fs *fontSpec) effective() []string {
	eff := make([]string, fs.n)
	if fs.kind == "glyf" {
		if len(fs.existing) == fs.n {
			copy(eff, fs.existing)
		}
	} else {
		copy(eff, fs.existing)
	}
	return eff
}

// checkNames states the clauses on a result: one non-empty name per glyph,
// pairwise distinct, glyph 0 = .notdef, existing unique names kept.
// keepable(name) says whether an existing name is one the function may keep
// (always true for MakeGlyphNames, names.IsValid for MakeSimple).
func checkNames(res []string, eff []string, keepable func(string) bool) (detail, sig string) {
	n := len(eff)
	if len(res) != n {
		return fmt.Sprintf("%d names for %d glyphs", len(res), n), "c20-count"
	}
	seen := map[string]int{}
	for i, s := range res {
		if s == "" {
			return fmt.Sprintf("glyph %d has no name", i), "c20-empty-name"
		}
		if j, dup := seen[s]; dup {
			return fmt.Sprintf("glyphs %d and %d are both named %q", j, i, s), "c20-duplicate-name"
		}
		seen[s] = i
	}
	if n > 0 && res[0] != ".notdef" {
		return fmt.Sprintf("glyph 0 is named %q", res[0]), "c20-notdef"
	}
	cnt := map[string]int{".notdef": 1} // glyph 0 always counts as .notdef
	for i := 1; i < n; i++ {
		cnt[eff[i]]++
	}
	for i := 1; i < n; i++ {
		if eff[i] != "" && cnt[eff[i]] == 1 && keepable(eff[i]) && res[i] != eff[i] {
			return fmt.Sprintf("glyph %d: existing unique name %q replaced by %q", i, eff[i], res[i]), "c20-existing-name-lost"
		}
	}
	return "", ""
}

const repeatCalls = 50

// isVariantOf: name is base, or base followed by the suffix ".N" (N >= 1,
// decimal) that makeVariant's numbering adds.
func isVariantOf(name, base string) bool {
	if base == "" || !strings.HasPrefix(name, base) {
		return false
	}
	rest := name[len(base):]
	if rest == "" {
		return true
	}
	if len(rest) < 2 || rest[0] != '.' || rest[1] == '0' {
		return false
	}
	for i := 1; i < len(rest); i++ {
		if rest[i] < '0' || rest[i] > '9' {
			return false
		}
	}
	return true
}

// provenance states "missing names are inferred from the character map or from
// substitution rules (variant and ligature names) before falling back to
// numbered placeholders" on the result alone.  A name, once given, is never
// changed, so the names the components of a rule had when the rule was used
// are their final names.  Hence every glyph that received a new name has
//   - the Adobe name of a code point the cmap maps to it, or
//   - the (final) name of a glyph that a type 1 / type 3 rule substitutes by
//     it, possibly with a variant suffix, or
//   - the (final) names of the components of a ligature whose output it is,
//     joined by "_", possibly with a variant suffix, or
//   - a numbered placeholder.
func (fs *fontSpec) provenance(f *sfnt.Font, res, eff []string) string {
	n := fs.n
	bases := make([][]string, n) // candidate base names per target glyph
	add := func(g int, base string) {
		if g >= 0 && g < n {
			bases[g] = append(bases[g], base)
		}
	}
	for _, s := range fs.gsub {
		for _, e := range s.cov {
			if e.gid < 0 || e.gid >= n {
				continue
			}
			switch s.kind {
			case "g11":
				add((e.gid+s.delta)&0xFFFF, res[e.gid])
			case "g12":
				if e.idx >= 0 && e.idx < len(s.subst) {
					add(s.subst[e.idx], res[e.gid])
				}
			case "g31":
				if e.idx >= 0 && e.idx < len(s.alts) {
					for _, g := range s.alts[e.idx] {
						add(g, res[e.gid])
					}
				}
			case "g41":
				if e.idx >= 0 && e.idx < len(s.repl) {
					for _, lg := range s.repl[e.idx] {
						parts := []string{res[e.gid]}
						for _, g := range lg.in {
							if g >= 0 && g < n {
								parts = append(parts, res[g])
							}
						}
						add(lg.out, strings.Join(parts, "_"))
					}
				}
			}
		}
	}
	cmapNames := make([][]string, n)
	if sub, _ := f.CMapTable.GetBest(); f.CMapTable != nil && sub != nil {
		for _, r := range fs.probeRunes(sub) {
			if g := int(sub.Lookup(rune(r))); g > 0 && g < n {
				cmapNames[g] = append(cmapNames[g], names.FromUnicode(string(rune(r))))
			}
		}
	}
	// "... before falling back to numbered placeholders", the converse for
	// substitution rules: a glyph that a type 1 / type 3 rule produces from a
	// glyph which had its name from the start (an existing name that was kept,
	// so it was there when the rule was looked at) does not end with a
	// placeholder - a variant name can always be made.
	named := func(g int) bool {
		if g < 0 || g >= n {
			return false
		}
		if g == 0 {
			return res[0] == ".notdef"
		}
		if eff[g] != "" && res[g] == eff[g] {
			return true
		}
		// named from the cmap (that phase comes before the rules): no rule
		// produces the glyph, so its name cannot be a variant name
		if len(bases[g]) == 0 {
			for _, c := range cmapNames[g] {
				if c != "" && c == res[g] {
					return true
				}
			}
		}
		return false
	}
	needs := func(orig, g int) string {
		if g > 0 && g < n && named(orig) && res[g] != eff[g] && ornRe.MatchString(res[g]) {
			return fmt.Sprintf("glyph %d got the placeholder %q although a substitution rule produces it from glyph %d, which kept its name %q: a variant name was due", g, res[g], orig, res[orig])
		}
		return ""
	}
	for _, s := range fs.gsub {
		for _, e := range s.cov {
			if e.gid < 0 || e.gid >= n {
				continue
			}
			switch s.kind {
			case "g11":
				if d := needs(e.gid, (e.gid+s.delta)&0xFFFF); d != "" {
					return d
				}
			case "g12":
				if e.idx >= 0 && e.idx < len(s.subst) {
					if d := needs(e.gid, s.subst[e.idx]); d != "" {
						return d
					}
				}
			case "g31":
				if e.idx >= 0 && e.idx < len(s.alts) {
					for _, g := range s.alts[e.idx] {
						if d := needs(e.gid, g); d != "" {
							return d
						}
					}
				}
			}
		}
	}
glyphs:
	for g := 1; g < n; g++ {
		if res[g] == eff[g] || ornRe.MatchString(res[g]) {
			continue
		}
		for _, c := range cmapNames[g] {
			if res[g] == c {
				continue glyphs
			}
		}
		for _, b := range bases[g] {
			if isVariantOf(res[g], b) {
				continue glyphs
			}
		}
		return fmt.Sprintf("glyph %d was named %q; the cmap offers %q, the substitution rules that produce it give %q (plus a variant suffix)", g, res[g], cmapNames[g], bases[g])
	}
	return ""
}

// exec builds the font, observes MakeGlyphNames and evaluates the oracle.
func (fs *fontSpec) exec() (line, impl, fail, sig string) {
	f := fs.build()
	line = fs.line(f)
	inDomain := fs.n >= 1 && fs.refsInRange()

	res, panicked, hung := guarded(func() []string { return f.MakeGlyphNames() })
	if hung {
		return line, "hang", "MakeGlyphNames did not return within 20 s", "c20-hang"
	}
	if panicked {
		impl = "panic"
		if inDomain {
			return line, impl, "MakeGlyphNames panics on a font whose cmap/GSUB refer to existing glyphs only", "c20-panic"
		}
		return line, impl, "", ""
	}
	impl = namesSx(res)
	if !inDomain {
		return line, impl, "", ""
	}
	eff := fs.effective()
	if d, s := checkNames(res, eff, func(string) bool { return true }); d != "" {
		return line, impl, d, s
	}

	// inferred from the character map before falling back to placeholders:
	// a glyph that ends up with a placeholder had no usable cmap name, i.e.
	// every name the cmap offers for it is held by another glyph
	held := map[string]int{}
	for i, s := range res {
		held[s] = i
	}
	if sub, _ := f.CMapTable.GetBest(); f.CMapTable != nil && sub != nil {
		for _, r := range fs.probeRunes(sub) {
			g := int(sub.Lookup(rune(r)))
			if g <= 0 || g >= fs.n || !ornRe.MatchString(res[g]) || res[g] == eff[g] {
				continue
			}
			nm := names.FromUnicode(string(rune(r)))
			if h, ok := held[nm]; nm != "" && (!ok || h == g) {
				return line, impl, fmt.Sprintf("glyph %d got placeholder %q although the cmap name %q (U+%04X) is free", g, res[g], nm, r), "c20-cmap-name-not-used"
			}
		}
	}

	// inferred from substitution rules: every name the function made up is
	// explained by the cmap, by a GSUB rule, or is a placeholder
	if d := fs.provenance(f, res, eff); d != "" {
		return line, impl, d, "c20-inferred-name"
	}

	// asking again returns the same names (the font is unchanged)
	reps := repeatCalls
	if sub, _ := f.CMapTable.GetBest(); f.CMapTable != nil && sub != nil {
		if lo, hi := sub.CodeRange(); hi-lo > 0x4000 {
			reps = 6 // the implementation walks the whole code range on every call
		}
	}
	for k := 0; k < reps; k++ {
		again, p, _ := guarded(func() []string { return f.MakeGlyphNames() })
		if p || strings.Join(again, "\x00") != strings.Join(res, "\x00") {
			return line, impl, fmt.Sprintf("call %d returned different names: %q vs %q", k+2, again, res), "c20-unstable-names"
		}
	}
	// a freshly built, identical font gives the same names
	if other, p, _ := guarded(func() []string { return fs.build().MakeGlyphNames() }); p || strings.Join(other, "\x00") != strings.Join(res, "\x00") {
		return line, impl, fmt.Sprintf("an identical font returned different names: %q vs %q", other, res), "c20-unstable-names"
	}

	// installing the names makes them retrievable per glyph, and asking again
	// returns them
	g := fs.build()
	inst, p, _ := guarded(func() []string {
		g.EnsureGlyphNames()
		out := make([]string, g.NumGlyphs())
		for i := range out {
			out[i] = g.GlyphName(glyph.ID(i))
		}
		return out
	})
	if p || strings.Join(inst, "\x00") != strings.Join(res, "\x00") {
		return line, impl, fmt.Sprintf("after EnsureGlyphNames, GlyphName gives %q, MakeGlyphNames gave %q", inst, res), "c20-install"
	}
	again, p, _ := guarded(func() []string { return g.MakeGlyphNames() })
	if p || strings.Join(again, "\x00") != strings.Join(res, "\x00") {
		return line, impl, fmt.Sprintf("after installing, MakeGlyphNames gives %q instead of %q", again, res), "c20-not-idempotent"
	}
	return line, impl, "", ""
}

// ---------------------------------------------------------------- CFF MakeSimple

type cffSpec struct {
	cidKeyed bool
	existing []string
	hasText  bool
	texts    []string // one per glyph ("" = absent)
}

func (cs *cffSpec) build() (*cff.Outlines, map[glyph.ID]string) {
	o := &cff.Outlines{}
	for _, s := range cs.existing {
		o.Glyphs = append(o.Glyphs, cff.NewGlyph(s, 500))
	}
	if cs.cidKeyed {
		o.ROS = &cid.SystemInfo{Registry: "Adobe", Ordering: "Identity", Supplement: 0}
		o.GIDToCID = make([]cid.CID, len(cs.existing))
		for i := range o.GIDToCID {
			o.GIDToCID[i] = cid.CID(i)
		}
	}
	var gt map[glyph.ID]string
	if cs.hasText {
		gt = map[glyph.ID]string{}
		for i, t := range cs.texts {
			if t != "" {
				gt[glyph.ID(i)] = t
			}
		}
	}
	return o, gt
}

func (cs *cffSpec) line() string {
	n := len(cs.existing)
	ex := vlib.List{}
	valid := map[string]bool{}
	var order []string
	addValid := func(s string) {
		if _, ok := valid[s]; !ok {
			valid[s] = names.IsValid(s)
			order = append(order, s)
		}
	}
	addValid(".notdef")
	addValid("")
	for _, s := range cs.existing {
		ex = append(ex, hexName(s))
		addValid(s)
	}
	var tx vlib.Sx = vlib.Atom("none")
	if cs.hasText {
		l := vlib.List{}
		for i := 0; i < n; i++ {
			t := ""
			if i < len(cs.texts) {
				t = cs.texts[i]
			}
			base := names.FromUnicode(t)
			l = append(l, vlib.L(hexName(t), hexName(base)))
			if t != "" {
				// every candidate the loop can reach: it stops at the first
				// invalid or unused one, and at most n+1 names are in use
				for try := 0; try <= n+2; try++ {
					c := base
					if try > 0 {
						c = fmt.Sprintf("%s.alt%d", base, try)
					}
					addValid(c)
					if !valid[c] {
						break
					}
				}
			}
		}
		tx = l
	}
	vl := vlib.List{}
	for _, s := range order {
		vl = append(vl, vlib.L(hexName(s), vlib.Bool(valid[s])))
	}
	kind := "simple"
	if cs.cidKeyed {
		kind = "cid"
	}
	return vlib.Line(vlib.Atom("cff"), vlib.Atom(kind), ex, tx, vl)
}

func outlineNames(o *cff.Outlines) []string {
	out := make([]string, len(o.Glyphs))
	for i, g := range o.Glyphs {
		out[i] = g.Name
	}
	return out
}

func (cs *cffSpec) exec() (line, impl, fail, sig string) {
	line = cs.line()
	o, gt := cs.build()
	res, panicked, hung := guarded(func() []string { o.MakeSimple(gt); return outlineNames(o) })
	if hung {
		return line, "hang", "MakeSimple did not return within 20 s", "c20-hang"
	}
	if panicked {
		impl = "panic"
		if len(cs.existing) >= 1 {
			return line, impl, "MakeSimple panics", "c20-cff-panic"
		}
		return line, impl, "", ""
	}
	impl = namesSx(res)
	eff := append([]string{}, cs.existing...)
	if d, s := checkNames(res, eff, names.IsValid); d != "" {
		return line, impl, d, "cff-" + s
	}
	if o.ROS != nil || o.GIDToCID != nil || len(o.Encoding) != 256 {
		return line, impl, "MakeSimple left CID data or no encoding", "c20-cff-not-simple"
	}
	// text-derived names come before placeholders
	held := map[string]bool{}
	for _, s := range res {
		held[s] = true
	}
	for i, t := range cs.texts {
		if !cs.hasText || t == "" || i >= len(res) || !ornRe.MatchString(res[i]) || res[i] == eff[i] {
			continue
		}
		base := names.FromUnicode(t)
		if names.IsValid(base) && !held[base] {
			return line, impl, fmt.Sprintf("glyph %d got placeholder %q although the text name %q is free", i, res[i], base), "c20-cff-text-name-not-used"
		}
	}
	// same rules on the converted font: converting again changes nothing,
	// and an identical font converts to the same names
	again, p, _ := guarded(func() []string { o.MakeSimple(gt); return outlineNames(o) })
	if p || strings.Join(again, "\x00") != strings.Join(res, "\x00") {
		return line, impl, fmt.Sprintf("second MakeSimple gives %q instead of %q", again, res), "c20-cff-not-idempotent"
	}
	for k := 0; k < 5; k++ {
		o2, gt2 := cs.build()
		other, p, _ := guarded(func() []string { o2.MakeSimple(gt2); return outlineNames(o2) })
		if p || strings.Join(other, "\x00") != strings.Join(res, "\x00") {
			return line, impl, fmt.Sprintf("an identical font converts to %q instead of %q", other, res), "c20-cff-unstable-names"
		}
	}
	return line, impl, "", ""
}

// ---------------------------------------------------------------- PostScriptName

type psSpec struct {
	family  string
	width   int
	weight  int
	bold    bool
	italic  bool
	oblique bool
}

func (ps *psSpec) font() *sfnt.Font {
	return &sfnt.Font{FamilyName: ps.family, Width: os2.Width(ps.width), Weight: os2.Weight(ps.weight),
		IsBold: ps.bold, IsItalic: ps.italic, IsOblique: ps.oblique}
}

// psRegular is the specification: printable ASCII without white space and the
// PostScript delimiters.
func psRegular(c byte) bool {
	return c >= 33 && c <= 126 && !strings.ContainsRune("()<>[]{}/%", rune(c))
}

func (ps *psSpec) exec() (line, impl, fail, sig string) {
	f := ps.font()
	var sub, out string
	_, panicked, _ := guarded(func() []string { sub = f.Subfamily(); out = f.PostScriptName(); return nil })
	line = vlib.Line(vlib.Atom("psname"), hexName(ps.family), hexName(sub),
		vlib.L(vlib.Int(ps.width), vlib.Int(ps.weight), vlib.Bool(ps.bold), vlib.Bool(ps.italic), vlib.Bool(ps.oblique)))
	if panicked {
		return line, "panic", "PostScriptName panics", "c20-psname-panic"
	}
	impl = vlib.Str(hexName(out))
	for i := 0; i < len(out); i++ {
		if !psRegular(out[i]) {
			return line, impl, fmt.Sprintf("PostScript name %q contains byte 0x%02x", out, out[i]), "c20-psname-charset"
		}
	}
	return line, impl, "", ""
}

// psClass observes, for every byte value b, whether PostScriptName keeps b.
func psClass() (line, impl, fail, sig string) {
	line = "psclass"
	var sb strings.Builder
	for b := 0; b < 256; b++ {
		f := &sfnt.Font{FamilyName: "A" + string([]byte{byte(b)}) + "Z"}
		out := f.PostScriptName()
		kept := false
		switch {
		case out == "AZ-Regular":
		case len(out) == 11 && out[0] == 'A' && out[1] == byte(b) && out[2:] == "Z-Regular":
			kept = true
		default:
			return line, "(class ?)", fmt.Sprintf("byte 0x%02x: unexpected PostScript name %q", b, out), "c20-psname-shape"
		}
		if kept {
			sb.WriteByte('1')
		} else {
			sb.WriteByte('0')
		}
		if kept && !psRegular(byte(b)) {
			fail, sig = fmt.Sprintf("byte 0x%02x is kept in the PostScript name", b), "c20-psname-charset"
		}
	}
	return line, "(class " + sb.String() + ")", fail, sig
}

// ---------------------------------------------------------------- parsing (RunCase)

func unhexName(x vlib.Sx) (string, error) {
	b, err := vlib.AsBytes(x)
	return string(b), err
}

func parseCov(x vlib.Sx, pairs bool) ([]covEntry, error) {
	l, err := vlib.AsList(x)
	if err != nil {
		return nil, err
	}
	var out []covEntry
	for _, e := range l {
		if !pairs {
			g, err := vlib.AsInt(e)
			if err != nil {
				return nil, err
			}
			out = append(out, covEntry{g, 0})
			continue
		}
		p, err := vlib.AsInts(e)
		if err != nil || len(p) != 2 {
			return nil, errors.New("bad coverage entry")
		}
		out = append(out, covEntry{p[0], p[1]})
	}
	return out, nil
}

func parseSub(x vlib.Sx) (subSpec, error) {
	if a, ok := x.(vlib.Atom); ok {
		if a == "other" {
			return subSpec{kind: "other"}, nil
		}
		return subSpec{}, errors.New("bad subtable")
	}
	l, err := vlib.AsList(x)
	if err != nil || len(l) != 3 {
		return subSpec{}, errors.New("bad subtable")
	}
	k, _ := vlib.AsAtom(l[0])
	s := subSpec{kind: k}
	switch k {
	case "g11":
		if s.cov, err = parseCov(l[1], false); err != nil {
			return s, err
		}
		s.delta, err = vlib.AsInt(l[2])
		return s, err
	case "g12":
		if s.cov, err = parseCov(l[1], true); err != nil {
			return s, err
		}
		s.subst, err = vlib.AsInts(l[2])
		return s, err
	case "g31":
		if s.cov, err = parseCov(l[1], true); err != nil {
			return s, err
		}
		al, err := vlib.AsList(l[2])
		if err != nil {
			return s, err
		}
		for _, a := range al {
			xs, err := vlib.AsInts(a)
			if err != nil {
				return s, err
			}
			s.alts = append(s.alts, xs)
		}
		return s, nil
	case "g41":
		if s.cov, err = parseCov(l[1], true); err != nil {
			return s, err
		}
		rl, err := vlib.AsList(l[2])
		if err != nil {
			return s, err
		}
		for _, ls := range rl {
			ll, err := vlib.AsList(ls)
			if err != nil {
				return s, err
			}
			var row []ligSpec
			for _, lg := range ll {
				p, err := vlib.AsList(lg)
				if err != nil || len(p) != 2 {
					return s, errors.New("bad ligature")
				}
				in, err := vlib.AsInts(p[0])
				if err != nil {
					return s, err
				}
				out, err := vlib.AsInt(p[1])
				if err != nil {
					return s, err
				}
				row = append(row, ligSpec{in, out})
			}
			s.repl = append(s.repl, row)
		}
		return s, nil
	}
	return s, errors.New("bad subtable kind")
}

func parseNamesCase(items []vlib.Sx) (*fontSpec, error) {
	if len(items) != 6 {
		return nil, errors.New("names case: want 6 items")
	}
	fs := &fontSpec{}
	var err error
	if fs.kind, err = vlib.AsAtom(items[1]); err != nil {
		return nil, err
	}
	if fs.kind != "cff" && fs.kind != "cid" && fs.kind != "glyf" {
		return nil, errors.New("bad font kind")
	}
	if fs.n, err = vlib.AsInt(items[2]); err != nil {
		return nil, err
	}
	ex, err := vlib.AsList(items[3])
	if err != nil {
		return nil, err
	}
	if fs.kind == "glyf" && len(ex) > 0 {
		fs.existing = []string{}
	}
	for _, e := range ex {
		s, err := unhexName(e)
		if err != nil {
			return nil, err
		}
		fs.existing = append(fs.existing, s)
	}
	if fs.kind != "glyf" && len(fs.existing) != fs.n {
		return nil, errors.New("CFF font: one name per glyph expected")
	}
	fs.cmapFmt = "none"
	if cl, ok := items[4].(vlib.List); ok {
		if len(cl) != 2 {
			return nil, errors.New("bad cmap")
		}
		if fs.cmapFmt, err = vlib.AsAtom(cl[0]); err != nil {
			return nil, err
		}
		es, err := vlib.AsList(cl[1])
		if err != nil {
			return nil, err
		}
		for _, e := range es {
			p, err := vlib.AsList(e)
			if err != nil || len(p) != 3 {
				return nil, errors.New("bad cmap entry")
			}
			r, err1 := vlib.AsInt(p[0])
			g, err2 := vlib.AsInt(p[1])
			if err1 != nil || err2 != nil {
				return nil, errors.New("bad cmap entry")
			}
			fs.cmap = append(fs.cmap, cmapEntry{r, g})
		}
	}
	if gl, ok := items[5].(vlib.List); ok {
		fs.hasGsub = true
		for _, x := range gl {
			s, err := parseSub(x)
			if err != nil {
				return nil, err
			}
			fs.gsub = append(fs.gsub, s)
		}
	}
	return fs, nil
}

func parseCffCase(items []vlib.Sx) (*cffSpec, error) {
	if len(items) != 5 {
		return nil, errors.New("cff case: want 5 items")
	}
	cs := &cffSpec{}
	k, _ := vlib.AsAtom(items[1])
	cs.cidKeyed = k == "cid"
	ex, err := vlib.AsList(items[2])
	if err != nil {
		return nil, err
	}
	for _, e := range ex {
		s, err := unhexName(e)
		if err != nil {
			return nil, err
		}
		cs.existing = append(cs.existing, s)
	}
	if tl, ok := items[3].(vlib.List); ok {
		cs.hasText = true
		for _, e := range tl {
			p, err := vlib.AsList(e)
			if err != nil || len(p) != 2 {
				return nil, errors.New("bad text entry")
			}
			t, err := unhexName(p[0])
			if err != nil {
				return nil, err
			}
			cs.texts = append(cs.texts, t)
		}
	}
	return cs, nil
}

// RunCase re-executes one case line.
func RunCase(line string) (impl, fail, sig string, err error) {
	items, err := vlib.Parse(line)
	if err != nil {
		return "", "", "", err
	}
	if len(items) == 0 {
		return "", "", "", errors.New("empty case")
	}
	head, _ := vlib.AsAtom(items[0])
	switch head {
	case "names":
		fs, err := parseNamesCase(items)
		if err != nil {
			return "", "", "", err
		}
		_, impl, fail, sig = fs.exec()
		return impl, fail, sig, nil
	case "cff":
		cs, err := parseCffCase(items)
		if err != nil {
			return "", "", "", err
		}
		_, impl, fail, sig = cs.exec()
		return impl, fail, sig, nil
	case "psname":
		if len(items) != 4 {
			return "", "", "", errors.New("psname case: want 4 items")
		}
		fam, err := unhexName(items[1])
		if err != nil {
			return "", "", "", err
		}
		p, err := vlib.AsInts(items[3])
		if err != nil || len(p) != 5 {
			return "", "", "", errors.New("bad style")
		}
		ps := &psSpec{fam, p[0], p[1], p[2] == 1, p[3] == 1, p[4] == 1}
		_, impl, fail, sig = ps.exec()
		return impl, fail, sig, nil
	case "psclass":
		_, impl, fail, sig = psClass()
		return impl, fail, sig, nil
	}
	return "", "", "", errors.New("unknown case kind " + head)
}
