package c06

import (
	"fmt"
	"sort"
	"strings"

	"seehuhn.de/go/sfnt/opentype/gtab"
	"seehuhn.de/go/sfnt/verifharness/vlib"
)

// runImpl applies the lookups with the real engine (a fresh Context per
// sequence); a panic is an observation.
func runImpl(c *Case, seq []Glyph) (out []Glyph, panicked bool) {
	ll, ok := toGtab(c.LL)
	if !ok {
		return nil, true
	}
	gd := c.Gdef.toGtab()
	order := make([]gtab.LookupIndex, len(c.Order))
	for i, o := range c.Order {
		order[i] = gtab.LookupIndex(o)
	}
	defer func() {
		if e := recover(); e != nil {
			out, panicked = nil, true
		}
	}()
	res := gtab.NewContext(ll, gd, order).Apply(toInfo(seq))
	return fromInfo(res), false
}

func obsSx(seq []Glyph) string { return vlib.Str(seqSx(seq)) }

func hasUnsup(ll []Lookup) bool {
	for i := range ll {
		for j := range ll[i].Subs {
			if ll[i].Subs[j].Kind == "unsup" {
				return true
			}
		}
	}
	return false
}

func gsubOnly(ll []Lookup) bool {
	for i := range ll {
		for j := range ll[i].Subs {
			switch ll[i].Subs[j].Kind {
			case "p1", "p2", "pp1", "pp2", "mb", "mm", "unsup":
				return false
			}
		}
	}
	return true
}

func isContextual(kind string) bool {
	switch kind {
	case "c1", "c2", "c3", "k1", "k2", "k3":
		return true
	}
	return false
}

type failure struct {
	seq    []Glyph
	detail string
	sig    string
}

// result of one case: the implementation's observation line (one entry per
// sequence: `ood`, `panic` or the shaped sequence) and the oracle's verdicts.
type caseResult struct {
	impl     string
	inDomain int
	changed  int
	known    int
	fails    []failure
}

func textMultiset(seq []Glyph) string {
	var t []int
	for _, g := range seq {
		t = append(t, g.Text...)
	}
	sort.Ints(t)
	return fmt.Sprint(t)
}

func sameSeq(a, b []Glyph) bool { return obsSx(a) == obsSx(b) }

// skippedOrderOracle: for a single non-contextual lookup, every glyph of the
// input which the lookup's flags skip must appear unchanged and in the same
// relative order in the output (OpenType: the lookup is applied as if the
// ignored glyphs were not present).  Stated directly on the engine's result.
func skippedOrderOracle(c *Case, in, out []Glyph) string {
	if len(c.Order) != 1 || c.Order[0] >= len(c.LL) {
		return ""
	}
	lk := &c.LL[c.Order[0]]
	for i := range lk.Subs {
		if isContextual(lk.Subs[i].Kind) || lk.Subs[i].Kind == "unsup" {
			return ""
		}
	}
	r := &refShaper{ll: c.LL, gd: c.Gdef}
	j := 0
	for _, g := range in {
		if r.keep(lk, g.GID) {
			continue
		}
		found := false
		for j < len(out) {
			o := out[j]
			j++
			if sameSeq([]Glyph{o}, []Glyph{g}) {
				found = true
				break
			}
		}
		if !found {
			return fmt.Sprintf("skipped glyph %s lost, changed or reordered", obsSx([]Glyph{g}))
		}
	}
	return ""
}

func evalCase(c *Case) caseResult {
	var res caseResult
	parts := make([]string, len(c.Seqs))
	unsup := hasUnsup(c.LL)
	gsub := gsubOnly(c.LL)
	for i, seq := range c.Seqs {
		ref, hardOK, div := ReferenceFull(c.LL, c.Gdef, c.Order, seq)
		dom := hardOK && div == "" && !unsup
		if !dom {
			// outside the domain the outcome is not defined by the documented
			// rules, or the engine is known to diverge from them (open
			// findings): not compared with the model
			parts[i] = "ood"
			if hardOK && !unsup && div != "" {
				// known divergence: report it under its own signature when the
				// engine really differs from the specified outcome
				res.known++
				out, panicked := runImpl(c, seq)
				if panicked || !sameSeq(out, ref) {
					res.fails = append(res.fails, failure{seq, "engine: " + obsSx(out) + " specification: " + obsSx(ref), div})
				}
			}
			continue
		}
		res.inDomain++
		out, panicked := runImpl(c, seq)
		if panicked {
			parts[i] = "panic"
			res.fails = append(res.fails, failure{seq, "the engine panics on an in-domain input; reference: " + obsSx(ref), "c06-panic-in-domain"})
			continue
		}
		parts[i] = obsSx(out)
		if !sameSeq(out, seq) {
			res.changed++
		}
		if !sameSeq(out, ref) {
			res.fails = append(res.fails, failure{seq, "engine: " + obsSx(out) + " reference: " + obsSx(ref), "c06-differs-from-reference"})
			continue
		}
		// model-independent statements of the property's clauses
		if gsub && textMultiset(out) != textMultiset(seq) {
			res.fails = append(res.fails, failure{seq, "text not conserved: " + obsSx(out), "c06-text-not-conserved"})
		}
		if msg := skippedOrderOracle(c, seq, out); msg != "" {
			res.fails = append(res.fails, failure{seq, msg + ": " + obsSx(out), "c06-skipped-glyph-touched"})
		}
	}
	res.impl = "(" + strings.Join(parts, " ") + ")"
	return res
}

// RunCase re-executes one case line (corpus entries and replays).
func RunCase(line string) (impl, fail, sig string, err error) {
	c, err := ParseCase(line)
	if err != nil {
		return "", "", "", err
	}
	r := evalCase(c)
	if len(r.fails) > 0 {
		f := r.fails[0]
		return r.impl, "sequence " + obsSx(f.seq) + ": " + f.detail, f.sig, nil
	}
	return r.impl, "", "", nil
}

type stats struct {
	seqs, inDomain, changed, known int
	knownReported                  map[string]int
}

// add runs one case (a lookup list with a batch of sequences) and records it.
func add(run *vlib.Run, st *stats, c *Case, labels ...string) {
	r := evalCase(c)
	line := c.Line()
	st.seqs += len(c.Seqs)
	st.inDomain += r.inDomain
	st.changed += r.changed
	st.known += r.known
	if r.inDomain == 0 {
		labels = append(labels, "all-ood")
	}
	idx := run.Add(line, r.impl, r.changed > 0, labels...)
	for _, f := range r.fails {
		if f.sig == divMarkMark || f.sig == divGsub8 {
			// open findings: a few witnesses per run are enough (the failure
			// list is capped, new failures must not be crowded out)
			if st.knownReported == nil {
				st.knownReported = map[string]int{}
			}
			st.knownReported[f.sig]++
			if st.knownReported[f.sig] > 5 {
				continue
			}
		}
		// report the single failing sequence as its own (replayable) case
		single := &Case{Gdef: c.Gdef, LL: c.LL, Order: c.Order, Seqs: [][]Glyph{f.seq}}
		run.Fail(idx, single.Line(), f.detail, f.sig)
	}
}

const batchSize = 256

func addBatched(run *vlib.Run, st *stats, gd *Gdef, ll []Lookup, order []int, seqs [][]Glyph, labels ...string) {
	for i := 0; i < len(seqs); i += batchSize {
		j := i + batchSize
		if j > len(seqs) {
			j = len(seqs)
		}
		add(run, st, &Case{Gdef: gd, LL: ll, Order: order, Seqs: seqs[i:j]}, labels...)
	}
}

// Gen writes the run for the given tier.
func Gen(run *vlib.Run, seed uint64, tier string) {
	run.Rule = "one case = a lookup list, GDEF and lookup order with a batch of glyph sequences; the engine (gtab.Context.Apply, fresh context) is compared per sequence with the reference shaper on in-domain inputs; non-trivial = at least one in-domain sequence of the batch is changed by the lookups; distinct by the whole case line"
	r := vlib.NewRand(seed)
	st := &stats{}

	// (i) pinned cases of the repository
	nPinned, pinnedOOD := genPinned(run, st)
	run.Extra["pinned_cases"] = nPinned
	run.Extra["pinned_out_of_domain"] = pinnedOOD

	// (ii) exhaustive small sequences against the catalogue
	maxLen := vlib.Count(tier, 4, 6)
	maxLenExt := vlib.Count(tier, 3, 5)
	cat := catalogue()
	used := 0
	for i, e := range cat {
		n := maxLen
		if e.ext {
			n = maxLenExt
			// quick tier: a seed-dependent quarter of the extended cross product
			if tier != "thorough" && (uint64(i)+seed)%4 != 0 {
				continue
			}
		}
		used++
		seqs := allSeqs(e.alphabet, n)
		addBatched(run, st, e.gd, e.ll, e.order, seqs, append([]string{"exhaustive"}, e.labels...)...)
	}
	run.Extra["catalogue_entries"] = len(cat)
	run.Extra["catalogue_entries_used"] = used
	run.Extra["exhaustive_max_len"] = maxLen
	run.Extra["exhaustive_max_len_extended"] = maxLenExt

	// (iii) random lookup lists and longer sequences
	nr := vlib.Count(tier, 1500, 60000)
	for i := 0; i < nr; i++ {
		c, labels := randomCase(r)
		add(run, st, c, append([]string{"random"}, labels...)...)
	}

	run.Extra["sequences"] = st.seqs
	run.Extra["sequences_in_domain"] = st.inDomain
	run.Extra["sequences_changed_by_lookups"] = st.changed
	run.Extra["sequences_in_known_divergence_classes"] = st.known
	run.Extra["known_divergences_observed"] = st.knownReported
}
