package c06

// The harness's reference shaper: GSUB/GPOS lookup application written from
// the OpenType rules and the documented decisions of
// opentype/gtab/testcases (sections 1-3, 5).  It decides which inputs are
// inside the domain where those rules define the outcome (ok flag) and is the
// oracle the implementation is compared with.  It is the Go counterpart of
// coq/C06/Model.v (R_shape); the two are tied by the correspondence check
// (the extracted Coq model must print what the implementation prints).

const (
	flagBase  = 0x0002
	flagLig   = 0x0004
	flagMarks = 0x0008
	flagMFS   = 0x0010
	maskAtt   = 0xFF00

	classBase = 1
	classLig  = 2
	classMark = 3

	actionBudget = 64 // the implementation's `numActions < 64`; the Coq model takes it from Gen/Consts.v
	sizeCap      = 1024
)

func lookupClass(cd [][2]int, g int) int {
	for _, e := range cd {
		if e[0] == g {
			return e[1]
		}
	}
	return 0
}

func memInt(x int, l []int) bool {
	for _, y := range l {
		if x == y {
			return true
		}
	}
	return false
}

type refShaper struct {
	ll []Lookup
	gd *Gdef
}

func (r *refShaper) keep(lk *Lookup, g int) bool {
	if r.gd == nil {
		return true
	}
	switch lookupClass(r.gd.Class, g) {
	case classBase:
		return lk.Flags&flagBase == 0
	case classLig:
		return lk.Flags&flagLig == 0
	case classMark:
		if lk.Flags&flagMarks != 0 {
			return false
		}
		if lk.Flags&flagMFS != 0 {
			if lk.MFS >= len(r.gd.Sets) {
				return false
			}
			return memInt(g, r.gd.Sets[lk.MFS])
		}
		if m := (lk.Flags & maskAtt) >> 8; m != 0 {
			return lookupClass(r.gd.Attach, g) == m
		}
	}
	return true
}

func (r *refShaper) isMark(g int) bool {
	return r.gd != nil && lookupClass(r.gd.Class, g) == classMark
}

// predicates of the generic matcher
type pred struct {
	kind int // 0 glyph, 1 class, 2 coverage
	g    int
	cd   [][2]int
	cov  []int
}

func (p pred) test(g int) bool {
	switch p.kind {
	case 0:
		return g == p.g
	case 1:
		return lookupClass(p.cd, g) == p.g
	}
	return memInt(g, p.cov)
}

func pglyphs(xs []int) []pred {
	out := make([]pred, len(xs))
	for i, x := range xs {
		out[i] = pred{kind: 0, g: x}
	}
	return out
}
func pclasses(cd [][2]int, xs []int) []pred {
	out := make([]pred, len(xs))
	for i, x := range xs {
		out[i] = pred{kind: 1, g: x, cd: cd}
	}
	return out
}
func pcovs(xs [][]int) []pred {
	out := make([]pred, len(xs))
	for i, x := range xs {
		out[i] = pred{kind: 2, cov: x}
	}
	return out
}

// matchSeq: the next len(preds) kept glyphs in seq[from:to), walking in
// direction dir, satisfy preds; returns their positions.
func (r *refShaper) matchSeq(lk *Lookup, seq []Glyph, preds []pred, from, to, dir int) ([]int, bool) {
	var pos []int
	p := from
	for _, pr := range preds {
		for p != to && !r.keep(lk, seq[p].GID) {
			p += dir
		}
		if p == to || !pr.test(seq[p].GID) {
			return nil, false
		}
		pos = append(pos, p)
		p += dir
	}
	return pos, true
}

func (r *refShaper) matchInput(lk *Lookup, seq []Glyph, a, b int, preds []pred) ([]int, bool) {
	if len(preds) == 0 || a >= b || !preds[0].test(seq[a].GID) {
		return nil, false
	}
	rest, ok := r.matchSeq(lk, seq, preds[1:], a+1, b, 1)
	if !ok {
		return nil, false
	}
	return append([]int{a}, rest...), true
}

type rule struct {
	back, in, look []pred
	acts           []Action
}

func ctxRules(s *Sub, g int) []rule {
	var out []rule
	switch s.Kind {
	case "c1":
		for _, cs := range s.CSets {
			if cs.G == g {
				for _, cr := range cs.Rules {
					out = append(out, rule{in: append([]pred{{kind: 0, g: g}}, pglyphs(cr.In)...), acts: cr.Acts})
				}
				break
			}
		}
	case "c2":
		if memInt(g, s.Cov) {
			c := lookupClass(s.CD, g)
			if c < len(s.CRules) {
				for _, cr := range s.CRules[c] {
					out = append(out, rule{in: append([]pred{{kind: 1, g: c, cd: s.CD}}, pclasses(s.CD, cr.In)...), acts: cr.Acts})
				}
			}
		}
	case "c3":
		out = append(out, rule{in: pcovs(s.Covs), acts: s.Acts})
	case "k1":
		for _, ks := range s.KSets {
			if ks.G == g {
				for _, kr := range ks.Rules {
					out = append(out, rule{back: pglyphs(kr.Back), in: append([]pred{{kind: 0, g: g}}, pglyphs(kr.In)...),
						look: pglyphs(kr.Look), acts: kr.Acts})
				}
				break
			}
		}
	case "k2":
		if memInt(g, s.Cov) {
			c := lookupClass(s.CD2, g)
			if c < len(s.KRules) {
				for _, kr := range s.KRules[c] {
					out = append(out, rule{back: pclasses(s.CD, kr.Back),
						in:   append([]pred{{kind: 1, g: c, cd: s.CD2}}, pclasses(s.CD2, kr.In)...),
						look: pclasses(s.CD3, kr.Look), acts: kr.Acts})
				}
			}
		}
	case "k3":
		out = append(out, rule{back: pcovs(s.Covs), in: pcovs(s.Covs2), look: pcovs(s.Covs3), acts: s.Acts})
	}
	return out
}

type refState struct {
	seq    []Glyph
	frames [][]int // innermost LAST here
	nact   int
	ok     bool
	div    string // signature of a known divergence of the engine from the specification (open finding)
}

const (
	divMarkMark = "c06-gpos6-markmark"
	divGsub8    = "c06-gsub8-forward-order"
)

func fits16(v int) bool      { return v >= -32768 && v <= 32767 }
func glyphFits(g Glyph) bool { return fits16(g.X) && fits16(g.Y) && fits16(g.Adv) }

func addVR(v VRec, g Glyph) (Glyph, bool) {
	g.X += v.X
	g.Y += v.Y
	g.Adv += v.A
	return g, !v.Bad && glyphFits(g)
}

func frameOK(p int, P []int) bool {
	mx := 0
	for _, q := range P {
		if q == p {
			return true
		}
		if q > mx {
			mx = q
		}
	}
	return mx < p
}

// insert: glyph p replaced by gs
func (st *refState) insert(p int, gs []Glyph) {
	k := len(gs)
	ns := make([]Glyph, 0, len(st.seq)+k-1)
	ns = append(ns, st.seq[:p]...)
	ns = append(ns, gs...)
	ns = append(ns, st.seq[p+1:]...)
	st.seq = ns
	for i, P := range st.frames {
		if k != 1 && !frameOK(p, P) {
			st.ok = false
		}
		var np []int
		for _, q := range P {
			switch {
			case q < p:
				np = append(np, q)
			case q == p:
				for j := 0; j < k; j++ {
					np = append(np, p+j)
				}
			default:
				np = append(np, q+k-1)
			}
		}
		st.frames[i] = np
	}
}

// merge: the glyphs at ms become lig at ms[0]; the others in between follow in order
func (st *refState) merge(ms []int, lig Glyph) {
	m0 := ms[0]
	removed := ms[1:]
	ns := make([]Glyph, 0, len(st.seq))
	ns = append(ns, st.seq[:m0]...)
	ns = append(ns, lig)
	for p := m0 + 1; p < len(st.seq); p++ {
		if !memInt(p, removed) {
			ns = append(ns, st.seq[p])
		}
	}
	st.seq = ns
	for i, P := range st.frames {
		if len(ms) > 1 && !frameOK(m0, P) {
			st.ok = false
		}
		var np []int
		for _, q := range P {
			if memInt(q, removed) {
				continue
			}
			c := 0
			for _, x := range removed {
				if x < q {
					c++
				}
			}
			np = append(np, q-c)
		}
		st.frames[i] = np
	}
}

// simple applies a non-contextual subtable at a inside [a,b); returns the
// resume position, or -1 when it does not match.
func (r *refShaper) simple(lk *Lookup, s *Sub, st *refState, a, b int) int {
	seq := st.seq
	g0 := seq[a]
	g := g0.GID
	switch s.Kind {
	case "s1":
		if memInt(g, s.Cov) {
			seq[a].GID = (g + s.Delta) % 65536
			return a + 1
		}
	case "s2":
		for _, e := range s.Map {
			if e[0] == g {
				seq[a].GID = e[1]
				return a + 1
			}
		}
	case "mul":
		for _, e := range s.KVs {
			if e.G == g {
				if len(e.Vals) == 0 {
					return -1
				}
				gs := make([]Glyph, len(e.Vals))
				gs[0] = g0
				gs[0].GID = e.Vals[0]
				for i := 1; i < len(gs); i++ {
					gs[i] = Glyph{GID: e.Vals[i]}
				}
				st.insert(a, gs)
				return a + len(gs)
			}
		}
	case "alt":
		for _, e := range s.KVs {
			if e.G == g {
				if len(e.Vals) == 0 {
					return -1
				}
				seq[a].GID = e.Vals[0]
				return a + 1
			}
		}
	case "lig":
		for _, ls := range s.LigSets {
			if ls.G != g {
				continue
			}
			for _, l := range ls.Ligs {
				ms, ok := r.matchInput(lk, seq, a, b, append([]pred{{kind: 0, g: g}}, pglyphs(l.Comps)...))
				if !ok {
					continue
				}
				var text []int
				for _, p := range ms {
					text = append(text, seq[p].Text...)
				}
				last := ms[len(ms)-1]
				st.merge(ms, Glyph{GID: l.Out, Text: text})
				return last + 1 - (len(ms) - 1)
			}
			return -1
		}
	case "p1":
		if memInt(g, s.Cov) {
			ng, ok := addVR(s.V, g0)
			seq[a] = ng
			st.ok = st.ok && ok
			return a + 1
		}
	case "p2":
		for _, e := range s.GVs {
			if e.G == g {
				ng, ok := addVR(e.V, g0)
				seq[a] = ng
				st.ok = st.ok && ok
				return a + 1
			}
		}
	case "pp1", "pp2":
		if s.Kind == "pp2" && !memInt(g, s.Cov) {
			return -1
		}
		p := a + 1
		for p < b && !r.keep(lk, seq[p].GID) {
			p++
		}
		if p >= b {
			return -1
		}
		var cell *PairCell
		if s.Kind == "pp1" {
			for i := range s.PairRows {
				if s.PairRows[i].G != g {
					continue
				}
				for j := range s.PairRows[i].Ents {
					if s.PairRows[i].Ents[j].G2 == seq[p].GID {
						cell = &s.PairRows[i].Ents[j].PairCell
						break
					}
				}
				break
			}
		} else {
			c1 := lookupClass(s.CD, g)
			c2 := lookupClass(s.CD2, seq[p].GID)
			if c1 < len(s.PairMat) && c2 < len(s.PairMat[c1]) {
				cell = &s.PairMat[c1][c2]
			}
		}
		if cell == nil {
			return -1
		}
		ng, ok1 := addVR(cell.V1, g0)
		seq[a] = ng
		st.ok = st.ok && ok1
		if cell.V2 == nil {
			return p
		}
		ng2, ok2 := addVR(*cell.V2, seq[p])
		seq[p] = ng2
		st.ok = st.ok && ok2
		return p + 1
	case "r8":
		for _, e := range s.Map {
			if e[0] != g {
				continue
			}
			if _, ok := r.matchSeq(lk, seq, pcovs(s.Covs), a-1, -1, -1); !ok {
				return -1
			}
			if _, ok := r.matchSeq(lk, seq, pcovs(s.Covs3), a+1, len(seq), 1); !ok {
				return -1
			}
			seq[a].GID = e[1]
			return a + 1
		}
	case "mm":
		var mk *MarkRec
		for i := range s.Marks {
			if s.Marks[i].G == g {
				mk = &s.Marks[i]
				break
			}
		}
		if mk == nil {
			return -1
		}
		rec := func(gid int) *BaseRec {
			for i := range s.Bases {
				if s.Bases[i].G == gid {
					return &s.Bases[i]
				}
			}
			return nil
		}
		// specification: the glyph preceding the mark under the lookup flags
		q := a - 1
		for q >= 0 && !r.keep(lk, seq[q].GID) {
			q--
		}
		// the engine: the nearest preceding glyph with a mark2 record
		qe := a - 1
		for qe >= 0 && rec(seq[qe].GID) == nil {
			qe--
		}
		if !(q == qe || (q >= 0 && qe < 0)) {
			st.div = divMarkMark
		}
		if q < 0 {
			return -1
		}
		m2 := rec(seq[q].GID)
		if m2 == nil || mk.Cls >= len(m2.Anchors) || m2.Anchors[mk.Cls] == nil {
			return -1
		}
		an := m2.Anchors[mk.Cls]
		dx := an[0] - mk.X
		for i := q; i < a; i++ {
			dx -= seq[i].Adv
		}
		if seq[q].X != 0 || seq[q].Y != 0 {
			st.div = divMarkMark // the engine drops mark2's own offset
		}
		ng := g0
		ng.X = seq[q].X + dx
		ng.Y = seq[q].Y + an[1] - mk.Y
		seq[a] = ng
		if !glyphFits(ng) {
			st.ok = false
		}
		return a + 1
	case "mb":
		var mk *MarkRec
		for i := range s.Marks {
			if s.Marks[i].G == g {
				mk = &s.Marks[i]
				break
			}
		}
		if mk == nil {
			return -1
		}
		// nearest preceding glyph with a base record
		q := a - 1
		var base *BaseRec
		for ; q >= 0; q-- {
			for i := range s.Bases {
				if s.Bases[i].G == seq[q].GID {
					base = &s.Bases[i]
					break
				}
			}
			if base != nil {
				break
			}
		}
		if base == nil {
			return -1
		}
		if mk.Cls >= len(base.Anchors) || base.Anchors[mk.Cls] == nil {
			return -1
		}
		an := base.Anchors[mk.Cls]
		dx := an[0] - mk.X
		for i := q; i < a; i++ {
			dx -= seq[i].Adv
		}
		ng := g0
		ng.X += dx
		ng.Y += an[1] - mk.Y
		seq[a] = ng
		if !glyphFits(ng) {
			st.ok = false
		}
		for i := q + 1; i < a; i++ {
			if !r.isMark(seq[i].GID) {
				st.ok = false
			}
		}
		return a + 1
	}
	return -1
}

// applyAt applies lookup lk at position a; the window ends tl glyphs before
// the end of the sequence.  Returns the resume position or -1.
func (r *refShaper) applyAt(depth int, lk *Lookup, st *refState, a, tl int) int {
	if depth <= 0 {
		st.ok = false
		return a + 1
	}
	for si := range lk.Subs {
		s := &lk.Subs[si]
		b := len(st.seq) - tl
		if next := r.simple(lk, s, st, a, b); next >= 0 {
			return next
		}
		seq := st.seq
		for _, ru := range ctxRules(s, seq[a].GID) {
			ms, ok := r.matchInput(lk, seq, a, b, ru.in)
			if !ok {
				continue
			}
			if _, ok := r.matchSeq(lk, seq, ru.back, a-1, -1, -1); !ok {
				continue
			}
			last := ms[len(ms)-1]
			if _, ok := r.matchSeq(lk, seq, ru.look, last+1, len(seq), 1); !ok {
				continue
			}
			e := last + 1
			for e < b && !r.keep(lk, seq[e].GID) {
				e++
			}
			tl2 := len(seq) - e
			st.frames = append(st.frames, ms)
			fi := len(st.frames) - 1
			for _, ac := range ru.acts {
				st.nact++
				if st.nact+2 > actionBudget {
					st.ok = false
				}
				if !st.ok {
					break // outside the domain: stop
				}
				P := st.frames[fi]
				if ac.Seq >= len(P) {
					continue // no such input glyph: nothing to do
				}
				p := P[ac.Seq]
				if ac.Lookup >= len(r.ll) {
					continue
				}
				child := &r.ll[ac.Lookup]
				if r.keep(child, st.seq[p].GID) {
					r.applyAt(depth-1, child, st, p, tl2)
				}
			}
			st.frames = st.frames[:fi]
			return len(st.seq) - tl2
		}
	}
	return -1
}

func subStatic(s *Sub) bool {
	nodup := func(xs []int) bool {
		seen := map[int]bool{}
		for _, x := range xs {
			if seen[x] {
				return false
			}
			seen[x] = true
		}
		return true
	}
	cdKeys := func(cd [][2]int) []int {
		out := make([]int, len(cd))
		for i, e := range cd {
			out[i] = e[0]
		}
		return out
	}
	switch s.Kind {
	case "s1":
		return nodup(s.Cov)
	case "s2":
		return nodup(cdKeys(s.Map))
	case "mul", "alt":
		var ks []int
		for _, e := range s.KVs {
			ks = append(ks, e.G)
			if s.Kind == "mul" && len(e.Vals) == 0 {
				return false
			}
		}
		return nodup(ks)
	case "lig":
		var ks []int
		for _, e := range s.LigSets {
			ks = append(ks, e.G)
		}
		return nodup(ks)
	case "c1":
		var ks []int
		for _, e := range s.CSets {
			ks = append(ks, e.G)
		}
		return nodup(ks)
	case "c2":
		for _, g := range s.Cov {
			if lookupClass(s.CD, g) >= len(s.CRules) {
				return false
			}
		}
		return nodup(s.Cov) && nodup(cdKeys(s.CD))
	case "c3":
		return len(s.Covs) > 0
	case "k1":
		var ks []int
		for _, e := range s.KSets {
			ks = append(ks, e.G)
		}
		return nodup(ks)
	case "k2":
		return nodup(s.Cov) && nodup(cdKeys(s.CD)) && nodup(cdKeys(s.CD2)) && nodup(cdKeys(s.CD3))
	case "k3":
		return len(s.Covs2) > 0
	case "p1":
		return nodup(s.Cov) && !s.V.Bad
	case "p2":
		var ks []int
		for _, e := range s.GVs {
			ks = append(ks, e.G)
			if e.V.Bad {
				return false
			}
		}
		return nodup(ks)
	case "pp1":
		var ks []int
		for _, r := range s.PairRows {
			ks = append(ks, r.G)
			var k2 []int
			for _, e := range r.Ents {
				k2 = append(k2, e.G2)
				if e.V1.Bad || (e.V2 != nil && e.V2.Bad) {
					return false
				}
			}
			if !nodup(k2) {
				return false
			}
		}
		return nodup(ks)
	case "pp2":
		for _, r := range s.PairMat {
			for _, e := range r {
				if e.V1.Bad || (e.V2 != nil && e.V2.Bad) {
					return false
				}
			}
		}
		return nodup(s.Cov) && nodup(cdKeys(s.CD)) && nodup(cdKeys(s.CD2))
	case "r8":
		return nodup(cdKeys(s.Map))
	case "mb", "mm":
		var mk, bk []int
		for _, m := range s.Marks {
			mk = append(mk, m.G)
			for _, b := range s.Bases {
				if m.Cls >= len(b.Anchors) {
					return false
				}
			}
		}
		for _, b := range s.Bases {
			bk = append(bk, b.G)
		}
		return nodup(mk) && nodup(bk)
	}
	return false
}

func staticOK(ll []Lookup, gd *Gdef) bool {
	if gd != nil {
		seen := map[int]bool{}
		for _, e := range gd.Class {
			if seen[e[0]] {
				return false
			}
			seen[e[0]] = true
		}
		seen = map[int]bool{}
		for _, e := range gd.Attach {
			if seen[e[0]] {
				return false
			}
			seen[e[0]] = true
		}
	}
	for i := range ll {
		for j := range ll[i].Subs {
			if !subStatic(&ll[i].Subs[j]) {
				return false
			}
		}
		if gd != nil && ll[i].Flags&flagMFS != 0 && ll[i].MFS >= len(gd.Sets) {
			return false
		}
		nr := 0
		for j := range ll[i].Subs {
			if ll[i].Subs[j].Kind == "r8" {
				nr++
			}
		}
		if nr != 0 && nr != len(ll[i].Subs) {
			return false // GSUB 8.1 subtables are not mixed with others
		}
	}
	return true
}

func cloneSeq(seq []Glyph) []Glyph {
	out := make([]Glyph, len(seq))
	for i, g := range seq {
		out[i] = g
		out[i].Text = append([]int(nil), g.Text...)
	}
	return out
}

// isReverse: all subtables of the lookup are GSUB 8.1.
func isReverse(lk *Lookup) bool {
	if len(lk.Subs) == 0 {
		return false
	}
	for i := range lk.Subs {
		if lk.Subs[i].Kind != "r8" {
			return false
		}
	}
	return true
}

// scanForward: the left-to-right scan of one lookup.
func (r *refShaper) scanForward(lk *Lookup, seq []Glyph) (out []Glyph, ok bool, div string, capped bool) {
	ok = true
	pos := 0
	for pos < len(seq) {
		if !r.keep(lk, seq[pos].GID) {
			pos++
			continue
		}
		st := &refState{seq: seq, ok: true}
		next := r.applyAt(actionBudget, lk, st, pos, 0)
		seq = st.seq
		ok = ok && st.ok
		if st.div != "" && div == "" {
			div = st.div
		}
		if next < 0 {
			pos++
			continue
		}
		if next <= pos {
			// cannot happen in the reference; guard against a hang
			ok = false
			next = pos + 1
		}
		if len(seq) > sizeCap {
			// sequences growing beyond the cap are outside the domain of
			// the correspondence (coq/C06/Model.v size_cap)
			return seq, false, div, true
		}
		pos = next
	}
	return seq, ok, div, false
}

// scanReverse: GSUB 8.1 lookups are processed from the end of the sequence.
func (r *refShaper) scanReverse(lk *Lookup, seq []Glyph) []Glyph {
	for pos := len(seq) - 1; pos >= 0; pos-- {
		if !r.keep(lk, seq[pos].GID) {
			continue
		}
		st := &refState{seq: seq, ok: true}
		r.applyAt(actionBudget, lk, st, pos, 0)
		seq = st.seq
	}
	return seq
}

// ReferenceFull runs the reference shaper.  hardOK: the outcome is defined by
// the specification and the documented decisions; div: signature of a known
// divergence of the engine from that outcome (open finding), "" if none.
func ReferenceFull(ll []Lookup, gd *Gdef, order []int, in []Glyph) (out []Glyph, hardOK bool, div string) {
	r := &refShaper{ll: ll, gd: gd}
	seq := cloneSeq(in)
	ok := staticOK(ll, gd)
	for _, g := range seq {
		if !glyphFits(g) {
			ok = false
		}
	}
	for _, li := range order {
		if li < 0 || li >= len(ll) {
			continue
		}
		lk := &ll[li]
		if isReverse(lk) {
			fwd, _, _, _ := r.scanForward(lk, cloneSeq(seq))
			seq = r.scanReverse(lk, seq)
			if obsSx(fwd) != obsSx(seq) && div == "" {
				div = divGsub8 // the engine scans forward
			}
			continue
		}
		var lok, capped bool
		var ldiv string
		seq, lok, ldiv, capped = r.scanForward(lk, seq)
		ok = ok && lok
		if ldiv != "" && div == "" {
			div = ldiv
		}
		if capped {
			return seq, false, div
		}
	}
	return seq, ok, div
}

// Reference: inDomain tells whether the engine is expected to agree.
func Reference(ll []Lookup, gd *Gdef, order []int, in []Glyph) (out []Glyph, inDomain bool) {
	out, ok, div := ReferenceFull(ll, gd, order, in)
	return out, ok && div == ""
}
