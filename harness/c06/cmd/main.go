package main

import (
	"seehuhn.de/go/sfnt/verifharness/c06"
	"seehuhn.de/go/sfnt/verifharness/vlib"
)

func main() { vlib.Main(c06.Gen, c06.RunCase) }
