package c06

import (
	"fmt"
	"strings"

	"seehuhn.de/go/sfnt"
	"seehuhn.de/go/sfnt/cmap"
	"seehuhn.de/go/sfnt/internal/debug"
	"seehuhn.de/go/sfnt/opentype/gtab/builder"
	"seehuhn.de/go/sfnt/opentype/gtab/testcases"
	"seehuhn.de/go/sfnt/verifharness/vlib"
)

// The pinned cases of the repository: the GSUB cases of
// opentype/gtab/testcases (parsed with the builder DSL), the GPOS cases of
// gposext_test.go and the lookup flag cases of lookup_test.go (both copied
// here because they live in _test files).  The structures the builder
// produces are converted to the abstract description and sent to the model.

type pinnedFont struct {
	info *sfnt.Font
	cm   cmap.Subtable
	rev  map[int]rune
	gd   *Gdef
}

func newPinnedFont() (*pinnedFont, error) {
	info := debug.MakeSimpleFont()
	cm, err := info.CMapTable.GetBest()
	if err != nil {
		return nil, err
	}
	p := &pinnedFont{info: info, cm: cm, rev: map[int]rune{}}
	for r := rune(0); r < 128; r++ {
		if g := cm.Lookup(r); g != 0 {
			p.rev[int(g)] = r
		}
	}
	gid := func(r rune) int { return int(cm.Lookup(r)) }
	// the GDEF table used by TestGsub / TestGpos
	cls := [][2]int{{gid('B'), 1}, {gid('K'), 2}, {gid('L'), 2}, {gid('M'), 3}, {gid('N'), 3}}
	p.gd = &Gdef{Class: cls}
	return p, nil
}

func (p *pinnedFont) seq(in string, widths bool) []Glyph {
	var out []Glyph
	for _, r := range in {
		g := Glyph{GID: int(p.cm.Lookup(r)), Text: []int{int(r)}}
		if widths && lookupClass(p.gd.Class, g.GID) != classMark {
			g.Adv = int(p.info.GlyphWidth(p.cm.Lookup(r)))
		}
		out = append(out, g)
	}
	return out
}

func (p *pinnedFont) str(seq []Glyph) (glyphs, text string) {
	var gs, ts []rune
	for _, g := range seq {
		r, ok := p.rev[g.GID]
		if !ok {
			r = '?'
		}
		gs = append(gs, r)
		for _, t := range g.Text {
			ts = append(ts, rune(t))
		}
	}
	return string(gs), string(ts)
}

var pinnedGpos = []struct{ desc, in string }{
	{"GPOS1: [A] -> y+500", "ABC"},
	{"GPOS1: B -> x+10 y-20 dx+30", "ABC"},
	{"GPOS1: [A D] -> y+100 || B -> y+200, E -> y+300", "ABCDE"},
	{"GPOS1: [M] -> y+500", "AMA"},
	{"GPOS1: -marks [M] -> y+500", "AMA"},
	{"GPOS1: M -> y+500", "AMA"},
	{"GPOS1: -marks M -> y+500", "AMA"},
	{"GPOS1: [] -> x+0", "AMA"},
	{"GPOS2: A V -> dx-200", "AV"},
	{"GPOS2: A V -> dx-300 & y+200", "AV"},
	{"GPOS2: A A -> y+200", "AAAAAA"},
	{"GPOS2: A A -> & y+200", "AAAAAA"},
	{"GPOS2:\n\t\t/A/\n\t\tfirst A;\n\t\tsecond A;\n\t\t_, _;\n\t\t_, y+500", "AAAAAA"},
	{"GPOS3:\n\t\tA: 0,0 to 100,100;\n\t\tB: 10,10 to 100,-100", "AB"},
	{"GPOS4:\n\t\tmark M: 0@400,0\n\t\tbase A: @400,1000", "AM"},
	{`GPOS1: "<" -> x+100`, ">ABC<"},
}

// lookup flag cases of TestLookupFlags: glyphs 1 repl, 2..4 A B C (base),
// 5..8 mark1..4, 9..10 lig1..2
var pinnedFlagCases = []struct {
	in         []int
	flags, set int
	merge      bool
}{
	{[]int{2, 3}, 0, 0, true}, {[]int{2, 2, 3}, 0, 0, false}, {[]int{2, 5, 3}, 0, 0, false}, {[]int{2, 1, 3}, 0, 0, false},
	{[]int{5, 6}, flagBase, 0, true}, {[]int{5, 2, 3, 6}, flagBase, 0, true}, {[]int{5, 9, 5}, flagBase, 0, false},
	{[]int{5, 9, 6}, flagBase, 0, false}, {[]int{2, 3}, flagBase, 0, false}, {[]int{2, 3, 4}, flagBase, 0, false},
	{[]int{5, 6}, flagLig, 0, true}, {[]int{5, 9, 10, 6}, flagLig, 0, true}, {[]int{9, 10}, flagLig, 0, false},
	{[]int{2, 3}, flagMarks, 0, true}, {[]int{2, 5, 6, 3}, flagMarks, 0, true}, {[]int{5, 6}, flagMarks, 0, false},
	{[]int{5, 6}, flagMFS, 0, true}, {[]int{5, 7, 6}, flagMFS, 0, true}, {[]int{5, 7, 7, 5}, flagMFS, 0, true},
	{[]int{5, 7, 6, 7, 5}, flagMFS, 0, false},
	{[]int{5, 7}, flagMFS, 1, true}, {[]int{5, 6, 7}, flagMFS, 1, true}, {[]int{5, 6, 6, 5}, flagMFS, 1, true},
	{[]int{5, 6, 7, 6, 5}, flagMFS, 1, false},
	{[]int{5, 5}, 1 << 8, 0, true}, {[]int{5, 6, 5}, 1 << 8, 0, true}, {[]int{5, 8, 5}, 1 << 8, 0, false},
	{[]int{5, 2, 5}, 1 << 8, 0, false},
	{[]int{6, 7}, 2 << 8, 0, true}, {[]int{6, 5, 8, 7}, 2 << 8, 0, true}, {[]int{6, 7, 6}, 2 << 8, 0, false},
	{[]int{6, 2, 6}, 2 << 8, 0, false},
	{[]int{2, 3}, flagMarks | flagLig, 0, true}, {[]int{2, 5, 10, 3}, flagMarks | flagLig, 0, true},
	{[]int{2, 3, 4}, flagMarks | flagLig, 0, false},
	{[]int{5, 2, 6, 3, 7}, flagBase | flagMFS, 1, true}, {[]int{5, 2, 7, 3, 5}, flagBase | flagMFS, 1, false},
	{[]int{6, 7}, flagBase | 2<<8, 0, true}, {[]int{6, 2, 7}, flagBase | 2<<8, 0, true},
	{[]int{6, 5, 7}, flagBase | 2<<8, 0, true}, {[]int{6, 2, 3, 4, 5, 8, 7}, flagBase | 2<<8, 0, true},
	{[]int{6, 2, 8, 7}, flagBase | 2<<8, 0, true}, {[]int{6, 6}, flagBase | 2<<8, 0, true},
	{[]int{6, 9, 6}, flagBase | 2<<8, 0, false}, {[]int{6, 7, 6}, flagBase | 2<<8, 0, false},
	{[]int{6, 1, 6}, flagBase | 2<<8, 0, false},
}

// genPinned runs the pinned cases; returns their number and how many are
// outside the reference model's domain (section 4 of the GSUB cases:
// a child lookup edits a glyph the parent ignores).
func genPinned(run *vlib.Run, st *stats) (n, ood int) {
	pf, err := newPinnedFont()
	if err != nil {
		run.Fail(0, "pinned", "cannot build the test font: "+err.Error(), "c06-pinned-setup")
		return 0, 0
	}
	var oodNames []string
	for _, tc := range testcases.Gsub {
		ll, err := builder.Parse(pf.info, tc.Desc)
		if err != nil {
			run.Fail(0, "pinned "+tc.Name, "builder.Parse: "+err.Error(), "c06-pinned-setup")
			continue
		}
		c := &Case{Gdef: pf.gd, LL: fromGtab(ll), Order: []int{0}, Seqs: [][]Glyph{pf.seq(tc.In, false)}}
		section := "pinned-gsub-section:" + strings.SplitN(tc.Name, "_", 2)[0]
		before := st.inDomain
		add(run, st, c, "pinned", section)
		n++
		inDom := st.inDomain > before
		if !inDom {
			ood++
			oodNames = append(oodNames, tc.Name)
		}
		// the pinned expectation itself (the repository's own test) and,
		// inside the domain, the reference shaper must reproduce it
		wantText := tc.Text
		if wantText == "" {
			wantText = tc.In
		}
		out, panicked := runImpl(c, c.Seqs[0])
		if panicked {
			run.Fail(run.N-1, c.Line(), "engine panics on pinned case "+tc.Name, "c06-pinned-"+tc.Name)
			continue
		}
		gs, ts := pf.str(out)
		if gs != tc.Out || ts != wantText {
			run.Fail(run.N-1, c.Line(), fmt.Sprintf("pinned case %s: engine gives %q/%q, pinned %q/%q", tc.Name, gs, ts, tc.Out, wantText), "c06-pinned-"+tc.Name)
		}
		if inDom {
			ref, _ := Reference(c.LL, c.Gdef, c.Order, c.Seqs[0])
			rg, rt := pf.str(ref)
			if rg != tc.Out || rt != wantText {
				run.Fail(run.N-1, c.Line(), fmt.Sprintf("pinned case %s: reference gives %q/%q, pinned %q/%q", tc.Name, rg, rt, tc.Out, wantText), "c06-reference-vs-pinned-"+tc.Name)
			}
		} else if !strings.HasPrefix(tc.Name, "4_") {
			// sections 1-3 and 5 are the documented decisions: they must be inside the domain
			run.Fail(run.N-1, c.Line(), "pinned case "+tc.Name+" (sections 1-3, 5) is outside the reference model's domain", "c06-pinned-domain-"+tc.Name)
		}
	}
	run.Extra["pinned_gsub_out_of_domain"] = strings.Join(oodNames, " ")

	for i, tc := range pinnedGpos {
		ll, err := builder.Parse(pf.info, tc.desc)
		if err != nil {
			run.Fail(0, fmt.Sprintf("pinned gpos %d", i), "builder.Parse: "+err.Error(), "c06-pinned-setup")
			continue
		}
		c := &Case{Gdef: pf.gd, LL: fromGtab(ll), Order: []int{0}, Seqs: [][]Glyph{pf.seq(tc.in, true)}}
		before := st.inDomain
		add(run, st, c, "pinned", "pinned-gpos")
		n++
		if st.inDomain == before {
			ood++
		}
	}

	fgd := &Gdef{
		Class:  [][2]int{{2, 1}, {3, 1}, {4, 1}, {5, 3}, {6, 3}, {7, 3}, {8, 3}, {9, 2}, {10, 2}},
		Attach: [][2]int{{5, 1}, {6, 2}, {7, 2}, {8, 1}},
		Sets:   [][]int{{5, 6}, {5, 7}},
	}
	for i, fc := range pinnedFlagCases {
		first, last := fc.in[0], fc.in[len(fc.in)-1]
		ll := []Lookup{{fc.flags, fc.set, []Sub{{Kind: "lig", LigSets: []LigSet{{first, []Lig{{[]int{last}, 1}}}}}}}}
		gids := make([]Glyph, len(fc.in))
		for j, g := range fc.in {
			gids[j] = Glyph{GID: g}
		}
		c := &Case{Gdef: fgd, LL: ll, Order: []int{0}, Seqs: [][]Glyph{gids}}
		before := st.inDomain
		add(run, st, c, "pinned", "pinned-flags")
		n++
		if st.inDomain == before {
			ood++
			continue
		}
		ref, _ := Reference(c.LL, c.Gdef, c.Order, c.Seqs[0])
		if (ref[0].GID == 1) != fc.merge {
			run.Fail(run.N-1, c.Line(), fmt.Sprintf("flag case %d: reference merged=%v, pinned %v", i, ref[0].GID == 1, fc.merge), "c06-reference-vs-pinned-flags")
		}
	}
	return n, ood
}
