package c06

import (
	"fmt"

	"seehuhn.de/go/sfnt/verifharness/vlib"
)

// glyph alphabet of the generated cases
const (
	gA = 1 // no GDEF class
	gB = 2 // base
	gL = 3 // ligature
	gM = 4 // mark, attachment class 1, mark sets 0 and 2
	gN = 5 // mark, attachment class 2, mark sets 1 and 2
	gX = 6 // no class
	gY = 7 // no class
	gZ = 8 // mark, attachment class 1, both mark sets
	gW = 9 // ligature
)

func fullGdef() *Gdef {
	return &Gdef{
		Class:  [][2]int{{gB, 1}, {gL, 2}, {gM, 3}, {gN, 3}, {gZ, 3}, {gW, 2}},
		Attach: [][2]int{{gM, 1}, {gN, 2}, {gZ, 1}},
		Sets:   [][]int{{gM, gZ}, {gN, gZ}, {gM, gN}}, // pairwise disagreeing on M or N
	}
}

func isMarkGid(g int) bool { return g == gM || g == gN || g == gZ }

func mkSeq(gids []int) []Glyph {
	out := make([]Glyph, len(gids))
	for i, g := range gids {
		out[i] = Glyph{GID: g, Text: []int{100 + i}}
		if !isMarkGid(g) {
			out[i].Adv = 500 + 10*g
		}
	}
	return out
}

// allSeqs enumerates every sequence over the alphabet of length 0..n.
func allSeqs(alphabet []int, n int) [][]Glyph {
	var out [][]Glyph
	var rec func(prefix []int)
	rec = func(prefix []int) {
		out = append(out, mkSeq(prefix))
		if len(prefix) == n {
			return
		}
		for _, g := range alphabet {
			rec(append(append([]int(nil), prefix...), g))
		}
	}
	rec(nil)
	return out
}

type flagVar struct {
	name       string
	flags, mfs int
	marksets   bool // exercises mark filtering / attachment types
}

var flagVars = []flagVar{
	{"none", 0, 0, false},
	{"base", flagBase, 0, false},
	{"lig", flagLig, 0, false},
	{"marks", flagMarks, 0, false},
	{"lig+marks", flagLig | flagMarks, 0, false},
	{"base+lig+marks", flagBase | flagLig | flagMarks, 0, false},
	{"mfs0", flagMFS, 0, true},
	{"mfs1", flagMFS, 1, true},
	{"mfs2", flagMFS, 2, true},
	{"att1", 1 << 8, 0, true},
	{"att2", 2 << 8, 0, true},
	{"marks+mfs1", flagMarks | flagMFS, 1, true},
	{"mfs0+att2", flagMFS | 2<<8, 0, true},
	{"base+att2", flagBase | 2<<8, 0, true},
}

func (f flagVar) alphabet() []int {
	if f.marksets {
		return []int{gA, gM, gN, gL}
	}
	return []int{gA, gM, gL, gB}
}

type entry struct {
	gd       *Gdef
	ll       []Lookup
	order    []int
	alphabet []int
	labels   []string
	ext      bool // extended cross product: shorter sequences
}

// ---- building blocks ----

func subS1() Sub { return Sub{Kind: "s1", Cov: []int{gA, gM}, Delta: 5} }
func subS2() Sub { return Sub{Kind: "s2", Map: [][2]int{{gA, gX}, {gM, gA}, {gL, gM}}} }
func subMul() Sub {
	return Sub{Kind: "mul", KVs: []KV{{gA, []int{gA, gM, gA}}, {gM, []int{gX}}, {gL, []int{gM, gM}}}}
}
func subAlt() Sub {
	return Sub{Kind: "alt", KVs: []KV{{gA, []int{gX, gY}}, {gM, []int{}}, {gL, []int{gA}}}}
}
func subLigA() Sub {
	return Sub{Kind: "lig", LigSets: []LigSet{
		{gA, []Lig{{[]int{gA, gA}, gX}, {[]int{gA}, gY}}},
		{gM, []Lig{{[]int{gM}, gN}}},
	}}
}
func subLigB() Sub {
	// several candidates: later ones match across skipped glyphs after an
	// earlier one has failed
	return Sub{Kind: "lig", LigSets: []LigSet{
		{gA, []Lig{{[]int{gB, gA}, gX}, {[]int{gA, gA}, gY}, {[]int{gA}, gZ}, {[]int{}, gW}}},
		{gL, []Lig{{[]int{gA}, gA}}},
	}}
}
func subLigC() Sub {
	// a ligature naming glyphs the flags may ignore
	return Sub{Kind: "lig", LigSets: []LigSet{
		{gA, []Lig{{[]int{gM, gA}, gX}, {[]int{gM}, gY}, {[]int{gL}, gB}}},
		{gN, []Lig{{[]int{gA}, gM}}},
	}}
}

func vr(x, y, a int) VRec { return VRec{X: x, Y: y, A: a} }

func subP1() Sub { return Sub{Kind: "p1", Cov: []int{gA, gM}, V: vr(10, -20, 30)} }
func subP2() Sub {
	return Sub{Kind: "p2", GVs: []GV{{gA, vr(1, 2, 3)}, {gM, vr(-5, 500, 0)}, {gL, vr(0, 0, -40)}}}
}
func subPP1() Sub {
	v2 := vr(0, 200, 0)
	v3 := vr(7, 0, -7)
	return Sub{Kind: "pp1", PairRows: []PairRow{
		{gA, []PairEnt{{gA, PairCell{vr(0, 0, -200), nil}}, {gB, PairCell{vr(0, 0, -300), &v2}}, {gM, PairCell{vr(1, 1, 1), &v3}}}},
		{gL, []PairEnt{{gA, PairCell{vr(0, 50, 0), &v2}}}},
	}}
}
func subPP2() Sub {
	v2 := vr(0, 500, 0)
	z := vr(0, 0, 0)
	return Sub{Kind: "pp2", Cov: []int{gA, gL}, CD: [][2]int{{gL, 1}}, CD2: [][2]int{{gA, 1}, {gB, 1}, {gM, 2}},
		PairMat: [][]PairCell{
			{{z, nil}, {vr(0, 0, -100), nil}, {vr(3, 0, 0), &v2}},
			{{z, &z}, {vr(0, 11, 0), &v2}, {z, nil}},
		}}
}
func subMB() Sub {
	return Sub{Kind: "mb",
		Marks: []MarkRec{{gM, 0, 400, 0}, {gN, 1, 10, -10}},
		Bases: []BaseRec{
			{gA, []*[2]int{{400, 1000}, {5, 6}}},
			{gB, []*[2]int{nil, {300, 700}}},
		}}
}

func subMM() Sub {
	return Sub{Kind: "mm",
		Marks: []MarkRec{{gM, 0, 10, 20}, {gN, 1, 5, -5}},
		Bases: []BaseRec{
			{gM, []*[2]int{{100, 200}, {7, 8}}},
			{gN, []*[2]int{nil, {50, 60}}},
		}}
}

// GSUB 8.1: the substituted glyph X is itself backtrack / lookahead context,
// so the processing order matters on runs of A
func subR8(back, look bool) Sub {
	s := Sub{Kind: "r8", Map: [][2]int{{gA, gX}, {gM, gY}, {gL, gA}}, Covs: [][]int{}, Covs3: [][]int{}}
	if back {
		s.Covs = [][]int{{gA, gB, gM}}
	}
	if look {
		s.Covs3 = [][]int{{gA, gL}}
	}
	return s
}

type simpleKind struct {
	name string
	mk   func() Sub
}

var simpleKinds = []simpleKind{
	{"gsub1.1", subS1}, {"gsub1.2", subS2}, {"gsub2.1", subMul}, {"gsub3.1", subAlt},
	{"gsub4.1/a", subLigA}, {"gsub4.1/b", subLigB}, {"gsub4.1/c", subLigC},
	{"gpos1.1", subP1}, {"gpos1.2", subP2}, {"gpos2.1", subPP1}, {"gpos2.2", subPP2}, {"gpos4.1", subMB},
	{"gpos6.1", subMM},
	{"gsub8.1/plain", func() Sub { return subR8(false, false) }},
	{"gsub8.1/back", func() Sub { return subR8(true, false) }},
	{"gsub8.1/look", func() Sub { return subR8(false, true) }},
	{"gsub8.1/both", func() Sub { return subR8(true, true) }},
}

// ---- contextual parents ----

// ctxShape builds a contextual subtable of the given format whose input
// sequence has n glyphs "A or X" (glyph formats: exactly A), with optional
// backtrack / lookahead of one glyph (chained formats).
func ctxSub(format string, n int, back, look bool, acts []Action) Sub {
	return ctxSubW(format, n, back, look, false, acts)
}

// ctxSubW: with wide set, the classes / coverages of the class and coverage
// formats also contain the mark M (a glyph the flags may ignore).
func ctxSubW(format string, n int, back, look, wide bool, acts []Action) Sub {
	ax := []int{gA, gX}
	axb := []int{gA, gB}
	if wide {
		ax = []int{gA, gX, gM}
		axb = []int{gA, gB, gM}
	}
	rest := make([]int, n-1)
	switch format {
	case "c1":
		for i := range rest {
			rest[i] = gA
		}
		return Sub{Kind: "c1", CSets: []CSet{{gA, []CRule{{rest, acts}}}}}
	case "c2":
		for i := range rest {
			rest[i] = 1
		}
		cd := [][2]int{{gA, 1}, {gX, 1}, {gM, 2}}
		if wide {
			cd = [][2]int{{gA, 1}, {gX, 1}, {gM, 1}}
		}
		return Sub{Kind: "c2", Cov: ax, CD: cd, CRules: [][]CRule{{}, {{rest, acts}}}}
	case "c3":
		covs := make([][]int, n)
		for i := range covs {
			covs[i] = ax
		}
		return Sub{Kind: "c3", Covs: covs, Acts: acts}
	case "k1":
		for i := range rest {
			rest[i] = gA
		}
		r := KRule{In: rest, Acts: acts, Back: []int{}, Look: []int{}}
		if back {
			r.Back = []int{gA}
		}
		if look {
			r.Look = []int{gA}
		}
		return Sub{Kind: "k1", KSets: []KSet{{gA, []KRule{r}}}}
	case "k2":
		for i := range rest {
			rest[i] = 1
		}
		r := KRule{In: rest, Acts: acts, Back: []int{}, Look: []int{}}
		if back {
			r.Back = []int{2}
		}
		if look {
			r.Look = []int{3}
		}
		cd1 := [][2]int{{gA, 2}, {gX, 2}, {gB, 1}}
		cd2 := [][2]int{{gA, 1}, {gX, 1}}
		cd3 := [][2]int{{gA, 3}, {gB, 3}, {gM, 1}}
		if wide {
			cd1 = [][2]int{{gA, 2}, {gX, 2}, {gB, 1}, {gM, 2}}
			cd2 = [][2]int{{gA, 1}, {gX, 1}, {gM, 1}}
			cd3 = [][2]int{{gA, 3}, {gB, 3}, {gM, 3}}
		}
		return Sub{Kind: "k2", Cov: ax, CD: cd1, CD2: cd2, CD3: cd3, KRules: [][]KRule{{}, {r}}}
	case "k3":
		covs := make([][]int, n)
		for i := range covs {
			covs[i] = ax
		}
		s := Sub{Kind: "k3", Covs: [][]int{}, Covs2: covs, Covs3: [][]int{}, Acts: acts}
		if back {
			s.Covs = [][]int{axb}
		}
		if look {
			s.Covs3 = [][]int{axb}
			if n == 1 {
				s.Covs3 = [][]int{axb, axb} // two lookahead glyphs
			}
		}
		return s
	}
	panic("bad format")
}

type childKind struct {
	name string
	sub  Sub
}

var childKinds = []childKind{
	{"mark", Sub{Kind: "s2", Map: [][2]int{{gA, gX}, {gM, gY}, {gX, gY}}}},
	{"mulAA", Sub{Kind: "mul", KVs: []KV{{gA, []int{gA, gA}}}}},
	{"mulAM", Sub{Kind: "mul", KVs: []KV{{gA, []int{gA, gM}}, {gM, []int{gA, gA}}}}},
	{"ligAA", Sub{Kind: "lig", LigSets: []LigSet{{gA, []Lig{{[]int{gA}, gA}}}}}},
	{"ligAM", Sub{Kind: "lig", LigSets: []LigSet{{gA, []Lig{{[]int{gM}, gA}}}, {gM, []Lig{{[]int{gA}, gA}}}}}},
	{"ligA", Sub{Kind: "lig", LigSets: []LigSet{{gA, []Lig{{[]int{}, gB}}}}}},
	{"ligAMA", Sub{Kind: "lig", LigSets: []LigSet{{gA, []Lig{{[]int{gM, gA}, gY}, {[]int{gA, gA}, gA}}}}}},
	{"rev8", Sub{Kind: "r8", Map: [][2]int{{gA, gY}, {gM, gA}}, Covs: [][]int{{gA, gL}}, Covs3: [][]int{{gA, gM}}}},
}

func fv(name string) flagVar {
	for _, f := range flagVars {
		if f.name == name {
			return f
		}
	}
	panic("unknown flag variant " + name)
}

// catalogue: lookup lists generated per type / format / flag combination.
func catalogue() []entry {
	var out []entry
	gd := fullGdef()

	// 1. every simple lookup type under every flag combination
	for _, k := range simpleKinds {
		for _, f := range flagVars {
			out = append(out, entry{gd: gd,
				ll:       []Lookup{{f.flags, f.mfs, []Sub{k.mk()}}},
				order:    []int{0},
				alphabet: f.alphabet(),
				labels:   []string{"type:" + k.name, "flags:" + f.name}})
		}
	}
	// without a GDEF table the flags have no effect
	for _, k := range simpleKinds {
		f := fv("marks")
		out = append(out, entry{gd: nil,
			ll: []Lookup{{f.flags, f.mfs, []Sub{k.mk()}}}, order: []int{0},
			alphabet: f.alphabet(), labels: []string{"type:" + k.name, "flags:marks", "nogdef"}})
	}

	// 2. several subtables in one lookup: the first matching subtable wins
	for _, f := range []flagVar{fv("none"), fv("marks"), fv("mfs0")} {
		subs := [][]Sub{
			{subS2(), subLigA()}, {subLigA(), subS2()}, {subLigB(), subMul(), subS1()},
			{subAlt(), subS2()}, {subPP1(), subP1()}, {subP2(), subPP2()},
			// an earlier subtable that covers a glyph with an all-zero (nil) value
			// record still wins over a later subtable with a real adjustment
			{Sub{Kind: "p1", Cov: []int{gA, gM}, V: vr(0, 0, 0)}, Sub{Kind: "p1", Cov: []int{gA, gM, gL}, V: vr(0, 0, 50)}},
			{Sub{Kind: "p2", GVs: []GV{{gA, vr(0, 0, 0)}, {gM, vr(3, 0, 0)}}}, Sub{Kind: "p1", Cov: []int{gA, gB, gM}, V: vr(7, 7, 70)}},
			{Sub{Kind: "p1", Cov: []int{gB}, V: vr(0, 0, 0)}, Sub{Kind: "p2", GVs: []GV{{gA, vr(1, 1, 1)}, {gB, vr(0, 0, -60)}}}},
			{ctxSub("c1", 2, false, false, []Action{{0, 1}}), subS2()},
			{ctxSub("k3", 2, true, false, []Action{{1, 1}}), ctxSub("c3", 1, false, false, []Action{{0, 1}})},
		}
		for i, ss := range subs {
			out = append(out, entry{gd: gd,
				ll:       []Lookup{{f.flags, f.mfs, ss}, {0, 0, []Sub{childKinds[0].sub}}},
				order:    []int{0},
				alphabet: f.alphabet(),
				labels:   []string{fmt.Sprintf("multi-subtable:%d", i), "flags:" + f.name}})
		}
	}

	// 3. lookup order
	ab := Lookup{0, 0, []Sub{{Kind: "s2", Map: [][2]int{{gA, gB}}}}}
	ba := Lookup{fv("marks").flags, 0, []Sub{{Kind: "lig", LigSets: []LigSet{{gB, []Lig{{[]int{gB}, gA}}}}}}}
	mm := Lookup{0, 0, []Sub{{Kind: "mul", KVs: []KV{{gM, []int{gA, gM}}}}}}
	for _, order := range [][]int{{0, 1}, {1, 0}, {0, 0}, {1, 0, 1}, {2, 0, 1}, {0, 1, 2}, {2, 2}, {7, 0}, {}} {
		out = append(out, entry{gd: gd, ll: []Lookup{ab, ba, mm}, order: order,
			alphabet: []int{gA, gM, gL, gB}, labels: []string{"lookup-order"}})
	}

	// 3b. mark-to-base followed by mark-to-mark (mark2 has been moved: the
	//     engine's known divergence), reverse chaining combined with others
	for _, f := range []flagVar{fv("none"), fv("att1"), fv("mfs2"), fv("base")} {
		mbl := Lookup{0, 0, []Sub{{Kind: "mb", Marks: []MarkRec{{gM, 0, 400, 0}, {gN, 0, 10, -10}},
			Bases: []BaseRec{{gA, []*[2]int{{400, 1000}}}}}}}
		mml := Lookup{f.flags, f.mfs, []Sub{subMM()}}
		r8l := Lookup{f.flags, f.mfs, []Sub{subR8(true, false), subR8(false, true)}}
		for _, order := range [][]int{{1}, {0, 1}, {1, 0}, {2}, {2, 1}, {2, 2}} {
			out = append(out, entry{gd: gd, ll: []Lookup{mbl, mml, r8l}, order: order,
				alphabet: []int{gA, gM, gN, gB}, labels: []string{"lookup-order-mm-r8", "flags:" + f.name}})
		}
	}

	// 4. contextual lookups: format x parent flags x child x child flags x action pattern
	type shape struct {
		format     string
		back, look bool
		wide       bool
	}
	shapes := []shape{
		{"c1", false, false, false}, {"c2", false, false, false}, {"c3", false, false, false},
		{"k1", false, false, false}, {"k1", true, false, false}, {"k1", false, true, false}, {"k1", true, true, false},
		{"k2", true, false, false}, {"k2", false, true, false}, {"k2", true, true, false},
		{"k3", false, false, false}, {"k3", true, false, false}, {"k3", false, true, false}, {"k3", true, true, false},
		{"c2", false, false, true}, {"c3", false, false, true},
		{"k2", true, true, true}, {"k3", false, false, true}, {"k3", false, true, true}, {"k3", true, true, true},
	}
	parentFlags := []flagVar{fv("none"), fv("marks"), fv("lig"), fv("mfs0")}
	core := 0
	_ = core
	for _, sh := range shapes {
		for _, n := range []int{1, 2, 3} {
			for _, pf := range parentFlags {
				for ci, ck := range childKinds {
					for _, cf := range []flagVar{fv("none"), fv("marks")} {
						// lookup 0: parent; 1: editing child; 2: marker
						var patterns [][]Action
						if ci == 0 {
							patterns = [][]Action{{{0, 1}}, {{n - 1, 1}}, {{n - 1, 1}, {0, 1}}}
						} else {
							patterns = [][]Action{
								{{0, 1}, {n - 1, 2}}, {{0, 1}, {n, 2}},
								{{n - 1, 1}, {0, 2}}, {{n - 1, 1}, {n - 1, 2}},
								{{0, 1}, {0, 1}, {1, 2}},
							}
						}
						for pi, acts := range patterns {
							e := entry{gd: gd,
								ll: []Lookup{
									{pf.flags, pf.mfs, []Sub{ctxSubW(sh.format, n, sh.back, sh.look, sh.wide, acts)}},
									{cf.flags, cf.mfs, []Sub{ck.sub}},
									{0, 0, []Sub{childKinds[0].sub}},
								},
								order:    []int{0},
								alphabet: []int{gA, gM, gL},
								labels: []string{"ctx:" + sh.format, "ctx-flags:" + pf.name, "child:" + ck.name,
									"child-flags:" + cf.name, fmt.Sprintf("input-len:%d", n)},
								ext: true}
							if sh.wide {
								e.labels = append(e.labels, "ctx-covers-ignorable")
							}
							// a core subset gets the longer sequences
							if n == 2 && pi == 0 && !sh.wide && cf.name == "none" && (pf.name == "none" || pf.name == "marks") {
								e.ext = false
								core++
							}
							out = append(out, e)
						}
					}
				}
			}
		}
	}

	// 5. nested contexts (a contextual child), also with a chained child
	//    whose lookahead lies behind the parent's window
	for _, pf := range []flagVar{fv("none"), fv("marks"), fv("lig")} {
		for _, cf := range []flagVar{fv("none"), fv("marks")} {
			for _, inner := range []string{"c1", "c3", "k1", "k2", "k3"} {
				for _, look := range []bool{false, true} {
					if look && inner[0] != 'k' {
						continue
					}
					for _, ck := range []int{0, 1, 3, 4} {
						for _, at := range []int{0, 1} {
							for _, wide := range []bool{false, true} {
								if wide && (inner == "c1" || inner == "k1") {
									continue
								}
								ll := []Lookup{
									{pf.flags, pf.mfs, []Sub{ctxSub("c1", 2, false, false, []Action{{at, 1}, {1 - at, 3}})}},
									{cf.flags, cf.mfs, []Sub{ctxSubW(inner, 1, false, look, wide, []Action{{0, 2}})}},
									{0, 0, []Sub{childKinds[ck].sub}},
									{0, 0, []Sub{childKinds[0].sub}},
								}
								out = append(out, entry{gd: gd, ll: ll, order: []int{0}, alphabet: []int{gA, gM, gL},
									labels: []string{"nested-ctx:" + inner, "ctx-flags:" + pf.name, "child-flags:" + cf.name,
										"child:" + childKinds[ck].name},
									ext: true})
							}
						}
					}
				}
			}
		}
	}

	// 6. contextual positioning (GPOS 7/8 with GPOS children)
	for _, sh := range shapes {
		for _, pf := range []flagVar{fv("none"), fv("marks")} {
			for ci, child := range []Sub{subP1(), subPP1(), subMB(), subMM()} {
				ll := []Lookup{
					{pf.flags, pf.mfs, []Sub{ctxSubW(sh.format, 2, sh.back, sh.look, sh.wide, []Action{{1, 1}, {0, 1}})}},
					{0, 0, []Sub{child}},
				}
				out = append(out, entry{gd: gd, ll: ll, order: []int{0}, alphabet: []int{gA, gM, gN},
					labels: []string{"ctx-gpos:" + sh.format, "ctx-flags:" + pf.name, fmt.Sprintf("gpos-child:%d", ci)},
					ext:    true})
			}
		}
	}
	// 7. parent and nested lookup with DIFFERENT glyph filters, in particular
	//    the same flag word with different mark filtering sets (the set index
	//    is not part of the flag word): every pair of the three mark glyph
	//    sets, and filtering set against attachment type / IgnoreMarks.
	//    Alphabet A, M, N: the sets disagree on the marks M and N.
	type fpair struct{ p, c flagVar }
	var fpairs []fpair
	mfsv := []flagVar{fv("mfs0"), fv("mfs1"), fv("mfs2")}
	for _, a := range mfsv {
		for _, b := range mfsv {
			fpairs = append(fpairs, fpair{a, b})
		}
		for _, o := range []flagVar{fv("att1"), fv("att2"), fv("marks")} {
			fpairs = append(fpairs, fpair{a, o}, fpair{o, a})
		}
	}
	fpairs = append(fpairs, fpair{fv("att1"), fv("att2")}, fpair{fv("att2"), fv("att1")})
	vm := vr(0, 33, 0)
	filterChildren := []childKind{
		{"gsub1.1", Sub{Kind: "s1", Cov: []int{gA, gM, gN}, Delta: 5}},
		{"gsub4.1", Sub{Kind: "lig", LigSets: []LigSet{{gA, []Lig{{[]int{gA}, gX}}}, {gM, []Lig{{[]int{gA}, gY}}}, {gN, []Lig{{[]int{gN}, gY}}}}}},
		{"gpos2.1", Sub{Kind: "pp1", PairRows: []PairRow{
			{gA, []PairEnt{{gA, PairCell{vr(0, 0, -200), &vm}}, {gM, PairCell{vr(1, 0, 0), nil}}, {gN, PairCell{vr(0, 2, 0), &vm}}}},
			{gM, []PairEnt{{gA, PairCell{vr(0, 0, 7), nil}}}},
		}}},
	}
	filterShapes := []shape{
		{"c1", false, false, false}, {"c2", false, false, true}, {"c3", false, false, true},
		{"k1", false, true, false}, {"k3", false, true, true},
	}
	for _, sh := range filterShapes {
		for _, fp := range fpairs {
			for _, ck := range filterChildren {
				for _, acts := range [][]Action{{{0, 1}}, {{1, 1}, {0, 1}}} {
					out = append(out, entry{gd: gd,
						ll: []Lookup{
							{fp.p.flags, fp.p.mfs, []Sub{ctxSubW(sh.format, 2, sh.back, sh.look, sh.wide, acts)}},
							{fp.c.flags, fp.c.mfs, []Sub{ck.sub}},
						},
						order:    []int{0},
						alphabet: []int{gA, gM, gN},
						labels: []string{"filter-pair", "ctx:" + sh.format, "ctx-flags:" + fp.p.name,
							"child-flags:" + fp.c.name, "child:" + ck.name}})
				}
			}
		}
	}
	return out
}

// ---- random cases ----

func randGids(r *vlib.Rand, alphabet []int, lo, hi int) []int {
	n := r.Range(lo, hi)
	out := make([]int, n)
	for i := range out {
		out[i] = vlib.Pick(r, alphabet)
	}
	return out
}

func randSubset(r *vlib.Rand, alphabet []int) []int {
	var out []int
	for _, g := range alphabet {
		if r.Chance(1, 2) {
			out = append(out, g)
		}
	}
	if len(out) == 0 {
		out = []int{vlib.Pick(r, alphabet)}
	}
	return out
}

func randActs(r *vlib.Rand, n, nl int) []Action {
	k := r.Range(0, 4)
	out := make([]Action, k)
	for i := range out {
		out[i] = Action{r.Intn(n + 1), r.Intn(nl)}
		if r.Chance(1, 30) {
			out[i].Seq = n + 1 + r.Intn(3) // out of range: the action is skipped
		}
		if r.Chance(1, 40) {
			out[i].Lookup = nl + r.Intn(2)
		}
	}
	return out
}

func randClassDef(r *vlib.Rand, alphabet []int, nc int) [][2]int {
	var out [][2]int
	for _, g := range alphabet {
		if c := r.Intn(nc); c > 0 {
			out = append(out, [2]int{g, c})
		}
	}
	return out
}

func randVR(r *vlib.Rand) VRec {
	v := VRec{X: r.Range(-50, 50), Y: r.Range(-50, 50), A: r.Range(-100, 100)}
	if r.Chance(1, 4) {
		v.X = 0
	}
	if r.Chance(1, 60) {
		v.A = vlib.Pick(r, []int{32767, -32768, 30000})
	}
	if r.Chance(1, 80) {
		v.Bad = true
	}
	return v
}

func randSub(r *vlib.Rand, alphabet []int, nl int, allowCtx bool) Sub {
	distinct := func() []int {
		// a random subset in random order (map keys)
		s := randSubset(r, alphabet)
		for i := len(s) - 1; i > 0; i-- {
			j := r.Intn(i + 1)
			s[i], s[j] = s[j], s[i]
		}
		return s
	}
	kinds := []string{"s1", "s2", "mul", "alt", "lig", "lig", "p1", "p2", "pp1", "pp2", "mb", "mm", "r8"}
	if allowCtx {
		kinds = append(kinds, "c1", "c2", "c3", "k1", "k2", "k3", "c1", "c3", "k1", "k3")
	}
	kind := vlib.Pick(r, kinds)
	s := Sub{Kind: kind}
	switch kind {
	case "s1":
		s.Cov, s.Delta = distinct(), vlib.Pick(r, []int{1, 2, 65535, 65534, 5})
	case "s2":
		for _, g := range distinct() {
			s.Map = append(s.Map, [2]int{g, vlib.Pick(r, alphabet)})
		}
	case "mul":
		for _, g := range distinct() {
			lo := 1
			if r.Chance(1, 40) {
				lo = 0 // empty replacement: outside the domain
			}
			s.KVs = append(s.KVs, KV{g, randGids(r, alphabet, lo, 3)})
		}
	case "alt":
		for _, g := range distinct() {
			s.KVs = append(s.KVs, KV{g, randGids(r, alphabet, 0, 2)})
		}
	case "lig":
		for _, g := range distinct() {
			ls := LigSet{G: g}
			for i, n := 0, r.Range(1, 3); i < n; i++ {
				ls.Ligs = append(ls.Ligs, Lig{randGids(r, alphabet, 0, 3), vlib.Pick(r, alphabet)})
			}
			s.LigSets = append(s.LigSets, ls)
		}
	case "c1":
		for _, g := range distinct() {
			cs := CSet{G: g}
			for i, n := 0, r.Range(1, 2); i < n; i++ {
				in := randGids(r, alphabet, 0, 2)
				cs.Rules = append(cs.Rules, CRule{in, randActs(r, len(in)+1, nl)})
			}
			s.CSets = append(s.CSets, cs)
		}
	case "c2":
		s.Cov, s.CD = distinct(), randClassDef(r, alphabet, 3)
		for c := 0; c < 3; c++ {
			row := []CRule{}
			for i, n := 0, r.Range(0, 2); i < n; i++ {
				in := make([]int, r.Range(0, 2))
				for j := range in {
					in[j] = r.Intn(3)
				}
				row = append(row, CRule{in, randActs(r, len(in)+1, nl)})
			}
			s.CRules = append(s.CRules, row)
		}
	case "c3":
		n := r.Range(1, 3)
		for i := 0; i < n; i++ {
			s.Covs = append(s.Covs, randSubset(r, alphabet))
		}
		s.Acts = randActs(r, n, nl)
	case "k1":
		for _, g := range distinct() {
			ks := KSet{G: g}
			for i, n := 0, r.Range(1, 2); i < n; i++ {
				in := randGids(r, alphabet, 0, 2)
				ks.Rules = append(ks.Rules, KRule{randGids(r, alphabet, 0, 2), in, randGids(r, alphabet, 0, 2), randActs(r, len(in)+1, nl)})
			}
			s.KSets = append(s.KSets, ks)
		}
	case "k2":
		s.Cov = distinct()
		s.CD, s.CD2, s.CD3 = randClassDef(r, alphabet, 3), randClassDef(r, alphabet, 3), randClassDef(r, alphabet, 3)
		cl := func(lo, hi int) []int {
			out := make([]int, r.Range(lo, hi))
			for j := range out {
				out[j] = r.Intn(3)
			}
			return out
		}
		for c := 0; c < r.Range(1, 3); c++ {
			row := []KRule{}
			for i, n := 0, r.Range(0, 2); i < n; i++ {
				in := cl(0, 2)
				row = append(row, KRule{cl(0, 2), in, cl(0, 2), randActs(r, len(in)+1, nl)})
			}
			s.KRules = append(s.KRules, row)
		}
	case "k3":
		covs := func(lo, hi int) [][]int {
			out := [][]int{}
			for i, n := 0, r.Range(lo, hi); i < n; i++ {
				out = append(out, randSubset(r, alphabet))
			}
			return out
		}
		s.Covs, s.Covs2, s.Covs3 = covs(0, 2), covs(1, 3), covs(0, 2)
		s.Acts = randActs(r, len(s.Covs2), nl)
	case "p1":
		s.Cov, s.V = distinct(), randVR(r)
	case "p2":
		for _, g := range distinct() {
			s.GVs = append(s.GVs, GV{g, randVR(r)})
		}
	case "pp1":
		for _, g := range distinct() {
			row := PairRow{G: g}
			for _, g2 := range distinct() {
				c := PairCell{V1: randVR(r)}
				if r.Bool() {
					v := randVR(r)
					c.V2 = &v
				}
				row.Ents = append(row.Ents, PairEnt{g2, c})
			}
			s.PairRows = append(s.PairRows, row)
		}
	case "pp2":
		s.Cov, s.CD, s.CD2 = distinct(), randClassDef(r, alphabet, 2), randClassDef(r, alphabet, 3)
		for i := 0; i < 2; i++ {
			var row []PairCell
			for j := 0; j < r.Range(2, 3); j++ {
				c := PairCell{V1: randVR(r)}
				if r.Bool() {
					v := randVR(r)
					c.V2 = &v
				}
				row = append(row, c)
			}
			s.PairMat = append(s.PairMat, row)
		}
	case "r8":
		for _, g := range distinct() {
			s.Map = append(s.Map, [2]int{g, vlib.Pick(r, alphabet)})
		}
		s.Covs, s.Covs3 = [][]int{}, [][]int{}
		for i, n := 0, r.Range(0, 2); i < n; i++ {
			s.Covs = append(s.Covs, randSubset(r, alphabet))
		}
		for i, n := 0, r.Range(0, 2); i < n; i++ {
			s.Covs3 = append(s.Covs3, randSubset(r, alphabet))
		}
	case "mb", "mm":
		nc := r.Range(1, 2)
		for _, g := range distinct() {
			s.Marks = append(s.Marks, MarkRec{g, r.Intn(nc), r.Range(-300, 300), r.Range(-300, 300)})
		}
		for _, g := range distinct() {
			b := BaseRec{G: g}
			for c := 0; c < nc; c++ {
				if r.Chance(1, 5) {
					b.Anchors = append(b.Anchors, nil)
				} else {
					b.Anchors = append(b.Anchors, &[2]int{r.Range(1, 600), r.Range(-600, 600)})
				}
			}
			s.Bases = append(s.Bases, b)
		}
	}
	return s
}

func randFlags(r *vlib.Rand) (int, int) {
	if r.Chance(1, 3) {
		return 0, 0
	}
	if r.Chance(1, 2) {
		f := vlib.Pick(r, flagVars)
		return f.flags, f.mfs
	}
	flags := 0
	for _, b := range []int{flagBase, flagLig, flagMarks, flagMFS} {
		if r.Chance(1, 4) {
			flags |= b
		}
	}
	if r.Chance(1, 3) {
		flags |= r.Range(1, 3) << 8
	}
	mfs := r.Intn(3)
	if r.Chance(1, 50) {
		mfs = 3 // no such set: outside the domain
	}
	return flags, mfs
}

func randGdef(r *vlib.Rand, alphabet []int) *Gdef {
	switch r.Intn(6) {
	case 0:
		return nil
	case 1, 2:
		return fullGdef()
	}
	g := &Gdef{Sets: [][]int{randSubset(r, alphabet), randSubset(r, alphabet)}}
	for _, x := range alphabet {
		if c := r.Intn(5); c > 0 {
			g.Class = append(g.Class, [2]int{x, c})
		}
		if c := r.Intn(3); c > 0 {
			g.Attach = append(g.Attach, [2]int{x, c})
		}
	}
	return g
}

func randomCase(r *vlib.Rand) (*Case, []string) {
	alphabet := []int{gA, gB, gL, gM, gN, gX, gY, gZ}[:r.Range(3, 8)]
	nl := r.Range(1, 5)
	c := &Case{Gdef: randGdef(r, alphabet)}
	labels := []string{}
	seen := map[string]bool{}
	for i := 0; i < nl; i++ {
		f, m := randFlags(r)
		lk := Lookup{Flags: f, MFS: m}
		for j, n := 0, r.Range(1, 3); j < n; j++ {
			s := randSub(r, alphabet, nl, true)
			lk.Subs = append(lk.Subs, s)
			if !seen[s.Kind] {
				seen[s.Kind] = true
				labels = append(labels, "rand-kind:"+s.Kind)
			}
		}
		c.LL = append(c.LL, lk)
	}
	for i, n := 0, r.Range(1, 4); i < n; i++ {
		c.Order = append(c.Order, r.Intn(nl))
	}
	ns := 8
	for i := 0; i < ns; i++ {
		gids := randGids(r, alphabet, 0, 16)
		seq := mkSeq(gids)
		if r.Chance(1, 4) {
			for j := range seq {
				seq[j].X, seq[j].Y = r.Range(-20, 20), r.Range(-20, 20)
			}
		}
		c.Seqs = append(c.Seqs, seq)
	}
	if c.Gdef == nil {
		labels = append(labels, "nogdef")
	}
	return c, labels
}
