package c06

import (
	"fmt"
	"sort"

	"seehuhn.de/go/postscript/funit"

	"seehuhn.de/go/sfnt/glyph"
	"seehuhn.de/go/sfnt/opentype/anchor"
	"seehuhn.de/go/sfnt/opentype/classdef"
	"seehuhn.de/go/sfnt/opentype/coverage"
	"seehuhn.de/go/sfnt/opentype/gdef"
	"seehuhn.de/go/sfnt/opentype/gtab"
	"seehuhn.de/go/sfnt/opentype/markarray"
)

// ---- abstract description -> the library's structures ----

func gids(xs []int) []glyph.ID {
	out := make([]glyph.ID, len(xs))
	for i, x := range xs {
		out[i] = glyph.ID(x)
	}
	return out
}

func u16s(xs []int) []uint16 {
	out := make([]uint16, len(xs))
	for i, x := range xs {
		out[i] = uint16(x)
	}
	return out
}

func covSet(xs []int) coverage.Set {
	s := coverage.Set{}
	for _, x := range xs {
		s[glyph.ID(x)] = true
	}
	return s
}

func covSets(xs [][]int) []coverage.Set {
	out := make([]coverage.Set, len(xs))
	for i, x := range xs {
		out[i] = covSet(x)
	}
	return out
}

func covTable(xs []int) coverage.Table {
	t := coverage.Table{}
	for i, x := range xs {
		t[glyph.ID(x)] = i
	}
	return t
}

func classDef(xs [][2]int) classdef.Table {
	t := classdef.Table{}
	for _, x := range xs {
		t[glyph.ID(x[0])] = uint16(x[1])
	}
	return t
}

func seqLookups(as []Action) []gtab.SeqLookup {
	out := make([]gtab.SeqLookup, len(as))
	for i, a := range as {
		out[i] = gtab.SeqLookup{SequenceIndex: uint16(a.Seq), LookupListIndex: gtab.LookupIndex(a.Lookup)}
	}
	return out
}

func valueRecord(v VRec) *gtab.GposValueRecord {
	r := &gtab.GposValueRecord{
		XPlacement: funit.Int16(v.X),
		YPlacement: funit.Int16(v.Y),
		XAdvance:   funit.Int16(v.A),
	}
	if v.Bad {
		r.YAdvance = 1
	}
	return r
}

func valueRecordOrNil(v VRec) *gtab.GposValueRecord {
	if v == (VRec{}) {
		return nil
	}
	return valueRecord(v)
}

func pairAdjust(c PairCell) *gtab.PairAdjust {
	pa := &gtab.PairAdjust{First: valueRecord(c.V1)}
	if c.V2 != nil {
		pa.Second = valueRecord(*c.V2)
	}
	return pa
}

func (s *Sub) toGtab() gtab.Subtable {
	switch s.Kind {
	case "s1":
		return &gtab.Gsub1_1{Cov: covSet(s.Cov), Delta: glyph.ID(s.Delta)}
	case "s2":
		var keys, vals []int
		for _, e := range s.Map {
			keys = append(keys, e[0])
			vals = append(vals, e[1])
		}
		return &gtab.Gsub1_2{Cov: covTable(keys), SubstituteGlyphIDs: gids(vals)}
	case "mul", "alt":
		var keys []int
		var repl [][]glyph.ID
		for _, e := range s.KVs {
			keys = append(keys, e.G)
			repl = append(repl, gids(e.Vals))
		}
		if s.Kind == "mul" {
			return &gtab.Gsub2_1{Cov: covTable(keys), Repl: repl}
		}
		return &gtab.Gsub3_1{Cov: covTable(keys), Alternates: repl}
	case "lig":
		var keys []int
		var repl [][]gtab.Ligature
		for _, e := range s.LigSets {
			keys = append(keys, e.G)
			var ls []gtab.Ligature
			for _, l := range e.Ligs {
				ls = append(ls, gtab.Ligature{In: gids(l.Comps), Out: glyph.ID(l.Out)})
			}
			repl = append(repl, ls)
		}
		return &gtab.Gsub4_1{Cov: covTable(keys), Repl: repl}
	case "c1":
		var keys []int
		var rules [][]*gtab.SeqRule
		for _, e := range s.CSets {
			keys = append(keys, e.G)
			var rs []*gtab.SeqRule
			for _, r := range e.Rules {
				rs = append(rs, &gtab.SeqRule{Input: gids(r.In), Actions: seqLookups(r.Acts)})
			}
			rules = append(rules, rs)
		}
		return &gtab.SeqContext1{Cov: covTable(keys), Rules: rules}
	case "c2":
		var rules [][]*gtab.ClassSeqRule
		for _, e := range s.CRules {
			var rs []*gtab.ClassSeqRule
			for _, r := range e {
				rs = append(rs, &gtab.ClassSeqRule{Input: u16s(r.In), Actions: seqLookups(r.Acts)})
			}
			rules = append(rules, rs)
		}
		return &gtab.SeqContext2{Cov: covTable(s.Cov), Input: classDef(s.CD), Rules: rules}
	case "c3":
		return &gtab.SeqContext3{Input: covSets(s.Covs), Actions: seqLookups(s.Acts)}
	case "k1":
		var keys []int
		var rules [][]*gtab.ChainedSeqRule
		for _, e := range s.KSets {
			keys = append(keys, e.G)
			var rs []*gtab.ChainedSeqRule
			for _, r := range e.Rules {
				rs = append(rs, &gtab.ChainedSeqRule{Backtrack: gids(r.Back), Input: gids(r.In),
					Lookahead: gids(r.Look), Actions: seqLookups(r.Acts)})
			}
			rules = append(rules, rs)
		}
		return &gtab.ChainedSeqContext1{Cov: covTable(keys), Rules: rules}
	case "k2":
		var rules [][]*gtab.ChainedClassSeqRule
		for _, e := range s.KRules {
			var rs []*gtab.ChainedClassSeqRule
			for _, r := range e {
				rs = append(rs, &gtab.ChainedClassSeqRule{Backtrack: u16s(r.Back), Input: u16s(r.In),
					Lookahead: u16s(r.Look), Actions: seqLookups(r.Acts)})
			}
			rules = append(rules, rs)
		}
		return &gtab.ChainedSeqContext2{Cov: covTable(s.Cov), Backtrack: classDef(s.CD),
			Input: classDef(s.CD2), Lookahead: classDef(s.CD3), Rules: rules}
	case "k3":
		return &gtab.ChainedSeqContext3{Backtrack: covSets(s.Covs), Input: covSets(s.Covs2),
			Lookahead: covSets(s.Covs3), Actions: seqLookups(s.Acts)}
	case "p1":
		// an all-zero record is handed over as a NIL value record (value format
		// 0 in the file): the covered glyph still MATCHES the subtable, nothing
		// is added - the same meaning, the form font files use
		return &gtab.Gpos1_1{Cov: covTable(s.Cov), Adjust: valueRecordOrNil(s.V)}
	case "p2":
		var keys []int
		var adj []*gtab.GposValueRecord
		for _, e := range s.GVs {
			keys = append(keys, e.G)
			adj = append(adj, valueRecordOrNil(e.V))
		}
		return &gtab.Gpos1_2{Cov: covTable(keys), Adjust: adj}
	case "pp1":
		t := gtab.Gpos2_1{}
		for _, r := range s.PairRows {
			for _, e := range r.Ents {
				t[glyph.Pair{Left: glyph.ID(r.G), Right: glyph.ID(e.G2)}] = pairAdjust(e.PairCell)
			}
		}
		return t
	case "pp2":
		var adj [][]*gtab.PairAdjust
		for _, r := range s.PairMat {
			var row []*gtab.PairAdjust
			for _, c := range r {
				row = append(row, pairAdjust(c))
			}
			adj = append(adj, row)
		}
		return &gtab.Gpos2_2{Cov: covSet(s.Cov), Class1: classDef(s.CD), Class2: classDef(s.CD2), Adjust: adj}
	case "r8":
		var keys, vals []int
		for _, e := range s.Map {
			keys = append(keys, e[0])
			vals = append(vals, e[1])
		}
		back := make([]coverage.Table, len(s.Covs))
		for i, c := range s.Covs {
			back[i] = covTable(c)
		}
		look := make([]coverage.Table, len(s.Covs3))
		for i, c := range s.Covs3 {
			look[i] = covTable(c)
		}
		return &gtab.Gsub8_1{Input: covTable(keys), Backtrack: back, Lookahead: look, SubstituteGlyphIDs: gids(vals)}
	case "mb", "mm":
		var mk, bk []int
		var marr []markarray.Record
		for _, m := range s.Marks {
			mk = append(mk, m.G)
			marr = append(marr, markarray.Record{Class: uint16(m.Cls),
				Table: anchor.Table{X: funit.Int16(m.X), Y: funit.Int16(m.Y)}})
		}
		var barr [][]anchor.Table
		for _, b := range s.Bases {
			bk = append(bk, b.G)
			var row []anchor.Table
			for _, a := range b.Anchors {
				if a == nil {
					row = append(row, anchor.Table{})
				} else {
					row = append(row, anchor.Table{X: funit.Int16(a[0]), Y: funit.Int16(a[1])})
				}
			}
			barr = append(barr, row)
		}
		if s.Kind == "mm" {
			return &gtab.Gpos6_1{Mark1Cov: covTable(mk), Mark2Cov: covTable(bk), Mark1Array: marr, Mark2Array: barr}
		}
		return &gtab.Gpos4_1{MarkCov: covTable(mk), BaseCov: covTable(bk), MarkArray: marr, BaseArray: barr}
	}
	return nil
}

// toGtab builds the library's lookup list; ok is false when the description
// contains a subtable the harness cannot build (kind unsup).
func toGtab(ll []Lookup) (out gtab.LookupList, ok bool) {
	ok = true
	for i := range ll {
		lt := &gtab.LookupTable{Meta: &gtab.LookupMetaInfo{
			LookupFlags:      gtab.LookupFlags(ll[i].Flags),
			MarkFilteringSet: uint16(ll[i].MFS),
		}}
		for j := range ll[i].Subs {
			st := ll[i].Subs[j].toGtab()
			if st == nil {
				ok = false
				continue
			}
			lt.Subtables = append(lt.Subtables, st)
		}
		out = append(out, lt)
	}
	return out, ok
}

func (g *Gdef) toGtab() *gdef.Table {
	if g == nil {
		return nil
	}
	t := &gdef.Table{GlyphClass: classDef(g.Class)}
	if len(g.Attach) > 0 {
		t.MarkAttachClass = classDef(g.Attach)
	}
	if len(g.Sets) > 0 {
		t.MarkGlyphSets = covSets(g.Sets)
	}
	return t
}

func toInfo(seq []Glyph) []glyph.Info {
	// every glyph's Text is a sub-slice of one shared array (a caller splitting
	// one rune slice into per-glyph pieces): a lookup that appends to a Text in
	// place overwrites the text of the glyphs that follow
	total := 0
	for _, g := range seq {
		total += len(g.Text)
	}
	shared := make([]rune, 0, total+2)
	out := make([]glyph.Info, len(seq))
	for i, g := range seq {
		out[i].GID = glyph.ID(g.GID)
		if len(g.Text) > 0 {
			a := len(shared)
			for _, r := range g.Text {
				shared = append(shared, rune(r))
			}
			out[i].Text = shared[a:len(shared)]
		}
		out[i].XOffset = funit.Int16(g.X)
		out[i].YOffset = funit.Int16(g.Y)
		out[i].Advance = funit.Int16(g.Adv)
	}
	return out
}

func fromInfo(seq []glyph.Info) []Glyph {
	out := make([]Glyph, len(seq))
	for i, g := range seq {
		out[i].GID = int(g.GID)
		for _, r := range g.Text {
			out[i].Text = append(out[i].Text, int(r))
		}
		out[i].X, out[i].Y, out[i].Adv = int(g.XOffset), int(g.YOffset), int(g.Advance)
	}
	return out
}

// ---- the library's structures -> abstract description (pinned cases) ----

func sortedGids[V any](m map[glyph.ID]V) []int {
	out := make([]int, 0, len(m))
	for g := range m {
		out = append(out, int(g))
	}
	sort.Ints(out)
	return out
}

func fromCovTable(t coverage.Table) []int {
	// ordered by coverage index
	out := make([]int, len(t))
	for i := range out {
		out[i] = -1
	}
	for g, i := range t {
		if i < 0 || i >= len(out) || out[i] >= 0 {
			return nil
		}
		out[i] = int(g)
	}
	return out
}

func fromCovSet(s coverage.Set) []int {
	var out []int
	for _, g := range sortedGids(s) {
		if s[glyph.ID(g)] {
			out = append(out, g)
		}
	}
	return out
}

func fromCovSets(ss []coverage.Set) [][]int {
	out := make([][]int, len(ss))
	for i, s := range ss {
		out[i] = fromCovSet(s)
		if out[i] == nil {
			out[i] = []int{}
		}
	}
	return out
}

func fromClassDef(t classdef.Table) [][2]int {
	var out [][2]int
	for _, g := range sortedGids(t) {
		out = append(out, [2]int{g, int(t[glyph.ID(g)])})
	}
	return out
}

func fromGids(xs []glyph.ID) []int {
	out := make([]int, len(xs))
	for i, x := range xs {
		out[i] = int(x)
	}
	return out
}

func fromU16(xs []uint16) []int {
	out := make([]int, len(xs))
	for i, x := range xs {
		out[i] = int(x)
	}
	return out
}

func fromActs(as []gtab.SeqLookup) []Action {
	out := make([]Action, len(as))
	for i, a := range as {
		out[i] = Action{int(a.SequenceIndex), int(a.LookupListIndex)}
	}
	return out
}

func fromVR(v *gtab.GposValueRecord) VRec {
	if v == nil {
		return VRec{}
	}
	return VRec{X: int(v.XPlacement), Y: int(v.YPlacement), A: int(v.XAdvance),
		Bad: v.YAdvance != 0 || v.XPlacementDevOffs != 0 || v.YPlacementDevOffs != 0 ||
			v.XAdvanceDevOffs != 0 || v.YAdvanceDevOffs != 0}
}

func fromPairAdjust(pa *gtab.PairAdjust) PairCell {
	c := PairCell{V1: fromVR(pa.First)}
	if pa.Second != nil {
		v := fromVR(pa.Second)
		c.V2 = &v
	}
	return c
}

func unsup(note string) Sub { return Sub{Kind: "unsup", Note: note} }

func fromSubtable(st gtab.Subtable) Sub {
	switch t := st.(type) {
	case *gtab.Gsub1_1:
		return Sub{Kind: "s1", Cov: fromCovSetPresence(t.Cov), Delta: int(t.Delta)}
	case *gtab.Gsub1_2:
		keys := fromCovTable(t.Cov)
		if keys == nil || len(keys) != len(t.SubstituteGlyphIDs) {
			return unsup("gsub1.2 shape")
		}
		s := Sub{Kind: "s2"}
		for i, k := range keys {
			s.Map = append(s.Map, [2]int{k, int(t.SubstituteGlyphIDs[i])})
		}
		return s
	case *gtab.Gsub2_1:
		keys := fromCovTable(t.Cov)
		if keys == nil || len(keys) != len(t.Repl) {
			return unsup("gsub2.1 shape")
		}
		s := Sub{Kind: "mul"}
		for i, k := range keys {
			s.KVs = append(s.KVs, KV{k, fromGids(t.Repl[i])})
		}
		return s
	case *gtab.Gsub3_1:
		keys := fromCovTable(t.Cov)
		if keys == nil || len(keys) != len(t.Alternates) {
			return unsup("gsub3.1 shape")
		}
		s := Sub{Kind: "alt"}
		for i, k := range keys {
			s.KVs = append(s.KVs, KV{k, fromGids(t.Alternates[i])})
		}
		return s
	case *gtab.Gsub4_1:
		keys := fromCovTable(t.Cov)
		if keys == nil || len(keys) != len(t.Repl) {
			return unsup("gsub4.1 shape")
		}
		s := Sub{Kind: "lig"}
		for i, k := range keys {
			ls := LigSet{G: k}
			for _, l := range t.Repl[i] {
				ls.Ligs = append(ls.Ligs, Lig{fromGids(l.In), int(l.Out)})
			}
			s.LigSets = append(s.LigSets, ls)
		}
		return s
	case *gtab.SeqContext1:
		keys := fromCovTable(t.Cov)
		if keys == nil || len(keys) != len(t.Rules) {
			return unsup("seqcontext1 shape")
		}
		s := Sub{Kind: "c1"}
		for i, k := range keys {
			cs := CSet{G: k}
			for _, r := range t.Rules[i] {
				cs.Rules = append(cs.Rules, CRule{fromGids(r.Input), fromActs(r.Actions)})
			}
			s.CSets = append(s.CSets, cs)
		}
		return s
	case *gtab.SeqContext2:
		s := Sub{Kind: "c2", Cov: sortedGids(t.Cov), CD: fromClassDef(t.Input)}
		for _, rs := range t.Rules {
			row := []CRule{}
			for _, r := range rs {
				row = append(row, CRule{fromU16(r.Input), fromActs(r.Actions)})
			}
			s.CRules = append(s.CRules, row)
		}
		return s
	case *gtab.SeqContext3:
		return Sub{Kind: "c3", Covs: fromCovSets(t.Input), Acts: fromActs(t.Actions)}
	case *gtab.ChainedSeqContext1:
		keys := fromCovTable(t.Cov)
		if keys == nil || len(keys) != len(t.Rules) {
			return unsup("chainedseqcontext1 shape")
		}
		s := Sub{Kind: "k1"}
		for i, k := range keys {
			ks := KSet{G: k}
			for _, r := range t.Rules[i] {
				ks.Rules = append(ks.Rules, KRule{fromGids(r.Backtrack), fromGids(r.Input),
					fromGids(r.Lookahead), fromActs(r.Actions)})
			}
			s.KSets = append(s.KSets, ks)
		}
		return s
	case *gtab.ChainedSeqContext2:
		s := Sub{Kind: "k2", Cov: sortedGids(t.Cov), CD: fromClassDef(t.Backtrack),
			CD2: fromClassDef(t.Input), CD3: fromClassDef(t.Lookahead)}
		for _, rs := range t.Rules {
			row := []KRule{}
			for _, r := range rs {
				row = append(row, KRule{fromU16(r.Backtrack), fromU16(r.Input), fromU16(r.Lookahead), fromActs(r.Actions)})
			}
			s.KRules = append(s.KRules, row)
		}
		return s
	case *gtab.ChainedSeqContext3:
		return Sub{Kind: "k3", Covs: fromCovSets(t.Backtrack), Covs2: fromCovSets(t.Input),
			Covs3: fromCovSets(t.Lookahead), Acts: fromActs(t.Actions)}
	case *gtab.Gpos1_1:
		return Sub{Kind: "p1", Cov: sortedGids(t.Cov), V: fromVR(t.Adjust)}
	case *gtab.Gpos1_2:
		keys := fromCovTable(t.Cov)
		if keys == nil || len(keys) != len(t.Adjust) {
			return unsup("gpos1.2 shape")
		}
		s := Sub{Kind: "p2"}
		for i, k := range keys {
			s.GVs = append(s.GVs, GV{k, fromVR(t.Adjust[i])})
		}
		return s
	case gtab.Gpos2_1:
		s := Sub{Kind: "pp1"}
		rows := map[int][]PairEnt{}
		for p, pa := range t {
			rows[int(p.Left)] = append(rows[int(p.Left)], PairEnt{int(p.Right), fromPairAdjust(pa)})
		}
		var lefts []int
		for l := range rows {
			lefts = append(lefts, l)
		}
		sort.Ints(lefts)
		for _, l := range lefts {
			es := rows[l]
			sort.Slice(es, func(i, j int) bool { return es[i].G2 < es[j].G2 })
			s.PairRows = append(s.PairRows, PairRow{l, es})
		}
		return s
	case *gtab.Gpos2_2:
		s := Sub{Kind: "pp2", Cov: fromCovSetPresence(t.Cov), CD: fromClassDef(t.Class1), CD2: fromClassDef(t.Class2)}
		for _, r := range t.Adjust {
			row := []PairCell{}
			for _, pa := range r {
				if pa == nil {
					return unsup("gpos2.2 nil entry")
				}
				row = append(row, fromPairAdjust(pa))
			}
			s.PairMat = append(s.PairMat, row)
		}
		return s
	case *gtab.Gsub8_1:
		keys := fromCovTable(t.Input)
		if keys == nil || len(keys) != len(t.SubstituteGlyphIDs) {
			return unsup("gsub8.1 shape")
		}
		s := Sub{Kind: "r8", Covs: [][]int{}, Covs3: [][]int{}}
		for i, k := range keys {
			s.Map = append(s.Map, [2]int{k, int(t.SubstituteGlyphIDs[i])})
		}
		for _, c := range t.Backtrack {
			s.Covs = append(s.Covs, sortedGids(c))
		}
		for _, c := range t.Lookahead {
			s.Covs3 = append(s.Covs3, sortedGids(c))
		}
		return s
	case *gtab.Gpos4_1, *gtab.Gpos6_1:
		var markCov, baseCov coverage.Table
		var markArray []markarray.Record
		var baseArray [][]anchor.Table
		kind := "mb"
		if t4, ok := t.(*gtab.Gpos4_1); ok {
			markCov, baseCov, markArray, baseArray = t4.MarkCov, t4.BaseCov, t4.MarkArray, t4.BaseArray
		} else {
			t6 := t.(*gtab.Gpos6_1)
			markCov, baseCov, markArray, baseArray = t6.Mark1Cov, t6.Mark2Cov, t6.Mark1Array, t6.Mark2Array
			kind = "mm"
		}
		mk := fromCovTable(markCov)
		bk := fromCovTable(baseCov)
		if mk == nil || bk == nil || len(mk) != len(markArray) || len(bk) != len(baseArray) {
			return unsup("gpos4.1/6.1 shape")
		}
		s := Sub{Kind: kind}
		for i, g := range mk {
			r := markArray[i]
			s.Marks = append(s.Marks, MarkRec{g, int(r.Class), int(r.X), int(r.Y)})
		}
		for i, g := range bk {
			b := BaseRec{G: g, Anchors: []*[2]int{}}
			for _, a := range baseArray[i] {
				if a.IsEmpty() {
					b.Anchors = append(b.Anchors, nil)
				} else {
					b.Anchors = append(b.Anchors, &[2]int{int(a.X), int(a.Y)})
				}
			}
			s.Bases = append(s.Bases, b)
		}
		return s
	}
	return unsup(fmt.Sprintf("%T", st))
}

// a coverage.Set used by presence of the key (Gsub1_1, Gpos2_2 test `_, ok := cov[gid]`)
func fromCovSetPresence(s coverage.Set) []int { return sortedGids(s) }

func fromGtab(ll gtab.LookupList) []Lookup {
	out := make([]Lookup, len(ll))
	for i, lt := range ll {
		out[i].Flags = int(lt.Meta.LookupFlags)
		out[i].MFS = int(lt.Meta.MarkFilteringSet)
		out[i].Subs = []Sub{}
		for _, st := range lt.Subtables {
			out[i].Subs = append(out[i].Subs, fromSubtable(st))
		}
	}
	return out
}

func fromGdef(t *gdef.Table) *Gdef {
	if t == nil || t.GlyphClass == nil {
		return nil
	}
	g := &Gdef{Class: fromClassDef(t.GlyphClass), Attach: fromClassDef(t.MarkAttachClass)}
	for _, s := range t.MarkGlyphSets {
		g.Sets = append(g.Sets, fromCovSet(s))
	}
	return g
}
