// Package c06 compares gtab.Context.Apply with a reference shaper on
// exhaustive small glyph sequences, random larger ones and the pinned cases
// of opentype/gtab/testcases, and records the observations in the syntax the
// Coq reference model R_shape (coq/C06/Model.v) prints.
package c06

import (
	"fmt"

	"seehuhn.de/go/sfnt/verifharness/vlib"
)

// ---- abstract description of a case (mirrors coq/C06/Model.v) ----

type Glyph struct {
	GID       int
	Text      []int
	X, Y, Adv int
}

type Gdef struct {
	Class  [][2]int
	Attach [][2]int
	Sets   [][]int
}

type Action struct{ Seq, Lookup int }

type VRec struct {
	X, Y, A int
	Bad     bool
}

type KV struct {
	G    int
	Vals []int
}
type Lig struct {
	Comps []int
	Out   int
}
type LigSet struct {
	G    int
	Ligs []Lig
}
type CRule struct {
	In   []int
	Acts []Action
}
type CSet struct {
	G     int
	Rules []CRule
}
type KRule struct {
	Back, In, Look []int
	Acts           []Action
}
type KSet struct {
	G     int
	Rules []KRule
}
type GV struct {
	G int
	V VRec
}
type PairCell struct {
	V1 VRec
	V2 *VRec
}
type PairEnt struct {
	G2 int
	PairCell
}
type PairRow struct {
	G    int
	Ents []PairEnt
}
type MarkRec struct{ G, Cls, X, Y int }
type BaseRec struct {
	G       int
	Anchors []*[2]int
}

// Sub is a tagged union; Kind is one of
// s1 s2 mul alt lig c1 c2 c3 k1 k2 k3 p1 p2 pp1 pp2 mb mm r8 unsup.
type Sub struct {
	Kind     string
	Cov      []int        // s1 c2 k2 p1 pp2
	Delta    int          // s1
	Map      [][2]int     // s2
	KVs      []KV         // mul alt
	LigSets  []LigSet     // lig
	CSets    []CSet       // c1
	CD       [][2]int     // c2: input; k2: backtrack; pp2: class1
	CD2      [][2]int     // k2: input; pp2: class2
	CD3      [][2]int     // k2: lookahead
	CRules   [][]CRule    // c2
	Covs     [][]int      // c3: input; k3: backtrack
	Covs2    [][]int      // k3: input
	Covs3    [][]int      // k3: lookahead
	Acts     []Action     // c3 k3
	KSets    []KSet       // k1
	KRules   [][]KRule    // k2
	V        VRec         // p1
	GVs      []GV         // p2
	PairRows []PairRow    // pp1
	PairMat  [][]PairCell // pp2
	Marks    []MarkRec    // mb
	Bases    []BaseRec    // mb
	Note     string       // unsup: what it was
}

type Lookup struct {
	Flags, MFS int
	Subs       []Sub
}

type Case struct {
	Gdef  *Gdef
	LL    []Lookup
	Order []int
	Seqs  [][]Glyph
}

// ---- printing ----

func ints(xs []int) vlib.Sx {
	l := make(vlib.List, len(xs))
	for i, x := range xs {
		l[i] = vlib.Int(x)
	}
	return l
}

func intLists(xs [][]int) vlib.Sx {
	l := make(vlib.List, len(xs))
	for i, x := range xs {
		l[i] = ints(x)
	}
	return l
}

func pairs(xs [][2]int) vlib.Sx {
	l := make(vlib.List, len(xs))
	for i, x := range xs {
		l[i] = vlib.L(vlib.Int(x[0]), vlib.Int(x[1]))
	}
	return l
}

func actsSx(as []Action) vlib.Sx {
	l := make(vlib.List, len(as))
	for i, a := range as {
		l[i] = vlib.L(vlib.Int(a.Seq), vlib.Int(a.Lookup))
	}
	return l
}

func (v VRec) sx() vlib.Sx {
	return vlib.L(vlib.Int(v.X), vlib.Int(v.Y), vlib.Int(v.A), vlib.Bool(v.Bad))
}

func vopt(v *VRec) vlib.Sx {
	if v == nil {
		return vlib.Atom("none")
	}
	return v.sx()
}

func crulesSx(rs []CRule) vlib.Sx {
	l := make(vlib.List, len(rs))
	for i, r := range rs {
		l[i] = vlib.L(ints(r.In), actsSx(r.Acts))
	}
	return l
}

func krulesSx(rs []KRule) vlib.Sx {
	l := make(vlib.List, len(rs))
	for i, r := range rs {
		l[i] = vlib.L(ints(r.Back), ints(r.In), ints(r.Look), actsSx(r.Acts))
	}
	return l
}

func (s *Sub) sx() vlib.Sx {
	k := vlib.Atom(s.Kind)
	switch s.Kind {
	case "s1":
		return vlib.L(k, ints(s.Cov), vlib.Int(s.Delta))
	case "s2":
		return vlib.L(k, pairs(s.Map))
	case "mul", "alt":
		l := make(vlib.List, len(s.KVs))
		for i, e := range s.KVs {
			l[i] = vlib.L(vlib.Int(e.G), ints(e.Vals))
		}
		return vlib.L(k, l)
	case "lig":
		l := make(vlib.List, len(s.LigSets))
		for i, e := range s.LigSets {
			ll := make(vlib.List, len(e.Ligs))
			for j, lg := range e.Ligs {
				ll[j] = vlib.L(ints(lg.Comps), vlib.Int(lg.Out))
			}
			l[i] = vlib.L(vlib.Int(e.G), ll)
		}
		return vlib.L(k, l)
	case "c1":
		l := make(vlib.List, len(s.CSets))
		for i, e := range s.CSets {
			l[i] = vlib.L(vlib.Int(e.G), crulesSx(e.Rules))
		}
		return vlib.L(k, l)
	case "c2":
		l := make(vlib.List, len(s.CRules))
		for i, e := range s.CRules {
			l[i] = crulesSx(e)
		}
		return vlib.L(k, ints(s.Cov), pairs(s.CD), l)
	case "c3":
		return vlib.L(k, intLists(s.Covs), actsSx(s.Acts))
	case "k1":
		l := make(vlib.List, len(s.KSets))
		for i, e := range s.KSets {
			l[i] = vlib.L(vlib.Int(e.G), krulesSx(e.Rules))
		}
		return vlib.L(k, l)
	case "k2":
		l := make(vlib.List, len(s.KRules))
		for i, e := range s.KRules {
			l[i] = krulesSx(e)
		}
		return vlib.L(k, ints(s.Cov), pairs(s.CD), pairs(s.CD2), pairs(s.CD3), l)
	case "k3":
		return vlib.L(k, intLists(s.Covs), intLists(s.Covs2), intLists(s.Covs3), actsSx(s.Acts))
	case "p1":
		return vlib.L(k, ints(s.Cov), s.V.sx())
	case "p2":
		l := make(vlib.List, len(s.GVs))
		for i, e := range s.GVs {
			l[i] = vlib.L(vlib.Int(e.G), e.V.sx())
		}
		return vlib.L(k, l)
	case "pp1":
		l := make(vlib.List, len(s.PairRows))
		for i, r := range s.PairRows {
			rl := make(vlib.List, len(r.Ents))
			for j, e := range r.Ents {
				rl[j] = vlib.L(vlib.Int(e.G2), e.V1.sx(), vopt(e.V2))
			}
			l[i] = vlib.L(vlib.Int(r.G), rl)
		}
		return vlib.L(k, l)
	case "pp2":
		l := make(vlib.List, len(s.PairMat))
		for i, r := range s.PairMat {
			rl := make(vlib.List, len(r))
			for j, e := range r {
				rl[j] = vlib.L(e.V1.sx(), vopt(e.V2))
			}
			l[i] = rl
		}
		return vlib.L(k, ints(s.Cov), pairs(s.CD), pairs(s.CD2), l)
	case "r8":
		return vlib.L(k, pairs(s.Map), intLists(s.Covs), intLists(s.Covs3))
	case "mb", "mm":
		ml := make(vlib.List, len(s.Marks))
		for i, m := range s.Marks {
			ml[i] = vlib.L(vlib.Int(m.G), vlib.Int(m.Cls), vlib.Int(m.X), vlib.Int(m.Y))
		}
		bl := make(vlib.List, len(s.Bases))
		for i, b := range s.Bases {
			al := make(vlib.List, len(b.Anchors))
			for j, a := range b.Anchors {
				if a == nil {
					al[j] = vlib.Atom("none")
				} else {
					al[j] = vlib.L(vlib.Int(a[0]), vlib.Int(a[1]))
				}
			}
			bl[i] = vlib.L(vlib.Int(b.G), al)
		}
		return vlib.L(k, ml, bl)
	}
	return vlib.L(vlib.Atom("unsup"))
}

func (g *Gdef) sx() vlib.Sx {
	if g == nil {
		return vlib.Atom("nogdef")
	}
	return vlib.L(vlib.Atom("gdef"), pairs(g.Class), pairs(g.Attach), intLists(g.Sets))
}

func lookupsSx(ll []Lookup) vlib.Sx {
	l := make(vlib.List, len(ll))
	for i := range ll {
		sl := make(vlib.List, len(ll[i].Subs))
		for j := range ll[i].Subs {
			sl[j] = ll[i].Subs[j].sx()
		}
		l[i] = vlib.L(vlib.Int(ll[i].Flags), vlib.Int(ll[i].MFS), sl)
	}
	return l
}

func seqSx(seq []Glyph) vlib.Sx {
	l := make(vlib.List, len(seq))
	for i, g := range seq {
		l[i] = vlib.L(vlib.Int(g.GID), ints(g.Text), vlib.Int(g.X), vlib.Int(g.Y), vlib.Int(g.Adv))
	}
	return l
}

// Line renders the case line given to the model.
func (c *Case) Line() string {
	sl := make(vlib.List, len(c.Seqs))
	for i, s := range c.Seqs {
		sl[i] = seqSx(s)
	}
	return vlib.Line(c.Gdef.sx(), lookupsSx(c.LL), ints(c.Order), sl)
}

// ---- parsing (corpus and replay lines) ----

type perr struct{ msg string }

func bad(format string, a ...any) { panic(perr{fmt.Sprintf(format, a...)}) }

func pl(x vlib.Sx) []vlib.Sx {
	l, err := vlib.AsList(x)
	if err != nil {
		bad("list expected: %s", vlib.Str(x))
	}
	return l
}
func pi(x vlib.Sx) int {
	v, err := vlib.AsInt(x)
	if err != nil {
		bad("int expected: %s", vlib.Str(x))
	}
	return v
}
func pints(x vlib.Sx) []int {
	l := pl(x)
	out := make([]int, len(l))
	for i, y := range l {
		out[i] = pi(y)
	}
	return out
}
func pintLists(x vlib.Sx) [][]int {
	l := pl(x)
	out := make([][]int, len(l))
	for i, y := range l {
		out[i] = pints(y)
	}
	return out
}
func ppairs(x vlib.Sx) [][2]int {
	l := pl(x)
	out := make([][2]int, len(l))
	for i, y := range l {
		p := pl(y)
		if len(p) != 2 {
			bad("pair expected")
		}
		out[i] = [2]int{pi(p[0]), pi(p[1])}
	}
	return out
}
func pacts(x vlib.Sx) []Action {
	l := pl(x)
	out := make([]Action, len(l))
	for i, y := range l {
		p := pl(y)
		if len(p) != 2 {
			bad("action expected")
		}
		out[i] = Action{pi(p[0]), pi(p[1])}
	}
	return out
}
func pvrec(x vlib.Sx) VRec {
	p := pl(x)
	if len(p) != 4 {
		bad("value record expected")
	}
	b, _ := vlib.AsBool(p[3])
	return VRec{pi(p[0]), pi(p[1]), pi(p[2]), b}
}
func pvopt(x vlib.Sx) *VRec {
	if a, ok := x.(vlib.Atom); ok && a == "none" {
		return nil
	}
	v := pvrec(x)
	return &v
}
func pcrules(x vlib.Sx) []CRule {
	l := pl(x)
	out := make([]CRule, len(l))
	for i, y := range l {
		p := pl(y)
		if len(p) != 2 {
			bad("rule expected")
		}
		out[i] = CRule{pints(p[0]), pacts(p[1])}
	}
	return out
}
func pkrules(x vlib.Sx) []KRule {
	l := pl(x)
	out := make([]KRule, len(l))
	for i, y := range l {
		p := pl(y)
		if len(p) != 4 {
			bad("chained rule expected")
		}
		out[i] = KRule{pints(p[0]), pints(p[1]), pints(p[2]), pacts(p[3])}
	}
	return out
}

func psub(x vlib.Sx) Sub {
	p := pl(x)
	if len(p) == 0 {
		bad("empty subtable")
	}
	kind, err := vlib.AsAtom(p[0])
	if err != nil {
		bad("subtable kind expected")
	}
	need := func(n int) {
		if len(p) != n+1 {
			bad("subtable %s: want %d fields", kind, n)
		}
	}
	s := Sub{Kind: kind}
	switch kind {
	case "s1":
		need(2)
		s.Cov, s.Delta = pints(p[1]), pi(p[2])
	case "s2":
		need(1)
		s.Map = ppairs(p[1])
	case "mul", "alt":
		need(1)
		for _, e := range pl(p[1]) {
			q := pl(e)
			if len(q) != 2 {
				bad("bad entry")
			}
			s.KVs = append(s.KVs, KV{pi(q[0]), pints(q[1])})
		}
	case "lig":
		need(1)
		for _, e := range pl(p[1]) {
			q := pl(e)
			if len(q) != 2 {
				bad("bad ligature set")
			}
			ls := LigSet{G: pi(q[0])}
			for _, lg := range pl(q[1]) {
				r := pl(lg)
				if len(r) != 2 {
					bad("bad ligature")
				}
				ls.Ligs = append(ls.Ligs, Lig{pints(r[0]), pi(r[1])})
			}
			s.LigSets = append(s.LigSets, ls)
		}
	case "c1":
		need(1)
		for _, e := range pl(p[1]) {
			q := pl(e)
			if len(q) != 2 {
				bad("bad rule set")
			}
			s.CSets = append(s.CSets, CSet{pi(q[0]), pcrules(q[1])})
		}
	case "c2":
		need(3)
		s.Cov, s.CD = pints(p[1]), ppairs(p[2])
		for _, e := range pl(p[3]) {
			s.CRules = append(s.CRules, pcrules(e))
		}
	case "c3":
		need(2)
		s.Covs, s.Acts = pintLists(p[1]), pacts(p[2])
	case "k1":
		need(1)
		for _, e := range pl(p[1]) {
			q := pl(e)
			if len(q) != 2 {
				bad("bad rule set")
			}
			s.KSets = append(s.KSets, KSet{pi(q[0]), pkrules(q[1])})
		}
	case "k2":
		need(5)
		s.Cov, s.CD, s.CD2, s.CD3 = pints(p[1]), ppairs(p[2]), ppairs(p[3]), ppairs(p[4])
		for _, e := range pl(p[5]) {
			s.KRules = append(s.KRules, pkrules(e))
		}
	case "k3":
		need(4)
		s.Covs, s.Covs2, s.Covs3, s.Acts = pintLists(p[1]), pintLists(p[2]), pintLists(p[3]), pacts(p[4])
	case "p1":
		need(2)
		s.Cov, s.V = pints(p[1]), pvrec(p[2])
	case "p2":
		need(1)
		for _, e := range pl(p[1]) {
			q := pl(e)
			if len(q) != 2 {
				bad("bad entry")
			}
			s.GVs = append(s.GVs, GV{pi(q[0]), pvrec(q[1])})
		}
	case "pp1":
		need(1)
		for _, e := range pl(p[1]) {
			q := pl(e)
			if len(q) != 2 {
				bad("bad pair row")
			}
			row := PairRow{G: pi(q[0])}
			for _, f := range pl(q[1]) {
				r := pl(f)
				if len(r) != 3 {
					bad("bad pair entry")
				}
				row.Ents = append(row.Ents, PairEnt{pi(r[0]), PairCell{pvrec(r[1]), pvopt(r[2])}})
			}
			s.PairRows = append(s.PairRows, row)
		}
	case "pp2":
		need(4)
		s.Cov, s.CD, s.CD2 = pints(p[1]), ppairs(p[2]), ppairs(p[3])
		for _, e := range pl(p[4]) {
			var row []PairCell
			for _, f := range pl(e) {
				r := pl(f)
				if len(r) != 2 {
					bad("bad class pair entry")
				}
				row = append(row, PairCell{pvrec(r[0]), pvopt(r[1])})
			}
			s.PairMat = append(s.PairMat, row)
		}
	case "r8":
		need(3)
		s.Map, s.Covs, s.Covs3 = ppairs(p[1]), pintLists(p[2]), pintLists(p[3])
	case "mb", "mm":
		need(2)
		for _, e := range pl(p[1]) {
			q := pints(e)
			if len(q) != 4 {
				bad("bad mark record")
			}
			s.Marks = append(s.Marks, MarkRec{q[0], q[1], q[2], q[3]})
		}
		for _, e := range pl(p[2]) {
			q := pl(e)
			if len(q) != 2 {
				bad("bad base record")
			}
			b := BaseRec{G: pi(q[0])}
			for _, a := range pl(q[1]) {
				if at, ok := a.(vlib.Atom); ok && at == "none" {
					b.Anchors = append(b.Anchors, nil)
					continue
				}
				xy := pints(a)
				if len(xy) != 2 {
					bad("bad anchor")
				}
				b.Anchors = append(b.Anchors, &[2]int{xy[0], xy[1]})
			}
			s.Bases = append(s.Bases, b)
		}
	case "unsup":
	default:
		bad("unknown subtable kind %s", kind)
	}
	return s
}

// ParseCase parses a case line.
func ParseCase(line string) (c *Case, err error) {
	defer func() {
		if e := recover(); e != nil {
			if pe, ok := e.(perr); ok {
				c, err = nil, fmt.Errorf("C06 case: %s", pe.msg)
				return
			}
			panic(e)
		}
	}()
	if len(line) > 0 && line[0] == '!' {
		line = line[1:]
	}
	items, err := vlib.Parse(line)
	if err != nil {
		return nil, err
	}
	if len(items) != 4 {
		return nil, fmt.Errorf("C06 case: want 4 items, got %d", len(items))
	}
	c = &Case{}
	if a, ok := items[0].(vlib.Atom); ok {
		if a != "nogdef" {
			bad("bad gdef")
		}
	} else {
		p := pl(items[0])
		if len(p) != 4 {
			bad("bad gdef")
		}
		c.Gdef = &Gdef{Class: ppairs(p[1]), Attach: ppairs(p[2]), Sets: pintLists(p[3])}
	}
	for _, x := range pl(items[1]) {
		p := pl(x)
		if len(p) != 3 {
			bad("bad lookup")
		}
		lk := Lookup{Flags: pi(p[0]), MFS: pi(p[1])}
		for _, y := range pl(p[2]) {
			lk.Subs = append(lk.Subs, psub(y))
		}
		c.LL = append(c.LL, lk)
	}
	c.Order = pints(items[2])
	for _, x := range pl(items[3]) {
		var seq []Glyph
		for _, y := range pl(x) {
			p := pl(y)
			if len(p) != 5 {
				bad("bad glyph")
			}
			seq = append(seq, Glyph{pi(p[0]), pints(p[1]), pi(p[2]), pi(p[3]), pi(p[4])})
		}
		c.Seqs = append(c.Seqs, seq)
	}
	return c, nil
}
