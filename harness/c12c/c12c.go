// Package c12c runs the real hmtx.Decode (and Info.Encode) and, through the
// case lines, the Coq function GENERATED from the hmtx half of hmtx.Decode on
// the same tables.  Oracle: a reader written from the OpenType description of
// the hmtx table, and the Encode/Decode round trip.
package c12c

import (
	"errors"
	"fmt"

	"seehuhn.de/go/postscript/funit"
	"seehuhn.de/go/sfnt/hmtx"
	"seehuhn.de/go/sfnt/verifharness/vlib"
)

func hhea(numHor int) []byte {
	b := make([]byte, 36)
	b[1] = 1 // version 0x00010000
	b[34], b[35] = byte(numHor>>8), byte(numHor)
	return b
}

// decode runs hmtx.Decode on a private copy of the table, placed inside a
// larger array with spare capacity (as a table cut out of a font file is)
func decode(numHor int, data []byte) (ws, ls []funit.Int16, res string) {
	arr := make([]byte, len(data)+8)
	copy(arr[4:], data)
	in := arr[4 : 4+len(data) : 4+len(data)+2]
	func() {
		defer func() {
			if e := recover(); e != nil {
				res = "panic"
			}
		}()
		info, err := hmtx.Decode(hhea(numHor), in)
		if err != nil {
			res = "err"
			return
		}
		ws, ls = info.Widths, info.LSB
		res = "ok"
	}()
	if string(in) != string(data) {
		res = "modified-input"
	}
	return
}

func obs(ws, ls []funit.Int16, res string) string {
	if res != "ok" {
		return res
	}
	return vlib.Str(vlib.L(vlib.Atom("ok"), vlib.Ints(ws), vlib.Ints(ls)))
}

// spec: numHor (advanceWidth, lsb) records, then one lsb per remaining glyph,
// which has the advance width of the last record
func spec(numHor int, data []byte) (ws, ls []funit.Int16, ok bool) {
	if len(data) < 4*numHor || (len(data)-4*numHor)%2 != 0 {
		return nil, nil, false
	}
	i16 := func(p int) funit.Int16 { return funit.Int16(uint16(data[p])<<8 | uint16(data[p+1])) }
	var last funit.Int16
	for i := 0; i < numHor; i++ {
		last = i16(4 * i)
		ws = append(ws, last)
		ls = append(ls, i16(4*i+2))
	}
	for p := 4 * numHor; p < len(data); p += 2 {
		ws = append(ws, last)
		ls = append(ls, i16(p))
	}
	return ws, ls, true
}

func eq(a, b []funit.Int16) bool {
	if len(a) != len(b) {
		return false
	}
	for i := range a {
		if a[i] != b[i] {
			return false
		}
	}
	return true
}

func oracle(numHor int, data []byte, ws, ls []funit.Int16, res string) (string, string) {
	sw, sl, ok := spec(numHor, data)
	switch {
	case res == "panic" || res == "modified-input":
		return "Decode: " + res, "c12c-hmtx-decode-" + res
	case ok && res != "ok":
		return "a well-formed hmtx table is refused", "c12c-hmtx-refused"
	case !ok && res == "ok":
		return "a truncated / odd-length hmtx table is accepted", "c12c-hmtx-accepted"
	case ok && (!eq(ws, sw) || !eq(ls, sl)):
		return "Decode differs from the reader written from the format description", "c12c-hmtx-values"
	}
	return "", ""
}

func line(numHor int, data []byte) string {
	return vlib.Line(vlib.Atom("hread"), vlib.Int(numHor), vlib.Hex(data))
}

func one(run *vlib.Run, numHor int, data []byte, modelToo bool, labels ...string) {
	ws, ls, res := decode(numHor, data)
	cl := line(numHor, data)
	if !modelToo {
		cl = "!" + cl
	}
	labels = append(labels, "res:"+res)
	idx := run.Add(cl, obs(ws, ls, res), len(data) > 0 && numHor > 0, labels...)
	if d, sig := oracle(numHor, data, ws, ls, res); sig != "" {
		run.Fail(idx, cl, d, sig)
	}
}

// RunCase re-executes one case line.
func RunCase(l string) (impl string, fail string, sig string, err error) {
	if len(l) > 0 && l[0] == '!' {
		l = l[1:]
	}
	items, err := vlib.Parse(l)
	if err != nil {
		return "", "", "", err
	}
	if len(items) != 3 {
		return "", "", "", errors.New("C12C case: want 3 items")
	}
	n, err := vlib.AsInt(items[1])
	if err != nil {
		return "", "", "", err
	}
	data, err := vlib.AsBytes(items[2])
	if err != nil {
		return "", "", "", err
	}
	if data == nil {
		data = []byte{}
	}
	ws, ls, res := decode(n, data)
	fail, sig = oracle(n, data, ws, ls, res)
	return obs(ws, ls, res), fail, sig, nil
}

func table(r *vlib.Rand, numHor, glyphs int) []byte {
	n := 4 * numHor
	if glyphs > numHor {
		n += 2 * (glyphs - numHor)
	}
	b := make([]byte, n)
	for i := range b {
		b[i] = byte(r.Uint64())
	}
	return b
}

// Gen writes the run for the given tier.
func Gen(run *vlib.Run, seed uint64, tier string) {
	run.Rule = "hmtx table + numberOfHMetrics through hmtx.Decode and through the Coq function generated from its loop; non-trivial = non-empty table with numberOfHMetrics > 0; tables above 3000 bytes (12000 in the thorough tier) are oracle-only: the generated loop appends at the end of a list, as the Go code does, which is quadratic in the extracted model"
	r := vlib.NewRand(seed)
	// (i) boundary values of numberOfHMetrics x glyph counts around them x cut / extended tables
	for _, nh := range []int{0, 1, 2, 16383, 16384, 16385, 32767, 32768, 65535} {
		for _, dg := range []int{-1, 0, 1, 2} {
			g := nh + dg
			if g < 0 {
				continue
			}
			base := table(r, nh, g)
			if dg < 0 {
				base = base[:4*g] // fewer records than numberOfHMetrics announces
			}
			for d := -5; d <= 3; d++ {
				var data []byte
				switch {
				case d <= 0 && len(base) >= -d:
					data = base[:len(base)+d]
				case d > 0:
					data = append(append([]byte{}, base...), r.Bytes(d)...)
				default:
					continue
				}
				// the generated loop appends at the end of a list (as the Go code
				// does): quadratic in the extracted model, so large tables are
				// checked against the format reader only
				model := len(data) <= vlib.Count(tier, 3000, 12000)
				one(run, nh, data, model, fmt.Sprintf("numHor:%d", nh), fmt.Sprintf("cut:%d", d), "stream:boundary")
			}
		}
	}
	// (ii) random tables, every small length
	for i := 0; i < vlib.Count(tier, 600, 6000); i++ {
		nh := r.Intn(12)
		if r.Chance(1, 6) {
			nh = r.Intn(400)
		}
		n := r.Intn(4*nh + 24)
		if r.Chance(1, 5) {
			n = r.Intn(1500)
		}
		one(run, nh, r.Bytes(n), true, "stream:random")
	}
	// (iii) Info values with every length of constant tail: Encode, then Decode
	for _, g := range []int{1, 2, 3, 7, 40} {
		for tail := 0; tail <= g; tail++ {
			ws := make([]funit.Int16, g)
			ls := make([]funit.Int16, g)
			for i := range ws {
				ws[i] = funit.Int16(100 + 3*i)
				if i >= g-tail {
					ws[i] = funit.Int16(100 + 3*(g-tail))
				}
				ls[i] = funit.Int16(r.Intn(65536) - 32768)
			}
			info := &hmtx.Info{Widths: ws, LSB: ls}
			hh, hm := info.Encode()
			nh := int(hh[34])<<8 | int(hh[35])
			dw, dl, res := decode(nh, hm)
			cl := line(nh, hm)
			idx := run.Add(cl, obs(dw, dl, res), true, "stream:encoded", fmt.Sprintf("tail:%d", tail))
			if res != "ok" || !eq(dw, ws) || !eq(dl, ls) {
				run.Fail(idx, cl, "Decode(Encode(info)) differs from info", "c12c-hmtx-roundtrip")
			}
			if tail > 1 && nh != g-tail+1 {
				run.Fail(idx, cl, fmt.Sprintf("numberOfHMetrics %d for a constant tail of %d among %d glyphs", nh, tail, g), "c12c-hmtx-numlong")
			}
		}
	}
}
