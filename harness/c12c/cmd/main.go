package main

import (
	"seehuhn.de/go/sfnt/verifharness/c12c"
	"seehuhn.de/go/sfnt/verifharness/vlib"
)

func main() { vlib.Main(c12c.Gen, c12c.RunCase) }
