package c01

// export.go: what the part C01B (harness/c01b, the file-level composition)
// reuses of this package: the font templates and field assignments, the
// projections onto the model's records, the per-table decoding of a file,
// the memory layouts of alias.go and the value-level oracle.  Thin wrappers
// only.

import (
	"time"

	"seehuhn.de/go/sfnt"
	"seehuhn.de/go/sfnt/cmap"
	"seehuhn.de/go/sfnt/kern"
	"seehuhn.de/go/sfnt/maxp"
	"seehuhn.de/go/sfnt/name"
	"seehuhn.de/go/sfnt/opentype/gdef"
	"seehuhn.de/go/sfnt/opentype/gtab"
	"seehuhn.de/go/sfnt/post"
	v "seehuhn.de/go/sfnt/verifharness/vlib"
)

type (
	Tpl       = tpl
	Fields    = fields
	CycleCase = cycleCase
	Source    = source
	Edit      = edit
	Failure   = failure
	Arena     = arena
)

func (t Tpl) Sx() v.Sx     { return t.sx() }
func (s *Fields) Sx() v.Sx { return s.sx() }
func (s Source) Sx() v.Sx  { return s.sx() }
func (e Edit) Sx() v.Sx    { return e.sx() }

func (f *Failure) Sig() string               { return f.sig }
func (f *Failure) Detail() string            { return f.detail }
func NewFailure(sig, detail string) *Failure { return &failure{sig, detail} }

func ParseTpl(x v.Sx) (Tpl, error)        { return parseTpl(x) }
func ParseFields(x v.Sx) (*Fields, error) { return parseFields(x) }
func ParseSource(x v.Sx) (Source, error)  { return parseSource(x) }
func ParseEdit(x v.Sx) (Edit, error)      { return parseEdit(x) }

// GenFields draws a field assignment (mode: plain | ascii | extreme | canonical).
func GenFields(r *v.Rand, mode string, cffFont bool) *Fields { return genFields(r, mode, cffFont) }

// Build constructs the font value of a case.
func (c *CycleCase) Build() (*sfnt.Font, error) { return c.build() }

func (s Source) Bytes() ([]byte, error) { return s.bytes() }

func ApplyEdits(data []byte, edits []Edit) ([]byte, error) { return applyEdits(data, edits) }
func FileSources() []Source                                { return fileSources() }
func AltNameTable(r *v.Rand) []byte                        { return altNameTable(r) }
func AltOS2(r *v.Rand) []byte                              { return altOS2(r, nil) }
func AltPost(r *v.Rand) []byte                             { return altPost(r) }
func GoFontNames() []string                                { return goFontNames }

// FontSx projects a font value onto the model's record (error: outside the
// model's grid).
func FontSx(f *sfnt.Font) (v.Sx, error) { return fontSx(f) }

// WriteContext: what Write reads besides the model's font record.
func WriteContext(f *sfnt.Font) v.Sx { return writeContext(f) }

// FileTables: the tables of a font file decoded with the repository's
// per-table decoders.
type FileTables = fileTables

func DecodeTables(data []byte) (*FileTables, error) { return decodeTables(data) }

// TablesSx: obs=false is the model's input form, obs=true the form in which a
// written file is observed.
func (ft *FileTables) TablesSx(obs bool, ctime, mtime *time.Time) (v.Sx, error) {
	return ft.tablesSx(obs, ctime, mtime)
}
func (ft *FileTables) MaxpTTF() []uint16 {
	if ft.maxp == nil || ft.maxp.TTF == nil {
		return nil
	}
	t := ft.maxp.TTF
	return []uint16{t.MaxPoints, t.MaxContours, t.MaxCompositePoints, t.MaxCompositeContours, t.MaxZones,
		t.MaxTwilightPoints, t.MaxStorage, t.MaxFunctionDefs, t.MaxInstructionDefs, t.MaxStackElements,
		t.MaxSizeOfInstructions, t.MaxComponentElements, t.MaxComponentDepth}
}
func (ft *FileTables) LocaFormat() (int16, bool) {
	if ft.head == nil {
		return 0, false
	}
	return ft.head.LocaFormat, true
}

func WriteFont(f *sfnt.Font) ([]byte, error)   { return writeFont(f) }
func ReadFont(data []byte) (*sfnt.Font, error) { return readFont(data) }
func IsPanic(err error) bool                   { return isPanic(err) }

// OracleValue / OracleBytes: the value-level clauses of the property
// (oracle.go), including "Write does not touch its argument".
func OracleValue(f *sfnt.Font, callerMemory ...[]byte) (w0 []byte, f1 *sfnt.Font, fails []*Failure) {
	res, fails := oracleValue(f, callerMemory...)
	return res.W0, res.F1, fails
}
func OracleBytes(b []byte) (f0 *sfnt.Font, w0 []byte, fails []*Failure) {
	f0, res, fails := oracleBytes(b)
	return f0, res.W0, fails
}

// JoinFails: one detail string and the signature of a case (the signature of
// a recorded open finding when every failure of the case belongs to it).
func JoinFails(fails []*Failure) (detail, sig string) { return joinFails(fails) }
func KnownSignature(sig string) bool                  { return knownSignature(&failure{sig: sig}) != "" }

// memory layouts (alias.go)
func DeepCopyFont(f *sfnt.Font) *sfnt.Font    { return deepCopyFont(f) }
func Rehome(f *sfnt.Font, seed uint64) *Arena { return rehome(f, seed) }
func (a *Arena) Memory() []byte               { return a.buf }
func (a *Arena) OddLengths() int              { return a.odd }

// ---- identities and decoded values, for the part C01C ----

func GtabID(info *gtab.Info) (v.Sx, error)                { return gtabID(info) }
func GdefID(t *gdef.Table) (v.Sx, error)                  { return gdefID(t) }
func NamesID(names []string) v.Sx                         { return namesID(names) }
func MaxpID(m *maxp.TTFInfo) v.Sx                         { return maxpID(m) }
func CmapSx(t cmap.Table) (v.Sx, error)                   { return cmapSx(t) }
func OutlSx(o sfnt.Outlines, fileView bool) (v.Sx, error) { return outlSx(o, fileView) }
func KernGposID(k kern.Info) (v.Sx, error)                { return gtabID(kernGpos(k)) }

func (ft *FileTables) Outlines() sfnt.Outlines  { return ft.outlines }
func (ft *FileTables) Cmap() (cmap.Table, bool) { return ft.cmap, ft.hasCmap }
func (ft *FileTables) Names() *name.Info        { return ft.names }
func (ft *FileTables) Post() *post.Info         { return ft.post }
func (ft *FileTables) Gdef() *gdef.Table        { return ft.gdef }
func (ft *FileTables) Gsub() *gtab.Info         { return ft.gsub }
func (ft *FileTables) Gpos() *gtab.Info         { return ft.gpos }
func (ft *FileTables) Kern() kern.Info          { return ft.kern }
func (ft *FileTables) Maxp() *maxp.Info         { return ft.maxp }
func (ft *FileTables) IsCFF() bool              { return ft.cff }
