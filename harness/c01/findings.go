package c01

import (
	"strings"

	"seehuhn.de/go/sfnt"
)

// findings.go: the recorded genuine defects that are still open
// (findings/C01.json, status "open").  An oracle failure carries one of these
// signatures only when it is exactly the recorded input class; every other
// failure keeps its own signature and is reported as a violation.

const (
	// A font file whose OS/2 weight class rounds to 700 ("Bold") while neither
	// the OS/2 bold bit nor the sub-family name says bold is read with
	// IsBold=false; Write then spells the weight class into the sub-family
	// name ("... Bold") and the next Read derives IsBold=true from that name.
	sigWeightBold = "weight-class-bold-without-bold-flag:IsBold-flips-on-second-read"

	// A timestamp of exactly 1904-01-01T00:00:00Z is encoded as 0 in the head
	// table, which this library reads as "no timestamp".
	sigEpoch1904 = "timestamp-1904-epoch-reads-back-unset"

	epoch1904 = -2082844800
)

// weightBoldFinding recognises the recorded input class from the first-read
// font f0 and the re-read font f1: only IsBold (and IsRegular, which Read
// clears for bold fonts) differ, f0 is not bold, and Write's sub-family name
// for f0 spells "Bold" because of the weight class alone.
func weightBoldFinding(f0, f1 *sfnt.Font, fields []string) bool {
	for _, n := range fields {
		if n != "IsBold" && n != "IsRegular" {
			return false
		}
	}
	if f0.IsBold || !f1.IsBold {
		return false
	}
	w := f0.Weight
	return w != 0 && w != 400 && w.Rounded() == 700 && !strings.Contains(f0.FamilyName, "Bold")
}

// knownSignature maps an oracle failure to the signature of the recorded
// finding it is an instance of, or "" when it is not a recorded finding.
func knownSignature(f *failure) string {
	switch f.sig {
	case sigWeightBold, sigEpoch1904:
		return f.sig
	}
	return ""
}
