package c01

import (
	"bytes"
	"math"
	"strings"
	"sync"

	"seehuhn.de/go/sfnt"
	"seehuhn.de/go/sfnt/glyf"
	"seehuhn.de/go/sfnt/post"
)

// findings.go: the recorded genuine defects that are still open
// (findings/C01.json, status "open").  An oracle failure carries one of these
// signatures only when it is exactly the recorded input class; every other
// failure keeps its own signature and is reported as a violation.

const (
	// A font file whose OS/2 weight class rounds to 700 ("Bold") while neither
	// the OS/2 bold bit nor the sub-family name says bold is read with
	// IsBold=false; Write then spells the weight class into the sub-family
	// name ("... Bold") and the next Read derives IsBold=true from that name.
	sigWeightBold = "weight-class-bold-without-bold-flag:IsBold-flips-on-second-read"

	// A timestamp of exactly 1904-01-01T00:00:00Z is encoded as 0 in the head
	// table, which this library reads as "no timestamp".
	sigEpoch1904 = "timestamp-1904-epoch-reads-back-unset"

	epoch1904 = -2082844800

	// glyf.Outlines.Names with more than 65278 names outside the standard
	// Macintosh set: post.Encode computes the format-2 name index 258+k in an
	// int and stores its low 16 bits, so the names from k = 65278 on come back
	// as standard Macintosh names.
	sigPostNames = "post-format2-more-than-65278-custom-names:name-index-wraps"

	// An OpenType/CFF file without a post table whose CFF top DICT carries a
	// fractional UnderlinePosition/UnderlineThickness: Read keeps the fraction,
	// Write rounds it into the post table it creates, the next Read takes the
	// post value.
	sigCFFUnderline = "cff-without-post-table:fractional-underline-rounds-on-second-read"

	// A glyph name longer than 255 bytes: post.Encode stores byte(len(name)) as
	// the length of the Pascal string and all the bytes of the name, so the
	// string data no longer parses; Write reports no error and sfnt.Read
	// rejects the file it wrote (when the name is the last one it comes back
	// cut to len mod 256 bytes instead).
	sigLongName    = "post-format2-glyph-name-longer-than-255-bytes:written-file-rejected-by-read"
	maxCustomNames = 65536 - 258
)

var (
	macOnce  sync.Once
	macNames map[string]bool
)

// standardMacNames: the 258 names of a format-1 post table, obtained by
// reading such a table.
func standardMacNames() map[string]bool {
	macOnce.Do(func() {
		macNames = map[string]bool{}
		b := make([]byte, 32)
		b[1] = 1 // version 1.0
		if info, err := post.Read(bytes.NewReader(b)); err == nil {
			for _, n := range info.Names {
				macNames[n] = true
			}
		}
	})
	return macNames
}

func customNameCount(names []string) int {
	std := standardMacNames()
	k := 0
	for _, n := range names {
		if !std[n] {
			k++
		}
	}
	return k
}

// recordedFindings explains the difference between the first-read font f0 and
// the re-read font f1 (fields = the top-level fields that differ) by recorded
// findings; nil when some differing field is not explained.
func recordedFindings(f0, f1 *sfnt.Font, fields []string) []string {
	var bold, under []string
	for _, n := range fields {
		switch n {
		case "IsBold", "IsRegular":
			bold = append(bold, n)
		case "UnderlinePosition", "UnderlineThickness":
			under = append(under, n)
		default:
			return nil
		}
	}
	var sigs []string
	if len(bold) > 0 {
		if !weightBoldFinding(f0, f1, bold) {
			return nil
		}
		sigs = append(sigs, sigWeightBold)
	}
	if len(under) > 0 {
		if !cffUnderlineFinding(f0, f1) {
			return nil
		}
		sigs = append(sigs, sigCFFUnderline)
	}
	return sigs
}

// cffUnderlineFinding: a CFF font whose underline metrics are fractional (they
// can only have come from the CFF table of a file without a post table) and
// whose re-read values are exactly the rounded ones.
func cffUnderlineFinding(f0, f1 *sfnt.Font) bool {
	if !f0.IsCFF() {
		return false
	}
	frac := false
	for _, p := range [][2]float64{{float64(f0.UnderlinePosition), float64(f1.UnderlinePosition)},
		{float64(f0.UnderlineThickness), float64(f1.UnderlineThickness)}} {
		if p[0] != math.Trunc(p[0]) {
			frac = true
		}
		if p[1] != math.Round(p[0]) {
			return false
		}
	}
	return frac
}

// weightBoldFinding recognises the recorded input class from the first-read
// font f0 and the re-read font f1: only IsBold (and IsRegular, which Read
// clears for bold fonts) differ, f0 is not bold, and Write's sub-family name
// for f0 spells "Bold" because of the weight class alone.
func weightBoldFinding(f0, f1 *sfnt.Font, fields []string) bool {
	for _, n := range fields {
		if n != "IsBold" && n != "IsRegular" {
			return false
		}
	}
	if f0.IsBold || !f1.IsBold {
		return false
	}
	w := f0.Weight
	return w != 0 && w != 400 && w.Rounded() == 700 && !strings.Contains(f0.FamilyName, "Bold")
}

// knownSignature maps an oracle failure to the signature of the recorded
// finding it is an instance of, or "" when it is not a recorded finding.
func knownSignature(f *failure) string {
	switch f.sig {
	case sigWeightBold, sigEpoch1904, sigPostNames, sigCFFUnderline, sigLongName:
		return f.sig
	}
	return ""
}

// longNameFinding: the recorded input class of sigLongName - TrueType outlines
// with a glyph name of more than 255 bytes, the file rejected in the post table.
func longNameFinding(f *sfnt.Font, err error) bool {
	o, ok := f.Outlines.(*glyf.Outlines)
	if !ok || err == nil || !strings.Contains(err.Error(), "post") {
		return false
	}
	return hasLongName(o.Names)
}

// hasLongName: a glyph name a format-2 post table cannot hold.
func hasLongName(names []string) bool {
	for _, n := range names {
		if len(n) > 255 {
			return true
		}
	}
	return false
}
