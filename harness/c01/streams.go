package c01

// streams.go: the generators.  Everything derives from the vlib.Rand given.

import (
	"bytes"
	"math"
	"os"
	"path/filepath"
	"sort"

	"golang.org/x/text/language"

	"seehuhn.de/go/postscript/funit"
	"seehuhn.de/go/sfnt/glyph"
	"seehuhn.de/go/sfnt/head"
	"seehuhn.de/go/sfnt/kern"
	"seehuhn.de/go/sfnt/header"
	"seehuhn.de/go/sfnt/name"
	"seehuhn.de/go/sfnt/os2"
	"seehuhn.de/go/sfnt/post"
	v "seehuhn.de/go/sfnt/verifharness/vlib"
)

var (
	widthVals  = []int{0, 1, 2, 3, 4, 5, 6, 7, 8, 9, 10, 255, 65535}
	weightVals = []int{0, 1, 100, 149, 150, 200, 250, 300, 349, 350, 400, 449, 450, 500, 549, 550, 600, 649, 650, 700, 749, 750, 800, 849, 850, 900, 901, 1000, 1001, 65535}
	cprVals    = []uint64{0, 1, 1 << 31, 1 << 32, 1 << 63, math.MaxUint64, 0x8000000120000093}
	verVals    = []uint32{0, 1, 32, 33, 4096, 12288, 0x00010000, 0x00018000, 0x0001028F, 0x00010290, 0x00020000, 0x7FFFFFFF, 0x80000000, 0xFFFF0000, 0xFFFF7FFF, 0xFFFFFFBE}
	secVals    = []int64{-2082844800, -2082844801, -2082844799, -1, 0, 1, 86399, 86400, 1700000000, 1735689599, 1735689600, 1 << 32, 1 << 33, -3000000000, 253402300799}
	zoneVals   = []int{0, 3600, -3600, 14 * 3600, -12 * 3600, 19800}
	i16Vals    = []int{-32768, -32767, -1000, -200, -1, 0, 1, 200, 700, 800, 1000, 32766, 32767}
	upmVals    = []int{16, 1000, 1024, 1234, 2048, 4096, 16384, 1, 65535}
	permVals   = []int{0, 1, 2, 3, 0, 1, 2, 3, 4, -1, 8}
	angleVals  = []float64{0, 0, 0, -12.5, 12, 90, -90, 1.0 / 65536, -1.0 / 65536, 32767, -32768, 32767.99998474121, 0.5, 11.25}
	undVals    = []float64{0, -100, 50, 1, -1, 32767, -32768, -75, 20}
	strVals    = []string{
		"", "A", "Test", "Debug Sans", "Foo Bold", "Foo Semi Bold", "My Extra Bold Family", "Italic Things", "Light",
		"Thin Black Medium", "  lead and trail  ", "é", "Ünïcödé Nämé", "© 2024 Someone", "(c) ©©", "中文字体", "😀 emoji 𝔘",
		"a\x00b", "￿", "�", "line1\nline2", "Semi", "Extra", "Bold", "Oblique", "Regular", "x;y; z", "Version 9.9",
		"%[]{}<>/() name", "Name-With-Hyphen", "tab\there", "ĀāĂă", " ", "Ω≈ç√∫˜µ≤≥÷",
	}
)

func longString(r *v.Rand, n int) string {
	b := make([]rune, n)
	alphabet := []rune("abc XYZ 0123 éß中😀")
	for i := range b {
		b[i] = alphabet[r.Intn(len(alphabet))]
	}
	return string(b)
}

var asciiVals = []string{"", "", "A", "Test", "Debug Sans", "Foo Bold", "Foo Semi Bold", "My Extra Bold Family", "Italic Things",
	"Light", "(c) 2024 Someone", "Version 9.9", "x;y; z", "%[]{}<>/() name", "Name-With-Hyphen", " ", "  two  spaces  ", "Test", "~tilde~"}

func pickStr(r *v.Rand) string {
	switch r.Intn(12) {
	case 0:
		return longString(r, r.Range(60, 400))
	case 1:
		return ""
	}
	return v.Pick(r, strVals)
}

func pickTime(r *v.Rand, extreme bool) *tspec {
	if !extreme {
		return &tspec{int64(r.Range(0, 1800000000)), 0, 0}
	}
	t := &tspec{Sec: v.Pick(r, secVals)}
	if r.Chance(1, 3) {
		t.Sec = int64(r.Range(-2000000000, 2000000000))
	}
	if r.Chance(1, 3) {
		t.Nsec = v.Pick(r, []int{1, 500000000, 999999999})
	}
	t.Zone = v.Pick(r, zoneVals)
	return t
}

// genFields draws a complete field assignment.  mode: plain | extreme | canonical
func genFields(r *v.Rand, mode string, cffFont bool) *fields {
	s := &fields{FM: "upm"}
	ext := mode == "extreme"
	s.Family = pickStr(r)
	if !ext && s.Family == "" {
		s.Family = "Test"
	}
	if ext {
		s.Width, s.Weight = v.Pick(r, widthVals), v.Pick(r, weightVals)
	} else {
		s.Width, s.Weight = v.Pick(r, []int{0, 3, 5, 5, 5, 7}), v.Pick(r, []int{0, 300, 400, 400, 400, 600, 700, 800})
	}
	s.Regular, s.Bold, s.Italic, s.Oblique = r.Chance(1, 3), r.Chance(1, 3), r.Chance(1, 3), r.Chance(1, 5)
	s.Serif, s.Script = r.Chance(1, 3), r.Chance(1, 4)
	s.CPR = v.Pick(r, cprVals)
	if r.Chance(1, 3) {
		s.CPR = r.Uint64()
	}
	s.Version = v.Pick(r, verVals)
	if r.Chance(1, 2) {
		s.Version = uint32(r.Uint64()) >> uint(r.Intn(20))
	}
	switch r.Intn(6) {
	case 0:
		s.CTime = pickTime(r, ext)
	case 1:
		s.MTime = pickTime(r, ext)
	default:
		s.CTime, s.MTime = pickTime(r, ext), pickTime(r, ext)
	}
	s.Descr, s.Sample = pickStr(r), pickStr(r)
	s.Copyright, s.Trademark, s.License, s.LicURL = pickStr(r), pickStr(r), pickStr(r), pickStr(r)
	if ext {
		s.Perm = v.Pick(r, permVals)
		s.UPM = v.Pick(r, upmVals)
		s.Asc, s.Desc, s.Gap, s.Cap, s.XH = v.Pick(r, i16Vals), v.Pick(r, i16Vals), v.Pick(r, i16Vals), v.Pick(r, i16Vals), v.Pick(r, i16Vals)
		s.Angle = v.Pick(r, angleVals)
		s.UPos, s.UThick = v.Pick(r, undVals), v.Pick(r, undVals)
		if r.Chance(1, 6) {
			s.UPos = v.Pick(r, []float64{0.5, -0.5, 1.5, 2.5, -2.5, 0.25, 99.75})
		}
		if r.Chance(1, 10) {
			s.Angle = v.Pick(r, []float64{0.1, -9.4, 1e-7, 33.333})
		}
		s.FM = v.Pick(r, []string{"upm", "upm", "id", "odd"})
	} else {
		s.Perm = r.Intn(4)
		s.UPM = v.Pick(r, []int{1000, 1000, 2048})
		s.Asc, s.Desc, s.Gap = r.Range(500, 1100), -r.Range(100, 400), r.Range(0, 200)
		s.Cap, s.XH = v.Pick(r, []int{0, 700, 712}), v.Pick(r, []int{0, 480, 500})
		s.Angle = v.Pick(r, []float64{0, 0, 0, -12, -9.5})
		s.UPos, s.UThick = -float64(r.Range(50, 150)), float64(r.Range(20, 80))
	}
	if mode == "ascii" {
		// printable ASCII only (the name table's bytes are then compared with the model's)
		s.Family = v.Pick(r, asciiVals[2:])
		s.Descr, s.Sample, s.Copyright = v.Pick(r, asciiVals), v.Pick(r, asciiVals), v.Pick(r, asciiVals)
		s.Trademark, s.License, s.LicURL = v.Pick(r, asciiVals), v.Pick(r, asciiVals), v.Pick(r, asciiVals)
	}
	if mode == "canonical" {
		// make the assignment consistent (see canonical.go)
		if s.Angle != 0 || s.Oblique {
			s.Italic = true
		}
		if s.Regular {
			s.Bold, s.Italic, s.Oblique, s.Angle = false, false, false, 0
		}
		if w := os2.Weight(s.Weight); s.Weight != 0 && s.Weight != 400 && w.Rounded() == 700 {
			s.Bold, s.Regular = true, false
		}
		if s.Serif {
			s.Script = false
		}
		s.Version = uint32(head.Version(s.Version).Round())
		if s.Cap <= 0 {
			s.Cap = 700
		}
		if s.XH <= 0 {
			s.XH = 500
		}
		if cffFont {
			s.UPM, s.FM = 1000, "id"
		}
	}
	return s
}

// glyfSizes: encoded glyf table sizes around the two limits of the short
// loca format (offset/2 in 16 bits): 65535 and 131070 bytes.
func glyfSizes(tier string) []int {
	sizes := []int{65534, 65536, 65538, 131070, 131072, 131074, 65532, 131068, 131076, 4096, 262144}
	if tier == "thorough" {
		for d := -40; d <= 40; d += 2 {
			sizes = append(sizes, 65536+d, 131072+d)
		}
		sizes = append(sizes, 196608, 262142, 262146, 524288, 1<<20)
	}
	return sizes
}

func genSizedGlyf(run *v.Run, r *v.Rand, tier string) {
	reps := v.Count(tier, 1, 3)
	for _, size := range glyfSizes(tier) {
		for k := 0; k < reps; k++ {
			t := tpl{Name: "glyfsize", Seed: uint64(size), CMap: v.Pick(r, []string{"f4", "f12", "nil"}), Layout: v.Pick(r, []string{"-", "-", "s"})}
			mode := v.Pick(r, []string{"plain", "canonical", "ascii"})
			c := &cycleCase{t, genFields(r, mode, false)}
			line, impl, fails, labels, err := runCycle(c)
			if err != nil {
				run.Hist["a:template-error"]++
				continue
			}
			labels = append(labels, "a:mode="+mode, "a:glyf-table-size-boundary")
			record(run, line, impl, fails, true, labels)
		}
	}
}

// DegenerateLayouts: GSUB / GPOS / GDEF values that are present and (partly)
// empty (see installLayout), alone and combined with each other and with
// ordinary tables.
var DegenerateLayouts = []string{"S", "N", "Z", "T", "F", "L", "P", "M", "Q", "R", "K", "D", "E",
	"SPD", "NME", "ZQ", "TQD", "LR", "FK", "dS", "dP", "sP", "sQ", "pS", "pN", "pT", "sdM", "TE"}

func genCycles(run *v.Run, r *v.Rand, tier string) {
	genSizedGlyf(run, r.Fork("glyfsize"), tier)
	n := v.Count(tier, 700, 14000)
	names := []string{"cffmini", "cffmini", "cffmini", "cffcid", "cffcid", "glyfmini", "glyfmini", "glyfmini", "debug", "go"}
	cmaps := []string{"own", "nil", "empty", "f4", "f4", "f4lig", "f4lig", "f12", "multi", "multi"}
	layouts := []string{"-", "-", "-", "s", "d", "p", "sdp", "dp"}
	for i := 0; i < n; i++ {
		t := tpl{Name: v.Pick(r, names), Seed: r.Uint64() % 100000, CMap: v.Pick(r, cmaps), Layout: v.Pick(r, layouts)}
		if i%3 == 1 {
			// layout tables that are present and (partly) empty; half of them on
			// fonts whose cmap holds the f-ligatures and their components, so
			// that Read would synthesise a GSUB table if the table were missing
			t.Layout = v.Pick(r, DegenerateLayouts)
			if r.Chance(1, 2) {
				t.CMap = "f4lig"
			}
		}
		if t.Name == "go" {
			if tier != "thorough" && i%3 != 0 {
				t.Name = "glyfmini"
			} else {
				t.Name = "go:" + v.Pick(r, goFontNames)
				t.CMap = "own"
			}
		}
		if t.Name == "debug" || t.Name == "glyfmini" {
			if r.Chance(1, 2) {
				t.CMap = "own"
			}
		} else if t.CMap == "own" {
			t.CMap = "f4"
		}
		if tier == "thorough" && i%400 == 7 {
			// the large-size regime: glyph counts up to 65535
			t.Name = v.Pick(r, []string{"glyfbig", "glyfbig", "cffbig"})
			t.CMap = v.Pick(r, []string{"f12", "f4", "nil"})
		} else if tier != "thorough" && i == 5 {
			t.Name, t.CMap = "glyfbig", "f12"
		}
		mode := v.Pick(r, []string{"plain", "ascii", "extreme", "extreme", "canonical", "canonical"})
		cffFont := t.Name == "debug" || t.Name == "cffmini" || t.Name == "cffcid" || t.Name == "cffbig"
		c := &cycleCase{t, genFields(r, mode, cffFont)}
		line, impl, fails, labels, err := runCycle(c)
		if err != nil {
			run.Hist["a:template-error"]++
			continue
		}
		labels = append(labels, "a:mode="+mode)
		record(run, line, impl, fails, true, labels)
	}
}

// ---- clause (b): byte strings ----

// HeaderOnlyLayout: GSUB / GPOS tables without any content: the 10-byte header
// with three zero offsets, and headers whose offsets lead to empty lists.
var HeaderOnlyLayout = [][]byte{
	{0, 1, 0, 0, 0, 0, 0, 0, 0, 0},
	{0, 1, 0, 0, 0, 10, 0, 0, 0, 0, 0, 0},
	{0, 1, 0, 0, 0, 10, 0, 10, 0, 10, 0, 0},
	{0, 1, 0, 0, 0, 10, 0, 12, 0, 14, 0, 0, 0, 0, 0, 0},
}

func fileSources() []source {
	var out []source
	for _, n := range goFontNames {
		out = append(out, source{Kind: "go", Name: n})
	}
	if xImageTestdata != "" {
		for _, n := range []string{"CFFTest.otf", "glyfTest.ttf", "cmapTest.ttf"} {
			if _, err := os.Stat(filepath.Join(xImageTestdata, n)); err == nil {
				out = append(out, source{Kind: "file", Name: n})
			}
		}
	}
	m, _ := filepath.Glob(filepath.Join(repoRoot, "testdata", "fuzz", "FuzzFont", "*"))
	sort.Strings(m)
	for _, p := range m {
		out = append(out, source{Kind: "fuzz", Name: filepath.Base(p)})
	}
	return out
}

// altNameTable builds a name table the writer would not produce: other
// languages, odd version strings, missing platforms.
func altNameTable(r *v.Rand) []byte {
	mk := func() *name.Table {
		t := &name.Table{
			Family:    pickStr(r),
			Subfamily: v.Pick(r, []string{"Regular", "Bold", "Italic", "Bold Italic", "Semi Bold", "Extra Bold Italic", "Semi Bold Bold", "Oblique", "", "bold", "Demi"}),
			Version: v.Pick(r, []string{"Version 1.000", "Version 2.008; ttfautohint (v1.6)", "1.5", "3", "12", "Version 7", "Version 12.", "Version 1.", "0.25x", "v1.0", "Version  1.0",
				"Version 65535.999", "Version 70000.5", "Version 1.00001", "Version 2.0078125", "Version 3.14159", "Version 001.0625", "1.00000000000", "Version 4294967296", "garbage", "", "Version", "Version 1.2.3"}),
			Copyright:   pickStr(r),
			Trademark:   pickStr(r),
			Description: pickStr(r),
			License:     pickStr(r),
			LicenseURL:  pickStr(r),
			SampleText:  pickStr(r),
		}
		return t
	}
	info := &name.Info{Mac: name.Tables{}, Windows: name.Tables{}}
	winLangs := []string{"en-US", "en-GB", "de-DE", "fr-FR", "ja-JP"}
	macLangs := []string{"en", "de", "fr", "ja"}
	for i := r.Intn(3); i > 0; i-- {
		info.Windows[v.Pick(r, winLangs)] = mk()
	}
	for i := r.Intn(3); i > 0; i-- {
		info.Mac[v.Pick(r, macLangs)] = mk()
	}
	_ = language.English
	return info.Encode(1)
}

// altOS2 re-encodes the OS/2 table at a lower version by cutting it and
// patching the version field, or with other selection bits.
func altOS2(r *v.Rand, orig []byte) []byte {
	info := &os2.Info{
		WeightClass: os2.Weight(v.Pick(r, weightVals)), WidthClass: os2.Width(v.Pick(r, widthVals)),
		IsBold: r.Bool(), IsItalic: r.Bool(), IsRegular: r.Bool(), IsOblique: r.Bool(),
		FamilyClass: int16(v.Pick(r, []int{0, 256, 512, 768, 1024, 1280, 1536, 1792, 2048, 2304, 2560, 2816, 3072, -256, 300, 2570})),
		PermUse:     os2.Permissions(r.Intn(4)),
		CapHeight:   700, XHeight: 400, Ascent: 800, Descent: -200, LineGap: 90,
		CodePageRange: os2.CodePageRange(r.Uint64()),
	}
	b := info.Encode()
	switch r.Intn(5) {
	case 0: // version 0, Apple length
		b = b[:68]
		b[0], b[1] = 0, 0
	case 1: // version 0, Microsoft length
		b = b[:78]
		b[0], b[1] = 0, 0
	case 2: // version 1
		b = b[:86]
		b[0], b[1] = 0, 1
	case 3: // version 3
		b[0], b[1] = 0, 3
	}
	if r.Chance(1, 3) && len(b) > 63 {
		// arbitrary fsSelection and fsType
		b[62], b[63] = byte(r.Uint64()), byte(r.Uint64())
		b[8], b[9] = byte(r.Uint64())&3, byte(r.Uint64())
	}
	return b
}

func altPost(r *v.Rand) []byte {
	p := &post.Info{
		ItalicAngle:        v.Pick(r, angleVals),
		UnderlinePosition:  -123,
		UnderlineThickness: 45,
		IsFixedPitch:       r.Bool(),
	}
	return p.Encode()
}

func tagsOf(data []byte) []string {
	dir, err := header.Read(bytes.NewReader(data))
	if err != nil {
		return nil
	}
	var tags []string
	for t := range dir.Toc {
		tags = append(tags, t)
	}
	sort.Strings(tags)
	return tags
}

func genMerges(run *v.Run, r *v.Rand, tier string) {
	srcs := fileSources()
	emit := func(c *mergeCase) {
		line, impl, fails, labels, err := runMerge(c)
		if err != nil {
			run.Hist["b:edit-not-applicable"]++
			return
		}
		nontrivial := false
		for _, l := range labels {
			if l == "b:accepted" {
				nontrivial = true
			}
		}
		record(run, line, impl, fails, nontrivial, labels)
	}
	// every file as it is
	for _, s := range srcs {
		emit(&mergeCase{Src: s})
	}
	// written fonts with tables removed / replaced
	optional := []string{"OS/2", "name", "post", "hhea", "hmtx", "maxp", "cmap", "head", "GSUB", "GPOS", "GDEF"}
	nw := v.Count(tier, 330, 6000)
	for i := 0; i < nw; i++ {
		var src source
		if r.Chance(1, 5) {
			src = v.Pick(r, srcs)
		} else {
			t := tpl{Name: v.Pick(r, []string{"cffmini", "cffcid", "glyfmini", "glyfmini"}), Seed: r.Uint64() % 100000,
				CMap: v.Pick(r, []string{"f4", "f4lig", "f12", "nil"}), Layout: v.Pick(r, []string{"-", "-", "s", "dp"})}
			if t.Name == "glyfmini" && r.Chance(1, 2) {
				t.CMap = "own"
			}
			mode := v.Pick(r, []string{"plain", "extreme"})
			src = source{Kind: "w", C: &cycleCase{t, genFields(r, mode, t.Name != "glyfmini")}}
		}
		var edits []edit
		for k := r.Range(1, 3); k > 0; k-- {
			switch r.Intn(9) {
			case 7:
				// a layout table that is present and empty: header only (offsets
				// 0), or offsets to empty lists; GPOS also next to a kern table
				// (Read consults kern only without GPOS)
				tag := v.Pick(r, []string{"GSUB", "GSUB", "GPOS"})
				edits = append(edits, edit{Kind: "set", Tag: tag, Data: v.Pick(r, HeaderOnlyLayout)})
				if tag == "GPOS" && r.Chance(1, 2) {
					kt := kern.Info{{Left: 1, Right: 2}: funit.Int16(r.Range(-300, 300))}
					edits = append(edits, edit{Kind: "set", Tag: "kern", Data: kt.Encode()})
				}
			case 8:
				// GDEF without GSUB and GPOS
				edits = append(edits, edit{Kind: "set", Tag: "GDEF", Data: v.Pick(r, [][]byte{
					{0, 1, 0, 0, 0, 0, 0, 0, 0, 0, 0, 0},
					{0, 1, 0, 0, 0, 12, 0, 0, 0, 0, 0, 0, 0, 2, 0, 0},
					{0, 1, 0, 0, 0, 12, 0, 0, 0, 0, 0, 0, 0, 1, 0, 1, 0, 1, 0, 3}})},
					edit{Kind: "drop", Tag: "GSUB"}, edit{Kind: "drop", Tag: "GPOS"})
			case 0, 1:
				edits = append(edits, edit{Kind: "drop", Tag: v.Pick(r, optional)})
			case 2:
				edits = append(edits, edit{Kind: "set", Tag: "name", Data: altNameTable(r)})
			case 3:
				edits = append(edits, edit{Kind: "set", Tag: "OS/2", Data: altOS2(r, nil)})
			case 4:
				edits = append(edits, edit{Kind: "set", Tag: "post", Data: altPost(r)})
			case 6:
				kt := kern.Info{}
				for j := r.Range(1, 4); j > 0; j-- {
					kt[glyph.Pair{Left: glyph.ID(r.Range(0, 6)), Right: glyph.ID(r.Range(0, 6))}] = funit.Int16(r.Range(-300, 300))
				}
				edits = append(edits, edit{Kind: "set", Tag: "kern", Data: kt.Encode()})
				if r.Chance(3, 4) {
					edits = append(edits, edit{Kind: "drop", Tag: "GPOS"})
				}
			case 5:
				edits = append(edits, edit{Kind: "drop", Tag: v.Pick(r, []string{"OS/2", "name", "post"})},
					edit{Kind: "drop", Tag: v.Pick(r, []string{"OS/2", "name", "post", "head"})})
			}
		}
		emit(&mergeCase{Src: src, Edits: edits})
	}
	// byte mutations of files (mutated variants that still parse are the
	// interesting ones; the rejected ones are counted)
	nm := v.Count(tier, 260, 5000)
	for i := 0; i < nm; i++ {
		var src source
		if r.Chance(1, 2) {
			src = v.Pick(r, srcs)
			if tier != "thorough" && src.Kind == "go" && r.Chance(2, 3) {
				src = srcs[len(srcs)-1-r.Intn(3)%len(srcs)]
			}
		} else {
			t := tpl{Name: v.Pick(r, []string{"cffmini", "cffcid", "glyfmini"}), Seed: r.Uint64() % 100000, CMap: "f4lig", Layout: v.Pick(r, []string{"-", "sdp"})}
			src = source{Kind: "w", C: &cycleCase{t, genFields(r, "plain", t.Name != "glyfmini")}}
		}
		base, err := src.bytes()
		if err != nil || len(base) == 0 {
			continue
		}
		var edits []edit
		// aim at table data: pick a table, then an offset inside it
		dir, err := header.Read(bytes.NewReader(base))
		if err != nil {
			continue
		}
		tags := tagsOf(base)
		for k := r.Range(1, 3); k > 0 && len(tags) > 0; k-- {
			tag := v.Pick(r, tags)
			if r.Chance(2, 3) {
				tag = v.Pick(r, []string{"head", "hhea", "OS/2", "post", "name", "maxp", "hmtx"})
			}
			rec, ok := dir.Toc[tag]
			if !ok || rec.Length == 0 {
				continue
			}
			off := int(rec.Offset) + r.Intn(int(rec.Length))
			val := byte(r.Uint64())
			if r.Chance(1, 3) {
				val = v.Pick(r, []byte{0, 1, 0x7F, 0x80, 0xFF})
			}
			edits = append(edits, edit{Kind: "patch", Off: off, Val: val})
		}
		if r.Chance(1, 12) {
			edits = append(edits, edit{Kind: "trunc", Off: r.Intn(len(base))})
		}
		if len(edits) == 0 {
			continue
		}
		emit(&mergeCase{Src: src, Edits: edits})
	}
}
