package c01

import (
	"fmt"
	"testing"
	"time"

	v "seehuhn.de/go/sfnt/verifharness/vlib"
)

func TestBig(t *testing.T) {
	r := v.NewRand(5)
	for _, name := range []string{"glyfbig", "cffbig"} {
		for i := 0; i < 2; i++ {
			t0 := time.Now()
			c := &cycleCase{tpl{name, uint64(i), "f12", "-"}, genFields(r, "canonical", name == "cffbig")}
			line, impl, fails, _, err := runCycle(c)
			fmt.Println(name, i, time.Since(t0), len(line), len(impl), err, len(fails))
			for _, f := range fails {
				fmt.Println("   ", f.sig, f.detail[:min(len(f.detail), 300)])
			}
		}
	}
}
