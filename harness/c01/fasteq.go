package c01

// fasteq.go: a reflect-based structural equality with the same notion of
// equality as the go-cmp configuration in deepDiff (exact floats with NaN ==
// NaN, time instants, FDSelect pointwise, nil and empty distinct unless
// equateEmpty).  go-cmp is two orders of magnitude slower on glyph data; it
// is used to render the difference once this walker has found one, and both
// are run on a sample of equal values to cross-check the walker.

import (
	"math"
	"reflect"
	"time"

	"seehuhn.de/go/sfnt/cff"
	"seehuhn.de/go/sfnt/glyph"
)

type eqOpts struct {
	equateEmpty bool
	nGlyphs     int
}

var (
	timeType = reflect.TypeOf(time.Time{})
	fdType   = reflect.TypeOf(cff.FDSelectFn(nil))
)

func fastEqual(a, b any, o eqOpts) bool {
	return eqValue(reflect.ValueOf(a), reflect.ValueOf(b), o)
}

func eqValue(a, b reflect.Value, o eqOpts) bool {
	if !a.IsValid() || !b.IsValid() {
		return a.IsValid() == b.IsValid()
	}
	if a.Type() != b.Type() {
		return false
	}
	switch a.Type() {
	case timeType:
		if a.CanInterface() {
			return a.Interface().(time.Time).Equal(b.Interface().(time.Time))
		}
	case fdType:
		if a.IsNil() || b.IsNil() {
			return a.IsNil() == b.IsNil()
		}
		f1, f2 := a.Interface().(cff.FDSelectFn), b.Interface().(cff.FDSelectFn)
		for g := 0; g < o.nGlyphs; g++ {
			if f1(glyph.ID(g)) != f2(glyph.ID(g)) {
				return false
			}
		}
		return true
	}
	switch a.Kind() {
	case reflect.Bool:
		return a.Bool() == b.Bool()
	case reflect.Int, reflect.Int8, reflect.Int16, reflect.Int32, reflect.Int64:
		return a.Int() == b.Int()
	case reflect.Uint, reflect.Uint8, reflect.Uint16, reflect.Uint32, reflect.Uint64, reflect.Uintptr:
		return a.Uint() == b.Uint()
	case reflect.Float32, reflect.Float64:
		x, y := a.Float(), b.Float()
		return x == y || math.IsNaN(x) && math.IsNaN(y)
	case reflect.String:
		return a.String() == b.String()
	case reflect.Ptr:
		if a.IsNil() || b.IsNil() {
			return a.IsNil() == b.IsNil()
		}
		return eqValue(a.Elem(), b.Elem(), o)
	case reflect.Interface:
		if a.IsNil() || b.IsNil() {
			return a.IsNil() == b.IsNil()
		}
		return eqValue(a.Elem(), b.Elem(), o)
	case reflect.Slice:
		if a.Len() != b.Len() {
			return false
		}
		if a.Len() == 0 {
			return o.equateEmpty || a.IsNil() == b.IsNil()
		}
		if a.Type().Elem().Kind() == reflect.Uint8 {
			return string(a.Bytes()) == string(b.Bytes())
		}
		for i := 0; i < a.Len(); i++ {
			if !eqValue(a.Index(i), b.Index(i), o) {
				return false
			}
		}
		return true
	case reflect.Array:
		for i := 0; i < a.Len(); i++ {
			if !eqValue(a.Index(i), b.Index(i), o) {
				return false
			}
		}
		return true
	case reflect.Map:
		if a.Len() != b.Len() {
			return false
		}
		if a.Len() == 0 {
			return o.equateEmpty || a.IsNil() == b.IsNil()
		}
		it := a.MapRange()
		for it.Next() {
			bv := b.MapIndex(it.Key())
			if !bv.IsValid() || !eqValue(it.Value(), bv, o) {
				return false
			}
		}
		return true
	case reflect.Struct:
		for i := 0; i < a.NumField(); i++ {
			if !eqValue(a.Field(i), b.Field(i), o) {
				return false
			}
		}
		return true
	case reflect.Func:
		return a.IsNil() && b.IsNil()
	}
	return false
}
