package main

import (
	"seehuhn.de/go/sfnt/verifharness/c01"
	"seehuhn.de/go/sfnt/verifharness/vlib"
)

func main() { vlib.Main(c01.Gen, c01.RunCase) }
