package c01

import (
	"bytes"
	"fmt"
	"os"
	"strings"
	"testing"

	"github.com/google/go-cmp/cmp"
	"seehuhn.de/go/sfnt/header"
	v "seehuhn.de/go/sfnt/verifharness/vlib"
)

func TestDbg(t *testing.T) {
	b, _ := os.ReadFile("/tmp/c01-x/replay.txt")
	for _, line := range strings.Split(strings.TrimSpace(string(b)), "\n") {
		items, _ := v.Parse(strings.TrimPrefix(line, "!"))
		tp, _ := parseTpl(items[1])
		fs, _ := parseFields(items[2])
		c := &cycleCase{tp, fs}
		f, _ := c.build()
		res, _ := oracleValue(f)
		fmt.Println("== ", tp)
		if d := cmp.Diff(f.Gsub, res.F1.Gsub); d != "" {
			fmt.Println("GSUB diff:", clip(d, 1500))
		}
		d0, _ := header.Read(bytes.NewReader(res.W0))
		d1, _ := header.Read(bytes.NewReader(res.W1))
		for tag := range d0.Toc {
			a, _ := d0.ReadTableBytes(bytes.NewReader(res.W0), tag)
			bb, _ := d1.ReadTableBytes(bytes.NewReader(res.W1), tag)
			if !bytes.Equal(a, bb) {
				fmt.Printf("table %q differs: len %d %d first %d\n", tag, len(a), len(bb), firstDiff(a, bb))
				if tag == "name" {
					fmt.Printf("%q\n%q\n", a[firstDiff(a, bb)-20:firstDiff(a, bb)+40], bb[firstDiff(a, bb)-20:firstDiff(a, bb)+40])
				}
			}
		}
	}
}
