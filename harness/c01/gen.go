package c01

// gen.go: case generation, case re-execution, correspondence observations.
//
// case lines
//
//	cycle <tpl> <fields> <FONT>            clause (a) on a generated font value; the model
//	                                        computes the decoded tables and Read's result
//	merge <src> <edits> <TABLES>           clause (b) on a byte string; the model merges the
//	                                        tables the per-table decoders deliver
//	!cycle <tpl> <fields> / !merge <src> <edits>
//	                                        the same, oracle only (input outside the model:
//	                                        off-grid floats, a table some decoder rejects, ...)

import (
	"bytes"
	"errors"
	"fmt"
	"os"
	"path/filepath"
	"sort"
	"strconv"
	"strings"
	"time"

	"seehuhn.de/go/sfnt"
	"seehuhn.de/go/sfnt/glyf"
	"seehuhn.de/go/sfnt/header"
	v "seehuhn.de/go/sfnt/verifharness/vlib"
)

const repoRoot = "/repo"

// ---------------------------------------------------------------- clause (a)

type cycleCase struct {
	T tpl
	S *fields
}

func (c *cycleCase) build() (*sfnt.Font, error) {
	f, err := buildTemplate(c.T)
	if err != nil {
		return nil, err
	}
	c.S.apply(f)
	return f, nil
}

// runCycle evaluates one clause-(a) case: the case line, the implementation's
// observation in the model's syntax, the oracle's failures.
func runCycle(c *cycleCase) (line, impl string, fails []*failure, labels []string, err error) {
	defer func() {
		if e := recover(); e != nil {
			// a panic outside the guarded calls of the code under test: the
			// harness itself failed on this case
			line = "!" + v.Line(v.Atom("cycle"), c.T.sx(), c.S.sx())
			impl, err = "-", nil
			fails = append(fails, &failure{"harness-panic", fmt.Sprint(e)})
		}
	}()
	f, err := c.build()
	if err != nil {
		return "", "", nil, nil, err
	}
	// memory layout (alias.go): three cases in four get every byte slice of
	// the font as adjacent sub-slices of one array with sentinels around, the
	// way a caller who cut tables out of a larger buffer holds them; the value
	// is the same, so the case line does not say which layout was used beyond
	// the template seed
	var callerMemory [][]byte
	if !strings.HasPrefix(c.T.Name, "go:") {
		// templates share glyph memory with the font they were cut from; the
		// oracle fills unused capacity with sentinels, so the font must own
		// all memory its slices can reach (a font fresh from sfnt.Read does)
		f = deepCopyFont(f)
	}
	if c.T.Seed%4 != 0 {
		f = deepCopyFont(f)
		ar := rehome(f, c.T.Seed)
		callerMemory = append(callerMemory, ar.buf)
		labels = append(labels, "a:memory=shared-array")
		if ar.odd > 0 {
			labels = append(labels, "a:memory=shared-array,slice-length-not-multiple-of-4")
		}
	} else {
		labels = append(labels, "a:memory=own-slices")
	}
	if o, ok := f.Outlines.(*glyf.Outlines); ok {
		for _, b := range o.Tables {
			if len(b)%4 != 0 {
				labels = append(labels, "a:pass-through-table-length-not-multiple-of-4")
				break
			}
		}
	}
	head := v.Line(v.Atom("cycle"), c.T.sx(), c.S.sx())
	labels = append(labels, "a:tpl="+strings.SplitN(c.T.Name, ":", 2)[0], "a:cmap="+c.T.CMap)
	if c.T.Layout != "-" {
		labels = append(labels, "a:layout="+c.T.Layout)
	}
	if o, ok := f.Outlines.(*glyf.Outlines); ok {
		for _, g := range o.Glyphs {
			if g != nil {
				if _, comp := g.Data.(glyf.CompositeGlyph); comp {
					labels = append(labels, "a:composite-glyphs")
					break
				}
			}
		}
		if o.Names != nil {
			labels = append(labels, "a:glyph-names")
		}
	}
	if n := f.NumGlyphs(); n >= 10000 {
		labels = append(labels, "a:glyphs>=10000")
	} else if n == 1 {
		labels = append(labels, "a:glyphs=1")
	}
	fsx, perr := fontSx(f)
	var canon string
	func() {
		defer func() {
			if e := recover(); e != nil {
				canon = "panic"
			}
		}()
		canon = isCanonical(f)
	}()
	if canon == "" {
		labels = append(labels, "a:canonical")
	}
	res, fails := oracleValue(f, callerMemory...)
	if perr != nil {
		labels = append(labels, "a:oracle-only")
		return "!" + head, "-", fails, labels, nil
	}
	line = head + " " + v.Str(writeContext(f)) + " " + v.Str(fsx)
	// observation
	switch {
	case res.W0 == nil:
		impl = "err"
		for _, fl := range fails {
			if strings.HasPrefix(fl.sig, "write-panic") {
				impl = "panic"
			}
		}
	case res.F1 == nil:
		impl = "(unreadable)"
	default:
		ft, derr := decodeTables(res.W0)
		if derr != nil {
			impl = "(undecodable " + strconv.Quote(derr.Error()) + ")"
			break
		}
		ct, mt := f.CreationTime, f.ModificationTime
		tsx, terr := ft.tablesSx(true, &ct, &mt)
		f1sx, ferr := fontSx(res.F1)
		if terr != nil || ferr != nil {
			// the written file leaves the model's grid although the value was on it
			impl = fmt.Sprintf("(off-grid %v %v)", terr, ferr)
			break
		}
		impl = v.Str(v.L(v.Atom("ok"), tsx, f1sx, writtenTags(res.W0), nameTableObs(f, res.W0), os2Derived(ft)))
	}
	return line, impl, fails, labels, nil
}

// writeContext lists what Write reads besides the model's font record: the
// day strings time.Format gives for the two timestamps and the keys of
// glyf.Outlines.Tables.
func writeContext(f *sfnt.Font) v.Sx {
	day := func(t time.Time) v.Sx {
		if t.IsZero() {
			return v.Hex(nil)
		}
		return v.Hex([]byte(t.Format("2006-01-02")))
	}
	extra := v.List{v.Atom("extra")}
	if o, ok := f.Outlines.(*glyf.Outlines); ok {
		var tags []uint32
		for k := range o.Tables {
			if len(k) == 4 {
				tags = append(tags, uint32(k[0])<<24|uint32(k[1])<<16|uint32(k[2])<<8|uint32(k[3]))
			}
		}
		sort.Slice(tags, func(i, j int) bool { return tags[i] > tags[j] })
		for _, t := range tags {
			extra = append(extra, v.U64(uint64(t)))
		}
	}
	// the code range of the best cmap subtable and the font bounding box
	rng := v.Sx(none)
	var lly, ury int
	func() {
		defer func() { recover() }()
		if best, _ := f.CMapTable.GetBest(); best != nil {
			lo, hi := best.CodeRange()
			rng = v.L(v.Atom("range"), v.I64(int64(lo)), v.I64(int64(hi)))
		}
		bb := f.FontBBox()
		lly, ury = int(bb.LLy), int(bb.URy)
	}()
	return v.L(v.Atom("wctx"), v.L(v.Atom("days"), day(f.ModificationTime), day(f.CreationTime)), extra,
		rng, v.L(v.Atom("bbox"), v.Int(lly), v.Int(ury)))
}

// os2Derived prints the values of the written OS/2 table that Write derives
// from the glyph data and the cmap.
func os2Derived(ft *fileTables) v.Sx {
	if ft.os2 == nil {
		return none
	}
	o := ft.os2
	return v.L(v.Atom("os2x"), v.Int(int(o.AvgGlyphWidth)), v.Int(int(o.FirstCharIndex)), v.Int(int(o.LastCharIndex)),
		v.Int(int(o.WinAscent)), v.Int(int(o.WinDescent)))
}

// writtenTags reads the table directory of a written file (an independent
// 12+16n byte parse).
func writtenTags(w []byte) v.Sx {
	out := v.List{v.Atom("tags")}
	if len(w) < 12 {
		return out
	}
	n := int(w[4])<<8 | int(w[5])
	var tags []uint32
	for i := 0; i < n && 12+16*i+4 <= len(w); i++ {
		p := 12 + 16*i
		tags = append(tags, uint32(w[p])<<24|uint32(w[p+1])<<16|uint32(w[p+2])<<8|uint32(w[p+3]))
	}
	sort.Slice(tags, func(i, j int) bool { return tags[i] < tags[j] })
	for _, t := range tags {
		out = append(out, v.U64(uint64(t)))
	}
	return out
}

func printableASCII(s string) bool {
	for i := 0; i < len(s); i++ {
		if s[i] < 32 || s[i] > 126 {
			return false
		}
	}
	return true
}

// nameTableObs prints the records and the string storage of the written name
// table (parsed from the bytes) when every string of the font is printable
// ASCII and a timestamp is set; "-" otherwise.
func nameTableObs(f *sfnt.Font, w []byte) v.Sx {
	for _, s := range []string{f.FamilyName, f.Description, f.SampleText, f.Copyright, f.Trademark, f.License, f.LicenseURL} {
		if !printableASCII(s) {
			return none
		}
	}
	if f.CreationTime.IsZero() && f.ModificationTime.IsZero() {
		return none
	}
	dir, err := header.Read(bytes.NewReader(w))
	if err != nil {
		return v.Atom("(no-directory)")
	}
	b, err := dir.ReadTableBytes(bytes.NewReader(w), "name")
	if err != nil || len(b) < 6 {
		return v.Atom("(no-name-table)")
	}
	n := int(b[2])<<8 | int(b[3])
	so := int(b[4])<<8 | int(b[5])
	if 6+12*n > len(b) || so > len(b) {
		return v.Atom("(bad-name-table)")
	}
	recs := make(v.List, n)
	for i := 0; i < n; i++ {
		p := 6 + 12*i
		u := func(k int) v.Sx { return v.Int(int(b[p+k])<<8 | int(b[p+k+1])) }
		recs[i] = v.L(u(0), u(2), u(4), u(6), u(10), u(8))
	}
	return v.L(v.Atom("nametab"), recs, v.Hex(b[so:]))
}

// ---------------------------------------------------------------- clause (b)

type edit struct {
	Kind string // drop | set | patch | trunc
	Tag  string
	Data []byte
	Off  int
	Val  byte
}

func (e edit) sx() v.Sx {
	switch e.Kind {
	case "drop":
		return v.L(v.Atom("drop"), v.Hex([]byte(e.Tag)))
	case "set":
		return v.L(v.Atom("set"), v.Hex([]byte(e.Tag)), v.Hex(e.Data))
	case "patch":
		return v.L(v.Atom("patch"), v.Int(e.Off), v.Int(int(e.Val)))
	case "trunc":
		return v.L(v.Atom("trunc"), v.Int(e.Off))
	}
	return v.Atom("?")
}

func parseEdit(x v.Sx) (e edit, err error) {
	l, err := v.AsList(x)
	if err != nil || len(l) < 2 {
		return e, errors.New("bad edit")
	}
	if e.Kind, err = v.AsAtom(l[0]); err != nil {
		return
	}
	switch e.Kind {
	case "drop", "set":
		b, err := v.AsBytes(l[1])
		if err != nil {
			return e, err
		}
		e.Tag = string(b)
		if e.Kind == "set" {
			if len(l) != 3 {
				return e, errors.New("bad set")
			}
			if e.Data, err = v.AsBytes(l[2]); err != nil {
				return e, err
			}
		}
	case "patch":
		if len(l) != 3 {
			return e, errors.New("bad patch")
		}
		if e.Off, err = v.AsInt(l[1]); err != nil {
			return
		}
		n, err := v.AsInt(l[2])
		if err != nil {
			return e, err
		}
		e.Val = byte(n)
	case "trunc":
		if e.Off, err = v.AsInt(l[1]); err != nil {
			return
		}
	default:
		return e, errors.New("unknown edit")
	}
	return e, nil
}

type source struct {
	Kind string // go | file | fuzz | w
	Name string
	C    *cycleCase
}

func (s source) sx() v.Sx {
	if s.Kind == "w" {
		return v.L(v.Atom("src"), v.Atom("w"), s.C.T.sx(), s.C.S.sx())
	}
	return v.L(v.Atom("src"), v.Atom(s.Kind), v.Atom(s.Name))
}

func parseSource(x v.Sx) (s source, err error) {
	l, err := v.AsList(x)
	if err != nil || len(l) < 3 {
		return s, errors.New("bad source")
	}
	if s.Kind, err = v.AsAtom(l[1]); err != nil {
		return
	}
	if s.Kind == "w" {
		if len(l) != 4 {
			return s, errors.New("bad written source")
		}
		t, err := parseTpl(l[2])
		if err != nil {
			return s, err
		}
		fs, err := parseFields(l[3])
		if err != nil {
			return s, err
		}
		s.C = &cycleCase{t, fs}
		return s, nil
	}
	s.Name, err = v.AsAtom(l[2])
	return
}

var xImageTestdata = func() string {
	m, _ := filepath.Glob("/root/go/pkg/mod/golang.org/x/image@v0.18.0/font/testdata")
	if len(m) > 0 {
		return m[0]
	}
	return ""
}()

// parseFuzzFile extracts the []byte("...") literal of a Go fuzz corpus file.
func parseFuzzFile(b []byte) ([]byte, error) {
	s := string(b)
	i := strings.Index(s, "[]byte(")
	j := strings.LastIndex(s, ")")
	if i < 0 || j < i {
		return nil, errors.New("not a fuzz corpus file")
	}
	q, err := strconv.Unquote(s[i+7 : j])
	if err != nil {
		return nil, err
	}
	return []byte(q), nil
}

func (s source) bytes() ([]byte, error) {
	switch s.Kind {
	case "go":
		b, ok := goFonts[s.Name]
		if !ok {
			return nil, fmt.Errorf("unknown font %q", s.Name)
		}
		return b, nil
	case "file":
		return os.ReadFile(filepath.Join(xImageTestdata, filepath.Base(s.Name)))
	case "fuzz":
		b, err := os.ReadFile(filepath.Join(repoRoot, "testdata", "fuzz", "FuzzFont", filepath.Base(s.Name)))
		if err != nil {
			return nil, err
		}
		return parseFuzzFile(b)
	case "w":
		f, err := s.C.build()
		if err != nil {
			return nil, err
		}
		return writeFont(f)
	}
	return nil, fmt.Errorf("unknown source kind %q", s.Kind)
}

// applyEdits rebuilds the container with tables dropped / replaced, then
// applies byte patches and truncation to the file.
func applyEdits(data []byte, edits []edit) (out []byte, err error) {
	defer func() {
		if e := recover(); e != nil {
			out, err = nil, fmt.Errorf("edit panicked: %v", e)
		}
	}()
	structural := false
	for _, e := range edits {
		if e.Kind == "drop" || e.Kind == "set" {
			structural = true
		}
	}
	if structural {
		rr := bytes.NewReader(data)
		dir, err := header.Read(rr)
		if err != nil {
			return nil, err
		}
		tables := map[string][]byte{}
		for tag := range dir.Toc {
			b, err := dir.ReadTableBytes(rr, tag)
			if err != nil {
				return nil, err
			}
			if b == nil {
				b = []byte{}
			}
			tables[tag] = b
		}
		for _, e := range edits {
			switch e.Kind {
			case "drop":
				delete(tables, e.Tag)
			case "set":
				tables[e.Tag] = e.Data
			}
		}
		buf := &bytes.Buffer{}
		if _, err := header.Write(buf, dir.ScalerType, tables); err != nil {
			return nil, err
		}
		data = buf.Bytes()
	}
	data = append([]byte(nil), data...)
	for _, e := range edits {
		switch e.Kind {
		case "patch":
			if e.Off >= 0 && e.Off < len(data) {
				data[e.Off] = e.Val
			}
		case "trunc":
			if e.Off >= 0 && e.Off < len(data) {
				data = data[:e.Off]
			}
		}
	}
	return data, nil
}

type mergeCase struct {
	Src   source
	Edits []edit
}

func runMerge(c *mergeCase) (line, impl string, fails []*failure, labels []string, err error) {
	defer func() {
		if e := recover(); e != nil {
			es := make(v.List, len(c.Edits))
			for i, ed := range c.Edits {
				es[i] = ed.sx()
			}
			line = "!" + v.Line(v.Atom("merge"), c.Src.sx(), es)
			impl, err = "-", nil
			fails = append(fails, &failure{"harness-panic", fmt.Sprint(e)})
		}
	}()
	base, err := c.Src.bytes()
	if err != nil {
		return "", "", nil, nil, err
	}
	data, err := applyEdits(base, c.Edits)
	if err != nil {
		return "", "", nil, nil, err
	}
	es := make(v.List, len(c.Edits))
	for i, e := range c.Edits {
		es[i] = e.sx()
	}
	head := v.Line(v.Atom("merge"), c.Src.sx(), es)
	labels = append(labels, "b:src="+c.Src.Kind)
	for _, e := range c.Edits {
		labels = append(labels, "b:edit="+e.Kind)
	}
	f0, _, fails := oracleBytes(data)
	_, rerr := readFont(data)
	switch {
	case f0 != nil:
		labels = append(labels, "b:accepted")
	case isPanic(rerr):
		labels = append(labels, "b:read-panic")
	default:
		labels = append(labels, "b:rejected")
	}
	ft, derr := decodeTables(data)
	if derr != nil {
		labels = append(labels, "b:oracle-only(decoder-rejects)")
		return "!" + head, "-", fails, labels, nil
	}
	if ft.kern != nil {
		labels = append(labels, "b:kern-derived-gpos")
	}
	tsx, terr := ft.tablesSx(false, nil, nil)
	if terr != nil {
		labels = append(labels, "b:oracle-only(off-grid)")
		return "!" + head, "-", fails, labels, nil
	}
	switch {
	case f0 != nil:
		fsx, ferr := fontSx(f0)
		if ferr != nil {
			labels = append(labels, "b:oracle-only(off-grid)")
			return "!" + head, "-", fails, labels, nil
		}
		impl = v.Str(v.L(v.Atom("ok"), fsx))
	case isPanic(rerr):
		impl = "panic"
	default:
		impl = "err"
	}
	labels = append(labels, "b:modelled")
	return head + " " + v.Str(tsx), impl, fails, labels, nil
}

// ---------------------------------------------------------------- RunCase

// RunCase re-executes one case line (corpus entries and replays).
func RunCase(line string) (impl, fail, sig string, err error) {
	line = strings.TrimPrefix(line, "!")
	items, err := v.Parse(line)
	if err != nil {
		return "", "", "", err
	}
	if len(items) < 3 {
		return "", "", "", errors.New("short case")
	}
	kind, err := v.AsAtom(items[0])
	if err != nil {
		return "", "", "", err
	}
	var fails []*failure
	var newLine string
	switch kind {
	case "cycle":
		t, err := parseTpl(items[1])
		if err != nil {
			return "", "", "", err
		}
		fs, err := parseFields(items[2])
		if err != nil {
			return "", "", "", err
		}
		newLine, impl, fails, _, err = runCycle(&cycleCase{t, fs})
		if err != nil {
			return "", "", "", err
		}
	case "merge":
		src, err := parseSource(items[1])
		if err != nil {
			return "", "", "", err
		}
		el, err := v.AsList(items[2])
		if err != nil {
			return "", "", "", err
		}
		var edits []edit
		for _, x := range el {
			e, err := parseEdit(x)
			if err != nil {
				return "", "", "", err
			}
			edits = append(edits, e)
		}
		newLine, impl, fails, _, err = runMerge(&mergeCase{src, edits})
		if err != nil {
			return "", "", "", err
		}
	default:
		return "", "", "", fmt.Errorf("unknown case kind %q", kind)
	}
	// the model input stored in the line must be the one this tree produces
	if len(items) > 3 && !strings.HasPrefix(newLine, "!") {
		if want := strings.TrimSpace(newLine); want != strings.TrimSpace(line) {
			impl = "(stale-case-line)"
		}
	}
	if len(fails) > 0 {
		fail, sig = joinFails(fails)
	}
	return impl, fail, sig, nil
}

func joinFails(fails []*failure) (detail, sig string) {
	// one case, one signature: the first failure in a fixed order of severity
	sort.SliceStable(fails, func(i, j int) bool { return fails[i].sig < fails[j].sig })
	var ds []string
	for _, f := range fails {
		ds = append(ds, f.String())
	}
	return strings.Join(ds, " | "), classify(fails)
}

// classify maps the failures of one case to the signature used for matching
// known findings: if every failure of the case belongs to one known finding
// the case carries that finding's signature, otherwise the first failure that
// is not known names the case.
func classify(fails []*failure) string {
	known := ""
	for _, f := range fails {
		k := knownSignature(f)
		if k == "" {
			return f.sig
		}
		if known == "" {
			known = k
		}
	}
	return known
}

// ---------------------------------------------------------------- Gen

func Gen(run *v.Run, seed uint64, tier string) {
	run.Rule = "one case = one font value put through Write/Read twice (cycle) or one byte string put through Read/Write/Read/Write (merge); non-trivial = font with at least 2 glyphs whose case line differs from all others, or a file of at least 5 tables that Read accepts; distinct by case line"
	r := v.NewRand(seed)
	t0 := time.Now()
	genCycles(run, r.Fork("cycle"), tier)
	run.Extra["cycle_wall_s"] = time.Since(t0).Seconds()
	t1 := time.Now()
	genMerges(run, r.Fork("merge"), tier)
	run.Extra["merge_wall_s"] = time.Since(t1).Seconds()
	run.Extra["x_image_testdata_present"] = xImageTestdata != ""
}

func record(run *v.Run, line, impl string, fails []*failure, nontrivial bool, labels []string) {
	if strings.HasPrefix(line, "!") {
		labels = append(labels, "oracle-only")
	} else {
		labels = append(labels, "modelled")
	}
	idx := run.Add(line, impl, nontrivial, labels...)
	if len(fails) > 0 {
		d, s := joinFails(fails)
		run.Hist["oracle-failure:"+s]++
		// the run record keeps at most 200 failures: recorded findings must
		// not crowd out anything else, so only their first few instances are
		// stored (all are counted in the histogram)
		if knownSignature(&failure{sig: s}) != "" {
			knownStored[s]++
			if knownStored[s] > 5 {
				return
			}
		}
		run.Fail(idx, line, d, s)
	}
}

var knownStored = map[string]int{}
