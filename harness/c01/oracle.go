// Package c01 checks property C01 (whole-font write/read round trip is lossless
// and reaches a byte fixed point) on the real sfnt.Font.Write / sfnt.Read.
//
// oracle.go: the property stated directly on the implementation's observables,
// independent of the Coq model.
package c01

import (
	"bytes"
	"fmt"
	"math"
	"reflect"
	"strings"
	"time"
	"unicode/utf8"

	"github.com/google/go-cmp/cmp"
	"github.com/google/go-cmp/cmp/cmpopts"

	"seehuhn.de/go/sfnt"
	"seehuhn.de/go/sfnt/cff"
	"seehuhn.de/go/sfnt/glyf"
	"seehuhn.de/go/sfnt/glyph"
)

// writeFont calls (*Font).Write; a panic is an observation.
func writeFont(f *sfnt.Font) (data []byte, err error) {
	defer func() {
		if e := recover(); e != nil {
			data = nil
			err = fmt.Errorf("panic: %v", e)
		}
	}()
	buf := &bytes.Buffer{}
	_, err = f.Write(buf)
	if err != nil {
		return nil, err
	}
	return buf.Bytes(), nil
}

// readFont calls sfnt.Read; a panic is an observation, and so is a call that
// does not return within the time budget (the goroutine is abandoned).
func readFont(data []byte) (*sfnt.Font, error) {
	type result struct {
		f   *sfnt.Font
		err error
	}
	ch := make(chan result, 1)
	go func() {
		defer func() {
			if e := recover(); e != nil {
				ch <- result{nil, fmt.Errorf("panic: %v", e)}
			}
		}()
		f, err := sfnt.Read(bytes.NewReader(data))
		ch <- result{f, err}
	}()
	select {
	case r := <-ch:
		return r.f, r.err
	case <-time.After(readBudget):
		return nil, fmt.Errorf("panic: sfnt.Read did not return within %v", readBudget)
	}
}

const readBudget = 30 * time.Second

func isPanic(err error) bool { return err != nil && strings.HasPrefix(err.Error(), "panic: ") }

// deepDiff compares two font values completely (every exported field, all
// glyph data, raw cmap subtables, layout tables).  Floats are compared
// exactly (NaN == NaN), times by instant, the CFF FDSelect functions
// pointwise on all glyph ids.
func deepDiff(a, b *sfnt.Font) (d string) { return deepDiffOpt(a, b, false) }

// deepDiffOpt: equateEmpty identifies nil and empty slices/maps (used when
// one side was constructed by a user and the other by Read).
func deepDiffOpt(a, b *sfnt.Font, equateEmpty bool) (d string) {
	defer func() {
		if e := recover(); e != nil {
			d = fmt.Sprintf("comparison panicked: %v", e)
		}
	}()
	n := 0
	for _, f := range []*sfnt.Font{a, b} {
		if f != nil && f.Outlines != nil {
			func() {
				defer func() { recover() }()
				if k := f.Outlines.NumGlyphs(); k > n {
					n = k
				}
			}()
		}
	}
	cmpFD := cmp.Comparer(func(f1, f2 cff.FDSelectFn) bool {
		if (f1 == nil) != (f2 == nil) {
			return false
		}
		if f1 == nil {
			return true
		}
		for gid := 0; gid < n; gid++ {
			if f1(glyph.ID(gid)) != f2(glyph.ID(gid)) {
				return false
			}
		}
		return true
	})
	cmpTime := cmp.Comparer(func(t1, t2 time.Time) bool { return t1.Equal(t2) })
	eq := fastEqual(a, b, eqOpts{nGlyphs: n, equateEmpty: equateEmpty})
	compared++
	if eq && compared%25 != 0 {
		return ""
	}
	opts := []cmp.Option{cmpFD, cmpTime, cmpopts.EquateNaNs()}
	if equateEmpty {
		opts = append(opts, cmpopts.EquateEmpty())
	}
	d = cmp.Diff(a, b, opts...)
	if eq != (d == "") {
		return fmt.Sprintf("comparison-disagreement: walker says equal=%v, go-cmp says %q", eq, clip(d, 200))
	}
	return d
}

var compared int

// valDiff compares two values of one field (go-cmp renders the difference).
func valDiff(a, b any, equateEmpty bool) string {
	if fastEqual(a, b, eqOpts{equateEmpty: equateEmpty}) {
		return ""
	}
	var opts []cmp.Option
	if equateEmpty {
		opts = append(opts, cmpopts.EquateEmpty())
	}
	opts = append(opts, cmpopts.EquateNaNs())
	d := cmp.Diff(a, b, opts...)
	if d == "" {
		return "comparison-disagreement: walker says different, go-cmp says equal"
	}
	return d
}

func clip(s string, n int) string {
	s = strings.Join(strings.Fields(s), " ")
	if len(s) > n {
		return s[:n] + "..."
	}
	return s
}

// failure of one clause of the property
type failure struct {
	sig    string // stable signature: clause and failing field / condition
	detail string
}

func (f *failure) String() string {
	if f == nil {
		return ""
	}
	return f.sig + ": " + f.detail
}

// diffFields names the top-level Font fields in which a and b differ.
func diffFields(a, b *sfnt.Font) []string { return diffFieldsOpt(a, b, false) }

func diffFieldsOpt(a, b *sfnt.Font, equateEmpty bool) []string {
	var out []string
	va, vb := reflect.ValueOf(a).Elem(), reflect.ValueOf(b).Elem()
	for i := 0; i < va.NumField(); i++ {
		name := va.Type().Field(i).Name
		fa := &sfnt.Font{Outlines: a.Outlines}
		fb := &sfnt.Font{Outlines: a.Outlines}
		if name == "Outlines" {
			fb.Outlines = b.Outlines
		} else {
			reflect.ValueOf(fa).Elem().Field(i).Set(va.Field(i))
			reflect.ValueOf(fb).Elem().Field(i).Set(vb.Field(i))
		}
		if deepDiffOpt(fa, fb, equateEmpty) != "" {
			out = append(out, name)
		}
	}
	return out
}

// cycleResult holds what one evaluation of the oracle saw (used for the
// model correspondence as well).
type cycleResult struct {
	W0 []byte     // Write(F)
	F1 *sfnt.Font // Read(Write(F))
	W1 []byte     // Write(F1)
	F2 *sfnt.Font // Read(Write(F1))
}

// oracleValue evaluates clause (a) for a font value F of the representable
// domain: Write is a function of the value (five writes, byte-identical),
// the file is accepted by Read, the re-read font F1 is a fixed point (F2 deep
// equal F1, Write(F1) == Write(F2)), the information the property lists comes
// back unchanged (lossless), and a font that is already in normal form
// (canonical, see canonical.go) comes back deep-equal with identical bytes.
//
// Write must not touch its argument: the value (deep comparison with a copy
// taken before the call), the bytes of its slices and all memory behind them
// up to their capacity (alias.go) are the same after the first write and after
// the last; and what comes back is compared with the value F had BEFORE the
// first write (a Write that damaged F and wrote the damaged table would
// otherwise agree with itself).  extra: further memory regions of the caller
// that must stay untouched (the arena the font's slices live in).
func oracleValue(f *sfnt.Font, extra ...[]byte) (*cycleResult, []*failure) {
	var fails []*failure
	res := &cycleResult{}
	g := watch(f, extra...)
	w0, err := writeFont(f)
	fails = append(fails, g.check("first Write(F)")...)
	if err != nil {
		kind := "error"
		if isPanic(err) {
			kind = "panic"
		}
		return res, append(fails, &failure{"write-" + kind + "-on-value", clip(err.Error(), 300)})
	}
	res.W0 = w0
	for i := 0; i < repeatWrites(f)-1; i++ {
		w, err := writeFont(f)
		if err != nil || !bytes.Equal(w, w0) {
			fails = append(fails, &failure{"write-not-deterministic", fmt.Sprintf("write #%d of the same value differs (err=%v, first difference at byte %d)", i+2, err, firstDiff(w, w0))})
			break
		}
	}
	if len(fails) == 0 {
		fails = append(fails, g.check("repeated Write(F)")...)
	}
	// from here on F means the value before the first write
	f = g.reference()
	f1, err := readFont(w0)
	if err != nil {
		kind := "rejected"
		if isPanic(err) {
			kind = "panic"
		}
		if kind == "rejected" && longNameFinding(f, err) {
			return res, append(fails, &failure{sigLongName, clip(err.Error(), 300)})
		}
		return res, append(fails, &failure{"read-of-written-" + kind, clip(err.Error(), 300)})
	}
	res.F1 = f1
	fails = append(fails, fixedPoint(f1, res)...)
	fails = append(fails, lossless(f, f1)...)
	if isCanonical(f) == "" {
		if d := deepDiffOpt(f, f1, true); d != "" {
			fails = append(fails, &failure{"canonical-not-preserved:" + strings.Join(diffFieldsOpt(f, f1, true), ","), clip(d, 600)})
		} else if res.W1 != nil && !bytes.Equal(res.W1, w0) {
			fails = append(fails, &failure{"canonical-bytes-differ", fmt.Sprintf("first difference at byte %d", firstDiff(res.W1, w0))})
		}
	}
	return res, fails
}

// repeatWrites: how often one value is written to look for a dependence on
// map iteration order.  A wrong order shows up in a single pair of writes
// with probability well below 1/2, so small fonts (cheap to write) and fonts
// with map-backed data whose sort key can tie are written 24 times, the rest
// five times.
func repeatWrites(f *sfnt.Font) int {
	n := 0
	func() {
		defer func() { recover() }()
		n = f.NumGlyphs()
	}()
	if n <= 64 || len(f.CMapTable) > 2 {
		return 24
	}
	return 5
}

// fixedPoint: F1 was produced by Read; one more cycle must reproduce it
// exactly, and the bytes must be stable.
func fixedPoint(f1 *sfnt.Font, res *cycleResult) []*failure {
	var fails []*failure
	// F1 comes from Read: its slices have whatever spare capacity Read left
	g := watch(f1)
	w1, err := writeFont(f1)
	fails = append(fails, g.check("Write(F1), F1 = Read(Write(F))")...)
	if err != nil {
		kind := "error"
		if isPanic(err) {
			kind = "panic"
		}
		return append(fails, &failure{"write-" + kind + "-on-read-font", clip(err.Error(), 300)})
	}
	res.W1 = w1
	f2, err := readFont(w1)
	if err != nil {
		kind := "rejected"
		if isPanic(err) {
			kind = "panic"
		}
		return append(fails, &failure{"reread-" + kind, clip(err.Error(), 300)})
	}
	res.F2 = f2
	if d := deepDiff(f1, f2); d != "" {
		fails = append(fails, &failure{"not-fixed-point:" + strings.Join(diffFields(f1, f2), ","), clip(d, 600)})
	}
	w2, err := writeFont(f2)
	if err != nil {
		fails = append(fails, &failure{"write-error-generation-2", clip(err.Error(), 300)})
	} else if !bytes.Equal(w1, w2) {
		fails = append(fails, &failure{"bytes-not-fixed-point", fmt.Sprintf("Write(F1) and Write(F2) differ, first at byte %d (lengths %d, %d)", firstDiff(w1, w2), len(w1), len(w2))})
	}
	w1b, err := writeFont(f1)
	if err != nil || !bytes.Equal(w1, w1b) {
		fails = append(fails, &failure{"write-not-deterministic", "second write of the re-read font differs"})
	}
	return fails
}

func firstDiff(a, b []byte) int {
	n := len(a)
	if len(b) < n {
		n = len(b)
	}
	for i := 0; i < n; i++ {
		if a[i] != b[i] {
			return i
		}
	}
	return n
}

// oracleBytes evaluates clause (b) for a byte string b.  ok reports whether
// Read accepted b (the clause is vacuous otherwise).
func oracleBytes(b []byte) (f0 *sfnt.Font, res *cycleResult, fails []*failure) {
	res = &cycleResult{}
	f0, err := readFont(b)
	if err != nil {
		if isPanic(err) {
			// C02's business, but a panic is never acceptable
			return nil, res, []*failure{{"read-panic", clip(err.Error(), 300)}}
		}
		return nil, res, nil
	}
	g := watch(f0)
	w0, err := writeFont(f0)
	fails = append(fails, g.check("Write(Read(b))")...)
	if err != nil {
		kind := "error"
		if isPanic(err) {
			kind = "panic"
		}
		return f0, res, append(fails, &failure{"write-" + kind + "-on-read-font", clip(err.Error(), 300)})
	}
	res.W0 = w0
	f1, err := readFont(w0)
	if err != nil {
		kind := "rejected"
		if isPanic(err) {
			kind = "panic"
		}
		return f0, res, append(fails, &failure{"reread-" + kind, clip(err.Error(), 300)})
	}
	res.F1 = f1
	if d := deepDiff(f0, f1); d != "" {
		fields := diffFields(f0, f1)
		if sigs := recordedFindings(f0, f1, fields); sigs != nil {
			// recorded findings; the property is then checked one generation later
			for _, sg := range sigs {
				fails = append(fails, &failure{sg, clip(d, 300)})
			}
			return f0, res, append(fails, fixedPoint(f1, &cycleResult{})...)
		}
		fails = append(fails, &failure{"not-fixed-point:" + strings.Join(fields, ","), clip(d, 600)})
	}
	w1, err := writeFont(f1)
	if err != nil {
		fails = append(fails, &failure{"write-error-generation-2", clip(err.Error(), 300)})
	} else {
		res.W1 = w1
		if !bytes.Equal(w0, w1) {
			fails = append(fails, &failure{"bytes-not-fixed-point", fmt.Sprintf("Write(Read(b)) and Write(Read(Write(Read(b)))) differ, first at byte %d (lengths %d, %d)", firstDiff(w0, w1), len(w0), len(w1))})
		}
	}
	for i := 0; i < repeatWrites(f0)/2; i++ {
		w, err := writeFont(f0)
		if err != nil || !bytes.Equal(w, w0) {
			fails = append(fails, &failure{"write-not-deterministic", "repeated write of the read font differs"})
			break
		}
	}
	return f0, res, fails
}

// ---- losslessness, field by field (numbers to file-format precision) ----

func validString(s string) bool {
	if !utf8.ValidString(s) {
		return false
	}
	// name records carry 16-bit byte lengths
	n := 0
	for _, r := range s {
		if r >= 0x10000 {
			n += 4
		} else {
			n += 2
		}
	}
	return n <= 0xFFFF
}

// lossless compares F with F1 = Read(Write(F)) on every item the property
// lists.  These comparisons need no notion of a normal form: they are the
// parts of a font value no normalisation may touch.
func lossless(f, f1 *sfnt.Font) []*failure {
	var fails []*failure
	bad := func(field, format string, args ...any) {
		fails = append(fails, &failure{"lost:" + field, fmt.Sprintf(format, args...)})
	}
	// glyph data and advance widths
	switch o := f.Outlines.(type) {
	case *glyf.Outlines:
		o1, ok := f1.Outlines.(*glyf.Outlines)
		if !ok {
			bad("Outlines", "outline kind changed")
			break
		}
		if d := valDiff(o.Glyphs, o1.Glyphs, false); d != "" {
			bad("Outlines.Glyphs", "%s", clip(d, 300))
		}
		if d := valDiff(o.Widths, o1.Widths, false); d != "" {
			bad("Outlines.Widths", "%s", clip(d, 300))
		}
		if d := valDiff(o.Names, o1.Names, true); d != "" {
			if customNameCount(o.Names) > maxCustomNames {
				fails = append(fails, &failure{sigPostNames, clip(d, 200)})
			} else if hasLongName(o.Names) {
				fails = append(fails, &failure{sigLongName, clip(d, 200)})
			} else {
				bad("Outlines.Names", "%s", clip(d, 300))
			}
		}
		if d := valDiff(nonEmptyTables(o.Tables), nonEmptyTables(o1.Tables), true); d != "" {
			bad("Outlines.Tables", "%s", clip(d, 300))
		}
		if d := valDiff(o.Maxp, o1.Maxp, false); d != "" {
			bad("Outlines.Maxp", "%s", clip(d, 300))
		}
	case *cff.Outlines:
		o1, ok := f1.Outlines.(*cff.Outlines)
		if !ok {
			bad("Outlines", "outline kind changed")
			break
		}
		if len(o.Glyphs) != len(o1.Glyphs) {
			bad("Outlines.Glyphs", "glyph count %d -> %d", len(o.Glyphs), len(o1.Glyphs))
			break
		}
		for i, g := range o.Glyphs {
			g1 := o1.Glyphs[i]
			// advance widths: the hmtx table stores integers
			if w := g.Width; w == math.Trunc(w) && w >= -32768 && w <= 32767 && g1.Width != w {
				bad("Outlines.Glyphs.Width", "glyph %d: %v -> %v", i, w, g1.Width)
				break
			}
			if !o.IsCIDKeyed() && g.Name != g1.Name {
				bad("Outlines.Glyphs.Name", "glyph %d: %q -> %q", i, g.Name, g1.Name)
				break
			}
			if d := valDiff(g.Cmds, g1.Cmds, true); d != "" && cffOnGrid(g) {
				bad("Outlines.Glyphs.Cmds", "glyph %d: %s", i, clip(d, 300))
				break
			}
		}
		if o.IsCIDKeyed() != o1.IsCIDKeyed() {
			bad("Outlines.ROS", "CID-keyed %v -> %v", o.IsCIDKeyed(), o1.IsCIDKeyed())
		}
		if d := valDiff(o.ROS, o1.ROS, false); d != "" {
			bad("Outlines.ROS", "%s", clip(d, 300))
		}
		if d := valDiff(o.GIDToCID, o1.GIDToCID, true); d != "" {
			bad("Outlines.GIDToCID", "%s", clip(d, 300))
		}
		if d := valDiff(o.Encoding, o1.Encoding, true); d != "" {
			bad("Outlines.Encoding", "%s", clip(d, 300))
		}
		if len(o.Private) != len(o1.Private) {
			bad("Outlines.Private", "count %d -> %d", len(o.Private), len(o1.Private))
		}
		for gid := range o.Glyphs {
			if o.FDSelect != nil && o1.FDSelect != nil && o.FDSelect(glyph.ID(gid)) != o1.FDSelect(glyph.ID(gid)) {
				bad("Outlines.FDSelect", "glyph %d", gid)
				break
			}
		}
	}
	// character map: raw subtables
	if d := valDiff(f.CMapTable, f1.CMapTable, true); d != "" {
		bad("CMapTable", "%s", clip(d, 300))
	}
	// layout tables (when present in F; Read may synthesise standard
	// ligatures / kerning when they are absent)
	if f.Gdef != nil {
		if d := valDiff(f.Gdef, f1.Gdef, true); d != "" {
			bad("Gdef", "%s", clip(d, 300))
		}
	} else if f1.Gdef != nil {
		bad("Gdef", "nil -> non-nil")
	}
	if f.Gsub != nil {
		if d := valDiff(f.Gsub, f1.Gsub, true); d != "" {
			bad("Gsub", "%s", clip(d, 300))
		}
	}
	if f.Gpos != nil {
		if d := valDiff(f.Gpos, f1.Gpos, true); d != "" {
			bad("Gpos", "%s", clip(d, 300))
		}
	} else if f1.Gpos != nil {
		bad("Gpos", "nil -> non-nil")
	}
	// vertical metrics
	if f.Ascent != f1.Ascent || f.Descent != f1.Descent || f.LineGap != f1.LineGap {
		bad("Ascent/Descent/LineGap", "(%d %d %d) -> (%d %d %d)", f.Ascent, f.Descent, f.LineGap, f1.Ascent, f1.Descent, f1.LineGap)
	}
	if f.CapHeight > 0 && f.CapHeight != f1.CapHeight {
		bad("CapHeight", "%d -> %d", f.CapHeight, f1.CapHeight)
	}
	if f.XHeight > 0 && f.XHeight != f1.XHeight {
		bad("XHeight", "%d -> %d", f.XHeight, f1.XHeight)
	}
	if f.UnitsPerEm != f1.UnitsPerEm {
		bad("UnitsPerEm", "%d -> %d", f.UnitsPerEm, f1.UnitsPerEm)
	}
	// style: classes exactly, flags in the direction no normalisation may drop
	if f.Width != f1.Width {
		bad("Width", "%d -> %d", f.Width, f1.Width)
	}
	if f.Weight != f1.Weight && !(f.Weight == 0 && f.IsCFF()) {
		bad("Weight", "%d -> %d", f.Weight, f1.Weight)
	}
	if f.IsOblique != f1.IsOblique {
		bad("IsOblique", "%v -> %v", f.IsOblique, f1.IsOblique)
	}
	if f.IsItalic && !f1.IsItalic {
		bad("IsItalic", "true -> false")
	}
	if f.IsBold && !f.IsRegular && !f1.IsBold {
		bad("IsBold", "true -> false (IsRegular unset)")
	}
	if f.IsRegular && !f.IsBold && !f.IsItalic && !f.IsOblique && f.ItalicAngle == 0 && !f1.IsBold && !f1.IsRegular {
		bad("IsRegular", "true -> false")
	}
	if f.IsSerif && !f1.IsSerif {
		bad("IsSerif", "true -> false")
	}
	if f.IsScript && !f.IsSerif && !f1.IsScript {
		bad("IsScript", "true -> false")
	}
	if f.CodePageRange != f1.CodePageRange {
		bad("CodePageRange", "%x -> %x", f.CodePageRange, f1.CodePageRange)
	}
	// permission flags
	if f.PermUse >= 0 && f.PermUse <= 3 && f.PermUse != f1.PermUse {
		bad("PermUse", "%v -> %v", f.PermUse, f1.PermUse)
	}
	// version: the name table stores three decimals
	if f.Version.String() != f1.Version.String() && uint32(f.Version) < 0xFFFF0000 {
		bad("Version", "%s -> %s", f.Version, f1.Version)
	}
	// timestamps: seconds
	for _, tt := range []struct {
		n    string
		a, b time.Time
	}{{"CreationTime", f.CreationTime, f1.CreationTime}, {"ModificationTime", f.ModificationTime, f1.ModificationTime}} {
		if !tt.a.IsZero() && tt.a.Unix() == epoch1904 && tt.b.IsZero() {
			// recorded finding: 0 in the head table means "unset" to this library
			fails = append(fails, &failure{sigEpoch1904, fmt.Sprintf("%s %v -> unset", tt.n, tt.a)})
		} else if tt.a.IsZero() != tt.b.IsZero() || (!tt.a.IsZero() && tt.a.Unix() != tt.b.Unix()) {
			bad(tt.n, "%v -> %v", tt.a, tt.b)
		}
	}
	// naming and licensing strings
	for _, ss := range []struct{ n, a, b string }{
		{"FamilyName", f.FamilyName, f1.FamilyName},
		{"Description", f.Description, f1.Description},
		{"SampleText", f.SampleText, f1.SampleText},
		{"Copyright", f.Copyright, f1.Copyright},
		{"Trademark", f.Trademark, f1.Trademark},
		{"License", f.License, f1.License},
		{"LicenseURL", f.LicenseURL, f1.LicenseURL},
	} {
		if validString(ss.a) && ss.a != ss.b {
			bad(ss.n, "%q -> %q", clip(ss.a, 80), clip(ss.b, 80))
		}
	}
	// italic angle to 2^-16, underline to one design unit
	if a := f.ItalicAngle; !math.IsNaN(a) && math.Abs(a) < 32767 {
		if math.Abs(f1.ItalicAngle-a) > 1.0/65536/2+1e-12 {
			bad("ItalicAngle", "%v -> %v", a, f1.ItalicAngle)
		}
	}
	for _, uu := range []struct {
		n    string
		a, b float64
	}{{"UnderlinePosition", float64(f.UnderlinePosition), float64(f1.UnderlinePosition)},
		{"UnderlineThickness", float64(f.UnderlineThickness), float64(f1.UnderlineThickness)}} {
		if !math.IsNaN(uu.a) && math.Abs(uu.a) <= 32767 && math.Abs(uu.a-uu.b) > 0.5 {
			bad(uu.n, "%v -> %v", uu.a, uu.b)
		}
	}
	return fails
}

// nonEmptyTables: a pass-through table of length 0 is "absent" to the library
// (header.Info.Has); the normal form of a font has no such entries.
func nonEmptyTables(m map[string][]byte) map[string][]byte {
	out := map[string][]byte{}
	for k, b := range m {
		if len(b) > 0 {
			out[k] = b
		}
	}
	return out
}

// cffOnGrid reports whether all arguments of the glyph program are integers
// (the part of CFF coordinates that has an exact charstring encoding without
// relying on 16.16 rounding).
func cffOnGrid(g *cff.Glyph) bool {
	for _, c := range g.Cmds {
		for _, a := range c.Args {
			if a != math.Trunc(a) || math.Abs(a) > 30000 {
				return false
			}
		}
	}
	return true
}
