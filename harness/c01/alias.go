package c01

// alias.go: font values in the memory layout real callers can have, and the
// "Write does not touch its argument" observations.
//
// A font value holds byte slices that belong to the caller: the pass-through
// tables of glyf.Outlines.Tables ("cvt ", "fpgm", "prep", "gasp"), the encoded
// glyph bodies, component data and instructions of TrueType glyphs, the raw
// cmap subtables.  A caller who cut these out of one larger buffer hands the
// library ADJACENT sub-slices of one array: each slice has spare capacity, and
// the memory directly behind it is live (the next table, or bytes the caller
// still uses).  Generated fonts used to own every slice (cap == len), so code
// that appends to, or writes behind, a slice of its argument was invisible.
//
//   deepCopyFont   a copy that shares no slice / map / pointer target
//   rehome         moves every byte slice reachable from the font into one
//                  arena: adjacent sub-slices (2-index slicing, so the capacity
//                  of each reaches to the end of the arena), non-zero sentinel
//                  bytes in front, behind and in some of the gaps
//   watch / check  snapshot of ALL memory reachable through the font's byte
//                  slices up to their capacity (unused spare capacity is first
//                  filled with non-zero sentinels) and of the value itself;
//                  after Write both must be unchanged

import (
	"fmt"
	"reflect"
	"sort"
	"strings"
	"unsafe"

	"seehuhn.de/go/sfnt"
	v "seehuhn.de/go/sfnt/verifharness/vlib"
)

// ---------------------------------------------------------------- deep copy

func deepCopyFont(f *sfnt.Font) *sfnt.Font {
	seen := map[unsafe.Pointer]reflect.Value{}
	return copyValue(reflect.ValueOf(f), seen).Interface().(*sfnt.Font)
}

func scalarKind(k reflect.Kind) bool {
	switch k {
	case reflect.Bool, reflect.Int, reflect.Int8, reflect.Int16, reflect.Int32, reflect.Int64,
		reflect.Uint, reflect.Uint8, reflect.Uint16, reflect.Uint32, reflect.Uint64, reflect.Uintptr,
		reflect.Float32, reflect.Float64, reflect.String, reflect.Complex64, reflect.Complex128:
		return true
	}
	return false
}

// copyValue: pointers, slices, maps and interface contents are duplicated
// (nil stays nil, empty stays empty, pointer sharing inside the value is
// preserved); functions, channels and unexported struct fields are shared.
func copyValue(x reflect.Value, seen map[unsafe.Pointer]reflect.Value) reflect.Value {
	switch x.Kind() {
	case reflect.Ptr:
		if x.IsNil() {
			return x
		}
		if c, ok := seen[x.UnsafePointer()]; ok && c.Type() == x.Type() {
			return c
		}
		c := reflect.New(x.Type().Elem())
		seen[x.UnsafePointer()] = c
		c.Elem().Set(copyValue(x.Elem(), seen))
		return c
	case reflect.Interface:
		if x.IsNil() {
			return x
		}
		c := reflect.New(x.Type()).Elem()
		c.Set(copyValue(x.Elem(), seen))
		return c
	case reflect.Slice:
		if x.IsNil() {
			return x
		}
		c := reflect.MakeSlice(x.Type(), x.Len(), x.Len())
		if scalarKind(x.Type().Elem().Kind()) {
			reflect.Copy(c, x)
		} else {
			for i := 0; i < x.Len(); i++ {
				c.Index(i).Set(copyValue(x.Index(i), seen))
			}
		}
		return c
	case reflect.Array:
		c := reflect.New(x.Type()).Elem()
		c.Set(x)
		if !scalarKind(x.Type().Elem().Kind()) {
			for i := 0; i < x.Len(); i++ {
				c.Index(i).Set(copyValue(x.Index(i), seen))
			}
		}
		return c
	case reflect.Map:
		if x.IsNil() {
			return x
		}
		c := reflect.MakeMapWithSize(x.Type(), x.Len())
		it := x.MapRange()
		for it.Next() {
			c.SetMapIndex(it.Key(), copyValue(it.Value(), seen))
		}
		return c
	case reflect.Struct:
		c := reflect.New(x.Type()).Elem()
		c.Set(x) // unexported state (time.Time, language.Tag) by value
		t := x.Type()
		for i := 0; i < t.NumField(); i++ {
			if t.Field(i).IsExported() && !scalarKind(t.Field(i).Type.Kind()) {
				c.Field(i).Set(copyValue(x.Field(i), seen))
			}
		}
		return c
	}
	return x
}

// ---------------------------------------------------------------- byte slots

// slot: one byte slice held by a font value, with a way to replace it.
type slot struct {
	path string
	get  func() []byte
	set  func([]byte)
}

var holdsBytesMemo = map[reflect.Type]bool{}

// mayHoldBytes: can a value of type t (transitively, through exported
// fields) hold a byte slice?  Interfaces can hold anything.
func mayHoldBytes(t reflect.Type) bool {
	if r, ok := holdsBytesMemo[t]; ok {
		return r
	}
	holdsBytesMemo[t] = true // recursive types: assume yes while deciding
	r := false
	switch t.Kind() {
	case reflect.Interface:
		r = true
	case reflect.Ptr, reflect.Array:
		r = mayHoldBytes(t.Elem())
	case reflect.Slice:
		r = t.Elem().Kind() == reflect.Uint8 || mayHoldBytes(t.Elem())
	case reflect.Map:
		r = mayHoldBytes(t.Elem())
	case reflect.Struct:
		for i := 0; i < t.NumField(); i++ {
			if t.Field(i).IsExported() && mayHoldBytes(t.Field(i).Type) {
				r = true
				break
			}
		}
	}
	holdsBytesMemo[t] = r
	return r
}

type slotWalker struct {
	seen  map[unsafe.Pointer]bool
	slots []slot
}

// walk visits x (which must be settable, or a pointer / map whose target can
// be changed through it).  after() is called whenever something stored
// *inside x by value* was replaced, so that a copy held in a map or an
// interface is written back.
func (w *slotWalker) walk(x reflect.Value, path string, after func()) {
	if !mayHoldBytes(x.Type()) {
		return
	}
	switch x.Kind() {
	case reflect.Ptr:
		if x.IsNil() || w.seen[x.UnsafePointer()] {
			return
		}
		w.seen[x.UnsafePointer()] = true
		w.walk(x.Elem(), path, func() {})
	case reflect.Interface:
		if x.IsNil() {
			return
		}
		e := x.Elem()
		tmp := reflect.New(e.Type()).Elem()
		tmp.Set(e)
		w.walk(tmp, path, func() { x.Set(tmp); after() })
	case reflect.Slice:
		if x.Type().Elem().Kind() == reflect.Uint8 {
			w.slots = append(w.slots, slot{
				path: path,
				get:  func() []byte { return x.Bytes() },
				set:  func(b []byte) { x.SetBytes(b); after() },
			})
			return
		}
		for i := 0; i < x.Len(); i++ {
			w.walk(x.Index(i), fmt.Sprintf("%s[%d]", path, i), func() {})
		}
	case reflect.Array:
		for i := 0; i < x.Len(); i++ {
			w.walk(x.Index(i), fmt.Sprintf("%s[%d]", path, i), after)
		}
	case reflect.Struct:
		t := x.Type()
		for i := 0; i < t.NumField(); i++ {
			if t.Field(i).IsExported() {
				w.walk(x.Field(i), path+"."+t.Field(i).Name, after)
			}
		}
	case reflect.Map:
		if x.IsNil() {
			return
		}
		keys := x.MapKeys()
		names := make([]string, len(keys))
		for i, k := range keys {
			names[i] = fmt.Sprint(k.Interface())
		}
		idx := make([]int, len(keys))
		for i := range idx {
			idx[i] = i
		}
		sort.Slice(idx, func(a, b int) bool { return names[idx[a]] < names[idx[b]] })
		for _, i := range idx {
			k := keys[i]
			tmp := reflect.New(x.Type().Elem()).Elem()
			tmp.Set(x.MapIndex(k))
			w.walk(tmp, path+"["+names[i]+"]", func() { x.SetMapIndex(k, tmp); after() })
		}
	}
}

// byteSlots lists every byte slice reachable from the font through exported
// fields, in a fixed order (maps by printed key).
func byteSlots(f *sfnt.Font) []slot {
	w := &slotWalker{seen: map[unsafe.Pointer]bool{}}
	w.walk(reflect.ValueOf(f), "F", func() {})
	return w.slots
}

// ---------------------------------------------------------------- arena

type arena struct {
	buf   []byte
	slots int // byte slices moved
	odd   int // of them with a length that is not a multiple of 4
}

func sentinel(i int) byte { return byte(0xA1 + i%83) } // never 0

// rehome moves every non-nil byte slice of f into one array.  The order of
// the slices is a permutation derived from seed; between two slices there are
// 0 (most often: strictly adjacent), 1 or 3 sentinel bytes; 5 sentinels lead,
// 7 trail.  f must own its slices (deepCopyFont).
func rehome(f *sfnt.Font, seed uint64) *arena {
	r := v.NewRand(seed).Fork("arena")
	all := byteSlots(f)
	var slots []slot
	for _, s := range all {
		if s.get() != nil {
			slots = append(slots, s)
		}
	}
	for i := len(slots) - 1; i > 0; i-- {
		j := r.Intn(i + 1)
		slots[i], slots[j] = slots[j], slots[i]
	}
	// the pass-through tables first among themselves in some cases, so that
	// two of them are neighbours even in a font with thousands of glyph bodies
	if r.Chance(2, 3) {
		sort.SliceStable(slots, func(i, j int) bool {
			return strings.Contains(slots[i].path, ".Tables[") && !strings.Contains(slots[j].path, ".Tables[")
		})
	}
	gaps := make([]int, len(slots))
	total := 5
	for i, s := range slots {
		gaps[i] = v.Pick(r, []int{0, 0, 0, 1, 3})
		total += len(s.get()) + gaps[i]
	}
	total += 7
	a := &arena{buf: make([]byte, total)}
	off := 0
	for ; off < 5; off++ {
		a.buf[off] = sentinel(off)
	}
	for i, s := range slots {
		b := s.get()
		n := copy(a.buf[off:], b)
		s.set(a.buf[off : off+n]) // capacity reaches to the end of the arena
		off += n
		for k := 0; k < gaps[i]; k++ {
			a.buf[off] = sentinel(off)
			off++
		}
		a.slots++
		if n%4 != 0 {
			a.odd++
		}
	}
	for ; off < total; off++ {
		a.buf[off] = sentinel(off)
	}
	return a
}

// ---------------------------------------------------------------- memory snapshot

type memSnap struct {
	views  [][]byte // maximal regions: slice[:cap], containment removed
	copies [][]byte
}

func base(b []byte) uintptr { return uintptr(unsafe.Pointer(unsafe.SliceData(b))) }

// snapshotMemory records all memory reachable through the byte slices of f up
// to their capacity (plus the extra regions given).  Bytes of a region that
// lie in no slice's [0:len) are the caller's spare memory: they are first
// filled with non-zero sentinels so that a stray write of zeros shows.
func snapshotMemory(f *sfnt.Font, extra ...[]byte) *memSnap {
	slots := byteSlots(f)
	var full [][]byte
	var lens []([]byte)
	for _, s := range slots {
		b := s.get()
		if cap(b) == 0 {
			continue
		}
		full = append(full, b[:cap(b)])
		lens = append(lens, b)
	}
	for _, e := range extra {
		if cap(e) > 0 {
			full = append(full, e[:cap(e)])
		}
	}
	sort.Slice(full, func(i, j int) bool {
		if base(full[i]) != base(full[j]) {
			return base(full[i]) < base(full[j])
		}
		return len(full[i]) > len(full[j])
	})
	m := &memSnap{}
	var end uintptr
	for _, b := range full {
		if len(m.views) > 0 && base(b)+uintptr(len(b)) <= end {
			continue // contained in the previous region
		}
		m.views = append(m.views, b)
		if e := base(b) + uintptr(len(b)); e > end {
			end = e
		}
	}
	// coverage
	covered := make([][]bool, len(m.views))
	for i, vw := range m.views {
		covered[i] = make([]bool, len(vw))
	}
	find := func(b []byte) int {
		p := base(b)
		i := sort.Search(len(m.views), func(i int) bool { return base(m.views[i]) > p }) - 1
		for ; i >= 0; i-- {
			if base(m.views[i]) <= p && p+uintptr(len(b)) <= base(m.views[i])+uintptr(len(m.views[i])) {
				return i
			}
		}
		return -1
	}
	for _, b := range lens {
		if i := find(b); i >= 0 {
			o := int(base(b) - base(m.views[i]))
			for k := 0; k < len(b); k++ {
				covered[i][o+k] = true
			}
		}
	}
	for _, e := range extra {
		// sentinels of an arena stay as they are
		if i := find(e[:cap(e)]); i >= 0 {
			o := int(base(e) - base(m.views[i]))
			for k := 0; k < cap(e); k++ {
				covered[i][o+k] = true
			}
		}
	}
	for i, vw := range m.views {
		for k := range vw {
			if !covered[i][k] {
				vw[k] = 0xA5 ^ byte(k&0x3F)
			}
		}
	}
	for _, vw := range m.views {
		m.copies = append(m.copies, append([]byte(nil), vw...))
	}
	return m
}

func (m *memSnap) diff() string {
	for i, vw := range m.views {
		if string(vw) != string(m.copies[i]) {
			k := firstDiff(vw, m.copies[i])
			n := 0
			for j := range vw {
				if vw[j] != m.copies[i][j] {
					n++
				}
			}
			lo, hi := k-4, k+8
			if lo < 0 {
				lo = 0
			}
			if hi > len(vw) {
				hi = len(vw)
			}
			return fmt.Sprintf("region %d of %d (%d bytes): %d bytes changed, first at offset %d: % x, was % x",
				i, len(m.views), len(vw), n, k, vw[lo:hi], m.copies[i][lo:hi])
		}
	}
	return ""
}

// ---------------------------------------------------------------- the guard

// guard: a font value about to be handed to Write.
type guard struct {
	f    *sfnt.Font
	orig *sfnt.Font // deep copy taken before the call
	mem  *memSnap
}

func watch(f *sfnt.Font, extra ...[]byte) (g *guard) {
	defer func() {
		if e := recover(); e != nil {
			g = &guard{f: f}
		}
	}()
	g = &guard{f: f}
	g.mem = snapshotMemory(f, extra...)
	g.orig = deepCopyFont(f)
	return g
}

// check: Write must leave the font value, the bytes of its slices, and all
// memory behind them (spare capacity, neighbouring tables) as they were.
func (g *guard) check(who string) []*failure {
	if g == nil || g.orig == nil {
		return nil
	}
	var fails []*failure
	if d := deepDiff(g.f, g.orig); d != "" {
		fails = append(fails, &failure{"write-modifies-font-value:" + strings.Join(diffFields(g.f, g.orig), ","),
			who + ": " + clip(d, 400)})
	}
	if d := g.mem.diff(); d != "" {
		fails = append(fails, &failure{"write-modifies-memory-of-its-argument", who + ": " + d})
	}
	return fails
}

// reference returns the value the font had when the guard was set up.
func (g *guard) reference() *sfnt.Font {
	if g != nil && g.orig != nil {
		return g.orig
	}
	return g.f
}
