package c01

// project.go: projection of *sfnt.Font values and of the tables of a font
// file onto the records of the Coq model (C01/Model.v), printed in the syntax
// of ocaml/c01_driver.ml.  No merge or derivation logic lives here: a font is
// projected field by field, a file is projected table by table with the
// repository's public per-table decoders.

import (
	"bytes"
	"crypto/sha256"
	"errors"
	"fmt"
	"math"
	"sort"
	"strings"
	"time"

	"golang.org/x/text/language"

	"seehuhn.de/go/postscript/type1"
	"seehuhn.de/go/sfnt"
	"seehuhn.de/go/sfnt/cff"
	"seehuhn.de/go/sfnt/cmap"
	"seehuhn.de/go/sfnt/glyf"
	"seehuhn.de/go/sfnt/glyph"
	"seehuhn.de/go/sfnt/head"
	"seehuhn.de/go/sfnt/header"
	"seehuhn.de/go/sfnt/hmtx"
	"seehuhn.de/go/sfnt/kern"
	"seehuhn.de/go/sfnt/maxp"
	"seehuhn.de/go/sfnt/name"
	"seehuhn.de/go/sfnt/opentype/gdef"
	"seehuhn.de/go/sfnt/opentype/gtab"
	"seehuhn.de/go/sfnt/os2"
	"seehuhn.de/go/sfnt/post"
	v "seehuhn.de/go/sfnt/verifharness/vlib"
)

var errUnmodelled = errors.New("outside the model's domain")

func unmodelled(format string, args ...any) error {
	return fmt.Errorf("%w: %s", errUnmodelled, fmt.Sprintf(format, args...))
}

// hid is a 48-bit identity of a byte serialisation.
func hid(parts ...[]byte) v.Sx {
	h := sha256.New()
	for _, p := range parts {
		fmt.Fprintf(h, "%d:", len(p))
		h.Write(p)
	}
	s := h.Sum(nil)
	var x uint64
	for i := 0; i < 6; i++ {
		x = x<<8 | uint64(s[i])
	}
	return v.U64(x)
}

var none = v.Atom("-")

func str(s string) v.Sx { return v.Hex([]byte(s)) }

func zlist[T ~int16 | ~int | ~int64](xs []T) v.Sx {
	l := make(v.List, len(xs))
	for i, x := range xs {
		l[i] = v.I64(int64(x))
	}
	return l
}

// grid16 returns x*65536 when that is an integer of moderate size.
func grid16(x float64) (int64, bool) {
	y := x * 65536
	if math.IsNaN(y) || math.IsInf(y, 0) || y != math.Trunc(y) || math.Abs(y) >= 1<<46 {
		return 0, false
	}
	return int64(y), true
}

func timeSx(t time.Time) v.Sx {
	if t.IsZero() {
		return none
	}
	return v.I64(t.Unix())
}

func safely(f func()) (err error) {
	defer func() {
		if e := recover(); e != nil {
			err = unmodelled("panic in a table codec: %v", e)
		}
	}()
	f()
	return nil
}

func gtabID(info *gtab.Info) (v.Sx, error) {
	if info == nil {
		return none, nil
	}
	// The identity of a layout table does not distinguish a nil list from an
	// empty one (the Go value does, the file does not when all lists are
	// empty: gtab.Read returns an empty script list and nil feature / lookup
	// lists for a header with zero offsets).  A nil list NEXT TO a non-empty
	// one keeps its own identity: there the codec loses data (finding
	// info-nil-list-lost of property C08), which must show.
	norm := *info
	if norm.ScriptList == nil {
		norm.ScriptList = gtab.ScriptListInfo{}
	}
	if norm.FeatureList == nil {
		norm.FeatureList = gtab.FeatureListInfo{}
	}
	if norm.LookupList == nil {
		norm.LookupList = gtab.LookupList{}
	}
	var b []byte
	if err := safely(func() { b = norm.Encode() }); err != nil {
		return nil, err
	}
	return hid(b), nil
}

func gdefID(t *gdef.Table) (v.Sx, error) {
	if t == nil {
		return none, nil
	}
	var b []byte
	if err := safely(func() { b = t.Encode() }); err != nil {
		return nil, err
	}
	return hid(b), nil
}

func namesID(names []string) v.Sx {
	if names == nil {
		return none
	}
	parts := make([][]byte, len(names))
	for i, n := range names {
		parts[i] = []byte(n)
	}
	return hid(parts...)
}

func maxpID(m *maxp.TTFInfo) v.Sx {
	if m == nil {
		return none
	}
	return hid([]byte(fmt.Sprintf("%+v", *m)))
}

// outlSx projects outlines.  storedWidths: use the widths as stored with the
// glyph data (CFF) and none for glyf (file view); otherwise the widths of the
// Outlines value.
func outlSx(o sfnt.Outlines, fileView bool) (v.Sx, error) {
	switch o := o.(type) {
	case *cff.Outlines:
		n := len(o.Glyphs)
		heights := make([]int64, n)
		widths := make([]int64, n)
		var parts [][]byte
		cid := o.IsCIDKeyed()
		parts = append(parts, []byte(fmt.Sprintf("cff cid=%v private=%d", cid, len(o.Private))))
		for i, g := range o.Glyphs {
			if g == nil {
				return nil, unmodelled("nil CFF glyph")
			}
			if err := safely(func() { heights[i] = int64(g.Extent().URy) }); err != nil {
				return nil, err
			}
			if g.Width != math.Trunc(g.Width) || g.Width < -32768 || g.Width > 32767 {
				return nil, unmodelled("CFF advance width %v not an int16", g.Width)
			}
			widths[i] = int64(g.Width)
			var sb strings.Builder
			if !cid {
				sb.WriteString(g.Name)
			}
			sb.WriteByte(0)
			for _, c := range g.Cmds {
				fmt.Fprintf(&sb, "%d", c.Op)
				for _, a := range c.Args {
					if a != math.Trunc(a) || math.Abs(a) > 30000 {
						return nil, unmodelled("CFF coordinate %v off the integer grid", a)
					}
					fmt.Fprintf(&sb, " %d", int64(a))
				}
				sb.WriteByte(';')
			}
			fmt.Fprintf(&sb, "h%v v%v", g.HStem, g.VStem)
			parts = append(parts, []byte(sb.String()))
		}
		return v.L(v.Atom("ol"), v.Bool(true), hid(parts...), v.Int(n), zlist(heights), zlist(widths), none, none), nil
	case *glyf.Outlines:
		n := len(o.Glyphs)
		heights := make([]int64, n)
		for i, g := range o.Glyphs {
			if g != nil {
				heights[i] = int64(g.Rect16.URy)
			}
		}
		var enc *glyf.Encoded
		if err := safely(func() { enc = o.Glyphs.Encode() }); err != nil {
			return nil, err
		}
		parts := [][]byte{[]byte("glyf"), enc.GlyfData, enc.LocaData, []byte(fmt.Sprint(enc.LocaFormat))}
		keys := make([]string, 0, len(o.Tables))
		for k := range o.Tables {
			keys = append(keys, k)
		}
		sort.Strings(keys)
		for _, k := range keys {
			if len(o.Tables[k]) == 0 {
				// an empty table is the same as no table to this library
				// (header.Info.Has): it is written as a directory entry of
				// length 0 and not read back
				continue
			}
			parts = append(parts, []byte(k), o.Tables[k])
		}
		widths, names, mx := v.Sx(none), v.Sx(none), v.Sx(none)
		if !fileView && customNameCount(o.Names) > maxCustomNames {
			return nil, unmodelled("more custom glyph names than a format-2 post table can index")
		}
		if !fileView {
			if o.Widths != nil {
				widths = zlist(o.Widths)
			}
			names = namesID(o.Names)
			mx = maxpID(o.Maxp)
		}
		return v.L(v.Atom("ol"), v.Bool(false), hid(parts...), v.Int(n), zlist(heights), widths, names, mx), nil
	}
	return nil, unmodelled("outlines of type %T", o)
}

func cmapSx(t cmap.Table) (v.Sx, error) {
	if t == nil {
		return none, nil
	}
	type kv struct {
		k cmap.Key
		b []byte
	}
	var kvs []kv
	for k, b := range t {
		kvs = append(kvs, kv{k, b})
	}
	sort.Slice(kvs, func(i, j int) bool {
		a, b := kvs[i].k, kvs[j].k
		if a.PlatformID != b.PlatformID {
			return a.PlatformID < b.PlatformID
		}
		if a.EncodingID != b.EncodingID {
			return a.EncodingID < b.EncodingID
		}
		return a.Language < b.Language
	})
	var parts [][]byte
	for _, e := range kvs {
		parts = append(parts, []byte(fmt.Sprintf("%d/%d/%d", e.k.PlatformID, e.k.EncodingID, e.k.Language)), e.b)
	}
	id := hid(parts...)
	var best cmap.Subtable
	var h, x glyph.ID
	lig := v.Sx(none)
	err := safely(func() {
		best, _ = t.GetBest()
		if best != nil {
			h = best.Lookup('H')
			x = best.Lookup('x')
		}
	})
	if err != nil {
		return nil, err
	}
	if best != nil {
		var g *gtab.Info
		if err := safely(func() { g = sfnt.VerifC01StandardLigatures(best) }); err != nil {
			return nil, err
		}
		if lig, err = gtabID(g); err != nil {
			return nil, err
		}
	}
	return v.L(v.Atom("cm"), id, v.Bool(best != nil), v.Int(int(h)), v.Int(int(x)), lig), nil
}

// fontSx projects a font value onto the model's record.
func fontSx(f *sfnt.Font) (v.Sx, error) {
	angle, ok := grid16(f.ItalicAngle)
	if !ok || math.Abs(float64(angle)) >= 1<<31 {
		return nil, unmodelled("ItalicAngle %v off the 16.16 grid", f.ItalicAngle)
	}
	upos, ok1 := grid16(float64(f.UnderlinePosition))
	uthick, ok2 := grid16(float64(f.UnderlineThickness))
	if !ok1 || !ok2 || math.Abs(float64(f.UnderlinePosition)) > 32767 || math.Abs(float64(f.UnderlineThickness)) > 32767 {
		return nil, unmodelled("underline metrics off the 16.16 grid or outside int16")
	}
	ol, err := outlSx(f.Outlines, false)
	if err != nil {
		return nil, err
	}
	cm, err := cmapSx(f.CMapTable)
	if err != nil {
		return nil, err
	}
	gd, err := gdefID(f.Gdef)
	if err != nil {
		return nil, err
	}
	gs, err := gtabID(f.Gsub)
	if err != nil {
		return nil, err
	}
	gp, err := gtabID(f.Gpos)
	if err != nil {
		return nil, err
	}
	return v.L(v.Atom("font"), str(f.FamilyName), v.Int(int(f.Width)), v.Int(int(f.Weight)),
		v.L(v.Bool(f.IsRegular), v.Bool(f.IsBold), v.Bool(f.IsItalic), v.Bool(f.IsOblique), v.Bool(f.IsSerif), v.Bool(f.IsScript)),
		v.U64(uint64(f.CodePageRange)), v.U64(uint64(f.Version)), timeSx(f.CreationTime), timeSx(f.ModificationTime),
		str(f.Description), str(f.SampleText), str(f.Copyright), str(f.Trademark), str(f.License), str(f.LicenseURL),
		v.Int(int(f.PermUse)), v.Int(int(f.UnitsPerEm)),
		v.Int(int(f.Ascent)), v.Int(int(f.Descent)), v.Int(int(f.LineGap)), v.Int(int(f.CapHeight)), v.Int(int(f.XHeight)),
		v.I64(angle), v.I64(upos), v.I64(uthick), ol, cm, gd, gs, gp), nil
}

// ---- files: table by table ----

type fileTables struct {
	dir      *header.Info
	cff      bool
	head     *head.Info
	hm       *hmtx.Info
	maxp     *maxp.Info
	os2      *os2.Info
	cmap     cmap.Table
	hasCmap  bool
	names    *name.Info
	post     *post.Info
	fontInfo *type1.FontInfo
	outlines sfnt.Outlines
	gdef     *gdef.Table
	gsub     *gtab.Info
	gpos     *gtab.Info
	hasKern  bool
	kern     kern.Info
}

// decodeTables reads every table sfnt.Read consults with the repository's
// public per-table decoder.  An error means that some decoder rejects its
// table (or the container is not a font at all).
func decodeTables(data []byte) (ft *fileTables, err error) {
	defer func() {
		if e := recover(); e != nil {
			ft, err = nil, fmt.Errorf("panic in a table decoder: %v", e)
		}
	}()
	rr := bytes.NewReader(data)
	dir, err := header.Read(rr)
	if err != nil {
		return nil, err
	}
	ft = &fileTables{dir: dir}
	switch dir.ScalerType {
	case header.ScalerTypeCFF:
		ft.cff = true
	case header.ScalerTypeTrueType, header.ScalerTypeApple:
	default:
		return nil, errors.New("unknown scaler type")
	}
	if ft.cff && !dir.Has("CFF ") || !ft.cff && !dir.Has("glyf", "loca") {
		return nil, errors.New("glyph data does not match the scaler type")
	}
	if dir.Has("head") {
		fd, err := dir.TableReader(rr, "head")
		if err != nil {
			return nil, err
		}
		if ft.head, err = head.Read(fd); err != nil {
			return nil, err
		}
	}
	var hheaData, hmtxData []byte
	if dir.Has("hhea") {
		if hheaData, err = dir.ReadTableBytes(rr, "hhea"); err != nil {
			return nil, err
		}
	}
	if dir.Has("hmtx") {
		if hmtxData, err = dir.ReadTableBytes(rr, "hmtx"); err != nil {
			return nil, err
		}
	}
	if hheaData != nil {
		if ft.hm, err = hmtx.Decode(hheaData, hmtxData); err != nil {
			return nil, err
		}
	}
	if dir.Has("maxp") {
		fd, err := dir.TableReader(rr, "maxp")
		if err != nil {
			return nil, err
		}
		if ft.maxp, err = maxp.Read(fd); err != nil {
			return nil, err
		}
	}
	if dir.Has("OS/2") {
		fd, err := dir.TableReader(rr, "OS/2")
		if err != nil {
			return nil, err
		}
		if ft.os2, err = os2.Read(fd); err != nil {
			return nil, err
		}
	}
	if dir.Has("cmap") {
		b, err := dir.ReadTableBytes(rr, "cmap")
		if err != nil {
			return nil, err
		}
		if b != nil {
			if ft.cmap, err = cmap.Decode(b); err != nil {
				return nil, err
			}
			ft.hasCmap = true
		}
	}
	if dir.Has("name") {
		b, err := dir.ReadTableBytes(rr, "name")
		if err != nil {
			return nil, err
		}
		if b != nil {
			if ft.names, err = name.Decode(b); err != nil {
				return nil, err
			}
		}
	}
	if dir.Has("post") {
		fd, err := dir.TableReader(rr, "post")
		if err != nil {
			return nil, err
		}
		if ft.post, err = post.Read(fd); err != nil {
			return nil, err
		}
	}
	if ft.cff {
		fd, err := dir.TableReader(rr, "CFF ")
		if err != nil {
			return nil, err
		}
		c, err := cff.Read(fd)
		if err != nil {
			return nil, err
		}
		ft.fontInfo = c.FontInfo
		ft.outlines = c.Outlines
	} else {
		loca, err := dir.ReadTableBytes(rr, "loca")
		if err != nil {
			return nil, err
		}
		gl, err := dir.ReadTableBytes(rr, "glyf")
		if err != nil {
			return nil, err
		}
		var locaFormat int16
		if ft.head != nil {
			locaFormat = ft.head.LocaFormat
		}
		gg, err := glyf.Decode(&glyf.Encoded{GlyfData: gl, LocaData: loca, LocaFormat: locaFormat})
		if err != nil {
			return nil, err
		}
		tables := map[string][]byte{}
		for _, n := range []string{"cvt ", "fpgm", "prep", "gasp"} {
			if dir.Has(n) {
				b, err := dir.ReadTableBytes(rr, n)
				if err != nil {
					return nil, err
				}
				tables[n] = b
			}
		}
		ft.outlines = &glyf.Outlines{Glyphs: gg, Tables: tables}
	}
	if dir.Has("GDEF") {
		fd, err := dir.TableReader(rr, "GDEF")
		if err != nil {
			return nil, err
		}
		if ft.gdef, err = gdef.Read(fd); err != nil {
			return nil, err
		}
	}
	if dir.Has("GSUB") {
		fd, err := dir.TableReader(rr, "GSUB")
		if err != nil {
			return nil, err
		}
		if ft.gsub, err = gtab.Read(fd, gtab.TypeGsub); err != nil {
			return nil, err
		}
	}
	if dir.Has("GPOS") {
		fd, err := dir.TableReader(rr, "GPOS")
		if err != nil {
			return nil, err
		}
		if ft.gpos, err = gtab.Read(fd, gtab.TypeGpos); err != nil {
			return nil, err
		}
	}
	ft.hasKern = dir.Has("kern")
	if ft.hasKern && ft.gpos == nil {
		// Read consults the kern table only when there is no GPOS table
		fd, err := dir.TableReader(rr, "kern")
		if err != nil {
			return nil, err
		}
		if ft.kern, err = kern.Read(fd); err != nil {
			return nil, err
		}
	}
	return ft, nil
}

func confN(c language.Confidence) v.Sx { return v.Int(int(c)) }

// nameSx projects one name.Table.  ident is split into prefix and the
// timestamp whose date it ends with (mtime first, then ctime), if any.
func nameSx(t *name.Table, ctime, mtime *time.Time) v.Sx {
	if t == nil {
		return none
	}
	prefix, day := t.Identifier, v.Sx(none)
	for _, tm := range []*time.Time{mtime, ctime} {
		if tm == nil || tm.IsZero() {
			continue
		}
		d := tm.Format("2006-01-02")
		if strings.HasSuffix(t.Identifier, "; "+d) {
			prefix = strings.TrimSuffix(t.Identifier, d)
			day = v.I64(tm.Unix())
			break
		}
	}
	return v.L(v.Atom("name"), str(t.Family), str(t.Subfamily), str(t.Description), str(t.Copyright),
		str(t.Trademark), str(t.License), str(t.LicenseURL), str(prefix), day,
		str(t.FullName), str(t.Version), str(t.PostScriptName), str(t.SampleText))
}

// tablesSx projects the decoded tables.  obs=true prints the form used for
// observing a written file (the selected name table only, floats that live
// off every grid blanked); obs=false prints the model's input for "merge".
func (ft *fileTables) tablesSx(obs bool, ctime, mtime *time.Time) (v.Sx, error) {
	blank := v.Atom("_")
	hd := v.Sx(none)
	if ft.head != nil {
		h := ft.head
		hd = v.L(v.Atom("head"), v.U64(uint64(h.FontRevision)), v.Int(int(h.UnitsPerEm)), timeSx(h.Created), timeSx(h.Modified), v.Bool(h.IsBold), v.Bool(h.IsItalic))
	}
	hm := v.Sx(none)
	if ft.hm != nil {
		x := ft.hm
		angle := v.Sx(blank)
		if !obs {
			a := math.Round(x.CaretAngle * 180 / math.Pi * 65536)
			if math.IsNaN(a) || math.Abs(a) >= 1<<31 {
				return nil, unmodelled("caret angle")
			}
			angle = v.I64(int64(a))
		}
		ws := v.Sx(none)
		if x.Widths != nil {
			ws = zlist(x.Widths)
		}
		hm = v.L(v.Atom("hmtx"), v.Int(int(x.Ascent)), v.Int(int(x.Descent)), v.Int(int(x.LineGap)), angle, ws)
	}
	mx := v.Sx(none)
	if ft.maxp != nil {
		mx = v.L(v.Int(ft.maxp.NumGlyphs), maxpID(ft.maxp.TTF))
	}
	o2 := v.Sx(none)
	if ft.os2 != nil {
		o := ft.os2
		o2 = v.L(v.Atom("os2"), v.Int(int(o.WeightClass)), v.Int(int(o.WidthClass)), v.Bool(o.IsBold), v.Bool(o.IsItalic), v.Bool(o.IsRegular), v.Bool(o.IsOblique),
			v.Int(int(o.Ascent)), v.Int(int(o.Descent)), v.Int(int(o.LineGap)), v.Int(int(o.CapHeight)), v.Int(int(o.XHeight)),
			v.Int(int(o.FamilyClass)), v.U64(uint64(o.CodePageRange)), v.Int(int(o.PermUse)))
	}
	cm := v.Sx(none)
	if ft.hasCmap {
		var err error
		if cm, err = cmapSx(ft.cmap); err != nil {
			return nil, err
		}
	}
	nm := v.Sx(none)
	if ft.names != nil {
		var winTab, macTab *name.Table
		var winConf, macConf language.Confidence
		if err := safely(func() {
			winTab, winConf = ft.names.Windows.Choose(language.AmericanEnglish)
			macTab, macConf = ft.names.Mac.Choose(language.AmericanEnglish)
		}); err != nil {
			return nil, err
		}
		if obs {
			// the table Read selects (read.go:171-176), restated
			sel := winTab
			if winConf < language.High && macConf > winConf || sel == nil {
				sel = macTab
			}
			nm = nameSx(sel, ctime, mtime)
		} else {
			nm = v.L(v.Atom("names"), nameSx(winTab, nil, nil), confN(winConf), nameSx(macTab, nil, nil), confN(macConf))
		}
	}
	po := v.Sx(none)
	if ft.post != nil {
		p := ft.post
		a, ok := grid16(p.ItalicAngle)
		if !ok {
			return nil, unmodelled("post angle")
		}
		po = v.L(v.Atom("post"), v.I64(a), v.Int(int(p.UnderlinePosition)), v.Int(int(p.UnderlineThickness)), v.Bool(p.IsFixedPitch), namesID(p.Names))
	}
	ci := v.Sx(none)
	if ft.fontInfo != nil {
		c := ft.fontInfo
		angle, upos, uthick, fmz, upm := v.Sx(blank), v.Sx(blank), v.Sx(blank), v.Sx(blank), v.Sx(blank)
		if !obs {
			a := math.Round(c.ItalicAngle * 65536)
			if math.IsNaN(a) || math.Abs(a) >= 1<<31 {
				return nil, unmodelled("CFF italic angle")
			}
			angle = v.I64(int64(a))
			up, ok1 := grid16(float64(c.UnderlinePosition))
			ut, ok2 := grid16(float64(c.UnderlineThickness))
			if (!ok1 || !ok2) && ft.post == nil {
				return nil, unmodelled("CFF underline metrics off the grid")
			}
			upos, uthick = v.I64(up), v.I64(ut)
			fmz = v.Bool(c.FontMatrix[0] == 0)
			u := 0
			if c.FontMatrix[0] != 0 {
				u = int(uint16(math.Round(1 / c.FontMatrix[0])))
			}
			upm = v.Int(u)
		}
		ci = v.L(v.Atom("cffinfo"), str(c.FontName), str(c.FullName), str(c.FamilyName), str(c.Weight), str(c.Version),
			str(c.Copyright), str(c.Notice), angle, upos, uthick, v.Bool(c.IsFixedPitch), fmz, upm)
	}
	ol, err := outlSx(ft.outlines, true)
	if err != nil {
		return nil, err
	}
	gd, err := gdefID(ft.gdef)
	if err != nil {
		return nil, err
	}
	gs, err := gtabID(ft.gsub)
	if err != nil {
		return nil, err
	}
	gp, err := gtabID(ft.gpos)
	if err != nil {
		return nil, err
	}
	kn := v.Sx(none)
	if ft.kern != nil {
		if kn, err = gtabID(kernGpos(ft.kern)); err != nil {
			return nil, err
		}
	}
	return v.L(v.Atom("tables"), v.Bool(ft.cff), hd, hm, mx, o2, cm, nm, po, ci, ol, gd, gs, gp, kn), nil
}

// kernGpos is the pair-adjustment table a kern table stands for: one "kern"
// feature for the default script with one lookup holding one XAdvance
// adjustment per pair (the model treats it as data; which of GPOS and kern
// wins is the model's business).
func kernGpos(k kern.Info) *gtab.Info {
	sub := gtab.Gpos2_1{}
	for pair, val := range k {
		sub[pair] = &gtab.PairAdjust{First: &gtab.GposValueRecord{XAdvance: val}}
	}
	return &gtab.Info{
		ScriptList: map[language.Tag]*gtab.Features{
			language.MustParse("und-Zzzz-x-dflt"): {Required: 0, Optional: []gtab.FeatureIndex{}},
		},
		FeatureList: []*gtab.Feature{{Tag: "kern", Lookups: []gtab.LookupIndex{0}}},
		LookupList: []*gtab.LookupTable{{
			Meta:      &gtab.LookupMetaInfo{LookupType: 2},
			Subtables: []gtab.Subtable{sub},
		}},
	}
}
