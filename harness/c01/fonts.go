package c01

// fonts.go: font values for clause (a).  A font is described by a template
// (which glyph data, character map and layout tables) and a complete
// assignment of the scalar and string fields; both are part of the case line
// so that a case can be rebuilt exactly.

import (
	"bytes"
	"fmt"
	"math"
	"sort"
	"strconv"
	"strings"
	"sync"
	"time"

	"golang.org/x/image/font/gofont/gobold"
	"golang.org/x/image/font/gofont/gobolditalic"
	"golang.org/x/image/font/gofont/goitalic"
	"golang.org/x/image/font/gofont/gomedium"
	"golang.org/x/image/font/gofont/gomono"
	"golang.org/x/image/font/gofont/gomonobolditalic"
	"golang.org/x/image/font/gofont/goregular"
	"golang.org/x/image/font/gofont/gosmallcaps"
	"golang.org/x/text/language"

	"seehuhn.de/go/geom/matrix"
	"seehuhn.de/go/postscript/cid"
	"seehuhn.de/go/postscript/funit"
	"seehuhn.de/go/postscript/type1"

	"seehuhn.de/go/sfnt"
	"seehuhn.de/go/sfnt/cff"
	"seehuhn.de/go/sfnt/cmap"
	"seehuhn.de/go/sfnt/glyf"
	"seehuhn.de/go/sfnt/glyph"
	"seehuhn.de/go/sfnt/head"
	"seehuhn.de/go/sfnt/internal/debug"
	"seehuhn.de/go/sfnt/maxp"
	"seehuhn.de/go/sfnt/opentype/classdef"
	"seehuhn.de/go/sfnt/opentype/coverage"
	"seehuhn.de/go/sfnt/opentype/gdef"
	"seehuhn.de/go/sfnt/opentype/gtab"
	"seehuhn.de/go/sfnt/os2"
	v "seehuhn.de/go/sfnt/verifharness/vlib"
)

var goFonts = map[string][]byte{
	"Go-Regular":          goregular.TTF,
	"Go-Bold":             gobold.TTF,
	"Go-Bold-Italic":      gobolditalic.TTF,
	"Go-Italic":           goitalic.TTF,
	"Go-Medium":           gomedium.TTF,
	"Go-Mono":             gomono.TTF,
	"Go-Mono-Bold-Italic": gomonobolditalic.TTF,
	"Go-Smallcaps":        gosmallcaps.TTF,
}
var goFontNames = []string{"Go-Regular", "Go-Bold", "Go-Bold-Italic", "Go-Italic", "Go-Medium", "Go-Mono", "Go-Mono-Bold-Italic", "Go-Smallcaps"}

// ---- templates ----

type tpl struct {
	Name   string // debug | cffmini | cffcid | glyfmini | go:<font>
	Seed   uint64
	CMap   string // own | nil | empty | f4 | f4lig | f12
	Layout string // subset of "sdp" (GSUB, GDEF, GPOS) or "-"
}

func (t tpl) sx() v.Sx {
	return v.L(v.Atom("tpl"), v.Atom(t.Name), v.U64(t.Seed), v.Atom(t.CMap), v.Atom(t.Layout))
}

func parseTpl(x v.Sx) (t tpl, err error) {
	l, err := v.AsList(x)
	if err != nil || len(l) != 5 {
		return t, fmt.Errorf("bad template")
	}
	if t.Name, err = v.AsAtom(l[1]); err != nil {
		return
	}
	s, err := v.AsAtom(l[2])
	if err != nil {
		return
	}
	if t.Seed, err = strconv.ParseUint(s, 10, 64); err != nil {
		return
	}
	if t.CMap, err = v.AsAtom(l[3]); err != nil {
		return
	}
	t.Layout, err = v.AsAtom(l[4])
	return
}

var (
	goOnce   sync.Once
	goParsed *sfnt.Font
)

func goRegular() *sfnt.Font {
	goOnce.Do(func() {
		f, err := sfnt.Read(bytes.NewReader(goregular.TTF))
		if err != nil {
			panic(err)
		}
		goParsed = f
	})
	return goParsed
}

func box(g *cff.Glyph, r *v.Rand, x0, y0 int) {
	w, h := r.Range(1, 900), r.Range(1, 1200)
	g.MoveTo(float64(x0), float64(y0))
	g.LineTo(float64(x0+w), float64(y0))
	if r.Chance(1, 3) {
		g.CurveTo(float64(x0+w+r.Range(0, 50)), float64(y0+h/3), float64(x0+w+r.Range(0, 50)), float64(y0+2*h/3), float64(x0+w), float64(y0+h))
	} else {
		g.LineTo(float64(x0+w), float64(y0+h))
	}
	g.LineTo(float64(x0), float64(y0+h))
}

// the characters the mini fonts may map
var miniChars = []rune{'H', 'x', 'f', 'i', 'l', 'A', 'B', ' ', 'é', 0x3A9, 0xFB00, 0xFB01, 0xFB02, 0xFB03, 0xFB04, 0x2126, 0xFFFF, 0x1F600, 0x10FFFF, 0x10000}

func miniWidths(r *v.Rand, n int) []int {
	ws := make([]int, n)
	switch r.Intn(5) {
	case 0: // fixed pitch
		w := r.Range(1, 2000)
		for i := range ws {
			ws[i] = w
			if r.Chance(1, 4) {
				ws[i] = 0
			}
		}
	case 1: // all zero
	default:
		for i := range ws {
			ws[i] = v.Pick(r, []int{0, 1, 250, 500, 600, 1000, 2048, 32767, r.Range(0, 3000)})
		}
	}
	return ws
}

func miniCFF(r *v.Rand, cidKeyed bool) *sfnt.Font {
	n := v.Pick(r, []int{1, 2, 3, 5, 8, 20, 40})
	ws := miniWidths(r, n)
	gg := make([]*cff.Glyph, n)
	stdNames := []string{".notdef", "space", "H", "x", "f", "i", "l", "A", "B", "eacute", "Omega", "ff", "fi", "fl", "ffi", "ffl"}
	for i := range gg {
		nm := fmt.Sprintf("g%d", i)
		if i < len(stdNames) {
			nm = stdNames[i]
		}
		if cidKeyed {
			nm = "" // CID-keyed fonts carry no glyph names
		}
		g := cff.NewGlyph(nm, float64(ws[i]))
		if i != 1 && !r.Chance(1, 6) {
			box(g, r, r.Range(-100, 100), r.Range(-300, 100))
			if r.Chance(1, 4) {
				box(g, r, r.Range(0, 300), r.Range(0, 300))
			}
		}
		gg[i] = g
	}
	o := &cff.Outlines{
		Glyphs: gg,
		Private: []*type1.PrivateDict{{
			BlueValues: []funit.Int16{-10, 0, 700, 710},
			BlueScale:  0.039625, BlueShift: 7, BlueFuzz: 1,
			StdHW: float64(r.Range(20, 100)), StdVW: float64(r.Range(20, 100)),
		}},
		FDSelect: func(glyph.ID) int { return 0 },
	}
	if cidKeyed {
		o.Private = append(o.Private, &type1.PrivateDict{
			BlueValues: []funit.Int16{-20, 0, 500, 520},
			BlueScale:  0.039625, BlueShift: 7, BlueFuzz: 1, StdHW: 50, StdVW: 60,
		})
		o.FDSelect = func(g glyph.ID) int { return int(g) % 2 }
		o.ROS = &cid.SystemInfo{Registry: "Adobe", Ordering: "Identity", Supplement: 0}
		o.GIDToCID = make([]cid.CID, n)
		step := r.Range(1, 3)
		for i := range o.GIDToCID {
			o.GIDToCID[i] = cid.CID(i * step)
		}
		o.FontMatrices = []matrix.Matrix{matrix.Identity, matrix.Identity}
	} else {
		o.Encoding = cff.StandardEncoding(gg)
	}
	return &sfnt.Font{Outlines: o}
}

func miniGlyf(r *v.Rand) *sfnt.Font {
	src := goRegular()
	so := src.Outlines.(*glyf.Outlines)
	best, _ := src.CMapTable.GetBest()
	want := []rune{'H', 'x', 'f', 'i', 'l', 'A', 'B', ' ', 'é', 0x3A9, 0xFB01, 0xFB02, 'Á', 'ü', 'ñ', 'Ç'}
	k := v.Pick(r, []int{0, 1, 3, 6, len(want)})
	var old []glyph.ID
	seen := map[glyph.ID]bool{0: true}
	old = append(old, 0)
	var add func(g glyph.ID)
	add = func(g glyph.ID) {
		if seen[g] || int(g) >= len(so.Glyphs) {
			return
		}
		seen[g] = true
		old = append(old, g)
		if gl := so.Glyphs[g]; gl != nil {
			for _, c := range gl.Components() {
				add(c)
			}
		}
	}
	perm := append([]rune(nil), want...)
	for i := len(perm) - 1; i > 0; i-- {
		j := r.Intn(i + 1)
		perm[i], perm[j] = perm[j], perm[i]
	}
	for _, c := range perm[:k] {
		add(best.Lookup(c))
	}
	for extra := r.Intn(4); extra > 0; extra-- {
		add(glyph.ID(r.Intn(len(so.Glyphs))))
	}
	newGid := map[glyph.ID]glyph.ID{}
	for i, g := range old {
		newGid[g] = glyph.ID(i)
	}
	o := &glyf.Outlines{Tables: map[string][]byte{}}
	for _, g := range old {
		gl := so.Glyphs[g]
		if gl != nil {
			gl = gl.FixComponents(newGid)
		}
		o.Glyphs = append(o.Glyphs, gl)
		o.Widths = append(o.Widths, so.Widths[g])
		if so.Names != nil {
			o.Names = append(o.Names, so.Names[g])
		}
	}
	// composite glyphs referring to the simple glyphs collected so far (the Go
	// fonts have none of their own)
	if nSimple := len(o.Glyphs); nSimple >= 2 {
		for k := r.Intn(4); k > 0; k-- {
			a, b := glyph.ID(r.Range(1, nSimple-1)), glyph.ID(r.Range(1, nSimple-1))
			cg := glyf.CompositeGlyph{Components: []glyf.GlyphComponent{
				{Flags: glyf.FlagArgsAreXYValues | glyf.FlagMoreComponents | glyf.FlagRoundXYToGrid, GlyphIndex: a,
					Data: []byte{byte(r.Range(0, 40)), byte(r.Range(0, 255))}},
				{Flags: glyf.FlagArg1And2AreWords | glyf.FlagArgsAreXYValues | glyf.FlagWeHaveAScale, GlyphIndex: b,
					Data: []byte{0x01, byte(r.Range(0, 255)), 0xFF, byte(r.Range(0, 255)), 0x30, 0x00}},
			}}
			if r.Chance(1, 2) {
				cg.Components[1].Flags |= glyf.FlagWeHaveInstructions
				cg.Instructions = []byte{0xB0, byte(r.Range(0, 255)), 0x2D}
			}
			if r.Chance(1, 3) {
				cg.Components[0].Flags |= glyf.FlagUseMyMetrics
			}
			o.Glyphs = append(o.Glyphs, &glyf.Glyph{
				Rect16: funit.Rect16{LLx: funit.Int16(r.Range(-50, 50)), LLy: funit.Int16(r.Range(-300, 0)), URx: funit.Int16(r.Range(400, 1500)), URy: funit.Int16(r.Range(500, 1900))},
				Data:   cg,
			})
			o.Widths = append(o.Widths, funit.Int16(r.Range(0, 2000)))
			if so.Names != nil {
				o.Names = append(o.Names, fmt.Sprintf("comp%d", k))
			}
		}
	}
	switch r.Intn(4) {
	case 0:
		o.Names = nil
	case 1: // names that are not in the standard Macintosh set
		for i := range o.Names {
			if i > 0 && r.Chance(1, 2) {
				o.Names[i] = fmt.Sprintf("glyph.%d", i)
			}
		}
	}
	tnames := make([]string, 0, len(so.Tables))
	for name := range so.Tables {
		tnames = append(tnames, name)
	}
	sort.Strings(tnames) // the same tables for the same seed (RunCase rebuilds the font)
	for _, name := range tnames {
		if r.Chance(2, 3) {
			o.Tables[name] = so.Tables[name]
		}
	}
	mx := *so.Maxp
	o.Maxp = &mx
	if r.Chance(1, 4) {
		ws := miniWidths(r, len(o.Widths))
		for i := range o.Widths {
			o.Widths[i] = funit.Int16(ws[i])
		}
	}
	f := &sfnt.Font{Outlines: o}
	// character map of the subset (so that "own" is meaningful)
	m := cmap.Format4{}
	for _, c := range want {
		if g, ok := newGid[best.Lookup(c)]; ok && g != 0 {
			m[uint16(c)] = g
		}
	}
	f.InstallCMap(m)
	return f
}

// sizedGlyph is a one-contour triangle whose record in the glyf table is
// exactly size bytes long (size even, >= 24); the length is adjusted through
// the instruction bytes.
func sizedGlyph(size int, r *v.Rand) *glyf.Glyph {
	k := size - 23 // 10 header + 2 endPts + 2 instruction length + 3 flags + 6 coordinates
	enc := []byte{0, 2, byte(k >> 8), byte(k)}
	for i := 0; i < k; i++ {
		enc = append(enc, 0x7A) // ROLL
	}
	enc = append(enc, 0x37, 0x37, 0x37)
	enc = append(enc, 10, byte(r.Range(100, 250)), 0)
	enc = append(enc, 10, 0, byte(r.Range(100, 250)))
	return &glyf.Glyph{
		Rect16: funit.Rect16{LLx: 10, LLy: 10, URx: 260, URy: 260},
		Data:   glyf.SimpleGlyph{NumContours: 1, Encoded: enc},
	}
}

// sizedGlyf: a TrueType font whose encoded glyf table is exactly glyfSize
// bytes long (the boundaries of the short loca format lie at 65535*1 and
// 65535*2 bytes).
func sizedGlyf(glyfSize int, r *v.Rand) *sfnt.Font {
	if glyfSize%2 != 0 || glyfSize < 4096 || glyfSize > 1<<20 {
		panic("unsupported glyf table size")
	}
	n := v.Pick(r, []int{8, 16, 33, 64})
	each := (glyfSize / n) &^ 1
	if each > 60000 {
		each = 60000
		n = glyfSize/each + 1
		each = (glyfSize / n) &^ 1
	}
	o := &glyf.Outlines{Tables: map[string][]byte{}, Maxp: &maxp.TTFInfo{MaxPoints: 3, MaxContours: 1, MaxZones: 2, MaxStackElements: 8, MaxSizeOfInstructions: 65535}}
	o.Glyphs = append(o.Glyphs, nil) // empty .notdef
	o.Widths = append(o.Widths, 500)
	rest := glyfSize
	for i := 0; i < n; i++ {
		size := each
		if i == n-1 {
			size = rest
		}
		rest -= size
		o.Glyphs = append(o.Glyphs, sizedGlyph(size, r))
		o.Widths = append(o.Widths, funit.Int16(300+i%7))
	}
	if enc := o.Glyphs.Encode(); len(enc.GlyfData) != glyfSize {
		panic(fmt.Sprintf("glyf table has %d bytes, wanted %d", len(enc.GlyfData), glyfSize))
	}
	return &sfnt.Font{Outlines: o}
}

// bigGlyf: a TrueType font at the upper end of the glyph-count range; most
// glyphs are empty, a few are copies of real outlines.
func bigGlyf(r *v.Rand) *sfnt.Font {
	n := v.Pick(r, []int{65535, 65535, 40000, 12000})
	src := goRegular().Outlines.(*glyf.Outlines)
	o := &glyf.Outlines{Tables: map[string][]byte{}, Glyphs: make(glyf.Glyphs, n), Widths: make([]funit.Int16, n)}
	mx := *src.Maxp
	o.Maxp = &mx
	for i := 0; i < n; i++ {
		if i%97 == 0 || i == n-1 {
			g := src.Glyphs[(i/97*7+36)%len(src.Glyphs)]
			if g != nil {
				if _, simple := g.Data.(glyf.SimpleGlyph); simple {
					o.Glyphs[i] = g
				}
			}
		}
		o.Widths[i] = funit.Int16(500 + i%7)
	}
	if r.Chance(1, 2) {
		o.Names = make([]string, n)
		for i := range o.Names {
			o.Names[i] = "g" + strconv.Itoa(i)
		}
		o.Names[0] = ".notdef"
	}
	return &sfnt.Font{Outlines: o}
}

// longNameGlyf: miniGlyf with glyph names, one of them 255 + (seed mod 4)
// bytes long (255: the longest a format-2 post table can hold; beyond it the
// recorded finding sigLongName).
func longNameGlyf(seed int, r *v.Rand) *sfnt.Font {
	f := miniGlyf(r)
	o := f.Outlines.(*glyf.Outlines)
	o.Names = make([]string, len(o.Glyphs))
	for i := range o.Names {
		o.Names[i] = "g" + strconv.Itoa(i)
	}
	o.Names[0] = ".notdef"
	if n := len(o.Names); n > 1 {
		at := 1 // followed by other names: the string data no longer parses
		if seed >= 4 {
			at = n - 1 // last: the name comes back cut to len mod 256 bytes
		}
		o.Names[at] = strings.Repeat("n", 255+((seed%4)+4)%4)
	}
	return f
}

// bigCFF: a CFF font with several thousand small glyphs.
func bigCFF(r *v.Rand) *sfnt.Font {
	n := v.Pick(r, []int{2000, 5000})
	gg := make([]*cff.Glyph, n)
	for i := range gg {
		g := cff.NewGlyph("g"+strconv.Itoa(i), float64(400+i%300))
		if i == 0 {
			g.Name = ".notdef"
		}
		if i%3 != 0 {
			x, y := float64(i%50), float64(i%70)
			g.MoveTo(x, y)
			g.LineTo(x+300, y)
			g.LineTo(x+300, y+float64(500+i%200))
			g.LineTo(x, y+float64(500+i%200))
		}
		gg[i] = g
	}
	o := &cff.Outlines{
		Glyphs:   gg,
		Private:  []*type1.PrivateDict{{BlueValues: []funit.Int16{-10, 0, 700, 710}, BlueScale: 0.039625, BlueShift: 7, BlueFuzz: 1, StdHW: 50, StdVW: 60}},
		FDSelect: func(glyph.ID) int { return 0 },
		Encoding: cff.StandardEncoding(gg),
	}
	return &sfnt.Font{Outlines: o}
}

func installCMap(f *sfnt.Font, kind string, r *v.Rand) {
	n := f.NumGlyphs()
	pickGid := func() glyph.ID {
		if n <= 1 {
			return 0
		}
		return glyph.ID(r.Range(1, n-1))
	}
	switch kind {
	case "own":
	case "nil":
		f.CMapTable = nil
	case "empty":
		f.CMapTable = cmap.Table{}
	case "f4", "f4lig":
		m := cmap.Format4{}
		for _, c := range miniChars {
			if c > 0xFFFF {
				continue
			}
			lig := c >= 0xFB00 && c <= 0xFB04 || c == 'f' || c == 'i' || c == 'l'
			if kind == "f4lig" && lig || r.Chance(1, 2) {
				if g := pickGid(); g != 0 {
					m[uint16(c)] = g
				}
			}
		}
		f.InstallCMap(m)
	case "multi":
		// several subtables, among them Macintosh ones that share platform and
		// encoding and differ only in the language field
		mk := func() cmap.Format4 {
			m := cmap.Format4{}
			for _, c := range miniChars {
				if c <= 0xFFFF && r.Chance(1, 2) {
					if g := pickGid(); g != 0 {
						m[uint16(c)] = g
					}
				}
			}
			m[uint16(0x40+r.Intn(20))] = pickGid()
			return m
		}
		uni := mk().Encode(0)
		t := cmap.Table{
			{PlatformID: 0, EncodingID: 3}: uni,
			{PlatformID: 3, EncodingID: 1}: uni,
		}
		langs := []uint16{0, 2, 5, 7, 12, 33}
		for k := r.Range(2, 5); k > 0; k-- {
			l := langs[r.Intn(len(langs))]
			t[cmap.Key{PlatformID: 1, EncodingID: 0, Language: l}] = mk().Encode(l)
		}
		if r.Chance(1, 3) {
			m12 := cmap.Format12{0x1F600: pickGid(), 0x41: pickGid()}
			t[cmap.Key{PlatformID: 3, EncodingID: 10}] = m12.Encode(0)
		}
		f.CMapTable = t
	case "f12":
		m := cmap.Format12{}
		for _, c := range miniChars {
			if c > 0xFFFF || r.Chance(1, 2) {
				if g := pickGid(); g != 0 {
					m[uint32(c)] = g
				}
			}
		}
		f.InstallCMap(m)
	}
}

func installLayout(f *sfnt.Font, layout string, r *v.Rand) {
	n := f.NumGlyphs()
	if n < 3 {
		return
	}
	gid := func() glyph.ID { return glyph.ID(r.Range(1, n-1)) }
	dflt := language.MustParse("und-Zzzz-x-dflt")
	oneSub := func() *gtab.LookupTable {
		return &gtab.LookupTable{Meta: &gtab.LookupMetaInfo{LookupType: 1}, Subtables: []gtab.Subtable{&gtab.Gsub1_1{Cov: coverage.Set{gid(): true}, Delta: glyph.ID(r.Range(1, 3))}}}
	}
	onePos := func() *gtab.LookupTable {
		return &gtab.LookupTable{Meta: &gtab.LookupMetaInfo{LookupType: 1}, Subtables: []gtab.Subtable{&gtab.Gpos1_1{Cov: coverage.Table{gid(): 0}, Adjust: &gtab.GposValueRecord{XAdvance: funit.Int16(r.Range(-50, 50))}}}}
	}
	for _, c := range layout {
		switch c {
		// ---- degenerate but representable layout tables: present, and (partly)
		// empty.  The three lists are non-nil wherever another list is not empty
		// (a nil list next to a non-empty one is the recorded finding
		// info-nil-list-lost of the GSUB/GPOS codec, property C08).
		case 'S': // GSUB: three empty lists
			f.Gsub = &gtab.Info{ScriptList: gtab.ScriptListInfo{}, FeatureList: gtab.FeatureListInfo{}, LookupList: gtab.LookupList{}}
		case 'N': // GSUB: what gtab.Read returns for a header-only table
			f.Gsub = &gtab.Info{ScriptList: gtab.ScriptListInfo{}}
		case 'Z': // GSUB: the zero Info
			f.Gsub = &gtab.Info{}
		case 'T': // GSUB: script and feature lists, no lookups
			f.Gsub = &gtab.Info{
				ScriptList:  gtab.ScriptListInfo{dflt: {Required: 0xFFFF, Optional: []gtab.FeatureIndex{0}}},
				FeatureList: gtab.FeatureListInfo{{Tag: "liga", Lookups: []gtab.LookupIndex{}}},
				LookupList:  gtab.LookupList{},
			}
		case 'F': // GSUB: features that refer to no lookup, next to a lookup
			f.Gsub = &gtab.Info{
				ScriptList:  gtab.ScriptListInfo{dflt: {Required: 0, Optional: []gtab.FeatureIndex{1}}},
				FeatureList: gtab.FeatureListInfo{{Tag: "ccmp", Lookups: []gtab.LookupIndex{}}, {Tag: "liga", Lookups: []gtab.LookupIndex{}}},
				LookupList:  gtab.LookupList{oneSub()},
			}
		case 'L': // GSUB: lookups, no features, no scripts
			f.Gsub = &gtab.Info{ScriptList: gtab.ScriptListInfo{}, FeatureList: gtab.FeatureListInfo{}, LookupList: gtab.LookupList{oneSub(), oneSub()}}
		case 'P': // GPOS: three empty lists
			f.Gpos = &gtab.Info{ScriptList: gtab.ScriptListInfo{}, FeatureList: gtab.FeatureListInfo{}, LookupList: gtab.LookupList{}}
		case 'M': // GPOS: what gtab.Read returns for a header-only table
			f.Gpos = &gtab.Info{ScriptList: gtab.ScriptListInfo{}}
		case 'Q': // GPOS: only a script list and a 'size' feature
			f.Gpos = &gtab.Info{
				ScriptList:  gtab.ScriptListInfo{dflt: {Required: 0xFFFF, Optional: []gtab.FeatureIndex{0}}},
				FeatureList: gtab.FeatureListInfo{{Tag: "size", Lookups: []gtab.LookupIndex{}}},
				LookupList:  gtab.LookupList{},
			}
		case 'R': // GPOS: lookups, no features
			f.Gpos = &gtab.Info{ScriptList: gtab.ScriptListInfo{}, FeatureList: gtab.FeatureListInfo{}, LookupList: gtab.LookupList{onePos()}}
		case 'K': // GPOS: a feature that refers to no lookup, next to a lookup
			f.Gpos = &gtab.Info{
				ScriptList:  gtab.ScriptListInfo{dflt: {Required: 0xFFFF, Optional: []gtab.FeatureIndex{0}}},
				FeatureList: gtab.FeatureListInfo{{Tag: "kern", Lookups: []gtab.LookupIndex{}}},
				LookupList:  gtab.LookupList{onePos()},
			}
		case 'D': // GDEF: nothing in it
			f.Gdef = &gdef.Table{}
		case 'E': // GDEF: empty class tables and no mark glyph sets
			f.Gdef = &gdef.Table{GlyphClass: classdef.Table{}, MarkAttachClass: classdef.Table{}, MarkGlyphSets: []coverage.Set{}}
		case 's':
			a, b := gid(), gid()
			cov := coverage.Table{a: 0}
			repl := [][]gtab.Ligature{{{In: []glyph.ID{b}, Out: gid()}, {In: nil, Out: gid()}}}
			f.Gsub = &gtab.Info{
				ScriptList: map[language.Tag]*gtab.Features{
					language.MustParse("und-Zzzz-x-dflt"): {Required: 0xFFFF, Optional: []gtab.FeatureIndex{0, 1}},
					language.MustParse("und-Latn-x-latn"): {Required: 1, Optional: []gtab.FeatureIndex{0}},
				},
				FeatureList: []*gtab.Feature{
					{Tag: "liga", Lookups: []gtab.LookupIndex{0}},
					{Tag: "ccmp", Lookups: []gtab.LookupIndex{1, 0}},
				},
				LookupList: []*gtab.LookupTable{
					{Meta: &gtab.LookupMetaInfo{LookupType: 4}, Subtables: []gtab.Subtable{&gtab.Gsub4_1{Cov: cov, Repl: repl}}},
					{Meta: &gtab.LookupMetaInfo{LookupType: 1, LookupFlags: gtab.IgnoreMarks}, Subtables: []gtab.Subtable{&gtab.Gsub1_1{Cov: coverage.Set{gid(): true, gid(): true}, Delta: glyph.ID(r.Range(1, 5))}}},
				},
			}
		case 'd':
			cls := classdef.Table{}
			for i := r.Range(1, 4); i > 0; i-- {
				cls[gid()] = uint16(r.Range(1, 4))
			}
			f.Gdef = &gdef.Table{GlyphClass: cls}
			if r.Chance(1, 2) {
				f.Gdef.MarkAttachClass = classdef.Table{gid(): 1, gid(): 2}
			}
			if r.Chance(1, 2) {
				f.Gdef.MarkGlyphSets = []coverage.Set{{gid(): true}, {gid(): true, gid(): true}}
			}
		case 'p':
			pairs := gtab.Gpos2_1{}
			for i := r.Range(1, 5); i > 0; i-- {
				pairs[glyph.Pair{Left: gid(), Right: gid()}] = &gtab.PairAdjust{First: &gtab.GposValueRecord{XAdvance: funit.Int16(r.Range(-200, 200))}}
			}
			f.Gpos = &gtab.Info{
				ScriptList: map[language.Tag]*gtab.Features{
					language.MustParse("und-Zzzz-x-dflt"): {Required: 0xFFFF, Optional: []gtab.FeatureIndex{0}},
				},
				FeatureList: []*gtab.Feature{{Tag: "kern", Lookups: []gtab.LookupIndex{0, 1}}},
				LookupList: []*gtab.LookupTable{
					{Meta: &gtab.LookupMetaInfo{LookupType: 2}, Subtables: []gtab.Subtable{pairs}},
					{Meta: &gtab.LookupMetaInfo{LookupType: 1}, Subtables: []gtab.Subtable{&gtab.Gpos1_1{Cov: coverage.Table{gid(): 0}, Adjust: &gtab.GposValueRecord{YPlacement: funit.Int16(r.Range(-50, 50))}}}},
				},
			}
		}
	}
}

// buildTemplate constructs the glyph data, character map and layout tables.
func buildTemplate(t tpl) (f *sfnt.Font, err error) {
	defer func() {
		if e := recover(); e != nil {
			f, err = nil, fmt.Errorf("template %v: %v", t, e)
		}
	}()
	r := v.NewRand(t.Seed)
	switch {
	case t.Name == "debug":
		f = debug.MakeSimpleFont()
	case t.Name == "cffmini":
		f = miniCFF(r.Fork("glyphs"), false)
	case t.Name == "cffcid":
		f = miniCFF(r.Fork("glyphs"), true)
	case t.Name == "glyfmini":
		f = miniGlyf(r.Fork("glyphs"))
	case t.Name == "glyfsize":
		f = sizedGlyf(int(t.Seed), r.Fork("glyphs"))
	case t.Name == "glyfbig":
		f = bigGlyf(r.Fork("glyphs"))
	case t.Name == "glyflong":
		f = longNameGlyf(int(t.Seed), r.Fork("glyphs"))
	case t.Name == "cffbig":
		f = bigCFF(r.Fork("glyphs"))
	case len(t.Name) > 3 && t.Name[:3] == "go:":
		b, ok := goFonts[t.Name[3:]]
		if !ok {
			return nil, fmt.Errorf("unknown font %q", t.Name)
		}
		if f, err = sfnt.Read(bytes.NewReader(b)); err != nil {
			return nil, err
		}
	default:
		return nil, fmt.Errorf("unknown template %q", t.Name)
	}
	installCMap(f, t.CMap, r.Fork("cmap"))
	if t.Layout != "-" {
		installLayout(f, t.Layout, r.Fork("layout"))
	}
	if o, ok := f.Outlines.(*glyf.Outlines); ok {
		passThroughTables(o, r.Fork("tables"))
	}
	return f, nil
}

// passThroughTables varies glyf.Outlines.Tables: the four tables sfnt.Read
// hands through are opaque to the library, so any byte string of any length
// is a legal value.  Lengths that are not multiples of 4 (the container pads
// those), the boundary lengths 0, 1, 3, 4, 5 and a table longer than a read
// buffer are all present; first and last bytes are non-zero so that a
// truncated or zero-padded table is visible.
func passThroughTables(o *glyf.Outlines, r *v.Rand) {
	if o.Tables == nil || r.Chance(1, 4) {
		return // as the template made them
	}
	for _, name := range []string{"cvt ", "fpgm", "prep", "gasp"} {
		switch r.Intn(5) {
		case 0: // keep
		case 1:
			delete(o.Tables, name)
		default:
			n := v.Pick(r, []int{1, 2, 3, 5, 6, 7, 9, 10, 11, 13, 4, 8, 0, 255, 1027})
			b := r.Bytes(n)
			for i := range b {
				if i < 4 || i >= n-4 {
					b[i] |= 0x81
				}
			}
			o.Tables[name] = b
		}
	}
}

// ---- scalar and string fields ----

type tspec struct {
	Sec  int64
	Nsec int
	Zone int // seconds east of UTC
}

type fields struct {
	Family                                              string
	Width, Weight                                       int
	Regular, Bold, Italic, Oblique, Serif, Script       bool
	CPR                                                 uint64
	Version                                             uint32
	CTime, MTime                                        *tspec
	Descr, Sample, Copyright, Trademark, License, LicURL string
	Perm, UPM                                           int
	Asc, Desc, Gap, Cap, XH                             int
	Angle, UPos, UThick                                 float64
	FM                                                  string // upm | id | odd
}

func fl(x float64) v.Sx { return v.Atom("f" + strconv.FormatFloat(x, 'g', -1, 64)) }
func parseFl(x v.Sx) (float64, error) {
	a, err := v.AsAtom(x)
	if err != nil || len(a) < 2 || a[0] != 'f' {
		return 0, fmt.Errorf("bad float")
	}
	return strconv.ParseFloat(a[1:], 64)
}

func (t *tspec) sx() v.Sx {
	if t == nil {
		return none
	}
	return v.L(v.I64(t.Sec), v.Int(t.Nsec), v.Int(t.Zone))
}
func parseT(x v.Sx) (*tspec, error) {
	if a, ok := x.(v.Atom); ok && a == "-" {
		return nil, nil
	}
	l, err := v.AsList(x)
	if err != nil || len(l) != 3 {
		return nil, fmt.Errorf("bad time")
	}
	s, err := v.AsI64(l[0])
	if err != nil {
		return nil, err
	}
	ns, err := v.AsInt(l[1])
	if err != nil {
		return nil, err
	}
	z, err := v.AsInt(l[2])
	if err != nil {
		return nil, err
	}
	return &tspec{s, ns, z}, nil
}
func (t *tspec) time() time.Time {
	if t == nil {
		return time.Time{}
	}
	return time.Unix(t.Sec, int64(t.Nsec)).In(time.FixedZone("", t.Zone))
}

func (s *fields) sx() v.Sx {
	return v.L(v.Atom("fields"), str(s.Family), v.Int(s.Width), v.Int(s.Weight),
		v.L(v.Bool(s.Regular), v.Bool(s.Bold), v.Bool(s.Italic), v.Bool(s.Oblique), v.Bool(s.Serif), v.Bool(s.Script)),
		v.U64(s.CPR), v.U64(uint64(s.Version)), s.CTime.sx(), s.MTime.sx(),
		str(s.Descr), str(s.Sample), str(s.Copyright), str(s.Trademark), str(s.License), str(s.LicURL),
		v.Int(s.Perm), v.Int(s.UPM), v.Int(s.Asc), v.Int(s.Desc), v.Int(s.Gap), v.Int(s.Cap), v.Int(s.XH),
		fl(s.Angle), fl(s.UPos), fl(s.UThick), v.Atom(s.FM))
}

func parseFields(x v.Sx) (*fields, error) {
	l, err := v.AsList(x)
	if err != nil || len(l) != 26 {
		return nil, fmt.Errorf("bad fields")
	}
	s := &fields{}
	getS := func(i int) string {
		b, e := v.AsBytes(l[i])
		if e != nil {
			err = e
		}
		return string(b)
	}
	getI := func(i int) int {
		n, e := v.AsInt(l[i])
		if e != nil {
			err = e
		}
		return n
	}
	getU := func(i int) uint64 {
		a, e := v.AsAtom(l[i])
		if e != nil {
			err = e
			return 0
		}
		n, e := strconv.ParseUint(a, 10, 64)
		if e != nil {
			err = e
		}
		return n
	}
	s.Family, s.Width, s.Weight = getS(1), getI(2), getI(3)
	fl6, e := v.AsList(l[4])
	if e != nil || len(fl6) != 6 {
		return nil, fmt.Errorf("bad flags")
	}
	var bb [6]bool
	for i := range bb {
		bb[i], _ = v.AsBool(fl6[i])
	}
	s.Regular, s.Bold, s.Italic, s.Oblique, s.Serif, s.Script = bb[0], bb[1], bb[2], bb[3], bb[4], bb[5]
	s.CPR, s.Version = getU(5), uint32(getU(6))
	if s.CTime, e = parseT(l[7]); e != nil {
		return nil, e
	}
	if s.MTime, e = parseT(l[8]); e != nil {
		return nil, e
	}
	s.Descr, s.Sample, s.Copyright, s.Trademark, s.License, s.LicURL = getS(9), getS(10), getS(11), getS(12), getS(13), getS(14)
	s.Perm, s.UPM, s.Asc, s.Desc, s.Gap, s.Cap, s.XH = getI(15), getI(16), getI(17), getI(18), getI(19), getI(20), getI(21)
	if s.Angle, e = parseFl(l[22]); e != nil {
		return nil, e
	}
	if s.UPos, e = parseFl(l[23]); e != nil {
		return nil, e
	}
	if s.UThick, e = parseFl(l[24]); e != nil {
		return nil, e
	}
	if s.FM, e = v.AsAtom(l[25]); e != nil {
		return nil, e
	}
	return s, err
}

func (s *fields) apply(f *sfnt.Font) {
	f.FamilyName = s.Family
	f.Width, f.Weight = os2.Width(s.Width), os2.Weight(s.Weight)
	f.IsRegular, f.IsBold, f.IsItalic, f.IsOblique, f.IsSerif, f.IsScript = s.Regular, s.Bold, s.Italic, s.Oblique, s.Serif, s.Script
	f.CodePageRange = os2.CodePageRange(s.CPR)
	f.Version = head.Version(s.Version)
	f.CreationTime, f.ModificationTime = s.CTime.time(), s.MTime.time()
	f.Description, f.SampleText = s.Descr, s.Sample
	f.Copyright, f.Trademark, f.License, f.LicenseURL = s.Copyright, s.Trademark, s.License, s.LicURL
	f.PermUse = os2.Permissions(s.Perm)
	f.UnitsPerEm = uint16(s.UPM)
	f.Ascent, f.Descent, f.LineGap = funit.Int16(s.Asc), funit.Int16(s.Desc), funit.Int16(s.Gap)
	f.CapHeight, f.XHeight = funit.Int16(s.Cap), funit.Int16(s.XH)
	f.ItalicAngle = s.Angle
	f.UnderlinePosition, f.UnderlineThickness = funit.Float64(s.UPos), funit.Float64(s.UThick)
	switch s.FM {
	case "id":
		f.FontMatrix = matrix.Matrix{0.001, 0, 0, 0.001, 0, 0}
	case "odd":
		f.FontMatrix = matrix.Matrix{0.0005, 0, 0.0001, 0.0005, 0, 0}
	default:
		q := 1 / float64(f.UnitsPerEm)
		if f.UnitsPerEm == 0 {
			q = 0.001
		}
		f.FontMatrix = matrix.Matrix{q, 0, 0, q, 0, 0}
	}
}

// fieldsOf reads the assignment back from a font value (used to start from a
// font that was read from a file).
func fieldsOf(f *sfnt.Font) *fields {
	ts := func(t time.Time) *tspec {
		if t.IsZero() {
			return nil
		}
		_, off := t.Zone()
		return &tspec{t.Unix(), t.Nanosecond(), off}
	}
	return &fields{
		Family: f.FamilyName, Width: int(f.Width), Weight: int(f.Weight),
		Regular: f.IsRegular, Bold: f.IsBold, Italic: f.IsItalic, Oblique: f.IsOblique, Serif: f.IsSerif, Script: f.IsScript,
		CPR: uint64(f.CodePageRange), Version: uint32(f.Version), CTime: ts(f.CreationTime), MTime: ts(f.ModificationTime),
		Descr: f.Description, Sample: f.SampleText, Copyright: f.Copyright, Trademark: f.Trademark, License: f.License, LicURL: f.LicenseURL,
		Perm: int(f.PermUse), UPM: int(f.UnitsPerEm), Asc: int(f.Ascent), Desc: int(f.Descent), Gap: int(f.LineGap), Cap: int(f.CapHeight), XH: int(f.XHeight),
		Angle: f.ItalicAngle, UPos: float64(f.UnderlinePosition), UThick: float64(f.UnderlineThickness), FM: "upm",
	}
}

var _ = math.Pi
