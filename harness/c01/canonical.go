package c01

// canonical.go: the part of the representable domain on which the property
// promises *exact* preservation (Read(Write(F)) deep-equal to F and a second
// write byte-identical).  The predicate is stated in terms of the meaning of
// the fields (OpenType OS/2 fsSelection rules, file-format precision), not in
// terms of the model's normalize function; the Coq theorem
// normalize_id_on_canonical proves that the model's normal form agrees.

import (
	"math"
	"strings"
	"time"

	"seehuhn.de/go/sfnt"
	"seehuhn.de/go/sfnt/cff"
	"seehuhn.de/go/sfnt/glyf"
	"seehuhn.de/go/sfnt/head"
	"seehuhn.de/go/sfnt/opentype/gtab"
)

// isCanonical returns "" when f must come back exactly, else the reason why
// only the normal form is promised.
func isCanonical(f *sfnt.Font) string {
	// style flags: fsSelection REGULAR excludes BOLD and ITALIC; a slanted
	// font is italic; an oblique font is italic
	if f.IsRegular && (f.IsBold || f.IsItalic) {
		return "IsRegular together with IsBold/IsItalic"
	}
	if (f.ItalicAngle != 0 || f.IsOblique) && !f.IsItalic {
		return "slanted or oblique but not IsItalic"
	}
	// the sub-family name spells the weight class: a font whose sub-family
	// says "Bold" is bold
	if f.Weight != 0 && f.Weight != 400 && f.Weight.Rounded() == 700 && !strings.Contains(f.FamilyName, "Bold") && !f.IsBold {
		return "weight class Bold but not IsBold"
	}
	if f.IsSerif && f.IsScript {
		return "IsSerif together with IsScript (one family class)"
	}
	// version: three decimals
	if v2, err := head.VersionFromString(f.Version.String()); err != nil || v2 != f.Version {
		return "version not a multiple of 0.001"
	}
	// timestamps: whole seconds, 0 in the file means unset
	for _, t := range []time.Time{f.CreationTime, f.ModificationTime} {
		if !t.IsZero() && (t.Nanosecond() != 0 || t.Unix() == -2082844800) {
			return "timestamp below file precision"
		}
	}
	if f.CreationTime.IsZero() && f.ModificationTime.IsZero() {
		return "no timestamp"
	}
	// the name-table identifier carries the calendar day of the timestamp in
	// the timestamp's own time zone; Read delivers times in the local zone
	for _, t := range []time.Time{f.ModificationTime, f.CreationTime} {
		if !t.IsZero() {
			if t.Format("2006-01-02") != t.Local().Format("2006-01-02") {
				return "calendar day of the timestamp depends on its time zone"
			}
			break
		}
	}
	if f.PermUse < 0 || f.PermUse > 3 {
		return "PermUse outside the four defined values"
	}
	if f.CapHeight <= 0 || f.XHeight <= 0 {
		return "cap/x-height not positive (Read substitutes glyph heights)"
	}
	if a := f.ItalicAngle * 65536; a != math.Trunc(a) || math.Abs(a) >= 1<<31 {
		return "italic angle off the 16.16 grid"
	}
	for _, u := range []float64{float64(f.UnderlinePosition), float64(f.UnderlineThickness)} {
		if u != math.Trunc(u) || math.Abs(u) > 32767 {
			return "underline metrics not int16"
		}
	}
	for _, s := range []string{f.FamilyName, f.Description, f.SampleText, f.Copyright, f.Trademark, f.License, f.LicenseURL} {
		if !validString(s) {
			return "string not valid UTF-8 or too long"
		}
	}
	if f.UnitsPerEm == 0 {
		return "UnitsPerEm 0"
	}
	q := 1 / float64(f.UnitsPerEm)
	switch o := f.Outlines.(type) {
	case *glyf.Outlines:
		if f.FontMatrix != [6]float64{q, 0, 0, q, 0, 0} {
			return "FontMatrix differs from 1/UnitsPerEm"
		}
		if len(o.Widths) != len(o.Glyphs) {
			return "glyf widths missing"
		}
		for k, b := range o.Tables {
			if k != "cvt " && k != "fpgm" && k != "prep" && k != "gasp" {
				return "extra raw table"
			}
			if len(b) == 0 {
				return "empty pass-through table (read back as absent)"
			}
		}
		if o.Tables == nil {
			return "nil Tables map"
		}
		if customNameCount(o.Names) > maxCustomNames {
			return "more non-standard glyph names than a format-2 post table can index"
		}
		if hasLongName(o.Names) {
			return "a glyph name longer than a format-2 post table can hold"
		}
	case *cff.Outlines:
		if f.FontMatrix != [6]float64{0.001, 0, 0, 0.001, 0, 0} || f.UnitsPerEm != 1000 {
			return "CFF font matrix other than 0.001"
		}
		for _, g := range o.Glyphs {
			if g.Width != math.Trunc(g.Width) || g.Width < -32768 || g.Width > 32767 || !cffOnGrid(g) {
				return "CFF widths/coordinates off the integer grid"
			}
		}
	}
	// Read synthesises a GSUB table with the standard ligatures when there
	// is none
	if f.Gsub == nil && !f.IsFixedPitch() {
		if best, _ := f.CMapTable.GetBest(); best != nil && sfnt.VerifC01StandardLigatures(best) != nil {
			return "no GSUB but ligature glyphs in the cmap"
		}
	}
	// a layout table is written with offset 0 for a nil list and with an
	// (empty) list for a non-nil one; gtab.Read returns a non-nil script list
	// in every case, so only such a value is reproduced byte for byte
	for _, g := range []*gtab.Info{f.Gsub, f.Gpos} {
		if g != nil && g.ScriptList == nil {
			return "layout table with a nil script list (read back as an empty one)"
		}
	}
	if f.CMapTable != nil && len(f.CMapTable) == 0 {
		return "empty cmap table"
	}
	return ""
}
