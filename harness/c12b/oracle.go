package c12b

// The property oracle: the definitions of the property text evaluated with
// math/big on the DESCRIPTION of the font, independent of the Coq model and of
// the loops of the library.

import (
	"fmt"
	"math"
	"math/big"

	"seehuhn.de/go/sfnt/cff"
)

type rpt struct{ x, y *big.Rat }

// endPoints: the end points of moveto / lineto / curveto, in order; ok = false
// when such a command lacks its arguments (the library panics on it).
func endPoints(cmds []cmdD) (pts []rpt, ok bool) {
	ok = true
	for _, c := range cmds {
		switch cff.GlyphOpType(c.op) {
		case cff.OpMoveTo, cff.OpLineTo:
			if len(c.args) < 2 {
				return nil, false
			}
			pts = append(pts, rpt{rat(c.args[0]), rat(c.args[1])})
		case cff.OpCurveTo:
			if len(c.args) < 6 {
				return nil, false
			}
			pts = append(pts, rpt{rat(c.args[4]), rat(c.args[5])})
		}
	}
	return pts, true
}

func ratFloor(r *big.Rat) *big.Int {
	q := new(big.Int)
	m := new(big.Int)
	q.DivMod(r.Num(), r.Denom(), m) // Euclidean: floor for a positive denominator
	return q
}

func ratCeil(r *big.Rat) *big.Int {
	f := ratFloor(r)
	if new(big.Rat).SetInt(f).Cmp(r) != 0 {
		f.Add(f, big.NewInt(1))
	}
	return f
}

func bboxOf(pts []rpt) (b [4]*big.Rat) {
	for i, p := range pts {
		if i == 0 || p.x.Cmp(b[0]) < 0 {
			b[0] = p.x
		}
		if i == 0 || p.y.Cmp(b[1]) < 0 {
			b[1] = p.y
		}
		if i == 0 || p.x.Cmp(b[2]) > 0 {
			b[2] = p.x
		}
		if i == 0 || p.y.Cmp(b[3]) > 0 {
			b[3] = p.y
		}
	}
	return b
}

func fitsI16(v *big.Int) bool {
	return v.IsInt64() && v.Int64() >= math.MinInt16 && v.Int64() <= math.MaxInt16
}

// extentDef: (floor min x, floor min y, ceil max x, ceil max y) of the end
// points; zero for a blank glyph; fits = every component is an Int16.
func extentDef(cmds []cmdD) (box [4]int, fits, wf bool) {
	pts, ok := endPoints(cmds)
	if !ok {
		return box, false, false
	}
	if len(pts) == 0 {
		return box, true, true
	}
	b := bboxOf(pts)
	vals := [4]*big.Int{ratFloor(b[0]), ratFloor(b[1]), ratCeil(b[2]), ratCeil(b[3])}
	fits = true
	for i, v := range vals {
		if !fitsI16(v) {
			fits = false
		} else {
			box[i] = int(v.Int64())
		}
	}
	return box, fits, true
}

func isZeroBox(b [4]int) bool { return b == [4]int{} }

func unionBoxes(boxes [][4]int) (u [4]int) {
	first := true
	for _, b := range boxes {
		if isZeroBox(b) {
			continue
		}
		if first {
			u, first = b, false
			continue
		}
		u[0] = min(u[0], b[0])
		u[1] = min(u[1], b[1])
		u[2] = max(u[2], b[2])
		u[3] = max(u[3], b[3])
	}
	return u
}

// ---- matrices in exact arithmetic ----

type rmat [6]*big.Rat

func rmatOf(m mat6) (r rmat) {
	for i, v := range m {
		r[i] = rat(v)
	}
	return r
}

func (m rmat) abs() (r rmat) {
	for i, v := range m {
		r[i] = new(big.Rat).Abs(v)
	}
	return r
}

func rmul(a, b *big.Rat) *big.Rat { return new(big.Rat).Mul(a, b) }
func radd(a, b *big.Rat) *big.Rat { return new(big.Rat).Add(a, b) }
func rsub(a, b *big.Rat) *big.Rat { return new(big.Rat).Sub(a, b) }

// apply: (x, y) -> (a x + c y + e, b x + d y + f)
func (m rmat) apply(p rpt) rpt {
	return rpt{radd(radd(rmul(m[0], p.x), rmul(m[2], p.y)), m[4]), radd(radd(rmul(m[1], p.x), rmul(m[3], p.y)), m[5])}
}

var rThousand = big.NewRat(1000, 1)

func scale1000(p rpt) rpt { return rpt{rmul(p.x, rThousand), rmul(p.y, rThousand)} }

// glyphChain: the matrices glyph space goes through, in order: the glyph's
// Font DICT matrix first (CID-keyed fonts), then the font matrix.
func (d *cffD) glyphChain(fm mat6, gid int) ([]rmat, bool) {
	if !d.cid {
		return []rmat{rmatOf(fm)}, true
	}
	if gid >= len(d.fdsel) || d.fdsel[gid] < 0 || d.fdsel[gid] >= len(d.fmats) {
		return nil, false
	}
	return []rmat{rmatOf(d.fmats[d.fdsel[gid]]), rmatOf(fm)}, true
}

// pdfBoxDef: the bounding box of the points mapped through the chain and
// x1000, and a magnitude bound (the same maps on absolute values) for the
// comparison tolerance.
func pdfBoxDef(pts []rpt, chain []rmat) (b [4]*big.Rat, mag *big.Rat) {
	mag = new(big.Rat)
	out := make([]rpt, len(pts))
	for i, p := range pts {
		q := p
		a := rpt{new(big.Rat).Abs(p.x), new(big.Rat).Abs(p.y)}
		for _, m := range chain {
			q = m.apply(q)
			a = m.abs().apply(a)
		}
		out[i] = scale1000(q)
		a = scale1000(a)
		if a.x.Cmp(mag) > 0 {
			mag = a.x
		}
		if a.y.Cmp(mag) > 0 {
			mag = a.y
		}
	}
	if len(out) == 0 {
		z := new(big.Rat)
		return [4]*big.Rat{z, z, z, z}, mag
	}
	return bboxOf(out), mag
}

var relTol = big.NewRat(1, 1e9)

// near: |got - want| <= 1e-9 * mag (mag >= |want|)
func near(got float64, want, mag *big.Rat) bool {
	if math.IsNaN(got) || math.IsInf(got, 0) {
		return false
	}
	d := rsub(rat(got), want)
	d.Abs(d)
	m := mag
	if a := new(big.Rat).Abs(want); a.Cmp(m) > 0 {
		m = a
	}
	return d.Cmp(rmul(m, relTol)) <= 0
}

func ratIsZeroBox(b [4]*big.Rat) bool {
	return b[0].Sign() == 0 && b[1].Sign() == 0 && b[2].Sign() == 0 && b[3].Sign() == 0
}

func unionRat(boxes [][4]*big.Rat) (u [4]*big.Rat, any bool) {
	for _, b := range boxes {
		if ratIsZeroBox(b) {
			continue
		}
		if !any {
			u, any = b, true
			continue
		}
		if b[0].Cmp(u[0]) < 0 {
			u[0] = b[0]
		}
		if b[1].Cmp(u[1]) < 0 {
			u[1] = b[1]
		}
		if b[2].Cmp(u[2]) > 0 {
			u[2] = b[2]
		}
		if b[3].Cmp(u[3]) > 0 {
			u[3] = b[3]
		}
	}
	if !any {
		z := new(big.Rat)
		u = [4]*big.Rat{z, z, z, z}
	}
	return u, any
}

func fmtBox(b [4]*big.Rat) string {
	return fmt.Sprintf("[%s %s %s %s]", b[0].FloatString(6), b[1].FloatString(6), b[2].FloatString(6), b[3].FloatString(6))
}

// product of the chain (for the width factor)
func chainProduct(chain []rmat) rmat {
	m := chain[0]
	for _, b := range chain[1:] {
		m = rmat{
			radd(rmul(m[0], b[0]), rmul(m[1], b[2])),
			radd(rmul(m[0], b[1]), rmul(m[1], b[3])),
			radd(rmul(m[2], b[0]), rmul(m[3], b[2])),
			radd(rmul(m[2], b[1]), rmul(m[3], b[3])),
			radd(radd(rmul(m[4], b[0]), rmul(m[5], b[2])), b[4]),
			radd(radd(rmul(m[4], b[1]), rmul(m[5], b[3])), b[5]),
		}
	}
	return m
}

var (
	qThreshold = big.NewRat(1, 1e6)
	thrLo      = rmul(qThreshold, big.NewRat(1e9-1, 1e9))
	thrHi      = rmul(qThreshold, big.NewRat(1e9+1, 1e9))
)

// qFactor: q = M[0] - M[1]*M[2]/M[3] if |M[3]| > 1e-6, else M[0].
// ambiguous = |M[3]| lies within 1e-9 of the threshold and the correction is
// not zero: which side the float64 comparison falls on is rounding (outside
// the property).  mag bounds the magnitude of the terms.
func qFactor(m, ma rmat) (q, mag *big.Rat, ambiguous bool) {
	d := new(big.Rat).Abs(m[3])
	shear := rmul(m[1], m[2])
	if d.Cmp(thrLo) >= 0 && d.Cmp(thrHi) <= 0 && shear.Sign() != 0 {
		ambiguous = true
	}
	if d.Cmp(qThreshold) > 0 {
		corr := new(big.Rat).Quo(shear, m[3])
		amp := radd(big.NewRat(1, 1), new(big.Rat).Quo(ma[3], d))
		return rsub(m[0], corr), radd(ma[0], rmul(new(big.Rat).Quo(rmul(ma[1], ma[2]), d), amp)), ambiguous
	}
	return m[0], ma[0], ambiguous
}

func shearFree(m rmat) bool {
	return rmul(m[1], m[2]).Sign() == 0 || new(big.Rat).Abs(m[3]).Cmp(thrLo) < 0
}

// fixedPitchDef: at least one glyph, and every non-zero width within 1/2 of
// the first non-zero width.
func fixedPitchDef(ws []*big.Rat) bool {
	if len(ws) == 0 {
		return false
	}
	var first *big.Rat
	half := big.NewRat(1, 2)
	for _, w := range ws {
		if w.Sign() == 0 {
			continue
		}
		if first == nil {
			first = w
			continue
		}
		if new(big.Rat).Abs(rsub(first, w)).Cmp(half) >= 0 {
			return false
		}
	}
	return true
}

// ---- the derived fields (OpenType definitions) ----

type derivedDef struct {
	n                               int
	bbox                            [4]int
	advMax, minLSB, minRSB, xMaxExt int
	numLong                         int
	avg, first, last, wAsc, wDesc   int
	fixed                           bool
	ws16, lsb                       []int
	inDomain                        bool
	why                             string
}

func truncToInt(w float64) (int, bool) {
	t := math.Trunc(w)
	if math.Abs(t) > 1e9 {
		return 0, false
	}
	return int(t), true
}

// derivedDefOf: boxes = the glyph boxes, ws = the advance widths (nil when the
// font has none), codes = the code points of the cmap (nil = no cmap).
func derivedDefOf(boxes [][4]int, ws []float64, hasWidths bool, codes []int) (d derivedDef) {
	d.n = len(boxes)
	d.inDomain = true
	d.bbox = unionBoxes(boxes)
	d.lsb = make([]int, len(boxes))
	firstBox := true
	for i, b := range boxes {
		d.lsb[i] = b[0]
		if isZeroBox(b) {
			continue
		}
		if b[0] > b[2] || b[1] > b[3] {
			d.inDomain, d.why = false, "improper box"
		}
		if firstBox || b[0] < d.minLSB {
			d.minLSB = b[0]
		}
		if firstBox || b[2] > d.xMaxExt {
			d.xMaxExt = b[2] // lsb + (xMax - xMin) with lsb = xMin
		}
		firstBox = false
	}
	if hasWidths {
		if len(ws) != len(boxes) {
			d.inDomain, d.why = false, "widths and glyphs differ in length"
			return d
		}
		firstBox = true
		sum, cnt := 0, 0
		for i, w := range ws {
			t, ok := truncToInt(w)
			if !ok || t < 0 || t > math.MaxInt16 {
				d.inDomain, d.why = false, "advance width outside 0..32767"
			}
			d.ws16 = append(d.ws16, t)
			if t > d.advMax {
				d.advMax = t
			}
			if w > 0 {
				sum += t
				cnt++
			}
			if !isZeroBox(boxes[i]) {
				rsb := t - boxes[i][2]
				if rsb < math.MinInt16 || rsb > math.MaxInt16 {
					d.inDomain, d.why = false, "right side bearing outside Int16"
				}
				if firstBox || rsb < d.minRSB {
					d.minRSB = rsb
				}
				firstBox = false
			}
		}
		if cnt > 0 {
			d.avg = (2*sum + cnt) / (2 * cnt) // nearest integer to sum/cnt, halves up
		}
		d.numLong = len(ws)
		for d.numLong > 1 && d.ws16[d.numLong-1] == d.ws16[d.numLong-2] {
			d.numLong--
		}
		if d.avg > math.MaxInt16 {
			d.inDomain, d.why = false, "average width outside Int16"
		}
	}
	if len(codes) > 0 {
		lo, hi := codes[0], codes[0]
		for _, c := range codes {
			lo, hi = min(lo, c), max(hi, c)
		}
		d.first, d.last = min(lo, 0xFFFF), min(hi, 0xFFFF)
	}
	d.wAsc, d.wDesc = d.bbox[3], -d.bbox[1]
	if d.wDesc > math.MaxInt16 {
		d.inDomain, d.why = false, "winDescent outside Int16"
	}
	rw := make([]*big.Rat, len(ws))
	for i, w := range ws {
		rw[i] = rat(w)
	}
	if hasWidths {
		d.fixed = fixedPitchDef(rw)
	} else {
		d.fixed = len(boxes) > 0
	}
	if d.n < 1 || d.n > 65535 {
		d.inDomain, d.why = false, "glyph count outside 1..65535"
	}
	return d
}
