package main

import (
	"seehuhn.de/go/sfnt/verifharness/c12b"
	"seehuhn.de/go/sfnt/verifharness/vlib"
)

func main() { vlib.Main(c12b.Gen, c12b.RunCase) }
