package c12b

import (
	"fmt"
	"math/big"

	"seehuhn.de/go/sfnt/cff"
	"seehuhn.de/go/sfnt/verifharness/vlib"
)

// matrices: identity, the usual scales, translations, shears in either
// off-diagonal entry and in both, anisotropic scales, rotations by 90 / 180 /
// 270 degrees, and matrices at / below the |M[3]| > 1e-6 guard of the width
// factor.
var matrices = []mat6{
	{1, 0, 0, 1, 0, 0},
	{0.001, 0, 0, 0.001, 0, 0},
	{1, 0, 0, 1, 50, 0},
	{1, 0, 0.25, 1, 50, -20},
	{0.5, 0, 0, 2, 0, 0},
	{1, 0.125, 0, 1, 0, 0},
	{0.0009765625, 0, 0, 0.0009765625, 0, 0},
	{0.001, 0, 0.0002, 0.001, 0.01, 0},
	{2, 0, 0, 0.5, 7, 3},
	{0, 1, -1, 0, 0, 0},
	{0, -1, 1, 0, 0, 0},
	{-1, 0, 0, -1, 0, 0},
	{0.001, 0.0001, 0.0002, 0.001, 0, 0},
	{0.001, 0.5, 0.25, 1e-7, 0, 0},
	{0.001, 0, 0, 0, 0, 0},
	{0.002, 0.001, 0.0005, 0.00001, 3, -4},
	{0.00048828125, 0, 0, 0.00048828125, 0, 0},
}

// top-level matrices: the same set without the rotations by 90 / 270 degrees
// (a font whose advance direction is vertical has no horizontal width)
var topMatrices = append(append([]mat6(nil), matrices[:9]...), matrices[11:]...)

var boundaryCoords = []float64{0, 1, -1, 32767, -32768, 32766.5, -32767.5, 32766.25, 0.5, -0.5, 0.75, 1e-3, 255, 256, -256, 1000, -250}

func genCoord(r *vlib.Rand) float64 {
	switch r.Intn(10) {
	case 0:
		return vlib.Pick(r, boundaryCoords)
	case 1:
		return float64(r.Range(-4000, 4000)) / 4 // quarter units
	case 2:
		return float64(r.Range(-160000, 160000)) / 65536 * 100 // 16.16-like fractions
	case 3:
		return float64(r.Range(-32768, 32767))
	default:
		return float64(r.Range(-300, 1200))
	}
}

func maskCmd(r *vlib.Rand) cmdD {
	op := int(cff.OpHintMask)
	if r.Chance(1, 3) {
		op = int(cff.OpCntrMask)
	}
	return cmdD{op: op, args: []float64{float64(16 * r.Range(1, 15))}}
}

// genCmds: a command list; style selects where the masks go.
//
//	0 none, 1 first, 2 first two (cntrmask + hintmask), 3 between segments,
//	4 last, 5 everywhere, 6 masks only
func genCmds(r *vlib.Rand, style int, wide bool) []cmdD {
	var out []cmdD
	coord := func() float64 {
		if wide {
			return float64(r.Range(-70000, 70000))
		}
		return genCoord(r)
	}
	if style == 1 || style == 5 || style == 6 {
		out = append(out, maskCmd(r))
	}
	if style == 2 {
		out = append(out, cmdD{op: int(cff.OpCntrMask), args: []float64{192}}, cmdD{op: int(cff.OpHintMask), args: []float64{240}})
	}
	if style == 6 {
		if r.Bool() {
			out = append(out, maskCmd(r))
		}
		return out
	}
	nseg := r.Range(1, 6)
	for s := 0; s < nseg; s++ {
		if s == 0 || r.Chance(1, 4) {
			out = append(out, cmdD{op: int(cff.OpMoveTo), args: []float64{coord(), coord()}})
			if r.Chance(1, 6) {
				continue // a single point
			}
		}
		if r.Chance(2, 5) {
			out = append(out, cmdD{op: int(cff.OpCurveTo), args: []float64{coord(), coord(), coord(), coord(), coord(), coord()}})
		} else {
			out = append(out, cmdD{op: int(cff.OpLineTo), args: []float64{coord(), coord()}})
		}
		if (style == 3 && s == 0) || (style == 5 && r.Bool()) {
			out = append(out, maskCmd(r))
		}
	}
	if style == 4 || style == 5 {
		out = append(out, maskCmd(r))
	}
	return out
}

func maskStyleName(s int) string {
	return [...]string{"none", "first", "first-two", "between", "last", "everywhere", "only"}[s]
}

func emit(run *vlib.Run, line string, nontrivial bool, labels ...string) {
	impl, fail, sig, err := runLine(line)
	if err != nil {
		panic(fmt.Sprintf("generator produced an unparsable case: %v: %.300s", err, line))
	}
	idx := run.Add(line, impl, nontrivial, labels...)
	if fail != "" {
		run.Fail(idx, line, fail, sig)
	}
}

// ---------------------------------------------------------------- extent stream

func genExtent(run *vlib.Run, r *vlib.Rand, tier string) {
	one := func(cmds []cmdD, labels ...string) {
		pts, wf := endPoints(cmds)
		emit(run, vlib.Line(vlib.Atom("extent"), cmdsSx(cmds)), wf && len(pts) >= 2, append(labels, "stream:extent")...)
	}
	// directed: every mask position, blank, single points, extremes
	one(nil, "extent:blank")
	one([]cmdD{{4, []float64{128}}}, "extent:masks-only")
	one([]cmdD{{4, []float64{128}}, {1, []float64{100, 100}}, {2, []float64{500, 700}}}, "extent:mask-first")
	one([]cmdD{{5, []float64{192}}, {4, []float64{240}}, {1, []float64{100, 100}}, {2, []float64{500, 700}}}, "extent:mask-first")
	one([]cmdD{{1, []float64{0, 0}}, {3, []float64{0, 100, 100, 100, 100, 0}}}, "extent:control-points-outside")
	one([]cmdD{{1, []float64{32767, -32768}}}, "extent:int16-extreme", "extent:single-point")
	one([]cmdD{{1, []float64{-32768, -32768}}, {2, []float64{32767, 32767}}}, "extent:int16-extreme")
	one([]cmdD{{1, []float64{32766.5, -32767.5}}, {2, []float64{-0.25, 0.25}}}, "extent:int16-extreme", "extent:fractional")
	one([]cmdD{{1, []float64{30000, 0}}, {2, []float64{60000, 10}}}, "extent:beyond-int16")
	one([]cmdD{{1, []float64{-40000, 1e10}}, {2, []float64{3e9, -2147483649}}}, "extent:beyond-int32")
	one([]cmdD{{1, []float64{0, 0}}}, "extent:single-point", "extent:origin-only")
	one([]cmdD{{7, []float64{900, 900}}, {1, []float64{1, 2}}, {0, []float64{-900, -900}}, {2, []float64{3, 4}}, {255, nil}}, "extent:unknown-op")
	for i, n := 0, vlib.Count(tier, 320, 8000); i < n; i++ {
		style := r.Intn(7)
		wide := r.Chance(1, 12)
		cmds := genCmds(r, style, wide)
		labels := []string{"extent:masks-" + maskStyleName(style)}
		if wide {
			labels = append(labels, "extent:beyond-int16")
		}
		one(cmds, labels...)
	}
	// malformed: a point command without all its arguments, anywhere
	for i, n := 0, vlib.Count(tier, 50, 1000); i < n; i++ {
		cmds := genCmds(r, r.Intn(6), false)
		k := r.Intn(len(cmds))
		if !isMask(cmds[k].op) {
			cmds[k].args = cmds[k].args[:r.Intn(len(cmds[k].args))]
		} else {
			cmds[k].args = nil // a mask without its byte: no point is read, no panic
		}
		one(cmds, "extent:malformed-short-args")
	}
}

// ---------------------------------------------------------------- CFF fonts

// thresholdSafe: no glyph's matrix has |M[3]| within 1e-9 of the 1e-6 guard
// together with a shear (the float comparison there is a matter of rounding).
func thresholdSafe(d *cffD) bool {
	for i := range d.glyphs {
		chain, ok := d.glyphChain(d.top, i)
		if !ok {
			continue
		}
		M := chainProduct(chain)
		abs := make([]rmat, len(chain))
		for k, m := range chain {
			abs[k] = m.abs()
		}
		if _, _, amb := qFactor(M, chainProduct(abs)); amb {
			return false
		}
	}
	return true
}

// originSafe: no non-blank glyph whose PDF box is the zero rectangle only in
// exact arithmetic is generated by accident; boxes that are exactly zero come
// from exactly representable data.
func originSafe(d *cffD) bool {
	for i, g := range d.glyphs {
		pts, ok := endPoints(g.cmds)
		if !ok || len(pts) == 0 {
			continue
		}
		chain, ok := d.glyphChain(d.top, i)
		if !ok {
			continue
		}
		b, mag := pdfBoxDef(pts, chain)
		if mag.Sign() == 0 {
			continue
		}
		tiny := new(big.Rat).Mul(mag, big.NewRat(1, 1e6))
		allTiny := true
		for _, v := range b {
			if new(big.Rat).Abs(v).Cmp(tiny) > 0 {
				allTiny = false
			}
		}
		if allTiny && !ratIsZeroBox(b) {
			return false
		}
	}
	return true
}

func genWidth(r *vlib.Rand, fixed bool) float64 {
	if fixed {
		return 600
	}
	switch r.Intn(8) {
	case 0:
		return 0
	case 1:
		return float64(r.Range(1, 4000)) / 4
	case 2:
		return float64(vlib.Pick(r, []int{1, 32767, 1000, 250}))
	default:
		return float64(r.Range(0, 1200))
	}
}

type cffOpts struct {
	writable bool // the font must survive Font.Write: valid ops, distinct names
	wide     bool
}

func genCffD(r *vlib.Rand, opt cffOpts) (*cffD, []string) {
	for {
		d := &cffD{}
		var labels []string
		n := r.Range(1, 7)
		if opt.writable && n < 2 {
			n = 2
		}
		d.cid = r.Chance(3, 5)
		nFD := 0
		if d.cid {
			nFD = r.Range(1, 4)
			labels = append(labels, fmt.Sprintf("cff:cid-%dfd", nFD))
		} else {
			labels = append(labels, "cff:simple")
		}
		d.top = vlib.Pick(r, topMatrices)
		for k := 0; k < nFD; k++ {
			d.fmats = append(d.fmats, vlib.Pick(r, matrices))
		}
		fixed := r.Chance(1, 6)
		// nearly fixed pitch: fractional widths around 600 - "wobble" keeps all
		// of them within 1/2 of the first (fixed pitch by definition), "creep"
		// moves each by less than 1/2 from its neighbour but away from the first
		// (not fixed pitch), with zero widths (skipped by the test) in between
		near := 0
		if !fixed && r.Chance(1, 5) {
			near = 1 + r.Intn(2)
			labels = append(labels, []string{"", "wd:near-fixed-wobble", "wd:near-fixed-creep"}[near])
		}
		creepStep := vlib.Pick(r, []float64{0.375, 0.25, 0.4375})
		for i := 0; i < n; i++ {
			g := glyphD{name: i + 1, width: genWidth(r, fixed)}
			switch {
			case near != 0 && i > 0 && r.Chance(1, 6):
				g.width = 0
			case near == 1:
				g.width = 600 + float64(r.Range(-3, 3))/8
			case near == 2:
				g.width = 600 + float64(i)*creepStep
			}
			if i == 0 {
				g.name = 0
			}
			if d.cid && opt.writable {
				g.name = 1 // CID-keyed fonts have no glyph names in a file
			}
			if !opt.writable && !d.cid && i > 1 && r.Chance(1, 8) {
				g.name = d.glyphs[r.Intn(i)].name // a repeated name
				labels = append(labels, "cff:repeated-name")
			}
			style := 0
			switch {
			case i == 0 && r.Bool(), r.Chance(1, 7):
				// blank
				labels = append(labels, "cff:blank-glyph")
			default:
				style = r.Intn(6)
				g.cmds = genCmds(r, style, opt.wide && r.Chance(1, 3))
				if style != 0 {
					labels = append(labels, "cff:masks-"+maskStyleName(style))
				}
			}
			d.glyphs = append(d.glyphs, g)
			if d.cid {
				d.fdsel = append(d.fdsel, r.Intn(nFD))
			}
		}
		if thresholdSafe(d) && originSafe(d) {
			return d, labels
		}
	}
}

func probesFor(r *vlib.Rand, n int) []int {
	var p []int
	for i := 0; i < n; i++ {
		p = append(p, i)
	}
	// a glyph id the font does not have: what happens is part of the model
	p = append(p, n)
	if r.Bool() {
		p = append(p, n+r.Range(1, 70000-n))
	}
	return p
}

func cffNontrivial(d *cffD) bool {
	nonblank := 0
	for _, g := range d.glyphs {
		if pts, ok := endPoints(g.cmds); ok && len(pts) >= 2 {
			nonblank++
		}
	}
	return nonblank >= 2
}

// directed CFF fonts: the witnesses of coq/C12B/Proofs_refuted.v and the font
// of coq/C12B/Examples.v
func directedCff() []*cffD {
	scale := mat6{0.001, 0, 0, 0.001, 0, 0}
	ident := mat6{1, 0, 0, 1, 0, 0}
	rectCmds := []cmdD{{1, []float64{10, 20}}, {2, []float64{110, 220}}}
	exGlyphs := []glyphD{
		{0, 250, nil},
		{2, 600, []cmdD{{4, []float64{240}}, {1, []float64{100, 100}}, {2, []float64{500, 100}}, {4, []float64{80}}, {2, []float64{500, 700}}, {2, []float64{100.5, 700.25}}}},
		{3, 600, []cmdD{{5, []float64{192}}, {4, []float64{240}}, {1, []float64{-20, -10}}, {3, []float64{-300, 900, 800, 900, 400, -10.75}}, {4, []float64{80}}}},
		{4, 0, []cmdD{{1, []float64{7, -3}}}},
	}
	return []*cffD{
		// w_cid: top-level 0.001 scale, Font DICT translation by 50 (the order matters)
		{cid: true, top: scale, fmats: []mat6{{1, 0, 0, 1, 50, 0}}, fdsel: []int{0}, glyphs: []glyphD{{1, 500, rectCmds}}},
		// w_cid_std: a CID-keyed font as sfnt.Read delivers it (identity on top, 0.001 in the Font DICT)
		{cid: true, top: ident, fmats: []mat6{scale}, fdsel: []int{0}, glyphs: []glyphD{{1, 1366, []cmdD{{1, []float64{0, 0}}, {2, []float64{100, 100}}}}}},
		// ex_cid / ex_simple
		{cid: true, top: scale, fmats: []mat6{{1, 0, 0.25, 1, 50, -20}, {0.5, 0, 0, 2, 0, 0}}, fdsel: []int{0, 0, 1, 1}, glyphs: exGlyphs},
		{cid: false, top: scale, glyphs: exGlyphs},
		// a font without glyphs (IsFixedPitch is false, every box zero)
		{cid: false, top: scale},
		// a glyph opening with a hint mask whose box does not contain the origin (seed C12-h)
		{cid: false, top: scale, glyphs: []glyphD{{0, 500, nil}, {2, 600, []cmdD{{4, []float64{128}}, {1, []float64{100, 100}}, {2, []float64{500, 700}}}}}},
	}
}

func genCff(run *vlib.Run, r *vlib.Rand, tier string) {
	for _, d := range directedCff() {
		emit(run, cffLine("cff", d, probesFor(r, len(d.glyphs)), d.top), true, "stream:cff-directed")
	}
	for i, n := 0, vlib.Count(tier, 220, 5000); i < n; i++ {
		d, labels := genCffD(r, cffOpts{wide: r.Chance(1, 10)})
		fm := d.top
		if r.Chance(1, 5) {
			fm = vlib.Pick(r, matrices) // GlyphBBoxPDF takes the matrix as an argument
			labels = append(labels, "cff:foreign-matrix-argument")
		}
		emit(run, cffLine("cff", d, probesFor(r, len(d.glyphs)), fm), cffNontrivial(d), append(labels, "stream:cff-memory")...)
	}
	// through Write + Read: the description is taken from the font read back,
	// and must be a fixed point of a second round
	made := 0
	for tries := 0; made < vlib.Count(tier, 120, 2500) && tries < 20000; tries++ {
		d0, labels := genCffD(r, cffOpts{writable: true})
		g, _, err := writeRead(buildCff(d0))
		if err != nil {
			stats["cffrt-generator-unwritable"]++
			continue
		}
		d, err := describeCff(g)
		if err != nil || !thresholdSafe(d) || !originSafe(d) {
			continue
		}
		if _, mode := prepareCff("cffrt", d); mode != "rt" {
			continue
		}
		made++
		emit(run, cffLine("cffrt", d, probesFor(r, len(d.glyphs)), d.top), cffNontrivial(d), append(labels, "stream:cff-write-read")...)
	}
	// malformed values (not deliverable by the reader): FDSelect outside
	// FontMatrices or shorter than the glyph list, a short point command
	for i, n := 0, vlib.Count(tier, 40, 800); i < n; i++ {
		d, labels := genCffD(r, cffOpts{})
		switch r.Intn(3) {
		case 0:
			if d.cid {
				d.fdsel[r.Intn(len(d.fdsel))] = len(d.fmats) + r.Intn(3)
				labels = append(labels, "cff:malformed-fdselect-range")
			}
		case 1:
			if d.cid && len(d.fdsel) > 1 {
				d.fdsel = d.fdsel[:len(d.fdsel)-1]
				labels = append(labels, "cff:malformed-fdselect-short")
			}
		default:
			g := &d.glyphs[r.Intn(len(d.glyphs))]
			if len(g.cmds) > 0 {
				k := r.Intn(len(g.cmds))
				if len(g.cmds[k].args) > 0 {
					g.cmds[k].args = g.cmds[k].args[:len(g.cmds[k].args)-1]
					labels = append(labels, "cff:malformed-short-args")
				}
			}
		}
		emit(run, cffLine("cff", d, probesFor(r, len(d.glyphs)), d.top), false, append(labels, "stream:cff-malformed")...)
	}
}

// ---------------------------------------------------------------- TrueType fonts

func genGlyfD(r *vlib.Rand, writable bool) (*glyfD, []string) {
	d := &glyfD{}
	var labels []string
	n := r.Range(1, 8)
	d.upem = vlib.Pick(r, []int{1000, 2048, 1024, 16, 16384, 2000, 1, 65535})
	if writable {
		d.upem = vlib.Pick(r, []int{1000, 2048, 1024, 16, 16384, 2000})
		q := 1 / float64(d.upem)
		d.top = mat6{q, 0, 0, q, 0, 0}
	} else {
		d.top = vlib.Pick(r, topMatrices)
	}
	for i := 0; i < n; i++ {
		if r.Chance(1, 4) {
			d.glyphs = append(d.glyphs, nil)
			continue
		}
		var b [4]int
		switch r.Intn(6) {
		case 0:
			b = [4]int{-32767, -32767, 32767, 32767}
			if r.Chance(1, 3) {
				b[0], b[1] = -32768, -32768 // -yMin does not fit usWinDescent: outside the derived-field domain
			}
		case 1:
			x, y := r.Range(-500, 500), r.Range(-500, 500)
			b = [4]int{x, y, x, y} // a single point
		default:
			x, y := r.Range(-400, 400), r.Range(-400, 400)
			b = [4]int{x, y, x + r.Range(0, 1500), y + r.Range(0, 1500)}
		}
		d.glyphs = append(d.glyphs, &b)
	}
	switch r.Intn(4) {
	case 0:
		labels = append(labels, "glyf:no-widths")
	default:
		d.hasWidths = true
		fixed := r.Chance(1, 4)
		for i := 0; i < n; i++ {
			w := r.Range(0, 2500)
			if fixed && r.Chance(4, 5) {
				w = 600
			}
			if r.Chance(1, 12) {
				w = vlib.Pick(r, []int{0, 32767, -1, -32768})
			}
			d.widths = append(d.widths, w)
		}
		labels = append(labels, "glyf:widths")
	}
	switch r.Intn(4) {
	case 0:
		labels = append(labels, "glyf:no-names")
	case 1:
		if !writable {
			d.hasNames = true
			for i := 0; i < r.Intn(n); i++ {
				d.names = append(d.names, 2+i)
			}
			labels = append(labels, "glyf:short-names")
			break
		}
		fallthrough
	default:
		d.hasNames = true
		d.names = append(d.names, 0)
		for i := 1; i < n; i++ {
			d.names = append(d.names, 1+i)
		}
		labels = append(labels, "glyf:names")
	}
	return d, labels
}

func directedGlyf() []*glyfD {
	return []*glyfD{
		// w_short_names: the post table names fewer glyphs than the font has
		{upem: 1000, top: mat6{0.001, 0, 0, 0.001, 0, 0}, glyphs: []*[4]int{nil, {0, 0, 10, 10}, {1, 1, 5, 5}},
			widths: []int{0, 500, 600}, hasWidths: true, names: []int{7}, hasNames: true},
		// ex_glyf, ex_glyf_nil
		{upem: 2048, top: mat6{1.0 / 2048, 0, 0, 1.0 / 2048, 0, 0}, glyphs: []*[4]int{nil, {50, 0, 450, 700}, {-30, -200, 300, 500}},
			widths: []int{500, 500, 500}, hasWidths: true, names: []int{0, 36, 88}, hasNames: true},
		{upem: 1000, top: mat6{0.001, 0, 0, 0.001, 0, 0}, glyphs: []*[4]int{nil, {50, 0, 450, 700}}},
		// no glyphs at all
		{upem: 1000, top: mat6{0.001, 0, 0, 0.001, 0, 0}},
		{upem: 1000, top: mat6{0.001, 0, 0, 0.001, 0, 0}, hasWidths: true, widths: []int{}},
	}
}

func genGlyf(run *vlib.Run, r *vlib.Rand, tier string) {
	for _, d := range directedGlyf() {
		emit(run, glyfLine("glyf", d, probesFor(r, len(d.glyphs)), d.top), true, "stream:glyf-directed")
	}
	for i, n := 0, vlib.Count(tier, 130, 3000); i < n; i++ {
		d, labels := genGlyfD(r, false)
		fm := d.top
		if r.Chance(1, 5) {
			fm = vlib.Pick(r, matrices)
		}
		emit(run, glyfLine("glyf", d, probesFor(r, len(d.glyphs)), fm), len(d.glyphs) >= 2, append(labels, "stream:glyf-memory")...)
	}
	made := 0
	for tries := 0; made < vlib.Count(tier, 70, 1500) && tries < 20000; tries++ {
		d0, labels := genGlyfD(r, true)
		g, _, err := writeRead(buildGlyf(d0))
		if err != nil {
			stats["glyfrt-generator-unwritable"]++
			continue
		}
		d, err := describeGlyf(g)
		if err != nil {
			stats["glyfrt-generator-undescribable"]++
			continue
		}
		if _, mode := prepareGlyf("glyfrt", d); mode != "rt" {
			continue
		}
		made++
		emit(run, glyfLine("glyfrt", d, probesFor(r, len(d.glyphs)), d.top), len(d.glyphs) >= 2, append(labels, "stream:glyf-write-read")...)
	}
	// not deliverable by the reader: a width list of the wrong length
	for i, n := 0, vlib.Count(tier, 30, 600); i < n; i++ {
		d, labels := genGlyfD(r, false)
		if !d.hasWidths {
			continue
		}
		if r.Bool() && len(d.widths) > 1 {
			d.widths = d.widths[:len(d.widths)-1]
			labels = append(labels, "glyf:malformed-widths-short")
		} else {
			d.widths = append(d.widths, 700)
			labels = append(labels, "glyf:malformed-widths-long")
		}
		emit(run, glyfLine("glyf", d, probesFor(r, len(d.glyphs)), d.top), false, append(labels, "stream:glyf-malformed")...)
	}
	// unitsPerEm = 0: the PDF-unit widths are Inf / NaN, outside the model;
	// the queries must still not panic (oracle-only)
	for i, n := 0, vlib.Count(tier, 6, 60); i < n; i++ {
		d, labels := genGlyfD(r, false)
		d.upem = 0
		emit(run, "!"+glyfLine("glyf", d, probesFor(r, len(d.glyphs)), d.top), false, append(labels, "stream:glyf-upem-zero", "oracle-only")...)
	}
}

// ---------------------------------------------------------------- derived fields

func genCodes(r *vlib.Rand) vlib.Sx {
	switch r.Intn(5) {
	case 0:
		return vlib.List{vlib.Int(0)}
	case 1:
		l := vlib.List{vlib.Int(12)}
		for i, n := 0, r.Range(1, 6); i < n; i++ {
			l = append(l, vlib.Int(vlib.Pick(r, []int{0x41, 0x10000, 0x1F600, 0xFFFF, 0x20, 0x10FFFF, r.Range(1, 0x2FFFF)})))
		}
		return dedupeCodes(l)
	default:
		l := vlib.List{vlib.Int(4)}
		for i, n := 0, r.Range(1, 8); i < n; i++ {
			l = append(l, vlib.Int(vlib.Pick(r, []int{0x20, 0x41, 0x48, 0x78, 0xFFFF, 0xFFFE, 1, r.Range(1, 0xFFFF)})))
		}
		return dedupeCodes(l)
	}
}

func dedupeCodes(l vlib.List) vlib.List {
	seen := map[string]bool{}
	out := vlib.List{l[0]}
	for _, x := range l[1:] {
		if !seen[vlib.Str(x)] {
			seen[vlib.Str(x)] = true
			out = append(out, x)
		}
	}
	return out
}

func genWd(run *vlib.Run, r *vlib.Rand, tier string) {
	for i, n := 0, vlib.Count(tier, 110, 2500); i < n; i++ {
		d, labels := genCffD(r, cffOpts{writable: true, wide: r.Chance(1, 15)})
		if r.Chance(1, 10) {
			// advance widths beyond Int16 (the conversion wraps; outside the oracle's domain)
			d.glyphs[r.Intn(len(d.glyphs))].width = float64(vlib.Pick(r, []int{32768, 40000, 65536, 70000, -5}))
			labels = append(labels, "wd:width-beyond-int16")
		}
		items := append([]vlib.Sx{vlib.Atom("wd"), vlib.Atom("cff")}, d.sx()...)
		items = append(items, genCodes(r))
		emit(run, vlib.Line(items...), cffNontrivial(d), append(labels, "stream:wd-cff")...)
	}
	for i, n := 0, vlib.Count(tier, 70, 1500); i < n; i++ {
		d, labels := genGlyfD(r, true)
		if len(d.glyphs) < 2 {
			continue
		}
		items := append([]vlib.Sx{vlib.Atom("wd"), vlib.Atom("glyf")}, d.sx()...)
		items = append(items, genCodes(r))
		emit(run, vlib.Line(items...), true, append(labels, "stream:wd-glyf")...)
	}
}

func genRh(run *vlib.Run, r *vlib.Rand, tier string) {
	for i, n := 0, vlib.Count(tier, 60, 1200); i < n; i++ {
		ng := r.Range(1, 6)
		hs := make([]int, ng)
		for k := range hs {
			hs[k] = vlib.Pick(r, []int{0, 700, 500, -20, 32767, r.Range(1, 1500)})
		}
		os2v := 0
		if r.Chance(1, 3) {
			os2v = r.Range(1, 1500)
		}
		gid := vlib.Pick(r, []int{0, 1, ng - 1, ng, ng + 5, r.Intn(ng)})
		have := r.Chance(5, 6)
		label := "rh:fallback"
		switch {
		case os2v != 0:
			label = "rh:os2-value"
		case !have:
			label = "rh:no-cmap"
		case gid == 0:
			label = "rh:notdef"
		case gid >= ng:
			label = "rh:gid-out-of-range"
		}
		emit(run, vlib.Line(vlib.Atom("rh"), vlib.Int(os2v), vlib.Bool(have), vlib.Int(gid), vlib.Int(ng), intsSx(hs)),
			os2v == 0 && have && gid != 0 && gid < ng, label, "stream:rh")
	}
}

// Gen writes the run for the given tier.
func Gen(run *vlib.Run, seed uint64, tier string) {
	run.Rule = "one glyph (extent), one font with all its queries (cff / glyf, in memory and after Write + Read), one Font.Write (wd) or one Write + Read (rh) per case; non-trivial = at least two points / two non-blank glyphs / two glyphs / the glyphHeight fallback taken; distinct by case line"
	r := vlib.NewRand(seed)
	genExtent(run, r.Fork("extent"), tier)
	genCff(run, r.Fork("cff"), tier)
	genGlyf(run, r.Fork("glyf"), tier)
	genWd(run, r.Fork("wd"), tier)
	genRh(run, r.Fork("rh"), tier)
	genCfont(run, r.Fork("cfont"), tier)
	genClone(run, r.Fork("clone"), tier)
	for k, v := range stats {
		run.Extra[k] = v
	}
}
