package c12b

// The CFF package's own copies of the queries: cff.Font.Widths / WidthsPDF /
// WidthsMapPDF / GlyphWidthPDF / FontBBoxPDF / Clone and cff.Outlines.NumGlyphs
// / BBox / BuiltinEncoding, called directly on cff.Font values and compared
// with the extracted model, with the sfnt.Font wrapping the same outlines with
// the same FontMatrix, and with the definitions.
//
//	cfont <cid top fmats fdsel glyphs> <enc> <probes> <claims>    enc = nil | (gid...)
//	clone (<op>...)      op = (set s k) | (elem s k j);  s = 0 FontInfo, 1 Outlines
//	                     FontInfo fields: 0 FontName, 1 FontMatrix (an array), 2 ItalicAngle
//	                     Outlines fields: 0 Glyphs, 1 Encoding, 2 Private (slices)

import (
	"fmt"
	"math"
	"math/big"
	"reflect"
	"sort"

	"seehuhn.de/go/geom/matrix"
	"seehuhn.de/go/geom/rect"
	"seehuhn.de/go/postscript/funit"
	"seehuhn.de/go/postscript/type1"

	"seehuhn.de/go/sfnt"
	"seehuhn.de/go/sfnt/cff"
	"seehuhn.de/go/sfnt/glyph"
	"seehuhn.de/go/sfnt/verifharness/vlib"
)

func init() {
	runners["cfont"] = runCfont
	runners["clone"] = runClone
}

// buildCfont: the cff.Font and the sfnt.Font over the SAME Outlines value.
func buildCfont(d *cffD, enc []int, hasEnc bool) (*cff.Font, *sfnt.Font) {
	sf := buildCff(d)
	o := sf.Outlines.(*cff.Outlines)
	o.Encoding = nil
	if hasEnc {
		o.Encoding = make([]glyph.ID, len(enc))
		for i, g := range enc {
			o.Encoding[i] = glyph.ID(g)
		}
	}
	info := &type1.FontInfo{FontName: "Test", FontMatrix: matrix.Matrix(d.top)}
	return &cff.Font{FontInfo: info, Outlines: o}, sf
}

type cfontObs struct {
	n         int
	widths    []float64
	bbox      funit.Rect16
	bboxPanic bool
	enc       []string
	encPanic  bool
	fbp       claim
	wpdf      claim
	gwp       []claim
	wmap      claim
}

func wmapClaim(f func() map[string]float64) claim {
	mp, p := try(f)
	c := claim{panicked: p, isNil: !p && mp == nil}
	if mp != nil {
		type kv struct {
			k int
			v float64
		}
		var kvs []kv
		for name, v := range mp {
			id, ok := idOfName(name)
			if !ok {
				id = -1
			}
			kvs = append(kvs, kv{id, v})
		}
		sort.Slice(kvs, func(i, j int) bool { return kvs[i].k < kvs[j].k })
		c.keys = []int{}
		for _, e := range kvs {
			c.keys = append(c.keys, e.k)
			c.vals = append(c.vals, e.v)
		}
	}
	return c
}

func observeCfont(cf *cff.Font, probes []int) *cfontObs {
	o := &cfontObs{}
	o.n = cf.NumGlyphs()
	o.widths = cf.Widths()
	o.bbox, o.bboxPanic = try(cf.Outlines.BBox)
	o.enc, o.encPanic = try(cf.BuiltinEncoding)
	o.fbp = rectClaim(func() rect.Rect { return cf.FontBBoxPDF() })
	wl, wlp := try(cf.WidthsPDF)
	o.wpdf = claim{panicked: wlp, isNil: !wlp && wl == nil, vals: wl}
	for _, p := range probes {
		gid := glyph.ID(p)
		v, vp := try(func() float64 { return cf.GlyphWidthPDF(gid) })
		o.gwp = append(o.gwp, claim{panicked: vp, vals: []float64{v}})
	}
	o.wmap = wmapClaim(cf.WidthsMapPDF)
	return o
}

func (o *cfontObs) claims() vlib.Sx {
	w := vlib.List{vlib.Atom("gwp")}
	for _, c := range o.gwp {
		w = append(w, scalarSx(c))
	}
	return vlib.List{vlib.List{vlib.Atom("fbp"), o.fbp.sx()}, vlib.List{vlib.Atom("wpdf"), o.wpdf.sx()}, w,
		vlib.List{vlib.Atom("wmap"), o.wmap.sx()}}
}

func (o *cfontObs) implLine(embedded []vlib.Sx) (string, error) {
	out := vlib.List{vlib.List{vlib.Atom("n"), vlib.Int(o.n)},
		append(vlib.List{vlib.Atom("widths")}, numsSx(o.widths)...),
		vlib.List{vlib.Atom("bbox"), orPanic(o.bboxPanic, rectSx(o.bbox))}}
	var e vlib.Sx = vlib.Atom("nil")
	if o.encPanic {
		e = panicAtom
	} else if o.enc != nil {
		l := make(vlib.List, len(o.enc))
		for i, s := range o.enc {
			if id, ok := idOfName(s); ok {
				l[i] = vlib.Int(id)
			} else {
				l[i] = vlib.Atom("unknown-name")
			}
		}
		e = l
	}
	out = append(out, vlib.List{vlib.Atom("enc"), e})
	one := func(key string, c claim) error {
		em, err := findClaim(embedded, key)
		if err != nil {
			return err
		}
		if len(em) != 1 {
			return fmt.Errorf("claim %s: want one value", key)
		}
		out = append(out, vlib.List{vlib.Atom(key), verdictOf(c, em[0], false)})
		return nil
	}
	if err := one("fbp", o.fbp); err != nil {
		return "", err
	}
	if err := one("wpdf", o.wpdf); err != nil {
		return "", err
	}
	ew, err := findClaim(embedded, "gwp")
	if err != nil {
		return "", err
	}
	if len(ew) != len(o.gwp) {
		return "", fmt.Errorf("claims and probes differ in length")
	}
	w := vlib.List{vlib.Atom("gwp")}
	for i, c := range o.gwp {
		w = append(w, verdictOf(c, ew[i], true))
	}
	out = append(out, w)
	if err := one("wmap", o.wmap); err != nil {
		return "", err
	}
	return vlib.Str(out), nil
}

func parseEnc(x vlib.Sx) ([]int, bool, error) {
	if isNilAtom(x) {
		return nil, false, nil
	}
	l, err := vlib.AsInts(x)
	return l, true, err
}

func encSx(enc []int, has bool) vlib.Sx {
	if !has {
		return vlib.Atom("nil")
	}
	return intsSx(enc)
}

func runCfont(_ string, items []vlib.Sx) (impl, fail, sig string, err error) {
	if len(items) != 8 {
		return "", "", "", fmt.Errorf("cfont: want 8 items")
	}
	d, err := parseCff(items[:5])
	if err != nil {
		return "", "", "", err
	}
	enc, hasEnc, err := parseEnc(items[5])
	if err != nil {
		return "", "", "", err
	}
	probes, err := parseProbes(items[6])
	if err != nil {
		return "", "", "", err
	}
	embedded, err := vlib.AsList(items[7])
	if err != nil {
		return "", "", "", err
	}
	cf, sf := buildCfont(d, enc, hasEnc)
	o := observeCfont(cf, probes)
	impl, err = o.implLine(embedded)
	if err != nil {
		return "", "", "", err
	}
	fail, sig = oracleCfont(d, enc, hasEnc, probes, cf, sf, o)
	return impl, fail, sig, nil
}

func cfontLine(d *cffD, enc []int, hasEnc bool, probes []int) string {
	cf, _ := buildCfont(d, enc, hasEnc)
	o := observeCfont(cf, probes)
	items := append([]vlib.Sx{vlib.Atom("cfont")}, d.sx()...)
	items = append(items, encSx(enc, hasEnc), intsSx(probes), o.claims())
	return vlib.Line(items...)
}

func sameFloats(a, b []float64) bool {
	if len(a) != len(b) {
		return false
	}
	for i := range a {
		if a[i] != b[i] && !(math.IsNaN(a[i]) && math.IsNaN(b[i])) {
			return false
		}
	}
	return true
}

// oracleCfont: the cff.Font methods against the sfnt.Font methods on the same
// outlines and matrix, BBox / BuiltinEncoding against their definitions, and
// the answers of a Clone against those of the original.
func oracleCfont(d *cffD, enc []int, hasEnc bool, probes []int, cf *cff.Font, sf *sfnt.Font, o *cfontObs) (fail, sig string) {
	n := len(d.glyphs)
	// BuiltinEncoding needs no well-formed outlines
	if o.encPanic {
		return "BuiltinEncoding panics", "c12b-cfont-panic"
	}
	if !hasEnc || len(enc) != 256 {
		if o.enc != nil {
			return fmt.Sprintf("BuiltinEncoding is not nil for an Encoding of %d entries", len(enc)), "c12b-builtin-encoding"
		}
	} else {
		if len(o.enc) != 256 {
			return fmt.Sprintf("BuiltinEncoding has %d entries", len(o.enc)), "c12b-builtin-encoding"
		}
		for i, g := range enc {
			want := ".notdef"
			if g > 0 && g < n {
				want = nameOf(d.glyphs[g].name)
			}
			if o.enc[i] != want {
				return fmt.Sprintf("BuiltinEncoding[%d] = %q for glyph id %d of %d, want %q", i, o.enc[i], g, n, want), "c12b-builtin-encoding"
			}
		}
	}
	if !cffDeliverable(d) {
		return "", ""
	}
	if o.bboxPanic || o.fbp.panicked || o.wpdf.panicked || o.wmap.panicked {
		return "a whole-font query of cff.Font panics on a font the reader can deliver", "c12b-cfont-panic"
	}
	if o.n != n || sf.NumGlyphs() != n {
		return fmt.Sprintf("NumGlyphs = %d (sfnt.Font: %d) for %d glyphs", o.n, sf.NumGlyphs(), n), "c12b-cfont"
	}
	// Outlines.BBox = union of the non-zero extents = Font.FontBBox
	boxes := make([][4]int, n)
	allFit := true
	for i, g := range d.glyphs {
		b, fits, _ := extentDef(g.cmds)
		boxes[i] = b
		allFit = allFit && fits
	}
	if allFit && boxOfRect(o.bbox) != unionBoxes(boxes) {
		return fmt.Sprintf("Outlines.BBox = %v, union of the non-empty glyph boxes = %v", o.bbox, unionBoxes(boxes)), "c12b-font-bbox"
	}
	if fb := sf.FontBBox(); o.bbox != fb {
		return fmt.Sprintf("Outlines.BBox = %v but Font.FontBBox = %v", o.bbox, fb), "c12b-font-bbox"
	}
	// the same quantity from the two packages
	if !sameFloats(o.widths, sf.Widths()) {
		return fmt.Sprintf("cff.Font.Widths = %v, sfnt.Font.Widths = %v", o.widths, sf.Widths()), "c12b-cfont"
	}
	sb := sf.FontBBoxPDF()
	if !sameFloats(o.fbp.vals, []float64{sb.LLx, sb.LLy, sb.URx, sb.URy}) {
		return fmt.Sprintf("cff.Font.FontBBoxPDF = %v, sfnt.Font.FontBBoxPDF = %v", o.fbp.vals, sb), "c12b-cfont"
	}
	sw := sf.WidthsPDF()
	if len(sw) != len(o.wpdf.vals) {
		return "cff.Font.WidthsPDF and sfnt.Font.WidthsPDF differ in length", "c12b-cfont"
	}
	for i := range sw {
		// documented units: glyph space (cff) = 1000 x text space (sfnt)
		want := rmul(rat(sw[i]), rThousand)
		if !near(o.wpdf.vals[i], want, new(big.Rat).Abs(want)) {
			return fmt.Sprintf("cff.Font.WidthsPDF()[%d] = %g (glyph space units) but 1000 x sfnt.Font.WidthsPDF()[%d] = %s", i, o.wpdf.vals[i], i, want.FloatString(6)), "c12b-cfont-widths-pdf"
		}
	}
	sm := wmapClaim(sf.WidthsMapPDF)
	if sm.isNil != o.wmap.isNil || !reflect.DeepEqual(sm.keys, o.wmap.keys) || !sameFloats(sm.vals, o.wmap.vals) {
		return fmt.Sprintf("cff.Font.WidthsMapPDF = %v %v, sfnt.Font.WidthsMapPDF = %v %v", o.wmap.keys, o.wmap.vals, sm.keys, sm.vals), "c12b-cfont"
	}
	for k, p := range probes {
		if p < 0 || p >= n {
			continue
		}
		if o.gwp[k].panicked {
			return fmt.Sprintf("cff.Font.GlyphWidthPDF(%d) panics on a font with %d glyphs", p, n), "c12b-cfont-panic"
		}
		if sv := sf.GlyphWidthPDF(glyph.ID(p)); !sameFloats(o.gwp[k].vals, []float64{sv}) {
			return fmt.Sprintf("cff.Font.GlyphWidthPDF(%d) = %g, sfnt.Font.GlyphWidthPDF = %g", p, o.gwp[k].vals[0], sv), "c12b-cfont"
		}
	}
	// a Clone answers like the original
	c := cf.Clone()
	oc := observeCfont(c, probes)
	if !sameFloats(oc.widths, o.widths) || !sameFloats(oc.fbp.vals, o.fbp.vals) || !sameFloats(oc.wpdf.vals, o.wpdf.vals) ||
		oc.bbox != o.bbox || !reflect.DeepEqual(oc.enc, o.enc) || !reflect.DeepEqual(oc.wmap.keys, o.wmap.keys) || !sameFloats(oc.wmap.vals, o.wmap.vals) {
		return "a Clone of the font answers a query differently from the original", "c12b-clone"
	}
	return "", ""
}

// ---------------------------------------------------------------- Clone

type cloneSnap struct {
	name    string
	fm      matrix.Matrix
	italic  float64
	glyphs  []*cff.Glyph
	enc     []glyph.ID
	private []*type1.PrivateDict
	nilG    bool
	nilE    bool
	nilP    bool
}

func snapOf(f *cff.Font) cloneSnap {
	return cloneSnap{f.FontName, f.FontMatrix, f.ItalicAngle, append([]*cff.Glyph(nil), f.Glyphs...),
		append([]glyph.ID(nil), f.Encoding...), append([]*type1.PrivateDict(nil), f.Private...),
		f.Glyphs == nil, f.Encoding == nil, f.Private == nil}
}

func cloneSubject() *cff.Font {
	o := &cff.Outlines{
		Glyphs:   []*cff.Glyph{cff.NewGlyph(".notdef", 500), cff.NewGlyph("g2", 600), cff.NewGlyph("g3", 700)},
		Private:  []*type1.PrivateDict{{BlueScale: 0.039625}, {BlueScale: 0.5}},
		FDSelect: func(glyph.ID) int { return 0 },
		Encoding: make([]glyph.ID, 256),
	}
	return &cff.Font{FontInfo: &type1.FontInfo{FontName: "Seven", FontMatrix: matrix.Matrix{1, 0, 0, 1, 0, 0}}, Outlines: o}
}

func runClone(_ string, items []vlib.Sx) (impl, fail, sig string, err error) {
	if len(items) != 1 {
		return "", "", "", fmt.Errorf("clone: want 1 item")
	}
	ops, err := vlib.AsList(items[0])
	if err != nil {
		return "", "", "", err
	}
	out := vlib.List{}
	for _, opx := range ops {
		op, err := vlib.AsList(opx)
		if err != nil || len(op) < 3 {
			return "", "", "", fmt.Errorf("clone: bad op")
		}
		kind, _ := vlib.AsAtom(op[0])
		s, err1 := vlib.AsInt(op[1])
		k, err2 := vlib.AsInt(op[2])
		if err1 != nil || err2 != nil || s < 0 || s > 1 || k < 0 || k > 2 {
			return "", "", "", fmt.Errorf("clone: bad op")
		}
		j := 0
		if kind == "elem" {
			if len(op) != 4 {
				return "", "", "", fmt.Errorf("clone: elem wants an index")
			}
			if j, err = vlib.AsInt(op[3]); err != nil {
				return "", "", "", err
			}
		}
		f := cloneSubject()
		before := snapOf(f)
		c := f.Clone()
		if c == f || c.FontInfo == f.FontInfo || c.Outlines == f.Outlines {
			return "", "Clone returns a struct of the original", "c12b-clone", nil
		}
		if !reflect.DeepEqual(snapOf(c), before) {
			return "", "a fresh Clone differs from the original", "c12b-clone", nil
		}
		wantChanged := false
		switch {
		case kind == "set" && s == 0 && k == 0:
			c.FontName = "changed"
		case kind == "set" && s == 0 && k == 1:
			c.FontMatrix = matrix.Matrix{9, 9, 9, 9, 9, 9}
		case kind == "set" && s == 0 && k == 2:
			c.ItalicAngle = 42
		case kind == "set" && s == 1 && k == 0:
			c.Glyphs = nil
		case kind == "set" && s == 1 && k == 1:
			c.Encoding = nil
		case kind == "set" && s == 1 && k == 2:
			c.Private = nil
		case kind == "elem" && s == 0 && k == 1:
			if j < 6 {
				c.FontMatrix[j] = 424242 // an array: part of the struct
			}
		case kind == "elem" && s == 0:
			// a scalar has no elements
		case kind == "elem" && s == 1 && k == 0:
			if j < len(c.Glyphs) {
				c.Glyphs[j] = cff.NewGlyph("new", 1)
				wantChanged = true
			}
		case kind == "elem" && s == 1 && k == 1:
			if j < 4 {
				c.Encoding[j] = 99
				wantChanged = true
			}
		case kind == "elem" && s == 1 && k == 2:
			if j < len(c.Private) {
				c.Private[j] = &type1.PrivateDict{}
				wantChanged = true
			}
		default:
			return "", "", "", fmt.Errorf("clone: unknown op %q", kind)
		}
		changed := !reflect.DeepEqual(snapOf(f), before)
		out = append(out, vlib.Bool(changed))
		if changed != wantChanged {
			return vlib.Str(out), fmt.Sprintf("Clone: after %s on the clone the original changed = %v; a shallow copy of the two structs gives %v", vlib.Str(opx), changed, wantChanged), "c12b-clone", nil
		}
	}
	return vlib.Str(out), "", "", nil
}

// ---------------------------------------------------------------- generators

// matrices whose products with small dyadic coordinates are exact in float64
var exactMatrices = []mat6{
	{1, 0, 0, 1, 0, 0},
	{0.0009765625, 0, 0, 0.0009765625, 0, 0},
	{0.5, 0, 0, 2, 0, 0},
	{1, 0, 0.25, 1, 50, -20},
	{1, 0.125, 0, 1, 0, 0},
	{0.00048828125, 0.0001220703125, 0.000244140625, 0.00048828125, 0, 0},
	{2, 0, 0, 0.5, 7, 3},
	{-1, 0, 0, -1, 0, 0},
}

func genEnc(r *vlib.Rand, n int) ([]int, bool, string) {
	switch r.Intn(6) {
	case 0:
		return nil, false, "cfont:enc-nil"
	case 1:
		l := make([]int, vlib.Pick(r, []int{0, 1, 255, 257}))
		return l, true, "cfont:enc-wrong-length"
	default:
		l := make([]int, 256)
		for i := range l {
			switch r.Intn(5) {
			case 0:
				l[i] = r.Intn(n + 3) // may be just outside the font
			case 1:
				l[i] = vlib.Pick(r, []int{0, n, 65535, n - 1})
				if l[i] < 0 {
					l[i] = 0
				}
			default:
				l[i] = 0
			}
		}
		return l, true, "cfont:enc-256"
	}
}

func genCfont(run *vlib.Run, r *vlib.Rand, tier string) {
	// directed: the witnesses and the empty font
	for _, d := range directedCff() {
		enc, has, _ := genEnc(r, len(d.glyphs))
		emit(run, cfontLine(d, enc, has, probesFor(r, len(d.glyphs))), true, "stream:cfont-directed")
	}
	for i, n := 0, vlib.Count(tier, 160, 3500); i < n; i++ {
		d, labels := genCffD(r, cffOpts{})
		if r.Chance(1, 3) {
			// exactly representable matrices: float64 = real arithmetic
			d.top = vlib.Pick(r, exactMatrices)
			for k := range d.fmats {
				d.fmats[k] = vlib.Pick(r, exactMatrices)
			}
			if !thresholdSafe(d) || !originSafe(d) {
				continue
			}
			labels = append(labels, "cfont:exact-matrices")
		}
		enc, has, el := genEnc(r, len(d.glyphs))
		emit(run, cfontLine(d, enc, has, probesFor(r, len(d.glyphs))), cffNontrivial(d), append(labels, el, "stream:cfont")...)
	}
}

func genClone(run *vlib.Run, r *vlib.Rand, tier string) {
	all := vlib.List{}
	for s := 0; s < 2; s++ {
		for k := 0; k < 3; k++ {
			all = append(all, vlib.List{vlib.Atom("set"), vlib.Int(s), vlib.Int(k)})
			for j := 0; j < 3; j++ {
				all = append(all, vlib.List{vlib.Atom("elem"), vlib.Int(s), vlib.Int(k), vlib.Int(j)})
			}
		}
	}
	emit(run, vlib.Line(vlib.Atom("clone"), all), true, "stream:clone", "clone:every-field")
	for i, n := 0, vlib.Count(tier, 20, 200); i < n; i++ {
		ops := vlib.List{}
		for c, m := 0, r.Range(1, 6); c < m; c++ {
			if r.Bool() {
				ops = append(ops, vlib.List{vlib.Atom("set"), vlib.Int(r.Intn(2)), vlib.Int(r.Intn(3))})
			} else {
				ops = append(ops, vlib.List{vlib.Atom("elem"), vlib.Int(r.Intn(2)), vlib.Int(r.Intn(3)), vlib.Int(r.Intn(7))})
			}
		}
		emit(run, vlib.Line(vlib.Atom("clone"), ops), true, "stream:clone")
	}
}
