package c12b

// The derived header fields: the font is written with Font.Write and the
// tables are read back with a reader written from the OpenType table layouts
// (nothing of the library is used to parse the file).
//
//	wd cff  <cid top fmats fdsel glyphs> <cmap>
//	wd glyf <upem top glyphs widths names> <cmap>      cmap = (0) | (4 code...) | (12 code...)
//	rh <os2 value> <have cmap> <gid> <n> (<height>...)
//
// In a wd case code k of the cmap maps to glyph 1 + k mod (n-1).

import (
	"bytes"
	"encoding/binary"
	"fmt"

	"seehuhn.de/go/postscript/funit"

	"seehuhn.de/go/sfnt"
	"seehuhn.de/go/sfnt/verifharness/vlib"
)

func init() {
	runners["wd"] = runWd
	runners["rh"] = runRh
}

// tables parses the table directory of an sfnt file.
func tables(data []byte) (map[string][]byte, error) {
	if len(data) < 12 {
		return nil, fmt.Errorf("file too short")
	}
	n := int(binary.BigEndian.Uint16(data[4:]))
	out := map[string][]byte{}
	for i := 0; i < n; i++ {
		rec := 12 + 16*i
		if rec+16 > len(data) {
			return nil, fmt.Errorf("directory truncated")
		}
		tag := string(data[rec : rec+4])
		off := int(binary.BigEndian.Uint32(data[rec+8:]))
		ln := int(binary.BigEndian.Uint32(data[rec+12:]))
		if off+ln > len(data) {
			return nil, fmt.Errorf("table %q outside the file", tag)
		}
		out[tag] = data[off : off+ln]
	}
	return out, nil
}

func i16(b []byte, off int) int { return int(int16(binary.BigEndian.Uint16(b[off:]))) }
func u16(b []byte, off int) int { return int(binary.BigEndian.Uint16(b[off:])) }

type written struct {
	n                               int
	bbox                            [4]int
	advMax, minLSB, minRSB, xMaxExt int
	numLong                         int
	avg, first, last, wAsc, wDesc   int
	fixed                           bool
	hasHmtx                         bool
	ws, lsb                         []int
}

func readWritten(data []byte) (w written, err error) {
	tt, err := tables(data)
	if err != nil {
		return w, err
	}
	need := func(tag string, ln int) ([]byte, error) {
		t, ok := tt[tag]
		if !ok || len(t) < ln {
			return nil, fmt.Errorf("table %q missing or short", tag)
		}
		return t, nil
	}
	maxp, err := need("maxp", 6)
	if err != nil {
		return w, err
	}
	w.n = u16(maxp, 4)
	head, err := need("head", 54)
	if err != nil {
		return w, err
	}
	w.bbox = [4]int{i16(head, 36), i16(head, 38), i16(head, 40), i16(head, 42)}
	hhea, err := need("hhea", 36)
	if err != nil {
		return w, err
	}
	w.advMax, w.minLSB, w.minRSB, w.xMaxExt = i16(hhea, 10), i16(hhea, 12), i16(hhea, 14), i16(hhea, 16)
	w.numLong = u16(hhea, 34)
	os2, err := need("OS/2", 78)
	if err != nil {
		return w, err
	}
	w.avg, w.first, w.last = i16(os2, 2), u16(os2, 64), u16(os2, 66)
	w.wAsc, w.wDesc = i16(os2, 74), i16(os2, 76)
	post, err := need("post", 16)
	if err != nil {
		return w, err
	}
	w.fixed = binary.BigEndian.Uint32(post[12:]) != 0
	if hm, ok := tt["hmtx"]; ok {
		w.hasHmtx = true
		pos := 0
		last := 0
		for i := 0; i < w.n; i++ {
			if i < w.numLong {
				if pos+2 > len(hm) {
					return w, fmt.Errorf("hmtx too short")
				}
				last = i16(hm, pos)
				pos += 2
			}
			if pos+2 > len(hm) {
				return w, fmt.Errorf("hmtx too short")
			}
			w.ws = append(w.ws, last)
			w.lsb = append(w.lsb, i16(hm, pos))
			pos += 2
		}
	}
	return w, nil
}

func parseCmap(x vlib.Sx, n int) (cm cmapD, err error) {
	l, err := vlib.AsInts(x)
	if err != nil {
		return cm, err
	}
	if len(l) == 0 {
		return cm, fmt.Errorf("empty cmap item")
	}
	cm.format = l[0]
	cm.codes = l[1:]
	for k := range cm.codes {
		g := 0
		if n > 1 {
			g = 1 + k%(n-1)
		}
		cm.gids = append(cm.gids, g)
	}
	if cm.format != 0 && cm.format != 4 && cm.format != 12 {
		return cm, fmt.Errorf("bad cmap format")
	}
	return cm, nil
}

func runWd(_ string, items []vlib.Sx) (impl, fail, sig string, err error) {
	if len(items) != 7 {
		return "", "", "", fmt.Errorf("wd: want 7 items")
	}
	which, err := vlib.AsAtom(items[0])
	if err != nil {
		return "", "", "", err
	}
	var f *sfnt.Font
	var boxes [][4]int
	var ws []float64
	hasWidths := true
	inDomain := true
	var n int
	switch which {
	case "cff":
		d, err := parseCff(items[1:6])
		if err != nil {
			return "", "", "", err
		}
		f = buildCff(d)
		n = len(d.glyphs)
		inDomain = cffDeliverable(d)
		for _, g := range d.glyphs {
			b, fits, _ := extentDef(g.cmds)
			if !fits {
				inDomain = false
			}
			boxes = append(boxes, b)
			ws = append(ws, g.width)
		}
	case "glyf":
		d, err := parseGlyf(items[1:6])
		if err != nil {
			return "", "", "", err
		}
		f = buildGlyf(d)
		n = len(d.glyphs)
		hasWidths = d.hasWidths
		if d.hasWidths && len(d.widths) != n {
			inDomain = false
		}
		for i, g := range d.glyphs {
			if g == nil {
				boxes = append(boxes, [4]int{})
			} else {
				boxes = append(boxes, *g)
			}
			if d.hasWidths && i < len(d.widths) {
				ws = append(ws, float64(d.widths[i]))
			}
		}
	default:
		return "", "", "", fmt.Errorf("wd: unknown font kind %q", which)
	}
	cm, err := parseCmap(items[6], n)
	if err != nil {
		return "", "", "", err
	}
	installCmap(f, cm)
	var data []byte
	var werr error
	_, p := try(func() int {
		buf := &bytes.Buffer{}
		_, werr = f.Write(buf)
		data = buf.Bytes()
		return 0
	})
	def := derivedDefOf(boxes, ws, hasWidths, cm.codes)
	inDomain = inDomain && def.inDomain
	if p {
		if inDomain {
			return "panic", "Font.Write panics on a font in the domain of the derived-field clause", "c12b-panic", nil
		}
		return "panic", "", "", nil
	}
	if werr != nil {
		return "err", "", "", nil
	}
	w, err := readWritten(data)
	if err != nil {
		return "unreadable", "the written file cannot be parsed: " + err.Error(), "c12b-derived", nil
	}
	cols := vlib.List{vlib.Atom("cols"), vlib.Atom("nil"), vlib.Atom("nil")}
	if w.hasHmtx {
		cols = vlib.List{vlib.Atom("cols"), intsSx(w.ws), intsSx(w.lsb)}
	}
	impl = vlib.Str(vlib.List{
		vlib.List{vlib.Atom("derived"), vlib.Int(w.n), intsSx(w.bbox[:]), vlib.Int(w.advMax), vlib.Int(w.minLSB),
			vlib.Int(w.minRSB), vlib.Int(w.xMaxExt), vlib.Int(w.numLong), vlib.Int(w.avg), vlib.Int(w.first),
			vlib.Int(w.last), vlib.Int(w.wAsc), vlib.Int(w.wDesc), vlib.Bool(w.fixed)},
		cols})
	if !inDomain {
		why := def.why
		if why == "" {
			why = "outline beyond Int16 or not deliverable"
		}
		stats["wd-outside-domain: "+why]++
		return impl, "", "", nil
	}
	type fld struct {
		name      string
		got, want int
	}
	for _, c := range []fld{
		{"maxp.numGlyphs", w.n, def.n},
		{"head.xMin", w.bbox[0], def.bbox[0]}, {"head.yMin", w.bbox[1], def.bbox[1]},
		{"head.xMax", w.bbox[2], def.bbox[2]}, {"head.yMax", w.bbox[3], def.bbox[3]},
		{"hhea.advanceWidthMax", w.advMax, def.advMax}, {"hhea.minLeftSideBearing", w.minLSB, def.minLSB},
		{"hhea.minRightSideBearing", w.minRSB, def.minRSB}, {"hhea.xMaxExtent", w.xMaxExt, def.xMaxExt},
		{"hhea.numberOfHMetrics", w.numLong, def.numLong},
		{"OS/2.xAvgCharWidth", w.avg, def.avg}, {"OS/2.usFirstCharIndex", w.first, def.first},
		{"OS/2.usLastCharIndex", w.last, def.last}, {"OS/2.usWinAscent", w.wAsc, def.wAsc},
		{"OS/2.usWinDescent", w.wDesc, def.wDesc},
	} {
		if c.got != c.want {
			return impl, fmt.Sprintf("%s = %d, the definition over the outlines (boxes = floor/ceil of the end-point extrema) gives %d", c.name, c.got, c.want), "c12b-derived:" + c.name, nil
		}
	}
	if w.fixed != def.fixed {
		return impl, fmt.Sprintf("post.isFixedPitch = %v, definition gives %v", w.fixed, def.fixed), "c12b-derived:post.isFixedPitch", nil
	}
	if w.hasHmtx != hasWidths {
		return impl, fmt.Sprintf("hmtx table present = %v for a font with advance widths = %v", w.hasHmtx, hasWidths), "c12b-derived:hmtx", nil
	}
	if w.hasHmtx {
		for i := range boxes {
			if w.ws[i] != def.ws16[i] || w.lsb[i] != def.lsb[i] {
				return impl, fmt.Sprintf("hmtx[%d] = (aw %d, lsb %d), want (aw %d, lsb %d = xMin of the glyph box)", i, w.ws[i], w.lsb[i], def.ws16[i], def.lsb[i]), "c12b-derived:hmtx", nil
			}
		}
	}
	return impl, "", "", nil
}

// runRh: the cap-height / x-height fallback of sfnt.Read.
func runRh(_ string, items []vlib.Sx) (impl, fail, sig string, err error) {
	if len(items) != 5 {
		return "", "", "", fmt.Errorf("rh: want 5 items")
	}
	os2v, err := vlib.AsInt(items[0])
	if err != nil {
		return "", "", "", err
	}
	have, err := vlib.AsBool(items[1])
	if err != nil {
		return "", "", "", err
	}
	gid, err := vlib.AsInt(items[2])
	if err != nil {
		return "", "", "", err
	}
	n, err := vlib.AsInt(items[3])
	if err != nil {
		return "", "", "", err
	}
	heights, err := vlib.AsInts(items[4])
	if err != nil {
		return "", "", "", err
	}
	if n != len(heights) || n < 1 {
		return "", "", "", fmt.Errorf("rh: n must be the number of heights, at least 1")
	}
	d := &glyfD{upem: 1000, top: mat6{0.001, 0, 0, 0.001, 0, 0}, hasWidths: true}
	for _, h := range heights {
		d.glyphs = append(d.glyphs, &[4]int{0, -10, 10, h})
		d.widths = append(d.widths, 500)
	}
	f := buildGlyf(d)
	f.CapHeight, f.XHeight = funit.Int16(os2v), funit.Int16(os2v)
	if have {
		installCmap(f, cmapD{format: 4, codes: []int{'H', 'x', 'A'}, gids: []int{gid, gid, 0}})
	}
	g, _, rerr := writeRead(f)
	if rerr != nil {
		return "err", "", "", nil
	}
	want := os2v
	if os2v == 0 && have && gid != 0 && gid < n {
		want = heights[gid]
	}
	if int(g.CapHeight) != int(g.XHeight) {
		impl = fmt.Sprintf("(cap %d xh %d)", g.CapHeight, g.XHeight)
	} else {
		impl = fmt.Sprint(int(g.CapHeight))
	}
	if int(g.CapHeight) != want || int(g.XHeight) != want {
		return impl, fmt.Sprintf("after Write+Read CapHeight = %d, XHeight = %d; OS/2 value %d, 'H' and 'x' map to glyph %d of %d whose box top is %v: want %d",
			g.CapHeight, g.XHeight, os2v, gid, n, heights, want), "c12b-read-height", nil
	}
	return impl, "", "", nil
}
