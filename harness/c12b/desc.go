// Package c12b is the harness of part C12B of property C12: the QUERY side of
// a font (Extent, GlyphBBoxPDF, FontBBox, FontBBoxPDF, the width queries,
// IsFixedPitch, GlyphName, glyphHeight) and the header fields Font.Write
// derives from these queries.
//
// A case line describes a font VALUE exactly: every coordinate, width and
// matrix entry is printed as the dyadic rational the float64 holds ("m@e" =
// m * 2^e, or a plain integer), so that the extracted Coq model - which
// computes in exact rational arithmetic - sees the numbers the Go code sees.
// The float64 answers of the implementation are embedded in the line as
// "claims"; the model checks each against its exact value with the checker
// Qnear (relative tolerance 1e-9) and prints "ok".  Exact observables
// (integers, widths handed through) are compared as strings.
package c12b

import (
	"fmt"
	"math"
	"math/big"
	"strconv"
	"strings"

	"seehuhn.de/go/sfnt/verifharness/vlib"
)

// ---------------------------------------------------------------- numbers

// fnum prints the exact value of a float64.
func fnum(x float64) string {
	if math.IsNaN(x) {
		return "nan"
	}
	if math.IsInf(x, 1) {
		return "inf"
	}
	if math.IsInf(x, -1) {
		return "-inf"
	}
	if x == 0 {
		return "0"
	}
	r := new(big.Rat).SetFloat64(x)
	if r.IsInt() {
		if r.Num().IsInt64() && r.Num().BitLen() < 62 {
			return r.Num().String()
		}
		// a large integer: m * 2^e with m odd
		n := new(big.Int).Set(r.Num())
		e := 0
		for n.Bit(0) == 0 {
			n.Rsh(n, 1)
			e++
		}
		return fmt.Sprintf("%s@%d", n.String(), e)
	}
	// the denominator of a float64 is a power of two and big.Rat is reduced
	k := r.Denom().BitLen() - 1
	return fmt.Sprintf("%s@-%d", r.Num().String(), k)
}

func pnum(s string) (float64, error) {
	switch s {
	case "nan":
		return math.NaN(), nil
	case "inf":
		return math.Inf(1), nil
	case "-inf":
		return math.Inf(-1), nil
	}
	i := strings.IndexByte(s, '@')
	if i < 0 {
		m, err := strconv.ParseInt(s, 10, 64)
		if err != nil {
			return 0, err
		}
		if m > 1<<53 || m < -(1<<53) {
			return 0, fmt.Errorf("integer %s is not a float64 mantissa", s)
		}
		return float64(m), nil
	}
	m, err := strconv.ParseInt(s[:i], 10, 64)
	if err != nil {
		return 0, err
	}
	e, err := strconv.Atoi(s[i+1:])
	if err != nil {
		return 0, err
	}
	if m > 1<<53 || m < -(1<<53) {
		return 0, fmt.Errorf("mantissa of %s too large", s)
	}
	return math.Ldexp(float64(m), e), nil
}

func asNum(x vlib.Sx) (float64, error) {
	a, err := vlib.AsAtom(x)
	if err != nil {
		return 0, err
	}
	return pnum(a)
}

func numAtom(x float64) vlib.Sx { return vlib.Atom(fnum(x)) }

func rat(x float64) *big.Rat { return new(big.Rat).SetFloat64(x) }

// ---------------------------------------------------------------- descriptions

type mat6 [6]float64

type cmdD struct {
	op   int
	args []float64
}

type glyphD struct {
	name  int // 0 = ".notdef", 1 = "", k >= 2 = "g<k>"
	width float64
	cmds  []cmdD
}

// cffD describes an sfnt.Font with CFF outlines as far as the queries see it.
type cffD struct {
	cid    bool
	top    mat6
	fmats  []mat6
	fdsel  []int // per glyph; empty for simple fonts
	glyphs []glyphD
}

// glyfD describes an sfnt.Font with TrueType outlines as far as the queries see it.
type glyfD struct {
	upem      int
	top       mat6
	glyphs    []*[4]int // nil = blank glyph
	widths    []int
	hasWidths bool
	names     []int
	hasNames  bool
}

func nameOf(id int) string {
	switch id {
	case 0:
		return ".notdef"
	case 1:
		return ""
	}
	return "g" + strconv.Itoa(id)
}

func idOfName(s string) (int, bool) {
	switch {
	case s == ".notdef":
		return 0, true
	case s == "":
		return 1, true
	case strings.HasPrefix(s, "g"):
		k, err := strconv.Atoi(s[1:])
		if err == nil && k >= 2 && nameOf(k) == s {
			return k, true
		}
	}
	return 0, false
}

func matSx(m mat6) vlib.Sx {
	l := make(vlib.List, 6)
	for i, v := range m {
		l[i] = numAtom(v)
	}
	return l
}

func cmdsSx(cmds []cmdD) vlib.Sx {
	l := make(vlib.List, len(cmds))
	for i, c := range cmds {
		cl := vlib.List{vlib.Int(c.op)}
		for _, a := range c.args {
			cl = append(cl, numAtom(a))
		}
		l[i] = cl
	}
	return l
}

func intsSx(xs []int) vlib.Sx {
	l := make(vlib.List, len(xs))
	for i, x := range xs {
		l[i] = vlib.Int(x)
	}
	return l
}

// items: cid top fmats fdsel glyphs
func (d *cffD) sx() []vlib.Sx {
	fm := make(vlib.List, len(d.fmats))
	for i, m := range d.fmats {
		fm[i] = matSx(m)
	}
	gl := make(vlib.List, len(d.glyphs))
	for i, g := range d.glyphs {
		gl[i] = vlib.List{vlib.Int(g.name), numAtom(g.width), cmdsSx(g.cmds)}
	}
	return []vlib.Sx{vlib.Bool(d.cid), matSx(d.top), fm, intsSx(d.fdsel), gl}
}

// items: upem top glyphs widths names
func (d *glyfD) sx() []vlib.Sx {
	gl := make(vlib.List, len(d.glyphs))
	for i, g := range d.glyphs {
		if g == nil {
			gl[i] = vlib.Atom("nil")
		} else {
			gl[i] = intsSx(g[:])
		}
	}
	var ws, ns vlib.Sx = vlib.Atom("nil"), vlib.Atom("nil")
	if d.hasWidths {
		ws = intsSx(d.widths)
	}
	if d.hasNames {
		ns = intsSx(d.names)
	}
	return []vlib.Sx{vlib.Int(d.upem), matSx(d.top), gl, ws, ns}
}

func parseMat(x vlib.Sx) (m mat6, err error) {
	l, err := vlib.AsList(x)
	if err != nil {
		return m, err
	}
	if len(l) != 6 {
		return m, fmt.Errorf("matrix: want 6 numbers")
	}
	for i := range m {
		if m[i], err = asNum(l[i]); err != nil {
			return m, err
		}
	}
	return m, nil
}

func parseCmds(x vlib.Sx) ([]cmdD, error) {
	l, err := vlib.AsList(x)
	if err != nil {
		return nil, err
	}
	out := make([]cmdD, len(l))
	for i, cx := range l {
		cl, err := vlib.AsList(cx)
		if err != nil {
			return nil, err
		}
		if len(cl) == 0 {
			return nil, fmt.Errorf("empty command")
		}
		if out[i].op, err = vlib.AsInt(cl[0]); err != nil {
			return nil, err
		}
		for _, a := range cl[1:] {
			v, err := asNum(a)
			if err != nil {
				return nil, err
			}
			out[i].args = append(out[i].args, v)
		}
	}
	return out, nil
}

func isNilAtom(x vlib.Sx) bool {
	a, ok := x.(vlib.Atom)
	return ok && string(a) == "nil"
}

func parseCff(items []vlib.Sx) (*cffD, error) {
	if len(items) != 5 {
		return nil, fmt.Errorf("cff description: want 5 items")
	}
	d := &cffD{}
	var err error
	if d.cid, err = vlib.AsBool(items[0]); err != nil {
		return nil, err
	}
	if d.top, err = parseMat(items[1]); err != nil {
		return nil, err
	}
	fl, err := vlib.AsList(items[2])
	if err != nil {
		return nil, err
	}
	for _, fx := range fl {
		m, err := parseMat(fx)
		if err != nil {
			return nil, err
		}
		d.fmats = append(d.fmats, m)
	}
	if d.fdsel, err = vlib.AsInts(items[3]); err != nil {
		return nil, err
	}
	gl, err := vlib.AsList(items[4])
	if err != nil {
		return nil, err
	}
	for _, gx := range gl {
		g, err := vlib.AsList(gx)
		if err != nil {
			return nil, err
		}
		if len(g) != 3 {
			return nil, fmt.Errorf("glyph: want (name width cmds)")
		}
		var gd glyphD
		if gd.name, err = vlib.AsInt(g[0]); err != nil {
			return nil, err
		}
		if gd.width, err = asNum(g[1]); err != nil {
			return nil, err
		}
		if gd.cmds, err = parseCmds(g[2]); err != nil {
			return nil, err
		}
		d.glyphs = append(d.glyphs, gd)
	}
	return d, nil
}

func parseGlyf(items []vlib.Sx) (*glyfD, error) {
	if len(items) != 5 {
		return nil, fmt.Errorf("glyf description: want 5 items")
	}
	d := &glyfD{}
	var err error
	if d.upem, err = vlib.AsInt(items[0]); err != nil {
		return nil, err
	}
	if d.top, err = parseMat(items[1]); err != nil {
		return nil, err
	}
	gl, err := vlib.AsList(items[2])
	if err != nil {
		return nil, err
	}
	for _, gx := range gl {
		if isNilAtom(gx) {
			d.glyphs = append(d.glyphs, nil)
			continue
		}
		b, err := vlib.AsInts(gx)
		if err != nil {
			return nil, err
		}
		if len(b) != 4 {
			return nil, fmt.Errorf("glyph box: want 4 integers")
		}
		d.glyphs = append(d.glyphs, &[4]int{b[0], b[1], b[2], b[3]})
	}
	if !isNilAtom(items[3]) {
		d.hasWidths = true
		if d.widths, err = vlib.AsInts(items[3]); err != nil {
			return nil, err
		}
	}
	if !isNilAtom(items[4]) {
		d.hasNames = true
		if d.names, err = vlib.AsInts(items[4]); err != nil {
			return nil, err
		}
	}
	return d, nil
}

func sameSx(a, b []vlib.Sx) bool { return vlib.Line(a...) == vlib.Line(b...) }
