package c12b

import (
	"bytes"
	"fmt"
	"sync"

	"golang.org/x/image/font/gofont/goregular"
	"seehuhn.de/go/geom/matrix"
	"seehuhn.de/go/postscript/cid"
	"seehuhn.de/go/postscript/funit"
	"seehuhn.de/go/postscript/type1"

	"seehuhn.de/go/sfnt"
	"seehuhn.de/go/sfnt/cff"
	"seehuhn.de/go/sfnt/cmap"
	"seehuhn.de/go/sfnt/glyf"
	"seehuhn.de/go/sfnt/glyph"
	"seehuhn.de/go/sfnt/internal/debug"
)

var (
	baseOnce   sync.Once
	baseTTF    *sfnt.Font
	baseCFF    *sfnt.Font
	someSimple glyf.SimpleGlyph
)

func bases() (*sfnt.Font, *sfnt.Font) {
	baseOnce.Do(func() {
		var err error
		baseTTF, err = sfnt.Read(bytes.NewReader(goregular.TTF))
		if err != nil {
			panic(err)
		}
		for _, g := range baseTTF.Outlines.(*glyf.Outlines).Glyphs {
			if g == nil {
				continue
			}
			if sg, ok := g.Data.(glyf.SimpleGlyph); ok {
				someSimple = sg
				break
			}
		}
		baseCFF = debug.MakeSimpleFont()
	})
	return baseTTF, baseCFF
}

func isMask(op int) bool { return op == int(cff.OpHintMask) || op == int(cff.OpCntrMask) }

// buildCff makes the font value the description stands for.  Glyphs that
// carry hint masks declare two horizontal and two vertical stems (one mask
// byte), the layout of hinted CFF glyphs with hint replacement.
func buildCff(d *cffD) *sfnt.Font {
	_, cf := bases()
	f := cf.Clone()
	base := cf.Outlines.(*cff.Outlines)
	o := &cff.Outlines{}
	for _, g := range d.glyphs {
		cg := cff.NewGlyph(nameOf(g.name), g.width)
		hinted := false
		for _, c := range g.cmds {
			cg.Cmds = append(cg.Cmds, cff.GlyphOp{Op: cff.GlyphOpType(c.op), Args: append([]float64(nil), c.args...)})
			if isMask(c.op) {
				hinted = true
			}
		}
		if hinted {
			cg.HStem = []float64{-50, -30}
			cg.VStem = []float64{10, 60}
		}
		o.Glyphs = append(o.Glyphs, cg)
	}
	nPriv := 1
	if d.cid && len(d.fmats) > 1 {
		nPriv = len(d.fmats)
	}
	for k := 0; k < nPriv; k++ {
		p := *base.Private[0]
		o.Private = append(o.Private, &p)
	}
	f.FontMatrix = matrix.Matrix(d.top)
	if d.cid {
		for _, m := range d.fmats {
			o.FontMatrices = append(o.FontMatrices, matrix.Matrix(m))
		}
		fds := append([]int(nil), d.fdsel...)
		o.FDSelect = func(g glyph.ID) int { return fds[g] }
		o.ROS = &cid.SystemInfo{Registry: "Adobe", Ordering: "Identity", Supplement: 0}
		o.GIDToCID = make([]cid.CID, len(d.glyphs))
		for i := range o.GIDToCID {
			o.GIDToCID[i] = cid.CID(i)
		}
	} else {
		o.FDSelect = func(glyph.ID) int { return 0 }
		o.Encoding = make([]glyph.ID, 256)
	}
	f.Outlines = o
	f.CMapTable = nil
	f.Gdef, f.Gsub, f.Gpos = nil, nil, nil
	return f
}

var _ = type1.PrivateDict{}

func buildGlyf(d *glyfD) *sfnt.Font {
	ttf, _ := bases()
	f := ttf.Clone()
	bo := ttf.Outlines.(*glyf.Outlines)
	o := &glyf.Outlines{Tables: bo.Tables, Maxp: bo.Maxp}
	for _, b := range d.glyphs {
		if b == nil {
			o.Glyphs = append(o.Glyphs, nil)
		} else {
			o.Glyphs = append(o.Glyphs, &glyf.Glyph{
				Rect16: funit.Rect16{LLx: funit.Int16(b[0]), LLy: funit.Int16(b[1]), URx: funit.Int16(b[2]), URy: funit.Int16(b[3])},
				Data:   someSimple,
			})
		}
	}
	if d.hasWidths {
		o.Widths = make([]funit.Int16, len(d.widths))
		for i, w := range d.widths {
			o.Widths[i] = funit.Int16(w)
		}
	}
	if d.hasNames {
		o.Names = make([]string, len(d.names))
		for i, k := range d.names {
			o.Names[i] = nameOf(k)
		}
	}
	f.Outlines = o
	f.UnitsPerEm = uint16(d.upem)
	f.FontMatrix = matrix.Matrix(d.top)
	f.CMapTable = nil
	f.Gdef, f.Gsub, f.Gpos = nil, nil, nil
	return f
}

// describeCff reads a description off a font value (used for fonts that came
// back from Write + Read).
func describeCff(f *sfnt.Font) (d *cffD, err error) {
	defer func() {
		if e := recover(); e != nil {
			d, err = nil, fmt.Errorf("describe: %v", e)
		}
	}()
	o, ok := f.Outlines.(*cff.Outlines)
	if !ok {
		return nil, fmt.Errorf("not a CFF font")
	}
	d = &cffD{cid: o.IsCIDKeyed(), top: mat6(f.FontMatrix)}
	for _, m := range o.FontMatrices {
		d.fmats = append(d.fmats, mat6(m))
	}
	for i, g := range o.Glyphs {
		id, ok := idOfName(g.Name)
		if !ok {
			return nil, fmt.Errorf("glyph name %q has no id", g.Name)
		}
		gd := glyphD{name: id, width: g.Width}
		for _, c := range g.Cmds {
			gd.cmds = append(gd.cmds, cmdD{op: int(c.Op), args: append([]float64(nil), c.Args...)})
		}
		d.glyphs = append(d.glyphs, gd)
		if d.cid {
			d.fdsel = append(d.fdsel, o.FDSelect(glyph.ID(i)))
		}
	}
	return d, nil
}

func describeGlyf(f *sfnt.Font) (d *glyfD, err error) {
	o, ok := f.Outlines.(*glyf.Outlines)
	if !ok {
		return nil, fmt.Errorf("not a TrueType font")
	}
	d = &glyfD{upem: int(f.UnitsPerEm), top: mat6(f.FontMatrix)}
	for _, g := range o.Glyphs {
		if g == nil {
			d.glyphs = append(d.glyphs, nil)
		} else {
			d.glyphs = append(d.glyphs, &[4]int{int(g.LLx), int(g.LLy), int(g.URx), int(g.URy)})
		}
	}
	if o.Widths != nil {
		d.hasWidths = true
		for _, w := range o.Widths {
			d.widths = append(d.widths, int(w))
		}
	}
	if o.Names != nil {
		d.hasNames = true
		for _, s := range o.Names {
			id, ok := idOfName(s)
			if !ok {
				return nil, fmt.Errorf("glyph name %q has no id", s)
			}
			d.names = append(d.names, id)
		}
	}
	return d, nil
}

// writeRead sends a font through Font.Write and sfnt.Read.
func writeRead(f *sfnt.Font) (g *sfnt.Font, data []byte, err error) {
	defer func() {
		if e := recover(); e != nil {
			g, data, err = nil, nil, fmt.Errorf("panic: %v", e)
		}
	}()
	buf := &bytes.Buffer{}
	if _, err := f.Write(buf); err != nil {
		return nil, nil, err
	}
	g, err = sfnt.Read(bytes.NewReader(buf.Bytes()))
	return g, buf.Bytes(), err
}

// cmapD: format 0 = none, 4 or 12; code k maps to gids[k].
type cmapD struct {
	format int
	codes  []int
	gids   []int
}

func installCmap(f *sfnt.Font, cm cmapD) {
	switch cm.format {
	case 0:
		f.CMapTable = nil
	case 4:
		m := cmap.Format4{}
		for k, c := range cm.codes {
			m[uint16(c)] = glyph.ID(cm.gids[k])
		}
		f.CMapTable = nil
		f.InstallCMap(m)
	case 12:
		m := cmap.Format12{}
		for k, c := range cm.codes {
			m[uint32(c)] = glyph.ID(cm.gids[k])
		}
		f.CMapTable = nil
		f.InstallCMap(m)
	default:
		panic("bad cmap format")
	}
}
