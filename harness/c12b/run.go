package c12b

import (
	"fmt"
	"math"
	"math/big"
	"sort"
	"strings"

	"seehuhn.de/go/geom/matrix"
	"seehuhn.de/go/geom/rect"
	"seehuhn.de/go/postscript/funit"

	"seehuhn.de/go/sfnt"
	"seehuhn.de/go/sfnt/cff"
	"seehuhn.de/go/sfnt/glyph"
	"seehuhn.de/go/sfnt/verifharness/vlib"
)

type runner func(kind string, items []vlib.Sx) (impl, fail, sig string, err error)

var runners = map[string]runner{}

var stats = map[string]int{}

func init() {
	runners["extent"] = runExtent
	runners["cff"] = runCffCase
	runners["cffrt"] = runCffCase
	runners["glyf"] = runGlyfCase
	runners["glyfrt"] = runGlyfCase
}

func runLine(line string) (impl, fail, sig string, err error) {
	line = strings.TrimPrefix(strings.TrimSpace(line), "!")
	items, err := vlib.Parse(line)
	if err != nil {
		return "", "", "", err
	}
	if len(items) == 0 {
		return "", "", "", fmt.Errorf("empty case")
	}
	kind, err := vlib.AsAtom(items[0])
	if err != nil {
		return "", "", "", err
	}
	f, ok := runners[kind]
	if !ok {
		return "", "", "", fmt.Errorf("unknown case kind %q", kind)
	}
	return f(kind, items[1:])
}

// RunCase is the entry point for corpus lines and replays.
func RunCase(line string) (impl, fail, sig string, err error) { return runLine(line) }

// try calls f; a panic is an observation.
func try[T any](f func() T) (v T, panicked bool) {
	defer func() {
		if e := recover(); e != nil {
			panicked = true
		}
	}()
	return f(), false
}

func rectSx(r funit.Rect16) vlib.Sx {
	return vlib.List{vlib.Int(int(r.LLx)), vlib.Int(int(r.LLy)), vlib.Int(int(r.URx)), vlib.Int(int(r.URy))}
}

func boxOfRect(r funit.Rect16) [4]int {
	return [4]int{int(r.LLx), int(r.LLy), int(r.URx), int(r.URy)}
}

var panicAtom = vlib.Atom("panic")

// ---------------------------------------------------------------- extent

func runExtent(_ string, items []vlib.Sx) (impl, fail, sig string, err error) {
	if len(items) != 1 {
		return "", "", "", fmt.Errorf("extent: want 1 item")
	}
	cmds, err := parseCmds(items[0])
	if err != nil {
		return "", "", "", err
	}
	g := cff.NewGlyph("x", 0)
	for _, c := range cmds {
		g.Cmds = append(g.Cmds, cff.GlyphOp{Op: cff.GlyphOpType(c.op), Args: append([]float64(nil), c.args...)})
	}
	r, p := try(g.Extent)
	want, fits, wf := extentDef(cmds)
	if p {
		if wf {
			return "panic", "Extent panics on a glyph whose point commands all have their arguments", "c12b-panic", nil
		}
		return "panic", "", "", nil
	}
	impl = vlib.Str(append(vlib.List{vlib.Atom("rect")}, rectSx(r).(vlib.List)...))
	if !wf {
		return impl, "", "", nil // the library did not reach the short command
	}
	if fits && boxOfRect(r) != want {
		return impl, fmt.Sprintf("Extent = %v, the end points of moveto/lineto/curveto give (floor min, ceil max) = %v", r, want), "c12b-extent", nil
	}
	return impl, "", "", nil
}

// ---------------------------------------------------------------- claims

type claim struct {
	panicked bool
	isNil    bool
	vals     []float64
	keys     []int // WidthsMapPDF only
}

func (c claim) sx() vlib.Sx {
	if c.panicked {
		return panicAtom
	}
	if c.isNil {
		return vlib.Atom("nil")
	}
	if c.keys != nil {
		l := make(vlib.List, len(c.keys))
		for i, k := range c.keys {
			l[i] = vlib.List{vlib.Int(k), numAtom(c.vals[i])}
		}
		return l
	}
	l := make(vlib.List, len(c.vals))
	for i, v := range c.vals {
		l[i] = numAtom(v)
	}
	return l
}

func scalarSx(c claim) vlib.Sx {
	if c.panicked {
		return panicAtom
	}
	return numAtom(c.vals[0])
}

func rectClaim(f func() rect.Rect) claim {
	r, p := try(f)
	if p {
		return claim{panicked: true}
	}
	return claim{vals: []float64{r.LLx, r.LLy, r.URx, r.URy}}
}

// verdictOf: what the implementation side prints for a claim: "ok" / "panic"
// / "nil" - or (changed ...) when the value embedded in the case line is not
// what the code returns now (a stale corpus line, or changed code).
func verdictOf(fresh claim, embedded vlib.Sx, scalar bool) vlib.Sx {
	var fs vlib.Sx
	if scalar {
		fs = scalarSx(fresh)
	} else {
		fs = fresh.sx()
	}
	if !sameClaim(fs, embedded) {
		return vlib.List{vlib.Atom("changed"), fs}
	}
	switch {
	case fresh.panicked:
		return panicAtom
	case fresh.isNil:
		return vlib.Atom("nil")
	}
	return vlib.Atom("ok")
}

func sameClaim(a, b vlib.Sx) bool {
	if vlib.Str(a) == vlib.Str(b) {
		return true
	}
	la, oka := a.(vlib.List)
	lb, okb := b.(vlib.List)
	if oka && okb {
		if len(la) != len(lb) {
			return false
		}
		for i := range la {
			if !sameClaim(la[i], lb[i]) {
				return false
			}
		}
		return true
	}
	if oka || okb {
		return false
	}
	x, e1 := asNum(a)
	y, e2 := asNum(b)
	if e1 != nil || e2 != nil || math.IsNaN(x) || math.IsNaN(y) {
		return false
	}
	return math.Abs(x-y) <= 1e-12*math.Max(math.Abs(x), math.Abs(y))
}

func findClaim(claims []vlib.Sx, key string) ([]vlib.Sx, error) {
	for _, c := range claims {
		if l, ok := c.(vlib.List); ok && len(l) > 0 {
			if a, ok := l[0].(vlib.Atom); ok && string(a) == key {
				return l[1:], nil
			}
		}
	}
	return nil, fmt.Errorf("claim %q missing", key)
}

// ---------------------------------------------------------------- observations

// obs holds everything the queries of one font returned.
type obs struct {
	n         int
	nPanic    bool
	widths    []float64
	wPanic    bool
	gw        []claim // per probe
	boxes     []funit.Rect16
	bPanic    bool
	gbox      []funit.Rect16
	gboxPanic []bool
	fbox      funit.Rect16
	fboxPanic bool
	obox      funit.Rect16 // cff.Outlines.BBox
	oboxPanic bool
	height    []int
	hPanic    []bool
	names     []string
	namePanic []bool
	fixed     bool
	fixedPan  bool
	gbp       []claim
	fbp       claim
	wpdf      claim
	gwp       []claim
	wmap      claim
}

func observe(f *sfnt.Font, probes []int, fm mat6, isCff bool) *obs {
	o := &obs{}
	o.n, o.nPanic = try(f.NumGlyphs)
	o.widths, o.wPanic = try(f.Widths)
	o.boxes, o.bPanic = try(f.GlyphBBoxes)
	o.fbox, o.fboxPanic = try(f.FontBBox)
	if co, ok := f.Outlines.(*cff.Outlines); ok {
		o.obox, o.oboxPanic = try(co.BBox)
	}
	o.fixed, o.fixedPan = try(f.IsFixedPitch)
	for _, p := range probes {
		gid := glyph.ID(p)
		w, wp := try(func() float64 { return f.GlyphWidth(gid) })
		o.gw = append(o.gw, claim{panicked: wp, vals: []float64{w}})
		b, bp := try(func() funit.Rect16 { return f.GlyphBBox(gid) })
		o.gbox, o.gboxPanic = append(o.gbox, b), append(o.gboxPanic, bp)
		h, hp := try(func() funit.Int16 { return f.VerifC12BGlyphHeight(gid) })
		o.height, o.hPanic = append(o.height, int(h)), append(o.hPanic, hp)
		nm, np := try(func() string { return f.GlyphName(gid) })
		o.names, o.namePanic = append(o.names, nm), append(o.namePanic, np)
		o.gbp = append(o.gbp, rectClaim(func() rect.Rect { return f.Outlines.GlyphBBoxPDF(matrix.Matrix(fm), gid) }))
		wp2, wpp := try(func() float64 { return f.GlyphWidthPDF(gid) })
		o.gwp = append(o.gwp, claim{panicked: wpp, vals: []float64{wp2}})
	}
	o.fbp = rectClaim(f.FontBBoxPDF)
	wl, wlp := try(f.WidthsPDF)
	o.wpdf = claim{panicked: wlp, isNil: !wlp && wl == nil, vals: wl}
	if isCff {
		mp, mpp := try(f.WidthsMapPDF)
		o.wmap = claim{panicked: mpp, isNil: !mpp && mp == nil}
		if mp != nil {
			type kv struct {
				k int
				v float64
			}
			var kvs []kv
			for name, v := range mp {
				id, ok := idOfName(name)
				if !ok {
					id = -1
				}
				kvs = append(kvs, kv{id, v})
			}
			sort.Slice(kvs, func(i, j int) bool { return kvs[i].k < kvs[j].k })
			o.wmap.keys = []int{}
			for _, e := range kvs {
				o.wmap.keys = append(o.wmap.keys, e.k)
				o.wmap.vals = append(o.wmap.vals, e.v)
			}
		}
	}
	return o
}

func (o *obs) claims(isCff bool) vlib.Sx {
	l := vlib.List{}
	g := vlib.List{vlib.Atom("gbp")}
	for _, c := range o.gbp {
		g = append(g, c.sx())
	}
	l = append(l, g, vlib.List{vlib.Atom("fbp"), o.fbp.sx()}, vlib.List{vlib.Atom("wpdf"), o.wpdf.sx()})
	w := vlib.List{vlib.Atom("gwp")}
	for _, c := range o.gwp {
		w = append(w, scalarSx(c))
	}
	l = append(l, w)
	if isCff {
		l = append(l, vlib.List{vlib.Atom("wmap"), o.wmap.sx()})
	}
	return l
}

func orPanic(p bool, x vlib.Sx) vlib.Sx {
	if p {
		return panicAtom
	}
	return x
}

func numsSx(xs []float64) vlib.List {
	l := make(vlib.List, len(xs))
	for i, x := range xs {
		l[i] = numAtom(x)
	}
	return l
}

func rectsSx(rs []funit.Rect16) vlib.List {
	l := make(vlib.List, len(rs))
	for i, r := range rs {
		l[i] = rectSx(r)
	}
	return l
}

// implLine renders the observation in the syntax the model driver prints.
func (o *obs) implLine(isCff bool, embedded []vlib.Sx) (string, error) {
	out := vlib.List{vlib.List{vlib.Atom("n"), vlib.Int(o.n)}}
	if isCff {
		out = append(out, append(vlib.List{vlib.Atom("widths")}, numsSx(o.widths)...))
	} else {
		out = append(out, vlib.List{vlib.Atom("widths"), orPanic(o.wPanic, numsSx(o.widths))})
	}
	gw := vlib.List{vlib.Atom("gw")}
	for _, c := range o.gw {
		gw = append(gw, scalarSx(c))
	}
	out = append(out, gw, vlib.List{vlib.Atom("boxes"), orPanic(o.bPanic, rectsSx(o.boxes))})
	gb := vlib.List{vlib.Atom("gbox")}
	for i, r := range o.gbox {
		gb = append(gb, orPanic(o.gboxPanic[i], rectSx(r)))
	}
	out = append(out, gb, vlib.List{vlib.Atom("fbox"), orPanic(o.fboxPanic, rectSx(o.fbox))})
	hs := vlib.List{vlib.Atom("height")}
	for i, h := range o.height {
		hs = append(hs, orPanic(o.hPanic[i], vlib.Int(h)))
	}
	out = append(out, hs)
	ns := vlib.List{vlib.Atom("name")}
	for i, s := range o.names {
		var x vlib.Sx
		id, ok := idOfName(s)
		switch {
		case !ok:
			x = vlib.Atom("unknown-name")
		case !isCff && s == "":
			x = vlib.Atom("none")
		default:
			x = vlib.Int(id)
		}
		ns = append(ns, orPanic(o.namePanic[i], x))
	}
	out = append(out, ns)
	if isCff {
		out = append(out, vlib.List{vlib.Atom("fixed"), vlib.Bool(o.fixed)})
	} else {
		out = append(out, vlib.List{vlib.Atom("fixed"), orPanic(o.fixedPan, vlib.Bool(o.fixed))})
	}
	eg, err := findClaim(embedded, "gbp")
	if err != nil {
		return "", err
	}
	ew, err := findClaim(embedded, "gwp")
	if err != nil {
		return "", err
	}
	if len(eg) != len(o.gbp) || len(ew) != len(o.gwp) {
		return "", fmt.Errorf("claims and probes differ in length")
	}
	g := vlib.List{vlib.Atom("gbp")}
	for i, c := range o.gbp {
		g = append(g, verdictOf(c, eg[i], false))
	}
	out = append(out, g)
	one := func(key string, c claim) error {
		e, err := findClaim(embedded, key)
		if err != nil {
			return err
		}
		if len(e) != 1 {
			return fmt.Errorf("claim %s: want one value", key)
		}
		out = append(out, vlib.List{vlib.Atom(key), verdictOf(c, e[0], false)})
		return nil
	}
	if err := one("fbp", o.fbp); err != nil {
		return "", err
	}
	if err := one("wpdf", o.wpdf); err != nil {
		return "", err
	}
	w := vlib.List{vlib.Atom("gwp")}
	for i, c := range o.gwp {
		w = append(w, verdictOf(c, ew[i], true))
	}
	out = append(out, w)
	if isCff {
		if err := one("wmap", o.wmap); err != nil {
			return "", err
		}
	}
	return vlib.Str(out), nil
}

// ---------------------------------------------------------------- cff / glyf cases

func parseProbes(x vlib.Sx) ([]int, error) { return vlib.AsInts(x) }

// prepareCff builds the font of a case; for the round-trip kind the font goes
// through Write + Read first (and must come back as described).
func prepareCff(kind string, d *cffD) (*sfnt.Font, string) {
	f := buildCff(d)
	if kind != "cffrt" {
		return f, "memory"
	}
	g, _, err := writeRead(f)
	if err != nil {
		stats["cffrt-unwritable"]++
		return f, "rt-failed"
	}
	d2, err := describeCff(g)
	if err != nil || !sameSx(d.sx(), d2.sx()) {
		stats["cffrt-not-fixed-point"]++
		return f, "rt-unstable"
	}
	return g, "rt"
}

func prepareGlyf(kind string, d *glyfD) (*sfnt.Font, string) {
	f := buildGlyf(d)
	if kind != "glyfrt" {
		return f, "memory"
	}
	g, _, err := writeRead(f)
	if err != nil {
		stats["glyfrt-unwritable"]++
		return f, "rt-failed"
	}
	d2, err := describeGlyf(g)
	if err != nil || !sameSx(d.sx(), d2.sx()) {
		stats["glyfrt-not-fixed-point"]++
		return f, "rt-unstable"
	}
	return g, "rt"
}

func runCffCase(kind string, items []vlib.Sx) (impl, fail, sig string, err error) {
	if len(items) != 8 {
		return "", "", "", fmt.Errorf("%s: want 8 items", kind)
	}
	d, err := parseCff(items[:5])
	if err != nil {
		return "", "", "", err
	}
	probes, err := parseProbes(items[5])
	if err != nil {
		return "", "", "", err
	}
	fm, err := parseMat(items[6])
	if err != nil {
		return "", "", "", err
	}
	embedded, err := vlib.AsList(items[7])
	if err != nil {
		return "", "", "", err
	}
	f, _ := prepareCff(kind, d)
	o := observe(f, probes, fm, true)
	impl, err = o.implLine(true, embedded)
	if err != nil {
		return "", "", "", err
	}
	fail, sig = oracleCff(d, probes, fm, o)
	return impl, fail, sig, nil
}

func runGlyfCase(kind string, items []vlib.Sx) (impl, fail, sig string, err error) {
	if len(items) != 8 {
		return "", "", "", fmt.Errorf("%s: want 8 items", kind)
	}
	d, err := parseGlyf(items[:5])
	if err != nil {
		return "", "", "", err
	}
	probes, err := parseProbes(items[5])
	if err != nil {
		return "", "", "", err
	}
	fm, err := parseMat(items[6])
	if err != nil {
		return "", "", "", err
	}
	embedded, err := vlib.AsList(items[7])
	if err != nil {
		return "", "", "", err
	}
	f, _ := prepareGlyf(kind, d)
	o := observe(f, probes, fm, false)
	impl, err = o.implLine(false, embedded)
	if err != nil {
		return "", "", "", err
	}
	fail, sig = oracleGlyf(d, probes, fm, o)
	return impl, fail, sig, nil
}

// cffLine / glyfLine compose a complete case line: the description plus the
// claims the implementation makes on it now.
func cffLine(kind string, d *cffD, probes []int, fm mat6) string {
	f, _ := prepareCff(kind, d)
	o := observe(f, probes, fm, true)
	items := append([]vlib.Sx{vlib.Atom(kind)}, d.sx()...)
	items = append(items, intsSx(probes), matSx(fm), o.claims(true))
	return vlib.Line(items...)
}

func glyfLine(kind string, d *glyfD, probes []int, fm mat6) string {
	f, _ := prepareGlyf(kind, d)
	o := observe(f, probes, fm, false)
	items := append([]vlib.Sx{vlib.Atom(kind)}, d.sx()...)
	items = append(items, intsSx(probes), matSx(fm), o.claims(false))
	return vlib.Line(items...)
}

// ---------------------------------------------------------------- oracles

// cffDeliverable: a font value the reader can deliver - every point command
// complete, FDSelect of a CID-keyed font defined for every glyph and inside
// FontMatrices.
func cffDeliverable(d *cffD) bool {
	for _, g := range d.glyphs {
		if _, ok := endPoints(g.cmds); !ok {
			return false
		}
	}
	if d.cid {
		if len(d.fdsel) != len(d.glyphs) {
			return false
		}
		for _, fd := range d.fdsel {
			if fd < 0 || fd >= len(d.fmats) {
				return false
			}
		}
	}
	return true
}

func oracleCff(d *cffD, probes []int, fm mat6, o *obs) (fail, sig string) {
	if !cffDeliverable(d) {
		return "", "" // outside the property's domain: model agreement only
	}
	n := len(d.glyphs)
	if o.nPanic || o.wPanic || o.bPanic || o.fboxPanic || o.oboxPanic || o.fixedPan || o.fbp.panicked || o.wpdf.panicked || o.wmap.panicked {
		return "a whole-font query panics on a font the reader can deliver", "c12b-panic"
	}
	if o.n != n {
		return fmt.Sprintf("NumGlyphs = %d for %d glyphs", o.n, n), "c12b-widths"
	}
	// design-unit boxes
	defBoxes := make([][4]int, n)
	allFit := true
	for i, g := range d.glyphs {
		b, fits, _ := extentDef(g.cmds)
		defBoxes[i] = b
		if !fits {
			allFit = false
			stats["glyph-beyond-int16"]++
		} else if boxOfRect(o.boxes[i]) != b {
			return fmt.Sprintf("GlyphBBoxes()[%d] = %v, the end points give %v", i, o.boxes[i], b), "c12b-extent"
		}
	}
	if allFit {
		u := unionBoxes(defBoxes)
		if boxOfRect(o.fbox) != u {
			return fmt.Sprintf("FontBBox = %v, union of the non-empty glyph boxes = %v", o.fbox, u), "c12b-font-bbox"
		}
		if boxOfRect(o.obox) != u {
			return fmt.Sprintf("Outlines.BBox = %v, union of the non-empty glyph boxes = %v", o.obox, u), "c12b-font-bbox"
		}
	}
	// widths in design units; fixed pitch
	rws := make([]*big.Rat, n)
	for i, g := range d.glyphs {
		rws[i] = rat(g.width)
		if o.widths[i] != g.width {
			return fmt.Sprintf("Widths()[%d] = %g, the glyph's width is %g", i, o.widths[i], g.width), "c12b-widths"
		}
	}
	if o.fixed != fixedPitchDef(rws) {
		return fmt.Sprintf("IsFixedPitch = %v, definition gives %v", o.fixed, !o.fixed), "c12b-fixed-pitch"
	}
	// PDF-unit boxes of all glyphs with the font's own matrix -> FontBBoxPDF
	var pdfBoxes [][4]*big.Rat
	fbMag := new(big.Rat)
	for i, g := range d.glyphs {
		pts, _ := endPoints(g.cmds)
		chain, _ := d.glyphChain(d.top, i)
		b, mag := pdfBoxDef(pts, chain)
		pdfBoxes = append(pdfBoxes, b)
		if mag.Cmp(fbMag) > 0 {
			fbMag = mag
		}
	}
	u, _ := unionRat(pdfBoxes)
	for k, v := range o.fbp.vals {
		if !near(v, u[k], fbMag) {
			return fmt.Sprintf("FontBBoxPDF = %v, union of the non-blank glyph boxes (Font DICT matrix, FontMatrix, x1000) = %s", o.fbp.vals, fmtBox(u)), "c12b-pdf-box"
		}
	}
	// WidthsPDF
	if len(o.wpdf.vals) != n {
		return fmt.Sprintf("WidthsPDF has %d entries for %d glyphs", len(o.wpdf.vals), n), "c12b-widths"
	}
	// WidthsMapPDF
	if d.cid != o.wmap.isNil {
		return fmt.Sprintf("WidthsMapPDF nil = %v for a font with CID-keyed = %v", o.wmap.isNil, d.cid), "c12b-widths"
	}
	type wq struct{ want, mag *big.Rat }
	gwpDef := make([]*wq, n)
	for i, g := range d.glyphs {
		chain, _ := d.glyphChain(d.top, i)
		M := chainProduct(chain)
		abs := make([]rmat, len(chain))
		for k, m := range chain {
			abs[k] = m.abs()
		}
		Ma := chainProduct(abs)
		w := rat(g.width)
		wa := new(big.Rat).Abs(w)
		if want := rmul(w, M[0]); !near(o.wpdf.vals[i], want, rmul(wa, Ma[0])) {
			return fmt.Sprintf("WidthsPDF()[%d] = %g, width x (glyph matrix)[0] = %s", i, o.wpdf.vals[i], want.FloatString(9)), "c12b-widths-pdf"
		}
		q, qmag, amb := qFactor(M, Ma)
		if amb {
			stats["q-threshold-ambiguous"]++
			continue
		}
		gwpDef[i] = &wq{rmul(w, rmul(q, rThousand)), rmul(wa, rmul(qmag, rThousand))}
	}
	for k, p := range probes {
		if p < 0 || p >= n {
			continue // a glyph id the font does not have: caller error
		}
		if o.gw[k].panicked || o.gboxPanic[k] || o.hPanic[k] || o.namePanic[k] || o.gbp[k].panicked || o.gwp[k].panicked {
			return fmt.Sprintf("a per-glyph query panics for glyph %d of %d", p, n), "c12b-panic"
		}
		g := d.glyphs[p]
		if o.gw[k].vals[0] != g.width {
			return fmt.Sprintf("GlyphWidth(%d) = %g, the glyph's width is %g", p, o.gw[k].vals[0], g.width), "c12b-widths"
		}
		if o.names[k] != nameOf(g.name) {
			return fmt.Sprintf("GlyphName(%d) = %q, want %q", p, o.names[k], nameOf(g.name)), "c12b-names"
		}
		b, fits, _ := extentDef(g.cmds)
		if fits {
			if boxOfRect(o.gbox[k]) != b {
				return fmt.Sprintf("GlyphBBox(%d) = %v, the end points give %v", p, o.gbox[k], b), "c12b-extent"
			}
			if o.height[k] != b[3] {
				return fmt.Sprintf("glyphHeight(%d) = %d, URy of the box is %d", p, o.height[k], b[3]), "c12b-extent"
			}
		}
		pts, _ := endPoints(g.cmds)
		chain, _ := d.glyphChain(fm, p)
		want, mag := pdfBoxDef(pts, chain)
		for c, v := range o.gbp[k].vals {
			if !near(v, want[c], mag) {
				return fmt.Sprintf("GlyphBBoxPDF(glyph %d) = %v, the outline mapped by the Font DICT matrix, then the font matrix, then x1000 gives %s", p, o.gbp[k].vals, fmtBox(want)), "c12b-pdf-box"
			}
		}
		if def := gwpDef[p]; def != nil {
			if !near(o.gwp[k].vals[0], def.want, def.mag) {
				return fmt.Sprintf("GlyphWidthPDF(%d) = %g, width x q x 1000 = %s", p, o.gwp[k].vals[0], def.want.FloatString(6)), "c12b-widths-pdf"
			}
			// consistency of the two PDF-unit width queries where q = M[0]
			chain0, _ := d.glyphChain(d.top, p)
			if shearFree(chainProduct(chain0)) {
				w1000 := rmul(rat(o.wpdf.vals[p]), rThousand)
				if !near(o.gwp[k].vals[0], w1000, def.mag) {
					return fmt.Sprintf("GlyphWidthPDF(%d) = %g but 1000 x WidthsPDF()[%d] = %s (no shear in the glyph's matrix)", p, o.gwp[k].vals[0], p, w1000.FloatString(6)), "c12b-widths-pdf"
				}
			}
		}
	}
	if !d.cid {
		// every name's entry is the GlyphWidthPDF of the last glyph carrying it
		last := map[int]int{}
		for i, g := range d.glyphs {
			last[g.name] = i
		}
		if len(o.wmap.keys) != len(last) {
			return fmt.Sprintf("WidthsMapPDF has %d entries for %d distinct names", len(o.wmap.keys), len(last)), "c12b-widths-pdf"
		}
		for j, k := range o.wmap.keys {
			i, ok := last[k]
			if !ok {
				return fmt.Sprintf("WidthsMapPDF has an entry for %q, which no glyph carries", nameOf(k)), "c12b-widths-pdf"
			}
			if def := gwpDef[i]; def != nil && !near(o.wmap.vals[j], def.want, def.mag) {
				return fmt.Sprintf("WidthsMapPDF[%q] = %g, GlyphWidthPDF of glyph %d is %s", nameOf(k), o.wmap.vals[j], i, def.want.FloatString(6)), "c12b-widths-pdf"
			}
		}
	}
	return "", ""
}

func oracleGlyf(d *glyfD, probes []int, fm mat6, o *obs) (fail, sig string) {
	n := len(d.glyphs)
	if d.hasWidths && len(d.widths) != n {
		return "", "" // the reader never delivers this
	}
	if o.nPanic || o.wPanic || o.bPanic || o.fboxPanic || o.fixedPan || o.fbp.panicked || o.wpdf.panicked {
		return "a whole-font query panics on a font the reader can deliver", "c12b-panic"
	}
	if o.n != n {
		return fmt.Sprintf("NumGlyphs = %d for %d glyphs", o.n, n), "c12b-widths"
	}
	boxes := make([][4]int, n)
	proper := true
	for i, g := range d.glyphs {
		if g != nil {
			boxes[i] = *g
			if g[0] > g[2] || g[1] > g[3] {
				proper = false
			}
		}
		if boxOfRect(o.boxes[i]) != boxes[i] {
			return fmt.Sprintf("GlyphBBoxes()[%d] = %v, the glyph's box is %v", i, o.boxes[i], boxes[i]), "c12b-extent"
		}
	}
	if proper {
		if u := unionBoxes(boxes); boxOfRect(o.fbox) != u {
			return fmt.Sprintf("FontBBox = %v, union of the non-empty glyph boxes = %v", o.fbox, u), "c12b-font-bbox"
		}
	}
	// widths
	rws := make([]*big.Rat, n)
	for i := range rws {
		w := 0
		if d.hasWidths {
			w = d.widths[i]
		}
		rws[i] = big.NewRat(int64(w), 1)
		if o.widths[i] != float64(w) {
			return fmt.Sprintf("Widths()[%d] = %g, advance width is %d", i, o.widths[i], w), "c12b-widths"
		}
	}
	wantFixed := n > 0
	if d.hasWidths {
		wantFixed = fixedPitchDef(rws)
	}
	if o.fixed != wantFixed {
		return fmt.Sprintf("IsFixedPitch = %v, definition gives %v", o.fixed, wantFixed), "c12b-fixed-pitch"
	}
	if !d.hasWidths {
		if !o.wpdf.isNil {
			return "WidthsPDF is not nil for a font without advance widths", "c12b-widths"
		}
	} else if d.upem != 0 {
		if len(o.wpdf.vals) != n {
			return fmt.Sprintf("WidthsPDF has %d entries for %d glyphs", len(o.wpdf.vals), n), "c12b-widths"
		}
		for i, w := range d.widths {
			want := big.NewRat(int64(w), int64(d.upem))
			if !near(o.wpdf.vals[i], want, new(big.Rat).Abs(want)) {
				return fmt.Sprintf("WidthsPDF()[%d] = %g, width / unitsPerEm = %s", i, o.wpdf.vals[i], want.FloatString(9)), "c12b-widths-pdf"
			}
		}
	}
	// PDF-unit boxes
	var pdfBoxes [][4]*big.Rat
	fbMag := new(big.Rat)
	corner := func(b [4]int) []rpt {
		r := func(v int) *big.Rat { return big.NewRat(int64(v), 1) }
		return []rpt{{r(b[0]), r(b[1])}, {r(b[2]), r(b[1])}, {r(b[2]), r(b[3])}, {r(b[0]), r(b[3])}}
	}
	for _, g := range d.glyphs {
		if g == nil {
			z := new(big.Rat)
			pdfBoxes = append(pdfBoxes, [4]*big.Rat{z, z, z, z})
			continue
		}
		b, mag := pdfBoxDef(corner(*g), []rmat{rmatOf(d.top)})
		pdfBoxes = append(pdfBoxes, b)
		if mag.Cmp(fbMag) > 0 {
			fbMag = mag
		}
	}
	u, _ := unionRat(pdfBoxes)
	for k, v := range o.fbp.vals {
		if !near(v, u[k], fbMag) {
			return fmt.Sprintf("FontBBoxPDF = %v, union of the non-blank glyph boxes = %s", o.fbp.vals, fmtBox(u)), "c12b-pdf-box"
		}
	}
	for k, p := range probes {
		if p < 0 || p >= n {
			if o.namePanic[k] {
				return fmt.Sprintf("GlyphName(%d) panics (documented to return \"\" for an unknown name)", p), "c12b-glyphname-panic"
			}
			continue
		}
		if o.gw[k].panicked || o.gboxPanic[k] || o.hPanic[k] || o.gbp[k].panicked || o.gwp[k].panicked {
			return fmt.Sprintf("a per-glyph query panics for glyph %d of %d", p, n), "c12b-panic"
		}
		if o.namePanic[k] {
			return fmt.Sprintf("GlyphName(%d) panics on a font with %d glyphs and %d names", p, n, len(d.names)), "c12b-glyphname-panic"
		}
		wantName := ""
		if d.hasNames && p < len(d.names) {
			wantName = nameOf(d.names[p])
		}
		if o.names[k] != wantName {
			return fmt.Sprintf("GlyphName(%d) = %q, want %q", p, o.names[k], wantName), "c12b-names"
		}
		if boxOfRect(o.gbox[k]) != boxes[p] || o.height[k] != boxes[p][3] {
			return fmt.Sprintf("GlyphBBox(%d) = %v, glyphHeight = %d, the glyph's box is %v", p, o.gbox[k], o.height[k], boxes[p]), "c12b-extent"
		}
		w := 0
		if d.hasWidths {
			w = d.widths[p]
		}
		if o.gw[k].vals[0] != float64(w) {
			return fmt.Sprintf("GlyphWidth(%d) = %g, advance width is %d", p, o.gw[k].vals[0], w), "c12b-widths"
		}
		if d.upem != 0 {
			want := big.NewRat(int64(w)*1000, int64(d.upem))
			if !near(o.gwp[k].vals[0], want, new(big.Rat).Abs(want)) {
				return fmt.Sprintf("GlyphWidthPDF(%d) = %g, 1000 x width / unitsPerEm = %s", p, o.gwp[k].vals[0], want.FloatString(6)), "c12b-widths-pdf"
			}
			if d.hasWidths {
				if w1000 := rmul(rat(o.wpdf.vals[p]), rThousand); !near(o.gwp[k].vals[0], w1000, new(big.Rat).Abs(want)) {
					return fmt.Sprintf("GlyphWidthPDF(%d) = %g but 1000 x WidthsPDF()[%d] = %s", p, o.gwp[k].vals[0], p, w1000.FloatString(6)), "c12b-widths-pdf"
				}
			}
		}
		var want [4]*big.Rat
		mag := new(big.Rat)
		if g := d.glyphs[p]; g == nil {
			z := new(big.Rat)
			want = [4]*big.Rat{z, z, z, z}
		} else {
			want, mag = pdfBoxDef(corner(*g), []rmat{rmatOf(fm)})
		}
		for c, v := range o.gbp[k].vals {
			if !near(v, want[c], mag) {
				return fmt.Sprintf("GlyphBBoxPDF(glyph %d) = %v, the corners of the glyph box mapped by the font matrix and x1000 give %s", p, o.gbp[k].vals, fmtBox(want)), "c12b-pdf-box"
			}
		}
	}
	return "", ""
}
