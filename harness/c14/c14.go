// Package c14 drives the codecs of property C14 (Mac Roman, UTF-16BE, the
// "post" glyph-name formats, the "name" table, language and script tags) with
// generated inputs, records the implementation's observations in the syntax
// the extracted Coq model prints, and evaluates the property's oracle (round
// trips and independent readers written from the format specifications).
package c14

import (
	"errors"
	"fmt"
	"strings"

	"seehuhn.de/go/sfnt/verifharness/vlib"
)

// result of one case
type res struct {
	impl   string   // observation of the implementation (model syntax)
	fail   string   // oracle failure, "" if none
	sig    string   // stable signature of the failure
	nt     bool     // non-trivial by the rule in Gen
	labels []string // histogram labels
}

func (r *res) failf(sig, format string, a ...any) {
	if r.fail == "" {
		r.fail = fmt.Sprintf(format, a...)
		r.sig = sig
	}
}

// guard runs f and turns a panic into an observation.
func guard(f func()) (panicked bool, msg string) {
	defer func() {
		if e := recover(); e != nil {
			panicked = true
			msg = fmt.Sprint(e)
		}
	}()
	f()
	return
}

// exec runs one case line (without the leading "!" of oracle-only cases).
func exec(line string) (*res, error) {
	items, err := vlib.Parse(strings.TrimPrefix(line, "!"))
	if err != nil {
		return nil, err
	}
	if len(items) == 0 {
		return nil, errors.New("empty case")
	}
	kind, err := vlib.AsAtom(items[0])
	if err != nil {
		return nil, err
	}
	args := items[1:]
	switch kind {
	case "macdec":
		return caseMacDec(args)
	case "macenc":
		return caseMacEnc(args)
	case "u16enc":
		return caseU16Enc(args)
	case "u16dec":
		return caseU16Dec(args)
	case "postenc":
		return casePostEnc(args)
	case "postrep":
		return casePostRep(args)
	case "postread":
		return casePostRead(args)
	case "nameenc", "nameview":
		return caseNameEnc(kind, args)
	case "namedec":
		return caseNameDec(args)
	case "tags":
		return caseTags(args)
	case "choose":
		return caseChoose(args)
	case "langid":
		return caseLangID(args)
	case "otfpair":
		return caseOtfPair(args)
	}
	return nil, fmt.Errorf("unknown case kind %q", kind)
}

// RunCase re-executes one case line (corpus entries and replays).
func RunCase(line string) (impl, fail, sig string, err error) {
	r, err := exec(line)
	if err != nil {
		return "", "", "", err
	}
	return r.impl, r.fail, r.sig, nil
}

type gen struct {
	run  *vlib.Run
	tier string
}

func (g *gen) add(line string) {
	r, err := exec(line)
	if err != nil {
		panic("generator produced a bad case line: " + err.Error() + ": " + line[:min(len(line), 200)])
	}
	idx := g.run.Add(line, r.impl, r.nt, r.labels...)
	if r.fail != "" {
		g.run.Fail(idx, line, r.fail, r.sig)
	}
}

// Gen writes the run for the given tier.
func Gen(run *vlib.Run, seed uint64, tier string) {
	run.Rule = "mac/utf16 codecs: input contains a non-ASCII rune, a surrogate or an ill-formed unit; " +
		"post: format-2 list with at least one custom name, or malformed bytes; " +
		"name: at least two records, or malformed bytes; tags/choose: every case; " +
		"distinct by case line"
	g := &gen{run: run, tier: tier}
	r := vlib.NewRand(seed)
	genCodecs(g, r.Fork("codecs"))
	genPost(g, r.Fork("post"))
	genName(g, r.Fork("name"))
	genTags(g, r.Fork("tags"))
}

// ---- small helpers shared by the case files ----

// runesSx prints a rune list; runs of at least 8 equal runes are written as
// (rep n r) so that large cases stay short enough for replay files.
func runesSx(rr []rune) vlib.Sx {
	l := make(vlib.List, 0, len(rr))
	for i := 0; i < len(rr); {
		j := i
		for j < len(rr) && rr[j] == rr[i] {
			j++
		}
		if j-i >= 8 {
			l = append(l, vlib.L(vlib.Atom("rep"), vlib.Int(j-i), vlib.Int(int(rr[i]))))
		} else {
			for k := i; k < j; k++ {
				l = append(l, vlib.Int(int(rr[k])))
			}
		}
		i = j
	}
	return l
}

func asRunes(x vlib.Sx) ([]rune, error) {
	l, err := vlib.AsList(x)
	if err != nil {
		return nil, err
	}
	var rr []rune
	for _, e := range l {
		if sub, ok := e.(vlib.List); ok {
			if len(sub) != 3 {
				return nil, fmt.Errorf("bad rune run")
			}
			if a, _ := vlib.AsAtom(sub[0]); a != "rep" {
				return nil, fmt.Errorf("bad rune run")
			}
			n, err := vlib.AsInt(sub[1])
			if err != nil || n < 0 || n > 1<<20 {
				return nil, fmt.Errorf("bad rune run length")
			}
			v, err := vlib.AsInt(sub[2])
			if err != nil {
				return nil, err
			}
			for i := 0; i < n; i++ {
				rr = append(rr, rune(v))
			}
			continue
		}
		v, err := vlib.AsInt(e)
		if err != nil {
			return nil, err
		}
		rr = append(rr, rune(v))
	}
	return rr, nil
}

func isScalar(r rune) bool {
	return r >= 0 && r <= 0x10FFFF && !(r >= 0xD800 && r < 0xE000)
}
