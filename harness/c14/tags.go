package c14

import (
	"bytes"
	"fmt"
	"sort"

	"golang.org/x/text/language"
	"seehuhn.de/go/sfnt/name"
	"seehuhn.de/go/sfnt/opentype/coverage"
	"seehuhn.de/go/sfnt/opentype/gtab"
	"seehuhn.de/go/sfnt/verifharness/vlib"
)

// The BCP 47 side of the property goes through golang.org/x/text/language
// (external, not modelled): these cases are oracle-only ("!" lines) and
// enumerate the library's finite tables exhaustively.

var otfScripts, otfLangs []string

func init() {
	for s := range gtab.VerifC14ScriptTable() {
		otfScripts = append(otfScripts, s)
	}
	for l := range gtab.VerifC14LangTable() {
		otfLangs = append(otfLangs, l)
	}
	sort.Strings(otfScripts)
	sort.Strings(otfLangs)
	otfLangs = append([]string{""}, otfLangs...) // "" = default language system
}

// caseTags: every language of the table (and the default language system)
// combined with one script: OpenType -> BCP 47 -> OpenType, directly and
// through an encoded ScriptList.
func caseTags(args []vlib.Sx) (*res, error) {
	if len(args) != 1 {
		return nil, fmt.Errorf("tags: want 1 argument")
	}
	sb, err := vlib.AsBytes(args[0])
	if err != nil {
		return nil, err
	}
	script := string(sb)
	r := &res{labels: []string{"kind:tags"}, nt: true}
	info := gtab.ScriptListInfo{}
	want := map[string]int{} // lang -> Required feature index used as marker
	npairs := 0
	for i, lang := range otfLangs {
		var tag language.Tag
		var terr error
		if p, msg := guard(func() { tag, terr = gtab.VerifC14OtfToBCP47(script, lang) }); p {
			r.failf("c14-otf-tag-panic", "otfToBCP47(%q, %q) panics: %s", script, lang, msg)
			continue
		}
		if terr != nil {
			r.failf("c14-otf-tag-roundtrip", "otfToBCP47(%q, %q) fails: %v", script, lang, terr)
			continue
		}
		var s2, l2 string
		if p, msg := guard(func() { s2, l2, terr = gtab.VerifC14BCP47ToOtf(tag) }); p {
			r.failf("c14-otf-tag-panic", "bcp47ToOtf(%v) panics: %s", tag, msg)
			continue
		}
		if terr != nil || s2 != script || l2 != lang {
			r.failf("c14-otf-tag-roundtrip", "(%q, %q) -> %v -> (%q, %q) %v", script, lang, tag, s2, l2, terr)
			continue
		}
		if _, dup := info[tag]; dup {
			r.failf("c14-otf-tag-roundtrip", "(%q, %q): BCP 47 tag %v also stands for another pair", script, lang, tag)
			continue
		}
		info[tag] = &gtab.Features{Required: gtab.FeatureIndex(i), Optional: []gtab.FeatureIndex{gtab.FeatureIndex(i + 1), 7}}
		want[lang] = i
		npairs++
	}
	// through the encoded script list
	var back gtab.ScriptListInfo
	var rerr error
	if p, msg := guard(func() { back, rerr = gtab.VerifC14ReadScriptList(gtab.VerifC14EncodeScriptList(info)) }); p {
		r.failf("c14-scriptlist-panic", "ScriptList encode/read panics: %s", msg)
	} else if rerr != nil {
		r.failf("c14-scriptlist-roundtrip", "readScriptList rejects the encoded list of script %q: %v", script, rerr)
	} else {
		if len(back) != len(info) {
			r.failf("c14-scriptlist-roundtrip", "script %q: %d language systems written, %d read", script, len(info), len(back))
		}
		for tag, ff := range info {
			g, ok := back[tag]
			if !ok {
				r.failf("c14-scriptlist-roundtrip", "script %q: tag %v lost in the encoded script list", script, tag)
				break
			}
			if g.Required != ff.Required || len(g.Optional) != 2 || g.Optional[0] != ff.Optional[0] || g.Optional[1] != 7 {
				r.failf("c14-scriptlist-roundtrip", "script %q: tag %v carries other features after encoding", script, tag)
				break
			}
		}
	}
	// the same tags when every language system selects the SAME features as
	// the script's default language system (one shared *Features value for half
	// of them, equal copies for the others): a tag is data of its own, it must
	// come back whether or not its language system differs from the default
	{
		shared := &gtab.Features{Required: 3, Optional: []gtab.FeatureIndex{1, 7}}
		same := gtab.ScriptListInfo{}
		k := 0
		for tag := range info {
			if k%2 == 0 {
				same[tag] = shared
			} else {
				same[tag] = &gtab.Features{Required: 3, Optional: []gtab.FeatureIndex{1, 7}}
			}
			k++
		}
		var back3 gtab.ScriptListInfo
		if p, msg := guard(func() { back3, rerr = gtab.VerifC14ReadScriptList(gtab.VerifC14EncodeScriptList(same)) }); p {
			r.failf("c14-scriptlist-panic", "ScriptList encode/read panics (equal language systems): %s", msg)
		} else if rerr != nil {
			r.failf("c14-scriptlist-roundtrip", "readScriptList rejects the encoded list of script %q (equal language systems): %v", script, rerr)
		} else {
			if len(back3) != len(same) {
				r.failf("c14-scriptlist-roundtrip", "script %q, all language systems equal to the default: %d tags written, %d read", script, len(same), len(back3))
			}
			for tag := range same {
				if g, ok := back3[tag]; !ok || g.Required != 3 || len(g.Optional) != 2 {
					r.failf("c14-scriptlist-roundtrip", "script %q: tag %v (language system equal to the default) lost or changed in the encoded script list", script, tag)
					break
				}
			}
		}
	}
	// and through the public API: (*gtab.Info).Encode / gtab.Read of a whole GSUB table
	full := &gtab.Info{
		ScriptList:  info,
		FeatureList: gtab.FeatureListInfo{{Tag: "liga", Lookups: []gtab.LookupIndex{0}}},
		LookupList: gtab.LookupList{{
			Meta:      &gtab.LookupMetaInfo{LookupType: 1},
			Subtables: []gtab.Subtable{&gtab.Gsub1_1{Cov: coverage.Set{3: true}, Delta: 1}},
		}},
	}
	var back2 *gtab.Info
	if p, msg := guard(func() { back2, rerr = gtab.Read(bytes.NewReader(full.Encode()), gtab.TypeGsub) }); p {
		r.failf("c14-scriptlist-panic", "gtab.Info.Encode / gtab.Read panics: %s", msg)
	} else if rerr != nil {
		r.failf("c14-scriptlist-roundtrip", "gtab.Read rejects the encoded GSUB table of script %q: %v", script, rerr)
	} else {
		if len(back2.ScriptList) != len(info) {
			r.failf("c14-scriptlist-roundtrip", "script %q through gtab.Read: %d language systems written, %d read", script, len(info), len(back2.ScriptList))
		}
		for tag, ff := range info {
			g, ok := back2.ScriptList[tag]
			if !ok || g.Required != ff.Required {
				r.failf("c14-scriptlist-roundtrip", "script %q through gtab.Read: tag %v lost or changed", script, tag)
				break
			}
		}
	}
	r.impl = vlib.Str(vlib.L(vlib.Atom("tags"), vlib.Int(npairs), vlib.Int(len(otfLangs))))
	return r, nil
}

// caseOtfPair: one (script, language) pair through otfToBCP47 and bcp47ToOtf;
// the observation contains the string of the tag's x extension as x/text
// returns it, so that the model's assumption about x/text is compared too.
func caseOtfPair(args []vlib.Sx) (*res, error) {
	if len(args) != 2 {
		return nil, fmt.Errorf("otfpair: want 2 arguments")
	}
	sb, err := vlib.AsBytes(args[0])
	if err != nil {
		return nil, err
	}
	lb, err := vlib.AsBytes(args[1])
	if err != nil {
		return nil, err
	}
	script, lang := string(sb), string(lb)
	r := &res{labels: []string{"kind:otfpair"}, nt: true}
	_, knownS := gtab.VerifC14ScriptTable()[script]
	_, knownL := gtab.VerifC14LangTable()[lang]
	inTables := knownS && (knownL || lang == "")
	var tag language.Tag
	var terr error
	if p, msg := guard(func() { tag, terr = gtab.VerifC14OtfToBCP47(script, lang) }); p {
		r.impl = "panic"
		r.failf("c14-otf-tag-panic", "otfToBCP47(%q, %q) panics: %s", script, lang, msg)
		return r, nil
	}
	if terr != nil {
		r.impl = "err"
		r.labels = append(r.labels, "otfpair:err")
		if inTables {
			r.failf("c14-otf-tag-roundtrip", "otfToBCP47(%q, %q) fails: %v", script, lang, terr)
		}
		return r, nil
	}
	var s2, l2 string
	if p, msg := guard(func() { s2, l2, terr = gtab.VerifC14BCP47ToOtf(tag) }); p {
		r.impl = "panic"
		r.failf("c14-otf-tag-panic", "bcp47ToOtf(%v) panics: %s", tag, msg)
		return r, nil
	}
	if terr != nil {
		r.impl = "err"
		if inTables {
			r.failf("c14-otf-tag-roundtrip", "bcp47ToOtf(%v) fails: %v", tag, terr)
		}
		return r, nil
	}
	ext, _ := tag.Extension('x')
	r.impl = vlib.Str(vlib.L(vlib.Atom("ok"), vlib.Hex([]byte(ext.String())), vlib.Hex([]byte(s2)), vlib.Hex([]byte(l2))))
	r.labels = append(r.labels, "otfpair:ok")
	if s2 != script || l2 != lang {
		r.failf("c14-otf-tag-roundtrip", "(%q, %q) -> %v -> (%q, %q)", script, lang, tag, s2, l2)
	}
	return r, nil
}

// caseChoose: name language tags parse, and Tables.Choose finds the table of
// exactly the requested language among two.
func caseChoose(args []vlib.Sx) (*res, error) {
	if len(args) != 1 {
		return nil, fmt.Errorf("choose: want 1 argument")
	}
	tb, err := vlib.AsBytes(args[0])
	if err != nil {
		return nil, err
	}
	tagStr := string(tb)
	r := &res{labels: []string{"kind:choose"}, nt: true}
	var tag language.Tag
	var perr error
	if p, msg := guard(func() { tag, perr = language.Parse(tagStr) }); p || perr != nil {
		r.failf("c14-name-tag-parse", "language tag %q of the name tables does not parse: %v %s", tagStr, perr, msg)
		r.impl = "(choose parse-error)"
		return r, nil
	}
	other := "en-US"
	if len(tagStr) >= 2 && tagStr[:2] == "en" {
		other = "ja-JP" // the code prefers English tables by design
	}
	tt := name.Tables{tagStr: &name.Table{Family: "wanted"}, other: &name.Table{Family: "other", Subfamily: "x"}}
	var got *name.Table
	var conf language.Confidence
	if p, msg := guard(func() { got, conf = tt.Choose(tag) }); p {
		r.failf("c14-name-choose-panic", "Tables.Choose panics: %s", msg)
		r.impl = "(choose panic)"
		return r, nil
	}
	fam := ""
	if got != nil {
		fam = got.Family
	}
	r.impl = vlib.Str(vlib.L(vlib.Atom("choose"), vlib.Atom(fam), vlib.Int(int(conf))))
	if fam != "wanted" {
		r.failf("c14-name-choose", "Tables.Choose(%q) among {%q, %q} returns the table of %q (confidence %v)", tagStr, tagStr, other, other, conf)
	}
	return r, nil
}

// caseLangID: a platform language id maps to a BCP 47 tag (Decode) and back
// (Encode) to exactly that language id.
func caseLangID(args []vlib.Sx) (*res, error) {
	if len(args) != 2 {
		return nil, fmt.Errorf("langid: want 2 arguments")
	}
	plat, err := vlib.AsInt(args[0])
	if err != nil || (plat != 1 && plat != 3) {
		return nil, fmt.Errorf("langid: bad platform")
	}
	id, err := vlib.AsInt(args[1])
	if err != nil || id < 0 || id > 65535 {
		return nil, fmt.Errorf("langid: bad language id")
	}
	r := &res{labels: []string{"kind:langid"}, nt: true}
	rc := rawNameRec{plat: plat, enc: 0, lang: id, id: 1, str: []byte("X")}
	if plat == 3 {
		rc.enc, rc.str = 1, []byte{0, 'X'}
	}
	var info *name.Info
	var derr error
	if p, msg := guard(func() { info, derr = name.Decode(buildRawName(0, []rawNameRec{rc}, 0, 0)) }); p || derr != nil {
		r.failf("c14-langid-roundtrip", "platform %d language id %d: Decode fails: %v %s", plat, id, derr, msg)
		r.impl = "(langid decode-error)"
		return r, nil
	}
	tt := info.Mac
	if plat == 3 {
		tt = info.Windows
	}
	if len(tt) != 1 {
		r.failf("c14-langid-roundtrip", "platform %d language id %d: decoded into %d tables", plat, id, len(tt))
		r.impl = "(langid no-table)"
		return r, nil
	}
	var tag string
	for k := range tt {
		tag = k
	}
	var data []byte
	if p, msg := guard(func() { data = info.Encode(1) }); p {
		r.failf("c14-name-encode-panic", "Encode panics: %s", msg)
		r.impl = "(langid panic)"
		return r, nil
	}
	var ids vlib.List
	for _, rr := range nameView(data).recs {
		if rr.plat == plat {
			ids = append(ids, vlib.Int(rr.lang))
		}
	}
	r.impl = vlib.Str(vlib.L(vlib.Atom("langid"), vlib.Hex([]byte(tag)), ids))
	if len(ids) != 1 || vlib.Str(ids[0]) != fmt.Sprint(id) {
		r.failf("c14-langid-roundtrip", "platform %d language id %d maps to %q, which maps back to the language ids %s", plat, id, tag, vlib.Str(ids))
	}
	return r, nil
}

func genTags(g *gen, r *vlib.Rand) {
	for _, e := range macLangs {
		g.add("!" + vlib.Line(vlib.Atom("langid"), vlib.Int(1), vlib.Int(e.id)))
	}
	for _, e := range winLangs {
		g.add("!" + vlib.Line(vlib.Atom("langid"), vlib.Int(3), vlib.Int(e.id)))
	}
	for _, s := range otfScripts {
		g.add("!" + vlib.Line(vlib.Atom("tags"), vlib.Hex([]byte(s))))
	}
	// pairs compared with the model: all of them in the thorough tier
	pair := func(sc, la string) {
		g.add(vlib.Line(vlib.Atom("otfpair"), vlib.Hex([]byte(sc)), vlib.Hex([]byte(la))))
	}
	if g.tier == "thorough" {
		for _, sc := range otfScripts {
			for _, la := range otfLangs {
				pair(sc, la)
			}
		}
	} else {
		for _, sc := range otfScripts {
			pair(sc, "")
			for k := 0; k < 12; k++ {
				pair(sc, vlib.Pick(r, otfLangs))
			}
		}
		for _, la := range otfLangs {
			for k := 0; k < 3; k++ {
				pair(vlib.Pick(r, otfScripts), la)
			}
		}
	}
	for _, p := range [][2]string{{"zzzz", ""}, {"latn", "QQQ "}, {"", ""}, {"latn", "deu "}, {"LATN", "DEU "},
		{"lao", ""}, {"lao ", "DEU"}, {"dflt", ""}, {"DFLT", "dflt"}, {"latn", "ENG"}} {
		pair(p[0], p[1])
	}
	seen := map[string]bool{}
	for _, langs := range [][]langEntry{macLangs, winLangs} {
		for _, e := range langs {
			if !seen[e.tag] {
				seen[e.tag] = true
				g.add("!" + vlib.Line(vlib.Atom("choose"), vlib.Hex([]byte(e.tag))))
			}
		}
	}
	g.run.Extra["otf_scripts"] = len(otfScripts)
	g.run.Extra["otf_languages_incl_default"] = len(otfLangs)
	g.run.Extra["otf_pairs_enumerated"] = len(otfScripts) * len(otfLangs)
}
