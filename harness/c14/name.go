package c14

import (
	"bytes"
	"fmt"
	"sort"

	"golang.org/x/text/encoding/charmap"
	"seehuhn.de/go/sfnt/name"
	"seehuhn.de/go/sfnt/verifharness/vlib"
)

// absTabs is the abstract content of name.Tables: tag -> name id -> string.
type absTabs map[string]map[int]string

// fieldPtr maps a name id to the field of name.Table that holds it, written
// from the OpenType name-id list (independent of Table.get/set).
func fieldPtr(t *name.Table, id int) *string {
	switch id {
	case 0:
		return &t.Copyright
	case 1:
		return &t.Family
	case 2:
		return &t.Subfamily
	case 3:
		return &t.Identifier
	case 4:
		return &t.FullName
	case 5:
		return &t.Version
	case 6:
		return &t.PostScriptName
	case 7:
		return &t.Trademark
	case 8:
		return &t.Manufacturer
	case 9:
		return &t.Designer
	case 10:
		return &t.Description
	case 11:
		return &t.VendorURL
	case 12:
		return &t.DesignerURL
	case 13:
		return &t.License
	case 14:
		return &t.LicenseURL
	case 16:
		return &t.TypographicFamily
	case 17:
		return &t.TypographicSubfamily
	case 18:
		return &t.MacFullName
	case 19:
		return &t.SampleText
	case 20:
		return &t.CIDFontName
	case 21:
		return &t.WWSFamily
	case 22:
		return &t.WWSSubfamily
	case 23:
		return &t.LightBackgroundPalette
	case 24:
		return &t.DarkBackgroundPalette
	case 25:
		return &t.VariationsPostScriptName
	}
	return nil
}

func mkTables(a absTabs) name.Tables {
	tt := name.Tables{}
	for tag, m := range a {
		t := &name.Table{}
		for id, s := range m {
			if p := fieldPtr(t, id); p != nil {
				*p = s
			} else {
				if t.Extra == nil {
					t.Extra = map[name.ID]string{}
				}
				t.Extra[name.ID(id)] = s
			}
		}
		tt[tag] = t
	}
	return tt
}

// absOf reads the abstract content back from the public fields; empty strings
// and empty tables are dropped.
func absOf(tt name.Tables) absTabs {
	a := absTabs{}
	for tag, t := range tt {
		if t == nil {
			continue
		}
		m := map[int]string{}
		for id := 0; id <= 25; id++ {
			if p := fieldPtr(t, id); p != nil && *p != "" {
				m[id] = *p
			}
		}
		for id, s := range t.Extra {
			if s == "" {
				continue
			}
			if fieldPtr(t, int(id)) != nil {
				// an id that has a field of its own must not live in Extra
				m[-1-int(id)] = s
				continue
			}
			m[int(id)] = s
		}
		if len(m) > 0 {
			a[tag] = m
		}
	}
	return a
}

// language tables (through the read-only hooks), ascending by language id
type langEntry struct {
	id  int
	tag string
}

var macLangs, winLangs []langEntry

func sortedLangs(m map[uint16]string) []langEntry {
	var out []langEntry
	for k, v := range m {
		out = append(out, langEntry{int(k), v})
	}
	sort.Slice(out, func(i, j int) bool { return out[i].id < out[j].id })
	return out
}

func init() {
	macLangs = sortedLangs(name.VerifC14AppleBCP())
	winLangs = sortedLangs(name.VerifC14MsBCP())
}

// tagOrder lists the tags of a language table in order of first occurrence.
func tagOrder(langs []langEntry) []string {
	seen := map[string]bool{}
	var out []string
	for _, e := range langs {
		if !seen[e.tag] {
			seen[e.tag] = true
			out = append(out, e.tag)
		}
	}
	return out
}

func tabsSx(a absTabs, order []string) vlib.Sx {
	l := vlib.List{}
	done := map[string]bool{}
	emit := func(tag string) {
		m, ok := a[tag]
		if !ok || done[tag] {
			return
		}
		done[tag] = true
		ids := make([]int, 0, len(m))
		for id := range m {
			ids = append(ids, id)
		}
		sort.Ints(ids)
		t := vlib.List{}
		for i := 0; i < len(ids); {
			// runs of at least 8 consecutive ids with the same string: (idrange start count runes)
			j := i
			for j < len(ids) && ids[j] == ids[i]+(j-i) && m[ids[j]] == m[ids[i]] {
				j++
			}
			if j-i >= 8 {
				t = append(t, vlib.L(vlib.Atom("idrange"), vlib.Int(ids[i]), vlib.Int(j-i), runesSx([]rune(m[ids[i]]))))
			} else {
				for k := i; k < j; k++ {
					t = append(t, vlib.L(vlib.Int(ids[k]), runesSx([]rune(m[ids[k]]))))
				}
			}
			i = j
		}
		l = append(l, vlib.L(vlib.Hex([]byte(tag)), t))
	}
	for _, tag := range order {
		emit(tag)
	}
	// tags outside the language table (never produced by Decode) last, sorted
	var rest []string
	for tag := range a {
		if !done[tag] {
			rest = append(rest, tag)
		}
	}
	sort.Strings(rest)
	for _, tag := range rest {
		emit(tag)
	}
	return l
}

func asTabs(x vlib.Sx) (absTabs, error) {
	l, err := vlib.AsList(x)
	if err != nil {
		return nil, err
	}
	a := absTabs{}
	for _, e := range l {
		p, err := vlib.AsList(e)
		if err != nil || len(p) != 2 {
			return nil, fmt.Errorf("bad tables entry")
		}
		tag, err := vlib.AsBytes(p[0])
		if err != nil {
			return nil, err
		}
		tl, err := vlib.AsList(p[1])
		if err != nil {
			return nil, err
		}
		m := map[int]string{}
		for _, te := range tl {
			q, err := vlib.AsList(te)
			if err != nil {
				return nil, fmt.Errorf("bad table entry")
			}
			start, count := 0, 1
			if len(q) == 4 {
				if a, _ := vlib.AsAtom(q[0]); a != "idrange" {
					return nil, fmt.Errorf("bad table entry")
				}
				if start, err = vlib.AsInt(q[1]); err != nil {
					return nil, err
				}
				if count, err = vlib.AsInt(q[2]); err != nil || count < 1 || start+count-1 > 65535 {
					return nil, fmt.Errorf("bad id range")
				}
				q = q[2:]
			} else if len(q) == 2 {
				if start, err = vlib.AsInt(q[0]); err != nil {
					return nil, err
				}
			} else {
				return nil, fmt.Errorf("bad table entry")
			}
			id := start
			if id < 0 || id > 65535 {
				return nil, fmt.Errorf("bad name id")
			}
			rr, err := asRunes(q[1])
			if err != nil {
				return nil, err
			}
			for _, c := range rr {
				if !isScalar(c) {
					return nil, fmt.Errorf("name string: U+%X is not a scalar value", c)
				}
			}
			if len(rr) == 0 {
				return nil, fmt.Errorf("empty name string")
			}
			for ; id < start+count; id++ {
				if _, dup := m[id]; dup {
					return nil, fmt.Errorf("duplicate name id")
				}
				m[id] = string(rr)
			}
		}
		if _, dup := a[string(tag)]; dup {
			return nil, fmt.Errorf("duplicate tag")
		}
		a[string(tag)] = m
	}
	return a, nil
}

func absEqual(a, b absTabs) string {
	for tag, m := range a {
		n, ok := b[tag]
		if !ok {
			return fmt.Sprintf("language %q is missing", tag)
		}
		for id, s := range m {
			if t, ok := n[id]; !ok {
				return fmt.Sprintf("language %q: name id %d is missing", tag, id)
			} else if t != s {
				return fmt.Sprintf("language %q, name id %d: wrote %q, read %q", tag, id, trunc(s), trunc(t))
			}
		}
		for id := range n {
			if _, ok := m[id]; !ok {
				return fmt.Sprintf("language %q: unexpected name id %d", tag, id)
			}
		}
	}
	for tag := range b {
		if _, ok := a[tag]; !ok {
			return fmt.Sprintf("unexpected language %q", tag)
		}
	}
	return ""
}

// supported restricts a to the tags of the language table and drops empty
// tables (what Encode can store).
func supported(a absTabs, langs []langEntry) absTabs {
	ok := map[string]bool{}
	for _, e := range langs {
		ok[e.tag] = true
	}
	out := absTabs{}
	for tag, m := range a {
		if ok[tag] && len(m) > 0 {
			out[tag] = m
		}
	}
	return out
}

// ---- independent view / reader of an encoded table (OpenType spec, format 0/1) ----

type rawRec struct {
	plat, enc, lang, id int
	length, off         int
	str                 []byte // clamped to the data
}

type rawView struct {
	version, numRec, storageOffset, total int
	recs                                  []rawRec
}

func clampSub(data []byte, off, n int) []byte {
	if off > len(data) {
		off = len(data)
	}
	end := off + n
	if end > len(data) {
		end = len(data)
	}
	return data[off:end]
}

func be16at(data []byte, p int) int {
	if p+1 < len(data) {
		return int(data[p])<<8 | int(data[p+1])
	}
	return 0
}

func nameView(data []byte) rawView {
	v := rawView{version: be16at(data, 0), numRec: be16at(data, 2), storageOffset: be16at(data, 4), total: len(data)}
	for i := 0; i < v.numRec; i++ {
		p := 6 + 12*i
		if p+12 > len(data) {
			break
		}
		rc := rawRec{plat: be16at(data, p), enc: be16at(data, p+2), lang: be16at(data, p+4), id: be16at(data, p+6),
			length: be16at(data, p+8), off: be16at(data, p+10)}
		rc.str = clampSub(data, v.storageOffset+rc.off, rc.length)
		v.recs = append(v.recs, rc)
	}
	return v
}

func (v rawView) sx() vlib.Sx {
	l := vlib.List{}
	for _, rc := range v.recs {
		l = append(l, vlib.L(vlib.Int(rc.plat), vlib.Int(rc.enc), vlib.Int(rc.lang), vlib.Int(rc.id), vlib.Hex(rc.str)))
	}
	return vlib.L(vlib.Int(v.version), vlib.Int(v.numRec), vlib.Int(v.storageOffset), vlib.Int(v.total), l)
}

// specCheckName verifies with an independent reader that the encoded table
// carries exactly the expected strings: for every language id of the table
// whose tag is present, every name id, the platform's encoding.
func specCheckName(data []byte, mac, win absTabs, weid int) string {
	v := nameView(data)
	if v.version != 0 {
		return fmt.Sprintf("version %d", v.version)
	}
	if 6+12*v.numRec > len(data) || len(v.recs) != v.numRec {
		return "record array exceeds the table"
	}
	if v.storageOffset != 6+12*v.numRec {
		return fmt.Sprintf("storageOffset %d, records end at %d", v.storageOffset, 6+12*v.numRec)
	}
	type key struct{ plat, lang, id int }
	want := map[key]string{}
	for _, e := range macLangs {
		for id, s := range mac[e.tag] {
			want[key{1, e.id, id}] = s
		}
	}
	for _, e := range winLangs {
		for id, s := range win[e.tag] {
			want[key{3, e.id, id}] = s
		}
	}
	seen := map[key]bool{}
	var prev *rawRec
	for i := range v.recs {
		rc := &v.recs[i]
		if prev != nil {
			a := [4]int{prev.plat, prev.enc, prev.lang, prev.id}
			b := [4]int{rc.plat, rc.enc, rc.lang, rc.id}
			less := false
			for j := 0; j < 4; j++ {
				if a[j] != b[j] {
					less = a[j] < b[j]
					break
				}
			}
			if !less {
				return fmt.Sprintf("records %d and %d are not in ascending order", i-1, i)
			}
		}
		prev = rc
		k := key{rc.plat, rc.lang, rc.id}
		w, ok := want[k]
		if !ok {
			return fmt.Sprintf("unexpected record platform %d language %d name id %d", rc.plat, rc.lang, rc.id)
		}
		seen[k] = true
		if v.storageOffset+rc.off+rc.length > len(data) {
			return fmt.Sprintf("record platform %d language %d name id %d points outside the table", rc.plat, rc.lang, rc.id)
		}
		var got string
		switch {
		case rc.plat == 1 && rc.enc == 0:
			out, err := charmap.Macintosh.NewDecoder().Bytes(rc.str)
			if err != nil {
				return err.Error()
			}
			got = string(out)
		case rc.plat == 3 && rc.enc == weid:
			rr, ok := refUTF16Decode(rc.str)
			if !ok {
				return fmt.Sprintf("record platform 3 language %d name id %d is not well-formed UTF-16", rc.lang, rc.id)
			}
			got = string(rr)
		default:
			return fmt.Sprintf("record with platform %d encoding %d", rc.plat, rc.enc)
		}
		if got != w {
			return fmt.Sprintf("platform %d language %d name id %d: wrote %q, independent reader sees %q", rc.plat, rc.lang, rc.id, trunc(w), trunc(got))
		}
	}
	for k := range want {
		if !seen[k] {
			return fmt.Sprintf("no record for platform %d language %d name id %d", k.plat, k.lang, k.id)
		}
	}
	return ""
}

// nameDomain classifies an Info against the property's quantifier and the two
// unguarded 16-bit limits of Encode.
func nameDomain(mac, win absTabs) (inside bool, limitSig string, numRec, storage int) {
	inside = true
	distinct := map[string]bool{}
	count := func(a absTabs, langs []langEntry, enc func(string) []byte) {
		for _, e := range langs {
			for _, s := range a[e.tag] {
				numRec++
				b := string(enc(s))
				if !distinct[b] {
					distinct[b] = true
					storage += len(b)
				}
			}
		}
	}
	for _, m := range mac {
		for _, s := range m {
			if !inMacRepertoire([]rune(s)) || len([]rune(s)) > 32767 {
				inside = false
			}
		}
	}
	for _, m := range win {
		for _, s := range m {
			if len(refUTF16BE([]rune(s))) > 2*32767 {
				inside = false
			}
		}
	}
	count(mac, macLangs, func(s string) []byte {
		out := make([]byte, 0, len(s))
		for _, c := range s {
			out = append(out, refMacEnc[c])
		}
		return out
	})
	count(win, winLangs, func(s string) []byte { return refUTF16BE([]rune(s)) })
	switch {
	case 6+12*numRec > 65535:
		limitSig = "name-record-area-exceeds-65535"
	case storage > 65535:
		limitSig = "name-storage-exceeds-65535"
	}
	return
}

func parseNameArgs(args []vlib.Sx) (weid int, mac, win absTabs, err error) {
	if len(args) != 3 {
		return 0, nil, nil, fmt.Errorf("name case: want 3 arguments")
	}
	if weid, err = vlib.AsInt(args[0]); err != nil || weid < 0 || weid > 65535 {
		return 0, nil, nil, fmt.Errorf("bad encoding id")
	}
	if mac, err = asTabs(args[1]); err != nil {
		return
	}
	win, err = asTabs(args[2])
	return
}

func caseNameEnc(kind string, args []vlib.Sx) (*res, error) {
	weid, mac, win, err := parseNameArgs(args)
	if err != nil {
		return nil, err
	}
	r := &res{labels: []string{"kind:" + kind}}
	info := &name.Info{Mac: mkTables(mac), Windows: mkTables(win)}
	var data []byte
	if p, msg := guard(func() { data = info.Encode(uint16(weid)) }); p {
		r.impl = "panic"
		r.failf("c14-name-encode-panic", "name.Info.Encode panics: %s", msg)
		return r, nil
	}
	v := nameView(data)
	if kind == "nameenc" {
		r.impl = vlib.Str(vlib.Hex(data))
	} else {
		r.impl = vlib.Str(v.sx())
	}
	inside, limit, numRec, storage := nameDomain(mac, win)
	r.nt = numRec >= 2
	r.labels = append(r.labels, "name:records<="+sizeClass(numRec), "name:storage<="+storageClass(storage),
		fmt.Sprintf("name:maclangs=%s", sizeClass(len(mac))), fmt.Sprintf("name:winlangs=%s", sizeClass(len(win))))
	if storage < len(data)-6-12*v.numRec || storage > len(data)-6-12*v.numRec {
		// strings are stored once per distinct content
		if inside && limit == "" {
			r.failf("c14-name-sharing", "storage area has %d bytes, the distinct strings total %d", len(data)-6-12*v.numRec, storage)
		}
	}
	if !inside {
		r.labels = append(r.labels, "name:outside-quantifier")
		return r, nil
	}
	if weid != 1 {
		// Decode understands Windows records with encoding id 1 only; the
		// library itself always writes encoding id 1 (assumption of the property)
		r.labels = append(r.labels, "name:weid!=1")
		win = absTabs{}
	}
	if limit != "" {
		r.labels = append(r.labels, "name:"+limit)
	}
	sig := func(s string) string {
		if limit != "" {
			return limit
		}
		return s
	}
	wantMac, wantWin := supported(mac, macLangs), supported(win, winLangs)
	// oracle 1: round trip through Decode
	var back *name.Info
	var derr error
	if p, msg := guard(func() { back, derr = name.Decode(data) }); p {
		r.failf("c14-name-decode-panic", "name.Decode panics on Encode's output: %s", msg)
		return r, nil
	}
	if derr != nil {
		r.failf(sig("c14-name-roundtrip"), "name.Decode rejects Encode's output: %v", derr)
	} else {
		if d := absEqual(wantMac, absOf(back.Mac)); d != "" {
			r.failf(sig("c14-name-roundtrip"), "Macintosh names differ after Encode/Decode: %s", d)
		}
		if d := absEqual(wantWin, absOf(back.Windows)); d != "" {
			r.failf(sig("c14-name-roundtrip"), "Windows names differ after Encode/Decode: %s", d)
		}
	}
	// oracle 2: independent reader of the bytes
	if weid == 1 {
		if d := specCheckName(data, wantMac, wantWin, weid); d != "" {
			r.failf(sig("c14-name-independent-reader"), "independent reader: %s", d)
		}
		ximageName(r, data, wantMac, wantWin, sig)
	}
	return r, nil
}

func storageClass(n int) string {
	for _, b := range []int{0, 100, 1000, 10000, 32768, 65535, 131072} {
		if n <= b {
			return fmt.Sprint(b)
		}
	}
	return "more"
}

func caseNameDec(args []vlib.Sx) (*res, error) {
	if len(args) != 1 {
		return nil, fmt.Errorf("namedec: want 1 argument")
	}
	data, err := vlib.AsBytes(args[0])
	if err != nil {
		return nil, err
	}
	r := &res{labels: []string{"kind:namedec"}, nt: true}
	var info *name.Info
	var derr error
	if p, msg := guard(func() { info, derr = name.Decode(data) }); p {
		r.impl = "panic"
		r.labels = append(r.labels, "namedec:panic")
		r.failf("c14-name-decode-panic", "name.Decode panics: %s", msg)
		return r, nil
	}
	if derr != nil {
		r.impl = "err"
		r.labels = append(r.labels, "namedec:err")
		return r, nil
	}
	mac, win := absOf(info.Mac), absOf(info.Windows)
	r.impl = vlib.Str(vlib.L(vlib.Atom("ok"), tabsSx(mac, tagOrder(macLangs)), tabsSx(win, tagOrder(winLangs))))
	r.labels = append(r.labels, "namedec:ok", "namedec:langs<="+sizeClass(len(mac)+len(win)))
	// what was decoded survives encoding and decoding again
	if inside, limit, _, _ := nameDomain(mac, win); inside && limit == "" {
		var back *name.Info
		if p, msg := guard(func() { back, derr = name.Decode(info.Encode(1)) }); p {
			r.failf("c14-name-decode-panic", "re-encoding/decoding panics: %s", msg)
		} else if derr != nil {
			r.failf("c14-name-roundtrip", "re-encoded table rejected: %v", derr)
		} else {
			if d := absEqual(mac, absOf(back.Mac)); d != "" {
				r.failf("c14-name-roundtrip", "Macintosh names differ after re-encoding: %s", d)
			}
			if d := absEqual(win, absOf(back.Windows)); d != "" {
				r.failf("c14-name-roundtrip", "Windows names differ after re-encoding: %s", d)
			}
		}
	}
	return r, nil
}

// ---- generators ----

var boundaryIDs = []int{0, 1, 2, 4, 6, 14, 15, 16, 25, 26, 255, 256, 32767, 32768, 65534, 65535}

func randID(r *vlib.Rand) int {
	switch r.Intn(4) {
	case 0:
		return vlib.Pick(r, boundaryIDs)
	case 1:
		return r.Intn(65536)
	}
	return r.Intn(27)
}

func randWinString(r *vlib.Rand, pool []string) string {
	if len(pool) > 0 && r.Chance(1, 3) {
		return vlib.Pick(r, pool)
	}
	l := r.Range(1, 12)
	rr := make([]rune, l)
	for i := range rr {
		rr[i] = randScalar(r)
	}
	return string(rr)
}

func randMacString(r *vlib.Rand, pool []string) string {
	if len(pool) > 0 && r.Chance(1, 3) {
		s := vlib.Pick(r, pool)
		if inMacRepertoire([]rune(s)) {
			return s
		}
	}
	l := r.Range(1, 12)
	rr := make([]rune, l)
	for i := range rr {
		rr[i] = randMacRune(r)
	}
	return string(rr)
}

func nameLine(kind string, weid int, mac, win absTabs) string {
	return vlib.Line(vlib.Atom(kind), vlib.Int(weid), tabsSx(mac, tagOrder(macLangs)), tabsSx(win, tagOrder(winLangs)))
}

// lineFor picks the byte-exact comparison when the output of Encode does not
// depend on Go's map iteration order (at most one language per platform).
func lineFor(weid int, mac, win absTabs) string {
	if len(mac) <= 1 && len(win) <= 1 {
		return nameLine("nameenc", weid, mac, win)
	}
	return nameLine("nameview", weid, mac, win)
}

// rawName assembles a name table byte by byte (for the malformed stream).
type rawNameRec struct {
	plat, enc, lang, id int
	str                 []byte
}

func buildRawName(version int, recs []rawNameRec, langTags int, gap int) []byte {
	var storage []byte
	var out []byte
	hdr := 6 + 12*len(recs)
	if version > 0 {
		hdr += 2 + 4*langTags
	}
	so := hdr + gap
	out = append(out, byte(version>>8), byte(version), byte(len(recs)>>8), byte(len(recs)), byte(so>>8), byte(so))
	for _, rc := range recs {
		off := len(storage)
		storage = append(storage, rc.str...)
		out = append(out, byte(rc.plat>>8), byte(rc.plat), byte(rc.enc>>8), byte(rc.enc), byte(rc.lang>>8), byte(rc.lang),
			byte(rc.id>>8), byte(rc.id), byte(len(rc.str)>>8), byte(len(rc.str)), byte(off>>8), byte(off))
	}
	if version > 0 {
		out = append(out, byte(langTags>>8), byte(langTags))
		for i := 0; i < langTags; i++ {
			out = append(out, 0, 4, 0, 0)
		}
	}
	out = append(out, make([]byte, gap)...)
	return append(out, storage...)
}

func genName(g *gen, r *vlib.Rand) {
	macTags, winTags := tagOrder(macLangs), tagOrder(winLangs)
	var encoded [][]byte
	keep := func(weid int, mac, win absTabs) {
		info := &name.Info{Mac: mkTables(mac), Windows: mkTables(win)}
		encoded = append(encoded, info.Encode(uint16(weid)))
	}
	g.add(nameLine("nameenc", 1, absTabs{}, absTabs{}))
	// every supported language on its own (exhaustive over the tables)
	for _, tag := range macTags {
		mac := absTabs{tag: {1: "Fam " + tag, 4: "Fam " + tag, 6: randMacString(r, nil)}}
		g.add(nameLine("nameenc", 1, mac, absTabs{}))
	}
	for _, tag := range winTags {
		win := absTabs{tag: {1: "Fam " + tag, 2: randWinString(r, nil), 300: "Fam " + tag}}
		g.add(nameLine("nameenc", 1, absTabs{}, win))
	}
	// all languages at once
	{
		mac, win := absTabs{}, absTabs{}
		for _, tag := range macTags {
			mac[tag] = map[int]string{1: "F", 2: tag}
		}
		for _, tag := range winTags {
			win[tag] = map[int]string{1: "F", 2: tag}
		}
		g.add(nameLine("nameview", 1, mac, win))
		keep(1, mac, win)
	}
	// every boundary id, on both platforms; a string shared across platforms
	// (Mac bytes 00 41 are the UTF-16BE bytes of "A")
	{
		mac, win := absTabs{"en": {}}, absTabs{"en-US": {}}
		for _, id := range boundaryIDs {
			mac["en"][id] = fmt.Sprintf("id%d", id)
			win["en-US"][id] = fmt.Sprintf("id%d", id)
		}
		mac["en"][100] = "\x00A"
		win["en-US"][100] = "A"
		g.add(nameLine("nameenc", 1, mac, win))
		keep(1, mac, win)
	}
	// unsupported tags are dropped; other Windows encoding ids
	g.add(nameLine("nameenc", 1, absTabs{"xx-unsupported": {1: "x"}, "en": {1: "y"}}, absTabs{"tlh": {1: "z"}}))
	for _, weid := range []int{0, 10, 65535} {
		g.add(nameLine("nameenc", weid, absTabs{"de": {1: "M"}}, absTabs{"de-DE": {1: "W", 2: "\U0001F600"}}))
	}
	// random structured infos
	n := vlib.Count(g.tier, 600, 15000)
	for i := 0; i < n; i++ {
		var pool []string
		for j := r.Intn(4); j > 0; j-- {
			pool = append(pool, randMacString(r, nil))
		}
		mac, win := absTabs{}, absTabs{}
		nm, nw := r.Intn(4), r.Intn(4)
		if r.Chance(1, 4) {
			nm, nw = r.Intn(2), r.Intn(2)
		}
		for j := 0; j < nm; j++ {
			m := map[int]string{}
			for k := r.Range(1, 6); k > 0; k-- {
				m[randID(r)] = randMacString(r, pool)
			}
			mac[vlib.Pick(r, macTags)] = m
		}
		for j := 0; j < nw; j++ {
			m := map[int]string{}
			for k := r.Range(1, 6); k > 0; k-- {
				m[randID(r)] = randWinString(r, pool)
			}
			tag := vlib.Pick(r, winTags)
			if r.Chance(1, 10) {
				tag = "es-ES" // the tag with two Windows language ids
			}
			win[tag] = m
		}
		g.add(lineFor(1, mac, win))
		if len(encoded) < 300 || r.Chance(1, 10) {
			keep(1, mac, win)
		}
	}
	// long strings up to the quantifier's bound, below the storage limit
	{
		long := make([]rune, 32767)
		for i := range long {
			long[i] = rune(0x4E00 + i%20000)
		}
		long[5] = 0x1F600 // one surrogate pair: 32767 runes would be 32768 units
		win := absTabs{"ja-JP": {1: string(long[:32765]), 2: "x"}}
		g.add(nameLine("nameenc", 1, absTabs{}, win))
		ml := make([]rune, 32767)
		for i := range ml {
			ml[i] = refMacDec[32+i%224]
		}
		g.add(nameLine("nameenc", 1, absTabs{"fr": {1: string(ml), 2: string(ml), 3: string(ml[:32766])}}, absTabs{}))
	}
	// many records below the limit of the record area: 5460 records
	{
		m := map[int]string{}
		for i := 0; i < 5460; i++ {
			m[300+i] = "x"
		}
		g.add(nameLine("nameenc", 1, absTabs{}, absTabs{"en-US": m}))
	}
	genNameLimits(g, r)

	// decoder: encoded tables, hand-assembled tables, mutations
	for _, b := range encoded {
		g.add(vlib.Line(vlib.Atom("namedec"), vlib.Hex(b)))
	}
	var raws [][]byte
	m := vlib.Count(g.tier, 400, 8000)
	for i := 0; i < m; i++ {
		var recs []rawNameRec
		for k := r.Intn(8); k > 0; k-- {
			rc := rawNameRec{plat: vlib.Pick(r, []int{0, 1, 1, 2, 3, 3, 4}), enc: vlib.Pick(r, []int{0, 0, 1, 1, 2, 10}), id: randID(r)}
			switch rc.plat {
			case 1:
				rc.lang = vlib.Pick(r, []int{0, 1, 94, 95, 127, 128, 150, 151, 65535, vlib.Pick(r, macLangs).id})
			default:
				rc.lang = vlib.Pick(r, []int{0, 0x409, 0x40A, 0xC0A, 0x407, 0x7FFF, vlib.Pick(r, winLangs).id})
			}
			switch r.Intn(4) {
			case 0:
				rc.str = r.Bytes(r.Intn(9))
			case 1:
				rc.str = refUTF16BE([]rune(randWinString(r, nil)))
			case 2:
				rc.str = []byte("Name")
			default:
				rc.str = []byte{0, 'N', 0, 'a'}
			}
			recs = append(recs, rc)
		}
		version := vlib.Pick(r, []int{0, 0, 1, 1, 2})
		raws = append(raws, buildRawName(version, recs, r.Intn(3), r.Intn(2)*r.Intn(5)))
		g.add(vlib.Line(vlib.Atom("namedec"), vlib.Hex(raws[len(raws)-1])))
	}
	src := append(append([][]byte(nil), encoded...), raws...)
	k := vlib.Count(g.tier, 1500, 40000)
	for i := 0; i < k; i++ {
		b := append([]byte(nil), vlib.Pick(r, src)...)
		if len(b) > 4000 {
			continue
		}
		switch r.Intn(10) {
		case 0:
			b = b[:r.Intn(len(b)+1)]
		case 1:
			if len(b) > 0 {
				b[r.Intn(len(b))] ^= byte(1 << r.Intn(8))
			}
		case 2: // header fields
			if len(b) >= 6 {
				p := 2 * r.Intn(3)
				v := vlib.Pick(r, []int{0, 1, 2, len(b), len(b) + 1, len(b) - 1, 6, 18, 65535, r.Intn(65536)})
				b[p], b[p+1] = byte(v>>8), byte(v)
			}
		case 3: // length/offset of a record
			if len(b) >= 18 {
				nrec := (len(b) - 6) / 12
				p := 6 + 12*r.Intn(nrec) + 8 + 2*r.Intn(2)
				v := vlib.Pick(r, []int{0, 1, 2, 3, len(b), 65535, r.Intn(200)})
				b[p], b[p+1] = byte(v>>8), byte(v)
			}
		case 4: // platform/encoding/language of a record
			if len(b) >= 18 {
				nrec := (len(b) - 6) / 12
				p := 6 + 12*r.Intn(nrec) + 2*r.Intn(3)
				v := vlib.Pick(r, []int{0, 1, 3, 0x409, 10, r.Intn(300)})
				b[p], b[p+1] = byte(v>>8), byte(v)
			}
		case 5:
			b = append(b, r.Bytes(r.Intn(20))...)
		case 6:
			if len(b) >= 2 {
				b[0], b[1] = 0, 1 // version 1: a langTagCount follows the records
			}
		case 7, 8: // a record that ends exactly at / one byte beyond the end of the table
			if len(b) >= 18 {
				nrec := be16at(b, 2)
				so := be16at(b, 4)
				if nrec > 0 && 6+12*nrec <= len(b) {
					p := 6 + 12*r.Intn(nrec)
					off := be16at(b, p+10)
					avail := len(b) - so - off + r.Intn(2)
					if avail >= 0 && avail < 65536 {
						b[p+8], b[p+9] = byte(avail>>8), byte(avail)
						// make sure the record is one the decoder looks at
						if r.Bool() {
							b[p], b[p+1], b[p+2], b[p+3], b[p+4], b[p+5] = 0, 3, 0, 1, 4, 9
						} else {
							b[p], b[p+1], b[p+2], b[p+3], b[p+4], b[p+5] = 0, 1, 0, 0, 0, 0
						}
					}
				}
			}
		default:
			b = r.Bytes(r.Intn(60))
		}
		g.add(vlib.Line(vlib.Atom("namedec"), vlib.Hex(b)))
	}
}

// genNameLimits adds the inputs at the two unguarded 16-bit limits of
// name.Info.Encode (known findings, see findings/C14.json).
func genNameLimits(g *gen, r *vlib.Rand) {
	a := bytes.Repeat([]byte("a"), 32767)
	b := bytes.Repeat([]byte("b"), 32767)
	// two distinct strings of 32767 UTF-16 units and a short one: the short
	// one is stored at offset 131068, truncated to 65532
	g.add(nameLine("nameenc", 1, absTabs{}, absTabs{"en-US": {1: string(a), 2: string(b), 4: "ccc"}}))
	// 5461 records: the record area ends at 65538
	m := map[int]string{}
	for i := 0; i < 5461; i++ {
		m[256+i] = "x"
	}
	g.add(nameLine("nameenc", 1, absTabs{}, absTabs{"en-US": m}))
	if g.tier == "thorough" {
		// storage just above the limit with everything still addressable
		// (the last string starts below 65536): no failure expected
		c := bytes.Repeat([]byte("c"), 16000)
		g.add(nameLine("nameenc", 1, absTabs{}, absTabs{"en-US": {1: string(a), 2: string(c)}}))
		g.add(nameLine("nameenc", 1, absTabs{"en": {1: string(a), 2: string(b), 3: string(c)}}, absTabs{"en-US": {1: "w"}}))
	}
}
