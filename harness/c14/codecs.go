package c14

import (
	"bytes"
	"fmt"

	"golang.org/x/text/encoding/charmap"
	"seehuhn.de/go/sfnt/mac"
	"seehuhn.de/go/sfnt/name"
	"seehuhn.de/go/sfnt/verifharness/vlib"
)

// ---- independent references ----

// refMac is Mac OS Roman as implemented by golang.org/x/text (independent of
// the tables in /repo/mac).
var refMacDec [256]rune
var refMacEnc = map[rune]byte{}

func init() {
	d := charmap.Macintosh.NewDecoder()
	for i := 0; i < 256; i++ {
		out, err := d.Bytes([]byte{byte(i)})
		if err != nil {
			panic(err)
		}
		rr := []rune(string(out))
		if len(rr) != 1 {
			panic("charmap.Macintosh: unexpected decoding")
		}
		refMacDec[i] = rr[0]
		refMacEnc[rr[0]] = byte(i)
	}
}

func inMacRepertoire(rr []rune) bool {
	for _, r := range rr {
		if _, ok := refMacEnc[r]; !ok {
			return false
		}
	}
	return true
}

// refUTF16BE is UTF-16BE written from the Unicode standard (D91).
func refUTF16BE(rr []rune) []byte {
	var out []byte
	for _, r := range rr {
		if r < 0x10000 {
			out = append(out, byte(r>>8), byte(r))
		} else {
			c := r - 0x10000
			hi, lo := 0xD800+(c>>10), 0xDC00+(c&0x3FF)
			out = append(out, byte(hi>>8), byte(hi), byte(lo>>8), byte(lo))
		}
	}
	return out
}

// refUTF16Decode decodes well-formed UTF-16BE; ok is false when the input is
// ill-formed (odd length, unpaired surrogate).
func refUTF16Decode(b []byte) (rr []rune, ok bool) {
	if len(b)%2 != 0 {
		return nil, false
	}
	for i := 0; i < len(b); i += 2 {
		u := rune(b[i])<<8 | rune(b[i+1])
		switch {
		case u >= 0xD800 && u < 0xDC00:
			if i+3 >= len(b) {
				return nil, false
			}
			v := rune(b[i+2])<<8 | rune(b[i+3])
			if v < 0xDC00 || v >= 0xE000 {
				return nil, false
			}
			rr = append(rr, 0x10000+(u-0xD800)<<10+(v-0xDC00))
			i += 2
		case u >= 0xDC00 && u < 0xE000:
			return nil, false
		default:
			rr = append(rr, u)
		}
	}
	return rr, true
}

func nonASCII(rr []rune) bool {
	for _, r := range rr {
		if r >= 128 {
			return true
		}
	}
	return false
}

// ---- cases ----

func caseMacDec(args []vlib.Sx) (*res, error) {
	if len(args) != 1 {
		return nil, fmt.Errorf("macdec: want 1 argument")
	}
	b, err := vlib.AsBytes(args[0])
	if err != nil {
		return nil, err
	}
	r := &res{labels: []string{"kind:macdec"}}
	var s string
	if p, msg := guard(func() { s = mac.Decode(b) }); p {
		r.impl = "panic"
		r.failf("c14-mac-decode-panic", "mac.Decode panics: %s", msg)
		return r, nil
	}
	rr := []rune(s)
	r.impl = vlib.Str(vlib.L(vlib.Atom("ok"), runesSx(rr)))
	r.nt = hasHigh(b)
	// oracle 1: the codecs invert each other
	var back []byte
	if p, msg := guard(func() { back = mac.Encode(s) }); p {
		r.failf("c14-mac-encode-panic", "mac.Encode panics: %s", msg)
	} else if !bytes.Equal(back, b) {
		r.failf("c14-mac-roundtrip", "mac.Encode(mac.Decode(%x)) = %x", b, back)
	}
	// oracle 2: independent table
	if len(rr) != len(b) {
		r.failf("c14-mac-reference", "mac.Decode(%x) has %d runes", b, len(rr))
	} else {
		for i, c := range b {
			if rr[i] != refMacDec[c] {
				r.failf("c14-mac-reference", "mac.Decode: byte %#02x gives U+%04X, x/text charmap.Macintosh gives U+%04X", c, rr[i], refMacDec[c])
				break
			}
		}
	}
	return r, nil
}

func hasHigh(b []byte) bool {
	for _, c := range b {
		if c >= 128 {
			return true
		}
	}
	return false
}

func caseMacEnc(args []vlib.Sx) (*res, error) {
	if len(args) != 1 {
		return nil, fmt.Errorf("macenc: want 1 argument")
	}
	rr, err := asRunes(args[0])
	if err != nil {
		return nil, err
	}
	for _, c := range rr {
		if !isScalar(c) {
			return nil, fmt.Errorf("macenc: U+%X is not a scalar value", c)
		}
	}
	r := &res{labels: []string{"kind:macenc"}, nt: nonASCII(rr)}
	s := string(rr)
	var b []byte
	if p, msg := guard(func() { b = mac.Encode(s) }); p {
		r.impl = "panic"
		r.failf("c14-mac-encode-panic", "mac.Encode panics: %s", msg)
		return r, nil
	}
	r.impl = vlib.Str(vlib.Hex(b))
	if inMacRepertoire(rr) {
		r.labels = append(r.labels, "macenc:repertoire")
		var back string
		if p, msg := guard(func() { back = mac.Decode(b) }); p {
			r.failf("c14-mac-decode-panic", "mac.Decode panics: %s", msg)
		} else if back != s {
			r.failf("c14-mac-roundtrip", "mac.Decode(mac.Encode(%q)) = %q", s, back)
		}
	} else {
		r.labels = append(r.labels, "macenc:unrepresentable")
		if len(b) != len(rr) {
			r.failf("c14-mac-reference", "mac.Encode(%q) has %d bytes for %d runes", s, len(b), len(rr))
		}
	}
	return r, nil
}

func caseU16Enc(args []vlib.Sx) (*res, error) {
	if len(args) != 1 {
		return nil, fmt.Errorf("u16enc: want 1 argument")
	}
	rr, err := asRunes(args[0])
	if err != nil {
		return nil, err
	}
	for _, c := range rr {
		if !isScalar(c) {
			return nil, fmt.Errorf("u16enc: U+%X is not a scalar value", c)
		}
	}
	r := &res{labels: []string{"kind:u16enc"}, nt: nonASCII(rr)}
	s := string(rr)
	var b []byte
	if p, msg := guard(func() { b = name.VerifC14UTF16Encode(s) }); p {
		r.impl = "panic"
		r.failf("c14-utf16-panic", "utf16Encode panics: %s", msg)
		return r, nil
	}
	r.impl = vlib.Str(vlib.Hex(b))
	if want := refUTF16BE(rr); !bytes.Equal(b, want) {
		r.failf("c14-utf16-reference", "utf16Encode(%q) = %x, the Unicode definition gives %x", s, b, want)
	}
	var back string
	if p, msg := guard(func() { back = name.VerifC14UTF16Decode(b) }); p {
		r.failf("c14-utf16-panic", "utf16Decode panics: %s", msg)
	} else if back != s {
		r.failf("c14-utf16-roundtrip", "utf16Decode(utf16Encode(%q)) = %q", s, back)
	}
	for _, c := range rr {
		if c >= 0x10000 {
			r.labels = append(r.labels, "u16enc:astral")
			break
		}
	}
	return r, nil
}

func caseU16Dec(args []vlib.Sx) (*res, error) {
	if len(args) != 1 {
		return nil, fmt.Errorf("u16dec: want 1 argument")
	}
	b, err := vlib.AsBytes(args[0])
	if err != nil {
		return nil, err
	}
	r := &res{labels: []string{"kind:u16dec"}}
	var s string
	if p, msg := guard(func() { s = name.VerifC14UTF16Decode(b) }); p {
		r.impl = "panic"
		r.failf("c14-utf16-panic", "utf16Decode panics: %s", msg)
		return r, nil
	}
	rr := []rune(s)
	r.impl = vlib.Str(runesSx(rr))
	r.nt = hasHigh(b) || len(b)%2 == 1
	if want, ok := refUTF16Decode(b); ok {
		r.labels = append(r.labels, "u16dec:wellformed")
		if string(want) != s {
			r.failf("c14-utf16-reference", "utf16Decode(%x) = %q, the Unicode definition gives %q", b, s, string(want))
		}
		var back []byte
		if p, msg := guard(func() { back = name.VerifC14UTF16Encode(s) }); p {
			r.failf("c14-utf16-panic", "utf16Encode panics: %s", msg)
		} else if !bytes.Equal(back, b) {
			r.failf("c14-utf16-roundtrip", "utf16Encode(utf16Decode(%x)) = %x", b, back)
		}
	} else {
		r.labels = append(r.labels, "u16dec:illformed")
	}
	return r, nil
}

// ---- generators ----

var boundaryRunes = []rune{0, 1, 0x41, 0x7F, 0x80, 0xFF, 0x100, 0x7FF, 0x800, 0x20AC, 0xD7FF, 0xE000, 0xF8FF,
	0xFB02, 0xFFFD, 0xFFFE, 0xFFFF, 0x10000, 0x10001, 0x103FF, 0x10400, 0x1F600, 0xFFFFF, 0x100000, 0x10FFFF}

func randScalar(r *vlib.Rand) rune {
	switch r.Intn(8) {
	case 0:
		return vlib.Pick(r, boundaryRunes)
	case 1, 2:
		return rune(r.Range(0x20, 0x7E))
	case 3:
		return rune(r.Range(0x80, 0x7FF))
	case 4:
		return refMacDec[r.Range(128, 255)]
	case 5:
		return rune(r.Range(0x10000, 0x10FFFF))
	}
	for {
		c := rune(r.Intn(0x10000))
		if isScalar(c) {
			return c
		}
	}
}

func randMacRune(r *vlib.Rand) rune {
	if r.Bool() {
		return rune(r.Intn(128))
	}
	return refMacDec[r.Range(128, 255)]
}

func genCodecs(g *gen, r *vlib.Rand) {
	// exhaustive: every byte, every rune of the repertoire, every BMP boundary
	for c := 0; c < 256; c++ {
		g.add(vlib.Line(vlib.Atom("macdec"), vlib.Hex([]byte{byte(c)})))
		g.add(vlib.Line(vlib.Atom("macenc"), runesSx([]rune{refMacDec[c]})))
	}
	all := make([]byte, 256)
	for i := range all {
		all[i] = byte(i)
	}
	g.add(vlib.Line(vlib.Atom("macdec"), vlib.Hex(all)))
	g.add(vlib.Line(vlib.Atom("macdec"), vlib.Hex(nil)))
	g.add(vlib.Line(vlib.Atom("macenc"), runesSx(nil)))
	for _, c := range boundaryRunes {
		g.add(vlib.Line(vlib.Atom("macenc"), runesSx([]rune{c})))
		g.add(vlib.Line(vlib.Atom("u16enc"), runesSx([]rune{c})))
	}
	g.add(vlib.Line(vlib.Atom("u16enc"), runesSx(nil)))
	g.add(vlib.Line(vlib.Atom("u16dec"), vlib.Hex(nil)))
	// every 16-bit unit alone and surrogates in all pairings at the edges
	edges := []int{0xD7FF, 0xD800, 0xD801, 0xDBFF, 0xDC00, 0xDC01, 0xDFFF, 0xE000, 0x0041, 0xFFFF, 0xFFFD}
	for _, a := range edges {
		g.add(vlib.Line(vlib.Atom("u16dec"), vlib.Hex([]byte{byte(a >> 8), byte(a)})))
		g.add(vlib.Line(vlib.Atom("u16dec"), vlib.Hex([]byte{byte(a >> 8), byte(a), 0x12})))
		for _, b := range edges {
			g.add(vlib.Line(vlib.Atom("u16dec"), vlib.Hex([]byte{byte(a >> 8), byte(a), byte(b >> 8), byte(b)})))
		}
	}
	if g.tier == "thorough" {
		// every scalar value of the BMP plus a stride through the astral planes
		var rr []rune
		for c := rune(0); c < 0x10000; c++ {
			if isScalar(c) {
				rr = append(rr, c)
			}
			if len(rr) == 512 || c == 0xFFFF {
				g.add(vlib.Line(vlib.Atom("u16enc"), runesSx(rr)))
				g.add(vlib.Line(vlib.Atom("macenc"), runesSx(rr)))
				rr = rr[:0]
			}
		}
		for c := rune(0x10000); c <= 0x10FFFF; c += 257 {
			rr = append(rr, c)
			if len(rr) == 512 {
				g.add(vlib.Line(vlib.Atom("u16enc"), runesSx(rr)))
				rr = rr[:0]
			}
		}
		g.add(vlib.Line(vlib.Atom("u16enc"), runesSx(rr)))
	}
	// random strings
	n := vlib.Count(g.tier, 800, 20000)
	for i := 0; i < n; i++ {
		l := r.Intn(40)
		if r.Chance(1, 20) {
			l = r.Range(1000, 3000)
		}
		rr := make([]rune, l)
		for j := range rr {
			rr[j] = randScalar(r)
		}
		g.add(vlib.Line(vlib.Atom("u16enc"), runesSx(rr)))
		g.add(vlib.Line(vlib.Atom("macenc"), runesSx(rr)))
		mr := make([]rune, l)
		for j := range mr {
			mr[j] = randMacRune(r)
		}
		g.add(vlib.Line(vlib.Atom("macenc"), runesSx(mr)))
		g.add(vlib.Line(vlib.Atom("macdec"), vlib.Hex(r.Bytes(l))))
		// bytes: random, well-formed UTF-16 with a mutation, odd length
		b := refUTF16BE(rr)
		switch r.Intn(4) {
		case 0:
			b = r.Bytes(r.Intn(60))
		case 1:
			if len(b) > 0 {
				b[r.Intn(len(b))] = byte(0xD8 + r.Intn(8))
			}
		case 2:
			if len(b) > 0 {
				b = b[:len(b)-1]
			}
		}
		g.add(vlib.Line(vlib.Atom("u16dec"), vlib.Hex(b)))
	}
}
