package main

import (
	"seehuhn.de/go/sfnt/verifharness/c14"
	"seehuhn.de/go/sfnt/verifharness/vlib"
)

func main() { vlib.Main(c14.Gen, c14.RunCase) }
