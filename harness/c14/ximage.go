package c14

import (
	"fmt"
	"sort"
	"sync"

	"golang.org/x/image/font/gofont/goregular"
	xsfnt "golang.org/x/image/font/sfnt"
)

// Independent reader: golang.org/x/image/font/sfnt on a font that carries the
// table under test.  The carrier is the Go Regular font (shipped with
// x/image); its maxp/hhea/hmtx/loca/head tables are adjusted to the number of
// glyphs the post table speaks about.

type sfntTable struct {
	tag  string
	data []byte
}

var (
	carrierOnce   sync.Once
	carrierTables []sfntTable
	carrierHead   []byte // first 12 bytes
	carrierErr    error
)

func loadCarrier() {
	b := goregular.TTF
	if len(b) < 12 {
		carrierErr = fmt.Errorf("carrier font too short")
		return
	}
	n := int(b[4])<<8 | int(b[5])
	carrierHead = append([]byte(nil), b[:12]...)
	for i := 0; i < n; i++ {
		p := 12 + 16*i
		if p+16 > len(b) {
			carrierErr = fmt.Errorf("carrier directory truncated")
			return
		}
		off := int(b[p+8])<<24 | int(b[p+9])<<16 | int(b[p+10])<<8 | int(b[p+11])
		l := int(b[p+12])<<24 | int(b[p+13])<<16 | int(b[p+14])<<8 | int(b[p+15])
		if off+l > len(b) {
			carrierErr = fmt.Errorf("carrier table out of range")
			return
		}
		carrierTables = append(carrierTables, sfntTable{string(b[p : p+4]), append([]byte(nil), b[off:off+l]...)})
	}
}

// buildFont assembles an sfnt file from the carrier with some tables replaced.
func buildFont(repl map[string][]byte) ([]byte, error) {
	carrierOnce.Do(loadCarrier)
	if carrierErr != nil {
		return nil, carrierErr
	}
	var tabs []sfntTable
	seen := map[string]bool{}
	for _, t := range carrierTables {
		if d, ok := repl[t.tag]; ok {
			tabs = append(tabs, sfntTable{t.tag, d})
		} else {
			tabs = append(tabs, t)
		}
		seen[t.tag] = true
	}
	for tag, d := range repl {
		if !seen[tag] {
			tabs = append(tabs, sfntTable{tag, d})
		}
	}
	sort.Slice(tabs, func(i, j int) bool { return tabs[i].tag < tabs[j].tag })
	out := append([]byte(nil), carrierHead...)
	out[4], out[5] = byte(len(tabs)>>8), byte(len(tabs))
	pos := 12 + 16*len(tabs)
	var body []byte
	for _, t := range tabs {
		out = append(out, t.tag...)
		out = append(out, 0, 0, 0, 0) // checksum (not verified by the reader)
		out = append(out, byte(pos>>24), byte(pos>>16), byte(pos>>8), byte(pos))
		l := len(t.data)
		out = append(out, byte(l>>24), byte(l>>16), byte(l>>8), byte(l))
		body = append(body, t.data...)
		for len(body)%4 != 0 {
			body = append(body, 0)
		}
		pos = 12 + 16*len(tabs) + len(body)
	}
	return append(out, body...), nil
}

func carrierTable(tag string) []byte {
	carrierOnce.Do(loadCarrier)
	for _, t := range carrierTables {
		if t.tag == tag {
			return append([]byte(nil), t.data...)
		}
	}
	return nil
}

// fontWithGlyphs returns the replacement tables that give the carrier exactly
// n (empty) glyphs.
func glyphCountTables(n int) map[string][]byte {
	maxp := carrierTable("maxp")
	hhea := carrierTable("hhea")
	head := carrierTable("head")
	if len(maxp) < 6 || len(hhea) < 36 || len(head) < 54 {
		return nil
	}
	maxp[4], maxp[5] = byte(n>>8), byte(n)
	hhea[34], hhea[35] = 0, 1 // numberOfHMetrics
	head[50], head[51] = 0, 0 // indexToLocFormat: short offsets
	return map[string][]byte{
		"maxp": maxp, "hhea": hhea, "head": head,
		"hmtx": make([]byte, 4+2*(n-1)),
		"loca": make([]byte, 2*(n+1)),
	}
}

// ximagePost: golang.org/x/image/font/sfnt.GlyphName must see the names that
// were written.  x/image does not support string indices above 32767.
func ximagePost(r *res, table []byte, names []string, sig func(string) string) {
	n := len(names)
	if names == nil {
		n = 3
	}
	if n < 1 {
		return
	}
	custom := 0
	for _, nm := range names {
		if !stdIndex[nm] {
			custom++
		}
	}
	if 258+custom > 32768 || n > 30000 {
		r.labels = append(r.labels, "ximage:post-skipped")
		return
	}
	repl := glyphCountTables(n)
	if repl == nil {
		return
	}
	repl["post"] = table
	file, err := buildFont(repl)
	if err != nil {
		return
	}
	var f *xsfnt.Font
	var perr error
	if p, msg := guard(func() { f, perr = xsfnt.Parse(file) }); p || perr != nil {
		r.failf(sig("c14-post-ximage"), "x/image/font/sfnt cannot parse a font carrying the post table: %v %s", perr, msg)
		return
	}
	r.labels = append(r.labels, "ximage:post")
	var buf xsfnt.Buffer
	for i := 0; i < n; i++ {
		var got string
		var gerr error
		if p, msg := guard(func() { got, gerr = f.GlyphName(&buf, xsfnt.GlyphIndex(i)) }); p {
			r.failf(sig("c14-post-ximage"), "x/image GlyphName panics: %s", msg)
			return
		}
		want := ""
		if names != nil {
			want = names[i]
		}
		if gerr != nil {
			r.failf(sig("c14-post-ximage"), "x/image GlyphName(%d): %v (wrote %q)", i, gerr, trunc(want))
			return
		}
		if got != want {
			r.failf(sig("c14-post-ximage"), "x/image GlyphName(%d) = %q, wrote %q", i, trunc(got), trunc(want))
			return
		}
	}
}

func bmpOnly(s string) bool {
	for _, c := range s {
		if c > 0xFFFF {
			return false
		}
	}
	return true
}

// ximageName: golang.org/x/image/font/sfnt.Name returns, for a name id, the
// string of the first record with that id (Macintosh records sort first, then
// ascending language id); x/image reads Windows strings as UCS-2.
func ximageName(r *res, table []byte, mac, win absTabs, sig func(string) string) {
	file, err := buildFont(map[string][]byte{"name": table})
	if err != nil {
		return
	}
	var f *xsfnt.Font
	var perr error
	if p, msg := guard(func() { f, perr = xsfnt.Parse(file) }); p || perr != nil {
		r.failf(sig("c14-name-ximage"), "x/image/font/sfnt cannot parse a font carrying the name table: %v %s", perr, msg)
		return
	}
	first := map[int]string{}
	for _, e := range macLangs {
		for id, s := range mac[e.tag] {
			if _, ok := first[id]; !ok {
				first[id] = s
			}
		}
	}
	macIDs := map[int]bool{}
	for id := range first {
		macIDs[id] = true
	}
	for _, e := range winLangs {
		for id, s := range win[e.tag] {
			if _, ok := first[id]; !ok {
				first[id] = s
			}
		}
	}
	if len(first) > 200 {
		// Name is a linear scan; sample the ids of very large tables
		k := 0
		for id := range first {
			if k++; k > 200 {
				delete(first, id)
			}
		}
	}
	r.labels = append(r.labels, "ximage:name")
	var buf xsfnt.Buffer
	for id, want := range first {
		if !macIDs[id] && !bmpOnly(want) {
			continue
		}
		var got string
		var gerr error
		if p, msg := guard(func() { got, gerr = f.Name(&buf, xsfnt.NameID(id)) }); p {
			r.failf(sig("c14-name-ximage"), "x/image Name panics: %s", msg)
			return
		}
		if gerr != nil {
			r.failf(sig("c14-name-ximage"), "x/image Name(%d): %v (wrote %q)", id, gerr, trunc(want))
			return
		}
		if got != want {
			r.failf(sig("c14-name-ximage"), "x/image Name(%d) = %q, wrote %q", id, trunc(got), trunc(want))
			return
		}
	}
}
