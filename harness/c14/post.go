package c14

import (
	"bytes"
	"fmt"
	"math"

	"seehuhn.de/go/postscript/funit"
	"seehuhn.de/go/sfnt/post"
	"seehuhn.de/go/sfnt/verifharness/vlib"
)

type postHdr struct {
	italic int64 // 16.16
	upos   int64
	uthick int64
	fixed  bool
}

func (h postHdr) sx() vlib.Sx {
	return vlib.L(vlib.I64(h.italic), vlib.I64(h.upos), vlib.I64(h.uthick), vlib.Bool(h.fixed))
}

func asPostHdr(x vlib.Sx) (h postHdr, err error) {
	l, err := vlib.AsList(x)
	if err != nil || len(l) != 4 {
		return h, fmt.Errorf("bad post header")
	}
	if h.italic, err = vlib.AsI64(l[0]); err != nil {
		return
	}
	if h.upos, err = vlib.AsI64(l[1]); err != nil {
		return
	}
	if h.uthick, err = vlib.AsI64(l[2]); err != nil {
		return
	}
	h.fixed, err = vlib.AsBool(l[3])
	if h.italic < math.MinInt32 || h.italic > math.MaxInt32 || h.upos < -32768 || h.upos > 32767 || h.uthick < -32768 || h.uthick > 32767 {
		return h, fmt.Errorf("post header out of range")
	}
	return
}

func namesSx(names []string) vlib.Sx {
	if names == nil {
		return vlib.Atom("nil")
	}
	l := make(vlib.List, len(names))
	for i, n := range names {
		l[i] = vlib.Hex([]byte(n))
	}
	return l
}

func asNames(x vlib.Sx) ([]string, error) {
	if a, ok := x.(vlib.Atom); ok {
		if a == "nil" {
			return nil, nil
		}
		return nil, fmt.Errorf("bad names")
	}
	l, _ := vlib.AsList(x)
	out := make([]string, len(l))
	for i, y := range l {
		b, err := vlib.AsBytes(y)
		if err != nil {
			return nil, err
		}
		out[i] = string(b)
	}
	return out, nil
}

func mkPostInfo(h postHdr, names []string) *post.Info {
	return &post.Info{
		ItalicAngle:        float64(h.italic) / 65536,
		UnderlinePosition:  funit.Int16(h.upos),
		UnderlineThickness: funit.Int16(h.uthick),
		IsFixedPitch:       h.fixed,
		Names:              names,
	}
}

func hdrOf(info *post.Info) postHdr {
	return postHdr{
		italic: int64(math.Round(info.ItalicAngle * 65536)),
		upos:   int64(info.UnderlinePosition),
		uthick: int64(info.UnderlineThickness),
		fixed:  info.IsFixedPitch,
	}
}

// the 258 standard Macintosh glyph names as the implementation reports them
// for a format-1 table (used by the generator and to classify names; the
// independent check of this list is the x/image reader in ximage.go)
var stdNames []string
var stdIndex = map[string]bool{}

func init() {
	b := (&post.Info{}).Encode()
	b[1] = 1 // version 1.0
	info, err := post.Read(bytes.NewReader(b))
	if err != nil {
		panic(err)
	}
	stdNames = append([]string(nil), info.Names...)
	for _, n := range stdNames {
		stdIndex[n] = true
	}
}

func sameNames(a, b []string) bool {
	if (a == nil) != (b == nil) || len(a) != len(b) {
		return false
	}
	for i := range a {
		if a[i] != b[i] {
			return false
		}
	}
	return true
}

// specPostNames reads the glyph names of a post table following the OpenType
// specification (versions 1.0, 2.0, 3.0), independently of post.Read.
func specPostNames(b []byte) ([]string, error) {
	if len(b) < 32 {
		return nil, fmt.Errorf("short header")
	}
	version := uint32(b[0])<<24 | uint32(b[1])<<16 | uint32(b[2])<<8 | uint32(b[3])
	switch version {
	case 0x00010000:
		return stdNames, nil
	case 0x00030000:
		return nil, nil
	case 0x00020000:
	default:
		return nil, fmt.Errorf("version %08x", version)
	}
	if len(b) < 34 {
		return nil, fmt.Errorf("no numGlyphs")
	}
	n := int(b[32])<<8 | int(b[33])
	if len(b) < 34+2*n {
		return nil, fmt.Errorf("short glyphNameIndex")
	}
	// all Pascal strings of the string data, in order
	var strs []string
	for p := 34 + 2*n; p < len(b); {
		l := int(b[p])
		if p+1+l > len(b) {
			return nil, fmt.Errorf("truncated Pascal string")
		}
		strs = append(strs, string(b[p+1:p+1+l]))
		p += 1 + l
	}
	out := make([]string, n)
	for i := 0; i < n; i++ {
		idx := int(b[34+2*i])<<8 | int(b[35+2*i])
		if idx < 258 {
			out[i] = stdNames[idx]
		} else if idx-258 < len(strs) {
			out[i] = strs[idx-258]
		} else {
			return nil, fmt.Errorf("glyph %d: string index %d out of range", i, idx-258)
		}
	}
	return out, nil
}

// inQuantifier tells whether a name list is inside the property's domain and,
// if the format cannot represent it, which known limit it exceeds.
func postDomain(names []string) (inside bool, limitSig string) {
	if len(names) > 65535 {
		return false, ""
	}
	custom := 0
	for _, n := range names {
		if len(n) > 255 {
			return false, ""
		}
		if !stdIndex[n] {
			custom++
		}
	}
	if names != nil && !sameNames(names, stdNames) && 258+custom > 65536 {
		return true, "post-format2-index-exceeds-65535"
	}
	return true, ""
}

// casePostRep is casePostEnc with the name list given in run-length form.
func casePostRep(args []vlib.Sx) (*res, error) {
	if len(args) != 2 {
		return nil, fmt.Errorf("postrep: want 2 arguments")
	}
	runs, err := vlib.AsList(args[1])
	if err != nil {
		return nil, err
	}
	names := []string{}
	for _, x := range runs {
		p, err := vlib.AsList(x)
		if err != nil || len(p) != 2 {
			return nil, fmt.Errorf("postrep: bad run")
		}
		n, err := vlib.AsInt(p[0])
		if err != nil || n < 0 || len(names)+n > 70000 {
			return nil, fmt.Errorf("postrep: bad count")
		}
		b, err := vlib.AsBytes(p[1])
		if err != nil {
			return nil, err
		}
		for i := 0; i < n; i++ {
			names = append(names, string(b))
		}
	}
	return casePostEnc([]vlib.Sx{args[0], namesSx(names)})
}

func casePostEnc(args []vlib.Sx) (*res, error) {
	if len(args) != 2 {
		return nil, fmt.Errorf("postenc: want 2 arguments")
	}
	h, err := asPostHdr(args[0])
	if err != nil {
		return nil, err
	}
	names, err := asNames(args[1])
	if err != nil {
		return nil, err
	}
	r := &res{labels: []string{"kind:postenc"}}
	info := mkPostInfo(h, names)
	var b []byte
	if p, msg := guard(func() { b = info.Encode() }); p {
		r.impl = "panic"
		r.failf("c14-post-encode-panic", "post.Info.Encode panics: %s", msg)
		return r, nil
	}
	r.impl = vlib.Str(vlib.Hex(b))
	if len(b) >= 4 {
		r.labels = append(r.labels, fmt.Sprintf("post:format%d", b[1]))
		if b[1] == 2 {
			custom := 0
			for _, n := range names {
				if !stdIndex[n] {
					custom++
				}
			}
			r.nt = custom > 0
			r.labels = append(r.labels, "post:glyphs<="+sizeClass(len(names)))
		}
	}
	inside, limit := postDomain(names)
	if !inside {
		r.labels = append(r.labels, "post:outside-quantifier")
		return r, nil
	}
	sig := func(s string) string {
		if limit != "" {
			return limit
		}
		return s
	}
	// oracle 1: read back through the implementation
	var back *post.Info
	var rerr error
	if p, msg := guard(func() { back, rerr = post.Read(bytes.NewReader(b)) }); p {
		r.failf("c14-post-read-panic", "post.Read panics on Encode's output: %s", msg)
		return r, nil
	}
	if rerr != nil {
		r.failf(sig("c14-post-roundtrip"), "post.Read rejects Encode's output: %v", rerr)
	} else {
		if !sameNames(back.Names, names) {
			r.failf(sig("c14-post-roundtrip"), "glyph names differ after Encode/Read: %s", firstNameDiff(names, back.Names))
		}
		if hdrOf(back) != h {
			r.failf("c14-post-header", "header fields differ after Encode/Read: %v vs %v", hdrOf(back), h)
		}
	}
	// oracle 2: independent reader
	got, serr := specPostNames(b)
	if serr != nil {
		r.failf(sig("c14-post-independent-reader"), "independent reader rejects Encode's output: %v", serr)
	} else if !sameNames(got, names) {
		r.failf(sig("c14-post-independent-reader"), "independent reader sees other names: %s", firstNameDiff(names, got))
	}
	// oracle 3: golang.org/x/image/font/sfnt on a font carrying the table
	ximagePost(r, b, names, sig)
	return r, nil
}

func firstNameDiff(want, got []string) string {
	if (want == nil) != (got == nil) {
		return fmt.Sprintf("nil-ness differs (want nil: %v, got nil: %v)", want == nil, got == nil)
	}
	if len(want) != len(got) {
		return fmt.Sprintf("%d names written, %d read", len(want), len(got))
	}
	for i := range want {
		if want[i] != got[i] {
			return fmt.Sprintf("glyph %d: wrote %q, read %q", i, trunc(want[i]), trunc(got[i]))
		}
	}
	return "equal"
}

func trunc(s string) string {
	if len(s) > 40 {
		return s[:40] + "..."
	}
	return s
}

func sizeClass(n int) string {
	for _, b := range []int{0, 1, 10, 100, 258, 1000, 10000, 65278, 65535} {
		if n <= b {
			return fmt.Sprint(b)
		}
	}
	return "more"
}

func casePostRead(args []vlib.Sx) (*res, error) {
	if len(args) != 1 {
		return nil, fmt.Errorf("postread: want 1 argument")
	}
	b, err := vlib.AsBytes(args[0])
	if err != nil {
		return nil, err
	}
	r := &res{labels: []string{"kind:postread"}, nt: true}
	var info *post.Info
	var rerr error
	if p, msg := guard(func() { info, rerr = post.Read(bytes.NewReader(b)) }); p {
		r.impl = "panic"
		r.labels = append(r.labels, "postread:panic")
		r.failf("c14-post-read-panic", "post.Read panics: %s", msg)
		return r, nil
	}
	if rerr != nil {
		r.impl = "err"
		r.labels = append(r.labels, "postread:err")
		return r, nil
	}
	r.labels = append(r.labels, "postread:ok")
	r.impl = vlib.Str(vlib.L(vlib.Atom("ok"), hdrOf(info).sx(), namesSx(info.Names)))
	// what was read survives writing and reading again
	if inside, limit := postDomain(info.Names); inside && limit == "" {
		var back *post.Info
		if p, msg := guard(func() { back, rerr = post.Read(bytes.NewReader(info.Encode())) }); p {
			r.failf("c14-post-read-panic", "re-encoding/reading panics: %s", msg)
		} else if rerr != nil {
			r.failf("c14-post-roundtrip", "re-encoded table rejected: %v", rerr)
		} else if !sameNames(back.Names, info.Names) {
			r.failf("c14-post-roundtrip", "names differ after re-encoding: %s", firstNameDiff(info.Names, back.Names))
		}
	}
	return r, nil
}

// ---- generators ----

func randName(r *vlib.Rand) string {
	switch r.Intn(10) {
	case 0:
		return vlib.Pick(r, stdNames)
	case 1:
		return ""
	case 2:
		return string(r.Bytes(vlib.Pick(r, []int{1, 2, 254, 255})))
	case 3:
		return string(r.Bytes(r.Intn(256)))
	case 4:
		return fmt.Sprintf("uni%04X", r.Intn(0x10000))
	case 5:
		return vlib.Pick(r, stdNames) + ".alt"
	}
	return fmt.Sprintf("glyph%d", r.Intn(50))
}

func randHdr(r *vlib.Rand) postHdr {
	if r.Chance(1, 4) {
		return postHdr{}
	}
	return postHdr{
		italic: int64(int32(r.Uint64())),
		upos:   int64(int16(r.Uint64())),
		uthick: int64(int16(r.Uint64())),
		fixed:  r.Bool(),
	}
}

func randNames(r *vlib.Rand, n int) []string {
	names := make([]string, n)
	mode := r.Intn(4)
	for i := range names {
		switch mode {
		case 0: // mostly standard, in order
			if i < len(stdNames) && !r.Chance(1, 10) {
				names[i] = stdNames[i]
			} else {
				names[i] = randName(r)
			}
		case 1: // subset of the standard names in random order
			names[i] = vlib.Pick(r, stdNames)
		case 2: // custom
			names[i] = fmt.Sprintf("g%d", i)
		default:
			names[i] = randName(r)
		}
	}
	return names
}

func postEncLine(h postHdr, names []string) string {
	return vlib.Line(vlib.Atom("postenc"), h.sx(), namesSx(names))
}

func genPost(g *gen, r *vlib.Rand) {
	g.add(postEncLine(postHdr{}, nil))
	g.add(postEncLine(randHdr(r), nil))
	g.add(postEncLine(randHdr(r), stdNames))
	g.add(postEncLine(postHdr{}, []string{}))
	g.add(postEncLine(postHdr{}, []string{""}))
	g.add(postEncLine(postHdr{}, []string{".notdef"}))
	g.add(postEncLine(postHdr{}, stdNames[:257]))
	g.add(postEncLine(postHdr{}, append(append([]string(nil), stdNames...), "extra")))
	g.add(postEncLine(postHdr{}, append(append([]string(nil), stdNames...), ".notdef")))
	rev := make([]string, len(stdNames))
	for i, n := range stdNames {
		rev[len(rev)-1-i] = n
	}
	g.add(postEncLine(postHdr{}, rev))
	g.add(postEncLine(postHdr{}, []string{string(bytes.Repeat([]byte{'n'}, 255)), "a", string(bytes.Repeat([]byte{0xff}, 255))}))
	// outside the quantifier (model comparison only): 256 and 300 byte names
	g.add(postEncLine(postHdr{}, []string{".notdef", string(bytes.Repeat([]byte{'n'}, 256)), "foo"}))
	g.add(postEncLine(postHdr{}, []string{string(bytes.Repeat([]byte{'m'}, 300))}))

	var encoded [][]byte
	n := vlib.Count(g.tier, 600, 15000)
	for i := 0; i < n; i++ {
		k := r.Intn(30)
		switch r.Intn(12) {
		case 0:
			k = r.Range(250, 270)
		case 1:
			k = r.Range(300, 3000)
		}
		names := randNames(r, k)
		h := randHdr(r)
		g.add(postEncLine(h, names))
		if len(encoded) < 400 || r.Chance(1, 10) {
			encoded = append(encoded, mkPostInfo(h, names).Encode())
		}
	}
	// large lists and the index limit of format 2
	big := []int{vlib.Count(g.tier, 5000, 20000)}
	if g.tier == "thorough" {
		big = append(big, 65278, 65535)
	}
	for _, k := range big {
		names := make([]string, k)
		for i := range names {
			names[i] = fmt.Sprintf("g%d", i)
		}
		g.add(postEncLine(postHdr{}, names))
		if k == 65535 {
			// the same number of glyphs with enough standard names to stay
			// below the index limit
			for i := 0; i < 300; i++ {
				names[i*7] = stdNames[i%258]
			}
			g.add(postEncLine(postHdr{}, names))
		}
	}

	// malformed / arbitrary bytes for Read
	for _, b := range encoded {
		g.add(vlib.Line(vlib.Atom("postread"), vlib.Hex(b)))
	}
	m := vlib.Count(g.tier, 1500, 40000)
	for i := 0; i < m; i++ {
		b := append([]byte(nil), vlib.Pick(r, encoded)...)
		switch r.Intn(9) {
		case 0: // truncate
			b = b[:r.Intn(len(b)+1)]
		case 1: // flip a byte
			b[r.Intn(len(b))] ^= byte(1 << r.Intn(8))
		case 2: // version
			b[0], b[1], b[2], b[3] = 0, byte(r.Intn(6)), byte(r.Intn(2)*r.Intn(256)), 0
		case 3: // force format 2 on whatever follows
			b[0], b[1], b[2], b[3] = 0, 2, 0, 0
			b = append(b, r.Bytes(r.Intn(80))...)
		case 4: // numGlyphs
			if len(b) >= 34 {
				b[32], b[33] = byte(r.Intn(3)), byte(r.Uint64())
			}
		case 5: // an index
			if len(b) >= 36 {
				p := 34 + 2*r.Intn((len(b)-34)/2)
				v := vlib.Pick(r, []int{0, 257, 258, 259, 300, 65535, r.Intn(65536)})
				b[p], b[p+1] = byte(v>>8), byte(v)
			}
		case 6: // a length byte somewhere in the tail
			p := r.Intn(len(b))
			b[p] = vlib.Pick(r, []byte{0, 1, 254, 255})
		case 7: // random bytes after a plausible header
			b = append(b[:min(len(b), 32)], r.Bytes(r.Intn(100))...)
		default:
			b = r.Bytes(r.Intn(70))
		}
		g.add(vlib.Line(vlib.Atom("postread"), vlib.Hex(b)))
	}
}
