package c10b

import (
	"bytes"
	"encoding/hex"
	"fmt"
	"reflect"
	"sort"
	"strings"

	"seehuhn.de/go/sfnt"
	"seehuhn.de/go/sfnt/cff"
	"seehuhn.de/go/sfnt/cmap"
	"seehuhn.de/go/sfnt/glyf"
	"seehuhn.de/go/sfnt/glyph"
)

// The oracle states property C10 directly on the real values, independently
// of the model: glyph i of the subset IS the original glyph listed at i
// (outline data, width, name, CID, private dictionary, font matrix); unused
// private dictionaries are dropped and the used ones appear once, in the order
// of first use; composites are re-pointed to the same component; the appended
// glyphs are exactly the transitively referenced components; the character
// map is exact; the encoding is transferred; the subset can be written and
// read back; and Subset does not modify what it was given.

const (
	sigPanic    = "c10b-subset-panics"
	sigGlyph    = "c10b-glyph-not-original"
	sigFD       = "c10b-private-dict-or-matrix-not-original"
	sigFDOrder  = "c10b-private-dicts-not-dropped-or-reordered"
	sigEnc      = "c10b-encoding-not-transferred"
	sigComp     = "c10b-composite-reference"
	sigExtras   = "c10b-extras-not-closure"
	sigCMap     = "c10b-cmap-not-exact"
	sigModified = "c10b-subset-modifies-its-arguments"
	sigWrite    = "c10b-subset-not-writable"
	sigReread   = "c10b-subset-changes-on-reread"
	// the subset keeps a reference to memory the caller owns (the glyph list)
	sigRetainsCaller = "c10-subset-retains-caller-memory"
	// the subset keeps a reference to a slice or function field of the original
	// (beyond the *Glyph / *PrivateDict values it is documented to share)
	sigRetainsOriginal = "c10-subset-retains-original-slices"
	// fixed finding (fixes/C10-glyph-list-aliased.diff)
	sigListAliased = "c10-glyph-list-aliased"
	// findings of the main development that this part's fonts can hit as well
	sigEncContig = "cff-subset-builtin-encoding-not-contiguous"
	sigAllBlank  = "c10-all-blank-subset-unreadable"
)

// ---- the domain, decided on the descriptor ----

func dupFreeInRange(gl []int, n int) bool {
	seen := map[int]bool{}
	for _, g := range gl {
		if g < 0 || g >= n || seen[g] {
			return false
		}
		seen[g] = true
	}
	return true
}

// cffUsable: everything Subset touches for these glyphs exists.
func cffUsable(d *CffDesc, glyphs []int) bool {
	if d.FDSel.Nil {
		return len(glyphs) == 0
	}
	for _, g := range glyphs {
		v := d.FDSel.Dflt
		if g < len(d.FDSel.Tbl) {
			v = d.FDSel.Tbl[g]
		}
		if v == fdPanic || v < 0 || v >= len(d.Privs) {
			return false
		}
		if d.HasROS && v >= len(d.Mats) {
			return false
		}
		if d.HasG2C && g >= len(d.G2C) {
			return false
		}
	}
	return true
}

func glyfUsable(d *GlyfDesc) bool {
	n := len(d.Glyphs)
	if len(d.Widths) != n || (d.HasNames && len(d.Names) != n) {
		return false
	}
	for _, g := range d.Glyphs {
		if g == nil {
			continue
		}
		for _, c := range g.Comps {
			if c.Gid < 0 || c.Gid >= n {
				return false
			}
		}
	}
	return true
}

func cmapUsable(d *FontDesc) bool {
	for _, e := range d.CMap {
		if len(e.Data) < 2 {
			return false
		}
		switch int(e.Data[0])<<8 | int(e.Data[1]) {
		case 2, 4, 6, 8, 10, 12, 13, 14:
		default:
			// format 0: SubsetCMap refuses loudly; a format word cmap.Decode
			// never lets through: Table.Get calls a nil decoder
			return false
		}
	}
	return true
}

// inDomain: the clauses of the property can be asked of this case.
func inDomain(c *Case) bool {
	all := append(append([]int(nil), c.GL...), c.Extras...)
	switch c.Sel {
	case "cff":
		if !dupFreeInRange(c.GL, len(c.Cff.Glyphs)) {
			return false
		}
		for _, g := range c.Extras {
			if g < 0 || g >= len(c.Cff.Glyphs) {
				return false
			}
		}
		if c.Which == "pub" {
			all = c.GL
		}
		return cffUsable(c.Cff, all)
	case "glyf":
		if !dupFreeInRange(c.GL, len(c.Glyf.Glyphs)) {
			return false
		}
		for _, g := range c.Extras {
			if g < 0 || g >= len(c.Glyf.Glyphs) {
				return false
			}
		}
		return glyfUsable(c.Glyf)
	case "font":
		if c.Font.Gdef || !cmapUsable(c.Font) {
			return false
		}
		if c.Font.Cff != nil {
			return dupFreeInRange(c.GL, len(c.Font.Cff.Glyphs)) && cffUsable(c.Font.Cff, c.GL)
		}
		return dupFreeInRange(c.GL, len(c.Font.Glyf.Glyphs)) && glyfUsable(c.Font.Glyf)
	}
	return false
}

// ---- clauses ----

func posIn(sel []glyph.ID) map[glyph.ID]int {
	m := map[glyph.ID]int{}
	for i, g := range sel {
		if _, ok := m[g]; !ok {
			m[g] = i
		}
	}
	return m
}

// checkCff: sub is the subset of orig for the glyph list sel.  shared = the
// two live in the same memory (pointers must be shared as documented).
func checkCff(orig, sub *cff.Outlines, sel []glyph.ID, shared bool) (string, string) {
	if len(sub.Glyphs) != len(sel) {
		return fmt.Sprintf("the subset has %d glyphs for a list of %d", len(sub.Glyphs), len(sel)), sigGlyph
	}
	if orig.IsCIDKeyed() != sub.IsCIDKeyed() || !reflect.DeepEqual(orig.ROS, sub.ROS) {
		return "the subset is not of the same kind (simple / CID-keyed, ROS) as the original", sigGlyph
	}
	if (orig.GIDToCID == nil) != (sub.GIDToCID == nil) || (sub.GIDToCID != nil && len(sub.GIDToCID) != len(sel)) {
		return "GIDToCID of the subset does not have one entry per glyph", sigGlyph
	}
	if sub.FDSelect == nil && len(sel) > 0 {
		return "the subset has no FDSelect function", sigFD
	}
	var used []int // original FD indices in the order of first use
	seenFD := map[int]bool{}
	for i, g := range sel {
		a, b := orig.Glyphs[g], sub.Glyphs[i]
		if shared && a != b {
			return fmt.Sprintf("new glyph %d is not the *cff.Glyph of original glyph %d", i, g), sigGlyph
		}
		if !reflect.DeepEqual(a, b) {
			return fmt.Sprintf("new glyph %d differs from original glyph %d (name %q/%q, width %v/%v)", i, g, b.Name, a.Name, b.Width, a.Width), sigGlyph
		}
		if orig.GIDToCID != nil && sub.GIDToCID[i] != orig.GIDToCID[g] {
			return fmt.Sprintf("new glyph %d has CID %d, original glyph %d has CID %d", i, sub.GIDToCID[i], g, orig.GIDToCID[g]), sigGlyph
		}
		ofd := orig.FDSelect(g)
		nfd := sampleFD(sub.FDSelect, i)
		if nfd < 0 || nfd >= len(sub.Private) {
			return fmt.Sprintf("FDSelect of the subset gives %d for glyph %d (%d private dictionaries)", nfd, i, len(sub.Private)), sigFD
		}
		if shared && sub.Private[nfd] != orig.Private[ofd] {
			return fmt.Sprintf("new glyph %d does not use the *PrivateDict of original glyph %d", i, g), sigFD
		}
		if !reflect.DeepEqual(sub.Private[nfd], orig.Private[ofd]) {
			return fmt.Sprintf("the private dictionary of new glyph %d (FD %d) is not that of original glyph %d (FD %d)", i, nfd, g, ofd), sigFD
		}
		if orig.IsCIDKeyed() {
			if nfd >= len(sub.FontMatrices) || sub.FontMatrices[nfd] != orig.FontMatrices[ofd] {
				return fmt.Sprintf("the font matrix of new glyph %d (FD %d) is not that of original glyph %d (FD %d)", i, nfd, g, ofd), sigFD
			}
		}
		if !seenFD[ofd] {
			seenFD[ofd] = true
			used = append(used, ofd)
		}
	}
	if len(sub.Private) != len(used) {
		return fmt.Sprintf("the subset has %d private dictionaries, the listed glyphs use %d", len(sub.Private), len(used)), sigFDOrder
	}
	if orig.IsCIDKeyed() && len(sub.FontMatrices) != len(used) {
		return fmt.Sprintf("the subset has %d font matrices for %d private dictionaries", len(sub.FontMatrices), len(used)), sigFDOrder
	}
	if !orig.IsCIDKeyed() && sub.FontMatrices != nil {
		return "a simple font got font matrices", sigFDOrder
	}
	for k, ofd := range used {
		if !reflect.DeepEqual(sub.Private[k], orig.Private[ofd]) {
			return fmt.Sprintf("private dictionary %d of the subset is not original dictionary %d (order of first use)", k, ofd), sigFDOrder
		}
	}
	// built-in encoding
	if (orig.Encoding == nil) != (sub.Encoding == nil) {
		return "the subset's Encoding is nil iff the original's is not", sigEnc
	}
	if orig.Encoding != nil {
		if len(sub.Encoding) != len(orig.Encoding) {
			return fmt.Sprintf("Encoding has %d entries instead of %d", len(sub.Encoding), len(orig.Encoding)), sigEnc
		}
		pos := posIn(sel)
		for code, g := range orig.Encoding {
			want := 0
			if p, ok := pos[g]; ok {
				want = p
			}
			if int(sub.Encoding[code]) != want {
				return fmt.Sprintf("code %d: original glyph %d; the subset's Encoding gives %d, expected %d", code, g, sub.Encoding[code], want), sigEnc
			}
		}
	}
	return "", ""
}

func hx(b []byte) string { return hex.EncodeToString(b) }

// flat writes what a glyph looks like with every component reference replaced
// by what it leads to.
func flat(o *glyf.Outlines, gid int, depth int, sb *strings.Builder) {
	if gid < 0 || gid >= len(o.Glyphs) {
		fmt.Fprintf(sb, "missing(%d)", gid)
		return
	}
	g := o.Glyphs[gid]
	w, name := "?", ""
	if gid < len(o.Widths) {
		w = fmt.Sprint(o.Widths[gid])
	}
	if o.Names != nil && gid < len(o.Names) {
		name = o.Names[gid]
	}
	fmt.Fprintf(sb, "{w=%s n=%q ", w, name)
	switch {
	case g == nil:
		sb.WriteString("nil")
	case depth > 12:
		sb.WriteString("deep")
	default:
		fmt.Fprintf(sb, "box=%d,%d,%d,%d ", g.LLx, g.LLy, g.URx, g.URy)
		switch d := g.Data.(type) {
		case glyf.SimpleGlyph:
			fmt.Fprintf(sb, "S%d:%s", d.NumContours, hx(d.Encoded))
		case glyf.CompositeGlyph:
			sb.WriteString("C[")
			for _, c := range d.Components {
				fmt.Fprintf(sb, "(%04x %s ", uint16(c.Flags), hx(c.Data))
				flat(o, int(c.GlyphIndex), depth+1, sb)
				sb.WriteString(")")
			}
			if d.Instructions == nil {
				sb.WriteString("]nil")
			} else {
				fmt.Fprintf(sb, "]%s", hx(d.Instructions))
			}
		}
	}
	sb.WriteString("}")
}

func flatStr(o *glyf.Outlines, gid int) string {
	var sb strings.Builder
	flat(o, gid, 0, &sb)
	return sb.String()
}

// closure: the glyphs reachable from the list through component references.
func closure(o *glyf.Outlines, start []glyph.ID) map[glyph.ID]bool {
	seen := map[glyph.ID]bool{}
	var todo []glyph.ID
	for _, g := range start {
		if !seen[g] {
			seen[g] = true
			todo = append(todo, g)
		}
	}
	for len(todo) > 0 {
		g := todo[len(todo)-1]
		todo = todo[:len(todo)-1]
		if int(g) >= len(o.Glyphs) {
			continue
		}
		for _, c := range o.Glyphs[g].Components() {
			if !seen[c] {
				seen[c] = true
				todo = append(todo, c)
			}
		}
	}
	return seen
}

// checkGlyf: sub is the subset of orig; sel = original id of every new glyph,
// prefix = the glyphs the closure started from, in order.
func checkGlyf(orig, sub *glyf.Outlines, sel, prefix []glyph.ID, shared bool) (string, string) {
	n := len(sel)
	if len(sub.Glyphs) != n || len(sub.Widths) != n {
		return fmt.Sprintf("the subset has %d glyphs and %d widths for %d selected glyphs", len(sub.Glyphs), len(sub.Widths), n), sigGlyph
	}
	if (orig.Names == nil) != (sub.Names == nil) || (sub.Names != nil && len(sub.Names) != n) {
		return "the subset's Names do not have one entry per glyph", sigGlyph
	}
	if n < len(prefix) {
		return "the subset has fewer glyphs than the list", sigExtras
	}
	for i, g := range prefix {
		if sel[i] != g {
			return fmt.Sprintf("new glyph %d is original glyph %d, the list says %d", i, sel[i], g), sigGlyph
		}
	}
	// the appended glyphs: exactly the reachable components, each once
	want := closure(orig, prefix)
	seen := map[glyph.ID]bool{}
	for i, g := range sel {
		if seen[g] {
			return fmt.Sprintf("original glyph %d occurs twice in the subset (second time as new glyph %d)", g, i), sigExtras
		}
		seen[g] = true
		if !want[g] {
			return fmt.Sprintf("new glyph %d (original %d) is neither listed nor a component of a retained glyph", i, g), sigExtras
		}
	}
	for g := range want {
		if !seen[g] {
			return fmt.Sprintf("original glyph %d is a component of a retained glyph but is not in the subset", g), sigExtras
		}
	}
	pos := posIn(sel)
	for i, g := range sel {
		a, b := orig.Glyphs[g], sub.Glyphs[i]
		if sub.Widths[i] != orig.Widths[g] {
			return fmt.Sprintf("new glyph %d has width %d, original glyph %d has %d", i, sub.Widths[i], g, orig.Widths[g]), sigGlyph
		}
		if orig.Names != nil && sub.Names[i] != orig.Names[g] {
			return fmt.Sprintf("new glyph %d is named %q, original glyph %d %q", i, sub.Names[i], g, orig.Names[g]), sigGlyph
		}
		if (a == nil) != (b == nil) {
			return fmt.Sprintf("new glyph %d is blank iff original glyph %d is not", i, g), sigGlyph
		}
		if a == nil {
			continue
		}
		if a.Rect16 != b.Rect16 {
			return fmt.Sprintf("new glyph %d has another bounding box than original glyph %d", i, g), sigGlyph
		}
		switch da := a.Data.(type) {
		case glyf.SimpleGlyph:
			db, ok := b.Data.(glyf.SimpleGlyph)
			if !ok || db.NumContours != da.NumContours || !bytes.Equal(db.Encoded, da.Encoded) {
				return fmt.Sprintf("new glyph %d does not carry the outline data of original glyph %d", i, g), sigGlyph
			}
		case glyf.CompositeGlyph:
			db, ok := b.Data.(glyf.CompositeGlyph)
			if !ok || len(db.Components) != len(da.Components) {
				return fmt.Sprintf("new glyph %d is not a composite with the %d components of original glyph %d", i, len(da.Components), g), sigComp
			}
			if (da.Instructions == nil) != (db.Instructions == nil) || !bytes.Equal(da.Instructions, db.Instructions) {
				return fmt.Sprintf("the instructions of composite %d differ from those of original glyph %d", i, g), sigGlyph
			}
			for k, ca := range da.Components {
				cb := db.Components[k]
				if cb.Flags != ca.Flags || !bytes.Equal(cb.Data, ca.Data) {
					return fmt.Sprintf("component %d of new glyph %d: flags / arguments / transformation differ from original glyph %d", k, i, g), sigGlyph
				}
				p, ok := pos[ca.GlyphIndex]
				if !ok || int(cb.GlyphIndex) != p {
					return fmt.Sprintf("component %d of new glyph %d refers to new glyph %d; original glyph %d referred to glyph %d, which is new glyph %d", k, i, cb.GlyphIndex, g, ca.GlyphIndex, p), sigComp
				}
			}
		}
		// ... and what every reference leads to is the same outline as before
		if fa, fb := flatStr(orig, int(g)), flatStr(sub, i); fa != fb {
			return fmt.Sprintf("new glyph %d with its components resolved is not original glyph %d with its components resolved:\n  %s\n  %s", i, g, fb, fa), sigComp
		}
	}
	if shared {
		if sub.Maxp != orig.Maxp || !reflect.DeepEqual(sub.Tables, orig.Tables) {
			return "Tables / Maxp of the TrueType outlines are not carried over", sigGlyph
		}
	}
	return "", ""
}

// ---- cmap: independent readers, written from the OpenType text ----

func u16(b []byte, off int) (int, bool) {
	if off < 0 || off+2 > len(b) {
		return 0, false
	}
	return int(b[off])<<8 | int(b[off+1]), true
}

func u32(b []byte, off int) (uint32, bool) {
	if off < 0 || off+4 > len(b) {
		return 0, false
	}
	return uint32(b[off])<<24 | uint32(b[off+1])<<16 | uint32(b[off+2])<<8 | uint32(b[off+3]), true
}

// specLookup4: -1 = the subtable is malformed for this code.
func specLookup4(b []byte, c int) int {
	if c > 0xFFFF {
		return 0
	}
	segX2, ok := u16(b, 6)
	if !ok {
		return -1
	}
	n := segX2 / 2
	for i := 0; i < n; i++ {
		end, ok := u16(b, 14+2*i)
		if !ok {
			return -1
		}
		if end < c {
			continue
		}
		start, ok1 := u16(b, 16+segX2+2*i)
		delta, ok2 := u16(b, 16+2*segX2+2*i)
		ro, ok3 := u16(b, 16+3*segX2+2*i)
		if !ok1 || !ok2 || !ok3 {
			return -1
		}
		if start > c {
			return 0
		}
		if ro == 0 {
			return (c + delta) & 0xFFFF
		}
		g, ok := u16(b, 16+3*segX2+2*i+ro+2*(c-start))
		if !ok {
			return -1
		}
		if g == 0 {
			return 0
		}
		return (g + delta) & 0xFFFF
	}
	return 0
}

func specLookup12(b []byte, c uint32) int {
	n, ok := u32(b, 12)
	if !ok {
		return -1
	}
	for i := 0; i < int(n); i++ {
		s, ok1 := u32(b, 16+12*i)
		e, ok2 := u32(b, 20+12*i)
		g, ok3 := u32(b, 24+12*i)
		if !ok1 || !ok2 || !ok3 {
			return -1
		}
		if s <= c && c <= e {
			return int(g + (c - s))
		}
	}
	return 0
}

func checkCMap(orig, sub cmap.Table, gl []glyph.ID) (string, string) {
	if orig == nil {
		if sub != nil {
			return "the original has no cmap table, the subset has one", sigCMap
		}
		return "", ""
	}
	if sub == nil {
		return "the subset has no cmap table", sigCMap
	}
	pos := posIn(gl)
	keys := make([]cmap.Key, 0, len(orig))
	for k := range orig {
		keys = append(keys, k)
	}
	sort.Slice(keys, func(i, j int) bool {
		a, b := keys[i], keys[j]
		if a.PlatformID != b.PlatformID {
			return a.PlatformID < b.PlatformID
		}
		if a.EncodingID != b.EncodingID {
			return a.EncodingID < b.EncodingID
		}
		return a.Language < b.Language
	})
	kept := 0
	for _, k := range keys {
		format, m := rawDecode(orig[k])
		sd, has := sub[k]
		if format == 0 {
			if has {
				return fmt.Sprintf("cmap subtable %v cannot be decoded but is in the subset", k), sigCMap
			}
			continue
		}
		kept++
		if !has {
			return fmt.Sprintf("cmap subtable %v is missing in the subset", k), sigCMap
		}
		sf, _ := u16(sd, 0)
		if sf != format {
			return fmt.Sprintf("cmap subtable %v: format %d in the original (as decoded), format %d in the subset", k, format, sf), sigCMap
		}
		if l, _ := u16(sd, map[int]int{4: 4, 12: 10}[format]); l != int(k.Language) {
			return fmt.Sprintf("cmap subtable %v: language field %d", k, l), sigCMap
		}
		// the codes to ask about: every mapped code, its neighbours, the ends
		probe := map[uint32]bool{0: true, 0xFFFF: true, 0x10000: true, 0x10FFFF: true}
		cnt := 0
		for c := range m {
			probe[c], probe[c+1] = true, true
			if c > 0 {
				probe[c-1] = true
			}
			cnt++
		}
		for c := range probe {
			want := 0
			if g, mapped := m[c]; mapped {
				if p, ok := pos[g]; ok {
					want = p
				}
			}
			var got int
			if format == 4 {
				got = specLookup4(sd, int(c))
			} else {
				got = specLookup12(sd, c)
			}
			if got != want {
				return fmt.Sprintf("cmap subtable %v, code %d: the original maps it to glyph %d; the subset maps it to %d, expected %d", k, c, m[c], got, want), sigCMap
			}
		}
	}
	if len(sub) != kept {
		return fmt.Sprintf("the subset has %d cmap subtables, %d of the original's can be decoded", len(sub), kept), sigCMap
	}
	return "", ""
}

// ---- Write / Read of the subset ----

func encodingHasGap(o *cff.Outlines) bool {
	if o.Encoding == nil {
		return false
	}
	enc := map[glyph.ID]bool{}
	var max glyph.ID
	for _, g := range o.Encoding {
		if g != 0 {
			enc[g] = true
			if g > max {
				max = g
			}
		}
	}
	for g := glyph.ID(1); g < max; g++ {
		if !enc[g] {
			return true
		}
	}
	return false
}

// checkSubsetOf states the glyph clauses on a pair of fonts.
func checkSubsetOf(orig, sub *sfnt.Font, sel, prefix []glyph.ID, shared bool) (string, string) {
	switch oo := orig.Outlines.(type) {
	case *cff.Outlines:
		so, ok := sub.Outlines.(*cff.Outlines)
		if !ok {
			return "the subset of a CFF font has no CFF outlines", sigGlyph
		}
		return checkCff(oo, so, sel, shared)
	case *glyf.Outlines:
		so, ok := sub.Outlines.(*glyf.Outlines)
		if !ok {
			return "the subset of a TrueType font has no TrueType outlines", sigGlyph
		}
		return checkGlyf(oo, so, sel, prefix, shared)
	}
	return "the original has no outlines", sigGlyph
}

func checkWriteRead(c *Case, res *result) (string, string) {
	origBack, err := writeAndRead(res.origFont)
	if err != nil {
		return "", "" // the original is outside the domain of C01: nothing is promised
	}
	origBack.Gsub, origBack.Gpos = nil, nil
	var buf bytes.Buffer
	var werr error
	var wpanic any
	func() {
		defer func() { wpanic = recover() }()
		_, werr = res.subFont.Write(&buf)
	}()
	if wpanic != nil {
		return fmt.Sprint("Write of the subset panics: ", wpanic), sigWrite
	}
	if werr != nil {
		if so, ok := res.subFont.Outlines.(*cff.Outlines); ok && strings.Contains(werr.Error(), "encoded glyphs not contiguous") && encodingHasGap(so) {
			return "Write of the subset fails: " + werr.Error(), sigEncContig
		}
		return "Write of the subset fails: " + werr.Error(), sigWrite
	}
	var back *sfnt.Font
	var rerr error
	func() {
		defer func() {
			if e := recover(); e != nil {
				rerr = fmt.Errorf("panic: %v", e)
			}
		}()
		back, rerr = sfnt.Read(bytes.NewReader(buf.Bytes()))
	}()
	if rerr != nil {
		if so, ok := res.subFont.Outlines.(*glyf.Outlines); ok && strings.Contains(rerr.Error(), "no TrueType/OpenType glyph data found") {
			allBlank := true
			for _, g := range so.Glyphs {
				if g != nil {
					allBlank = false
				}
			}
			if allBlank {
				return "the written subset (all of whose glyphs are blank) cannot be read back: " + rerr.Error(), sigAllBlank
			}
		}
		return "the written subset cannot be read back: " + rerr.Error(), sigReread
	}
	// the re-read subset against the re-read original: glyph i is still the
	// glyph listed at i, composites still lead to the same components
	if fail, _ := checkSubsetOf(origBack, back, res.sel, toGIDs(c.GL), false); fail != "" {
		return "after Write/Read of the subset (compared with the original after Write/Read): " + fail, sigReread
	}
	if fail, _ := checkCMap(res.origFont.CMapTable, back.CMapTable, toGIDs(c.GL)); fail != "" && res.origFont.CMapTable != nil {
		return "after Write/Read of the subset: " + fail, sigReread
	}
	res.rereadChecked = true
	return "", ""
}

// oracle returns the first failing clause (and its signature), or "".
func oracle(c *Case, res *result) (fail, sig string) {
	if res.modified != "" {
		if strings.HasPrefix(res.modified, "the glyph list") {
			return res.modified, sigListAliased
		}
		return res.modified, sigModified
	}
	if res.firstResult != "" {
		return res.firstResult, sigModified
	}
	if res.retained != "" {
		return res.retained, sigRetainsCaller
	}
	if !inDomain(c) {
		return "", ""
	}
	// last of all (it destroys the original): the subset does not depend on
	// what the caller does with the original's slices and function fields
	// afterwards - asked only when every other clause holds
	defer func() {
		if fail == "" && res.changeOriginal != nil && !res.panicked {
			func() {
				defer func() {
					if e := recover(); e != nil {
						fail, sig = fmt.Sprint("the subset cannot be inspected after the original was changed: ", e), sigRetainsOriginal
					}
				}()
				if msg := res.changeOriginal(); msg != "" {
					fail, sig = msg, sigRetainsOriginal
				}
			}()
		}
	}()
	if res.hung {
		return "Subset does not return", sigPanic
	}
	if res.panicked {
		return "Subset panics on an input inside the domain: " + res.panicMsg, sigPanic
	}
	defer func() {
		if e := recover(); e != nil {
			fail, sig = fmt.Sprint("the subset cannot be inspected: ", e), sigGlyph
		}
	}()
	switch c.Sel {
	case "cff":
		return checkCff(res.origCff, res.subCff, res.sel, true)
	case "glyf":
		prefix := dedupe(append(append([]int(nil), c.GL...), c.Extras...))
		return checkGlyf(res.origGlyf, res.subGlyf, res.sel, toGIDs(prefix), true)
	case "font":
		if !res.selOK {
			return "the component references of the subset are inconsistent: no assignment of original glyphs to the appended glyphs explains them", sigComp
		}
		if fail, sig := checkSubsetOf(res.origFont, res.subFont, res.sel, toGIDs(c.GL), true); fail != "" {
			return fail, sig
		}
		if fail, sig := checkCMap(res.origFont.CMapTable, res.subFont.CMapTable, toGIDs(c.GL)); fail != "" {
			return fail, sig
		}
		if len(c.GL) > 0 && c.GL[0] == 0 {
			return checkWriteRead(c, res)
		}
	}
	return "", ""
}

func dedupe(xs []int) []int {
	seen := map[int]bool{}
	var out []int
	for _, x := range xs {
		if !seen[x] {
			seen[x] = true
			out = append(out, x)
		}
	}
	return out
}

// nontrivial: see the rule in Gen.
func nontrivial(c *Case, res *result) (bool, []string) {
	var labels []string
	if res.panicked {
		labels = append(labels, "outcome:panic")
	} else {
		labels = append(labels, "outcome:subset")
	}
	if inDomain(c) {
		labels = append(labels, "domain:in")
	} else {
		labels = append(labels, "domain:out")
	}
	nt := false
	switch c.Sel {
	case "cff":
		labels = append(labels, "cff:"+c.Which)
		if res.subCff != nil && res.origCff != nil {
			switch {
			case len(res.subCff.Private) < len(res.origCff.Private) && len(res.subCff.Private) > 1:
				labels = append(labels, "fd:some-dropped")
				nt = true
			case len(res.subCff.Private) == 1 && len(res.origCff.Private) > 1:
				labels = append(labels, "fd:reduced-to-one")
				nt = true
			case len(res.subCff.Private) > 1:
				labels = append(labels, "fd:all-kept")
				nt = true
			default:
				labels = append(labels, "fd:single")
			}
			if res.origCff.Encoding != nil {
				nt = true
			}
		}
	case "glyf":
		if res.subGlyf != nil {
			if len(res.sel) > len(dedupe(append(append([]int(nil), c.GL...), c.Extras...))) {
				labels = append(labels, "closure:appends")
				nt = true
			} else {
				labels = append(labels, "closure:nothing-appended")
			}
		}
	case "font":
		if res.subFont != nil {
			if g, ok := res.subFont.Outlines.(*glyf.Outlines); ok {
				labels = append(labels, "font:glyf")
				if len(g.Glyphs) > len(c.GL) {
					labels = append(labels, "closure:appends")
					nt = true
				}
			} else {
				labels = append(labels, "font:cff")
			}
			if len(res.subFont.CMapTable) > 0 {
				nt = true
			}
		}
	}
	return nt, labels
}
