package main

import (
	"seehuhn.de/go/sfnt/verifharness/c10b"
	"seehuhn.de/go/sfnt/verifharness/vlib"
)

func main() { vlib.Main(c10b.Gen, c10b.RunCase) }
