// Package c10b is the harness of part C10B of property C10: the concrete data
// transformations of subsetting (cff.Outlines.Subset, SubsetCFF, SubsetGlyf
// with FixComponents, the cmap loop of Font.Subset) compared field by field
// with the extracted model coq/C10B, and the property oracle stated on the
// real fonts.
package c10b

import (
	"fmt"
	"math"
	"strconv"
	"strings"

	"seehuhn.de/go/sfnt/verifharness/vlib"
)

// ---- descriptors: what a case line says ----

// Real is a decimal (-1)^Neg * Mant * 10^Exp in canonical form (zero is
// {false,0,0}; otherwise Mant > 0 and not divisible by 10).
type Real struct {
	Neg  bool
	Mant int64
	Exp  int
}

func (r Real) Float() float64 {
	s := fmt.Sprintf("%de%d", r.Mant, r.Exp)
	if r.Neg {
		s = "-" + s
	}
	x, err := strconv.ParseFloat(s, 64)
	if err != nil {
		panic(err)
	}
	return x
}

// RealOf gives the canonical decimal of the shortest representation of x.
func RealOf(x float64) Real {
	if x == 0 || math.IsNaN(x) || math.IsInf(x, 0) {
		return Real{}
	}
	s := strconv.FormatFloat(x, 'e', -1, 64) // d.ddddde±xx
	neg := false
	if s[0] == '-' {
		neg = true
		s = s[1:]
	}
	i := strings.IndexByte(s, 'e')
	mant, exps := s[:i], s[i+1:]
	exp, _ := strconv.Atoi(exps)
	digits := strings.Replace(mant, ".", "", 1)
	exp -= len(digits) - 1
	for len(digits) > 1 && digits[len(digits)-1] == '0' {
		digits = digits[:len(digits)-1]
		exp++
	}
	m, err := strconv.ParseInt(digits, 10, 64)
	if err != nil {
		panic(err)
	}
	return Real{Neg: neg, Mant: m, Exp: exp}
}

func mkReal(m int64, e int) Real {
	if m == 0 {
		return Real{}
	}
	r := Real{Neg: m < 0, Mant: m, Exp: e}
	if r.Neg {
		r.Mant = -m
	}
	for r.Mant%10 == 0 {
		r.Mant /= 10
		r.Exp++
	}
	return r
}

func (r Real) sx() vlib.Sx { return vlib.L(vlib.Bool(r.Neg), vlib.I64(r.Mant), vlib.Int(r.Exp)) }

// PrivD is a type1.PrivateDict.
type PrivD struct {
	BV, OB      []int
	BlueScale   Real
	Shift, Fuzz int
	HW, VW      Real
	Bold        bool
}

func (p PrivD) sx() vlib.Sx {
	return vlib.L(vlib.Ints(p.BV), vlib.Ints(p.OB), p.BlueScale.sx(), vlib.Int(p.Shift), vlib.Int(p.Fuzz),
		p.HW.sx(), p.VW.sx(), vlib.Bool(p.Bold))
}

// CGlyph is a *cff.Glyph: name, integer advance width, and the glyph program
// as bytes (see bodyOf / cmdsOf).
type CGlyph struct {
	Name  string
	Width int
	Body  []byte
}

// fdPanic marks "the FDSelect function panics here".
const fdPanic = math.MinInt32

// FDSel is an FDSelect function: nil, or Tbl[gid] for gid < len(Tbl) and Dflt
// beyond.
type FDSel struct {
	Nil  bool
	Tbl  []int
	Dflt int
}

func fdv(v int) vlib.Sx {
	if v == fdPanic {
		return vlib.Atom("p")
	}
	return vlib.Int(v)
}

// CffDesc is a *cff.Outlines.
type CffDesc struct {
	Glyphs []CGlyph
	Privs  []PrivD
	FDSel  FDSel
	HasEnc bool
	Enc    []int
	HasROS bool
	Reg    string
	Ord    string
	Sup    int
	HasG2C bool
	G2C    []int
	Mats   [][6]Real
}

func hexs(s string) vlib.Sx { return vlib.Hex([]byte(s)) }

func nilOr(has bool, x vlib.Sx) vlib.Sx {
	if !has {
		return vlib.Atom("nil")
	}
	return x
}

func matsSx(ms [][6]Real) vlib.Sx {
	l := make(vlib.List, len(ms))
	for i, m := range ms {
		e := make(vlib.List, 6)
		for k := range m {
			e[k] = m[k].sx()
		}
		l[i] = e
	}
	return l
}

func (d *CffDesc) sx() vlib.Sx {
	gl := make(vlib.List, len(d.Glyphs))
	for i, g := range d.Glyphs {
		gl[i] = vlib.L(hexs(g.Name), vlib.Int(g.Width), vlib.Hex(g.Body))
	}
	pr := make(vlib.List, len(d.Privs))
	for i, p := range d.Privs {
		pr[i] = p.sx()
	}
	var fs vlib.Sx = vlib.Atom("nil")
	if !d.FDSel.Nil {
		t := make(vlib.List, len(d.FDSel.Tbl))
		for i, v := range d.FDSel.Tbl {
			t[i] = fdv(v)
		}
		fs = vlib.L(t, fdv(d.FDSel.Dflt))
	}
	return vlib.L(gl, pr, fs, nilOr(d.HasEnc, vlib.Ints(d.Enc)),
		nilOr(d.HasROS, vlib.L(hexs(d.Reg), hexs(d.Ord), vlib.Int(d.Sup))),
		nilOr(d.HasG2C, vlib.Ints(d.G2C)), matsSx(d.Mats))
}

// GComp is a glyf.GlyphComponent.
type GComp struct {
	Flags, Gid int
	Data       []byte
}

// GGlyph is a non-nil *glyf.Glyph.
type GGlyph struct {
	Box    [4]int
	Simple bool
	NC     int
	Enc    []byte
	Comps  []GComp
	HasIns bool
	Ins    []byte
}

// GlyfDesc is a *glyf.Outlines (Tables and Maxp are fixed by the builder).
type GlyfDesc struct {
	Glyphs   []*GGlyph // nil = nil glyph
	Widths   []int
	HasNames bool
	Names    []string
}

func (g *GGlyph) sx() vlib.Sx {
	if g == nil {
		return vlib.Atom("nil")
	}
	box := vlib.L(vlib.Int(g.Box[0]), vlib.Int(g.Box[1]), vlib.Int(g.Box[2]), vlib.Int(g.Box[3]))
	if g.Simple {
		return vlib.L(vlib.Atom("simple"), vlib.Int(g.NC), box, vlib.Hex(g.Enc))
	}
	cs := make(vlib.List, len(g.Comps))
	for i, c := range g.Comps {
		cs[i] = vlib.L(vlib.Int(c.Flags), vlib.Int(c.Gid), vlib.Hex(c.Data))
	}
	return vlib.L(vlib.Atom("comp"), box, cs, nilOr(g.HasIns, vlib.Hex(g.Ins)))
}

func namesSx(ns []string) vlib.Sx {
	l := make(vlib.List, len(ns))
	for i, n := range ns {
		l[i] = hexs(n)
	}
	return l
}

func (d *GlyfDesc) sx() vlib.Sx {
	gl := make(vlib.List, len(d.Glyphs))
	for i, g := range d.Glyphs {
		gl[i] = g.sx()
	}
	return vlib.L(gl, vlib.Ints(d.Widths), nilOr(d.HasNames, namesSx(d.Names)))
}

// CMapEnt is one entry of a cmap.Table.
type CMapEnt struct {
	P, E, L int
	Data    []byte
}

// FontDesc is a *sfnt.Font without layout tables.
type FontDesc struct {
	Cff     *CffDesc
	Glyf    *GlyfDesc
	HasCMap bool
	CMap    []CMapEnt // sorted by key
	Gdef    bool
}

func (d *FontDesc) outlSx() vlib.Sx {
	if d.Cff != nil {
		return vlib.L(vlib.Atom("cff"), d.Cff.sx())
	}
	return vlib.L(vlib.Atom("glyf"), d.Glyf.sx())
}

func (d *FontDesc) cmapSx() vlib.Sx {
	if !d.HasCMap {
		return vlib.Atom("nil")
	}
	l := make(vlib.List, len(d.CMap))
	for i, e := range d.CMap {
		l[i] = vlib.L(vlib.L(vlib.Int(e.P), vlib.Int(e.E), vlib.Int(e.L)), vlib.Hex(e.Data))
	}
	return l
}

// Flags say how the real input is assembled from the descriptor; the model
// does not see them.
type Flags struct {
	Reread bool // the font went through Write/Read before Subset
	Alias  bool // glyph data are sub-slices of one array, slices have spare capacity
	Twice  bool // Subset is called a second time on the same font (the first result is kept alive)
}

func (f Flags) sx() vlib.Sx {
	var l vlib.List
	if f.Reread {
		l = append(l, vlib.Atom("reread"))
	}
	if f.Alias {
		l = append(l, vlib.Atom("alias"))
	}
	if f.Twice {
		l = append(l, vlib.Atom("twice"))
	}
	if l == nil {
		l = vlib.List{}
	}
	return l
}

// Case is one case line.
type Case struct {
	Sel    string // cff | glyf | font
	Which  string // cff: pub | sfnt
	Cff    *CffDesc
	Glyf   *GlyfDesc
	Font   *FontDesc
	Orc    []int
	GL     []int
	Extras []int
	Flags  Flags
}

func (c *Case) Line() string {
	switch c.Sel {
	case "cff":
		return vlib.Line(vlib.Atom("cff"), vlib.Atom(c.Which), c.Cff.sx(), vlib.Ints(c.GL), vlib.Ints(c.Extras), c.Flags.sx())
	case "glyf":
		return vlib.Line(vlib.Atom("glyf"), c.Glyf.sx(), vlib.Ints(c.Orc), vlib.Ints(c.GL), vlib.Ints(c.Extras), c.Flags.sx())
	case "font":
		return vlib.Line(vlib.Atom("font"), vlib.Ints(c.Orc), c.Font.outlSx(), c.Font.cmapSx(), vlib.Bool(c.Font.Gdef), vlib.Ints(c.GL), c.Flags.sx())
	}
	panic("unknown selector " + c.Sel)
}

// ---- parsing ----

func isNil(x vlib.Sx) bool {
	a, ok := x.(vlib.Atom)
	return ok && string(a) == "nil"
}

func parseReal(x vlib.Sx) (Real, error) {
	l, err := vlib.AsList(x)
	if err != nil || len(l) != 3 {
		return Real{}, fmt.Errorf("bad real")
	}
	neg, _ := vlib.AsBool(l[0])
	m, err := vlib.AsI64(l[1])
	if err != nil {
		return Real{}, err
	}
	e, err := vlib.AsInt(l[2])
	return Real{neg, m, e}, err
}

func parseStr(x vlib.Sx) (string, error) {
	b, err := vlib.AsBytes(x)
	return string(b), err
}

func parseFdv(x vlib.Sx) (int, error) {
	if a, ok := x.(vlib.Atom); ok && string(a) == "p" {
		return fdPanic, nil
	}
	return vlib.AsInt(x)
}

func parseCff(x vlib.Sx) (*CffDesc, error) {
	l, err := vlib.AsList(x)
	if err != nil || len(l) != 7 {
		return nil, fmt.Errorf("bad outlines")
	}
	d := &CffDesc{}
	gl, err := vlib.AsList(l[0])
	if err != nil {
		return nil, err
	}
	for _, g := range gl {
		e, err := vlib.AsList(g)
		if err != nil || len(e) != 3 {
			return nil, fmt.Errorf("bad cff glyph")
		}
		var cg CGlyph
		if cg.Name, err = parseStr(e[0]); err != nil {
			return nil, err
		}
		if cg.Width, err = vlib.AsInt(e[1]); err != nil {
			return nil, err
		}
		if cg.Body, err = vlib.AsBytes(e[2]); err != nil {
			return nil, err
		}
		d.Glyphs = append(d.Glyphs, cg)
	}
	pr, err := vlib.AsList(l[1])
	if err != nil {
		return nil, err
	}
	for _, p := range pr {
		e, err := vlib.AsList(p)
		if err != nil || len(e) != 8 {
			return nil, fmt.Errorf("bad private dict")
		}
		var pd PrivD
		if pd.BV, err = vlib.AsInts(e[0]); err != nil {
			return nil, err
		}
		if pd.OB, err = vlib.AsInts(e[1]); err != nil {
			return nil, err
		}
		if pd.BlueScale, err = parseReal(e[2]); err != nil {
			return nil, err
		}
		if pd.Shift, err = vlib.AsInt(e[3]); err != nil {
			return nil, err
		}
		if pd.Fuzz, err = vlib.AsInt(e[4]); err != nil {
			return nil, err
		}
		if pd.HW, err = parseReal(e[5]); err != nil {
			return nil, err
		}
		if pd.VW, err = parseReal(e[6]); err != nil {
			return nil, err
		}
		pd.Bold, _ = vlib.AsBool(e[7])
		d.Privs = append(d.Privs, pd)
	}
	if isNil(l[2]) {
		d.FDSel.Nil = true
	} else {
		e, err := vlib.AsList(l[2])
		if err != nil || len(e) != 2 {
			return nil, fmt.Errorf("bad FDSelect")
		}
		t, err := vlib.AsList(e[0])
		if err != nil {
			return nil, err
		}
		for _, v := range t {
			k, err := parseFdv(v)
			if err != nil {
				return nil, err
			}
			d.FDSel.Tbl = append(d.FDSel.Tbl, k)
		}
		if d.FDSel.Dflt, err = parseFdv(e[1]); err != nil {
			return nil, err
		}
	}
	if !isNil(l[3]) {
		d.HasEnc = true
		if d.Enc, err = vlib.AsInts(l[3]); err != nil {
			return nil, err
		}
	}
	if !isNil(l[4]) {
		e, err := vlib.AsList(l[4])
		if err != nil || len(e) != 3 {
			return nil, fmt.Errorf("bad ROS")
		}
		d.HasROS = true
		if d.Reg, err = parseStr(e[0]); err != nil {
			return nil, err
		}
		if d.Ord, err = parseStr(e[1]); err != nil {
			return nil, err
		}
		if d.Sup, err = vlib.AsInt(e[2]); err != nil {
			return nil, err
		}
	}
	if !isNil(l[5]) {
		d.HasG2C = true
		if d.G2C, err = vlib.AsInts(l[5]); err != nil {
			return nil, err
		}
	}
	ms, err := vlib.AsList(l[6])
	if err != nil {
		return nil, err
	}
	for _, m := range ms {
		e, err := vlib.AsList(m)
		if err != nil || len(e) != 6 {
			return nil, fmt.Errorf("bad matrix")
		}
		var mm [6]Real
		for k := range mm {
			if mm[k], err = parseReal(e[k]); err != nil {
				return nil, err
			}
		}
		d.Mats = append(d.Mats, mm)
	}
	return d, nil
}

func parseGGlyph(x vlib.Sx) (*GGlyph, error) {
	if isNil(x) {
		return nil, nil
	}
	l, err := vlib.AsList(x)
	if err != nil || len(l) != 4 {
		return nil, fmt.Errorf("bad glyph")
	}
	kind, _ := vlib.AsAtom(l[0])
	g := &GGlyph{}
	box := func(x vlib.Sx) error {
		b, err := vlib.AsInts(x)
		if err != nil || len(b) != 4 {
			return fmt.Errorf("bad bbox")
		}
		copy(g.Box[:], b)
		return nil
	}
	switch kind {
	case "simple":
		g.Simple = true
		if g.NC, err = vlib.AsInt(l[1]); err != nil {
			return nil, err
		}
		if err = box(l[2]); err != nil {
			return nil, err
		}
		if g.Enc, err = vlib.AsBytes(l[3]); err != nil {
			return nil, err
		}
	case "comp":
		if err = box(l[1]); err != nil {
			return nil, err
		}
		cs, err := vlib.AsList(l[2])
		if err != nil {
			return nil, err
		}
		for _, c := range cs {
			e, err := vlib.AsList(c)
			if err != nil || len(e) != 3 {
				return nil, fmt.Errorf("bad component")
			}
			var gc GComp
			if gc.Flags, err = vlib.AsInt(e[0]); err != nil {
				return nil, err
			}
			if gc.Gid, err = vlib.AsInt(e[1]); err != nil {
				return nil, err
			}
			if gc.Data, err = vlib.AsBytes(e[2]); err != nil {
				return nil, err
			}
			g.Comps = append(g.Comps, gc)
		}
		if !isNil(l[3]) {
			g.HasIns = true
			if g.Ins, err = vlib.AsBytes(l[3]); err != nil {
				return nil, err
			}
		}
	default:
		return nil, fmt.Errorf("bad glyph kind %q", kind)
	}
	return g, nil
}

func parseGlyf(x vlib.Sx) (*GlyfDesc, error) {
	l, err := vlib.AsList(x)
	if err != nil || len(l) != 3 {
		return nil, fmt.Errorf("bad glyf outlines")
	}
	d := &GlyfDesc{}
	gs, err := vlib.AsList(l[0])
	if err != nil {
		return nil, err
	}
	for _, g := range gs {
		gg, err := parseGGlyph(g)
		if err != nil {
			return nil, err
		}
		d.Glyphs = append(d.Glyphs, gg)
	}
	if d.Widths, err = vlib.AsInts(l[1]); err != nil {
		return nil, err
	}
	if !isNil(l[2]) {
		d.HasNames = true
		ns, err := vlib.AsList(l[2])
		if err != nil {
			return nil, err
		}
		for _, n := range ns {
			s, err := parseStr(n)
			if err != nil {
				return nil, err
			}
			d.Names = append(d.Names, s)
		}
	}
	return d, nil
}

func parseFlags(x vlib.Sx) (Flags, error) {
	var f Flags
	l, err := vlib.AsList(x)
	if err != nil {
		return f, err
	}
	for _, e := range l {
		a, _ := vlib.AsAtom(e)
		switch a {
		case "reread":
			f.Reread = true
		case "alias":
			f.Alias = true
		case "twice":
			f.Twice = true
		default:
			return f, fmt.Errorf("unknown flag %q", a)
		}
	}
	return f, nil
}

// ParseCase reads a case line.
func ParseCase(line string) (*Case, error) {
	items, err := vlib.Parse(line)
	if err != nil {
		return nil, err
	}
	if len(items) == 0 {
		return nil, fmt.Errorf("empty case")
	}
	sel, _ := vlib.AsAtom(items[0])
	c := &Case{Sel: sel}
	switch sel {
	case "cff":
		if len(items) != 6 {
			return nil, fmt.Errorf("cff case: 6 items expected")
		}
		c.Which, _ = vlib.AsAtom(items[1])
		if c.Which != "pub" && c.Which != "sfnt" {
			return nil, fmt.Errorf("cff case: bad selector %q", c.Which)
		}
		if c.Cff, err = parseCff(items[2]); err != nil {
			return nil, err
		}
		if c.GL, err = vlib.AsInts(items[3]); err != nil {
			return nil, err
		}
		if c.Extras, err = vlib.AsInts(items[4]); err != nil {
			return nil, err
		}
		if c.Flags, err = parseFlags(items[5]); err != nil {
			return nil, err
		}
	case "glyf":
		if len(items) != 6 {
			return nil, fmt.Errorf("glyf case: 6 items expected")
		}
		if c.Glyf, err = parseGlyf(items[1]); err != nil {
			return nil, err
		}
		if c.Orc, err = vlib.AsInts(items[2]); err != nil {
			return nil, err
		}
		if c.GL, err = vlib.AsInts(items[3]); err != nil {
			return nil, err
		}
		if c.Extras, err = vlib.AsInts(items[4]); err != nil {
			return nil, err
		}
		if c.Flags, err = parseFlags(items[5]); err != nil {
			return nil, err
		}
	case "font":
		if len(items) != 7 {
			return nil, fmt.Errorf("font case: 7 items expected")
		}
		if c.Orc, err = vlib.AsInts(items[1]); err != nil {
			return nil, err
		}
		ol, err := vlib.AsList(items[2])
		if err != nil || len(ol) != 2 {
			return nil, fmt.Errorf("bad outlines selector")
		}
		c.Font = &FontDesc{}
		kind, _ := vlib.AsAtom(ol[0])
		switch kind {
		case "cff":
			if c.Font.Cff, err = parseCff(ol[1]); err != nil {
				return nil, err
			}
		case "glyf":
			if c.Font.Glyf, err = parseGlyf(ol[1]); err != nil {
				return nil, err
			}
		default:
			return nil, fmt.Errorf("bad outlines kind %q", kind)
		}
		if !isNil(items[3]) {
			c.Font.HasCMap = true
			es, err := vlib.AsList(items[3])
			if err != nil {
				return nil, err
			}
			for _, e := range es {
				kv, err := vlib.AsList(e)
				if err != nil || len(kv) != 2 {
					return nil, fmt.Errorf("bad cmap entry")
				}
				k, err := vlib.AsInts(kv[0])
				if err != nil || len(k) != 3 {
					return nil, fmt.Errorf("bad cmap key")
				}
				data, err := vlib.AsBytes(kv[1])
				if err != nil {
					return nil, err
				}
				c.Font.CMap = append(c.Font.CMap, CMapEnt{k[0], k[1], k[2], data})
			}
		}
		c.Font.Gdef, _ = vlib.AsBool(items[4])
		if c.GL, err = vlib.AsInts(items[5]); err != nil {
			return nil, err
		}
		if c.Flags, err = parseFlags(items[6]); err != nil {
			return nil, err
		}
	default:
		return nil, fmt.Errorf("C10B case: unknown selector %q", sel)
	}
	return c, nil
}
