package c10b

import (
	"bytes"
	"encoding/binary"
	"fmt"
	"math"
	"sort"
	"time"

	"seehuhn.de/go/geom/matrix"
	"seehuhn.de/go/postscript/cid"
	"seehuhn.de/go/postscript/funit"
	"seehuhn.de/go/postscript/type1"
	"seehuhn.de/go/sfnt"
	"seehuhn.de/go/sfnt/cff"
	"seehuhn.de/go/sfnt/cmap"
	"seehuhn.de/go/sfnt/glyf"
	"seehuhn.de/go/sfnt/glyph"
	"seehuhn.de/go/sfnt/maxp"
	"seehuhn.de/go/sfnt/opentype/gdef"
	"seehuhn.de/go/sfnt/verifharness/vlib"
)

// ---- CFF glyph programs as bytes ----

// bodyOf serialises the drawing commands of a glyph: one record per command,
// op byte followed by its arguments as big-endian int16.  Arguments that are
// not 16-bit integers and stem hints are written with escape bytes, so that
// the projection stays faithful (such bodies are never generated).
func bodyOf(g *cff.Glyph) []byte {
	var b []byte
	for _, c := range g.Cmds {
		b = append(b, byte(c.Op))
		if c.Op == cff.OpHintMask || c.Op == cff.OpCntrMask {
			b = append(b, byte(len(c.Args)))
		}
		for _, a := range c.Args {
			if a == math.Trunc(a) && a >= -32768 && a <= 32767 {
				v := int16(a)
				b = append(b, byte(uint16(v)>>8), byte(v))
			} else {
				b = append(b, 0xFD)
				b = binary.BigEndian.AppendUint64(b, math.Float64bits(a))
			}
		}
	}
	for k, st := range [][]float64{g.HStem, g.VStem} {
		if len(st) > 0 {
			b = append(b, 0xFE, byte(k), byte(len(st)))
			for _, a := range st {
				b = binary.BigEndian.AppendUint64(b, math.Float64bits(a))
			}
		}
	}
	return b
}

// cmdsOf is the inverse of bodyOf on generated bodies (moveto / lineto /
// curveto with 16-bit integer arguments).
func cmdsOf(body []byte) ([]cff.GlyphOp, error) {
	var out []cff.GlyphOp
	for len(body) > 0 {
		op := cff.GlyphOpType(body[0])
		n := 0
		switch op {
		case cff.OpMoveTo, cff.OpLineTo:
			n = 2
		case cff.OpCurveTo:
			n = 6
		default:
			return nil, fmt.Errorf("body: unsupported op %d", op)
		}
		if len(body) < 1+2*n {
			return nil, fmt.Errorf("body: truncated")
		}
		args := make([]float64, n)
		for i := range args {
			args[i] = float64(int16(uint16(body[1+2*i])<<8 | uint16(body[2+2*i])))
		}
		out = append(out, cff.GlyphOp{Op: op, Args: args})
		body = body[1+2*n:]
	}
	return out, nil
}

// ---- descriptors -> real values ----

var sentinelGlyph = &cff.Glyph{Name: "SENTINEL"}
var sentinelPriv = &type1.PrivateDict{StdHW: 4711}

func funits(xs []int) []funit.Int16 {
	if xs == nil {
		return nil
	}
	out := make([]funit.Int16, len(xs))
	for i, x := range xs {
		out[i] = funit.Int16(x)
	}
	return out
}

func toGIDs(xs []int) []glyph.ID {
	out := make([]glyph.ID, len(xs))
	for i, x := range xs {
		out[i] = glyph.ID(x)
	}
	return out
}

// BuildCff makes the outlines described by d.  With alias the slices carry
// spare capacity filled with sentinels (as slices grown by append do).
func BuildCff(d *CffDesc, alias bool) (*cff.Outlines, error) {
	spare := 0
	if alias {
		spare = 3
	}
	o := &cff.Outlines{}
	o.Glyphs = make([]*cff.Glyph, 0, len(d.Glyphs)+spare)
	for _, g := range d.Glyphs {
		cmds, err := cmdsOf(g.Body)
		if err != nil {
			return nil, err
		}
		o.Glyphs = append(o.Glyphs, &cff.Glyph{Name: g.Name, Width: float64(g.Width), Cmds: cmds})
	}
	for i := 0; i < spare; i++ {
		o.Glyphs = append(o.Glyphs, sentinelGlyph)
	}
	o.Glyphs = o.Glyphs[:len(d.Glyphs)]
	if len(d.Privs) > 0 || alias {
		o.Private = make([]*type1.PrivateDict, 0, len(d.Privs)+spare)
	}
	for _, p := range d.Privs {
		o.Private = append(o.Private, &type1.PrivateDict{
			BlueValues: funits(p.BV), OtherBlues: funits(p.OB), BlueScale: p.BlueScale.Float(),
			BlueShift: int32(p.Shift), BlueFuzz: int32(p.Fuzz), StdHW: p.HW.Float(), StdVW: p.VW.Float(),
			ForceBold: p.Bold,
		})
	}
	for i := 0; i < spare; i++ {
		o.Private = append(o.Private, sentinelPriv)
	}
	o.Private = o.Private[:len(d.Privs)]
	if !d.FDSel.Nil {
		tbl := append([]int(nil), d.FDSel.Tbl...)
		dflt := d.FDSel.Dflt
		o.FDSelect = func(gid glyph.ID) int {
			v := dflt
			if int(gid) < len(tbl) {
				v = tbl[gid]
			}
			if v == fdPanic {
				panic("verif: this FDSelect function panics here")
			}
			return v
		}
	}
	if d.HasEnc {
		o.Encoding = make([]glyph.ID, 0, len(d.Enc)+spare)
		for _, g := range d.Enc {
			o.Encoding = append(o.Encoding, glyph.ID(g))
		}
		for i := 0; i < spare; i++ {
			o.Encoding = append(o.Encoding, 0xBEEF)
		}
		o.Encoding = o.Encoding[:len(d.Enc)]
	}
	if d.HasROS {
		o.ROS = &cid.SystemInfo{Registry: d.Reg, Ordering: d.Ord, Supplement: int32(d.Sup)}
	}
	if d.HasG2C {
		o.GIDToCID = make([]cid.CID, 0, len(d.G2C)+spare)
		for _, c := range d.G2C {
			o.GIDToCID = append(o.GIDToCID, cid.CID(c))
		}
		for i := 0; i < spare; i++ {
			o.GIDToCID = append(o.GIDToCID, 0xBEEF)
		}
		o.GIDToCID = o.GIDToCID[:len(d.G2C)]
	}
	if len(d.Mats) > 0 {
		o.FontMatrices = make([]matrix.Matrix, 0, len(d.Mats)+spare)
		for _, m := range d.Mats {
			var mm matrix.Matrix
			for k := range m {
				mm[k] = m[k].Float()
			}
			o.FontMatrices = append(o.FontMatrices, mm)
		}
		for i := 0; i < spare; i++ {
			o.FontMatrices = append(o.FontMatrices, matrix.Matrix{47, 11, 47, 11, 47, 11})
		}
		o.FontMatrices = o.FontMatrices[:len(d.Mats)]
	}
	return o, nil
}

// sampleFD calls an FDSelect function, turning a panic into fdPanic.
func sampleFD(f cff.FDSelectFn, gid int) (v int) {
	defer func() {
		if recover() != nil {
			v = fdPanic
		}
	}()
	return f(glyph.ID(gid))
}

func projectPriv(p *type1.PrivateDict) PrivD {
	ints := func(xs []funit.Int16) []int {
		out := make([]int, len(xs))
		for i, x := range xs {
			out[i] = int(x)
		}
		return out
	}
	return PrivD{BV: ints(p.BlueValues), OB: ints(p.OtherBlues), BlueScale: RealOf(p.BlueScale),
		Shift: int(p.BlueShift), Fuzz: int(p.BlueFuzz), HW: RealOf(p.StdHW), VW: RealOf(p.StdVW), Bold: p.ForceBold}
}

// ProjectCff reads the outlines back into a descriptor (the FDSelect
// function sampled on the glyphs, and once beyond them for Dflt).
func ProjectCff(o *cff.Outlines) *CffDesc {
	d := &CffDesc{}
	for _, g := range o.Glyphs {
		w := int(g.Width)
		if float64(w) != g.Width {
			w = -999999 // never generated; makes the mismatch visible
		}
		d.Glyphs = append(d.Glyphs, CGlyph{Name: g.Name, Width: w, Body: bodyOf(g)})
	}
	for _, p := range o.Private {
		d.Privs = append(d.Privs, projectPriv(p))
	}
	if o.FDSelect == nil {
		d.FDSel.Nil = true
	} else {
		for i := range o.Glyphs {
			d.FDSel.Tbl = append(d.FDSel.Tbl, sampleFD(o.FDSelect, i))
		}
		d.FDSel.Dflt = sampleFD(o.FDSelect, len(o.Glyphs))
	}
	if o.Encoding != nil {
		d.HasEnc = true
		d.Enc = make([]int, len(o.Encoding))
		for i, g := range o.Encoding {
			d.Enc[i] = int(g)
		}
	}
	if o.ROS != nil {
		d.HasROS = true
		d.Reg, d.Ord, d.Sup = o.ROS.Registry, o.ROS.Ordering, int(o.ROS.Supplement)
	}
	if o.GIDToCID != nil {
		d.HasG2C = true
		d.G2C = make([]int, len(o.GIDToCID))
		for i, c := range o.GIDToCID {
			d.G2C[i] = int(c)
		}
	}
	for _, m := range o.FontMatrices {
		var mm [6]Real
		for k := range m {
			mm[k] = RealOf(m[k])
		}
		d.Mats = append(d.Mats, mm)
	}
	return d
}

// obsCff prints the outlines the way the model driver prints its result: the
// descriptor syntax with the FDSelect function sampled at 0 .. len(Glyphs).
func obsCff(o *cff.Outlines) vlib.Sx {
	d := ProjectCff(o)
	l := d.sx().(vlib.List)
	if o.FDSelect != nil {
		s := make(vlib.List, 0, len(o.Glyphs)+1)
		for i := 0; i <= len(o.Glyphs); i++ {
			s = append(s, fdv(sampleFD(o.FDSelect, i)))
		}
		l[2] = s
	}
	return l
}

// ---- glyf ----

var glyfTables = map[string][]byte{"cvt ": {0, 1, 0, 2}, "prep": {0xB0, 0x01}}

// BuildGlyf makes the outlines described by d.  With alias all byte strings
// (simple glyph data, component arguments, instructions) are sub-slices of ONE
// array, each with the rest of the array as spare capacity (the way
// glyf.Decode hands out sub-slices of the table), and Widths / Names / Glyphs
// have spare capacity filled with sentinels.
func BuildGlyf(d *GlyfDesc, alias bool) *glyf.Outlines {
	o := &glyf.Outlines{Maxp: &maxp.TTFInfo{MaxComponentDepth: 8, MaxComponentElements: 16}}
	o.Tables = map[string][]byte{}
	for k, v := range glyfTables {
		o.Tables[k] = append([]byte(nil), v...)
	}
	// first pass: the byte strings in the order they are handed out below
	var backing []byte
	if alias {
		for _, g := range d.Glyphs {
			if g == nil {
				continue
			}
			if g.Simple {
				backing = append(append(backing, g.Enc...), 0xEE)
				continue
			}
			for _, c := range g.Comps {
				backing = append(append(backing, c.Data...), 0xEE)
			}
			if g.HasIns {
				backing = append(append(backing, g.Ins...), 0xEE)
			}
		}
	}
	pos := 0
	take := func(b []byte) []byte {
		if !alias {
			return append([]byte{}, b...)
		}
		s := backing[pos : pos+len(b)] // capacity runs to the end of the array
		pos += len(b) + 1
		return s
	}
	spare := 0
	if alias {
		spare = 3
	}
	o.Glyphs = make(glyf.Glyphs, 0, len(d.Glyphs)+spare)
	for _, g := range d.Glyphs {
		if g == nil {
			o.Glyphs = append(o.Glyphs, nil)
			continue
		}
		gg := &glyf.Glyph{Rect16: funit.Rect16{LLx: funit.Int16(g.Box[0]), LLy: funit.Int16(g.Box[1]), URx: funit.Int16(g.Box[2]), URy: funit.Int16(g.Box[3])}}
		if g.Simple {
			gg.Data = glyf.SimpleGlyph{NumContours: int16(g.NC), Encoded: take(g.Enc)}
		} else {
			cg := glyf.CompositeGlyph{Components: make([]glyf.GlyphComponent, 0, len(g.Comps)+spare)}
			for _, c := range g.Comps {
				cg.Components = append(cg.Components, glyf.GlyphComponent{Flags: glyf.ComponentFlag(c.Flags), GlyphIndex: glyph.ID(c.Gid), Data: take(c.Data)})
			}
			for i := 0; i < spare; i++ {
				cg.Components = append(cg.Components, glyf.GlyphComponent{Flags: 0xEEEE, GlyphIndex: 0xEEEE})
			}
			cg.Components = cg.Components[:len(g.Comps)]
			if g.HasIns {
				cg.Instructions = take(g.Ins)
			}
			gg.Data = cg
		}
		o.Glyphs = append(o.Glyphs, gg)
	}
	for i := 0; i < spare; i++ {
		o.Glyphs = append(o.Glyphs, &glyf.Glyph{Rect16: funit.Rect16{LLx: 0x0EEE}})
	}
	o.Glyphs = o.Glyphs[:len(d.Glyphs)]
	o.Widths = make([]funit.Int16, 0, len(d.Widths)+spare)
	for _, w := range d.Widths {
		o.Widths = append(o.Widths, funit.Int16(w))
	}
	for i := 0; i < spare; i++ {
		o.Widths = append(o.Widths, 0x0EEE)
	}
	o.Widths = o.Widths[:len(d.Widths)]
	if d.HasNames {
		o.Names = make([]string, 0, len(d.Names)+spare)
		o.Names = append(o.Names, d.Names...)
		for i := 0; i < spare; i++ {
			o.Names = append(o.Names, "SENTINEL")
		}
		o.Names = o.Names[:len(d.Names)]
	}
	return o
}

func projectGGlyph(g *glyf.Glyph) *GGlyph {
	if g == nil {
		return nil
	}
	out := &GGlyph{Box: [4]int{int(g.LLx), int(g.LLy), int(g.URx), int(g.URy)}}
	switch d := g.Data.(type) {
	case glyf.SimpleGlyph:
		out.Simple = true
		out.NC = int(d.NumContours)
		out.Enc = d.Encoded
	case glyf.CompositeGlyph:
		for _, c := range d.Components {
			out.Comps = append(out.Comps, GComp{int(c.Flags), int(c.GlyphIndex), c.Data})
		}
		out.HasIns = d.Instructions != nil
		out.Ins = d.Instructions
	default:
		panic("unexpected glyph data")
	}
	return out
}

func ProjectGlyf(o *glyf.Outlines) *GlyfDesc {
	d := &GlyfDesc{}
	for _, g := range o.Glyphs {
		d.Glyphs = append(d.Glyphs, projectGGlyph(g))
	}
	for _, w := range o.Widths {
		d.Widths = append(d.Widths, int(w))
	}
	if o.Names != nil {
		d.HasNames = true
		d.Names = append([]string{}, o.Names...)
	}
	return d
}

// obsGlyf is the canonical observation of SubsetGlyf's result (Observe.v):
// every glyph with its ORIGINAL id and its component references pulled back
// to original ids through sel; the first n0 in order, the others sorted by
// original id.
func obsGlyf(n0 int, sel []glyph.ID, o *glyf.Outlines) vlib.Sx {
	pull := func(j int) int {
		if j < len(sel) {
			return int(sel[j])
		}
		return 100000 + j
	}
	type rec struct {
		old int
		sx  vlib.Sx
	}
	var all []rec
	for j, g := range o.Glyphs {
		pg := projectGGlyph(g)
		if pg != nil {
			for k := range pg.Comps {
				pg.Comps[k].Gid = pull(pg.Comps[k].Gid)
			}
		}
		w := 0
		if j < len(o.Widths) {
			w = int(o.Widths[j])
		}
		var name vlib.Sx = vlib.Atom("nil")
		if o.Names != nil {
			s := ""
			if j < len(o.Names) {
				s = o.Names[j]
			}
			name = hexs(s)
		}
		all = append(all, rec{pull(j), vlib.L(vlib.Int(pull(j)), pg.sx(), vlib.Int(w), name)})
	}
	k := n0
	if k > len(all) {
		k = len(all)
	}
	listed, extras := all[:k], append([]rec(nil), all[k:]...)
	sort.SliceStable(extras, func(a, b int) bool { return extras[a].old < extras[b].old })
	la, le := make(vlib.List, 0, len(listed)), make(vlib.List, 0, len(extras))
	for _, r := range listed {
		la = append(la, r.sx)
	}
	for _, r := range extras {
		le = append(le, r.sx)
	}
	var nn vlib.Sx = vlib.Atom("nil")
	if o.Names != nil {
		nn = vlib.Int(len(o.Names))
	}
	return vlib.L(la, le, vlib.Int(len(o.Widths)), nn)
}

// ---- fonts ----

var fixedTime = time.Date(2020, 1, 2, 3, 4, 5, 0, time.UTC)

func BuildFont(d *FontDesc, alias bool) (*sfnt.Font, error) {
	f := &sfnt.Font{
		FamilyName:       "Verif",
		UnitsPerEm:       1000,
		FontMatrix:       matrix.Matrix{0.001, 0, 0, 0.001, 0, 0},
		Ascent:           800,
		Descent:          -200,
		CreationTime:     fixedTime,
		ModificationTime: fixedTime,
		IsRegular:        true,
	}
	if d.Cff != nil {
		o, err := BuildCff(d.Cff, alias)
		if err != nil {
			return nil, err
		}
		f.Outlines = o
	} else {
		f.Outlines = BuildGlyf(d.Glyf, alias)
	}
	if d.HasCMap {
		f.CMapTable = cmap.Table{}
		for _, e := range d.CMap {
			f.CMapTable[cmap.Key{PlatformID: uint16(e.P), EncodingID: uint16(e.E), Language: uint16(e.L)}] = append(make([]byte, 0, len(e.Data)+2), e.Data...)
		}
	}
	if d.Gdef {
		f.Gdef = &gdef.Table{}
	}
	return f, nil
}

func ProjectFont(f *sfnt.Font) *FontDesc {
	d := &FontDesc{}
	switch o := f.Outlines.(type) {
	case *cff.Outlines:
		d.Cff = ProjectCff(o)
	case *glyf.Outlines:
		d.Glyf = ProjectGlyf(o)
	}
	if f.CMapTable != nil {
		d.HasCMap = true
		for k, data := range f.CMapTable {
			d.CMap = append(d.CMap, CMapEnt{int(k.PlatformID), int(k.EncodingID), int(k.Language), data})
		}
		sort.Slice(d.CMap, func(i, j int) bool {
			a, b := d.CMap[i], d.CMap[j]
			if a.P != b.P {
				return a.P < b.P
			}
			if a.E != b.E {
				return a.E < b.E
			}
			return a.L < b.L
		})
	}
	d.Gdef = f.Gdef != nil
	return d
}

// rawDecode decodes a subtable the way Font.Subset does (no Mac Roman
// translation): 4 / 12 and the map, or 0 when it cannot be decoded.
func rawDecode(data []byte) (format int, m map[uint32]glyph.ID) {
	defer func() {
		if recover() != nil {
			format, m = 0, nil
		}
	}()
	rawKey := cmap.Key{PlatformID: 3, EncodingID: 1}
	st, err := cmap.Table{rawKey: data}.Get(rawKey)
	if err != nil {
		return 0, nil
	}
	m = map[uint32]glyph.ID{}
	switch t := st.(type) {
	case cmap.Format4:
		for k, v := range t {
			m[uint32(k)] = v
		}
		return 4, m
	case cmap.Format12:
		for k, v := range t {
			m[k] = v
		}
		return 12, m
	}
	return 0, nil
}

// obsCMap prints the subset's cmap table the way the model driver does.
func obsCMap(t cmap.Table) vlib.Sx {
	if t == nil {
		return vlib.Atom("nil")
	}
	type ent struct {
		k cmap.Key
		d []byte
	}
	var es []ent
	for k, d := range t {
		es = append(es, ent{k, d})
	}
	sort.Slice(es, func(i, j int) bool {
		a, b := es[i].k, es[j].k
		if a.PlatformID != b.PlatformID {
			return a.PlatformID < b.PlatformID
		}
		if a.EncodingID != b.EncodingID {
			return a.EncodingID < b.EncodingID
		}
		return a.Language < b.Language
	})
	out := make(vlib.List, 0, len(es))
	for _, e := range es {
		format, m := rawDecode(e.d)
		key := vlib.L(vlib.Int(int(e.k.PlatformID)), vlib.Int(int(e.k.EncodingID)), vlib.Int(int(e.k.Language)))
		if format == 0 {
			out = append(out, vlib.L(key, vlib.Atom("undecodable"), vlib.Hex(e.d)))
			continue
		}
		var codes []uint32
		for c, g := range m {
			if g != 0 {
				codes = append(codes, c)
			}
		}
		sort.Slice(codes, func(i, j int) bool { return codes[i] < codes[j] })
		ml := make(vlib.List, len(codes))
		for i, c := range codes {
			ml[i] = vlib.L(vlib.U64(uint64(c)), vlib.Int(int(m[c])))
		}
		var raw vlib.Sx = vlib.Atom("nil")
		if format == 12 {
			raw = vlib.Hex(e.d)
		}
		out = append(out, vlib.L(key, vlib.Int(format), ml, raw))
	}
	return out
}

// writeAndRead returns the font as sfnt.Read returns it after sfnt.Write.
func writeAndRead(f *sfnt.Font) (back *sfnt.Font, err error) {
	defer func() {
		if e := recover(); e != nil {
			back, err = nil, fmt.Errorf("panic: %v", e)
		}
	}()
	var buf bytes.Buffer
	if _, err := f.Write(&buf); err != nil {
		return nil, err
	}
	return sfnt.Read(bytes.NewReader(buf.Bytes()))
}
