package c10b

import (
	"fmt"
	"sort"

	"seehuhn.de/go/sfnt/cmap"
	"seehuhn.de/go/sfnt/glyf"
	"seehuhn.de/go/sfnt/glyph"
	"seehuhn.de/go/sfnt/verifharness/vlib"
)

// ---- TrueType glyph sets ----

// simpleEnc: a tight simple-glyph description (3 or 4 points) that carries
// the numbers a, b; three shapes: plain flags, instructions, a repeated flag.
func simpleEnc(shape, a, b int) (nc int, enc []byte) {
	x, y := byte(a), byte(b)
	switch shape % 3 {
	case 0:
		return 1, []byte{0, 2, 0, 0, 0x37, 0x37, 0x37, x, y, 1, 10, 5, 7}
	case 1:
		return 1, []byte{0, 2, 0, 2, 0xB0, x, 0x37, 0x37, 0x37, x, y, 1, 10, 5, 7}
	default:
		return 2, []byte{0, 1, 0, 3, 0, 0, 0x3F, 3, x, y, 1, 2, 10, 5, 7, 9} // one flag byte repeated 3 more times
	}
}

// compRecord: flags and argument bytes of component i (of n) of a composite;
// every kind of record the format has, chosen by h.
func compRecord(r *vlib.Rand, i, n int, hasIns bool) (int, []byte) {
	var fl glyf.ComponentFlag
	var data []byte
	switch r.Intn(4) {
	case 0:
		fl = glyf.FlagArgsAreXYValues | glyf.FlagArg1And2AreWords
		data = []byte{byte(r.Intn(256)), byte(r.Intn(256)), 0xFF, byte(i)}
	case 1:
		data = []byte{byte(i), byte(i + 1)} // point numbers
	case 2:
		fl = glyf.FlagArg1And2AreWords
		data = []byte{0, byte(i), 0, byte(i + 1)}
	default:
		fl = glyf.FlagArgsAreXYValues
		data = []byte{byte(r.Intn(256)), byte(3 * i)}
	}
	switch r.Intn(6) {
	case 1:
		fl |= glyf.FlagWeHaveAScale
		data = append(data, 0x20, byte(r.Intn(256)))
	case 2:
		fl |= glyf.FlagWeHaveAnXAndYScale
		data = append(data, 0x40, byte(i), 0x30, byte(r.Intn(256)))
	case 3:
		fl |= glyf.FlagWeHaveATwoByTwo
		data = append(data, 0x40, 0, 0x10, byte(i), 0xF0, byte(r.Intn(256)), 0x40, 0)
	}
	for _, f := range []glyf.ComponentFlag{glyf.FlagRoundXYToGrid, glyf.FlagUseMyMetrics, glyf.FlagOverlapCompound,
		glyf.FlagScaledComponentOffset, glyf.FlagUnscaledComponentOffset} {
		if r.Chance(1, 5) {
			fl |= f
		}
	}
	if r.Chance(1, 12) {
		fl |= 0x8010 // reserved bits: carried over as they are
	}
	if i+1 < n {
		fl |= glyf.FlagMoreComponents
	} else if hasIns {
		fl |= glyf.FlagWeHaveInstructions
	}
	return int(fl), data
}

type glyfOpts struct {
	n        int
	depth    int  // maximal nesting of composites
	blanks   bool // blank (nil) glyphs, also as components
	cycles   bool // composites may refer to themselves or to later glyphs
	names    bool
	blank0   bool // glyph 0 is blank
	compFrac int  // composites per 10 glyphs
}

// genGlyf: glyph 0, then simple and blank glyphs, then composites in layers:
// a composite of layer L has at least one component of layer L-1 (so that the
// nesting depth is reached) and further components of any lower layer;
// components are shared between composites.
func genGlyf(r *vlib.Rand, o glyfOpts) *GlyfDesc {
	d := &GlyfDesc{HasNames: o.names}
	level := make([]int, o.n)
	var byLevel [8][]int
	nComp := o.n * o.compFrac / 10
	nBase := o.n - nComp
	if nBase < 2 {
		nBase = 2
		if nBase > o.n {
			nBase = o.n
		}
	}
	for i := 0; i < o.n; i++ {
		var g *GGlyph
		switch {
		case i == 0 && o.blank0:
			g = nil
		case i < nBase:
			if o.blanks && i > 0 && r.Chance(1, 4) {
				g = nil
			} else {
				nc, enc := simpleEnc(r.Intn(3), i, i*7+3)
				g = &GGlyph{Box: [4]int{i, -5, i + 20, 30}, Simple: true, NC: nc, Enc: enc}
			}
			byLevel[0] = append(byLevel[0], i)
		default:
			L := 1 + r.Intn(o.depth)
			for L > 1 && len(byLevel[L-1]) == 0 {
				L--
			}
			level[i] = L
			k := 1 + r.Intn(4)
			if r.Chance(1, 10) {
				k = 5 + r.Intn(6)
			}
			g = &GGlyph{Box: [4]int{0, 0, 100 + i, 50}}
			if r.Chance(1, 3) {
				g.HasIns = true
				g.Ins = r.Bytes(r.Intn(4)) // the empty program is not the same as none
			}
			for j := 0; j < k; j++ {
				var c int
				switch {
				case j == 0:
					c = vlib.Pick(r, byLevel[L-1])
				case o.cycles && r.Chance(1, 8):
					c = r.Intn(o.n) // anything: itself, later glyphs
				default:
					lv := r.Intn(L)
					for len(byLevel[lv]) == 0 {
						lv--
					}
					c = vlib.Pick(r, byLevel[lv])
				}
				fl, data := compRecord(r, j, k, g.HasIns)
				g.Comps = append(g.Comps, GComp{fl, c, data})
			}
			byLevel[L] = append(byLevel[L], i)
		}
		d.Glyphs = append(d.Glyphs, g)
		d.Widths = append(d.Widths, 100+13*i%900)
		if o.names {
			if i == 0 {
				d.Names = append(d.Names, ".notdef")
			} else {
				d.Names = append(d.Names, fmt.Sprintf("g%d", i))
			}
		}
	}
	return d
}

// ---- CFF outlines ----

func cffBody(r *vlib.Rand, i int) []byte {
	if r.Chance(1, 6) {
		return nil // blank glyph (empty charstring)
	}
	i16 := func(v int) []byte { return []byte{byte(uint16(int16(v)) >> 8), byte(int16(v))} }
	var b []byte
	b = append(b, 1)
	b = append(b, i16(i)...)
	b = append(b, i16(-i)...)
	for k := r.Intn(3); k >= 0; k-- {
		b = append(b, 2)
		b = append(b, i16(i+10*k)...)
		b = append(b, i16(5+k)...)
	}
	if r.Chance(1, 3) {
		b = append(b, 3)
		for k := 0; k < 6; k++ {
			b = append(b, i16(i*3+k*11)...)
		}
	}
	return b
}

func genPriv(r *vlib.Rand, k int) PrivD {
	p := PrivD{BlueScale: mkReal(39625, -6), Shift: 7, Fuzz: 1, HW: mkReal(int64(10+k), 0), VW: mkReal(int64(1000+7*k), -1)}
	if r.Chance(1, 2) {
		p.BV = []int{-10 - k%5, 0, 500, 510 + k}
	}
	if r.Chance(1, 4) {
		p.OB = []int{-200, -190 + k%7}
	}
	if r.Chance(1, 4) {
		p.BlueScale = mkReal(int64(3+k%5), -2)
	}
	if r.Chance(1, 5) {
		p.Shift, p.Fuzz = k%9, k%3
	}
	p.Bold = r.Chance(1, 4)
	return p
}

type cffOpts struct {
	n     int
	cid   bool
	nfd   int
	shape string // FDSelect shape: const | cyclic | runs | random | distinct | sparse
	enc   string // simple fonts: "" | single | multi | full
}

func genCff(r *vlib.Rand, o cffOpts) *CffDesc {
	d := &CffDesc{}
	for i := 0; i < o.n; i++ {
		name := fmt.Sprintf("n%d", i)
		if i == 0 {
			name = ".notdef"
		}
		d.Glyphs = append(d.Glyphs, CGlyph{Name: name, Width: 200 + (37*i)%700, Body: cffBody(r, i)})
	}
	for k := 0; k < o.nfd; k++ {
		d.Privs = append(d.Privs, genPriv(r, k))
	}
	tbl := make([]int, o.n)
	switch o.shape {
	case "cyclic":
		for i := range tbl {
			tbl[i] = i % o.nfd
		}
	case "runs":
		run := 1 + r.Intn(4)
		for i := range tbl {
			tbl[i] = (i / run) % o.nfd
		}
	case "random":
		for i := range tbl {
			tbl[i] = r.Intn(o.nfd)
		}
	case "distinct": // glyph i in dictionary i (as far as there are dictionaries), in reverse
		for i := range tbl {
			tbl[i] = (o.nfd - 1 - i%o.nfd)
		}
	case "sparse": // only two dictionaries are used at all
		a, b := r.Intn(o.nfd), r.Intn(o.nfd)
		for i := range tbl {
			tbl[i] = a
			if r.Chance(1, 3) {
				tbl[i] = b
			}
		}
	default: // const
		c := r.Intn(o.nfd)
		for i := range tbl {
			tbl[i] = c
		}
	}
	d.FDSel = FDSel{Tbl: tbl, Dflt: fdPanic}
	if r.Chance(1, 3) {
		d.FDSel.Dflt = 0
	}
	if o.cid {
		d.HasROS, d.Reg, d.Ord, d.Sup = true, "Verif", "C10B", r.Intn(3)
		d.HasG2C = true
		c := 0
		for i := 0; i < o.n; i++ {
			d.G2C = append(d.G2C, c)
			c += 1 + r.Intn(3)
		}
		for k := 0; k < o.nfd; k++ {
			d.Mats = append(d.Mats, [6]Real{mkReal(1, 0), {}, {}, mkReal(int64(1+k%3), 0), mkReal(int64(k), 0), mkReal(int64(-k), -1)})
		}
	} else if o.enc != "" {
		d.HasEnc = true
		d.Enc = make([]int, 256)
		switch o.enc {
		case "single":
			for g := 1; g < o.n && g < 200; g++ {
				d.Enc[32+g] = g
			}
		case "multi": // several codes per glyph, unused codes in between
			for c := 1; c < 256; c++ {
				if r.Chance(2, 3) {
					d.Enc[c] = 1 + r.Intn(o.n-1)
				}
			}
		case "full":
			for c := 0; c < 256; c++ {
				d.Enc[c] = r.Intn(o.n)
			}
		}
	}
	return d
}

// ---- glyph lists ----

func listFull(n int) []int {
	l := make([]int, n)
	for i := range l {
		l[i] = i
	}
	return l
}

func listReversed(n int) []int { // 0, then n-1 .. 1
	l := []int{0}
	for i := n - 1; i >= 1; i-- {
		l = append(l, i)
	}
	return l
}

func listRandom(r *vlib.Rand, n, k int) []int { // 0, then k-1 others in random order
	rest := listFull(n)[1:]
	for i := len(rest) - 1; i > 0; i-- {
		j := r.Intn(i + 1)
		rest[i], rest[j] = rest[j], rest[i]
	}
	if k-1 < len(rest) {
		rest = rest[:k-1]
	}
	return append([]int{0}, rest...)
}

func listSparse(r *vlib.Rand, n int) []int { // 0 and every third or so glyph, increasing
	l := []int{0}
	for i := 1 + r.Intn(3); i < n; i += 1 + r.Intn(4) {
		l = append(l, i)
	}
	return l
}

// lists yields labelled well-formed lists for a font of n glyphs.
func lists(r *vlib.Rand, n int) (out [][]int, labels []string) {
	add := func(l []int, lb string) { out, labels = append(out, l), append(labels, "list:"+lb) }
	add(listFull(n), "full")
	if n > 1 {
		add(listReversed(n), "reversed")
		add(listSparse(r, n), "sparse")
		add(listRandom(r, n, 1+r.Intn(n)), "random")
	}
	add([]int{0}, "only-notdef")
	return
}

// badList: a list outside the domain.
func badList(r *vlib.Rand, n int) ([]int, string) {
	switch r.Intn(5) {
	case 0:
		l := listRandom(r, n, 1+r.Intn(n))
		return append(l, l[r.Intn(len(l))]), "list:duplicate"
	case 1:
		l := listRandom(r, n, 1+r.Intn(n))
		l[r.Intn(len(l))] = n + r.Intn(3)
		return l, "list:out-of-range"
	case 2:
		return []int{}, "list:empty"
	case 3:
		l := listRandom(r, n, 1+r.Intn(n))
		return append([]int{65535}, l...), "list:out-of-range"
	default:
		return []int{n}, "list:out-of-range"
	}
}

// notZeroFirst: duplicate-free, in range, but glyph 0 is not first.
func notZeroFirst(r *vlib.Rand, n int) []int {
	l := listRandom(r, n, 2+r.Intn(n))
	if len(l) < 2 {
		return []int{n - 1}
	}
	if r.Bool() {
		l[0], l[len(l)-1] = l[len(l)-1], l[0]
		return l
	}
	return l[1:]
}

// ---- cmap tables ----

func cmapFormat6(first int, gids []int, lang int) []byte {
	b := []byte{0, 6, 0, 0, byte(lang >> 8), byte(lang), byte(first >> 8), byte(first), byte(len(gids) >> 8), byte(len(gids))}
	for _, g := range gids {
		b = append(b, byte(g>>8), byte(g))
	}
	l := len(b)
	b[2], b[3] = byte(l>>8), byte(l)
	return b
}

// genCMap: a table with subtables of formats 4, 6 and 12 (and, when odd is
// set, subtables Subset cannot decode, which it must leave out).
func genCMap(r *vlib.Rand, n int, odd bool) []CMapEnt {
	m4 := cmap.Format4{}
	m12 := cmap.Format12{}
	k := 1 + r.Intn(3*n+2)
	for i := 0; i < k; i++ {
		g := glyph.ID(r.Intn(n))
		var c uint16
		switch r.Intn(4) {
		case 0:
			c = uint16(0x41 + r.Intn(60))
		case 1:
			c = uint16(r.Intn(0x10000))
		case 2:
			c = uint16(0xFFF0 + r.Intn(16))
		default:
			c = uint16(0x400 + i) // a run
		}
		m4[c] = g
		m12[uint32(c)] = g
		if r.Chance(1, 3) {
			m12[0x10000+uint32(r.Intn(0x1000))] = g
		}
	}
	if r.Chance(1, 4) { // a run of consecutive codes and glyphs
		for i := 0; i < n; i++ {
			m4[uint16(0x2000+i)] = glyph.ID(i)
			m12[uint32(0x20000+i)] = glyph.ID(i)
		}
	}
	var es []CMapEnt
	if r.Chance(4, 5) {
		es = append(es, CMapEnt{3, 1, 0, m4.Encode(0)})
	}
	if r.Chance(1, 2) {
		es = append(es, CMapEnt{3, 10, 0, m12.Encode(0)})
	}
	if r.Chance(1, 3) {
		es = append(es, CMapEnt{0, 3, 0, m4.Encode(0)})
	}
	if r.Chance(1, 4) {
		gids := make([]int, 1+r.Intn(20))
		for i := range gids {
			gids[i] = r.Intn(n)
		}
		lang := r.Intn(3)
		es = append(es, CMapEnt{1, 0, lang, cmapFormat6(0x20+r.Intn(100), gids, lang)})
	}
	if r.Chance(1, 6) {
		lang := 1 + r.Intn(5)
		es = append(es, CMapEnt{1, 0, 10 + lang, m4.Encode(uint16(10 + lang))})
	}
	if odd {
		switch r.Intn(3) {
		case 0: // format 14: not implemented
			es = append(es, CMapEnt{0, 5, 0, []byte{0, 14, 0, 0, 0, 10, 0, 0, 0, 0}})
		case 1: // format 2: not implemented
			b := make([]byte, 20)
			b[1], b[3] = 2, 20
			es = append(es, CMapEnt{3, 2, 0, b})
		default: // a damaged format 4 subtable: the decoder reports an error
			b := m4.Encode(0)
			es = append(es, CMapEnt{0, 4, 0, b[:len(b)-1]})
		}
	}
	if len(es) == 0 {
		es = append(es, CMapEnt{3, 1, 0, m4.Encode(0)})
	}
	sortCMap(es)
	return es
}

func sortCMap(es []CMapEnt) {
	sort.Slice(es, func(i, j int) bool {
		a, b := es[i], es[j]
		if a.P != b.P {
			return a.P < b.P
		}
		if a.E != b.E {
			return a.E < b.E
		}
		return a.L < b.L
	})
}

// ---- the run ----

// viaReader returns the descriptor of the font sfnt.Read makes of the written
// font (ok = false when it cannot be written and read, or when the result is
// not stable under another round trip).
func viaReader(d *FontDesc) (*FontDesc, bool) {
	f, err := BuildFont(d, false)
	if err != nil {
		return nil, false
	}
	back, err := writeAndRead(f)
	if err != nil {
		return nil, false
	}
	var e *FontDesc
	func() {
		defer func() { recover() }()
		e = ProjectFont(back)
	}()
	if e == nil {
		return nil, false
	}
	f2, err := BuildFont(e, false)
	if err != nil {
		return nil, false
	}
	back2, err := writeAndRead(f2)
	if err != nil {
		return nil, false
	}
	e2 := ProjectFont(back2)
	if vlib.Str(e2.outlSx()) != vlib.Str(e.outlSx()) || vlib.Str(e2.cmapSx()) != vlib.Str(e.cmapSx()) {
		return nil, false
	}
	return e, true
}

func orcOf(r *vlib.Rand, k int) []int {
	o := make([]int, k)
	for i := range o {
		o[i] = r.Intn(50)
	}
	return o
}

// Gen generates the cases of one run.
func Gen(run *vlib.Run, seed uint64, tier string) {
	run.Rule = "non-trivial: a CFF subset that keeps more than one private dictionary, drops some, or reduces several to one, or transfers a built-in encoding; a TrueType subset whose closure appends components; a font subset with a cmap table"
	root := vlib.NewRand(seed)
	reps := vlib.Count(tier, 2, 24)

	// ---- stream 1: cff.Outlines.Subset and SubsetCFF on CID-keyed outlines ----
	{
		r := root.Fork("cid")
		shapes := []string{"const", "cyclic", "runs", "random", "distinct", "sparse"}
		fds := []int{1, 2, 3, 5, 8, 17, 64, 255, 256}
		for rep := 0; rep < reps; rep++ {
			for _, nfd := range fds {
				for _, sh := range shapes {
					if nfd >= 64 && sh != "distinct" && sh != "random" && !(tier == "thorough") {
						continue
					}
					n := 4 + r.Intn(12)
					if sh == "distinct" && r.Chance(1, 2) {
						n = nfd + r.Intn(4) // every dictionary used
						if n < 2 {
							n = 2
						}
					}
					d := genCff(r, cffOpts{n: n, cid: true, nfd: nfd, shape: sh})
					ls, lbs := lists(r, n)
					for i, l := range ls {
						which := []string{"pub", "sfnt"}[(i+rep)%2]
						c := &Case{Sel: "cff", Which: which, Cff: d, GL: l, Flags: Flags{Alias: r.Bool()}}
						if which == "sfnt" && r.Chance(1, 2) {
							// SubsetGsub registered further glyphs
							for k := r.Intn(3); k >= 0; k-- {
								c.Extras = append(c.Extras, r.Intn(n))
							}
						}
						one(run, c, "stream:cid", lbs[i], "fdselect:"+sh, fmt.Sprintf("fds:%d", nfd))
					}
					nz := notZeroFirst(r, n)
					one(run, &Case{Sel: "cff", Which: "pub", Cff: d, GL: nz}, "stream:cid", "list:not-zero-first", "fdselect:"+sh, fmt.Sprintf("fds:%d", nfd))
				}
			}
		}
	}

	// ---- stream 2: simple CFF outlines with built-in encodings ----
	{
		r := root.Fork("simple")
		for rep := 0; rep < 6*reps; rep++ {
			for _, enc := range []string{"", "single", "multi", "full"} {
				n := 2 + r.Intn(14)
				d := genCff(r, cffOpts{n: n, nfd: 1, shape: "const", enc: enc})
				ls, lbs := lists(r, n)
				for i, l := range ls {
					which := []string{"pub", "sfnt"}[(i+rep)%2]
					one(run, &Case{Sel: "cff", Which: which, Cff: d, GL: l, Flags: Flags{Alias: r.Bool()}}, "stream:simple", lbs[i], "encoding:"+enc)
				}
				one(run, &Case{Sel: "cff", Which: "pub", Cff: d, GL: notZeroFirst(r, n)}, "stream:simple", "list:not-zero-first", "encoding:"+enc)
			}
		}
	}

	// ---- stream 3: CFF outlines and lists outside the domain ----
	{
		r := root.Fork("cff-malformed")
		for rep := 0; rep < 40*reps; rep++ {
			n := 3 + r.Intn(8)
			cidk := r.Bool()
			nfd := 1
			if cidk {
				nfd = 1 + r.Intn(4)
			}
			d := genCff(r, cffOpts{n: n, cid: cidk, nfd: nfd, shape: "random", enc: vlib.Pick(r, []string{"", "multi"})})
			l := listRandom(r, n, 1+r.Intn(n))
			lb := "list:random"
			what := ""
			switch r.Intn(9) {
			case 0:
				d.FDSel = FDSel{Nil: true}
				what = "fdselect-nil"
			case 1:
				d.FDSel.Tbl[l[r.Intn(len(l))]] = nfd + r.Intn(2)
				what = "fdselect-out-of-range"
			case 2:
				d.FDSel.Tbl[l[r.Intn(len(l))]] = -1 - r.Intn(2)
				what = "fdselect-negative"
			case 3:
				d.FDSel.Tbl[l[r.Intn(len(l))]] = fdPanic
				what = "fdselect-panics"
			case 4:
				if cidk {
					d.Mats = d.Mats[:len(d.Mats)-1]
					what = "matrices-short"
				} else {
					d.Privs = nil
					what = "no-private-dict"
				}
			case 5:
				if cidk {
					d.G2C = d.G2C[:r.Intn(len(d.G2C))]
					what = "gid2cid-short"
				} else {
					d.HasG2C, d.G2C = true, []int{0}
					what = "gid2cid-on-simple-font"
				}
			case 6:
				d.FDSel.Tbl = d.FDSel.Tbl[:r.Intn(n)] // the function falls back to Dflt
				what = "fdselect-table-short"
			default:
				l, lb = badList(r, n)
				what = "bad-list"
			}
			which := []string{"pub", "sfnt"}[rep%2]
			one(run, &Case{Sel: "cff", Which: which, Cff: d, GL: l}, "stream:cff-malformed", lb, "malformed:"+what)
		}
	}

	// ---- stream 4: SubsetGlyf (closure, FixComponents) ----
	{
		r := root.Fork("glyf")
		for rep := 0; rep < 30*reps; rep++ {
			o := glyfOpts{n: 3 + r.Intn(20), depth: 1 + r.Intn(5), blanks: r.Chance(1, 2), cycles: r.Chance(1, 5),
				names: r.Chance(2, 3), blank0: r.Chance(1, 5), compFrac: 2 + r.Intn(6)}
			d := genGlyf(r, o)
			ls, lbs := lists(r, o.n)
			for i, l := range ls {
				c := &Case{Sel: "glyf", Glyf: d, GL: l, Orc: orcOf(r, 8), Flags: Flags{Alias: r.Chance(2, 3)}}
				if r.Chance(1, 3) {
					for k := r.Intn(3); k >= 0; k-- {
						c.Extras = append(c.Extras, r.Intn(o.n))
					}
				}
				lab := []string{"stream:glyf", lbs[i], fmt.Sprintf("depth:%d", o.depth)}
				if o.cycles {
					lab = append(lab, "composites:cyclic")
				}
				if o.blanks {
					lab = append(lab, "blanks:yes")
				}
				one(run, c, lab...)
			}
			one(run, &Case{Sel: "glyf", Glyf: d, GL: notZeroFirst(r, o.n), Orc: orcOf(r, 4)}, "stream:glyf", "list:not-zero-first")
		}
	}

	// ---- stream 5: TrueType outlines and lists outside the domain ----
	{
		r := root.Fork("glyf-malformed")
		for rep := 0; rep < 30*reps; rep++ {
			o := glyfOpts{n: 3 + r.Intn(10), depth: 1 + r.Intn(3), blanks: r.Bool(), names: r.Bool(), compFrac: 4}
			d := genGlyf(r, o)
			l := listFull(o.n)
			lb := "list:full"
			what := ""
			switch r.Intn(5) {
			case 0:
				d.Widths = d.Widths[:r.Intn(o.n)]
				what = "widths-short"
			case 1:
				d.HasNames = true
				d.Names = append([]string{}, d.Names...)
				if len(d.Names) > 0 {
					d.Names = d.Names[:r.Intn(len(d.Names))]
				}
				what = "names-short"
			case 2: // a component that does not exist
				for tries := 0; tries < 50; tries++ {
					g := d.Glyphs[r.Intn(o.n)]
					if g != nil && !g.Simple {
						g.Comps[r.Intn(len(g.Comps))].Gid = o.n + r.Intn(3)
						break
					}
				}
				what = "component-out-of-range"
			default:
				l, lb = badList(r, o.n)
				what = "bad-list"
			}
			one(run, &Case{Sel: "glyf", Glyf: d, GL: l, Orc: orcOf(r, 4)}, "stream:glyf-malformed", lb, "malformed:"+what)
		}
	}

	// ---- stream 6: Font.Subset on whole fonts ----
	{
		r := root.Fork("font")
		for rep := 0; rep < 16*reps; rep++ {
			var fd *FontDesc
			kind := []string{"glyf", "glyf", "cid", "simple"}[rep%4]
			n := 3 + r.Intn(14)
			switch kind {
			case "glyf":
				fd = &FontDesc{Glyf: genGlyf(r, glyfOpts{n: n, depth: 1 + r.Intn(5), blanks: r.Bool(), names: r.Chance(2, 3), blank0: r.Chance(1, 6), compFrac: 2 + r.Intn(5)})}
			case "cid":
				nfd := vlib.Pick(r, []int{1, 2, 3, 7})
				fd = &FontDesc{Cff: genCff(r, cffOpts{n: n, cid: true, nfd: nfd, shape: vlib.Pick(r, []string{"cyclic", "runs", "random", "sparse"})})}
				fd.Cff.FDSel.Dflt = fdPanic
			default:
				fd = &FontDesc{Cff: genCff(r, cffOpts{n: n, nfd: 1, shape: "const", enc: vlib.Pick(r, []string{"", "single", "multi"})})}
				fd.Cff.FDSel.Dflt = 0
			}
			odd := r.Chance(1, 4)
			if r.Chance(5, 6) {
				fd.HasCMap = true
				fd.CMap = genCMap(r, n, odd)
			}
			flags := Flags{Alias: r.Bool(), Twice: r.Chance(1, 4)}
			lab := []string{"stream:font", "kind:" + kind}
			if r.Chance(1, 2) {
				if e, ok := viaReader(fd); ok {
					fd = e
					flags.Reread = true
					lab = append(lab, "font:reread")
					if fd.Cff != nil {
						n = len(fd.Cff.Glyphs)
					} else {
						n = len(fd.Glyf.Glyphs)
					}
				}
			}
			if odd {
				lab = append(lab, "cmap:with-undecodable-subtable")
			}
			ls, lbs := lists(r, n)
			for i, l := range ls {
				one(run, &Case{Sel: "font", Font: fd, GL: l, Orc: orcOf(r, 8), Flags: flags}, append([]string{lbs[i]}, lab...)...)
			}
			if rep%3 == 0 {
				one(run, &Case{Sel: "font", Font: fd, GL: notZeroFirst(r, n), Orc: orcOf(r, 4), Flags: flags}, append([]string{"list:not-zero-first"}, lab...)...)
			}
		}
	}

	// ---- stream 8: large inputs ----
	{
		r := root.Fork("large")
		nl := vlib.Count(tier, 1, 4)
		for rep := 0; rep < nl; rep++ {
			n := 1500 + r.Intn(1500)
			d := genGlyf(r, glyfOpts{n: n, depth: 5, blanks: true, names: true, compFrac: 5})
			one(run, &Case{Sel: "glyf", Glyf: d, GL: listSparse(r, n), Orc: orcOf(r, 16), Flags: Flags{Alias: true}}, "stream:large", "list:sparse", "kind:glyf")
			one(run, &Case{Sel: "font", Font: &FontDesc{Glyf: d, HasCMap: true, CMap: genCMap(r, n, false)}, GL: listReversed(n), Orc: orcOf(r, 4)}, "stream:large", "list:reversed", "kind:glyf")
			m := 1000 + r.Intn(1000)
			c := genCff(r, cffOpts{n: m, cid: true, nfd: 256, shape: "random"})
			one(run, &Case{Sel: "cff", Which: "pub", Cff: c, GL: listRandom(r, m, m/2)}, "stream:large", "list:random", "kind:cid", "fds:256")
			one(run, &Case{Sel: "cff", Which: "sfnt", Cff: c, GL: listReversed(m), Flags: Flags{Alias: true}}, "stream:large", "list:reversed", "kind:cid", "fds:256")
		}
	}

	// ---- stream 7: fonts the subsetter refuses, damaged cmap tables ----
	{
		r := root.Fork("font-malformed")
		for rep := 0; rep < 12*reps; rep++ {
			n := 3 + r.Intn(6)
			fd := &FontDesc{Glyf: genGlyf(r, glyfOpts{n: n, depth: 2, names: true, compFrac: 3})}
			fd.HasCMap = true
			fd.CMap = genCMap(r, n, r.Bool())
			what := ""
			switch r.Intn(6) {
			case 5: // a format word without a decoder (cmap.Decode never lets it through)
				b := make([]byte, 10+r.Intn(6))
				b[1] = byte(vlib.Pick(r, []int{1, 3, 5, 7, 9, 11, 15, 200}))
				b[3] = byte(len(b))
				fd.CMap = append(fd.CMap, CMapEnt{2, 9, 0, b})
				sortCMap(fd.CMap)
				what = "cmap-unknown-format"
			case 0:
				fd.Gdef = true
				what = "gdef-present"
			case 1: // format 0: SubsetCMap panics
				b := make([]byte, 262)
				b[2], b[3] = 1, 6
				for i := 6; i < 262; i++ {
					b[i] = byte(r.Intn(n))
				}
				fd.CMap = append(fd.CMap, CMapEnt{1, 0, 77, b})
				sortCMap(fd.CMap)
				what = "cmap-format-0"
			case 2: // arbitrary bytes behind a format word
				b := r.Bytes(10 + r.Intn(40))
				b[0], b[1] = 0, byte(vlib.Pick(r, []int{4, 6, 12}))
				fd.CMap = append(fd.CMap, CMapEnt{2, 7, 0, b})
				sortCMap(fd.CMap)
				what = "cmap-random-bytes"
			case 3: // single-byte mutation of a good subtable
				e := &fd.CMap[r.Intn(len(fd.CMap))]
				e.Data = append([]byte{}, e.Data...)
				if len(e.Data) > 2 {
					e.Data[2+r.Intn(len(e.Data)-2)] ^= byte(1 << r.Intn(8))
				}
				what = "cmap-mutated"
			default:
				l, lb := badList(r, n)
				one(run, &Case{Sel: "font", Font: fd, GL: l, Orc: orcOf(r, 4)}, "stream:font-malformed", lb, "malformed:bad-list")
				continue
			}
			one(run, &Case{Sel: "font", Font: fd, GL: listRandom(r, n, 1+r.Intn(n)), Orc: orcOf(r, 4)}, "stream:font-malformed", "malformed:"+what)
		}
	}
}
