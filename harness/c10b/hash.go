package c10b

// Deep structural hash of a Go value for the oracle clause "Subset does not
// modify its arguments": pointers are followed, maps are hashed independently
// of their iteration order, floats by bit pattern, and every slice is hashed
// up to its CAPACITY, because an append in place on a shared slice writes
// behind len without changing it.  Function values are opaque to reflection;
// the FDSelect function of CFF outlines is sampled separately (fontHash).

import (
	"crypto/sha256"
	"encoding/binary"
	"hash"
	"reflect"
	"sort"
	"time"
	"unsafe"

	"seehuhn.de/go/sfnt"
	"seehuhn.de/go/sfnt/cff"
)

type visitKey struct {
	p unsafe.Pointer
	t reflect.Type
}

type hasher struct {
	h       hash.Hash
	visited map[visitKey]bool
}

func (hs *hasher) u64(x uint64) {
	var b [8]byte
	binary.LittleEndian.PutUint64(b[:], x)
	hs.h.Write(b[:])
}

func (hs *hasher) tag(s string) {
	hs.u64(uint64(len(s)))
	hs.h.Write([]byte(s))
}

func (hs *hasher) sum() (out [32]byte) {
	copy(out[:], hs.h.Sum(nil))
	return out
}

var timeType = reflect.TypeOf(time.Time{})

func rw(v reflect.Value) reflect.Value {
	if v.CanInterface() {
		return v
	}
	if v.CanAddr() {
		return reflect.NewAt(v.Type(), unsafe.Pointer(v.UnsafeAddr())).Elem()
	}
	return v
}

func addressable(v reflect.Value) reflect.Value {
	if v.CanAddr() {
		return v
	}
	c := reflect.New(v.Type()).Elem()
	c.Set(v)
	return c
}

func f64bits(f float64) uint64 { return *(*uint64)(unsafe.Pointer(&f)) }

func (hs *hasher) walk(v reflect.Value) {
	if !v.IsValid() {
		hs.tag("invalid")
		return
	}
	v = rw(v)
	switch v.Kind() {
	case reflect.Bool:
		if v.Bool() {
			hs.u64(1)
		} else {
			hs.u64(0)
		}
	case reflect.Int, reflect.Int8, reflect.Int16, reflect.Int32, reflect.Int64:
		hs.u64(uint64(v.Int()))
	case reflect.Uint, reflect.Uint8, reflect.Uint16, reflect.Uint32, reflect.Uint64, reflect.Uintptr:
		hs.u64(v.Uint())
	case reflect.Float32, reflect.Float64:
		hs.u64(f64bits(v.Float()))
	case reflect.String:
		hs.tag(v.String())
	case reflect.Slice:
		if v.IsNil() {
			hs.tag("nilslice")
			return
		}
		hs.tag("slice")
		n := v.Len()
		hs.u64(uint64(n))
		full := v
		if v.Cap() > n {
			full = v.Slice(0, v.Cap())
			hs.tag("cap")
			hs.u64(uint64(v.Cap()))
		}
		if v.Type().Elem().Kind() == reflect.Uint8 {
			hs.h.Write(full.Bytes())
			return
		}
		for i := 0; i < full.Len(); i++ {
			hs.walk(full.Index(i))
		}
	case reflect.Array:
		v = addressable(v)
		for i := 0; i < v.Len(); i++ {
			hs.walk(v.Index(i))
		}
	case reflect.Map:
		if v.IsNil() {
			hs.tag("nilmap")
			return
		}
		hs.tag("map")
		hs.u64(uint64(v.Len()))
		type ent struct{ k, e [32]byte }
		var ents []ent
		it := v.MapRange()
		for it.Next() {
			kh := &hasher{h: sha256.New(), visited: hs.visited}
			kh.walk(it.Key())
			eh := &hasher{h: sha256.New(), visited: hs.visited}
			eh.walk(it.Value())
			ents = append(ents, ent{kh.sum(), eh.sum()})
		}
		sort.Slice(ents, func(i, j int) bool {
			a, b := ents[i], ents[j]
			for x := 0; x < 32; x++ {
				if a.k[x] != b.k[x] {
					return a.k[x] < b.k[x]
				}
			}
			for x := 0; x < 32; x++ {
				if a.e[x] != b.e[x] {
					return a.e[x] < b.e[x]
				}
			}
			return false
		})
		for _, e := range ents {
			hs.h.Write(e.k[:])
			hs.h.Write(e.e[:])
		}
	case reflect.Ptr:
		if v.IsNil() {
			hs.tag("nilptr")
			return
		}
		key := visitKey{unsafe.Pointer(v.Pointer()), v.Type()}
		if hs.visited[key] {
			hs.tag("cycle")
			return
		}
		hs.visited[key] = true
		hs.tag("ptr")
		hs.walk(v.Elem())
		delete(hs.visited, key)
	case reflect.Interface:
		if v.IsNil() {
			hs.tag("nilif")
			return
		}
		hs.tag("if:" + v.Elem().Type().String())
		hs.walk(v.Elem())
	case reflect.Struct:
		if v.Type() == timeType {
			v = addressable(v)
			t := rw(v).Interface().(time.Time)
			hs.tag("time")
			hs.u64(uint64(t.Unix()))
			hs.u64(uint64(t.Nanosecond()))
			return
		}
		v = addressable(v)
		t := v.Type()
		hs.tag("struct:" + t.String())
		for i := 0; i < v.NumField(); i++ {
			hs.tag(t.Field(i).Name)
			hs.walk(v.Field(i))
		}
	case reflect.Func:
		if v.IsNil() {
			hs.tag("nilfunc")
		} else {
			hs.tag("func")
		}
	default:
		hs.tag("opaque:" + v.Kind().String())
	}
}

func deepHash(p any) [32]byte {
	hs := &hasher{h: sha256.New(), visited: map[visitKey]bool{}}
	hs.walk(reflect.ValueOf(p))
	return hs.sum()
}

// outlinesHash covers what deepHash cannot see of CFF outlines: the values of
// the FDSelect function on all glyphs.
func cffHash(o *cff.Outlines) [32]byte {
	hs := &hasher{h: sha256.New(), visited: map[visitKey]bool{}}
	hs.walk(reflect.ValueOf(o))
	if o != nil && o.FDSelect != nil {
		for i := 0; i <= len(o.Glyphs); i++ {
			hs.u64(uint64(int64(sampleFD(o.FDSelect, i))))
		}
	}
	return hs.sum()
}

func fontHash(f *sfnt.Font) [32]byte {
	hs := &hasher{h: sha256.New(), visited: map[visitKey]bool{}}
	hs.walk(reflect.ValueOf(f))
	if o, ok := f.Outlines.(*cff.Outlines); ok {
		h := cffHash(o)
		hs.h.Write(h[:])
	}
	return hs.sum()
}
