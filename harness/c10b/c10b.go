package c10b

import (
	"fmt"
	"strings"
	"time"

	"seehuhn.de/go/postscript/cid"
	"seehuhn.de/go/postscript/funit"
	"seehuhn.de/go/sfnt"
	"seehuhn.de/go/sfnt/cff"
	"seehuhn.de/go/sfnt/glyf"
	"seehuhn.de/go/sfnt/glyph"
	"seehuhn.de/go/sfnt/verifharness/vlib"
)

// result of running the implementation on one case
type result struct {
	obs      string
	panicked bool
	panicMsg string
	hung     bool

	origCff, subCff   *cff.Outlines
	origGlyf, subGlyf *glyf.Outlines
	origFont, subFont *sfnt.Font
	sel               []glyph.ID // the final s.glyphs (reconstructed for Font.Subset on TrueType)
	selOK             bool

	retained       string        // "" or: the subset changed when the caller's slices were overwritten after the call
	changeOriginal func() string // overwrites what a caller may overwrite in the original afterwards; "" or how the subset changed

	rereadChecked bool // the oracle wrote the subset, read it back and compared it with the re-read original

	modified    string // "" or what Subset changed in its arguments
	firstResult string // Twice: "" or how the first result changed during the second call
}

func withTimeout(d time.Duration, fn func()) (timedOut bool) {
	done := make(chan struct{})
	go func() {
		defer close(done)
		fn()
	}()
	select {
	case <-done:
		return false
	case <-time.After(d):
		return true
	}
}

const listSentinel = 0xFFFE

// guardedList hands the glyph list over the way a caller that carved it out of
// a larger array does: with spare capacity (sentinels) behind it.  scribble
// overwrites the whole array the way a caller does who reuses its buffer
// after the call: with other valid glyph ids (n = number of glyphs of the
// font), the same ids in another order, or garbage.
func guardedList(gl []int, n int) (list []glyph.ID, intact func() bool, scribble func()) {
	full := make([]glyph.ID, len(gl)+4)
	for i, g := range gl {
		full[i] = glyph.ID(g)
	}
	for i := len(gl); i < len(full); i++ {
		full[i] = listSentinel
	}
	list = full[:len(gl)]
	intact = func() bool {
		for i, g := range gl {
			if full[i] != glyph.ID(g) {
				return false
			}
		}
		for i := len(gl); i < len(full); i++ {
			if full[i] != listSentinel {
				return false
			}
		}
		return true
	}
	scribble = func() {
		switch {
		case n > 0 && len(gl)%3 == 0: // other valid glyphs
			for i := range full {
				full[i] = glyph.ID((int(full[i]) + 1 + i) % n)
			}
		case n > 0 && len(gl)%3 == 1: // the same glyphs in another order, valid ids behind them
			for i, j := 0, len(gl)-1; i < j; i, j = i+1, j-1 {
				full[i], full[j] = full[j], full[i]
			}
			for i := len(gl); i < len(full); i++ {
				full[i] = glyph.ID(i % n)
			}
		default: // garbage
			for i := range full {
				full[i] = glyph.ID(0xFFFF - i)
			}
		}
	}
	return list, intact, scribble
}

// otherList is a different list for the first of two calls (Twice): the same
// glyphs with the tail reversed.
func otherList(gl []int) []int {
	out := append([]int(nil), gl...)
	for i, j := 1, len(out)-1; i < j; i, j = i+1, j-1 {
		out[i], out[j] = out[j], out[i]
	}
	return out
}

func fixedPoint(what, a, b string) error {
	if a == b {
		return nil
	}
	i := 0
	for i < len(a) && i < len(b) && a[i] == b[i] {
		i++
	}
	lo := i - 100
	if lo < 0 {
		lo = 0
	}
	cut := func(x string) string {
		hi := i + 100
		if hi > len(x) {
			hi = len(x)
		}
		if lo > len(x) {
			return ""
		}
		return x[lo:hi]
	}
	return fmt.Errorf("%s: the case line is not a fixed point of build/project (first difference at %d):\n projected: ...%s...\n case:      ...%s...", what, i, cut(a), cut(b))
}

// stateLen is len(s.glyphs) after the list (as it is, duplicates included) and
// the extras were registered with getNewGid.
func stateLen(gl, extras []int) int {
	seen := map[int]bool{}
	for _, g := range gl {
		seen[g] = true
	}
	n := len(gl)
	for _, g := range extras {
		if !seen[g] {
			seen[g] = true
			n++
		}
	}
	return n
}

// normFD gives the FDSelect table of a descriptor the shape ProjectCff
// produces: one entry per glyph.
func normFD(d *CffDesc) *CffDesc {
	if d.FDSel.Nil {
		return d
	}
	c := *d
	c.FDSel.Tbl = make([]int, len(d.Glyphs))
	for i := range c.FDSel.Tbl {
		if i < len(d.FDSel.Tbl) {
			c.FDSel.Tbl[i] = d.FDSel.Tbl[i]
		} else {
			c.FDSel.Tbl[i] = d.FDSel.Dflt
		}
	}
	return &c
}

// exec builds the real input, calls the real code and projects the result.
//
// The subset is observed twice: right after the call, and again after every
// slice the caller handed in (the glyph list with the capacity behind it, the
// extras) has been overwritten, as a caller does who reuses its buffers.  The
// observation compared with the model, and everything the oracle looks at, is
// the SECOND one; the two must agree (the subset keeps no reference to
// caller-owned memory).
func exec(c *Case) (res result, err error) {
	var call func()           // the call of the code under test; fills res
	var observe func() string // the canonical observation of the subset as it is now
	var hashArgs func() [32]byte
	nGlyphs := 0
	switch {
	case c.Cff != nil:
		nGlyphs = len(c.Cff.Glyphs)
	case c.Glyf != nil:
		nGlyphs = len(c.Glyf.Glyphs)
	case c.Font != nil && c.Font.Cff != nil:
		nGlyphs = len(c.Font.Cff.Glyphs)
	case c.Font != nil && c.Font.Glyf != nil:
		nGlyphs = len(c.Font.Glyf.Glyphs)
	}
	gl, intact, scribble := guardedList(c.GL, nGlyphs)
	extras, _, scribbleExtras := guardedList(c.Extras, nGlyphs)
	scribbleFirst := func() {}
	listed := toGIDs(c.GL) // the harness's own copy of the list

	switch c.Sel {
	case "cff":
		o, err := BuildCff(c.Cff, c.Flags.Alias)
		if err != nil {
			return res, err
		}
		if err := fixedPoint("cff", vlib.Str(ProjectCff(o).sx()), vlib.Str(normFD(c.Cff).sx())); err != nil {
			return res, err
		}
		res.origCff = o
		hashArgs = func() [32]byte { return cffHash(o) }
		call = func() {
			if c.Which == "pub" {
				res.subCff = o.Subset(gl)
				res.sel = append([]glyph.ID(nil), listed...)
			} else {
				res.subCff, res.sel = sfnt.VerifC10BSubsetCFF(o, gl, extras)
				res.sel = append([]glyph.ID(nil), res.sel...)
			}
			res.selOK = true
		}
		observe = func() string { return vlib.Str(vlib.L(vlib.Atom("ok"), obsCff(res.subCff))) }
		res.changeOriginal = func() string {
			before := observe()
			changeCff(o)
			if observe() != before {
				return "the subset of CFF outlines changed when entries of the original's slices / its FDSelect function were replaced afterwards"
			}
			return ""
		}
	case "glyf":
		o := BuildGlyf(c.Glyf, c.Flags.Alias)
		if err := fixedPoint("glyf", vlib.Str(ProjectGlyf(o).sx()), vlib.Str(c.Glyf.sx())); err != nil {
			return res, err
		}
		res.origGlyf = o
		hashArgs = func() [32]byte { return deepHash(o) }
		call = func() {
			var sel []glyph.ID
			res.subGlyf, sel, _ = sfnt.VerifC10BSubsetGlyf(o, gl, extras)
			res.sel = append([]glyph.ID(nil), sel...)
			res.selOK = true
		}
		observe = func() string {
			return vlib.Str(vlib.L(vlib.Atom("ok"), obsGlyf(stateLen(c.GL, c.Extras), res.sel, res.subGlyf)))
		}
		res.changeOriginal = func() string {
			before := observe()
			changeGlyf(o)
			if observe() != before {
				return "the subset of TrueType outlines changed when entries of the original's Glyphs / Widths / Names were replaced afterwards"
			}
			return ""
		}
	case "font":
		f, err := BuildFont(c.Font, c.Flags.Alias)
		if err != nil {
			return res, err
		}
		if c.Flags.Reread {
			if f, err = writeAndRead(f); err != nil {
				return res, fmt.Errorf("reread case: %v", err)
			}
			// Read derives layout tables and a Gdef only from tables of the file
			f.Gsub, f.Gpos = nil, nil
		}
		p := ProjectFont(f)
		want := *c.Font
		if want.Cff != nil {
			want.Cff = normFD(want.Cff)
		}
		if err := fixedPoint("font", vlib.Str(p.outlSx())+" "+vlib.Str(p.cmapSx()), vlib.Str(want.outlSx())+" "+vlib.Str(want.cmapSx())); err != nil {
			return res, err
		}
		res.origFont = f
		hashArgs = func() [32]byte { return fontHash(f) }
		origGlyf, _ := f.Outlines.(*glyf.Outlines)
		call = func() {
			if c.Flags.Twice {
				l1, _, s1 := guardedList(otherList(c.GL), nGlyphs)
				scribbleFirst = s1
				first := f.Subset(l1)
				h1 := fontHash(first)
				res.subFont = f.Subset(gl)
				if fontHash(first) != h1 {
					res.firstResult = "the result of an earlier Subset call changed during a later call on the same font"
				}
			} else {
				res.subFont = f.Subset(gl)
			}
			switch so := res.subFont.Outlines.(type) {
			case *cff.Outlines:
				res.sel, res.selOK = append([]glyph.ID(nil), listed...), true
			case *glyf.Outlines:
				res.sel, res.selOK = reconstructSel(origGlyf, so, listed)
			}
		}
		observe = func() string {
			var outl vlib.Sx
			switch so := res.subFont.Outlines.(type) {
			case *cff.Outlines:
				outl = vlib.L(vlib.Atom("cff"), obsCff(so))
			case *glyf.Outlines:
				outl = vlib.L(vlib.Atom("glyf"), obsGlyf(len(c.GL), res.sel, so))
			default:
				outl = vlib.Atom("no-outlines")
			}
			return vlib.Str(vlib.L(vlib.Atom("ok"), vlib.L(outl, obsCMap(res.subFont.CMapTable))))
		}
		res.changeOriginal = func() string {
			before := observe()
			switch o := f.Outlines.(type) {
			case *cff.Outlines:
				changeCff(o)
			case *glyf.Outlines:
				changeGlyf(o)
			}
			for k := range f.CMapTable {
				f.CMapTable[k] = []byte{0, 4, 0, 0}
			}
			if observe() != before {
				return "the subset font changed when entries of the original's outline slices / cmap table were replaced afterwards"
			}
			return ""
		}
	default:
		return res, fmt.Errorf("unknown selector %q", c.Sel)
	}

	safeObserve := func() (obs string) {
		defer func() {
			if e := recover(); e != nil {
				obs = fmt.Sprint("unprojectable: ", e)
			}
		}()
		return observe()
	}

	before := hashArgs()
	res.hung = withTimeout(30*time.Second, func() {
		defer func() {
			if e := recover(); e != nil {
				res.panicked = true
				res.panicMsg = fmt.Sprint(e)
				res.obs = "panic"
			}
		}()
		call()
	})
	if res.hung {
		res.obs = "hang"
		res.changeOriginal = nil
		return res, nil
	}
	if hashArgs() != before {
		res.modified = "the font handed to Subset is not the same afterwards (deep hash over all reachable data including spare slice capacity)"
	} else if !intact() {
		res.modified = "the glyph list handed to Subset (or the spare capacity behind it) was overwritten"
	}
	if res.panicked {
		res.changeOriginal = nil
		return res, nil
	}
	first := safeObserve()
	// the caller reuses its buffers
	scribble()
	scribbleExtras()
	scribbleFirst()
	res.obs = safeObserve()
	if res.obs != first {
		i := 0
		for i < len(first) && i < len(res.obs) && first[i] == res.obs[i] {
			i++
		}
		cut := func(x string) string {
			lo, hi := i-80, i+80
			if lo < 0 {
				lo = 0
			}
			if hi > len(x) {
				hi = len(x)
			}
			if lo > len(x) {
				return ""
			}
			return x[lo:hi]
		}
		res.retained = fmt.Sprintf("the subset changed when the caller overwrote the glyph list it had passed to Subset (the subset keeps a reference to caller-owned memory); observation right after the call ...%s... and after the overwrite ...%s...", cut(first), cut(res.obs))
	}
	return res, nil
}

// changeCff replaces, in the original outlines, what a caller may replace
// after subsetting without touching anything the subset is documented to
// share (the *Glyph and *PrivateDict values): the FDSelect function, and the
// ENTRIES of the Glyphs, Private, FontMatrices, GIDToCID and Encoding slices.
func changeCff(o *cff.Outlines) {
	np := len(o.Private)
	if o.FDSelect != nil {
		old := o.FDSelect
		o.FDSelect = func(gid glyph.ID) int {
			if np == 0 {
				return 0
			}
			return (old(gid) + 1) % np
		}
	}
	for i, j := 0, len(o.Private)-1; i < j; i, j = i+1, j-1 {
		o.Private[i], o.Private[j] = o.Private[j], o.Private[i]
	}
	for i, j := 0, len(o.FontMatrices)-1; i < j; i, j = i+1, j-1 {
		o.FontMatrices[i], o.FontMatrices[j] = o.FontMatrices[j], o.FontMatrices[i]
	}
	for i := range o.FontMatrices {
		o.FontMatrices[i][4] += 1000
	}
	for i := range o.Glyphs {
		o.Glyphs[i] = sentinelGlyph
	}
	for i := range o.GIDToCID {
		o.GIDToCID[i] += 7
	}
	for i := range o.Encoding {
		o.Encoding[i] = glyph.ID(i % 3)
	}
	if o.ROS != nil {
		o.ROS = &cid.SystemInfo{Registry: "Changed", Ordering: "Afterwards", Supplement: 9}
	}
}

// changeGlyf: the ENTRIES of Glyphs, Widths and Names (Tables and Maxp are
// shared with the subset by design: "Tables: oldOutlines.Tables").
func changeGlyf(o *glyf.Outlines) {
	for i := range o.Glyphs {
		o.Glyphs[i] = &glyf.Glyph{Rect16: funit.Rect16{LLx: 0x0EEE}}
	}
	for i := range o.Widths {
		o.Widths[i] += 11
	}
	for i := range o.Names {
		o.Names[i] = "changed-afterwards"
	}
}

// reconstructSel recovers s.glyphs from a subset made by Font.Subset: new
// glyph j >= len(gl) is the glyph that the k-th component of some new glyph i
// refers to, and that component is the k-th component of original glyph
// sel[i].  ok = false when the references are inconsistent or some appended
// glyph is referenced by nothing.
func reconstructSel(orig, sub *glyf.Outlines, gl []glyph.ID) (sel []glyph.ID, ok bool) {
	n := len(sub.Glyphs)
	sel = make([]glyph.ID, n)
	known := make([]bool, n)
	for i := range sel {
		sel[i] = glyph.ID(0xFFFF)
	}
	for i, g := range gl {
		if i < n {
			sel[i], known[i] = g, true
		}
	}
	ok = true
	var queue []int
	for i := range gl {
		if i < n {
			queue = append(queue, i)
		}
	}
	for len(queue) > 0 {
		i := queue[0]
		queue = queue[1:]
		if int(sel[i]) >= len(orig.Glyphs) {
			ok = false
			continue
		}
		oc, nc := orig.Glyphs[sel[i]].Components(), sub.Glyphs[i].Components()
		if len(oc) != len(nc) {
			ok = false
			continue
		}
		for k := range oc {
			j := int(nc[k])
			if j >= n {
				ok = false
				continue
			}
			if known[j] {
				if sel[j] != oc[k] {
					ok = false
				}
				continue
			}
			sel[j], known[j] = oc[k], true
			queue = append(queue, j)
		}
	}
	for _, k := range known {
		if !k {
			ok = false
		}
	}
	return sel, ok
}

// RunCase re-executes one case line.
func RunCase(line string) (impl, fail, sig string, err error) {
	line = strings.TrimPrefix(strings.TrimSpace(line), "!")
	c, err := ParseCase(line)
	if err != nil {
		return "", "", "", err
	}
	res, err := exec(c)
	if err != nil {
		return "", "", "", err
	}
	fail, sig = oracle(c, &res)
	return res.obs, fail, sig, nil
}

// at most 24 failures per signature are kept, so that one class cannot crowd
// out another
var failCount = map[string]int{}

func one(run *vlib.Run, c *Case, labels ...string) {
	cl := c.Line()
	res, err := exec(c)
	if err != nil {
		panic(fmt.Sprintf("generator bug: %v\ncase: %.2000s", err, cl)) // not an observation of the code under test
	}
	nt, more := nontrivial(c, &res)
	labels = append(labels, more...)
	if c.Flags.Alias {
		labels = append(labels, "input:aliasing-slices")
	}
	if c.Flags.Twice {
		labels = append(labels, "input:second-subset-of-same-font")
	}
	fail, sig := oracle(c, &res)
	if res.rereadChecked {
		labels = append(labels, "oracle:subset-written-and-read-back")
	}
	idx := run.Add(cl, res.obs, nt, labels...)
	if fail != "" {
		failCount[sig]++
		run.Extra["oracle_failures_by_signature"] = failCount
		if failCount[sig] <= 24 {
			run.Fail(idx, cl, fail, sig)
		}
	}
}
