package main

import (
	"seehuhn.de/go/sfnt/verifharness/c17"
	"seehuhn.de/go/sfnt/verifharness/vlib"
)

func main() { vlib.Main(c17.Gen, c17.RunCase) }
