// Package c17 drives parser.Parser with generated operation histories over a
// reader with controllable short reads and records the observations in the
// syntax the Coq model prints.  Its oracle is a slice-backed reference stating
// the property directly.
package c17

import (
	"errors"
	"fmt"
	"io"

	"seehuhn.de/go/sfnt/parser"
	"seehuhn.de/go/sfnt/verifharness/vlib"
)

const bufSize = 1024 // only used to choose interesting sizes; the model gets the real constant from Gen

type chunk struct {
	lim int // returns at most lim+1 bytes
	eof bool
}

// reader is a ReadSeekSizer whose Read obeys a short-read oracle.
type reader struct {
	data []byte
	pos  int64
	orc  []chunk
}

func (r *reader) Size() int64 { return int64(len(r.data)) }
func (r *reader) Seek(off int64, whence int) (int64, error) {
	if whence != io.SeekStart {
		return 0, errors.New("unsupported whence")
	}
	if off < 0 {
		return 0, errors.New("negative position")
	}
	r.pos = off
	return off, nil
}
func (r *reader) Read(p []byte) (int, error) {
	if len(p) == 0 {
		return 0, nil
	}
	rem := int64(len(r.data)) - r.pos
	if rem <= 0 {
		return 0, io.EOF
	}
	lim := len(p)
	eager := false
	if len(r.orc) > 0 {
		lim = r.orc[0].lim + 1
		eager = r.orc[0].eof
		r.orc = r.orc[1:]
	}
	n := len(p)
	if int64(n) > rem {
		n = int(rem)
	}
	if n > lim {
		n = lim
	}
	copy(p, r.data[r.pos:r.pos+int64(n)])
	r.pos += int64(n)
	if eager && r.pos == int64(len(r.data)) {
		return n, io.EOF
	}
	return n, nil
}

type op struct {
	kind string
	arg  int
}

func (o op) sx() vlib.Sx {
	switch o.kind {
	case "seek", "discard", "bytes", "read":
		return vlib.L(vlib.Atom(o.kind), vlib.Int(o.arg))
	}
	return vlib.Atom(o.kind)
}

func errClass(err error) string {
	if err == io.ErrUnexpectedEOF {
		return "eof"
	}
	return "othererr"
}

// runImpl executes the history on the real parser; every step yields the
// result and Pos() afterwards.
func runImpl(data []byte, orc []chunk, ops []op) (out vlib.List) {
	r := &reader{data: data, orc: append([]chunk(nil), orc...)}
	p := parser.New(r)
	for _, o := range ops {
		var res vlib.Sx
		func() {
			defer func() {
				if e := recover(); e != nil {
					res = vlib.Atom("panic")
				}
			}()
			switch o.kind {
			case "seek":
				if err := p.SeekPos(int64(o.arg)); err != nil {
					res = vlib.Atom(errClass(err))
				} else {
					res = vlib.Atom("done")
				}
			case "discard":
				if err := p.Discard(o.arg); err != nil {
					res = vlib.Atom(errClass(err))
				} else {
					res = vlib.Atom("done")
				}
			case "u8":
				v, err := p.ReadUint8()
				res = valOrErr(int64(v), err)
			case "u16":
				v, err := p.ReadUint16()
				res = valOrErr(int64(v), err)
			case "i16":
				v, err := p.ReadInt16()
				res = valOrErr(int64(v), err)
			case "u32":
				v, err := p.ReadUint32()
				res = valOrErr(int64(v), err)
			case "slice":
				v, err := p.ReadUint16Slice()
				if err != nil {
					res = vlib.Atom(errClass(err))
				} else {
					res = append(vlib.List{vlib.Atom("words")}, vlib.Ints(v).(vlib.List)...)
				}
			case "bytes":
				v, err := p.ReadBytes(o.arg)
				if err != nil {
					res = vlib.Atom(errClass(err))
				} else {
					res = vlib.L(vlib.Atom("data"), vlib.Hex(v))
				}
			case "read":
				buf := make([]byte, o.arg)
				n, err := p.Read(buf)
				if n < 0 || n > len(buf) {
					res = vlib.Atom(fmt.Sprintf("badcount%d", n))
				} else {
					if err != nil && err != io.ErrUnexpectedEOF {
						res = vlib.Atom("othererr")
					} else {
						res = vlib.L(vlib.Atom("read"), vlib.Int(n), vlib.Hex(buf[:n]), vlib.Bool(err != nil))
					}
				}
			case "pos":
				res = vlib.L(vlib.Atom("val"), vlib.I64(p.Pos()))
			case "size":
				res = vlib.L(vlib.Atom("val"), vlib.I64(p.Size()))
			}
		}()
		out = append(out, vlib.L(res, vlib.I64(p.Pos())))
	}
	return out
}

func valOrErr(v int64, err error) vlib.Sx {
	if err != nil {
		return vlib.Atom(errClass(err))
	}
	return vlib.L(vlib.Atom("val"), vlib.I64(v))
}

// reference is the property stated directly on a byte slice.
func reference(data []byte, ops []op) (out vlib.List) {
	cur := 0
	n := len(data)
	fits := func(k int) bool { return k == 0 || cur+k <= n }
	for _, o := range ops {
		var res vlib.Sx
		switch o.kind {
		case "seek":
			cur = o.arg
			res = vlib.Atom("done")
		case "discard":
			cur += o.arg
			res = vlib.Atom("done")
		case "u8":
			if fits(1) {
				res = vlib.L(vlib.Atom("val"), vlib.Int(int(data[cur])))
				cur++
			} else {
				res = vlib.Atom("eof")
			}
		case "u16", "i16":
			if fits(2) {
				v := int(data[cur])<<8 | int(data[cur+1])
				if o.kind == "i16" && v >= 32768 {
					v -= 65536
				}
				res = vlib.L(vlib.Atom("val"), vlib.Int(v))
				cur += 2
			} else {
				res = vlib.Atom("eof")
			}
		case "u32":
			if fits(4) {
				v := int(data[cur])<<24 | int(data[cur+1])<<16 | int(data[cur+2])<<8 | int(data[cur+3])
				res = vlib.L(vlib.Atom("val"), vlib.Int(v))
				cur += 4
			} else {
				res = vlib.Atom("eof")
			}
		case "slice":
			if !fits(2) {
				res = vlib.Atom("eof")
				break
			}
			cnt := int(data[cur])<<8 | int(data[cur+1])
			cur += 2
			l := vlib.List{vlib.Atom("words")}
			ok := true
			for i := 0; i < cnt; i++ {
				if !fits(2) {
					ok = false
					break
				}
				l = append(l, vlib.Int(int(data[cur])<<8|int(data[cur+1])))
				cur += 2
			}
			if ok {
				res = l
			} else {
				res = vlib.Atom("eof")
			}
		case "bytes":
			if fits(o.arg) {
				if o.arg == 0 {
					res = vlib.L(vlib.Atom("data"), vlib.Hex(nil))
				} else {
					res = vlib.L(vlib.Atom("data"), vlib.Hex(data[cur:cur+o.arg]))
				}
				cur += o.arg
			} else {
				res = vlib.Atom("eof")
			}
		case "read":
			// bytes are delivered in chunks of at most 1024; a chunk that does
			// not fit is not delivered at all
			k := o.arg
			start := cur
			failed := false
			for k > 0 {
				c := k
				if c > bufSize {
					c = bufSize
				}
				if cur+c > n {
					failed = true
					break
				}
				cur += c
				k -= c
			}
			var b []byte
			if cur > start {
				b = data[start:cur]
			}
			res = vlib.L(vlib.Atom("read"), vlib.Int(cur-start), vlib.Hex(b), vlib.Bool(failed))
		case "pos":
			res = vlib.L(vlib.Atom("val"), vlib.Int(cur))
		case "size":
			res = vlib.L(vlib.Atom("val"), vlib.Int(n))
		}
		out = append(out, vlib.L(res, vlib.Int(cur)))
	}
	return out
}

func caseLine(data []byte, orc []chunk, ops []op) string {
	ol := vlib.List{}
	for _, c := range orc {
		ol = append(ol, vlib.L(vlib.Int(c.lim), vlib.Bool(c.eof)))
	}
	pl := vlib.List{}
	for _, o := range ops {
		pl = append(pl, o.sx())
	}
	return vlib.Line(vlib.Atom("parser"), vlib.Hex(data), ol, pl)
}

func mkData(r *vlib.Rand, n int) []byte {
	b := make([]byte, n)
	mode := r.Intn(3)
	for i := range b {
		switch mode {
		case 0:
			b[i] = byte(i*7 + i/256)
		case 1:
			b[i] = byte(r.Uint64())
		default:
			// small big-endian words so that ReadUint16Slice sees plausible counts
			if i%2 == 0 {
				b[i] = 0
			} else {
				b[i] = byte(r.Intn(40))
			}
		}
	}
	return b
}

func nontrivial(data []byte, ops []op) (bool, []string) {
	// non-trivial: at least one read whose byte range crosses a multiple of the
	// buffer size or the end of input, or a seek beyond EOF followed by a read
	cur := 0
	cross := false
	labels := []string{}
	for _, o := range ops {
		labels = append(labels, "op:"+o.kind)
		sz := 0
		switch o.kind {
		case "seek":
			cur = o.arg
			continue
		case "discard":
			cur += o.arg
			continue
		case "u8":
			sz = 1
		case "u16", "i16", "slice":
			sz = 2
		case "u32":
			sz = 4
		case "bytes", "read":
			sz = o.arg
		}
		if sz > 0 {
			if cur/bufSize != (cur+sz-1)/bufSize || cur+sz > len(data) {
				cross = true
			}
			if cur+sz <= len(data) {
				cur += sz
			}
		}
	}
	return cross, labels
}

func one(run *vlib.Run, data []byte, orc []chunk, ops []op) {
	cl := caseLine(data, orc, ops)
	impl := vlib.Str(runImpl(data, orc, ops))
	nt, labels := nontrivial(data, ops)
	labels = append(labels, fmt.Sprintf("len:%d", len(data)))
	if len(orc) > 0 {
		labels = append(labels, "shortreads")
	}
	idx := run.Add(cl, impl, nt, labels...)
	ref := vlib.Str(reference(data, ops))
	if ref != impl {
		run.Fail(idx, cl, "implementation: "+impl+" reference view: "+ref, "c17-view-mismatch")
	}
}

// RunCase re-executes one case line (corpus entries and replays): it returns
// the implementation's observation and, when the property's oracle fails on
// it, a description of the failure.
func RunCase(line string) (impl string, fail string, sig string, err error) {
	items, err := vlib.Parse(line)
	if err != nil {
		return "", "", "", err
	}
	if len(items) != 4 {
		return "", "", "", errors.New("C17 case: want 4 items")
	}
	data, err := vlib.AsBytes(items[1])
	if err != nil {
		return "", "", "", err
	}
	ol, err := vlib.AsList(items[2])
	if err != nil {
		return "", "", "", err
	}
	var orc []chunk
	for _, x := range ol {
		pr, err := vlib.AsList(x)
		if err != nil || len(pr) != 2 {
			return "", "", "", errors.New("bad oracle entry")
		}
		lim, _ := vlib.AsInt(pr[0])
		eof, _ := vlib.AsBool(pr[1])
		orc = append(orc, chunk{lim, eof})
	}
	pl, err := vlib.AsList(items[3])
	if err != nil {
		return "", "", "", err
	}
	var ops []op
	for _, x := range pl {
		if a, ok := x.(vlib.Atom); ok {
			ops = append(ops, op{string(a), 0})
			continue
		}
		pr, err := vlib.AsList(x)
		if err != nil || len(pr) != 2 {
			return "", "", "", errors.New("bad op")
		}
		k, _ := vlib.AsAtom(pr[0])
		a, _ := vlib.AsInt(pr[1])
		ops = append(ops, op{k, a})
	}
	impl = vlib.Str(runImpl(data, orc, ops))
	ref := vlib.Str(reference(data, ops))
	if ref != impl {
		return impl, "implementation: " + impl + " reference view: " + ref, "c17-view-mismatch", nil
	}
	return impl, "", "", nil
}

var boundaryLens = []int{0, 1, 1023, 1024, 1025, 2048, 2049, 5000}

func boundaryOffsets(n int) []int {
	c := []int{0, 1, 1022, 1023, 1024, 1025, 1026, 2046, 2047, 2048, 2049, 2050, n - 2, n - 1, n, n + 1, n + 2}
	var out []int
	seen := map[int]bool{}
	for _, x := range c {
		if x >= 0 && !seen[x] {
			seen[x] = true
			out = append(out, x)
		}
	}
	return out
}

func randOrc(r *vlib.Rand) []chunk {
	if r.Chance(1, 3) {
		return nil
	}
	n := r.Intn(12)
	o := make([]chunk, n)
	for i := range o {
		switch r.Intn(4) {
		case 0:
			o[i].lim = 0
		case 1:
			o[i].lim = r.Intn(8)
		case 2:
			o[i].lim = r.Intn(1100)
		default:
			o[i].lim = 1023
		}
		o[i].eof = r.Bool()
	}
	return o
}

func randOp(r *vlib.Rand, n int) op {
	offs := boundaryOffsets(n)
	switch r.Intn(14) {
	case 0, 1:
		if r.Bool() {
			return op{"seek", vlib.Pick(r, offs)}
		}
		return op{"seek", r.Intn(n + 20)}
	case 2:
		return op{"discard", vlib.Pick(r, []int{0, 1, 2, 3, 1022, 1023, 1024, 1025, r.Intn(3000)})}
	case 3:
		return op{"u8", 0}
	case 4:
		return op{"u16", 0}
	case 5:
		return op{"i16", 0}
	case 6:
		return op{"u32", 0}
	case 7:
		return op{"slice", 0}
	case 8, 9:
		return op{"bytes", vlib.Pick(r, []int{0, 1, 2, 4, 1023, 1024, r.Intn(1025)})}
	case 10, 11:
		return op{"read", vlib.Pick(r, []int{0, 1, 2, 1023, 1024, 1025, 2048, 2049, r.Intn(6000)})}
	case 12:
		return op{"pos", 0}
	}
	return op{"size", 0}
}

// Gen writes the run for the given tier.
func Gen(run *vlib.Run, seed uint64, tier string) {
	run.Rule = "history over parser.Parser; non-trivial = contains a read whose byte range crosses a multiple of the 1024-byte window or the end of input; distinct by (data, short-read oracle, ops)"
	r := vlib.NewRand(seed)

	// (i) exhaustive short histories over boundary offsets and sizes
	depth := vlib.Count(tier, 2, 3)
	small := []op{{"u8", 0}, {"u16", 0}, {"u32", 0}, {"slice", 0}, {"bytes", 1024}, {"bytes", 1023}, {"read", 1025}, {"read", 2049}, {"discard", 1023}}
	for _, n := range boundaryLens {
		data := mkData(r.Fork(fmt.Sprint("d", n)), n)
		var alphabet []op
		for _, off := range boundaryOffsets(n) {
			alphabet = append(alphabet, op{"seek", off})
		}
		alphabet = append(alphabet, small...)
		var rec func(prefix []op)
		rec = func(prefix []op) {
			if len(prefix) > 0 {
				last := prefix[len(prefix)-1]
				if last.kind != "seek" && last.kind != "discard" {
					orc := []chunk(nil)
					if len(prefix)%2 == 0 {
						orc = []chunk{{0, false}, {2, true}, {600, false}}
					}
					one(run, data, orc, append(append([]op(nil), prefix...), op{"pos", 0}))
				}
			}
			if len(prefix) == depth {
				return
			}
			for _, o := range alphabet {
				rec(append(prefix, o))
			}
		}
		rec(nil)
	}
	run.Extra["exhaustive_depth"] = depth

	// (ii) random long histories
	nr := vlib.Count(tier, 400, 8000)
	for i := 0; i < nr; i++ {
		var n int
		if r.Bool() {
			n = vlib.Pick(r, boundaryLens)
		} else {
			n = r.Intn(5001)
		}
		data := mkData(r, n)
		l := r.Range(1, 200)
		ops := make([]op, l)
		for j := range ops {
			ops[j] = randOp(r, n)
		}
		one(run, data, randOrc(r), ops)
	}
}

// Replay re-executes one case line's history (given as data, oracle, ops are
// re-derived by the caller); here it is used by the driver via GenOne.
func Selftest() error {
	data := []byte{0, 1, 2, 3, 4, 5}
	ops := []op{{"u16", 0}, {"seek", 3}, {"u32", 0}, {"read", 2}}
	if vlib.Str(runImpl(data, nil, ops)) != vlib.Str(reference(data, ops)) {
		return errors.New("selftest mismatch")
	}
	return nil
}
