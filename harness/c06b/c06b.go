package c06b

import (
	"fmt"
	"sort"
	"strings"

	"seehuhn.de/go/sfnt/glyph"
	"seehuhn.de/go/sfnt/opentype/gtab"
	"seehuhn.de/go/sfnt/verifharness/vlib"
)

// runImpl applies the lookups with the real engine (a fresh Context per
// sequence); a panic is an observation.  memOK: the memory around the inputs
// (sentinel glyphs in front of and behind the glyph slice, sentinel runes
// behind the shared text array) is untouched.
func runImpl(c *Case, seq []Glyph) (out []Glyph, panicked bool, memOK bool) {
	ll, ok := toGtab(c.LL)
	if !ok {
		return nil, true, true
	}
	gd := gdefToGtab(c.Gdef)
	order := make([]gtab.LookupIndex, len(c.Order))
	for i, o := range c.Order {
		order[i] = gtab.LookupIndex(o)
	}
	defer func() {
		if e := recover(); e != nil {
			out, panicked, memOK = nil, true, true
		}
	}()
	info, shared, frame := toInfo(seq)
	res := gtab.NewContext(ll, gd, order).Apply(info)
	sentinelOK := func(g glyph.Info, gid glyph.ID, adv int) bool {
		return g.GID == gid && int(g.Advance) == adv && g.XOffset == 0 && g.YOffset == 0 && g.Text == nil
	}
	memOK = sentinelOK(frame[0], 0xFFFF, -1) && sentinelOK(frame[len(frame)-1], 0xFFFE, -2)
	full := shared[:cap(shared)]
	for i := len(shared); i < len(full); i++ {
		if full[i] != sentinel {
			memOK = false
		}
	}
	return fromInfo(res), false, memOK
}

func obsSx(seq []Glyph) string { return vlib.Str(glyphsSx(seq)) }

func b01(b bool) string {
	if b {
		return "1"
	}
	return "0"
}

type failure struct {
	seq    Seq
	detail string
	sig    string
}

type caseResult struct {
	impl     string
	inDomain int
	changed  int
	outside  map[string]int // sequences outside the domain, per reason
	engDiff  map[string]int // ... of which the engine differs from the rules (observation, not a failure)
	fails    []failure
}

func gposOnly(c *Case) bool {
	for _, li := range c.Order {
		if li >= 0 && li < len(c.LL) && c.LL[li].Kind == "old" {
			return false
		}
	}
	return true
}

// idsAndTextOracle: positioning lookups never change the length of the
// sequence, a glyph id or a text (stated on the engine's result alone; it
// holds for lookup types 3 and 5 whatever they do to offsets and advances).
func idsAndTextOracle(in, out []Glyph) string {
	if len(in) != len(out) {
		return "positioning lookups changed the length of the sequence"
	}
	for i := range in {
		if in[i].GID != out[i].GID || fmt.Sprint(in[i].Text) != fmt.Sprint(out[i].Text) {
			return fmt.Sprintf("glyph %d: id or text changed by a positioning lookup", i)
		}
	}
	return ""
}

// positioningOracle (inside the domain): x offsets are only changed by mark
// attachment, advances only by cursive attachment; a single lookup leaves
// every glyph its flags skip exactly as it was.
func positioningOracle(c *Case, in, out []Glyph) string {
	if len(in) != len(out) {
		return ""
	}
	hasCur, hasLig := false, false
	for _, li := range c.Order {
		if li >= 0 && li < len(c.LL) {
			hasCur = hasCur || c.LL[li].Kind == "cur"
			hasLig = hasLig || c.LL[li].Kind == "mlig"
		}
	}
	for i := range in {
		if !hasLig && in[i].X != out[i].X {
			return fmt.Sprintf("glyph %d: x offset changed by cursive attachment", i)
		}
		if !hasCur && in[i].Adv != out[i].Adv {
			return fmt.Sprintf("glyph %d: advance changed by mark attachment", i)
		}
	}
	if len(c.Order) == 1 && c.Order[0] >= 0 && c.Order[0] < len(c.LL) {
		lk := &c.LL[c.Order[0]]
		for i := range in {
			if !keep(c.Gdef, lk.Flags, lk.MFS, in[i].GID) && !sameGlyphs(in[i:i+1], out[i:i+1]) {
				return fmt.Sprintf("glyph %d is skipped by the lookup flags and was changed", i)
			}
		}
	}
	return ""
}

func evalCase(c *Case) caseResult {
	res := caseResult{outside: map[string]int{}, engDiff: map[string]int{}}
	parts := make([]string, len(c.Seqs))
	gpos := gposOnly(c)
	for i, s := range c.Seqs {
		ref, defined, dv := Reference2(c.LL, c.Gdef, c.Order, s)
		out, panicked, memOK := runImpl(c, s.Glyphs)
		if panicked {
			// the engine must not panic on anything the harness can build,
			// inside or outside the domain
			parts[i] = "panic"
			res.fails = append(res.fails, failure{s, "the engine panics; rules: " + obsSx(ref), "c06b-panic"})
			continue
		}
		if gpos {
			if msg := idsAndTextOracle(s.Glyphs, out); msg != "" {
				res.fails = append(res.fails, failure{s, msg + ": " + obsSx(out), "c06b-ids-or-text-changed"})
			}
		}
		if !defined {
			parts[i] = "ood"
			continue
		}
		if !dv.none() {
			// outside the domain where the engine implements the rules (GPOS
			// types 3 and 5 are outside C06's quantifier): the line carries the
			// RULES' outcome (the extracted model must print the same); whether
			// the engine differs is counted as an observation, never a failure
			parts[i] = "(out " + b01(dv.Flags) + " " + b01(dv.RTL) + " " + b01(dv.Null) + " " + b01(dv.Lig) + " " + obsSx(ref) + ")"
			differs := !sameGlyphs(out, ref)
			for _, r := range dv.reasons() {
				res.outside[r]++
				if differs {
					res.engDiff[r]++
				}
			}
			continue
		}
		res.inDomain++
		parts[i] = "(dom " + obsSx(out) + ")"
		if !sameGlyphs(out, s.Glyphs) {
			res.changed++
		}
		if !sameGlyphs(out, ref) {
			res.fails = append(res.fails, failure{s, "engine: " + obsSx(out) + " reference: " + obsSx(ref), "c06b-differs-from-reference"})
			continue
		}
		if !memOK {
			res.fails = append(res.fails, failure{s, "the engine wrote outside the glyph slice / the glyphs' text slices", "c06b-memory-around-input-touched"})
		}
		if gpos {
			if msg := positioningOracle(c, s.Glyphs, out); msg != "" {
				res.fails = append(res.fails, failure{s, msg + ": " + obsSx(out), "c06b-positioning-clause"})
			}
		}
	}
	res.impl = "(" + strings.Join(parts, " ") + ")"
	return res
}

// RunCase re-executes one case line (corpus entries and replays).
func RunCase(line string) (impl, fail, sig string, err error) {
	c, err := ParseCase(line)
	if err != nil {
		return "", "", "", err
	}
	r := evalCase(c)
	if len(r.fails) > 0 {
		f := r.fails[0]
		return r.impl, "sequence " + obsSx(f.seq.Glyphs) + " components " + fmt.Sprint(f.seq.Comps) + ": " + f.detail, f.sig, nil
	}
	return r.impl, "", "", nil
}

type stats struct {
	seqs, inDomain, changed int
	outside, engDiff        map[string]int
}

func add(run *vlib.Run, st *stats, c *Case, labels ...string) {
	r := evalCase(c)
	line := c.Line()
	st.seqs += len(c.Seqs)
	st.inDomain += r.inDomain
	st.changed += r.changed
	for k, v := range r.outside {
		st.outside[k] += v
		labels = append(labels, "ood:"+k)
	}
	for k, v := range r.engDiff {
		st.engDiff[k] += v
	}
	if r.inDomain == 0 {
		labels = append(labels, "no-sequence-in-domain")
	}
	idx := run.Add(line, r.impl, r.changed > 0, labels...)
	for _, f := range r.fails {
		single := &Case{Gdef: c.Gdef, LL: c.LL, Order: c.Order, Seqs: []Seq{f.seq}}
		run.Fail(idx, single.Line(), f.detail, f.sig)
	}
}

const batchSize = 256

func addBatched(run *vlib.Run, st *stats, gd *Gdef, ll []Lookup2, order []int, seqs []Seq, labels ...string) {
	for i := 0; i < len(seqs); i += batchSize {
		j := i + batchSize
		if j > len(seqs) {
			j = len(seqs)
		}
		add(run, st, &Case{Gdef: gd, LL: ll, Order: order, Seqs: seqs[i:j]}, labels...)
	}
}

// Gen writes the run for the given tier.
func Gen(run *vlib.Run, seed uint64, tier string) {
	run.Rule = "one case = a lookup list (C06's lookups, GPOS 3.1, GPOS 5.1), GDEF and lookup order with a batch of glyph sequences (each with a component association); per sequence the line holds `ood` (outside the rules' own domain), `(dom S)` = the ENGINE's result on an input inside in_domain2, where it must equal the rules, or `(out f r n l S)` = the RULES' result (Go transcription) on an input outside the domain where the engine implements the rules (reasons f r n l; GPOS types 3 and 5 are outside C06's quantifier: only no-panic and ids/text-unchanged are demanded of the engine there); the extracted R_shape2 must print the same line; the oracle compares the engine with the Go transcription on every in-domain input; non-trivial = at least one in-domain sequence of the batch is changed by the lookups"
	r := vlib.NewRand(seed)
	st := &stats{outside: map[string]int{}, engDiff: map[string]int{}}

	cat := catalogue()
	maxLen := vlib.Count(tier, 4, 6)
	used := 0
	for i, e := range cat {
		n := maxLen + e.lenAdj
		if e.ext && tier != "thorough" && (uint64(i)+seed)%3 != 0 {
			continue
		}
		used++
		seqs := e.seqs(n)
		addBatched(run, st, e.gd, e.ll, e.order, seqs, append([]string{"exhaustive"}, e.labels...)...)
	}
	run.Extra["catalogue_entries"] = len(cat)
	run.Extra["catalogue_entries_used"] = used
	run.Extra["exhaustive_max_len"] = maxLen

	for _, d := range directed() {
		add(run, st, d.c, append([]string{"directed"}, d.labels...)...)
	}

	nr := vlib.Count(tier, 1200, 40000)
	for i := 0; i < nr; i++ {
		c, labels := randomCase(r)
		add(run, st, c, append([]string{"random"}, labels...)...)
	}

	run.Extra["sequences"] = st.seqs
	run.Extra["sequences_in_domain"] = st.inDomain
	run.Extra["sequences_changed_by_lookups"] = st.changed
	keys := make([]string, 0, len(st.outside))
	for k := range st.outside {
		keys = append(keys, k)
	}
	sort.Strings(keys)
	obs := map[string]any{}
	for _, k := range keys {
		obs[k] = map[string]any{
			"sequences":                       st.outside[k],
			"engine_differs_from_the_rule_on": st.engDiff[k],
			"what":                            reasonText[k],
		}
	}
	run.Extra["observations_outside_property"] = obs
}
