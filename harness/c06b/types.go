// Package c06b is part C06B of property C06: gtab.Context.Apply on lookup
// lists containing GPOS 3.1 (cursive attachment) and GPOS 5.1 (mark to
// ligature) subtables - alone and mixed with C06's lookups - against the
// extended reference shaper R_shape2 (coq/C06B/Model.v, extracted) and against
// its Go transcription (ref.go) as replayable oracle.
//
// C06's abstract description (c06.Glyph, c06.Gdef, c06.Lookup, c06.Sub, the
// case syntax of C06's lookups and C06's Go reference shaper c06.ReferenceFull)
// is imported, not repeated.
package c06b

import (
	"fmt"

	"seehuhn.de/go/sfnt/verifharness/c06"
	"seehuhn.de/go/sfnt/verifharness/vlib"
)

// ---- abstract description (mirrors coq/C06B/Model.v) ----

type Glyph = c06.Glyph
type Gdef = c06.Gdef

// Anchor: nil = NULL offset.
type Anchor = *[2]int

// CEntry is one EntryExitRecord of a GPOS 3.1 subtable.
type CEntry struct {
	G           int
	Entry, Exit Anchor
}
type CSub []CEntry

type MarkRec = c06.MarkRec

// LigRec: ligature glyph -> component -> mark class -> anchor.
type LigRec struct {
	G     int
	Comps [][]Anchor
}

// MSub is a GPOS 5.1 subtable.
type MSub struct {
	Marks []MarkRec
	Ligs  []LigRec
}

// Lookup2: Kind is "old" (one of C06's lookups), "cur" (GPOS 3.1) or "mlig"
// (GPOS 5.1).
type Lookup2 struct {
	Kind       string
	Flags, MFS int
	Old        []c06.Sub // old
	CSubs      []CSub    // cur
	MSubs      []MSub    // mlig
}

// Seq is a glyph sequence with the client's component association (one
// number per glyph: k >= 1 = component k, 0 = none; nil = no association).
type Seq struct {
	Glyphs []Glyph
	Comps  []int
}

type Case struct {
	Gdef  *Gdef
	LL    []Lookup2
	Order []int
	Seqs  []Seq
}

// ---- printing ----

func ints(xs []int) vlib.Sx {
	l := make(vlib.List, len(xs))
	for i, x := range xs {
		l[i] = vlib.Int(x)
	}
	return l
}

func anchorSx(a Anchor) vlib.Sx {
	if a == nil {
		return vlib.Atom("none")
	}
	return vlib.L(vlib.Int(a[0]), vlib.Int(a[1]))
}

// c06's printers are not exported: a C06 case line is rendered by c06 and its
// items are taken from there.
func c06Items(c *c06.Case) []vlib.Sx {
	items, err := vlib.Parse(c.Line())
	if err != nil || len(items) != 4 {
		panic("c06b: cannot re-read a C06 case line")
	}
	return items
}

func gdefSx(g *Gdef) vlib.Sx { return c06Items(&c06.Case{Gdef: g})[0] }

func oldSubsSx(flags, mfs int, subs []c06.Sub) vlib.Sx {
	lks := c06Items(&c06.Case{LL: []c06.Lookup{{Flags: flags, MFS: mfs, Subs: subs}}})[1]
	l, _ := vlib.AsList(lks)
	one, _ := vlib.AsList(l[0])
	return one[2]
}

func glyphsSx(seq []Glyph) vlib.Sx {
	l := make(vlib.List, len(seq))
	for i, g := range seq {
		l[i] = vlib.L(vlib.Int(g.GID), ints(g.Text), vlib.Int(g.X), vlib.Int(g.Y), vlib.Int(g.Adv))
	}
	return l
}

func (s CSub) sx() vlib.Sx {
	l := make(vlib.List, len(s))
	for i, e := range s {
		l[i] = vlib.L(vlib.Int(e.G), anchorSx(e.Entry), anchorSx(e.Exit))
	}
	return l
}

func (s *MSub) sx() vlib.Sx {
	ml := make(vlib.List, len(s.Marks))
	for i, m := range s.Marks {
		ml[i] = vlib.L(vlib.Int(m.G), vlib.Int(m.Cls), vlib.Int(m.X), vlib.Int(m.Y))
	}
	ll := make(vlib.List, len(s.Ligs))
	for i, lg := range s.Ligs {
		cl := make(vlib.List, len(lg.Comps))
		for j, row := range lg.Comps {
			rl := make(vlib.List, len(row))
			for k, a := range row {
				rl[k] = anchorSx(a)
			}
			cl[j] = rl
		}
		ll[i] = vlib.L(vlib.Int(lg.G), cl)
	}
	return vlib.L(ml, ll)
}

func (lk *Lookup2) sx() vlib.Sx {
	switch lk.Kind {
	case "cur":
		l := make(vlib.List, len(lk.CSubs))
		for i, s := range lk.CSubs {
			l[i] = s.sx()
		}
		return vlib.L(vlib.Atom("cur"), vlib.Int(lk.Flags), vlib.Int(lk.MFS), l)
	case "mlig":
		l := make(vlib.List, len(lk.MSubs))
		for i := range lk.MSubs {
			l[i] = lk.MSubs[i].sx()
		}
		return vlib.L(vlib.Atom("mlig"), vlib.Int(lk.Flags), vlib.Int(lk.MFS), l)
	}
	return vlib.L(vlib.Atom("old"), vlib.Int(lk.Flags), vlib.Int(lk.MFS), oldSubsSx(lk.Flags, lk.MFS, lk.Old))
}

// Line renders the case line given to the model.
func (c *Case) Line() string {
	ll := make(vlib.List, len(c.LL))
	for i := range c.LL {
		ll[i] = c.LL[i].sx()
	}
	sl := make(vlib.List, len(c.Seqs))
	for i, s := range c.Seqs {
		sl[i] = vlib.L(glyphsSx(s.Glyphs), ints(s.Comps))
	}
	return vlib.Line(gdefSx(c.Gdef), ll, ints(c.Order), sl)
}

// ---- parsing (corpus and replay lines) ----

type perr struct{ msg string }

func bad(format string, a ...any) { panic(perr{fmt.Sprintf(format, a...)}) }

func pl(x vlib.Sx) []vlib.Sx {
	l, err := vlib.AsList(x)
	if err != nil {
		bad("list expected: %s", vlib.Str(x))
	}
	return l
}
func pi(x vlib.Sx) int {
	v, err := vlib.AsInt(x)
	if err != nil {
		bad("int expected: %s", vlib.Str(x))
	}
	return v
}
func pints(x vlib.Sx) []int {
	l := pl(x)
	out := make([]int, len(l))
	for i, y := range l {
		out[i] = pi(y)
	}
	return out
}
func panchor(x vlib.Sx) Anchor {
	if a, ok := x.(vlib.Atom); ok {
		if a != "none" {
			bad("bad anchor %s", string(a))
		}
		return nil
	}
	xy := pints(x)
	if len(xy) != 2 {
		bad("bad anchor")
	}
	return &[2]int{xy[0], xy[1]}
}

func pcsub(x vlib.Sx) CSub {
	s := CSub{}
	for _, e := range pl(x) {
		q := pl(e)
		if len(q) != 3 {
			bad("bad entry/exit record")
		}
		s = append(s, CEntry{pi(q[0]), panchor(q[1]), panchor(q[2])})
	}
	return s
}

func pmsub(x vlib.Sx) MSub {
	p := pl(x)
	if len(p) != 2 {
		bad("bad mark-to-ligature subtable")
	}
	s := MSub{}
	for _, e := range pl(p[0]) {
		q := pints(e)
		if len(q) != 4 {
			bad("bad mark record")
		}
		s.Marks = append(s.Marks, MarkRec{G: q[0], Cls: q[1], X: q[2], Y: q[3]})
	}
	for _, e := range pl(p[1]) {
		q := pl(e)
		if len(q) != 2 {
			bad("bad ligature record")
		}
		lg := LigRec{G: pi(q[0]), Comps: [][]Anchor{}}
		for _, c := range pl(q[1]) {
			row := []Anchor{}
			for _, a := range pl(c) {
				row = append(row, panchor(a))
			}
			lg.Comps = append(lg.Comps, row)
		}
		s.Ligs = append(s.Ligs, lg)
	}
	return s
}

// C06's lookups are parsed by c06.ParseCase on a C06 case line built around them.
func parseOld(gdefItem vlib.Sx, flags, mfs int, subs vlib.Sx) (*Gdef, []c06.Sub) {
	line := vlib.Line(gdefItem, vlib.L(vlib.L(vlib.Int(flags), vlib.Int(mfs), subs)), vlib.L(), vlib.L())
	c, err := c06.ParseCase(line)
	if err != nil {
		bad("%v", err)
	}
	return c.Gdef, c.LL[0].Subs
}

// ParseCase parses a case line.
func ParseCase(line string) (c *Case, err error) {
	defer func() {
		if e := recover(); e != nil {
			if pe, ok := e.(perr); ok {
				c, err = nil, fmt.Errorf("C06B case: %s", pe.msg)
				return
			}
			panic(e)
		}
	}()
	if len(line) > 0 && line[0] == '!' {
		line = line[1:]
	}
	items, err := vlib.Parse(line)
	if err != nil {
		return nil, err
	}
	if len(items) != 4 {
		return nil, fmt.Errorf("C06B case: want 4 items, got %d", len(items))
	}
	c = &Case{}
	c.Gdef, _ = parseOld(items[0], 0, 0, vlib.L())
	for _, x := range pl(items[1]) {
		p := pl(x)
		if len(p) != 4 {
			bad("bad lookup")
		}
		kind, e := vlib.AsAtom(p[0])
		if e != nil {
			bad("lookup kind expected")
		}
		lk := Lookup2{Kind: kind, Flags: pi(p[1]), MFS: pi(p[2])}
		switch kind {
		case "old":
			_, lk.Old = parseOld(items[0], lk.Flags, lk.MFS, p[3])
		case "cur":
			for _, y := range pl(p[3]) {
				lk.CSubs = append(lk.CSubs, pcsub(y))
			}
		case "mlig":
			for _, y := range pl(p[3]) {
				lk.MSubs = append(lk.MSubs, pmsub(y))
			}
		default:
			bad("unknown lookup kind %s", kind)
		}
		c.LL = append(c.LL, lk)
	}
	c.Order = pints(items[2])
	for _, x := range pl(items[3]) {
		p := pl(x)
		if len(p) != 2 {
			bad("bad sequence")
		}
		var s Seq
		for _, y := range pl(p[0]) {
			q := pl(y)
			if len(q) != 5 {
				bad("bad glyph")
			}
			s.Glyphs = append(s.Glyphs, Glyph{GID: pi(q[0]), Text: pints(q[1]), X: pi(q[2]), Y: pi(q[3]), Adv: pi(q[4])})
		}
		s.Comps = pints(p[1])
		if len(s.Comps) == 0 {
			s.Comps = nil
		}
		c.Seqs = append(c.Seqs, s)
	}
	return c, nil
}
