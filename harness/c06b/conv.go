package c06b

// Abstract description -> the library's structures.  The conversion of C06's
// subtables repeats harness/c06/gtabconv.go (Sub.toGtab is not exported; the
// same is done in harness/c15b/conv.go); GPOS 3.1 and 5.1 are new here.

import (
	"seehuhn.de/go/postscript/funit"

	"seehuhn.de/go/sfnt/glyph"
	"seehuhn.de/go/sfnt/opentype/anchor"
	"seehuhn.de/go/sfnt/opentype/classdef"
	"seehuhn.de/go/sfnt/opentype/coverage"
	"seehuhn.de/go/sfnt/opentype/gdef"
	"seehuhn.de/go/sfnt/opentype/gtab"
	"seehuhn.de/go/sfnt/opentype/markarray"
	"seehuhn.de/go/sfnt/verifharness/c06"
)

func gids(xs []int) []glyph.ID {
	out := make([]glyph.ID, len(xs))
	for i, x := range xs {
		out[i] = glyph.ID(x)
	}
	return out
}

func u16s(xs []int) []uint16 {
	out := make([]uint16, len(xs))
	for i, x := range xs {
		out[i] = uint16(x)
	}
	return out
}

func covSet(xs []int) coverage.Set {
	s := coverage.Set{}
	for _, x := range xs {
		s[glyph.ID(x)] = true
	}
	return s
}

func covSets(xs [][]int) []coverage.Set {
	out := make([]coverage.Set, len(xs))
	for i, x := range xs {
		out[i] = covSet(x)
	}
	return out
}

func covTable(xs []int) coverage.Table {
	t := coverage.Table{}
	for i, x := range xs {
		t[glyph.ID(x)] = i
	}
	return t
}

func classDef(xs [][2]int) classdef.Table {
	t := classdef.Table{}
	for _, x := range xs {
		t[glyph.ID(x[0])] = uint16(x[1])
	}
	return t
}

func seqLookups(as []c06.Action) []gtab.SeqLookup {
	out := make([]gtab.SeqLookup, len(as))
	for i, a := range as {
		out[i] = gtab.SeqLookup{SequenceIndex: uint16(a.Seq), LookupListIndex: gtab.LookupIndex(a.Lookup)}
	}
	return out
}

func valueRecord(v c06.VRec) *gtab.GposValueRecord {
	r := &gtab.GposValueRecord{
		XPlacement: funit.Int16(v.X),
		YPlacement: funit.Int16(v.Y),
		XAdvance:   funit.Int16(v.A),
	}
	if v.Bad {
		r.YAdvance = 1
	}
	return r
}

func valueRecordOrNil(v c06.VRec) *gtab.GposValueRecord {
	if v == (c06.VRec{}) {
		return nil
	}
	return valueRecord(v)
}

func pairAdjust(c c06.PairCell) *gtab.PairAdjust {
	pa := &gtab.PairAdjust{First: valueRecord(c.V1)}
	if c.V2 != nil {
		pa.Second = valueRecord(*c.V2)
	}
	return pa
}

func oldSubToGtab(s *c06.Sub) gtab.Subtable {
	switch s.Kind {
	case "s1":
		return &gtab.Gsub1_1{Cov: covSet(s.Cov), Delta: glyph.ID(s.Delta)}
	case "s2":
		var keys, vals []int
		for _, e := range s.Map {
			keys = append(keys, e[0])
			vals = append(vals, e[1])
		}
		return &gtab.Gsub1_2{Cov: covTable(keys), SubstituteGlyphIDs: gids(vals)}
	case "mul", "alt":
		var keys []int
		var repl [][]glyph.ID
		for _, e := range s.KVs {
			keys = append(keys, e.G)
			repl = append(repl, gids(e.Vals))
		}
		if s.Kind == "mul" {
			return &gtab.Gsub2_1{Cov: covTable(keys), Repl: repl}
		}
		return &gtab.Gsub3_1{Cov: covTable(keys), Alternates: repl}
	case "lig":
		var keys []int
		var repl [][]gtab.Ligature
		for _, e := range s.LigSets {
			keys = append(keys, e.G)
			var ls []gtab.Ligature
			for _, l := range e.Ligs {
				ls = append(ls, gtab.Ligature{In: gids(l.Comps), Out: glyph.ID(l.Out)})
			}
			repl = append(repl, ls)
		}
		return &gtab.Gsub4_1{Cov: covTable(keys), Repl: repl}
	case "c1":
		var keys []int
		var rules [][]*gtab.SeqRule
		for _, e := range s.CSets {
			keys = append(keys, e.G)
			var rs []*gtab.SeqRule
			for _, r := range e.Rules {
				rs = append(rs, &gtab.SeqRule{Input: gids(r.In), Actions: seqLookups(r.Acts)})
			}
			rules = append(rules, rs)
		}
		return &gtab.SeqContext1{Cov: covTable(keys), Rules: rules}
	case "c2":
		var rules [][]*gtab.ClassSeqRule
		for _, e := range s.CRules {
			var rs []*gtab.ClassSeqRule
			for _, r := range e {
				rs = append(rs, &gtab.ClassSeqRule{Input: u16s(r.In), Actions: seqLookups(r.Acts)})
			}
			rules = append(rules, rs)
		}
		return &gtab.SeqContext2{Cov: covTable(s.Cov), Input: classDef(s.CD), Rules: rules}
	case "c3":
		return &gtab.SeqContext3{Input: covSets(s.Covs), Actions: seqLookups(s.Acts)}
	case "k1":
		var keys []int
		var rules [][]*gtab.ChainedSeqRule
		for _, e := range s.KSets {
			keys = append(keys, e.G)
			var rs []*gtab.ChainedSeqRule
			for _, r := range e.Rules {
				rs = append(rs, &gtab.ChainedSeqRule{Backtrack: gids(r.Back), Input: gids(r.In),
					Lookahead: gids(r.Look), Actions: seqLookups(r.Acts)})
			}
			rules = append(rules, rs)
		}
		return &gtab.ChainedSeqContext1{Cov: covTable(keys), Rules: rules}
	case "k2":
		var rules [][]*gtab.ChainedClassSeqRule
		for _, e := range s.KRules {
			var rs []*gtab.ChainedClassSeqRule
			for _, r := range e {
				rs = append(rs, &gtab.ChainedClassSeqRule{Backtrack: u16s(r.Back), Input: u16s(r.In),
					Lookahead: u16s(r.Look), Actions: seqLookups(r.Acts)})
			}
			rules = append(rules, rs)
		}
		return &gtab.ChainedSeqContext2{Cov: covTable(s.Cov), Backtrack: classDef(s.CD),
			Input: classDef(s.CD2), Lookahead: classDef(s.CD3), Rules: rules}
	case "k3":
		return &gtab.ChainedSeqContext3{Backtrack: covSets(s.Covs), Input: covSets(s.Covs2),
			Lookahead: covSets(s.Covs3), Actions: seqLookups(s.Acts)}
	case "p1":
		// an all-zero record is handed over as a NIL value record (value format
		// 0 in the file): the covered glyph still MATCHES the subtable, nothing
		// is added - the same meaning, the form font files use
		return &gtab.Gpos1_1{Cov: covTable(s.Cov), Adjust: valueRecordOrNil(s.V)}
	case "p2":
		var keys []int
		var adj []*gtab.GposValueRecord
		for _, e := range s.GVs {
			keys = append(keys, e.G)
			adj = append(adj, valueRecordOrNil(e.V))
		}
		return &gtab.Gpos1_2{Cov: covTable(keys), Adjust: adj}
	case "pp1":
		t := gtab.Gpos2_1{}
		for _, r := range s.PairRows {
			for _, e := range r.Ents {
				t[glyph.Pair{Left: glyph.ID(r.G), Right: glyph.ID(e.G2)}] = pairAdjust(e.PairCell)
			}
		}
		return t
	case "pp2":
		var adj [][]*gtab.PairAdjust
		for _, r := range s.PairMat {
			var row []*gtab.PairAdjust
			for _, c := range r {
				row = append(row, pairAdjust(c))
			}
			adj = append(adj, row)
		}
		return &gtab.Gpos2_2{Cov: covSet(s.Cov), Class1: classDef(s.CD), Class2: classDef(s.CD2), Adjust: adj}
	case "r8":
		var keys, vals []int
		for _, e := range s.Map {
			keys = append(keys, e[0])
			vals = append(vals, e[1])
		}
		back := make([]coverage.Table, len(s.Covs))
		for i, c := range s.Covs {
			back[i] = covTable(c)
		}
		look := make([]coverage.Table, len(s.Covs3))
		for i, c := range s.Covs3 {
			look[i] = covTable(c)
		}
		return &gtab.Gsub8_1{Input: covTable(keys), Backtrack: back, Lookahead: look, SubstituteGlyphIDs: gids(vals)}
	case "mb", "mm":
		var mk, bk []int
		var marr []markarray.Record
		for _, m := range s.Marks {
			mk = append(mk, m.G)
			marr = append(marr, markarray.Record{Class: uint16(m.Cls),
				Table: anchor.Table{X: funit.Int16(m.X), Y: funit.Int16(m.Y)}})
		}
		var barr [][]anchor.Table
		for _, b := range s.Bases {
			bk = append(bk, b.G)
			var row []anchor.Table
			for _, a := range b.Anchors {
				if a == nil {
					row = append(row, anchor.Table{})
				} else {
					row = append(row, anchor.Table{X: funit.Int16(a[0]), Y: funit.Int16(a[1])})
				}
			}
			barr = append(barr, row)
		}
		if s.Kind == "mm" {
			return &gtab.Gpos6_1{Mark1Cov: covTable(mk), Mark2Cov: covTable(bk), Mark1Array: marr, Mark2Array: barr}
		}
		return &gtab.Gpos4_1{MarkCov: covTable(mk), BaseCov: covTable(bk), MarkArray: marr, BaseArray: barr}
	}
	return nil
}

func anchorTable(a Anchor) anchor.Table {
	if a == nil {
		return anchor.Table{} // NULL offset
	}
	return anchor.Table{X: funit.Int16(a[0]), Y: funit.Int16(a[1])}
}

func (s CSub) toGtab() gtab.Subtable {
	var keys []int
	var recs []gtab.EntryExitRecord
	for _, e := range s {
		keys = append(keys, e.G)
		recs = append(recs, gtab.EntryExitRecord{Entry: anchorTable(e.Entry), Exit: anchorTable(e.Exit)})
	}
	return &gtab.Gpos3_1{Cov: covTable(keys), Records: recs}
}

func (s *MSub) toGtab() gtab.Subtable {
	var mk, lk []int
	var marr []markarray.Record
	for _, m := range s.Marks {
		mk = append(mk, m.G)
		marr = append(marr, markarray.Record{Class: uint16(m.Cls),
			Table: anchor.Table{X: funit.Int16(m.X), Y: funit.Int16(m.Y)}})
	}
	var larr [][][]anchor.Table
	for _, lg := range s.Ligs {
		lk = append(lk, lg.G)
		var comps [][]anchor.Table
		for _, row := range lg.Comps {
			var r []anchor.Table
			for _, a := range row {
				r = append(r, anchorTable(a))
			}
			comps = append(comps, r)
		}
		larr = append(larr, comps)
	}
	return &gtab.Gpos5_1{MarkCov: covTable(mk), LigCov: covTable(lk), MarkArray: marr, LigArray: larr}
}

// toGtab builds the library's lookup list; ok is false when the description
// contains a subtable the harness cannot build.
func toGtab(ll []Lookup2) (out gtab.LookupList, ok bool) {
	ok = true
	for i := range ll {
		lt := &gtab.LookupTable{Meta: &gtab.LookupMetaInfo{
			LookupFlags:      gtab.LookupFlags(ll[i].Flags),
			MarkFilteringSet: uint16(ll[i].MFS),
		}}
		switch ll[i].Kind {
		case "cur":
			lt.Meta.LookupType = 3
			for _, s := range ll[i].CSubs {
				lt.Subtables = append(lt.Subtables, s.toGtab())
			}
		case "mlig":
			lt.Meta.LookupType = 5
			for j := range ll[i].MSubs {
				lt.Subtables = append(lt.Subtables, ll[i].MSubs[j].toGtab())
			}
		default:
			for j := range ll[i].Old {
				st := oldSubToGtab(&ll[i].Old[j])
				if st == nil {
					ok = false
					continue
				}
				lt.Subtables = append(lt.Subtables, st)
			}
		}
		out = append(out, lt)
	}
	return out, ok
}

func gdefToGtab(g *Gdef) *gdef.Table {
	if g == nil {
		return nil
	}
	t := &gdef.Table{GlyphClass: classDef(g.Class)}
	if len(g.Attach) > 0 {
		t.MarkAttachClass = classDef(g.Attach)
	}
	if len(g.Sets) > 0 {
		t.MarkGlyphSets = covSets(g.Sets)
	}
	return t
}

// sentinel runes behind the shared text array
const sentinel = 0x7A7A7A

// toInfo: every glyph's Text is a sub-slice of ONE shared rune array (a
// caller splitting one rune slice into per-glyph pieces), with spare capacity
// holding sentinel runes behind it; the glyph slice itself is a sub-slice of
// a larger array with sentinel glyphs in front and behind.
func toInfo(seq []Glyph) (info []glyph.Info, shared []rune, frame []glyph.Info) {
	total := 0
	for _, g := range seq {
		total += len(g.Text)
	}
	shared = make([]rune, 0, total+2)
	frame = make([]glyph.Info, len(seq)+2)
	frame[0] = glyph.Info{GID: 0xFFFF, Advance: -1}
	frame[len(seq)+1] = glyph.Info{GID: 0xFFFE, Advance: -2}
	info = frame[1 : 1+len(seq) : 1+len(seq)]
	for i, g := range seq {
		info[i].GID = glyph.ID(g.GID)
		if len(g.Text) > 0 {
			a := len(shared)
			for _, r := range g.Text {
				shared = append(shared, rune(r))
			}
			info[i].Text = shared[a:len(shared)]
		}
		info[i].XOffset = funit.Int16(g.X)
		info[i].YOffset = funit.Int16(g.Y)
		info[i].Advance = funit.Int16(g.Adv)
	}
	full := shared[:cap(shared)]
	for i := len(shared); i < len(full); i++ {
		full[i] = sentinel
	}
	return info, shared, frame
}

func fromInfo(seq []glyph.Info) []Glyph {
	out := make([]Glyph, len(seq))
	for i, g := range seq {
		out[i].GID = int(g.GID)
		for _, r := range g.Text {
			out[i].Text = append(out[i].Text, int(r))
		}
		out[i].X, out[i].Y, out[i].Adv = int(g.XOffset), int(g.YOffset), int(g.Advance)
	}
	return out
}
