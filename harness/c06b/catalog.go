package c06b

import (
	"fmt"

	"seehuhn.de/go/sfnt/verifharness/c06"
	"seehuhn.de/go/sfnt/verifharness/vlib"
)

// glyph alphabet of the generated cases (the numbers of C06's alphabet, more
// ligature glyphs)
const (
	gA = 1  // no GDEF class; cursive: entry and exit
	gB = 2  // base; cursive: entry and exit
	gL = 3  // ligature, 2 components; cursive: entry only (final form)
	gM = 4  // mark, attachment class 1, mark sets 0 and 2; mark class 0
	gN = 5  // mark, attachment class 2, mark sets 1 and 2; mark class 1
	gX = 6  // no class; cursive: exit only (initial form)
	gY = 7  // no class, in no subtable
	gZ = 8  // mark, attachment class 1, both mark sets; mark class 0
	gW = 9  // ligature, 4 components
	gV = 10 // ligature, 1 component
	gU = 11 // ligature, 3 components
)

func fullGdef() *Gdef {
	return &Gdef{
		Class:  [][2]int{{gB, 1}, {gL, 2}, {gM, 3}, {gN, 3}, {gZ, 3}, {gW, 2}, {gV, 2}, {gU, 2}},
		Attach: [][2]int{{gM, 1}, {gN, 2}, {gZ, 1}},
		Sets:   [][]int{{gM, gZ}, {gN, gZ}, {gM, gN}},
	}
}

func isMarkGid(g int) bool { return g == gM || g == gN || g == gZ }

func mkGlyphs(gids []int) []Glyph {
	out := make([]Glyph, len(gids))
	for i, g := range gids {
		out[i] = Glyph{GID: g, Text: []int{100 + i}}
		if !isMarkGid(g) {
			out[i].Adv = 500 + 10*g
		}
	}
	return out
}

// allGids enumerates every glyph-id sequence over the alphabet of length 0..n.
func allGids(alphabet []int, n int) [][]int {
	var out [][]int
	var rec func(prefix []int)
	rec = func(prefix []int) {
		out = append(out, append([]int(nil), prefix...))
		if len(prefix) == n {
			return
		}
		for _, g := range alphabet {
			rec(append(append([]int(nil), prefix...), g))
		}
	}
	rec(nil)
	return out
}

func plainSeqs(alphabet []int, n int) []Seq {
	var out []Seq
	for _, gs := range allGids(alphabet, n) {
		out = append(out, Seq{Glyphs: mkGlyphs(gs)})
	}
	return out
}

// assocSeqs: every sequence with several component associations: none; every
// mark on component 1; components counted up mark by mark behind each
// non-mark glyph (marks "between" the components: 1, 2, 3, ...); one beyond
// any component count.
func assocSeqs(alphabet []int, n int) []Seq {
	var out []Seq
	for _, gs := range allGids(alphabet, n) {
		glyphs := mkGlyphs(gs)
		out = append(out, Seq{Glyphs: glyphs})
		nm := 0
		for _, g := range gs {
			if isMarkGid(g) {
				nm++
			}
		}
		if nm == 0 {
			continue
		}
		one := make([]int, len(gs))
		cnt := make([]int, len(gs))
		far := make([]int, len(gs))
		k := 0
		for i, g := range gs {
			if isMarkGid(g) {
				k++
				one[i], cnt[i], far[i] = 1, k, 9
			} else {
				k = 0
			}
		}
		out = append(out, Seq{Glyphs: glyphs, Comps: cnt})
		if nm == 1 {
			out = append(out, Seq{Glyphs: glyphs, Comps: one}, Seq{Glyphs: glyphs, Comps: far})
		}
	}
	return out
}

type flagVar struct {
	name       string
	flags, mfs int
	marksets   bool
}

var flagVars = []flagVar{
	{"none", 0, 0, false},
	{"base", flagBase, 0, false},
	{"lig", flagLig, 0, false},
	{"marks", flagMarks, 0, false},
	{"lig+marks", flagLig | flagMarks, 0, false},
	{"base+lig+marks", flagBase | flagLig | flagMarks, 0, false},
	{"mfs0", flagMFS, 0, true},
	{"mfs1", flagMFS, 1, true},
	{"mfs2", flagMFS, 2, true},
	{"att1", 1 << 8, 0, true},
	{"att2", 2 << 8, 0, true},
	{"marks+mfs1", flagMarks | flagMFS, 1, true},
	{"mfs0+att2", flagMFS | 2<<8, 0, true},
	{"base+att2", flagBase | 2<<8, 0, true},
}

type entry struct {
	gd     *Gdef
	ll     []Lookup2
	order  []int
	seqs   func(n int) []Seq
	lenAdj int
	labels []string
	ext    bool // quick tier: a seed-dependent third
}

// ---- building blocks ----

func an(x, y int) Anchor { return &[2]int{x, y} }

// entry and exit on A, B and on the mark M; X has no entry (initial form),
// L no exit (final form)
func curA() CSub {
	return CSub{
		{gA, an(10, 20), an(500, 60)},
		{gB, an(0, -30), an(480, 100)},
		{gX, nil, an(300, 40)},
		{gL, an(20, -10), nil},
		{gM, an(5, 5), an(7, 9)},
	}
}

// overlapping coverage in front of curA: A with other anchors, N only here
func curB() CSub {
	return CSub{
		{gA, an(1, 2), an(3, 4)},
		{gN, an(-8, 8), an(8, -8)},
	}
}

// every anchor on one height: RIGHT_TO_LEFT makes no difference
func curLevel() CSub {
	return CSub{
		{gA, an(10, 50), an(500, 50)},
		{gB, an(-5, 50), an(480, 50)},
		{gL, an(20, 50), an(610, 50)},
		{gM, an(5, 50), an(7, 50)},
	}
}

func row(as ...Anchor) []Anchor { return as }

// ligatures with 1, 2, 3 and 4 components, two mark classes, NULL anchors
func mligA() MSub {
	return MSub{
		Marks: []MarkRec{{G: gM, Cls: 0, X: 40, Y: 10}, {G: gN, Cls: 1, X: 10, Y: -10}, {G: gZ, Cls: 0, X: 7, Y: 7}},
		Ligs: []LigRec{
			{gV, [][]Anchor{row(an(250, 700), an(240, -80))}},
			{gL, [][]Anchor{row(an(150, 710), nil), row(an(450, 720), an(440, -90))}},
			{gU, [][]Anchor{row(an(100, 700), an(110, -70)), row(nil, nil), row(an(500, 705), nil)}},
			{gW, [][]Anchor{row(an(80, 690), an(85, -60)), row(an(230, 691), an(235, -61)),
				row(an(380, 692), nil), row(an(530, 693), an(535, -63))}},
		},
	}
}

// an earlier subtable covering M with another class layout and only L
func mligB() MSub {
	return MSub{
		Marks: []MarkRec{{G: gM, Cls: 1, X: 1, Y: 2}},
		Ligs:  []LigRec{{gL, [][]Anchor{row(nil, an(11, 12)), row(nil, nil)}}},
	}
}

// every anchor NULL: the rule never attaches (inside the engine's domain)
func mligNull() MSub {
	return MSub{
		Marks: []MarkRec{{G: gM, Cls: 0, X: 40, Y: 10}, {G: gN, Cls: 1, X: 10, Y: -10}},
		Ligs:  []LigRec{{gL, [][]Anchor{row(nil, nil), row(nil, nil)}}, {gV, [][]Anchor{row(nil, nil)}}},
	}
}

func cur(f flagVar, rtl bool, subs ...CSub) Lookup2 {
	fl := f.flags
	if rtl {
		fl |= flagRTL
	}
	return Lookup2{Kind: "cur", Flags: fl, MFS: f.mfs, CSubs: subs}
}
func mlig(f flagVar, subs ...MSub) Lookup2 {
	return Lookup2{Kind: "mlig", Flags: f.flags, MFS: f.mfs, MSubs: subs}
}
func old(flags, mfs int, subs ...c06.Sub) Lookup2 {
	return Lookup2{Kind: "old", Flags: flags, MFS: mfs, Old: subs}
}

func vr(x, y, a int) c06.VRec { return c06.VRec{X: x, Y: y, A: a} }

func oldLig() c06.Sub { // A A -> L, A A A -> U, L A -> U
	return c06.Sub{Kind: "lig", LigSets: []c06.LigSet{
		{G: gA, Ligs: []c06.Lig{{Comps: []int{gA, gA}, Out: gU}, {Comps: []int{gA}, Out: gL}}},
	}}
}
func oldP1() c06.Sub { return c06.Sub{Kind: "p1", Cov: []int{gA, gM, gL}, V: vr(10, -20, 30)} }
func oldP2() c06.Sub {
	return c06.Sub{Kind: "p2", GVs: []c06.GV{{G: gA, V: vr(0, 33, 0)}, {G: gB, V: vr(4, 0, -4)}, {G: gM, V: vr(0, 5, 0)}}}
}
func oldPP1() c06.Sub {
	v2 := vr(0, 200, 0)
	return c06.Sub{Kind: "pp1", PairRows: []c06.PairRow{
		{G: gA, Ents: []c06.PairEnt{{G2: gA, PairCell: c06.PairCell{V1: vr(0, 0, -200)}}, {G2: gB, PairCell: c06.PairCell{V1: vr(0, 0, -300), V2: &v2}}}},
	}}
}
func oldMB() c06.Sub {
	return c06.Sub{Kind: "mb",
		Marks: []c06.MarkRec{{G: gM, Cls: 0, X: 400, Y: 0}, {G: gN, Cls: 1, X: 10, Y: -10}},
		Bases: []c06.BaseRec{{G: gA, Anchors: []*[2]int{{400, 1000}, {5, 6}}}, {G: gB, Anchors: []*[2]int{nil, {300, 700}}}}}
}
func oldS2() c06.Sub { return c06.Sub{Kind: "s2", Map: [][2]int{{gA, gX}, {gY, gA}}} }
func oldMul() c06.Sub {
	return c06.Sub{Kind: "mul", KVs: []c06.KV{{G: gY, Vals: []int{gA, gM, gA}}}}
}

// contextual positioning (GPOS 7.3 / 8.3 shape) nesting lookup `child` at index 0
func oldCtx3(child int) c06.Sub {
	return c06.Sub{Kind: "c3", Covs: [][]int{{gA, gB}, {gA, gL}}, Acts: []c06.Action{{Seq: 0, Lookup: child}}}
}

func alphaFor(f flagVar, lig int) []int {
	if f.marksets {
		return []int{gA, gM, gN, lig}
	}
	return []int{gA, gM, lig, gB}
}

func catalogue() []entry {
	gd := fullGdef()
	var cat []entry
	addE := func(e entry) { cat = append(cat, e) }

	// (1) cursive attachment alone: every flag combination; RIGHT_TO_LEFT
	// (always outside the domain) on a third of the runs
	for _, f := range flagVars {
		// every glyph of the coverage carries both anchors: inside the domain
		// unless the flags skip a neighbour
		full := []int{gA, gM, gB, gY}
		if f.marksets {
			full = []int{gA, gM, gN, gB}
		}
		addE(entry{gd: gd, ll: []Lookup2{cur(f, false, curA())}, order: []int{0}, lenAdj: 1,
			seqs: func(n int) []Seq { return plainSeqs(full, n) }, labels: []string{"gpos3.1", "flags:" + f.name, "ltr"}})
		for _, rtl := range []bool{false, true} {
			rl := "ltr"
			if rtl {
				rl = "rtl"
			}
			alpha := alphaFor(f, gL)
			addE(entry{gd: gd, ll: []Lookup2{cur(f, rtl, curA())}, order: []int{0},
				seqs: func(n int) []Seq { return plainSeqs(alpha, n) }, labels: []string{"gpos3.1/with-final-form", "flags:" + f.name, rl}, ext: true})
			// initial / final forms and a glyph outside the coverage
			alpha2 := []int{gA, gX, gL, gM, gY}
			addE(entry{gd: gd, ll: []Lookup2{cur(f, rtl, curA())}, order: []int{0}, lenAdj: -1,
				seqs: func(n int) []Seq { return plainSeqs(alpha2, n) }, labels: []string{"gpos3.1/null-anchors", "flags:" + f.name, rl}, ext: true})
			addE(entry{gd: gd, ll: []Lookup2{cur(f, rtl, curB(), curA())}, order: []int{0},
				seqs: func(n int) []Seq { return plainSeqs(full, n) }, labels: []string{"gpos3.1/two-subtables", "flags:" + f.name, rl}, ext: rtl})
		}
		addE(entry{gd: gd, ll: []Lookup2{cur(f, false, curLevel())}, order: []int{0},
			seqs: func(n int) []Seq { return plainSeqs(alphaFor(f, gL), n) }, labels: []string{"gpos3.1/level", "flags:" + f.name}, ext: true})
		// without GDEF nothing is skipped
		addE(entry{gd: nil, ll: []Lookup2{cur(f, false, curA())}, order: []int{0},
			seqs:   func(n int) []Seq { return plainSeqs([]int{gA, gM, gY, gB}, n) },
			labels: []string{"gpos3.1/nogdef", "flags:" + f.name}, ext: true})
	}

	// (2) mark to ligature alone: ligatures with 1..4 components
	for _, f := range flagVars {
		for _, lg := range []int{gV, gL, gU, gW} {
			alpha := alphaFor(f, lg)
			addE(entry{gd: gd, ll: []Lookup2{mlig(f, mligA())}, order: []int{0},
				seqs:   func(n int) []Seq { return assocSeqs(alpha, n) },
				labels: []string{"gpos5.1", fmt.Sprintf("components:%d", map[int]int{gV: 1, gL: 2, gU: 3, gW: 4}[lg]), "flags:" + f.name},
				ext:    true})
		}
		alpha := alphaFor(f, gL)
		addE(entry{gd: gd, ll: []Lookup2{mlig(f, mligB(), mligA())}, order: []int{0},
			seqs: func(n int) []Seq { return assocSeqs(alpha, n) }, labels: []string{"gpos5.1/two-subtables", "flags:" + f.name}, ext: true})
		addE(entry{gd: gd, ll: []Lookup2{mlig(f, mligNull())}, order: []int{0},
			seqs: func(n int) []Seq { return assocSeqs(alpha, n) }, labels: []string{"gpos5.1/null-array", "flags:" + f.name}, ext: true})
	}
	addE(entry{gd: nil, ll: []Lookup2{mlig(flagVars[0], mligA())}, order: []int{0},
		seqs: func(n int) []Seq { return assocSeqs([]int{gA, gM, gL, gW}, n) }, labels: []string{"gpos5.1/nogdef"}})

	// (3) mixed with C06's lookups
	none := flagVars[0]
	marks := flagVars[3]
	type mix struct {
		name  string
		ll    []Lookup2
		order []int
		alpha []int
		assoc bool
	}
	mixes := []mix{
		// the y offset / advance an earlier single adjustment left is REPLACED by the alignment
		{"gpos1.1;gpos3.1", []Lookup2{old(0, 0, oldP1()), cur(none, false, curA())}, []int{0, 1}, []int{gA, gM, gL, gB}, false},
		{"gpos3.1;gpos1.2", []Lookup2{cur(none, false, curA()), old(0, 0, oldP2())}, []int{0, 1}, []int{gA, gM, gL, gB}, false},
		{"gpos1.2;gpos3.1/marks", []Lookup2{old(0, 0, oldP2()), cur(marks, false, curA())}, []int{0, 1}, []int{gA, gM, gL, gB}, false},
		{"gpos3.1;gpos2.1", []Lookup2{cur(none, false, curA()), old(0, 0, oldPP1())}, []int{0, 1}, []int{gA, gM, gL, gB}, false},
		{"gpos3.1;gpos3.1", []Lookup2{cur(none, false, curA()), cur(none, false, curB())}, []int{0, 1, 0}, []int{gA, gM, gN, gB}, false},
		{"gpos3.1-rtl;gpos3.1", []Lookup2{cur(none, true, curLevel()), cur(marks, false, curA())}, []int{0, 1}, []int{gA, gM, gL, gB}, false},
		// ligatures formed by GSUB 4.1 (marks between the components move behind
		// the ligature), then marks attached to the ligature
		{"gsub4.1;gpos5.1", []Lookup2{old(flagMarks, 0, oldLig()), mlig(none, mligA())}, []int{0, 1}, []int{gA, gM, gN, gL}, true},
		{"gsub4.1;gpos4.1;gpos5.1", []Lookup2{old(flagMarks, 0, oldLig()), old(0, 0, oldMB()), mlig(none, mligA())}, []int{0, 1, 2}, []int{gA, gM, gN, gB}, true},
		// the advance cursive attachment sets is what mark attachment subtracts
		{"gpos3.1;gpos5.1", []Lookup2{cur(marks, false, curA()), mlig(none, mligA())}, []int{0, 1}, []int{gA, gM, gL, gB}, true},
		{"gpos5.1;gpos3.1", []Lookup2{cur(marks, false, curA()), mlig(none, mligA())}, []int{1, 0}, []int{gA, gM, gL, gB}, true},
		{"gpos3.1;gpos4.1", []Lookup2{cur(marks, false, curA()), old(0, 0, oldMB())}, []int{0, 1}, []int{gA, gM, gN, gB}, false},
		{"gsub1.2;gsub2.1;gpos3.1", []Lookup2{old(0, 0, oldS2()), old(0, 0, oldMul()), cur(none, false, curA())}, []int{1, 0, 2}, []int{gA, gY, gM, gX}, false},
		// contextual positioning next to the new types; a missing and a repeated index
		{"gpos7.3(gpos1.1);gpos3.1", []Lookup2{old(0, 0, oldP1()), old(flagMarks, 0, oldCtx3(0)), cur(none, false, curA())}, []int{1, 2, 7, 2}, []int{gA, gM, gL, gB}, false},
		// a new lookup as NESTED lookup: outside the reference (static domain)
		{"gpos7.3(gpos3.1)/nested-new", []Lookup2{cur(none, false, curA()), old(0, 0, oldCtx3(0))}, []int{1}, []int{gA, gM, gL, gB}, false},
		{"gpos7.3(gpos5.1)/nested-new", []Lookup2{mlig(none, mligA()), old(0, 0, c06.Sub{Kind: "c3", Covs: [][]int{{gM}}, Acts: []c06.Action{{Seq: 0, Lookup: 0}}})}, []int{1}, []int{gA, gM, gL, gB}, true},
	}
	for _, m := range mixes {
		m := m
		e := entry{gd: gd, ll: m.ll, order: m.order, labels: []string{"mixed", "mixed:" + m.name}}
		if m.assoc {
			e.seqs = func(n int) []Seq { return assocSeqs(m.alpha, n) }
		} else {
			e.seqs = func(n int) []Seq { return plainSeqs(m.alpha, n) }
		}
		addE(e)
	}
	return cat
}

// ---- directed cases (boundaries, chains, static domain) ----

type directedCase struct {
	c      *Case
	labels []string
}

func gl(g, x, y, adv int) Glyph { return Glyph{GID: g, X: x, Y: y, Adv: adv} }

func directed() []directedCase {
	gd := fullGdef()
	none, marks := flagVars[0], flagVars[3]
	var out []directedCase
	addD := func(c *Case, labels ...string) {
		for i := range c.Seqs {
			for j := range c.Seqs[i].Glyphs {
				if c.Seqs[i].Glyphs[j].Text == nil {
					c.Seqs[i].Glyphs[j].Text = []int{200 + j}
				}
			}
		}
		out = append(out, directedCase{c, labels})
	}
	chain := func(n int, step int) []Glyph {
		var s []Glyph
		for i := 0; i < n; i++ {
			s = append(s, gl(gA, 3*i, step*i, 600))
		}
		return s
	}
	// chains of cursive glyphs, both directions, with offsets already present
	for _, rtl := range []bool{false, true} {
		addD(&Case{Gdef: gd, LL: []Lookup2{cur(none, rtl, curA())}, Order: []int{0},
			Seqs: []Seq{{Glyphs: chain(2, 7)}, {Glyphs: chain(5, -11)}, {Glyphs: chain(12, 100)}, {Glyphs: chain(40, 1)}}},
			"chain", fmt.Sprintf("rtl:%v", rtl))
		// marks between the cursive glyphs, ignored: the rule joins across them
		addD(&Case{Gdef: gd, LL: []Lookup2{cur(marks, rtl, curA())}, Order: []int{0},
			Seqs: []Seq{{Glyphs: []Glyph{gl(gA, 0, 0, 600), gl(gM, 0, 0, 0), gl(gA, 0, 0, 600)}},
				{Glyphs: []Glyph{gl(gA, 0, 0, 600), gl(gM, 0, 0, 25), gl(gN, 0, 0, -5), gl(gB, 2, 3, 600), gl(gM, 0, 0, 0)}},
				{Glyphs: []Glyph{gl(gM, 0, 0, 0), gl(gA, 0, 0, 600), gl(gB, 0, 0, 600), gl(gM, 0, 0, 0)}}}},
			"chain/ignored-marks-between", fmt.Sprintf("rtl:%v", rtl))
	}
	// final form followed by initial form: no anchor pair, nothing moves
	addD(&Case{Gdef: gd, LL: []Lookup2{cur(none, false, curA())}, Order: []int{0},
		Seqs: []Seq{{Glyphs: []Glyph{gl(gL, 0, 0, 600), gl(gX, 0, 30, 700)}},
			{Glyphs: []Glyph{gl(gX, 0, 0, 700), gl(gL, 0, 0, 600)}},
			{Glyphs: []Glyph{gl(gX, 0, 0, 700), gl(gA, 0, 0, 600), gl(gL, 0, 0, 600), gl(gX, 0, 0, 700)}}}},
		"missing-entry-exit")
	// int16 boundaries of anchors and offsets; the accumulated offset leaves int16
	big := CSub{{gA, an(-32768, 32767), an(32767, -32768)}, {gB, an(1, 30000), an(2, -30000)}}
	addD(&Case{Gdef: gd, LL: []Lookup2{cur(none, false, big)}, Order: []int{0},
		Seqs: []Seq{{Glyphs: []Glyph{gl(gA, 0, 0, 600), gl(gA, 0, 0, 600)}},
			{Glyphs: []Glyph{gl(gB, 0, 0, 600), gl(gB, 0, 0, 600)}},
			{Glyphs: []Glyph{gl(gB, -32768, 32767, 32767), gl(gB, 32767, -32768, -32768)}},
			{Glyphs: []Glyph{gl(gB, 0, 0, 1), gl(gB, 0, 0, 2), gl(gB, 0, 0, 3)}}}},
		"int16-boundary")
	// static domain: duplicate coverage entry, anchor at the origin, mark
	// filtering set out of range, attachment type 255
	addD(&Case{Gdef: gd, LL: []Lookup2{cur(none, false, CSub{{gA, an(1, 1), an(2, 2)}, {gA, an(3, 3), an(4, 4)}})}, Order: []int{0},
		Seqs: []Seq{{Glyphs: chain(3, 0)}}}, "static/duplicate-coverage")
	addD(&Case{Gdef: gd, LL: []Lookup2{cur(none, false, CSub{{gA, an(0, 0), an(2, 2)}})}, Order: []int{0},
		Seqs: []Seq{{Glyphs: chain(3, 0)}}}, "static/origin-anchor")
	addD(&Case{Gdef: gd, LL: []Lookup2{cur(flagVar{"mfs9", flagMFS, 9, true}, false, curA())}, Order: []int{0},
		Seqs: []Seq{{Glyphs: chain(3, 0)}}}, "static/mfs-out-of-range")
	addD(&Case{Gdef: gd, LL: []Lookup2{cur(flagVar{"att255", 255 << 8, 0, true}, false, curA()), mlig(flagVar{"att255", 255 << 8, 0, true}, mligA())}, Order: []int{0, 1},
		Seqs: []Seq{{Glyphs: []Glyph{gl(gA, 0, 0, 600), gl(gM, 0, 0, 0), gl(gA, 0, 0, 600), gl(gL, 0, 0, 600), gl(gM, 0, 0, 0)}}}}, "attach-type-255")
	// mark to ligature: marks before, between (association) and after; a base
	// between ligature and mark blocks; class column missing (static)
	lm := func(comps []int, gs ...int) Seq { return Seq{Glyphs: mkGlyphs(gs), Comps: comps} }
	addD(&Case{Gdef: gd, LL: []Lookup2{mlig(none, mligA())}, Order: []int{0},
		Seqs: []Seq{
			lm(nil, gM, gW, gM, gN, gM, gZ),
			lm([]int{0, 0, 1, 2, 3, 4}, gM, gW, gM, gN, gM, gZ),
			lm([]int{0, 0, 4, 4, 1, 1}, gM, gW, gM, gN, gM, gZ),
			lm([]int{0, 1, 2, 3}, gU, gM, gM, gM),
			lm([]int{0, 2, 0, 2}, gU, gN, gB, gN),
			lm([]int{0, 1, 0, 0, 1}, gL, gN, gA, gL, gN),
			lm([]int{1, 1}, gM, gM),
			lm([]int{3}, gW, gM), // association of another length: ignored
		}}, "gpos5.1/before-between-after")
	addD(&Case{Gdef: gd, LL: []Lookup2{mlig(none, MSub{Marks: []MarkRec{{G: gM, Cls: 2, X: 1, Y: 1}},
		Ligs: []LigRec{{gL, [][]Anchor{row(an(1, 2), an(3, 4))}}}})}, Order: []int{0},
		Seqs: []Seq{lm(nil, gL, gM)}}, "static/class-column-missing")
	addD(&Case{Gdef: gd, LL: []Lookup2{mlig(none, MSub{Marks: []MarkRec{{G: gM, Cls: 0, X: 1, Y: 1}},
		Ligs: []LigRec{{gL, [][]Anchor{}}}})}, Order: []int{0},
		Seqs: []Seq{lm(nil, gL, gM)}}, "gpos5.1/ligature-without-components")
	// more than 1024 glyphs: outside the domain of the correspondence (C06's size cap)
	long := make([]int, 1030)
	for i := range long {
		long[i] = gA
	}
	addD(&Case{Gdef: gd, LL: []Lookup2{cur(none, false, curA())}, Order: []int{0}, Seqs: []Seq{{Glyphs: mkGlyphs(long)}}}, "size-cap")
	addD(&Case{Gdef: gd, LL: []Lookup2{cur(none, true, curLevel())}, Order: []int{0}, Seqs: []Seq{{Glyphs: mkGlyphs(long)}}}, "size-cap")
	return out
}

// ---- random cases ----

func randAnchor(r *vlib.Rand, nullOK bool) Anchor {
	if nullOK && r.Chance(1, 5) {
		return nil
	}
	x, y := r.Range(-600, 900), r.Range(-400, 900)
	if x == 0 && y == 0 {
		x = 1
	}
	if r.Chance(1, 40) {
		x, y = vlib.Pick(r, []int{-32768, 32767, 1, -1}), vlib.Pick(r, []int{-32768, 32767, 255, 256})
	}
	return an(x, y)
}

func randSubset(r *vlib.Rand, alphabet []int) []int {
	var out []int
	for _, g := range alphabet {
		if r.Chance(3, 5) {
			out = append(out, g)
		}
	}
	if len(out) == 0 {
		out = append(out, vlib.Pick(r, alphabet))
	}
	return out
}

func randCSub(r *vlib.Rand, alphabet []int) CSub {
	var s CSub
	for _, g := range randSubset(r, alphabet) {
		s = append(s, CEntry{g, randAnchor(r, true), randAnchor(r, true)})
	}
	return s
}

func randMSub(r *vlib.Rand, alphabet []int) MSub {
	nc := r.Range(1, 3)
	var s MSub
	for _, g := range randSubset(r, []int{gM, gN, gZ}) {
		s.Marks = append(s.Marks, MarkRec{G: g, Cls: r.Intn(nc), X: r.Range(-300, 300), Y: r.Range(-300, 300)})
	}
	for _, g := range randSubset(r, alphabet) {
		lg := LigRec{G: g, Comps: [][]Anchor{}}
		for k := r.Range(1, 4); k > 0; k-- {
			var rw []Anchor
			for c := 0; c < nc; c++ {
				rw = append(rw, randAnchor(r, true))
			}
			lg.Comps = append(lg.Comps, rw)
		}
		s.Ligs = append(s.Ligs, lg)
	}
	return s
}

func randFlags(r *vlib.Rand) (int, int) {
	f := vlib.Pick(r, flagVars)
	fl := f.flags
	if r.Chance(1, 3) {
		fl |= flagRTL
	}
	if r.Chance(1, 10) {
		fl |= vlib.Pick(r, []int{flagBase, flagLig, flagMarks})
	}
	return fl, f.mfs
}

func randGdef(r *vlib.Rand) *Gdef {
	switch r.Intn(6) {
	case 0:
		return nil
	case 1:
		// every glyph a mark / a ligature
		return &Gdef{Class: [][2]int{{gA, 3}, {gM, 3}, {gN, 3}, {gL, 2}, {gW, 2}, {gB, 2}}, Attach: [][2]int{{gA, 1}}, Sets: [][]int{{gA}, {}, {gM}}}
	}
	return fullGdef()
}

var oldPool = []func() c06.Sub{oldP1, oldP2, oldPP1, oldMB, oldLig, oldS2, oldMul}

func randomCase(r *vlib.Rand) (*Case, []string) {
	alphabet := []int{gA, gB, gL, gM, gN, gX, gW, gZ, gU}
	c := &Case{Gdef: randGdef(r)}
	nl := r.Range(1, 4)
	var labels []string
	for i := 0; i < nl; i++ {
		fl, mfs := randFlags(r)
		switch k := r.Intn(10); {
		case k < 4:
			lk := Lookup2{Kind: "cur", Flags: fl, MFS: mfs}
			for n := r.Range(1, 2); n > 0; n-- {
				lk.CSubs = append(lk.CSubs, randCSub(r, alphabet))
			}
			c.LL = append(c.LL, lk)
			labels = append(labels, "r:gpos3.1")
		case k < 7:
			lk := Lookup2{Kind: "mlig", Flags: fl, MFS: mfs}
			for n := r.Range(1, 2); n > 0; n-- {
				lk.MSubs = append(lk.MSubs, randMSub(r, alphabet))
			}
			c.LL = append(c.LL, lk)
			labels = append(labels, "r:gpos5.1")
		default:
			var sub c06.Sub
			if r.Chance(1, 6) {
				sub = oldCtx3(r.Intn(nl)) // may name a new lookup: outside the static domain
				labels = append(labels, "r:contextual")
			} else {
				sub = vlib.Pick(r, oldPool)()
			}
			c.LL = append(c.LL, Lookup2{Kind: "old", Flags: fl &^ flagRTL, MFS: mfs, Old: []c06.Sub{sub}})
			labels = append(labels, "r:c06-lookup")
		}
	}
	for n := r.Range(1, nl+2); n > 0; n-- {
		c.Order = append(c.Order, r.Intn(nl+1)) // one beyond the list now and then
	}
	for ns := r.Range(2, 6); ns > 0; ns-- {
		n := r.Range(0, 16)
		var s Seq
		for i := 0; i < n; i++ {
			g := Glyph{GID: vlib.Pick(r, alphabet), Text: []int{100 + i}}
			if r.Chance(1, 3) {
				g.X, g.Y = r.Range(-200, 200), r.Range(-200, 200)
			}
			if !isMarkGid(g.GID) || r.Chance(1, 8) {
				g.Adv = r.Range(0, 900)
			}
			if r.Chance(1, 60) {
				g.Y = vlib.Pick(r, []int{-32768, 32767, 32000})
			}
			if r.Chance(1, 12) {
				g.Text = nil
			} else if r.Chance(1, 12) {
				g.Text = []int{100 + i, 300 + i}
			}
			s.Glyphs = append(s.Glyphs, g)
		}
		if r.Chance(2, 3) {
			s.Comps = make([]int, n)
			for i := range s.Comps {
				if isMarkGid(s.Glyphs[i].GID) {
					s.Comps[i] = r.Intn(6)
				}
			}
			if n == 0 {
				s.Comps = nil
			}
		}
		c.Seqs = append(c.Seqs, s)
	}
	return c, labels
}
