package c06b

// The Go transcription of the extended reference shaper R_shape2
// (coq/C06B/Model.v): GPOS 3.1 and 5.1 written from the OpenType
// specification text and the decisions listed at the top of Model.v, C06's
// lookups delegated to C06's reference shaper (c06.ReferenceFull).  It is the
// replayable oracle; the extracted Coq model must print the same
// observations (correspondence check).

import (
	"seehuhn.de/go/sfnt/verifharness/c06"
)

const (
	flagRTL   = 0x0001
	flagBase  = 0x0002
	flagLig   = 0x0004
	flagMarks = 0x0008
	flagMFS   = 0x0010
	maskAtt   = 0xFF00

	classBase = 1
	classLig  = 2
	classMark = 3

	sizeCap = 1024
)

// Dv: the reasons why an input is outside the domain where the engine
// implements the rules (coq: record dv).  GPOS lookup types 3 and 5 are
// outside the quantifier of property C06; outside the domain only the
// reference speaks.
type Dv struct{ Flags, RTL, Null, Lig bool }

func (d Dv) or(e Dv) Dv {
	return Dv{d.Flags || e.Flags, d.RTL || e.RTL, d.Null || e.Null, d.Lig || e.Lig}
}
func (d Dv) none() bool { return !(d.Flags || d.RTL || d.Null || d.Lig) }

const (
	reasonFlags = "gpos3-partner-skipped-by-lookup-flags"
	reasonRTL   = "gpos3-righttoleft-set"
	reasonNull  = "gpos3-null-anchor-on-adjacent-pair"
	reasonLig   = "gpos5-lookup"
)

// what is observed outside the domain, one sentence per reason
var reasonText = map[string]string{
	reasonFlags: "Gpos3_1.apply takes seq[a-1] / seq[a+1] as the neighbours whatever the lookup flags say (gpos.go: TODO use ctx.Keep?); the rule joins a glyph with the next glyph the flags keep and subtracts the advances of the skipped glyphs between ('A M A' with IgnoreMarks: rule advance 490, y 40; engine nothing).",
	reasonRTL:   "Gpos3_1.apply never looks at RIGHT_TO_LEFT (gpos.go: TODO only correct if the flag is not set); the rule keeps the LAST glyph of a run on its baseline and places the earlier ones from their successors ('A A', entry (10,20) exit (500,60): rule y = -40, 0; engine y = 0, 40).",
	reasonNull:  "Gpos3_1.apply never tests an entry/exit anchor for NULL: a missing anchor is used as an anchor at (0,0); the rule attaches nothing without an anchor pair (final form with entry only + initial form with exit only, both covered: engine sets the first advance to 0 and overwrites the second y offset; rule: unchanged).",
	reasonLig:   "Gpos5_1.apply is a declared no-op (gpos5.go: TODO implement this; glyph.Info has no component association); the rule R_marklig places the mark on the anchor of its ligature component (reference only).",
}

func (d Dv) reasons() []string {
	var out []string
	if d.Flags {
		out = append(out, reasonFlags)
	}
	if d.RTL {
		out = append(out, reasonRTL)
	}
	if d.Null {
		out = append(out, reasonNull)
	}
	if d.Lig {
		out = append(out, reasonLig)
	}
	return out
}

func classOf(cd [][2]int, g int) int {
	for _, e := range cd {
		if e[0] == g {
			return e[1]
		}
	}
	return 0
}

func memInt(x int, l []int) bool {
	for _, y := range l {
		if x == y {
			return true
		}
	}
	return false
}

// keep: OpenType chapter 2, lookupFlag (IgnoreMarks > mark filtering set >
// mark attachment type).
func keep(gd *Gdef, flags, mfs, g int) bool {
	if gd == nil {
		return true
	}
	switch classOf(gd.Class, g) {
	case classBase:
		return flags&flagBase == 0
	case classLig:
		return flags&flagLig == 0
	case classMark:
		if flags&flagMarks != 0 {
			return false
		}
		if flags&flagMFS != 0 {
			if mfs >= len(gd.Sets) {
				return false
			}
			return memInt(g, gd.Sets[mfs])
		}
		if m := (flags & maskAtt) >> 8; m != 0 {
			return classOf(gd.Attach, g) == m
		}
	}
	return true
}

func isMark(gd *Gdef, g int) bool { return gd != nil && classOf(gd.Class, g) == classMark }

func fits16(v int) bool      { return v >= -32768 && v <= 32767 }
func glyphFits(g Glyph) bool { return fits16(g.X) && fits16(g.Y) && fits16(g.Adv) }

func cloneSeq(seq []Glyph) []Glyph {
	out := make([]Glyph, len(seq))
	for i, g := range seq {
		out[i] = g
		out[i].Text = append([]int(nil), g.Text...)
	}
	return out
}

func (s CSub) find(g int) *CEntry {
	for i := range s {
		if s[i].G == g {
			return &s[i]
		}
	}
	return nil
}

// ---- GPOS 3.1 ----

// prevKept / nextKept: the neighbour under the lookup flags, -1 if none.
func prevKept(kp func(int) bool, seq []Glyph, a int) int {
	for p := a - 1; p >= 0; p-- {
		if kp(seq[p].GID) {
			return p
		}
	}
	return -1
}
func nextKept(kp func(int) bool, seq []Glyph, a, b int) int {
	for p := a + 1; p < b && p < len(seq); p++ {
		if kp(seq[p].GID) {
			return p
		}
	}
	return -1
}

// cursiveAt applies one subtable at position a inside [a,b); matched = the
// glyph is in the coverage.
func cursiveAt(kp func(int) bool, rtl bool, seq []Glyph, a, b int, recs CSub) (matched, fits bool, dv Dv) {
	rec := recs.find(seq[a].GID)
	if rec == nil {
		return false, true, Dv{}
	}
	p := prevKept(kp, seq, a)
	n := nextKept(kp, seq, a, b)
	var prec, nrec *CEntry
	if p >= 0 {
		prec = recs.find(seq[p].GID)
	}
	if n >= 0 {
		nrec = recs.find(seq[n].GID)
	}
	g := seq[a]
	// line direction: the advance makes exit(a) and entry(next) coincide
	if rec.Exit != nil && nrec != nil && nrec.Entry != nil {
		between := 0
		for i := a + 1; i < n; i++ {
			between += seq[i].Adv
		}
		g.Adv = seq[a].X + rec.Exit[0] - seq[n].X - nrec.Entry[0] - between
	}
	// cross direction
	if rtl {
		if rec.Exit != nil && nrec != nil && nrec.Entry != nil {
			g.Y = seq[n].Y + nrec.Entry[1] - rec.Exit[1]
		}
	} else {
		if rec.Entry != nil && prec != nil && prec.Exit != nil {
			g.Y = seq[p].Y + prec.Exit[1] - rec.Entry[1]
		}
	}
	// out-of-domain reasons: the engine's partners are the adjacent glyphs
	rp, rn := -1, -1
	if prec != nil {
		rp = p
	}
	if nrec != nil {
		rn = n
	}
	ap, an := -1, -1
	var aprec, anrec *CEntry
	if a > 0 {
		if aprec = recs.find(seq[a-1].GID); aprec != nil {
			ap = a - 1
		}
	}
	if a+1 < b && a+1 < len(seq) {
		if anrec = recs.find(seq[a+1].GID); anrec != nil {
			an = a + 1
		}
	}
	dv.Flags = rp != ap || rn != an
	dv.Null = (ap >= 0 && (rec.Entry == nil || aprec.Exit == nil)) ||
		(an >= 0 && (rec.Exit == nil || anrec.Entry == nil))
	seq[a] = g
	return true, glyphFits(g), dv
}

func cursiveStep(gd *Gdef, lk *Lookup2, rtl bool, seq []Glyph, a int) (fits bool, dv Dv) {
	kp := func(g int) bool { return keep(gd, lk.Flags, lk.MFS, g) }
	if !kp(seq[a].GID) {
		return true, Dv{}
	}
	for _, recs := range lk.CSubs {
		if m, f, d := cursiveAt(kp, rtl, seq, a, len(seq), recs); m {
			return f, d
		}
	}
	return true, Dv{}
}

func sameGlyphs(a, b []Glyph) bool {
	if len(a) != len(b) {
		return false
	}
	for i := range a {
		if a[i].GID != b[i].GID || a[i].X != b[i].X || a[i].Y != b[i].Y || a[i].Adv != b[i].Adv ||
			len(a[i].Text) != len(b[i].Text) {
			return false
		}
		for j := range a[i].Text {
			if a[i].Text[j] != b[i].Text[j] {
				return false
			}
		}
	}
	return true
}

// runCursive: forward scan, or from the end when RIGHT_TO_LEFT is set (then
// outside the domain: the engine never looks at the flag).
func runCursive(gd *Gdef, lk *Lookup2, in []Glyph) (out []Glyph, ok bool, dv Dv) {
	rtl := lk.Flags&flagRTL != 0
	if rtl {
		dv.RTL = true
	}
	if len(in) > sizeCap {
		// coq: the scans give up at the size cap of C06's scan
		return in, false, dv
	}
	out = cloneSeq(in)
	ok = true
	step := func(a int) {
		f, d := cursiveStep(gd, lk, rtl, out, a)
		ok = ok && f
		dv = dv.or(d)
	}
	if rtl {
		for a := len(out) - 1; a >= 0; a-- {
			step(a)
		}
	} else {
		for a := 0; a < len(out); a++ {
			step(a)
		}
	}
	return out, ok, dv
}

// ---- GPOS 5.1 ----

func compIndex(n, c int) int {
	if 1 <= c && c <= n {
		return c - 1
	}
	return n - 1
}

func markligAt(gd *Gdef, kp func(int) bool, comps []int, seq []Glyph, a int, sub *MSub) (matched, fits bool, dv Dv) {
	var mk *MarkRec
	for i := range sub.Marks {
		if sub.Marks[i].G == seq[a].GID {
			mk = &sub.Marks[i]
			break
		}
	}
	if mk == nil {
		return false, true, Dv{}
	}
	// the ligature: walking back over marks and over glyphs the flags skip,
	// the first other glyph
	p := a - 1
	for p >= 0 && !(kp(seq[p].GID) && !isMark(gd, seq[p].GID)) {
		p--
	}
	if p < 0 {
		return false, true, Dv{}
	}
	var lg *LigRec
	for i := range sub.Ligs {
		if sub.Ligs[i].G == seq[p].GID {
			lg = &sub.Ligs[i]
			break
		}
	}
	if lg == nil {
		return false, true, Dv{}
	}
	c := 0
	if a < len(comps) {
		c = comps[a]
	}
	k := compIndex(len(lg.Comps), c)
	if k < 0 || k >= len(lg.Comps) {
		return false, true, Dv{}
	}
	row := lg.Comps[k]
	if mk.Cls >= len(row) || row[mk.Cls] == nil {
		return false, true, Dv{}
	}
	dx := row[mk.Cls][0] - mk.X
	dy := row[mk.Cls][1] - mk.Y
	for i := p; i < a; i++ {
		dx -= seq[i].Adv
	}
	g := seq[a]
	g.X += dx
	g.Y += dy
	seq[a] = g
	return true, glyphFits(g), dv
}

// runMarkLig: always outside the domain (the engine declares lookup type 5
// unimplemented).
func runMarkLig(gd *Gdef, lk *Lookup2, comps []int, in []Glyph) (out []Glyph, ok bool, dv Dv) {
	dv.Lig = true
	if len(in) > sizeCap {
		return in, false, dv
	}
	if len(comps) != len(in) {
		comps = nil
	}
	kp := func(g int) bool { return keep(gd, lk.Flags, lk.MFS, g) }
	out = cloneSeq(in)
	ok = true
	for a := 0; a < len(out); a++ {
		if !kp(out[a].GID) {
			continue
		}
		for i := range lk.MSubs {
			if m, f, d := markligAt(gd, kp, comps, out, a, &lk.MSubs[i]); m {
				ok = ok && f
				dv = dv.or(d)
				break
			}
		}
	}
	return out, ok, dv
}

// ---- the lookup list ----

// projected list for C06's reference shaper: a new lookup is a lookup
// without subtables
func projLL(ll []Lookup2) []c06.Lookup {
	out := make([]c06.Lookup, len(ll))
	for i := range ll {
		out[i] = c06.Lookup{Flags: ll[i].Flags, MFS: ll[i].MFS}
		if ll[i].Kind == "old" {
			out[i].Subs = ll[i].Old
		}
	}
	return out
}

func anchorStatic(a Anchor) bool { return a == nil || a[0] != 0 || a[1] != 0 }

func nodup(xs []int) bool {
	seen := map[int]bool{}
	for _, x := range xs {
		if seen[x] {
			return false
		}
		seen[x] = true
	}
	return true
}

func subActions(s *c06.Sub) []c06.Action {
	var out []c06.Action
	switch s.Kind {
	case "c1":
		for _, cs := range s.CSets {
			for _, r := range cs.Rules {
				out = append(out, r.Acts...)
			}
		}
	case "c2":
		for _, rs := range s.CRules {
			for _, r := range rs {
				out = append(out, r.Acts...)
			}
		}
	case "c3", "k3":
		out = append(out, s.Acts...)
	case "k1":
		for _, ks := range s.KSets {
			for _, r := range ks.Rules {
				out = append(out, r.Acts...)
			}
		}
	case "k2":
		for _, rs := range s.KRules {
			for _, r := range rs {
				out = append(out, r.Acts...)
			}
		}
	}
	return out
}

// static part of the domain that is new in this part (the rest is C06's
// static_ok on the projected list, decided by c06.ReferenceFull)
func newStatic(ll []Lookup2) bool {
	for i := range ll {
		switch ll[i].Kind {
		case "old":
			for j := range ll[i].Old {
				for _, act := range subActions(&ll[i].Old[j]) {
					if act.Lookup >= 0 && act.Lookup < len(ll) && ll[act.Lookup].Kind != "old" {
						return false
					}
				}
			}
		case "cur":
			for _, recs := range ll[i].CSubs {
				var ks []int
				for _, e := range recs {
					ks = append(ks, e.G)
					if !anchorStatic(e.Entry) || !anchorStatic(e.Exit) {
						return false
					}
				}
				if !nodup(ks) {
					return false
				}
			}
		case "mlig":
			for _, s := range ll[i].MSubs {
				var mk, lk []int
				for _, m := range s.Marks {
					mk = append(mk, m.G)
				}
				for _, lg := range s.Ligs {
					lk = append(lk, lg.G)
					for _, row := range lg.Comps {
						for _, a := range row {
							if !anchorStatic(a) {
								return false
							}
						}
						for _, m := range s.Marks {
							if m.Cls >= len(row) {
								return false
							}
						}
					}
				}
				if !nodup(mk) || !nodup(lk) {
					return false
				}
			}
		}
	}
	return true
}

// Reference2 runs the extended reference shaper.  defined: the outcome is
// defined by the rules (for C06's lookups: inside C06's in_domain, open
// findings of C06 excluded); dv: the reasons for being outside the domain
// where the engine implements the rules (none = in_domain2).
func Reference2(ll []Lookup2, gd *Gdef, order []int, in Seq) (out []Glyph, defined bool, dv Dv) {
	pl := projLL(ll)
	seq := cloneSeq(in.Glyphs)
	// static domain of C06 on the projected list + the input glyphs fit int16
	_, ok, _ := c06.ReferenceFull(pl, gd, nil, seq)
	ok = ok && newStatic(ll)
	for _, li := range order {
		if li < 0 || li >= len(ll) {
			continue
		}
		lk := &ll[li]
		switch lk.Kind {
		case "old":
			o, lok, ldiv := c06.ReferenceFull(pl, gd, []int{li}, seq)
			// a known divergence of the engine inside C06's lookups (C06's open
			// findings) is outside C06's in_domain: reported by C06's own harness
			seq = o
			ok = ok && lok && ldiv == ""
		case "cur":
			o, lok, d := runCursive(gd, lk, seq)
			seq, ok, dv = o, ok && lok, dv.or(d)
		case "mlig":
			o, lok, d := runMarkLig(gd, lk, in.Comps, seq)
			seq, ok, dv = o, ok && lok, dv.or(d)
		}
	}
	return seq, ok, dv
}
