package main

import (
	"seehuhn.de/go/sfnt/verifharness/c06b"
	"seehuhn.de/go/sfnt/verifharness/vlib"
)

func main() { vlib.Main(c06b.Gen, c06b.RunCase) }
